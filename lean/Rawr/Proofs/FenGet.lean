import Rawr.Proofs.FenBoardPrint
import Rawr.Proofs.FenDecimal
import Rawr.Proofs.FlipLemmas
/-! `get_fen` on valid positions prints the canonical X-FEN of the absolute position:
`getFen p = some (Spec.printFen (abs p) .xfen)`. -/
set_option linter.unusedSimpArgs false
namespace Rawr
open Spec

namespace FenGet

/-- the body of `getFen` after the choice of the White-point-of-view position `np`
(`b` = Black to move). -/
def body (np : Position) (b : Bool) : Option (List Char) := do
  let board ← getFen.ranks np 8 7 []
  let side := if b then " b".toList else " w".toList
  let castling :=
    if !np.usK && !np.usQ && !np.themK && !np.themQ then " -".toList
    else ' ' :: ((if np.usK then [castleLetterOut (np.c0 &&& np.p3) np.cf0 0 true] else []) ++
                 (if np.usQ then [castleLetterOut (np.c0 &&& np.p3) np.cf1 0 false] else []) ++
                 (if np.themK then [castleLetterOut (np.c1 &&& np.p3) np.cf2 7 true] else []) ++
                 (if np.themQ then [castleLetterOut (np.c1 &&& np.p3) np.cf3 7 false] else []))
  let ep := match np.ep with
    | some sq => ' ' :: sqName sq
    | none => " -".toList
  some (board ++ side ++ castling ++ ep ++ [' '] ++ intToChars np.halfmoves ++ [' '] ++ intToChars np.fullmoves)

theorem getFen_eq_body (p : Position) :
    getFen p = body (if p.black then p.flip else p) p.black := rfl

/-! ### rook bits vs. the absolute board -/

theorem cell_rook_white : ∀ u v q0 q1 q2 q3 q4 q5 : Bool, ZH.cellOk u v q0 q1 q2 q3 q4 q5 = true →
    (ZH.cellPiece false u v q0 q1 q2 q3 q4 q5 == some (⟨true, .rook⟩ : Piece)) = (u && q3) := by
  decide

theorem cell_rook_black : ∀ u v q0 q1 q2 q3 q4 q5 : Bool, ZH.cellOk u v q0 q1 q2 q3 q4 q5 = true →
    (ZH.cellPiece false u v q0 q1 q2 q3 q4 q5 == some (⟨false, .rook⟩ : Piece)) = (v && q3) := by
  decide

theorem rook_white (np : Position) (hb : np.black = false) (hC : Consistent np = true) (s : Nat)
    (hs : s < 64) :
    (np.c0 &&& np.p3).isSet s = (absBoard np s == some (⟨true, .rook⟩ : Piece)) := by
  rw [ZH.absBoard_eq np s hs]
  simp only [hb, maybeFlip, Bool.false_eq_true, if_false, BB.isSet, BitVec.getLsbD_and]
  exact (cell_rook_white _ _ _ _ _ _ _ _ (ZH.cellOk_of_consistent hC s)).symm

theorem rook_black (np : Position) (hb : np.black = false) (hC : Consistent np = true) (s : Nat)
    (hs : s < 64) :
    (np.c1 &&& np.p3).isSet s = (absBoard np s == some (⟨false, .rook⟩ : Piece)) := by
  rw [ZH.absBoard_eq np s hs]
  simp only [hb, maybeFlip, Bool.false_eq_true, if_false, BB.isSet, BitVec.getLsbD_and]
  exact (cell_rook_black _ _ _ _ _ _ _ _ (ZH.cellOk_of_consistent hC s)).symm

/-! ### the castling letter -/

theorem not_any_eq_all {α : Type} (p q : α → Bool) :
    ∀ l : List α, (∀ x ∈ l, q x = !p x) → (!(l.any p)) = l.all q
  | [], _ => rfl
  | x :: l, h => by
    have ih := not_any_eq_all p q l (fun y hy => h y (List.mem_cons_of_mem _ hy))
    simp only [List.any_cons, List.all_cons, Bool.not_or, ih, h x List.mem_cons_self]

/-- the specification's letter for one castling right. -/
def one (b : Board) (o : Option Nat) (white ks : Bool) : List Char :=
  match o with
  | none => []
  | some f =>
    let letter := if ks then 'k' else 'q'
    let fileL := Char.ofNat ('a'.toNat + f)
    let c := if outermost b white ks f then letter else fileL
    [if white then c.toUpper else c]

theorem castleField_eq (a : APos) :
    castleField a .xfen =
      (let s := one a.board a.wK true true ++ one a.board a.wQ true false ++
                one a.board a.bK false true ++ one a.board a.bQ false false
       if s.isEmpty then ['-'] else s) := rfl

theorem letter_eq (rooks : BB) (b : Board) (white : Bool) (rank : Nat)
    (hrank : (homeRank white).toNat = rank) (hw : (rank == 0) = white)
    (H : ∀ g, g < 8 → rooks.isSet (fromCoords g rank) = (b (g + 8 * rank) == some (⟨white, .rook⟩ : Piece)))
    (ks : Bool) (file : Nat) :
    [castleLetterOut rooks file rank ks] = one b (some file) white ks := by
  have houter : (if ks then !((List.range 8).any fun f => f > file && rooks.isSet (fromCoords f rank))
      else !((List.range 8).any fun f => f < file && rooks.isSet (fromCoords f rank)))
      = outermost b white ks file := by
    unfold outermost
    simp only [hrank]
    cases ks
    · simp only [Bool.false_eq_true, if_false]
      apply not_any_eq_all
      intro g hg
      rw [H g (List.mem_range.mp hg)]
      by_cases hc : g < file <;> simp [hc, bne]
    · simp only [if_true]
      apply not_any_eq_all
      intro g hg
      rw [H g (List.mem_range.mp hg)]
      by_cases hc : g > file <;> simp [hc, bne]
  unfold castleLetterOut one
  simp only [houter, hw]
  cases outermost b white ks file <;> cases white <;> simp

/-! ### the fields -/

theorem castling_eq (np : Position) (a : APos) (hb : np.black = false) (hC : Consistent np = true)
    (hboard : a.board = absBoard np)
    (hwK : a.wK = if np.usK then some np.cf0 else none)
    (hwQ : a.wQ = if np.usQ then some np.cf1 else none)
    (hbK : a.bK = if np.themK then some np.cf2 else none)
    (hbQ : a.bQ = if np.themQ then some np.cf3 else none) :
    (if !np.usK && !np.usQ && !np.themK && !np.themQ then " -".toList
      else ' ' :: ((if np.usK then [castleLetterOut (np.c0 &&& np.p3) np.cf0 0 true] else []) ++
                 (if np.usQ then [castleLetterOut (np.c0 &&& np.p3) np.cf1 0 false] else []) ++
                 (if np.themK then [castleLetterOut (np.c1 &&& np.p3) np.cf2 7 true] else []) ++
                 (if np.themQ then [castleLetterOut (np.c1 &&& np.p3) np.cf3 7 false] else [])))
      = ' ' :: castleField a .xfen := by
  have H0 : ∀ g, g < 8 → (np.c0 &&& np.p3).isSet (fromCoords g 0)
      = (a.board (g + 8 * 0) == some (⟨true, .rook⟩ : Piece)) := by
    intro g hg
    have e : fromCoords g 0 = g + 8 * 0 := by simp only [fromCoords]; omega
    rw [e, hboard]
    exact rook_white np hb hC _ (by omega)
  have H7 : ∀ g, g < 8 → (np.c1 &&& np.p3).isSet (fromCoords g 7)
      = (a.board (g + 8 * 7) == some (⟨false, .rook⟩ : Piece)) := by
    intro g hg
    have e : fromCoords g 7 = g + 8 * 7 := by simp only [fromCoords]; omega
    rw [e, hboard]
    exact rook_black np hb hC _ (by omega)
  have L0 := letter_eq (np.c0 &&& np.p3) a.board true 0 rfl rfl H0
  have L7 := letter_eq (np.c1 &&& np.p3) a.board false 7 rfl rfl H7
  have e1 : one a.board (if np.usK then some np.cf0 else none) true true
      = if np.usK then [castleLetterOut (np.c0 &&& np.p3) np.cf0 0 true] else [] := by
    cases np.usK
    · rfl
    · simp only [if_true, L0]
  have e2 : one a.board (if np.usQ then some np.cf1 else none) true false
      = if np.usQ then [castleLetterOut (np.c0 &&& np.p3) np.cf1 0 false] else [] := by
    cases np.usQ
    · rfl
    · simp only [if_true, L0]
  have e3 : one a.board (if np.themK then some np.cf2 else none) false true
      = if np.themK then [castleLetterOut (np.c1 &&& np.p3) np.cf2 7 true] else [] := by
    cases np.themK
    · rfl
    · simp only [if_true, L7]
  have e4 : one a.board (if np.themQ then some np.cf3 else none) false false
      = if np.themQ then [castleLetterOut (np.c1 &&& np.p3) np.cf3 7 false] else [] := by
    cases np.themQ
    · rfl
    · simp only [if_true, L7]
  have hd : " -".toList = [' ', '-'] := rfl
  rw [castleField_eq, hwK, hwQ, hbK, hbQ, e1, e2, e3, e4, hd]
  cases np.usK <;> cases np.usQ <;> cases np.themK <;> cases np.themQ <;> rfl

theorem ep_eq (o : Option Nat) :
    (match o with
      | some sq => ' ' :: sqName sq
      | none => " -".toList) = ' ' :: (match o with | some e => sqChars e | none => ['-']) := by
  cases o <;> rfl

/-- the printer on a White-point-of-view, board-consistent position `np` whose fields are those of
the absolute position `a`. -/
theorem body_eq (np : Position) (b : Bool) (a : APos) (hb : np.black = false)
    (hC : Consistent np = true)
    (hboard : a.board = absBoard np)
    (hwtm : a.whiteToMove = !b)
    (hwK : a.wK = if np.usK then some np.cf0 else none)
    (hwQ : a.wQ = if np.usQ then some np.cf1 else none)
    (hbK : a.bK = if np.themK then some np.cf2 else none)
    (hbQ : a.bQ = if np.themQ then some np.cf3 else none)
    (hep : a.ep = np.ep) (hhalf : a.half = np.halfmoves) (hfull : a.full = np.fullmoves)
    (hh0 : 0 ≤ np.halfmoves) (hh1 : np.halfmoves < 2147483648)
    (hf0 : 0 ≤ np.fullmoves) (hf1 : np.fullmoves < 2147483648) :
    body np b = some (printFen a .xfen) := by
  unfold body
  rw [ranks_eq_printBoard np hb hC]
  simp only [Option.bind_eq_bind, Option.bind_some, bind, pure]
  rw [castling_eq np a hb hC hboard hwK hwQ hbK hbQ, ep_eq, intToChars_eq_intChars _ hh0 hh1,
    intToChars_eq_intChars _ hf0 hf1]
  unfold printFen
  rw [hboard, hwtm, hep, hhalf, hfull]
  have hs : (if b = true then " b".toList else " w".toList) = [' ', if (!b) = true then 'w' else 'b'] := by
    cases b <;> rfl
  rw [hs]
  simp only [List.append_assoc, List.cons_append, List.nil_append]
  cases np.ep <;> rfl

/-! ### the flipped position -/

theorem consistent_flip (p : Position) (h : Consistent p = true) : Consistent p.flip = true := by
  simp only [Consistent, Bool.and_eq_true, beq_iff_eq] at h ⊢
  obtain ⟨⟨⟨⟨⟨⟨⟨⟨⟨⟨⟨⟨⟨⟨⟨⟨h0, h1⟩, h2⟩, h3⟩, h4⟩, h5⟩, h6⟩, h7⟩, h8⟩, h9⟩, h10⟩, h11⟩, h12⟩, h13⟩, h14⟩, h15⟩, h16⟩ := h
  simp only [Position.flip_c0, Position.flip_c1, Position.flip_p0, Position.flip_p1, Position.flip_p2,
    Position.flip_p3, Position.flip_p4, Position.flip_p5, ← flipBB_and_distrib, ← flipBB_or_distrib,
    BitVec.and_comm p.c1 p.c0, BitVec.or_comm p.c1 p.c0,
    h0, h1, h2, h3, h4, h5, h6, h7, h8, h9, h10, h11, h12, h13, h14, h15, h16, flipBB_zero, and_self]

theorem cell_swap : ∀ t u v q0 q1 q2 q3 q4 q5 : Bool, ZH.cellOk u v q0 q1 q2 q3 q4 q5 = true →
    ZH.cellPiece (!t) v u q0 q1 q2 q3 q4 q5 = ZH.cellPiece t u v q0 q1 q2 q3 q4 q5 := by
  decide

theorem absBoard_flip (p : Position) (hC : Consistent p = true) : absBoard p.flip = absBoard p := by
  funext a
  by_cases ha : a < 64
  · rw [ZH.absBoard_eq _ a ha, ZH.absBoard_eq _ a ha]
    have hlt : maybeFlip a (!p.black) < 64 := ZH.maybeFlip_lt _ ha
    have hx : maybeFlip a (!p.black) ^^^ 56 = maybeFlip a p.black := by
      cases p.black
      · exact ZH.xor56_xor56 a
      · rfl
    simp only [Position.flip_c0, Position.flip_c1, Position.flip_p0, Position.flip_p1, Position.flip_p2,
      Position.flip_p3, Position.flip_p4, Position.flip_p5, Position.flip_black,
      flipBB_getLsbD_xor _ _ hlt, hx]
    exact cell_swap _ _ _ _ _ _ _ _ _ (ZH.cellOk_of_consistent hC _)
  · simp only [absBoard, ha, if_false]

end FenGet

/-- C06: on valid positions `get_fen` prints the canonical X-FEN of the absolute position. -/
theorem getFen_eq_printFen (p : Position) (hV : ValidPos p = true) :
    getFen p = some (Spec.printFen (abs p) .xfen) := by
  have hV' := hV
  simp only [ValidPos, Bool.and_eq_true, decide_eq_true_eq] at hV'
  obtain ⟨⟨⟨⟨⟨⟨⟨⟨hC, hS⟩, hh1⟩, hf1⟩, _⟩, _⟩, _⟩, _⟩, _⟩ := hV'
  unfold Spec.Valid at hS
  simp only [Bool.and_eq_true, decide_eq_true_eq] at hS
  obtain ⟨⟨_, hh0⟩, hf0⟩ := hS
  have hh0 : 0 ≤ p.halfmoves := hh0
  have hf0 : 0 ≤ p.fullmoves := by have : 1 ≤ p.fullmoves := hf0; omega
  rw [FenGet.getFen_eq_body]
  cases hbk : p.black
  · simp only [Bool.false_eq_true, if_false]
    refine FenGet.body_eq p false (abs p) hbk hC rfl ?_ ?_ ?_ ?_ ?_ ?_ rfl rfl hh0 hh1 hf0 hf1
    · simp only [abs, hbk, Bool.not_false]
    · simp only [abs, hbk, Bool.false_eq_true, if_false]
    · simp only [abs, hbk, Bool.false_eq_true, if_false]
    · simp only [abs, hbk, Bool.false_eq_true, if_false]
    · simp only [abs, hbk, Bool.false_eq_true, if_false]
    · show p.ep.map (absSq p.black) = p.ep
      rw [hbk]
      cases p.ep <;> rfl
  · simp only [if_true]
    refine FenGet.body_eq p.flip true (abs p) (by simp only [Position.flip_black, hbk, Bool.not_true])
      (FenGet.consistent_flip p hC) (FenGet.absBoard_flip p hC).symm ?_ ?_ ?_ ?_ ?_ ?_ rfl rfl hh0 hh1 hf0 hf1
    · simp only [abs, hbk, Bool.not_true]
    · simp only [abs, hbk, if_true, Position.flip]
    · simp only [abs, hbk, if_true, Position.flip]
    · simp only [abs, hbk, if_true, Position.flip]
    · simp only [abs, hbk, if_true, Position.flip]
    · show p.ep.map (absSq p.black) = p.ep.map flipSq
      rw [hbk]
      cases p.ep <;> rfl

/-! ### non-vacuity -/

example : ValidPos Gen.startpos = true := by decide +kernel

example : getFen Gen.startpos =
    some "rnbqkbnr/pppppppp/8/8/8/8/PPPPPPPP/RNBQKBNR w KQkq - 0 1".toList := by decide +kernel

/-- the theorem transports the evaluation of the engine's printer to the specification printer. -/
example : Spec.printFen (abs Gen.startpos) .xfen =
    "rnbqkbnr/pppppppp/8/8/8/8/PPPPPPPP/RNBQKBNR w KQkq - 0 1".toList := by
  have h := getFen_eq_printFen Gen.startpos (by decide +kernel)
  have h' : getFen Gen.startpos =
      some "rnbqkbnr/pppppppp/8/8/8/8/PPPPPPPP/RNBQKBNR w KQkq - 0 1".toList := by decide +kernel
  exact (Option.some.inj (h.symm.trans h')).symm

/-- a Black-to-move position (stored flipped) with an en-passant square, an inner rook (file letter
`C` in X-FEN) and partial rights. -/
def FenGet.exBlack : Option Position :=
  setFen .wrap false "1r2k2r/8/8/8/4P3/8/8/R1R1K3 b Ck e3 5 17".toList

example : (FenGet.exBlack.map fun p => (p.black, ValidPos p, getFen p)) =
    some (true, true, some "1r2k2r/8/8/8/4P3/8/8/R1R1K3 b Ck e3 5 17".toList) := by decide +kernel

#print axioms getFen_eq_printFen

end Rawr
