import Rawr.Proofs.HashFacts
/-! The board effect of every `makemove` stage as XOR-deltas on `(c0, c1, piece k)`. -/
namespace Rawr.ZH
open Rawr Rawr.Position

structure SameMeta (s s' : Position) : Prop where
  black : s'.black = s.black
  usK : s'.usK = s.usK
  usQ : s'.usQ = s.usQ
  themK : s'.themK = s.themK
  themQ : s'.themQ = s.themQ
  hash : s'.hash = s.hash

structure BoardEff (s s' : Position) (d0 d1 : BB) (dP : Nat → BB) : Prop where
  c0 : s'.c0 = s.c0 ^^^ d0
  c1 : s'.c1 = s.c1 ^^^ d1
  P : ∀ k, s'.piece k = s.piece k ^^^ dP k
  sm : SameMeta s s'

theorem SameMeta.refl (s : Position) : SameMeta s s := ⟨rfl, rfl, rfl, rfl, rfl, rfl⟩

theorem SameMeta.trans {a b c : Position} (h1 : SameMeta a b) (h2 : SameMeta b c) : SameMeta a c :=
  ⟨h2.black.trans h1.black, h2.usK.trans h1.usK, h2.usQ.trans h1.usQ,
   h2.themK.trans h1.themK, h2.themQ.trans h1.themQ, h2.hash.trans h1.hash⟩

theorem BoardEff.refl (s : Position) : BoardEff s s 0#64 0#64 (fun _ => 0#64) :=
  ⟨by simp, by simp, by simp, SameMeta.refl s⟩

theorem BoardEff.trans {a b c : Position} {d0 d1 e0 e1 : BB} {dP eP : Nat → BB}
    (h1 : BoardEff a b d0 d1 dP) (h2 : BoardEff b c e0 e1 eP) :
    BoardEff a c (d0 ^^^ e0) (d1 ^^^ e1) (fun k => dP k ^^^ eP k) :=
  ⟨by rw [h2.c0, h1.c0, BitVec.xor_assoc], by rw [h2.c1, h1.c1, BitVec.xor_assoc],
   by intro k; rw [h2.P, h1.P, BitVec.xor_assoc], h1.sm.trans h2.sm⟩

theorem setPiece_eff (s : Position) (i : Nat) (d : BB) (hi : i < 6) :
    BoardEff s (s.setPiece i (s.piece i ^^^ d)) 0#64 0#64 (fun k => cnd (k = i) d) := by
  obtain ⟨h1, h2, h3, h4, h5, h6, h7, h8, h9⟩ := setPiece_other s i (s.piece i ^^^ d)
  exact ⟨by simp [h1], by simp [h2], fun k => setPiece_piece_xor s i k d hi, ⟨h4, h5, h6, h7, h8, h9⟩⟩

theorem relocate_eff (p : Position) (m : Mv) (i : Nat) (h : BB) (hi : i < 6) :
    BoardEff { p with hash := h } (stRelocate p m i h) (bit m.src ||| bit m.dst) 0#64
      (fun k => cnd (k = i) (bit m.src ||| bit m.dst)) := by
  unfold stRelocate
  have e := setPiece_eff { p with hash := h, c0 := p.c0 ^^^ (bit m.src ||| bit m.dst), halfmoves := p.halfmoves + 1 }
    i (bit m.src ||| bit m.dst) hi
  exact ⟨by simp [e.c0], by simp [e.c1], fun k => by rw [e.P]; rfl,
    ⟨e.sm.black, e.sm.usK, e.sm.usQ, e.sm.themK, e.sm.themQ, e.sm.hash⟩⟩

theorem capStep_eff (s : Position) (m : Mv) (c : Nat) (hc : c < 6) :
    BoardEff s (capStep s m c) 0#64 (bit m.dst) (fun k => cnd (k = c) (bit m.dst)) := by
  unfold capStep
  have e := setPiece_eff { s with c1 := s.c1 ^^^ bit m.dst, halfmoves := 0 } c (bit m.dst) hc
  exact ⟨by simp [e.c0], by simp [e.c1], fun k => by rw [e.P]; rfl,
    ⟨e.sm.black, e.sm.usK, e.sm.usQ, e.sm.themK, e.sm.themQ, e.sm.hash⟩⟩

theorem clock_eff (s : Position) (i : Nat) : BoardEff s (stClock s i) 0#64 0#64 (fun _ => 0#64) := by
  unfold stClock
  split
  · exact ⟨by simp, by simp, fun k => by simp; rfl, ⟨rfl, rfl, rfl, rfl, rfl, rfl⟩⟩
  · exact BoardEff.refl s

theorem p0_upd_piece (s : Position) (c1' d : BB) (k : Nat) :
    ({ s with c1 := c1', p0 := s.p0 ^^^ d } : Position).piece k = s.piece k ^^^ cnd (k = 0) d := by
  unfold Position.piece cnd
  split <;> simp_all

theorem epStep_eff (s : Position) (e : Nat) :
    BoardEff s (epStep s e) 0#64 (south (bit e)) (fun k => cnd (k = 0) (south (bit e))) := by
  unfold epStep
  exact ⟨by simp, rfl, fun k => p0_upd_piece s _ _ k, ⟨rfl, rfl, rfl, rfl, rfl, rfl⟩⟩

theorem promo_eff (s : Position) (m : Mv) (hp : m.promo < 6) (h6 : m.promo ≠ 6) :
    BoardEff s (stPromo s m) 0#64 0#64
      (fun k => cnd (k = 0) (bit m.dst) ^^^ cnd (k = m.promo) (bit m.dst)) := by
  unfold stPromo
  have h : (m.promo != 6) = true := by simp [h6]
  simp only [h, if_true]
  have e := setPiece_eff { s with p0 := s.p0 ^^^ bit m.dst } m.promo (bit m.dst) hp
  refine ⟨by simp [e.c0], by simp [e.c1], fun k => ?_,
    ⟨e.sm.black, e.sm.usK, e.sm.usQ, e.sm.themK, e.sm.themQ, e.sm.hash⟩⟩
  rw [e.P]
  have := p0_upd_piece s s.c1 (bit m.dst) k
  rw [this, BitVec.xor_assoc]

theorem promo_none (s : Position) (m : Mv) (h6 : m.promo = 6) : stPromo s m = s := by
  unfold stPromo
  simp [h6]

theorem castle_none (s : Position) (m : Mv) (a b : Nat) (h : (s.p5 &&& s.p3).isOcc = false) :
    stCastle s m a b = s := by
  unfold stCastle
  simp [h]

/-- the castling stage, either side: `kTo`/`rTo` are 6/5 or 2/3, `rsq` the rook square. -/
theorem castle_eff_K (s : Position) (m : Mv) (a b : Nat) (h : (s.p5 &&& s.p3).isOcc = true)
    (hd : m.dst > m.src) :
    BoardEff s (stCastle s m a b)
      ((bit m.src ||| bit m.dst) ^^^ bit m.src ^^^ bit 6 ^^^ bit a ^^^ bit 5) 0#64
      (fun k => cnd (k = 5) ((bit m.src ||| bit m.dst) ^^^ bit m.src ^^^ bit 6) ^^^
        cnd (k = 3) (bit a ^^^ bit 5)) := by
  unfold stCastle
  simp only [h, hd, decide_true, Bool.and_self, if_true]
  refine ⟨by simp [BitVec.xor_assoc], by simp, fun k => ?_, ⟨rfl, rfl, rfl, rfl, rfl, rfl⟩⟩
  unfold Position.piece cnd
  split <;> simp_all [BitVec.xor_assoc]

theorem castle_eff_Q (s : Position) (m : Mv) (a b : Nat) (h : (s.p5 &&& s.p3).isOcc = true)
    (hd : m.dst < m.src) :
    BoardEff s (stCastle s m a b)
      ((bit m.src ||| bit m.dst) ^^^ bit m.src ^^^ bit 2 ^^^ bit b ^^^ bit 3) 0#64
      (fun k => cnd (k = 5) ((bit m.src ||| bit m.dst) ^^^ bit m.src ^^^ bit 2) ^^^
        cnd (k = 3) (bit b ^^^ bit 3)) := by
  unfold stCastle
  have hn : ¬ (m.dst > m.src) := by omega
  simp only [h, hd, hn, decide_true, decide_false, Bool.and_self, Bool.and_false, Bool.false_eq_true, if_true, if_false]
  refine ⟨by simp [BitVec.xor_assoc], by simp, fun k => ?_, ⟨rfl, rfl, rfl, rfl, rfl, rfl⟩⟩
  unfold Position.piece cnd
  split <;> simp_all [BitVec.xor_assoc]

/-! ### the en-passant field through the stages -/

theorem relocate_ep (p : Position) (m : Mv) (i : Nat) (h : BB) : (stRelocate p m i h).ep = p.ep := by
  unfold stRelocate
  exact (setPiece_other _ _ _).2.2.1

theorem capStep_ep (s : Position) (m : Mv) (c : Nat) : (capStep s m c).ep = s.ep := by
  unfold capStep
  exact (setPiece_other _ _ _).2.2.1

theorem clock_ep (s : Position) (i : Nat) : (stClock s i).ep = s.ep := by
  unfold stClock
  split <;> rfl

theorem castle_ep (s : Position) (m : Mv) (a b : Nat) : (stCastle s m a b).ep = s.ep := by
  unfold stCastle
  simp only []
  split
  · rfl
  · split <;> rfl

theorem promo_ep (s : Position) (m : Mv) : (stPromo s m).ep = s.ep := by
  unfold stPromo
  split
  · exact (setPiece_other _ _ _).2.2.1
  · rfl

/-! ### the two stages that touch only en-passant state / rights -/

theorem double_fields (s : Position) (m : Mv) (i : Nat) :
    (stDouble s m i).c0 = s.c0 ∧ (stDouble s m i).c1 = s.c1 ∧ (stDouble s m i).piece = s.piece ∧
    (stDouble s m i).p5 = s.p5 ∧ (stDouble s m i).p3 = s.p3 ∧
    SameMeta s (stDouble s m i) ∧
    (stDouble s m i).ep = if (i == 0 && m.dst - m.src == 16) = true then some (m.dst - 8) else none := by
  unfold stDouble
  split <;> exact ⟨rfl, rfl, rfl, rfl, rfl, ⟨rfl, rfl, rfl, rfl, rfl, rfl⟩, by simp [*]⟩

theorem rights_fields (s : Position) (m : Mv) (a b c d e f : Nat) :
    (stRights s m a b c d e f).c0 = s.c0 ∧ (stRights s m a b c d e f).c1 = s.c1 ∧
    (stRights s m a b c d e f).piece = s.piece ∧ (stRights s m a b c d e f).black = s.black ∧
    (stRights s m a b c d e f).hash = s.hash ∧ (stRights s m a b c d e f).ep = s.ep ∧
    (stRights s m a b c d e f).usK = (s.usK && (m.src != a && m.src != c && m.dst != c)) ∧
    (stRights s m a b c d e f).usQ = (s.usQ && (m.src != a && m.src != d && m.dst != d)) ∧
    (stRights s m a b c d e f).themK = (s.themK && (m.src != b && m.src != e && m.dst != e)) ∧
    (stRights s m a b c d e f).themQ = (s.themQ && (m.src != b && m.src != f && m.dst != f)) :=
  ⟨rfl, rfl, rfl, rfl, rfl, rfl, rfl, rfl, rfl, rfl⟩

theorem BoardEff.cast {s s' : Position} {d0 d1 e0 e1 : BB} {dP eP : Nat → BB}
    (h : BoardEff s s' d0 d1 dP) (h0 : d0 = e0) (h1 : d1 = e1) (hP : ∀ k, dP k = eP k) :
    BoardEff s s' e0 e1 eP :=
  ⟨h0 ▸ h.c0, h1 ▸ h.c1, fun k => hP k ▸ h.P k, h.sm⟩

/-! ### the piece key under a board effect -/

theorem LA_cnd (K : ZKeys) (c : Bool) (k : Nat) (t : Bool) (P : Prop) [Decidable P] (b : BB) :
    LA K c k t (cnd P b) = cnd P (LA K c k t b) := by
  unfold cnd
  split
  · rfl
  · exact LA_zero K c k t

/-- if the `(colour, kind)` boards change by `δU k`, `δT k`, the piece key changes by their keys. -/
theorem pieceKey_eff (K : ZKeys) (t : Bool) {s s' : Position} {d0 d1 : BB} {dP : Nat → BB}
    (h : BoardEff s s' d0 d1 dP) (δU δT : Nat → BB)
    (hU : ∀ k, (s.c0 ^^^ d0) &&& (s.piece k ^^^ dP k) = (s.c0 &&& s.piece k) ^^^ δU k)
    (hT : ∀ k, (s.c1 ^^^ d1) &&& (s.piece k ^^^ dP k) = (s.c1 &&& s.piece k) ^^^ δT k) :
    pieceKey K t s'.c0 s'.c1 s'.piece = pieceKey K t s.c0 s.c1 s.piece ^^^
      ((LA K t 0 t (δU 0) ^^^ LA K (!t) 0 t (δT 0)) ^^^ (LA K t 1 t (δU 1) ^^^ LA K (!t) 1 t (δT 1)) ^^^
       (LA K t 2 t (δU 2) ^^^ LA K (!t) 2 t (δT 2)) ^^^ (LA K t 3 t (δU 3) ^^^ LA K (!t) 3 t (δT 3)) ^^^
       (LA K t 4 t (δU 4) ^^^ LA K (!t) 4 t (δT 4)) ^^^ (LA K t 5 t (δU 5) ^^^ LA K (!t) 5 t (δT 5))) := by
  unfold pieceKey
  simp only [h.c0, h.c1, h.P, hU, hT, LA_xor]
  ac_rfl

/-- a sum over the six kinds with a single selected kind. -/
theorem sum6_cnd (i : Nat) (hi : i < 6) (f : Nat → BB) :
    cnd (0 = i) (f 0) ^^^ cnd (1 = i) (f 1) ^^^ cnd (2 = i) (f 2) ^^^ cnd (3 = i) (f 3) ^^^
      cnd (4 = i) (f 4) ^^^ cnd (5 = i) (f 5) = f i := by
  have : i = 0 ∨ i = 1 ∨ i = 2 ∨ i = 3 ∨ i = 4 ∨ i = 5 := by omega
  rcases this with rfl | rfl | rfl | rfl | rfl | rfl <;> simp [cnd]

end Rawr.ZH
