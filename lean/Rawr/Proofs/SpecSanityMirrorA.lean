import Rawr.Proofs.SpecMirror
import Rawr.Proofs.MakeMoveAbsV5
/-!
# Sanity of the specification, part 1 (a): colour symmetry of `Spec.apply`

`mirrorA` swaps the colours, reverses the ranks and passes the turn (and carries rights and the
en-passant square along); `mirrorMove` reverses the ranks of a move's squares. `Spec.apply` commutes
with the two — except for the full-move counter, which by its nature advances after Black's move only.
`EqModFull` is equality of positions up to that counter; the move rules do not read it
(`legalMoves_setFull`, `apply_setFull`, `leaves_congr`).

The statements concern `Rawr/Spec/Chess.lean` only; the imports from the engine side are used for the
geometry lemmas of `SpecMirror.lean` and nothing else.
-/
namespace Rawr.SpecS
open Rawr.Spec Rawr.Att Rawr.SV

/-- The colour-swapped mirror image of an absolute position (the mover changes colour as well).
Definitionally the `Spec.mirrorA` of `Rawr/Props/C17.lean`. -/
def mirrorA (a : APos) : APos :=
  { board := mirrorB a.board, whiteToMove := !a.whiteToMove,
    wK := a.bK, wQ := a.bQ, bK := a.wK, bQ := a.wQ,
    ep := a.ep.map (· ^^^ 56), half := a.half, full := a.full }

/-- ranks reversed; the castling side is unchanged. -/
def mirrorMove : Move → Move
  | .normal s t pr => .normal (s ^^^ 56) (t ^^^ 56) pr
  | .castle ks => .castle ks

theorem mirrorMove_mirrorMove (m : Move) : mirrorMove (mirrorMove m) = m := by
  cases m with
  | normal s t pr => simp only [mirrorMove, x56_x56]
  | castle ks => rfl

theorem mirrorA_mirrorA (a : APos) : mirrorA (mirrorA a) = a := by
  cases a with
  | mk b w wK wQ bK bQ ep half full =>
    simp only [mirrorA, mirrorB_mirrorB, Bool.not_not, Option.map_map]
    congr 1
    cases ep with
    | none => rfl
    | some e => simp only [Option.map_some, Function.comp, x56_x56]

/-- every castling right names a file of the board. -/
def RightsOK (a : APos) : Prop := ∀ w ks f, right a w ks = some f → f < 8

theorem rightsOK_of_valid {a : APos} (h : Valid a = true) : RightsOK a :=
  fun w ks f hr => (((valid_iff a).mp h).rights w ks f hr).1

theorem right_mirror (a : APos) (w ks : Bool) : right (mirrorA a) w ks = right a (!w) ks := by
  cases w <;> cases ks <;> rfl

theorem rightsOK_mirror {a : APos} (h : RightsOK a) : RightsOK (mirrorA a) := by
  intro w ks f hr
  rw [right_mirror] at hr
  exact h _ _ _ hr

theorem homeRank_not (w : Bool) : homeRank (!w) = 7 - homeRank w := by cases w <;> rfl

theorem sq_home_mirror {f : Nat} (hf : f < 8) (w : Bool) :
    sq f (homeRank (!w)) = sq f (homeRank w) ^^^ 56 := by
  rw [homeRank_not]
  apply sq_mirror
  rw [onBoard_iff]; cases w <;> simp [homeRank] <;> omega

theorem sq_home_mirror' (f : Int) (hf0 : 0 ≤ f) (hf : f < 8) (w : Bool) :
    sq f (homeRank (!w)) = sq f (homeRank w) ^^^ 56 := by
  rw [homeRank_not]
  apply sq_mirror
  rw [onBoard_iff]; cases w <;> simp [homeRank] <;> omega

/-! ### the full-move counter is not read by the rules -/

def setFull (a : APos) (n : Int) : APos := { a with full := n }

/-- equality of positions up to the full-move counter. -/
def EqModFull (a b : APos) : Prop := setFull a 0 = setFull b 0

theorem EqModFull.refl (a : APos) : EqModFull a a := rfl
theorem EqModFull.symm {a b : APos} (h : EqModFull a b) : EqModFull b a := Eq.symm h
theorem EqModFull.trans {a b c : APos} (h : EqModFull a b) (h' : EqModFull b c) : EqModFull a c :=
  Eq.trans h h'

theorem eqModFull_iff (a b : APos) : EqModFull a b ↔
    a.board = b.board ∧ a.whiteToMove = b.whiteToMove ∧ a.wK = b.wK ∧ a.wQ = b.wQ ∧ a.bK = b.bK ∧
    a.bQ = b.bQ ∧ a.ep = b.ep ∧ a.half = b.half := by
  cases a; cases b
  simp only [EqModFull, setFull, APos.mk.injEq, and_true]

theorem setFull_setFull (a : APos) (m n : Int) : setFull (setFull a m) n = setFull a n := rfl
theorem eqModFull_setFull (a : APos) (n : Int) : EqModFull (setFull a n) a := rfl

theorem right_setFull (a : APos) (n : Int) (w ks : Bool) : right (setFull a n) w ks = right a w ks := by
  cases w <;> cases ks <;> rfl

theorem apply_setFull (a : APos) (n : Int) (m : Move) :
    ∃ n', apply (setFull a n) m = setFull (apply a m) n' := by
  cases m with
  | normal s t pr =>
    cases hb : a.board s with
    | none =>
      refine ⟨n, ?_⟩
      have hb' : (setFull a n).board s = none := hb
      simp only [apply, hb, hb']
    | some pc =>
      have hb' : (setFull a n).board s = some pc := hb
      rw [apply_normal hb, apply_normal hb']
      exact ⟨_, rfl⟩
  | castle ks =>
    have e1 : (setFull a n).whiteToMove = a.whiteToMove := rfl
    have e2 : (setFull a n).board = a.board := rfl
    cases hr : right a a.whiteToMove ks with
    | none =>
      refine ⟨n, ?_⟩
      have hr' : right (setFull a n) (setFull a n).whiteToMove ks = none := by
        rw [right_setFull]; exact hr
      simp only [apply, hr, hr']
    | some rf =>
      have hr' : right (setFull a n) (setFull a n).whiteToMove ks = some rf := by
        rw [right_setFull]; exact hr
      cases hk : kingSquares a.board a.whiteToMove with
      | nil =>
        refine ⟨n, ?_⟩
        have hk' : kingSquares (setFull a n).board (setFull a n).whiteToMove = [] := hk
        simp only [apply, hr, hr', hk, hk']
      | cons k l =>
        have hk' : kingSquares (setFull a n).board (setFull a n).whiteToMove = k :: l := hk
        rw [apply_castle hr hk, apply_castle hr' hk']
        exact ⟨_, rfl⟩

theorem apply_board_setFull (a : APos) (n : Int) (m : Move) :
    (apply (setFull a n) m).board = (apply a m).board := by
  obtain ⟨n', e⟩ := apply_setFull a n m
  rw [e]; rfl

theorem pseudoFrom_setFull (a : APos) (n : Int) (s : Nat) : pseudoFrom (setFull a n) s = pseudoFrom a s := rfl

theorem castleLegal_setFull (a : APos) (n : Int) (ks : Bool) :
    castleLegal (setFull a n) ks = castleLegal a ks := by
  unfold castleLegal
  simp only [apply_board_setFull, right_setFull]
  rfl

theorem legalMoves_setFull (a : APos) (n : Int) : legalMoves (setFull a n) = legalMoves a := by
  unfold legalMoves
  have e : (fun ks => castleLegal (setFull a n) ks) = fun ks => castleLegal a ks :=
    funext (castleLegal_setFull a n)
  simp only [apply_board_setFull, e]
  rfl

theorem legalMoves_congr {a b : APos} (h : EqModFull a b) : legalMoves a = legalMoves b := by
  rw [← legalMoves_setFull a 0, ← legalMoves_setFull b 0, h]

theorem apply_congr {a b : APos} (h : EqModFull a b) (m : Move) : EqModFull (apply a m) (apply b m) := by
  obtain ⟨n1, e1⟩ := apply_setFull a 0 m
  obtain ⟨n2, e2⟩ := apply_setFull b 0 m
  unfold EqModFull at h ⊢
  rw [h, e2] at e1
  have := congrArg (fun x => setFull x 0) e1
  simpa only [setFull_setFull] using this.symm

/-- `leaves` does not read the full-move counter. -/
theorem leaves_congr {a b : APos} (h : EqModFull a b) (d : Nat) : leaves a d = leaves b d := by
  induction d generalizing a b with
  | zero => rfl
  | succ d ih =>
    simp only [leaves]
    rw [legalMoves_congr h]
    congr 1
    apply List.map_congr_left
    intro m _
    exact ih (apply_congr h m)

/-! ### boards -/

theorem x56_eq_iff (x s : Nat) : x ^^^ 56 = s ↔ x = s ^^^ 56 := by
  constructor
  · intro h; rw [← h, x56_x56]
  · intro h; rw [h, x56_x56]

theorem mirrorB_setSq (b : Board) (s : Nat) (v : Option Piece) :
    mirrorB (setSq b s v) = setSq (mirrorB b) (s ^^^ 56) (v.map flipPiece) := by
  funext x
  unfold mirrorB setSq
  by_cases h : x = s ^^^ 56
  · rw [if_pos h, if_pos ((x56_eq_iff x s).mpr h)]
  · rw [if_neg h, if_neg (fun e => h ((x56_eq_iff x s).mp e))]

theorem mirrorB_isSome (b : Board) (x : Nat) : (mirrorB b (x ^^^ 56)).isSome = (b x).isSome := by
  rw [mirrorB_x56]; cases b x <;> rfl

theorem uniqueKing_mirror {B : Board} {c : Bool} {k : Nat} (h : UniqueKing B c k) :
    UniqueKing (mirrorB B) (!c) (k ^^^ 56) := by
  refine ⟨x56_lt h.1, ?_, ?_⟩
  · have := mirror_holds B k c .king
    rw [Bool.eq_iff_iff, beq_iff_eq, beq_iff_eq] at this
    exact this.mpr h.2.1
  · intro j hj hb
    have := mirror_holds B (j ^^^ 56) c .king
    rw [x56_x56, Bool.eq_iff_iff, beq_iff_eq, beq_iff_eq] at this
    have := h.2.2 _ (x56_lt hj) (this.mp hb)
    exact (x56_eq_iff j k).mp this

theorem kingSquares_mirror_singleton {B : Board} {c : Bool} {k : Nat} (h : kingSquares B c = [k]) :
    kingSquares (mirrorB B) (!c) = [k ^^^ 56] :=
  kingSquares_of_unique (uniqueKing_mirror (unique_of_kingSquares h))

theorem kingSquares_mirror_length (B : Board) (c : Bool) :
    (kingSquares (mirrorB B) (!c)).length = (kingSquares B c).length := by
  unfold kingSquares squares
  have hp := (x56_perm.filter (fun s => mirrorB B s == some ⟨!c, .king⟩)).length_eq
  rw [← hp, List.filter_map, List.length_map]
  congr 1
  apply List.filter_congr
  intro s _
  simp only [Function.comp]
  exact mirror_holds B s c .king

end Rawr.SpecS
