import Rawr.Proofs.FenStaged
import Rawr.Proofs.FenValidate
import Rawr.Proofs.FlipLemmas
import Rawr.Proofs.HashLemmas
import Rawr.Proofs.CountLemmas
import Rawr.Abs
/-! # C07(a): soundness of `set_fen` for all strings, both arithmetics — helper lemmas. -/
namespace Rawr
open Position
set_option linter.unusedSimpArgs false

namespace FenS

/-! ## bitboard facts -/

theorem isOcc_false {b : BB} : b.isOcc = false ↔ b = 0#64 := by
  simp [BB.isOcc]

theorem isEmpty_false {b : BB} : b.isEmpty = false ↔ b ≠ 0#64 := by
  simp [BB.isEmpty]

theorem ne_zero_of_getLsbD {b : BB} {i : Nat} (h : b.getLsbD i = true) : b ≠ 0#64 := by
  intro e; rw [e] at h; simp at h

theorem exists_getLsbD_of_ne_zero {b : BB} (h : b ≠ 0#64) : ∃ i, i < 64 ∧ b.getLsbD i = true := by
  apply Classical.byContradiction
  intro hn
  apply h
  apply BitVec.eq_of_getLsbD_eq
  intro i hi
  rw [BitVec.getLsbD_zero]
  cases hb : b.getLsbD i
  · rfl
  · exact absurd ⟨i, hi, hb⟩ hn

theorem toList_ne_nil {b : BB} (h : b ≠ 0#64) : toList b ≠ [] := by
  obtain ⟨i, _, hb⟩ := exists_getLsbD_of_ne_zero h
  intro e
  have : i ∈ toList b := (mem_toList b i).mpr hb
  rw [e] at this
  cases this

theorem lsb_mem {b : BB} (h : b ≠ 0#64) : b.getLsbD (lsb b) = true := by
  rcases lsb_cases b with h64 | h1
  · exfalso
    unfold lsb at h64
    cases hh : (toList b).head? with
    | none => exact toList_ne_nil h (List.head?_eq_none_iff.mp hh)
    | some x =>
      rw [hh] at h64
      have hx : x ∈ toList b := List.mem_of_head? hh
      have := BitVec.lt_of_getLsbD ((mem_toList b x).mp hx)
      simp only [Option.getD_some] at h64
      omega
  · exact h1

theorem hsb_mem {b : BB} (h : b ≠ 0#64) : b.getLsbD (hsb b) = true := by
  unfold hsb
  cases hh : (toList b).getLast? with
  | none => exact absurd (List.getLast?_eq_none_iff.mp hh) (toList_ne_nil h)
  | some x =>
    have hx : x ∈ toList b := List.mem_of_getLast? hh
    simpa using (mem_toList b x).mp hx

/-- a board with exactly one set bit. -/
theorem eq_bit_of_count_one {b : BB} (h : count b = 1) : ∃ s, s < 64 ∧ b = bit s := by
  unfold count at h
  obtain ⟨s, hs⟩ := List.length_eq_one_iff.mp h
  have hm : ∀ i, b.getLsbD i = true ↔ i = s := by
    intro i
    rw [← mem_toList, hs]
    simp
  have hs64 : s < 64 := BitVec.lt_of_getLsbD ((hm s).mpr rfl)
  refine ⟨s, hs64, ?_⟩
  apply BitVec.eq_of_getLsbD_eq
  intro i hi
  rw [ZH.getLsbD_bit]
  by_cases his : i = s
  · subst his; simp [hi, (hm i).mpr rfl]
  · have : b.getLsbD i = false := by
      cases hb : b.getLsbD i
      · rfl
      · exact absurd ((hm i).mp hb) his
    simp [this, his]

theorem lsb_bit : ∀ s : Fin 64, lsb (bit s) = s := by decide +kernel
theorem flipBB_bit : ∀ s : Fin 64, flipBB (bit s) = bit (flipSq s) := by decide +kernel

theorem ne_zero_of_count_one {b : BB} (h : count b = 1) : b ≠ 0#64 := by
  intro e; rw [e] at h; revert h; decide

/-- the file of the only set bit survives the mirroring of the ranks. -/
theorem fileOf_lsb_flipBB {b : BB} (h : count b = 1) : fileOf (lsb (flipBB b)) = fileOf (lsb b) := by
  obtain ⟨s, hs, rfl⟩ := eq_bit_of_count_one h
  rw [flipBB_bit ⟨s, hs⟩, lsb_bit ⟨s, hs⟩]
  have := lsb_bit ⟨flipSq s, flipSq_lt hs⟩
  simp only at this
  rw [this]
  exact ZH.xor56_mod8 s


/-! ## the board loop: parity invariant and frame -/

/-- on every square: colour parity = piece parity. -/
def Par (p : Position) : Prop := p.c0 ^^^ p.c1 = p.p0 ^^^ p.p1 ^^^ p.p2 ^^^ p.p3 ^^^ p.p4 ^^^ p.p5

/-- one piece character: toggle `bb` in one colour board and one piece board. -/
def toggle (p : Position) (black : Bool) (pc : Nat) (bb : BB) : Position :=
  let p := if black then { p with c1 := p.c1 ^^^ bb } else { p with c0 := p.c0 ^^^ bb }
  p.setPiece pc (p.piece pc ^^^ bb)

theorem boardTok_piece_lt {c : Char} {b : Bool} {pc : Nat} (h : boardTok c = some (.piece b pc)) : pc < 6 := by
  unfold boardTok at h
  split at h <;> first | (cases h; decide) | cases h

theorem xor_swap3 (a b c : BB) : a ^^^ b ^^^ c = a ^^^ c ^^^ b := by
  rw [BitVec.xor_assoc, BitVec.xor_comm b c, ← BitVec.xor_assoc]

theorem par_toggle {p : Position} (black : Bool) {pc : Nat} (bb : BB) (hpc : pc < 6) (h : Par p) :
    Par (toggle p black pc bb) := by
  unfold Par at h ⊢
  have hl : ∀ x y : BB, (x ^^^ bb) ^^^ y = (x ^^^ y) ^^^ bb := fun x y => xor_swap3 x bb y
  have hr : ∀ x y : BB, x ^^^ (y ^^^ bb) = (x ^^^ y) ^^^ bb := fun x y => (BitVec.xor_assoc x y bb).symm
  have key : (toggle p black pc bb).c0 ^^^ (toggle p black pc bb).c1 = (p.c0 ^^^ p.c1) ^^^ bb := by
    cases black <;>
    (match pc, hpc with
     | 0, _ | 1, _ | 2, _ | 3, _ | 4, _ | 5, _ => simp only [toggle, setPiece, if_true, if_false, Bool.false_eq_true, hl, hr])
  rw [key, h]
  cases black <;>
  (match pc, hpc with
   | 0, _ | 1, _ | 2, _ | 3, _ | 4, _ | 5, _ =>
     simp only [toggle, setPiece, piece, if_true, if_false, Bool.false_eq_true, hl, hr])

/-- every invariant of `toggle` is an invariant of the board loop, whatever the index arithmetic does. -/
theorem fenBoard_inv (I : Position → Prop)
    (hstep : ∀ p black pc bb, pc < 6 → I p → I (toggle p black pc bb))
    (ar : Arith) (cs : List Char) : ∀ (p : Position) (idx : Nat) (q : Position) (j : Nat),
    fenBoard ar cs p idx = some (q, j) → I p → I q := by
  induction cs with
  | nil =>
    intro p idx q j h hp
    simp only [fenBoard, Option.some.injEq, Prod.mk.injEq] at h
    rw [← h.1]; exact hp
  | cons c cs ih =>
    intro p idx q j h hp
    rw [fenBoard] at h
    simp only [Option.bind_eq_bind, Option.bind_eq_some_iff, bind] at h
    obtain ⟨r7, _, r8, _, sq, _, bb, _, h⟩ := h
    split at h
    · cases h
    · rename_i black pc htok
      simp only [Option.bind_eq_some_iff] at h
      obtain ⟨idx', _, h⟩ := h
      exact ih _ _ _ _ h (hstep p black pc bb (boardTok_piece_lt htok) hp)
    · simp only [Option.bind_eq_some_iff] at h
      obtain ⟨idx', _, h⟩ := h
      exact ih _ _ _ _ h hp
    · exact ih _ _ _ _ h hp

/-- `p` with the eight boards cleared: the part of the position the board loop does not touch. -/
def clearBoards (p : Position) : Position :=
  { p with c0 := 0#64, c1 := 0#64, p0 := 0#64, p1 := 0#64, p2 := 0#64, p3 := 0#64, p4 := 0#64, p5 := 0#64 }

theorem clearBoards_toggle (p : Position) (black : Bool) (pc : Nat) (bb : BB) :
    clearBoards (toggle p black pc bb) = clearBoards p := by
  cases black <;>
  (match pc with
   | 0 | 1 | 2 | 3 | 4 | 5 | _ + 6 => rfl)

theorem fenBoard_par {ar cs p idx q j} (h : fenBoard ar cs p idx = some (q, j)) (hp : Par p) : Par q :=
  fenBoard_inv Par (fun _ black _ bb hpc hp => par_toggle black bb hpc hp) ar cs p idx q j h hp

theorem fenBoard_frame {ar cs p idx q j} (h : fenBoard ar cs p idx = some (q, j)) :
    clearBoards q = clearBoards p :=
  fenBoard_inv (fun q => clearBoards q = clearBoards p)
    (fun r black pc bb _ hr => (clearBoards_toggle r black pc bb).trans hr) ar cs p idx q j h rfl


/-! ## the castling loop -/

theorem ray_east_file : ∀ (k : Fin 65) (h : Fin 64),
    ((0xFF#64 &&& rayEastBB k).getLsbD h = true → fileOf k < fileOf h) ∧
    ((0xFF00000000000000#64 &&& rayEastBB k).getLsbD h = true → fileOf k < fileOf h) := by
  decide +kernel

theorem ray_west_file : ∀ (k : Fin 65) (h : Fin 64),
    ((0xFF#64 &&& rayWestBB k).getLsbD h = true → fileOf h < fileOf k) ∧
    ((0xFF00000000000000#64 &&& rayWestBB k).getLsbD h = true → fileOf h < fileOf k) := by
  decide +kernel

theorem lsb_le (b : BB) : lsb b ≤ 64 := by
  rcases lsb_cases b with h | h
  · omega
  · exact Nat.le_of_lt (BitVec.lt_of_getLsbD h)

/-- a set bit of `x &&& y &&& m` is a set bit of `m`. -/
theorem mask_of_and3 {x y m : BB} {i : Nat} (h : (x &&& y &&& m).getLsbD i = true) : m.getLsbD i = true := by
  simp only [BitVec.getLsbD_and, Bool.and_eq_true] at h
  exact h.2

theorem east_of_hsb {x y : BB} {m : BB} {k : Nat} (hk : k ≤ 64)
    (hm : m = 0xFF#64 &&& rayEastBB k ∨ m = 0xFF00000000000000#64 &&& rayEastBB k)
    (h : (x &&& y &&& m).isOcc = true) : fileOf k < fileOf (hsb (x &&& y &&& m)) := by
  have hne : x &&& y &&& m ≠ 0#64 := by simpa [BB.isOcc] using h
  have hb := mask_of_and3 (hsb_mem hne)
  have h64 := BitVec.lt_of_getLsbD hb
  have := ray_east_file ⟨k, by omega⟩ ⟨_, h64⟩
  rcases hm with rfl | rfl
  · exact this.1 hb
  · exact this.2 hb

theorem west_of_lsb {x y : BB} {m : BB} {k : Nat} (hk : k ≤ 64)
    (hm : m = 0xFF#64 &&& rayWestBB k ∨ m = 0xFF00000000000000#64 &&& rayWestBB k)
    (h : (x &&& y &&& m).isOcc = true) : fileOf (lsb (x &&& y &&& m)) < fileOf k := by
  have hne : x &&& y &&& m ≠ 0#64 := by simpa [BB.isOcc] using h
  have hb := mask_of_and3 (lsb_mem hne)
  have h64 := BitVec.lt_of_getLsbD hb
  have := ray_west_file ⟨k, by omega⟩ ⟨_, h64⟩
  rcases hm with rfl | rfl
  · exact this.1 hb
  · exact this.2 hb

theorem fileOf_lt (s : Nat) : fileOf s < 8 := Nat.mod_lt _ (by decide)

theorem letter_file {c : Char} {lo hi : Char} (h : (decide (lo ≤ c) && decide (c ≤ hi)) = true)
    (hlo : lo.toNat + 7 = hi.toNat) (h256 : hi.toNat < 256) : asU8 c - asU8 lo < 8 := by
  simp only [Bool.and_eq_true, decide_eq_true_eq] at h
  have h1 : lo.toNat ≤ c.toNat := by
    have := h.1; rw [Char.le_def] at this; exact UInt32.le_iff_toNat_le.mp this
  have h2 : c.toNat ≤ hi.toNat := by
    have := h.2; rw [Char.le_def] at this; exact UInt32.le_iff_toNat_le.mp this
  unfold asU8
  rw [Nat.mod_eq_of_lt (by omega), Nat.mod_eq_of_lt (by omega)]
  omega

/-- how `set_fen` classifies a castling letter: the file is on the board, a king-side letter names a file
east of that colour's king, a queen-side letter a file not east of it. -/
theorem castleLetter_spec {p : Position} {c : Char} {black : Bool} {file : Nat} {ks : Bool}
    (h : castleLetter p c = some (some (black, file, ks))) :
    file < 8 ∧
    (ks = true → fileOf (lsb ((if black then p.c1 else p.c0) &&& p.p5)) < file) ∧
    (ks = false → file ≤ fileOf (lsb ((if black then p.c1 else p.c0) &&& p.p5))) := by
  unfold castleLetter at h
  simp only at h
  have hw := lsb_le (p.c0 &&& p.p5)
  have hb := lsb_le (p.c1 &&& p.p5)
  split at h
  · split at h
    · rename_i hocc
      simp only [Option.some.injEq, Prod.mk.injEq] at h
      obtain ⟨rfl, rfl, rfl⟩ := h
      refine ⟨fileOf_lt _, fun _ => ?_, fun h => by cases h⟩
      exact east_of_hsb hw (Or.inl rfl) hocc
    · cases h
  split at h
  · split at h
    · rename_i hocc
      simp only [Option.some.injEq, Prod.mk.injEq] at h
      obtain ⟨rfl, rfl, rfl⟩ := h
      refine ⟨fileOf_lt _, (fun h => by cases h), fun _ => Nat.le_of_lt ?_⟩
      exact west_of_lsb hw (Or.inl rfl) hocc
    · cases h
  split at h
  · split at h
    · rename_i hocc
      simp only [Option.some.injEq, Prod.mk.injEq] at h
      obtain ⟨rfl, rfl, rfl⟩ := h
      refine ⟨fileOf_lt _, fun _ => ?_, fun h => by cases h⟩
      exact east_of_hsb hb (Or.inr rfl) hocc
    · cases h
  split at h
  · split at h
    · rename_i hocc
      simp only [Option.some.injEq, Prod.mk.injEq] at h
      obtain ⟨rfl, rfl, rfl⟩ := h
      refine ⟨fileOf_lt _, (fun h => by cases h), fun _ => Nat.le_of_lt ?_⟩
      exact west_of_lsb hb (Or.inr rfl) hocc
    · cases h
  split at h
  · rename_i hc
    simp only [Option.some.injEq, Prod.mk.injEq] at h
    obtain ⟨rfl, rfl, rfl⟩ := h
    refine ⟨letter_file hc (by decide) (by decide), fun h => ?_, fun h => ?_⟩
    · simpa using h
    · simpa using h
  split at h
  · rename_i hc
    simp only [Option.some.injEq, Prod.mk.injEq] at h
    obtain ⟨rfl, rfl, rfl⟩ := h
    refine ⟨letter_file hc (by decide) (by decide), fun h => ?_, fun h => ?_⟩
    · simpa using h
    · simpa using h
  split at h <;> cases h


/-- what the castling loop guarantees about every right it has set. -/
def CInv (p : Position) : Prop :=
  (p.usK = true → p.cf0 < 8 ∧ fileOf (lsb (p.c0 &&& p.p5)) < p.cf0) ∧
  (p.usQ = true → p.cf1 < 8 ∧ p.cf1 ≤ fileOf (lsb (p.c0 &&& p.p5))) ∧
  (p.themK = true → p.cf2 < 8 ∧ fileOf (lsb (p.c1 &&& p.p5)) < p.cf2) ∧
  (p.themQ = true → p.cf3 < 8 ∧ p.cf3 ≤ fileOf (lsb (p.c1 &&& p.p5)))

/-- `p` with the castling fields cleared: the part the castling loop does not touch. -/
def clearCastle (p : Position) : Position :=
  { p with usK := false, usQ := false, themK := false, themQ := false, cf0 := 0, cf1 := 0, cf2 := 0, cf3 := 0 }

theorem fenCastling_inv : ∀ (cs seen : List Char) (p q : Position),
    fenCastling cs seen p = some q → CInv p → CInv q ∧ clearCastle q = clearCastle p := by
  intro cs
  induction cs with
  | nil =>
    intro seen p q h hp
    simp only [fenCastling, Option.some.injEq] at h
    subst h; exact ⟨hp, rfl⟩
  | cons c cs ih =>
    intro seen p q h hp
    rw [fenCastling] at h
    split at h
    · cases h
    split at h
    · cases h
    · simp only [Option.some.injEq] at h
      subst h; exact ⟨hp, rfl⟩
    · rename_i black file ks hl
      obtain ⟨h8, hE, hW⟩ := castleLetter_spec hl
      obtain ⟨i1, i2, i3, i4⟩ := hp
      cases black <;> cases ks <;> simp only [] at h <;> simp only [if_true, if_false, Bool.false_eq_true] at hE hW
      · obtain ⟨hq, hf⟩ := ih _ _ _ h ⟨i1, fun _ => ⟨h8, hW trivial⟩, i3, i4⟩
        exact ⟨hq, hf⟩
      · obtain ⟨hq, hf⟩ := ih _ _ _ h ⟨fun _ => ⟨h8, hE trivial⟩, i2, i3, i4⟩
        exact ⟨hq, hf⟩
      · obtain ⟨hq, hf⟩ := ih _ _ _ h ⟨i1, i2, i3, fun _ => ⟨h8, hW trivial⟩⟩
        exact ⟨hq, hf⟩
      · obtain ⟨hq, hf⟩ := ih _ _ _ h ⟨i1, i2, fun _ => ⟨h8, hE trivial⟩, i4⟩
        exact ⟨hq, hf⟩

theorem fenCastlePart_inv {part : Option (List Char)} {p q : Position}
    (h : fenCastlePart part p = some q) (hp : CInv p) : CInv q ∧ clearCastle q = clearCastle p := by
  unfold fenCastlePart at h
  split at h
  · simp only [Option.some.injEq] at h
    subst h; exact ⟨hp, rfl⟩
  · exact fenCastling_inv _ _ _ _ h hp

end FenS
end Rawr
