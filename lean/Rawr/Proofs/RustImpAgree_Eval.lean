import Rawr.Proofs.RustImpAgree
/-!
# eval.rs regenerated from the Rust source agrees with the model

Kept apart from `RustImpAgree.lean` so that a change to the evaluation only touches the obligations of the properties that
depend on it (C17, the search properties), not those of move generation, make-move, hashing or FEN parsing.
-/
namespace Rawr

/-! ## eval.rs -/
theorem agree_get_phase : @R.get_phase = @phase := rfl
theorem agree_taper : @R.taper = @taper := rfl
theorem agree_eval_us : @R.eval_us = @evalUsT genEvalTables := rfl
theorem agree_eval : @R.eval = @eval := by
  funext p; unfold R.eval eval evalT; rw [agree_eval_us, agree_from_flipped, agree_get_phase, agree_taper]

/-! non-vacuity: the regenerated functions compute (start position, e2) -/
example : R.get_piece_on Gen.startpos 12 = some 0 := by decide
example : R.is_capture Gen.startpos ⟨12, 28, 6⟩ = false := by decide

end Rawr

#print axioms Rawr.agree_eval
