import Rawr.Proofs.SpecSanityPerftDefs
/-! perft of `cpwPos3`, depth 3, slice 2: the subtrees of 3 first moves (kernel-evaluated). -/
namespace Rawr.SpecS
open Rawr.Spec

theorem pos33_2 :
    (([.normal 25 26 none, .normal 25 27 none, .normal 25 28 none] : List Move).map
      fun m => leaves (apply cpwPos3 m) 2).sum = 725 := by decide +kernel

end Rawr.SpecS
