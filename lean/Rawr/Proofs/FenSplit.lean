import Rawr.Model.Fen
/-! `str::split(' ')` on a string made of six space-free fields. -/
namespace Rawr
namespace FenC

theorem go_field (f rest cur : List Char) (acc : List (List Char)) (h : ' ' ∉ f) :
    splitSpace.go (f ++ rest) cur acc = splitSpace.go rest (f.reverse ++ cur) acc := by
  induction f generalizing cur with
  | nil => rfl
  | cons c cs ih =>
    have hc : (c == ' ') = false := by
      cases hcc : c == ' '
      · rfl
      · exact absurd (by rw [beq_iff_eq.mp hcc]; exact List.mem_cons_self) h
    have hcs : ' ' ∉ cs := fun hm => h (List.mem_cons_of_mem _ hm)
    rw [List.cons_append, splitSpace.go, hc]
    simp only [Bool.false_eq_true, if_false]
    rw [ih _ hcs]
    simp [List.reverse_cons, List.append_assoc]

theorem go_space (rest cur : List Char) (acc : List (List Char)) :
    splitSpace.go (' ' :: rest) cur acc = splitSpace.go rest [] (cur.reverse :: acc) := by
  rw [splitSpace.go]; rfl

theorem go_field_space (f rest : List Char) (acc : List (List Char)) (h : ' ' ∉ f) :
    splitSpace.go (f ++ ' ' :: rest) [] acc = splitSpace.go rest [] (f :: acc) := by
  rw [go_field _ _ _ _ h, go_space]
  simp

theorem go_last (f : List Char) (acc : List (List Char)) (h : ' ' ∉ f) :
    splitSpace.go f [] acc = (f :: acc).reverse := by
  have := go_field f [] [] acc h
  rw [List.append_nil] at this
  rw [this, splitSpace.go]
  simp

theorem splitSpace_six (f0 f1 f2 f3 f4 f5 : List Char) (h0 : ' ' ∉ f0) (h1 : ' ' ∉ f1) (h2 : ' ' ∉ f2)
    (h3 : ' ' ∉ f3) (h4 : ' ' ∉ f4) (h5 : ' ' ∉ f5) :
    splitSpace (f0 ++ ' ' :: (f1 ++ ' ' :: (f2 ++ ' ' :: (f3 ++ ' ' :: (f4 ++ ' ' :: f5))))) =
      [f0, f1, f2, f3, f4, f5] := by
  unfold splitSpace
  rw [go_field_space _ _ _ h0, go_field_space _ _ _ h1, go_field_space _ _ _ h2, go_field_space _ _ _ h3,
    go_field_space _ _ _ h4, go_last _ _ h5]
  rfl

end FenC
end Rawr
