import Rawr.Proofs.SpecSanityPerftDefs
/-! perft of `kiwipete`, depth 2, slice 1: the subtrees of 13 first moves (kernel-evaluated). -/
namespace Rawr.SpecS
open Rawr.Spec

theorem kiwi2_1 :
    (([.normal 11 29 none, .normal 11 38 none, .normal 11 47 none, .normal 12 3 none,
      .normal 12 5 none, .normal 12 19 none, .normal 12 26 none, .normal 12 33 none,
      .normal 12 40 none, .normal 14 22 none, .normal 14 30 none, .normal 14 23 none,
      .normal 18 1 none] : List Move).map
      fun m => leaves (apply kiwipete m) 1).sum = 541 := by decide +kernel

end Rawr.SpecS
