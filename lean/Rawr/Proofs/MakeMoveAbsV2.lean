import Rawr.Proofs.MakeMoveAbsV1
/-! C02 (4), specification level: the facts a pseudo-legal non-castling move carries (`NormalLegal`),
read off `Spec.pseudoFrom`. -/
namespace Rawr.SV
open Rawr.Spec

def pdir (w : Bool) : Int := if w = true then 1 else -1
def pstart (w : Bool) : Int := if w = true then 1 else 6
def plast (w : Bool) : Int := if w = true then 7 else 0

/-- what `Move.normal s t pr ∈ pseudoFrom a s` says. -/
structure NormalLegal (a : APos) (s t : Nat) (pr : Option Kind) (pc : Piece) : Prop where
  hs : s < 64
  ht : t < 64
  hne : s ≠ t
  hpc : a.board s = some pc
  hw : pc.white = a.whiteToMove
  tgt : ∀ q, a.board t = some q → q.white ≠ pc.white ∧ pieceAttacks a.board s pc t = true
  prK : ∀ k, pr = some k → pc.kind = .pawn ∧ k ∈ promoKinds ∧ rank t = plast pc.white
  prN : pr = none → pc.kind = .pawn → a.ep ≠ some t → rank t ≠ plast pc.white
  pawnRank : pc.kind = .pawn →
    (rank t = rank s + pdir pc.white ∨
      (rank t = rank s + 2 * pdir pc.white ∧ file t = file s ∧ rank s = pstart pc.white ∧
        a.board (sq (file s) (rank s + pdir pc.white)) = none ∧ a.board t = none ∧ pr = none))
  epT : pc.kind = .pawn → a.board t = none → file t ≠ file s → a.ep = some t ∧ rank t = rank s + pdir pc.white

theorem withPromo_mem {mv : Move} {s t0 : Nat} {lastRank : Int}
    (h : mv ∈ (if (rank t0 == lastRank) = true then promoKinds.map fun k => Move.normal s t0 (some k)
        else [Move.normal s t0 none])) :
    ∃ pr, mv = .normal s t0 pr ∧
      ((∃ k, pr = some k ∧ k ∈ promoKinds ∧ rank t0 = lastRank) ∨ (pr = none ∧ rank t0 ≠ lastRank)) := by
  split at h
  · next hr =>
    rw [List.mem_map] at h
    obtain ⟨k, hk, e⟩ := h
    exact ⟨some k, e.symm, Or.inl ⟨k, rfl, hk, by simpa using hr⟩⟩
  · next hr =>
    rw [List.mem_singleton] at h
    exact ⟨none, h, Or.inr ⟨rfl, by simpa using hr⟩⟩

theorem pieceAttacks_ne {B : Board} {s t : Nat} {pc : Piece} (h : pieceAttacks B s pc t = true) : s ≠ t := by
  intro e
  subst e
  unfold pieceAttacks at h
  cases hk : pc.kind <;> simp [hk] at h

theorem pdir_cases (w : Bool) :
    (pdir w = 1 ∧ plast w = 7 ∧ pstart w = 1) ∨ (pdir w = -1 ∧ plast w = 0 ∧ pstart w = 6) := by
  cases w
  · right; exact ⟨rfl, rfl, rfl⟩
  · left; exact ⟨rfl, rfl, rfl⟩

/-- pawn branch of `pseudoFrom`. -/
theorem pawn_legal {a : APos} {mv : Move} {s : Nat} {pc : Piece} (hs : s < 64)
    (hpc : a.board s = some pc) (hw : pc.white = a.whiteToMove) (hk : pc.kind = .pawn)
    (h : mv ∈
      ((if (onBoard (file s) (rank s + pdir pc.white) && (a.board (sq (file s) (rank s + pdir pc.white))).isNone) = true then
           (if (rank (sq (file s) (rank s + pdir pc.white)) == plast pc.white) = true
              then promoKinds.map fun k => Move.normal s (sq (file s) (rank s + pdir pc.white)) (some k)
              else [Move.normal s (sq (file s) (rank s + pdir pc.white)) none]) ++
           (if (rank s == pstart pc.white && (a.board (sq (file s) (rank s + 2 * pdir pc.white))).isNone) = true
            then [Move.normal s (sq (file s) (rank s + 2 * pdir pc.white)) none] else [])
         else []) ++
       (([-1, 1] : List Int).flatMap fun df =>
         if onBoard (file s + df) (rank s + pdir pc.white) = true then
           match a.board (sq (file s + df) (rank s + pdir pc.white)) with
           | some q => if (q.white != pc.white) = true then
               (if (rank (sq (file s + df) (rank s + pdir pc.white)) == plast pc.white) = true
                then promoKinds.map fun k => Move.normal s (sq (file s + df) (rank s + pdir pc.white)) (some k)
                else [Move.normal s (sq (file s + df) (rank s + pdir pc.white)) none]) else []
           | none => if (a.ep == some (sq (file s + df) (rank s + pdir pc.white))) = true
               then [Move.normal s (sq (file s + df) (rank s + pdir pc.white)) none] else []
         else []))) :
    ∃ t pr, mv = .normal s t pr ∧ NormalLegal a s t pr pc := by
  have hb := file_rank_bounds s hs
  have hdc := pdir_cases pc.white
  simp only [List.mem_append] at h
  rcases h with h | h
  · -- pushes
    split at h
    · next hc =>
      simp only [Bool.and_eq_true, Option.isNone_iff_eq_none] at hc
      obtain ⟨hob, hemp⟩ := hc
      obtain ⟨cf, cr, clt⟩ := sq_coords hob
      rw [List.mem_append] at h
      rcases h with h | h
      · obtain ⟨pr, e, hp⟩ := withPromo_mem h
        refine ⟨_, pr, e, hs, clt, ?_, hpc, hw, ?_, ?_, ?_, ?_, ?_⟩
        · intro e
          have := congrArg rank e
          rw [cr] at this
          omega
        · intro q hq; rw [hemp] at hq; cases hq
        · intro k hk'
          rcases hp with ⟨k', e, hk2, hr⟩ | ⟨e, _⟩
          · rw [hk'] at e; cases e; exact ⟨hk, hk2, hr⟩
          · rw [hk'] at e; cases e
        · intro e _ _
          rcases hp with ⟨k', e', _, _⟩ | ⟨_, hr⟩
          · rw [e] at e'; cases e'
          · exact hr
        · intro _; left; exact cr
        · intro _ _ hf; exact absurd cf hf
      · split at h
        · next hc2 =>
          simp only [Bool.and_eq_true, beq_iff_eq, Option.isNone_iff_eq_none] at hc2
          obtain ⟨hsr, hemp2⟩ := hc2
          rw [List.mem_singleton] at h
          have hob2 : onBoard (file s) (rank s + 2 * pdir pc.white) = true := by
            simp only [onBoard, Bool.and_eq_true, decide_eq_true_eq]
            omega
          obtain ⟨cf2, cr2, clt2⟩ := sq_coords hob2
          refine ⟨_, none, h, hs, clt2, ?_, hpc, hw, ?_, ?_, ?_, ?_, ?_⟩
          · intro e
            have := congrArg rank e
            rw [cr2] at this
            omega
          · intro q hq; rw [hemp2] at hq; cases hq
          · intro k hk'; cases hk'
          · intro _ _ _
            rw [cr2]
            omega
          · intro _; right
            exact ⟨cr2, cf2, hsr, hemp, hemp2, rfl⟩
          · intro _ _ hf; exact absurd cf2 hf
        · cases h
    · cases h
  · -- captures
    simp only [List.mem_flatMap, List.mem_cons, List.not_mem_nil, or_false] at h
    obtain ⟨df, hdf, h⟩ := h
    split at h
    · next hob =>
      obtain ⟨cf, cr, clt⟩ := sq_coords hob
      have hdf1 : df.natAbs = 1 := by rcases hdf with e | e <;> subst e <;> rfl
      have hfne : file (sq (file s + df) (rank s + pdir pc.white)) ≠ file s := by rw [cf]; omega
      split at h
      · next q hq =>
        split at h
        · next hcol =>
          obtain ⟨pr, e, hp⟩ := withPromo_mem h
          refine ⟨_, pr, e, hs, clt, ?_, hpc, hw, ?_, ?_, ?_, ?_, ?_⟩
          · intro e
            have := congrArg rank e
            rw [cr] at this
            omega
          · intro q' hq'
            rw [hq] at hq'; cases hq'
            refine ⟨by simpa using hcol, ?_⟩
            unfold pieceAttacks
            simp only [hk, cf, cr, Bool.and_eq_true, beq_iff_eq]
            constructor
            · rw [← hdf1]; congr 1; omega
            · have : pdir pc.white = (if pc.white = true then 1 else -1) := rfl
              rw [← this]; omega
          · intro k hk'
            rcases hp with ⟨k', e, hk2, hr⟩ | ⟨e, _⟩
            · rw [hk'] at e; cases e; exact ⟨hk, hk2, hr⟩
            · rw [hk'] at e; cases e
          · intro e _ _
            rcases hp with ⟨k', e', _, _⟩ | ⟨_, hr⟩
            · rw [e] at e'; cases e'
            · exact hr
          · intro _; left; exact cr
          · intro _ hn; rw [hq] at hn; cases hn
        · cases h
      · next hq =>
        split at h
        · next hep =>
          rw [List.mem_singleton] at h
          have hep' : a.ep = some (sq (file s + df) (rank s + pdir pc.white)) := by simpa using hep
          refine ⟨_, none, h, hs, clt, ?_, hpc, hw, ?_, ?_, ?_, ?_, ?_⟩
          · intro e
            have := congrArg rank e
            rw [cr] at this
            omega
          · intro q' hq'; rw [hq] at hq'; cases hq'
          · intro k hk'; cases hk'
          · intro _ _ hne; exact absurd hep' hne
          · intro _; left; exact cr
          · intro _ _ _
            exact ⟨hep', cr⟩
        · cases h
    · cases h

/-- the other five kinds. -/
theorem piece_legal {a : APos} {mv : Move} {s : Nat} {pc : Piece} (hs : s < 64)
    (hpc : a.board s = some pc) (hw : pc.white = a.whiteToMove) (hk : pc.kind ≠ .pawn)
    (h : mv ∈ (squares.filter fun t => pieceAttacks a.board s pc t &&
          (match a.board t with | some q => q.white != pc.white | none => true)).map
        fun t => Move.normal s t none) :
    ∃ t pr, mv = .normal s t pr ∧ NormalLegal a s t pr pc := by
  rw [List.mem_map] at h
  obtain ⟨t, ht0, e⟩ := h
  rw [List.mem_filter, Bool.and_eq_true] at ht0
  obtain ⟨hm, hatt, hcol⟩ := ht0
  have ht : t < 64 := List.mem_range.mp hm
  refine ⟨t, none, e.symm, hs, ht, pieceAttacks_ne hatt, hpc, hw, ?_, ?_, ?_, ?_, ?_⟩
  · intro q hq
    rw [hq] at hcol
    exact ⟨by simpa using hcol, hatt⟩
  · intro k hk'; cases hk'
  · intro _ h2; exact absurd h2 hk
  · intro h2; exact absurd h2 hk
  · intro h2; exact absurd h2 hk

/-- membership in `pseudoFrom`. -/
theorem pseudo_legal {a : APos} {s0 : Nat} {mv : Move} (hs0 : s0 < 64) (h : mv ∈ pseudoFrom a s0) :
    ∃ t pr pc, mv = .normal s0 t pr ∧ NormalLegal a s0 t pr pc := by
  unfold pseudoFrom at h
  cases hb : a.board s0 with
  | none => rw [hb] at h; cases h
  | some pc =>
    rw [hb] at h
    simp only [] at h
    split at h
    · cases h
    · next hc =>
      have hw : pc.white = a.whiteToMove := by simpa using hc
      cases hk : pc.kind
      case pawn =>
        rw [hk] at h
        obtain ⟨t, pr, e, nl⟩ := pawn_legal hs0 hb hw hk h
        exact ⟨t, pr, pc, e, nl⟩
      all_goals
        rw [hk] at h
        obtain ⟨t, pr, e, nl⟩ := piece_legal hs0 hb hw (by rw [hk]; exact fun e => Kind.noConfusion e) h
        exact ⟨t, pr, pc, e, nl⟩

/-- a legal move is a pseudo-legal non-castling move after which the mover is not in check, or a legal castling. -/
theorem legal_cases {a : APos} {mv : Move} (h : mv ∈ legalMoves a) :
    (∃ s t pr pc, mv = .normal s t pr ∧ NormalLegal a s t pr pc ∧
      inCheck (apply a mv).board a.whiteToMove = false) ∨
    (∃ ks, mv = .castle ks ∧ castleLegal a ks = true) := by
  unfold legalMoves at h
  rw [List.mem_append] at h
  rcases h with h | h
  · left
    rw [List.mem_filter] at h
    obtain ⟨hm, hc⟩ := h
    rw [List.mem_flatMap] at hm
    obtain ⟨s0, hs0, hm⟩ := hm
    have hs0' : s0 < 64 := List.mem_range.mp hs0
    obtain ⟨t, pr, pc, e, nl⟩ := pseudo_legal hs0' hm
    exact ⟨s0, t, pr, pc, e, nl, by simpa using hc⟩
  · right
    rw [List.mem_map] at h
    obtain ⟨ks, hk, e⟩ := h
    rw [List.mem_filter] at hk
    exact ⟨ks, e.symm, hk.2⟩

end Rawr.SV
