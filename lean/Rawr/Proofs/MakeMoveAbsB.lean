import Rawr.Proofs.MakeMoveAbsA
/-! C02, engine side: the position `makemove` builds before the final `flip`, for non-castling and for
castling moves — no `unwrap` fails, the eight boards change by the XOR-deltas of `HashMoveN`/`HashMoveC`,
and every other field is given explicitly. -/
namespace Rawr.MM
open Rawr Rawr.Position Rawr.Spec Rawr.ZH

/-! ### the fields the key proof did not track: clocks, castle files, `frc` -/

/-- castle files and the `frc` flag. -/
def cfs (s : Position) : Nat × Nat × Nat × Nat × Bool := (s.cf0, s.cf1, s.cf2, s.cf3, s.frc)

theorem setPiece_aux (s : Position) (i : Nat) (b : BB) :
    (s.setPiece i b).halfmoves = s.halfmoves ∧ (s.setPiece i b).fullmoves = s.fullmoves ∧
    cfs (s.setPiece i b) = cfs s := by
  unfold Position.setPiece
  split <;> exact ⟨rfl, rfl, rfl⟩

theorem relocate_aux (p : Position) (m : Mv) (i : Nat) (h : BB) :
    (stRelocate p m i h).halfmoves = p.halfmoves + 1 ∧ (stRelocate p m i h).fullmoves = p.fullmoves ∧
    cfs (stRelocate p m i h) = cfs p := by
  unfold stRelocate
  exact setPiece_aux _ _ _

theorem capStep_aux (s : Position) (m : Mv) (c : Nat) :
    (capStep s m c).halfmoves = 0 ∧ (capStep s m c).fullmoves = s.fullmoves ∧ cfs (capStep s m c) = cfs s := by
  unfold capStep
  exact setPiece_aux _ _ _

theorem clock_aux (s : Position) (i : Nat) :
    (stClock s i).halfmoves = (if (i == 0) = true then 0 else s.halfmoves) ∧
    (stClock s i).fullmoves = s.fullmoves ∧ cfs (stClock s i) = cfs s := by
  unfold stClock
  split <;> exact ⟨rfl, rfl, rfl⟩

theorem epStep_aux (s : Position) (e : Nat) :
    (epStep s e).halfmoves = s.halfmoves ∧ (epStep s e).fullmoves = s.fullmoves ∧ cfs (epStep s e) = cfs s :=
  ⟨rfl, rfl, rfl⟩

theorem double_aux (s : Position) (m : Mv) (i : Nat) :
    (stDouble s m i).halfmoves = s.halfmoves ∧ (stDouble s m i).fullmoves = s.fullmoves ∧
    cfs (stDouble s m i) = cfs s := by
  unfold stDouble
  split <;> exact ⟨rfl, rfl, rfl⟩

theorem castle_aux (s : Position) (m : Mv) (a b : Nat) :
    (stCastle s m a b).halfmoves = s.halfmoves ∧ (stCastle s m a b).fullmoves = s.fullmoves ∧
    cfs (stCastle s m a b) = cfs s := by
  unfold stCastle
  simp only []
  split
  · exact ⟨rfl, rfl, rfl⟩
  · split <;> exact ⟨rfl, rfl, rfl⟩

theorem promo_aux (s : Position) (m : Mv) :
    (stPromo s m).halfmoves = s.halfmoves ∧ (stPromo s m).fullmoves = s.fullmoves ∧
    cfs (stPromo s m) = cfs s := by
  unfold stPromo
  split
  · exact setPiece_aux _ _ _
  · exact ⟨rfl, rfl, rfl⟩

theorem tail0_aux (p : Position) (m : Mv) (i : Nat) (s : Position) :
    (stTail0 p m i s).halfmoves = s.halfmoves ∧ (stTail0 p m i s).fullmoves = s.fullmoves ∧
    cfs (stTail0 p m i s) = cfs s := by
  unfold stTail0 stRights
  simp only []
  obtain ⟨a1, b1, c1⟩ := double_aux s m i
  obtain ⟨a2, b2, c2⟩ := castle_aux (stDouble s m i) m (fromCoords p.cf0 0) (fromCoords p.cf1 0)
  obtain ⟨a3, b3, c3⟩ := promo_aux (stCastle (stDouble s m i) m (fromCoords p.cf0 0) (fromCoords p.cf1 0)) m
  exact ⟨a3.trans (a2.trans a1), b3.trans (b2.trans b1), c3.trans (c2.trans c1)⟩

/-- the last stage: the full-move number goes up after a move by Black, nothing else changes. -/
theorem full_fields (s : Position) :
    (stFull s).c0 = s.c0 ∧ (stFull s).c1 = s.c1 ∧ (stFull s).piece = s.piece ∧ (stFull s).black = s.black ∧
    (stFull s).ep = s.ep ∧ (stFull s).usK = s.usK ∧ (stFull s).usQ = s.usQ ∧ (stFull s).themK = s.themK ∧
    (stFull s).themQ = s.themQ ∧ (stFull s).halfmoves = s.halfmoves ∧ cfs (stFull s) = cfs s ∧
    (stFull s).hash = s.hash ∧
    (stFull s).fullmoves = (if s.black = true then s.fullmoves + 1 else s.fullmoves) := by
  unfold stFull
  split <;> exact ⟨rfl, rfl, rfl, rfl, rfl, rfl, rfl, rfl, rfl, rfl, rfl, rfl, by simp [*]⟩

/-! ### the pre-flip result -/

/-- everything about the position `S` that `makemove` reaches just before the full-move update and the
flip, relative to the start `p`: boards as XOR-deltas, the other fields explicitly. -/
structure Res (p : Position) (m : Mv) (i : Nat) (h : BB) (d0 d1 : BB) (dP : Nat → BB) (hm : Int)
    (S : Position) : Prop where
  c0 : S.c0 = p.c0 ^^^ d0
  c1 : S.c1 = p.c1 ^^^ d1
  P : ∀ k, S.piece k = p.piece k ^^^ dP k
  black : S.black = p.black
  hash : S.hash = h
  ep : S.ep = if (i == 0 && m.dst - m.src == 16) = true then some (m.dst - 8) else none
  usK : S.usK = (p.usK && (m.src != lsb (p.c0 &&& p.p5) && m.src != fromCoords p.cf0 0 && m.dst != fromCoords p.cf0 0))
  usQ : S.usQ = (p.usQ && (m.src != lsb (p.c0 &&& p.p5) && m.src != fromCoords p.cf1 0 && m.dst != fromCoords p.cf1 0))
  themK : S.themK = (p.themK && (m.src != lsb (p.c1 &&& p.p5) && m.src != fromCoords p.cf2 7 && m.dst != fromCoords p.cf2 7))
  themQ : S.themQ = (p.themQ && (m.src != lsb (p.c1 &&& p.p5) && m.src != fromCoords p.cf3 7 && m.dst != fromCoords p.cf3 7))
  half : S.halfmoves = hm
  full : S.fullmoves = p.fullmoves
  cf : cfs S = cfs p

section nc
variable {p : Position} {m : Mv} {i c : Nat} {cap epc pr : Bool}

/-- the position after relocation and capture. -/
def ncS2 (p : Position) (m : Mv) (i c : Nat) (cap : Bool) (h : BB) : Position :=
  if cap = true then capStep (stRelocate p m i h) m c else stRelocate p m i h

/-- the position after the clock reset and the en-passant removal. -/
def ncS4 (p : Position) (m : Mv) (i c : Nat) (cap epc : Bool) (h : BB) : Position :=
  if epc = true then epStep (stClock (ncS2 p m i c cap h) i) m.dst else stClock (ncS2 p m i c cap h) i

theorem ncS2_eff (f : NCFacts p m i c cap epc pr) (h : BB) :
    BoardEff { p with hash := h } (ncS2 p m i c cap h) (bit m.src ||| bit m.dst) (cnd (cap = true) (bit m.dst))
      (fun k => cnd (k = i) (bit m.src ||| bit m.dst) ^^^ cnd (cap = true ∧ k = c) (bit m.dst)) ∧
    (ncS2 p m i c cap h).ep = p.ep ∧
    (ncS2 p m i c cap h).halfmoves = (if cap = true then 0 else p.halfmoves + 1) ∧
    (ncS2 p m i c cap h).fullmoves = p.fullmoves ∧ cfs (ncS2 p m i c cap h) = cfs p := by
  have hi := pieceOn_lt f.hpo
  have E1 := relocate_eff p m i h hi
  obtain ⟨a1, b1, c1⟩ := relocate_aux p m i h
  unfold ncS2
  cases hcp : cap
  · simp only [Bool.false_eq_true, if_false]
    exact ⟨E1.cast rfl (by simp [cnd]) (fun k => by simp [cnd]), relocate_ep p m i h, a1, b1, c1⟩
  · simp only [if_true]
    have hc := f.hc hcp
    obtain ⟨a2, b2, c2⟩ := capStep_aux (stRelocate p m i h) m c
    exact ⟨(E1.trans (capStep_eff _ m c (pieceOn_lt hc))).cast (by simp) (by simp [cnd]) (fun k => by simp [cnd]),
      (capStep_ep _ m c).trans (relocate_ep p m i h), a2, b2.trans b1, c2.trans c1⟩

theorem ncS4_eff (f : NCFacts p m i c cap epc pr) (h : BB) :
    BoardEff { p with hash := h } (ncS4 p m i c cap epc h) (bit m.src ||| bit m.dst) (ncD1 m cap epc)
      (ncDP0 m i c cap epc) ∧
    (ncS4 p m i c cap epc h).halfmoves = (if (cap || i == 0) = true then 0 else p.halfmoves + 1) ∧
    (ncS4 p m i c cap epc h).fullmoves = p.fullmoves ∧ cfs (ncS4 p m i c cap epc h) = cfs p := by
  obtain ⟨E2, _, a2, b2, c2⟩ := ncS2_eff f h
  have E3 := E2.trans (clock_eff (ncS2 p m i c cap h) i)
  obtain ⟨a3, b3, c3⟩ := clock_aux (ncS2 p m i c cap h) i
  have ha : (stClock (ncS2 p m i c cap h) i).halfmoves = (if (cap || i == 0) = true then 0 else p.halfmoves + 1) := by
    rw [a3, a2]
    cases cap <;> cases (i == 0) <;> rfl
  unfold ncS4
  rcases Bool.eq_false_or_eq_true epc with hE | hE
  · simp only [hE, if_true]
    have h8 := (f.hepc hE).1
    have E4 := E3.trans (epStep_eff (stClock (ncS2 p m i c cap h) i) m.dst)
    rw [south_bit h8 f.hd] at E4
    obtain ⟨a4, b4, c4⟩ := epStep_aux (stClock (ncS2 p m i c cap h) i) m.dst
    exact ⟨E4.cast (by simp) (by simp [ncD1, cnd]) (fun k => by simp [ncDP0, cnd, BitVec.xor_assoc]),
      a4.trans ha, b4.trans (b3.trans b2), c4.trans (c3.trans c2)⟩
  · simp only [hE, Bool.false_eq_true, if_false]
    exact ⟨E3.cast (by simp) (by simp [ncD1, cnd]) (fun k => by simp [ncDP0, cnd]),
      ha, b3.trans b2, c3.trans c2⟩

/-- no `unwrap` of a non-castling move fails. -/
theorem mmFrom_nc (f : NCFacts p m i c cap epc pr)
    (hepcE : epc = (i == 0 && fileOf m.src != fileOf m.dst && (p.pieceOn m.dst).isNone))
    (hepE : epc = true → p.ep = some m.dst) (h : BB) :
    mmFrom p m i h = some (stTail p m i (ncS4 p m i c cap epc h)).flip := by
  have hi := pieceOn_lt f.hpo
  have E1 := relocate_eff p m i h hi
  have hc1 : (stRelocate p m i h).c1.isSet m.dst = cap := by
    unfold BB.isSet
    rw [E1.c1]
    simpa using f.hcap
  obtain ⟨_, ep2, _⟩ := ncS2_eff f h
  have ep3 : (stClock (ncS2 p m i c cap h) i).ep = p.ep := (clock_ep _ i).trans ep2
  unfold mmFrom
  simp only [Option.bind_eq_bind, Option.pure_def, hc1, ← hepcE]
  unfold ncS4
  unfold ncS2 at ep3 ⊢
  cases hcp : cap
  · simp only [hcp, Bool.false_eq_true, if_false, Option.bind_some] at ep3 ⊢
    rcases Bool.eq_false_or_eq_true epc with hE | hE
    · simp only [hE, if_true, ep3, hepE hE, Option.bind_some]
    · simp only [hE, Bool.false_eq_true, if_false]
  · simp only [hcp, if_true, f.hc hcp, Option.bind_some] at ep3 ⊢
    rcases Bool.eq_false_or_eq_true epc with hE | hE
    · simp only [hE, if_true, ep3, hepE hE, Option.bind_some]
    · simp only [hE, Bool.false_eq_true, if_false]

/-- the stages after the en-passant removal, for a non-castling move. -/
theorem nc_tail_res (f : NCFacts p m i c cap epc pr) (hprE : pr = (m.promo != 6)) (hp6 : pr = true → m.promo < 6)
    (h : BB) (s4 : Position) (hm : Int)
    (E : BoardEff { p with hash := h } s4 (bit m.src ||| bit m.dst) (ncD1 m cap epc) (ncDP0 m i c cap epc))
    (ha : s4.halfmoves = hm) (hb : s4.fullmoves = p.fullmoves) (hcf : cfs s4 = cfs p) :
    Res p m i h (bit m.src ||| bit m.dst) (ncD1 m cap epc) (ncDP m i c cap epc pr) hm (stTail0 p m i s4) := by
  obtain ⟨d0, d1, dP, d5, d3, dsm, dep⟩ := double_fields s4 m i
  have hno : ((stDouble s4 m i).p5 &&& (stDouble s4 m i).p3).isOcc = false := by
    rw [d5, d3]
    show (s4.piece 5 &&& s4.piece 3).isOcc = false
    rw [E.P 5, E.P 3]
    show ((p.piece 5 ^^^ ncDP0 m i c cap epc 5) &&& (p.piece 3 ^^^ ncDP0 m i c cap epc 3)).isOcc = false
    exact nc_no_castle f
  have e6 := castle_none (stDouble s4 m i) m (fromCoords p.cf0 0) (fromCoords p.cf1 0) hno
  have E5 : BoardEff s4 (stDouble s4 m i) 0#64 0#64 (fun _ => 0#64) :=
    ⟨by simp [d0], by simp [d1], fun k => by simp [dP], dsm⟩
  have E7 : BoardEff (stDouble s4 m i) (stPromo (stDouble s4 m i) m) 0#64 0#64
      (fun k => cnd (pr = true ∧ k = 0) (bit m.dst) ^^^ cnd (pr = true ∧ k = m.promo) (bit m.dst)) := by
    cases hp : pr
    · have h6 : m.promo = 6 := by
        rw [hp] at hprE
        simpa using hprE.symm
      rw [promo_none _ _ h6]
      exact (BoardEff.refl _).cast rfl rfl (fun k => by simp [cnd])
    · have h6 : m.promo ≠ 6 := by
        rw [hp] at hprE
        simpa using hprE.symm
      exact (promo_eff _ m (hp6 hp) h6).cast rfl rfl (fun k => by simp [cnd])
  have Etot : BoardEff { p with hash := h } (stPromo (stDouble s4 m i) m) (bit m.src ||| bit m.dst)
      (ncD1 m cap epc) (ncDP m i c cap epc pr) :=
    ((E.trans E5).trans E7).cast (by simp) (by simp)
      (fun k => by simp only [ncDP0, ncDP, BitVec.xor_zero, BitVec.xor_assoc])
  obtain ⟨r0, r1, rP, rb, rh, rep, rUK, rUQ, rTK, rTQ⟩ := rights_fields (stPromo (stDouble s4 m i) m) m
    (lsb (p.c0 &&& p.p5)) (lsb (p.c1 &&& p.p5)) (fromCoords p.cf0 0) (fromCoords p.cf1 0)
    (fromCoords p.cf2 7) (fromCoords p.cf3 7)
  have hT : stTail0 p m i s4 = stRights (stPromo (stDouble s4 m i) m) m
      (lsb (p.c0 &&& p.p5)) (lsb (p.c1 &&& p.p5)) (fromCoords p.cf0 0) (fromCoords p.cf1 0)
      (fromCoords p.cf2 7) (fromCoords p.cf3 7) := by
    unfold stTail0
    simp only [e6]
  obtain ⟨t1, t2, t3⟩ := tail0_aux p m i s4
  refine ⟨?_, ?_, ?_, ?_, ?_, ?_, ?_, ?_, ?_, ?_, t1.trans ha, t2.trans hb, t3.trans hcf⟩
  · rw [hT, r0]; exact Etot.c0
  · rw [hT, r1]; exact Etot.c1
  · intro k; rw [hT, rP]; exact Etot.P k
  · rw [hT, rb]; exact Etot.sm.black
  · rw [hT, rh]; exact Etot.sm.hash
  · rw [hT, rep, promo_ep, dep]
  · rw [hT, rUK, Etot.sm.usK]
  · rw [hT, rUQ, Etot.sm.usQ]
  · rw [hT, rTK, Etot.sm.themK]
  · rw [hT, rTQ, Etot.sm.themQ]

/-- the pre-flip result of a non-castling move. -/
theorem nc_result (f : NCFacts p m i c cap epc pr)
    (hepcE : epc = (i == 0 && fileOf m.src != fileOf m.dst && (p.pieceOn m.dst).isNone))
    (hprE : pr = (m.promo != 6)) (hepE : epc = true → p.ep = some m.dst)
    (hp6 : pr = true → m.promo < 6) (h : BB) :
    ∃ S, mmFrom p m i h = some (stFull S).flip ∧
      Res p m i h (bit m.src ||| bit m.dst) (ncD1 m cap epc) (ncDP m i c cap epc pr)
        (if (cap || i == 0) = true then 0 else p.halfmoves + 1) S := by
  obtain ⟨E, a, b, d⟩ := ncS4_eff f h
  exact ⟨_, mmFrom_nc f hepcE hepE h, nc_tail_res f hprE hp6 h _ _ E a b d⟩

end nc

section castle
variable {p : Position} {m : Mv} {kTo rTo : Nat}

theorem mmFrom_c (f : CFacts p m kTo rTo) (h : BB) :
    mmFrom p m 5 h = some (stTail p m 5 (stClock (stRelocate p m 5 h) 5)).flip := by
  have E1 := relocate_eff p m 5 h (by omega)
  have h1d : p.c1.getLsbD m.dst = false := by
    have := disj_bit f.hC m.dst
    rw [f.h0d] at this
    simpa using this
  have hc1 : (stRelocate p m 5 h).c1.isSet m.dst = false := by
    unfold BB.isSet
    rw [E1.c1]
    simpa using h1d
  have h50 : ((5 : Nat) == 0) = false := rfl
  unfold mmFrom
  simp only [Option.bind_eq_bind, Option.pure_def, hc1, h50, Bool.false_and, Bool.false_eq_true, if_false,
    Option.bind_some]

theorem c_tail_res (f : CFacts p m kTo rTo) (hpr : m.promo = 6)
    (hCast : ∀ s5 : Position, (s5.p5 &&& s5.p3).isOcc = true →
      BoardEff s5 (stCastle s5 m (fromCoords p.cf0 0) (fromCoords p.cf1 0))
        ((bit m.src ||| bit m.dst) ^^^ bit m.src ^^^ bit kTo ^^^ bit m.dst ^^^ bit rTo) 0#64
        (fun k => cnd (k = 5) ((bit m.src ||| bit m.dst) ^^^ bit m.src ^^^ bit kTo) ^^^
          cnd (k = 3) (bit m.dst ^^^ bit rTo)))
    (h : BB) (s4 : Position) (hm : Int)
    (E : BoardEff { p with hash := h } s4 (bit m.src ||| bit m.dst) 0#64
      (fun k => cnd (k = 5) (bit m.src ||| bit m.dst)))
    (ha : s4.halfmoves = hm) (hb : s4.fullmoves = p.fullmoves) (hcf : cfs s4 = cfs p) :
    Res p m 5 h (cD0 m kTo rTo) 0#64 (cDP m kTo rTo) hm (stTail0 p m 5 s4) := by
  obtain ⟨d0, d1, dP, d5, d3, dsm, dep⟩ := double_fields s4 m 5
  have hC := f.hC
  have hocc : ((stDouble s4 m 5).p5 &&& (stDouble s4 m 5).p3).isOcc = true := by
    rw [d5, d3]
    show (s4.piece 5 &&& s4.piece 3).isOcc = true
    rw [E.P 5, E.P 3]
    apply isOcc_of_bit (x := m.dst)
    have g5 : (p.piece 5).getLsbD m.dst = false := by rw [piece_bit hC, f.hrook]; rfl
    have g3 : (p.piece 3).getLsbD m.dst = true := by rw [piece_bit hC, f.hrook]; rfl
    show (((p.piece 5 ^^^ cnd (5 = 5) (bit m.src ||| bit m.dst)) &&&
      (p.piece 3 ^^^ cnd (3 = 5) (bit m.src ||| bit m.dst))).getLsbD m.dst) = true
    simp only [BitVec.getLsbD_and, BitVec.getLsbD_xor, BitVec.getLsbD_or, getLsbD_cnd, ZH.getLsbD_bit, g5, g3]
    simp [f.hd]
  have E5 : BoardEff s4 (stDouble s4 m 5) 0#64 0#64 (fun _ => 0#64) :=
    ⟨by simp [d0], by simp [d1], fun k => by simp [dP], dsm⟩
  have E6 := hCast _ hocc
  have e7 := promo_none (stCastle (stDouble s4 m 5) m (fromCoords p.cf0 0) (fromCoords p.cf1 0)) m hpr
  have Etot : BoardEff { p with hash := h } (stCastle (stDouble s4 m 5) m (fromCoords p.cf0 0) (fromCoords p.cf1 0))
      (cD0 m kTo rTo) 0#64 (cDP m kTo rTo) :=
    ((E.trans E5).trans E6).cast (by simp [cD0]) (by simp)
      (fun k => by simp only [cDP, BitVec.xor_zero])
  obtain ⟨r0, r1, rP, rb, rh, rep, rUK, rUQ, rTK, rTQ⟩ :=
    rights_fields (stCastle (stDouble s4 m 5) m (fromCoords p.cf0 0) (fromCoords p.cf1 0)) m
    (lsb (p.c0 &&& p.p5)) (lsb (p.c1 &&& p.p5)) (fromCoords p.cf0 0) (fromCoords p.cf1 0)
    (fromCoords p.cf2 7) (fromCoords p.cf3 7)
  have hT : stTail0 p m 5 s4 = stRights (stCastle (stDouble s4 m 5) m (fromCoords p.cf0 0) (fromCoords p.cf1 0)) m
      (lsb (p.c0 &&& p.p5)) (lsb (p.c1 &&& p.p5)) (fromCoords p.cf0 0) (fromCoords p.cf1 0)
      (fromCoords p.cf2 7) (fromCoords p.cf3 7) := by
    unfold stTail0
    simp only [e7]
  obtain ⟨t1, t2, t3⟩ := tail0_aux p m 5 s4
  refine ⟨?_, ?_, ?_, ?_, ?_, ?_, ?_, ?_, ?_, ?_, t1.trans ha, t2.trans hb, t3.trans hcf⟩
  · rw [hT, r0]; exact Etot.c0
  · rw [hT, r1]; exact Etot.c1
  · intro k; rw [hT, rP]; exact Etot.P k
  · rw [hT, rb]; exact Etot.sm.black
  · rw [hT, rh]; exact Etot.sm.hash
  · rw [hT, rep, castle_ep, dep]
  · rw [hT, rUK, Etot.sm.usK]
  · rw [hT, rUQ, Etot.sm.usQ]
  · rw [hT, rTK, Etot.sm.themK]
  · rw [hT, rTQ, Etot.sm.themQ]

theorem c_result (f : CFacts p m kTo rTo) (hpr : m.promo = 6)
    (hCast : ∀ s5 : Position, (s5.p5 &&& s5.p3).isOcc = true →
      BoardEff s5 (stCastle s5 m (fromCoords p.cf0 0) (fromCoords p.cf1 0))
        ((bit m.src ||| bit m.dst) ^^^ bit m.src ^^^ bit kTo ^^^ bit m.dst ^^^ bit rTo) 0#64
        (fun k => cnd (k = 5) ((bit m.src ||| bit m.dst) ^^^ bit m.src ^^^ bit kTo) ^^^
          cnd (k = 3) (bit m.dst ^^^ bit rTo)))
    (h : BB) :
    ∃ S, mmFrom p m 5 h = some (stFull S).flip ∧
      Res p m 5 h (cD0 m kTo rTo) 0#64 (cDP m kTo rTo) (p.halfmoves + 1) S := by
  have E1 := relocate_eff p m 5 h (by omega)
  obtain ⟨a1, b1, c1⟩ := relocate_aux p m 5 h
  obtain ⟨a2, b2, c2⟩ := clock_aux (stRelocate p m 5 h) 5
  refine ⟨_, mmFrom_c f h, c_tail_res f hpr hCast h _ _
    ((E1.trans (clock_eff _ 5)).cast (by simp) (by simp) (fun k => by simp)) (a2.trans ?_) (b2.trans b1)
    (c2.trans c1)⟩
  rw [a1]
  rfl

theorem castleK_result (f : CFacts p m 6 5) (hpr : m.promo = 6)
    (hdst : fromCoords p.cf0 0 = m.dst) (hgt : m.dst > m.src) (h : BB) :
    ∃ S, mmFrom p m 5 h = some (stFull S).flip ∧
      Res p m 5 h (cD0 m 6 5) 0#64 (cDP m 6 5) (p.halfmoves + 1) S :=
  c_result f hpr (fun s5 hocc => (castle_eff_K s5 m _ _ hocc hgt).cast (by rw [hdst]) rfl
    (fun k => by rw [hdst])) h

theorem castleQ_result (f : CFacts p m 2 3) (hpr : m.promo = 6)
    (hdst : fromCoords p.cf1 0 = m.dst) (hlt : m.dst < m.src) (h : BB) :
    ∃ S, mmFrom p m 5 h = some (stFull S).flip ∧
      Res p m 5 h (cD0 m 2 3) 0#64 (cDP m 2 3) (p.halfmoves + 1) S :=
  c_result f hpr (fun s5 hocc => (castle_eff_Q s5 m _ _ hocc hlt).cast (by rw [hdst]) rfl
    (fun k => by rw [hdst])) h

end castle

end Rawr.MM
