import Rawr.Proofs.RustSessionAgree_Listen
import Rawr.Proofs.RustTextAgree_Rules
import Rawr.Proofs.RustSearchAgree_Rules
/-!
# The session-layer agreement theorems without domain hypotheses

* `agree_position_fmt_rules`, `agree_uci_split_rules`: `Display for Position` and `split` on every valid position.
* `agree_listen_step_rules`: one command of the second loop on a state whose position is in `V ∧ E` with counter room
  (`VE`), for every command but a search (`go` with a search limit needs in addition that the reported moves are
  on-board — `GoOk` — which the project proves for the best move only, `C03_rules`) — see `StepOk_rules`.
* `agree_listen_nomoves`: **the whole `listen`** (both loops, the session state, the option callbacks, `ucinewgame`,
  `isready`, `print`, `setoption`, `history`, `eval`, `quit`, unknown words, end of input) for every list of input lines
  none of which is a `go`, `position` or `moves` command: no hypothesis but the iteration bound and a newline-free version
  string.
-/
set_option linter.unusedSimpArgs false
namespace Rawr.Sess
open T Position

theorem displayOk_of_valid {p : Position} (hV : ValidPos p = true) : DisplayOk p := by
  have hP := fenPrintable_of_valid hV
  have F := vfacts_of_valid hV
  simp only [ValidPos, Bool.and_eq_true, decide_eq_true_eq] at hV
  obtain ⟨⟨⟨⟨⟨_, h0⟩, h1⟩, h2⟩, h3⟩, _⟩ := hV
  have hPf : FenPrintable (if p.black then p.flip else p) := by
    split
    · exact hP.flip
    · exact hP
  exact ⟨hPf.1, fun _ => by omega, fun _ => by omega, fun _ => by omega, fun _ => by omega⟩

/-- `Display for Position` on valid positions. -/
theorem _root_.Rawr.agree_position_fmt_rules (ar : Arith) (p : Position) (f : List Char) (hV : ValidPos p = true) :
    R.position_fmt ar p f = some (f ++ T.unlines (displayPos p)) :=
  agree_position_fmt ar p f (displayOk_of_valid hV)

/-- `uci::split::split` on valid positions. -/
theorem _root_.Rawr.agree_uci_split_rules (fuel : Nat) (ar : Arith) (clock : Nat → Nat) (p : Position) (d : Nat)
    (hf : d - 1 < fuel) (hV : ValidPos p = true) :
    CmdRel p (splitLines p d) (R.uci_split fuel ar clock p d) :=
  agree_uci_split fuel ar clock p d hf (movesOnBoard_of_valid hV)

/-! ## sessions without `go` / `position` / `moves` -/
/-- the line is not a `go`, `position` or `moves` command. -/
def NoMoveCmd (l : List Char) : Prop :=
  (splitWs l).headD [] ≠ str "go" ∧ (splitWs l).headD [] ≠ str "position" ∧ (splitWs l).headD [] ≠ str "moves"

/-- the start position, with either value of the Chess960 flag. -/
def IsStart (p : Position) : Prop := p = { Gen.startpos with frc := p.frc }

theorem isStart_frc {p : Position} (h : IsStart p) (f : Bool) : IsStart { p with frc := f } := by
  unfold IsStart at *
  rw [h]

theorem displayOk_start {p : Position} (h : IsStart p) : DisplayOk p := by
  unfold IsStart at h
  rw [h]
  refine ⟨?_, ?_, ?_, ?_, ?_⟩
  · intro e he; simp only [Gen.startpos] at he; cases he
  all_goals (intro _; simp only [Gen.startpos]; omega)

theorem cbF_start (second : Bool) {s : UState} (h : IsStart s.pos) (nv : List Char × List Char) : IsStart (cbF second s nv).pos := by
  unfold cbF
  split
  · split
    · split <;> exact h
    · exact h
  · split
    · exact isStart_frc h _
    · exact h

theorem doSetoption_start (second : Bool) {s : UState} (h : IsStart s.pos) (toks : List (List Char)) :
    IsStart (doSetoption s toks second).pos := by
  rw [doSetoption_cb]
  generalize (R.setoption toks).2 = calls
  induction calls generalizing s with
  | nil => exact h
  | cons nv calls ih => exact ih (cbF_start second h nv)

theorem firstLoop_start : ∀ (lines : List (List Char)) (s s' : UState) (g : Bool) (rest : List (List Char)),
    IsStart s.pos → firstLoop lines s = some (s', g, rest) → IsStart s'.pos ∧ ∀ l ∈ rest, l ∈ lines ∨ l = [] := by
  intro lines
  induction lines with
  | nil =>
    intro s s' g rest hs h
    simp only [firstLoop, Option.some.injEq, Prod.mk.injEq] at h
    rw [← h.1, ← h.2.2]
    exact ⟨hs, fun l hl => Or.inr (by simpa using hl)⟩
  | cons l ls ih =>
    intro s s' g rest hs h
    simp only [firstLoop] at h
    split at h
    · simp only [Option.some.injEq, Prod.mk.injEq] at h
      rw [← h.1, ← h.2.2]
      exact ⟨hs, fun x hx => Or.inl (List.mem_cons_of_mem _ hx)⟩
    · split at h
      · obtain ⟨h1, h2⟩ := ih _ _ _ _ (doSetoption_start false hs _) h
        exact ⟨h1, fun x hx => (h2 x hx).imp (List.mem_cons_of_mem _) id⟩
      · split at h
        · cases h
        · simp only [Option.some.injEq, Prod.mk.injEq] at h
          rw [← h.1, ← h.2.2]
          exact ⟨hs, fun x hx => Or.inl hx⟩

theorem noMove_nil : NoMoveCmd [] := by
  refine ⟨?_, ?_, ?_⟩ <;> decide

/-- the step of a line that is no `go` / `position` / `moves` keeps the position a start position. -/
theorem stepSecond_start (ar : Arith) (o : Nat → Bool) {s : UState} (h : IsStart s.pos) (l : List Char) (hq : NoMoveCmd l)
    (s' : UState) (L : List String) (q : Bool) (hstep : stepSecond ar o s l = some (s', L, q)) : IsStart s'.pos := by
  obtain ⟨q1, q2, q3⟩ := hq
  unfold stepSecond at hstep
  simp only [] at hstep
  have b1 : ((splitWs l).headD [] == str "go") = false := by simpa using q1
  have b2 : ((splitWs l).headD [] == str "position") = false := by simpa using q2
  have b3 : ((splitWs l).headD [] == str "moves") = false := by simpa using q3
  simp only [b1, b2, b3, Bool.false_eq_true, if_false] at hstep
  split at hstep
  · simp only [Option.some.injEq, Prod.mk.injEq] at hstep
    rw [← hstep.1]
    show IsStart { Gen.startpos with frc := s.frc }
    rfl
  · split at hstep
    · simp only [Option.some.injEq, Prod.mk.injEq] at hstep; rw [← hstep.1]; exact h
    · split at hstep
      · simp only [Option.some.injEq, Prod.mk.injEq] at hstep; rw [← hstep.1]; exact h
      · split at hstep
        · simp only [Option.some.injEq, Prod.mk.injEq] at hstep; rw [← hstep.1]; exact doSetoption_start true h _
        · split at hstep
          · simp only [Option.some.injEq, Prod.mk.injEq] at hstep; rw [← hstep.1]; exact h
          · split at hstep
            · simp only [Option.some.injEq, Prod.mk.injEq] at hstep; rw [← hstep.1]; exact h
            · split at hstep
              · simp only [Option.some.injEq, Prod.mk.injEq] at hstep; rw [← hstep.1]; exact h
              · simp only [Option.some.injEq, Prod.mk.injEq] at hstep; rw [← hstep.1]; exact h

theorem stepOk_nomove (G : Nat → Position → Prop) (fuel : Nat) (ar : Arith) (clk : Nat → Nat) (o : Nat → Bool) {s : UState}
    (h : IsStart s.pos) (l : List Char) (hq : NoMoveCmd l) : StepOk G fuel ar clk o s (splitWs l) :=
  ⟨fun e => absurd e hq.1, fun e => absurd e hq.2.1, fun e => absurd e hq.2.2, fun _ => displayOk_start h⟩

theorem sessOk_nomoves (G : Nat → Position → Prop) (fuel : Nat) (ar : Arith) (clk : Nat → Nat) (o : Nat → Bool) :
    ∀ (lines : List (List Char)) (s : UState), IsStart s.pos → (∀ l ∈ lines, NoMoveCmd l) → SessOk G fuel ar clk o lines s := by
  intro lines
  induction lines with
  | nil => intro s _ _; trivial
  | cons l ls ih =>
    intro s hs hq
    refine ⟨stepOk_nomove G fuel ar clk o hs l (hq l (by simp)), ?_⟩
    intro s' L hstep
    exact ih s' (stepSecond_start ar o hs l (hq l (by simp)) s' L false hstep) (fun x hx => hq x (by simp [hx]))

theorem setFen_startpos (ar : Arith) : setFen ar false (str "startpos") = some Gen.startpos := by
  cases ar <;> decide +kernel

/-- **`listen` on every session without `go` / `position` / `moves` commands**: the canonical transcript of what the
regenerated listen.rs prints is the model's output — for every such list of input lines, every clock, every stop oracle,
both arithmetics; `fuel` (the bound on the loop iterations) exceeds the number of lines by two. -/
theorem _root_.Rawr.agree_listen_nomoves (fuel : Nat) (ar : Arith) (clk : Nat → Nat) (o : Nat → Bool) (version : Option (List Char))
    (lines : List (List Char)) (hfuel : lines.length + 1 < fuel) (hv : '\n' ∉ version.getD ['u', 'n', 'k', 'n', 'o', 'w', 'n'])
    (hq : ∀ l ∈ lines, NoMoveCmd l) :
    (R.listen fuel ar 1000 clk version lines).map (fun r => transcript r.2) = listen ar o lines := by
  apply agree_listen (fun _ _ => False) (fun _ _ h => h.elim) (fun _ _ h => h.elim) (fun _ _ _ _ h => h.elim) fuel ar clk o
    version lines hfuel hv
  intro pos s got rest hsf hfl
  rw [setFen_startpos] at hsf
  injection hsf with hsf
  subst hsf
  obtain ⟨hs, hsub⟩ := firstLoop_start lines _ s got rest (by rfl) hfl
  refine sessOk_nomoves _ _ _ _ _ rest { s with tt := s.tt.resize s.hashMb Gen.ttEntrySize } hs ?_
  intro l hl
  rcases hsub l hl with h | h
  · exact hq l h
  · rw [h]; exact noMove_nil

/-! non-vacuity: a session with options, `ucinewgame`, `print`, `history`, `eval`, an unknown word, `quit` -/
example (ar : Arith) (clk : Nat → Nat) (o : Nat → Bool) :
    (R.listen 20 ar 1000 clk none
      ["setoption name UCI_Chess960 value true".toList, "setoption name Hash value 1".toList, "isready".toList,
        "ucinewgame".toList, "print".toList, "history".toList, "eval".toList, "xyzzy".toList, "quit".toList]).map
      (fun r => transcript r.2) =
    listen ar o ["setoption name UCI_Chess960 value true".toList, "setoption name Hash value 1".toList, "isready".toList,
        "ucinewgame".toList, "print".toList, "history".toList, "eval".toList, "xyzzy".toList, "quit".toList] := by
  apply agree_listen_nomoves 20 ar clk o none _ (by decide) (by decide)
  intro l hl
  simp only [List.mem_cons, List.not_mem_nil, or_false] at hl
  rcases hl with rfl | rfl | rfl | rfl | rfl | rfl | rfl | rfl | rfl <;> (refine ⟨?_, ?_, ?_⟩ <;> decide)

end Rawr.Sess

#print axioms Rawr.agree_position_fmt_rules
#print axioms Rawr.agree_uci_split_rules
#print axioms Rawr.agree_listen_nomoves
