import Rawr.Model.Hashtable
/-! Helper lemmas for C18: every operation of the `Table` model described through the
slot-content function `Table.slot` (`default` outside the table) and `Table.len`. -/
set_option linter.unusedSectionVars false
namespace Rawr
namespace Table
variable {α : Type} [Inhabited α] [DecidableEq α]

/-- Content of slot `i` (`default` outside the table). -/
def slot (t : Table α) (i : Nat) : α := t.entries[i]?.getD default

theorem slot_of_lt (t : Table α) {i : Nat} (h : i < t.len) : t.slot i = t.entries[i]'h := by
  unfold len at h
  simp [slot, h]

theorem slot_of_ge (t : Table α) {i : Nat} (h : t.len ≤ i) : t.slot i = default := by
  unfold len at h
  simp [slot, h]

/-- Two tables with the same length and the same slot contents are equal. -/
theorem ext_slot {t u : Table α} (hl : t.len = u.len) (hs : ∀ i, i < t.len → t.slot i = u.slot i) :
    t = u := by
  cases t with | mk a => cases u with | mk b =>
  congr
  apply Array.ext hl
  intro i h1 h2
  have := hs i h1
  rw [slot_of_lt _ h1, slot_of_lt _ (by simpa [len] using h2)] at this
  exact this

/-! ### resize / new -/

theorem len_resize (t : Table α) (mb es : Nat) : (t.resize mb es).len = numEntries mb es := by
  unfold resize len
  simp only
  split
  · simp; omega
  · simp; omega

theorem slot_resize (t : Table α) (mb es i : Nat) :
    (t.resize mb es).slot i = if i < numEntries mb es then t.slot i else default := by
  unfold resize slot
  simp only
  split
  · rename_i h
    by_cases hi : i < numEntries mb es
    · have h1 : i < min (numEntries mb es) t.entries.size := by omega
      have h2 : i < t.entries.size := by omega
      simp [hi, h1, h2]
    · have h1 : ¬ i < min (numEntries mb es) t.entries.size := by omega
      simp [hi, h1]
  · rename_i h
    by_cases hi : i < numEntries mb es
    · simp only [hi, if_true]
      by_cases h2 : i < t.entries.size
      · simp [Array.getElem?_append, h2]
      · simp only [Array.getElem?_append, h2, Array.getElem?_replicate, if_false]
        split <;> simp [h2]
    · have h2 : ¬ i < t.entries.size := by omega
      have h3 : ¬ i - t.entries.size < numEntries mb es - t.entries.size := by omega
      simp [hi, Array.getElem?_append, h2, h3]

theorem len_new (mb es : Nat) : (new mb es : Table α).len = numEntries mb es := len_resize _ _ _

theorem slot_new (mb es i : Nat) : (new mb es : Table α).slot i = default := by
  unfold new
  rw [slot_resize]
  split
  · simp [slot]
  · rfl

/-! ### clear -/

theorem len_clear (t : Table α) : t.clear.len = t.len := by simp [clear, len]

theorem slot_clear (t : Table α) (i : Nat) : t.clear.slot i = default := by
  simp only [clear, slot, Array.getElem?_replicate]
  split <;> rfl

/-! ### add / poll -/

theorem idx_eq (t : Table α) (key : Nat) :
    t.idx key = if t.len = 0 then none else some (key % t.len) := rfl

/-- Holds for the zero-slot table as well: `key % 0 = key` is outside the table, where `slot` reads
`default`, which is what the fixed `poll` answers. -/
theorem poll_eq (t : Table α) (key : Nat) : t.poll key = some (t.slot (key % t.len)) := by
  unfold poll
  by_cases h : t.len = 0
  · have h' : t.entries.size = 0 := h
    simp only [h', if_true]
    rw [slot_of_ge _ (by omega)]
  · have h' : ¬ t.entries.size = 0 := h
    simp only [h', if_false]
    have hk : key % t.len < t.len := Nat.mod_lt _ (Nat.pos_of_ne_zero h)
    rw [slot_of_lt _ hk]
    exact Array.getElem?_eq_getElem hk

theorem add_eq (t : Table α) (key : Nat) (e : α) :
    t.add key e = some (if t.len = 0 then t else ⟨t.entries.setIfInBounds (key % t.len) e⟩) := by
  unfold add
  by_cases h : t.len = 0
  · have h' : t.entries.size = 0 := h
    simp only [h, h', if_true]
  · have h' : ¬ t.entries.size = 0 := h
    simp only [h, h', if_false]
    rfl

/-- The zero-slot table: every lookup answers `default`, every store is ignored. -/
theorem poll_zero (t : Table α) (key : Nat) (h : t.len = 0) : t.poll key = some default := by
  rw [poll_eq, slot_of_ge _ (by omega)]

theorem add_zero (t : Table α) (key : Nat) (e : α) (h : t.len = 0) : t.add key e = some t := by
  rw [add_eq]; simp only [h, if_true]

theorem add_ne_none (t : Table α) (key : Nat) (e : α) : ∃ t', t.add key e = some t' :=
  ⟨_, add_eq t key e⟩

theorem poll_ne_none (t : Table α) (key : Nat) : ∃ e, t.poll key = some e :=
  ⟨_, poll_eq t key⟩

theorem len_add {t t' : Table α} {key : Nat} {e : α} (h : t.add key e = some t') :
    t'.len = t.len := by
  rw [add_eq] at h
  cases h
  split
  · rfl
  · simp [len]

theorem slot_add {t t' : Table α} {key : Nat} {e : α} (h : t.add key e = some t') (i : Nat) :
    t'.slot i = if t.len ≠ 0 ∧ i = key % t.len then e else t.slot i := by
  rw [add_eq] at h
  cases h
  by_cases hn : t.len = 0
  · simp only [hn, if_true, ne_eq, not_true_eq_false, false_and, if_false]
  · have hk : key % t.len < t.entries.size := Nat.mod_lt _ (Nat.pos_of_ne_zero hn)
    simp only [hn, if_false, ne_eq, not_false_eq_true, true_and, slot, Array.getElem?_setIfInBounds]
    by_cases hi : i = key % t.len
    · subst hi; simp [hk]
    · have : ¬ key % t.len = i := fun h => hi h.symm
      simp [hi, this]

/-! ### hashfull -/

theorem toList_extract_eq_map (a : Array α) (n : Nat) (h : n ≤ a.size) :
    (a.extract 0 n).toList = (List.range n).map fun i => a[i]?.getD default := by
  apply List.ext_getElem
  · simp; omega
  · intro i h1 h2
    simp at h1 h2
    have : i < a.size := by omega
    simp [this]

theorem hashfull_eq (t : Table α) :
    t.hashfull = if min t.len 1000 = 0 then none
      else some ((List.range (min t.len 1000)).filter fun i => t.slot i ≠ default).length := by
  unfold hashfull
  simp only [len]
  by_cases h : min t.entries.size 1000 = 0
  · simp only [h, if_true]
  · simp only [h, if_false]
    rw [toList_extract_eq_map _ _ (Nat.min_le_left _ _), List.filter_map, List.length_map]
    rfl

end Table
end Rawr
