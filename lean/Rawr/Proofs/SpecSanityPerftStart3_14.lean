import Rawr.Proofs.SpecSanityPerftDefs
/-! perft of the start position, depth 3, slice 14: the subtree of first move `.normal 13 21 none` (kernel-evaluated). -/
namespace Rawr.SpecS
open Rawr.Spec

theorem start3_14 : leaves (apply stdStart (.normal 13 21 none)) 2 = 380 := by decide +kernel

end Rawr.SpecS
