import Rawr.Proofs.GenCastle
/-!
# C01, pawns, specification side: the pseudo-legal pawn moves of `Spec.pseudoFrom`, in the mover's frame
-/
set_option linter.unusedSimpArgs false
namespace Rawr.Att
open Spec

/-! ### the pawn branch of `pseudoFrom`, in absolute terms -/

def pawnDir (w : Bool) : Int := if w then 1 else -1
def pawnStart (w : Bool) : Int := if w then 1 else 6
def pawnLast (w : Bool) : Int := if w then 7 else 0

/-- the promotion field of a pawn move to `t`. -/
def PromoA (w : Bool) (t : Nat) (pr : Option Kind) : Prop :=
  if rank t = pawnLast w then ∃ k ∈ promoKinds, pr = some k else pr = none

theorem mem_withPromo (w : Bool) (s t : Nat) (a b : Nat) (pr : Option Kind) :
    Move.normal a b pr ∈ (if (rank t == pawnLast w) = true then promoKinds.map fun k => Move.normal s t (some k)
      else [Move.normal s t none]) ↔ a = s ∧ b = t ∧ PromoA w t pr := by
  unfold PromoA
  by_cases h : rank t = pawnLast w
  · simp only [h, beq_self_eq_true, if_true, List.mem_map, Move.normal.injEq]
    constructor
    · rintro ⟨k, hk, rfl, rfl, rfl⟩; exact ⟨rfl, rfl, k, hk, rfl⟩
    · rintro ⟨rfl, rfl, k, hk, rfl⟩; exact ⟨k, hk, rfl, rfl, rfl⟩
  · have : (rank t == pawnLast w) = false := by simpa using h
    simp only [this, Bool.false_eq_true, if_false, List.mem_singleton, Move.normal.injEq, h]

/-- the capture clause for one side. -/
def CapA (P : APos) (w : Bool) (s : Nat) (df : Int) (t : Nat) (pr : Option Kind) : Prop :=
  onBoard (file s + df) (rank s + pawnDir w) = true ∧ t = sq (file s + df) (rank s + pawnDir w) ∧
    match P.board t with
    | some q => q.white ≠ w ∧ PromoA w t pr
    | none => P.ep = some t ∧ pr = none

theorem mem_cap (P : APos) (w : Bool) (s : Nat) (df : Int) (a b : Nat) (pr : Option Kind) :
    Move.normal a b pr ∈ (if onBoard (file s + df) (rank s + pawnDir w) = true then
        match P.board (sq (file s + df) (rank s + pawnDir w)) with
        | some q => if (q.white != w) = true then
            (if (rank (sq (file s + df) (rank s + pawnDir w)) == pawnLast w) = true then
              promoKinds.map fun k => Move.normal s (sq (file s + df) (rank s + pawnDir w)) (some k)
            else [Move.normal s (sq (file s + df) (rank s + pawnDir w)) none]) else []
        | none => if (P.ep == some (sq (file s + df) (rank s + pawnDir w))) = true then
            [Move.normal s (sq (file s + df) (rank s + pawnDir w)) none] else []
      else []) ↔ a = s ∧ CapA P w s df b pr := by
  unfold CapA
  by_cases hon : onBoard (file s + df) (rank s + pawnDir w) = true
  · simp only [hon, if_true, true_and]
    generalize sq (file s + df) (rank s + pawnDir w) = t
    cases hB : P.board t with
    | none =>
      by_cases he : P.ep = some t
      · have he' : (P.ep == some t) = true := by rw [he]; exact beq_self_eq_true _
        rw [if_pos he']
        simp only [List.mem_singleton, Move.normal.injEq]
        constructor
        · rintro ⟨rfl, rfl, rfl⟩; rw [hB]; exact ⟨rfl, rfl, he, rfl⟩
        · rintro ⟨rfl, rfl, h⟩; rw [hB] at h; exact ⟨rfl, rfl, h.2⟩
      · have he' : ¬ (P.ep == some t) = true := by rw [beq_iff_eq]; exact he
        rw [if_neg he']
        simp only [List.not_mem_nil, false_iff]
        rintro ⟨_, rfl, h⟩; rw [hB] at h; exact he h.1
    | some q =>
      by_cases hq : q.white = w
      · have : (q.white != w) = false := by simp [hq]
        simp only [this, Bool.false_eq_true, if_false, List.not_mem_nil, false_iff]
        rintro ⟨_, rfl, h⟩; rw [hB] at h; exact h.1 hq
      · have : (q.white != w) = true := by simpa using hq
        simp only [this, if_true]
        rw [mem_withPromo]
        constructor
        · rintro ⟨rfl, rfl, h⟩; rw [hB]; exact ⟨rfl, rfl, hq, h⟩
        · rintro ⟨rfl, rfl, h⟩; rw [hB] at h; exact ⟨rfl, rfl, h.2⟩
  · simp only [hon, Bool.false_eq_true, if_false, List.not_mem_nil, false_and, and_false]

/-- the pseudo-legal moves of a pawn of the side to move, in absolute terms. -/
theorem mem_pseudoFrom_pawn (P : APos) (s : Nat) (hB : P.board s = some ⟨P.whiteToMove, .pawn⟩)
    (a b : Nat) (pr : Option Kind) :
    Move.normal a b pr ∈ pseudoFrom P s ↔ a = s ∧
      ((onBoard (file s) (rank s + pawnDir P.whiteToMove) = true ∧
        P.board (sq (file s) (rank s + pawnDir P.whiteToMove)) = none ∧
          ((b = sq (file s) (rank s + pawnDir P.whiteToMove) ∧ PromoA P.whiteToMove b pr) ∨
           (rank s = pawnStart P.whiteToMove ∧
             P.board (sq (file s) (rank s + 2 * pawnDir P.whiteToMove)) = none ∧
             b = sq (file s) (rank s + 2 * pawnDir P.whiteToMove) ∧ pr = none))) ∨
       CapA P P.whiteToMove s (-1) b pr ∨ CapA P P.whiteToMove s 1 b pr) := by
  unfold pseudoFrom
  rw [hB]
  simp only [bne_self_eq_false, Bool.false_eq_true, if_false]
  have e1 : (if P.whiteToMove = true then (1 : Int) else -1) = pawnDir P.whiteToMove := rfl
  have e2 : (if P.whiteToMove = true then (1 : Int) else 6) = pawnStart P.whiteToMove := rfl
  have e3 : (if P.whiteToMove = true then (7 : Int) else 0) = pawnLast P.whiteToMove := rfl
  simp only [e1, e2, e3, List.flatMap_cons, List.flatMap_nil, List.append_nil, List.mem_append]
  erw [mem_cap P P.whiteToMove s (-1) a b pr, mem_cap P P.whiteToMove s 1 a b pr]
  by_cases hon : onBoard (file s) (rank s + pawnDir P.whiteToMove) = true
  · cases hb1 : P.board (sq (file s) (rank s + pawnDir P.whiteToMove)) with
    | some q =>
      simp only [hon, hb1, Option.isNone_some, Bool.and_false, Bool.false_eq_true, if_false,
        List.not_mem_nil, false_or, reduceCtorEq, false_and, and_false]
      constructor
      · rintro (h | h)
        · exact ⟨h.1, Or.inl h.2⟩
        · exact ⟨h.1, Or.inr h.2⟩
      · rintro ⟨h, h' | h'⟩
        · exact Or.inl ⟨h, h'⟩
        · exact Or.inr ⟨h, h'⟩
    | none =>
      simp only [hon, hb1, Option.isNone_none, Bool.and_true, if_true, List.mem_append, true_and]
      rw [mem_withPromo]
      by_cases hst : rank s = pawnStart P.whiteToMove
      · cases hb2 : P.board (sq (file s) (rank s + 2 * pawnDir P.whiteToMove)) with
        | some q =>
          simp only [hst, beq_self_eq_true, Option.isNone_some, Bool.and_false, Bool.false_eq_true,
            if_false, List.not_mem_nil, or_false, reduceCtorEq, false_and, and_false]
          constructor
          · rintro (h | h | h)
            · exact ⟨h.1, Or.inl ⟨h.2.1, by rw [h.2.1]; exact h.2.2⟩⟩
            · exact ⟨h.1, Or.inr (Or.inl h.2)⟩
            · exact ⟨h.1, Or.inr (Or.inr h.2)⟩
          · rintro ⟨h, h' | h' | h'⟩
            · exact Or.inl ⟨h, h'.1, by rw [← h'.1]; exact h'.2⟩
            · exact Or.inr (Or.inl ⟨h, h'⟩)
            · exact Or.inr (Or.inr ⟨h, h'⟩)
        | none =>
          simp only [hst, beq_self_eq_true, Option.isNone_none, Bool.and_true, if_true,
            List.mem_singleton, Move.normal.injEq, true_and]
          constructor
          · rintro ((h | h) | h | h)
            · exact ⟨h.1, Or.inl (Or.inl ⟨h.2.1, by rw [h.2.1]; exact h.2.2⟩)⟩
            · exact ⟨h.1, Or.inl (Or.inr ⟨h.2.1, h.2.2⟩)⟩
            · exact ⟨h.1, Or.inr (Or.inl h.2)⟩
            · exact ⟨h.1, Or.inr (Or.inr h.2)⟩
          · rintro ⟨h, (h' | h') | h' | h'⟩
            · exact Or.inl (Or.inl ⟨h, h'.1, by rw [← h'.1]; exact h'.2⟩)
            · exact Or.inl (Or.inr ⟨h, h'.1, h'.2⟩)
            · exact Or.inr (Or.inl ⟨h, h'⟩)
            · exact Or.inr (Or.inr ⟨h, h'⟩)
      · have : (rank s == pawnStart P.whiteToMove) = false := by simpa using hst
        simp only [this, Bool.false_and, Bool.false_eq_true, if_false, List.not_mem_nil, or_false, hst,
          false_and]
        constructor
        · rintro (h | h | h)
          · exact ⟨h.1, Or.inl ⟨h.2.1, by rw [h.2.1]; exact h.2.2⟩⟩
          · exact ⟨h.1, Or.inr (Or.inl h.2)⟩
          · exact ⟨h.1, Or.inr (Or.inr h.2)⟩
        · rintro ⟨h, h' | h' | h'⟩
          · exact Or.inl ⟨h, h'.1, by rw [← h'.1]; exact h'.2⟩
          · exact Or.inr (Or.inl ⟨h, h'⟩)
          · exact Or.inr (Or.inr ⟨h, h'⟩)
  · simp only [hon, Bool.false_and, Bool.false_eq_true, if_false, List.not_mem_nil, false_or, false_and]
    constructor
    · rintro (h | h)
      · exact ⟨h.1, Or.inl h.2⟩
      · exact ⟨h.1, Or.inr h.2⟩
    · rintro ⟨h, h' | h'⟩
      · exact Or.inl ⟨h, h'⟩
      · exact Or.inr ⟨h, h'⟩

/-! ### into the mover's frame -/

theorem onBoard_abs (bl : Bool) {x : Nat} (hx : x < 64) (df dr : Int) :
    onBoard (file (absSq bl x) + df) (rank (absSq bl x) + (if bl then -dr else dr))
      = onBoard (file x + df) (rank x + dr) := by
  rw [file_absSq bl hx, rank_absSq bl hx]
  cases bl
  · rfl
  · simp only [if_true]
    rw [Bool.eq_iff_iff, onBoard_iff, onBoard_iff]
    omega

theorem sq_abs (bl : Bool) {x : Nat} (hx : x < 64) (df dr : Int)
    (hon : onBoard (file x + df) (rank x + dr) = true) :
    sq (file (absSq bl x) + df) (rank (absSq bl x) + (if bl then -dr else dr))
      = absSq bl (sq (file x + df) (rank x + dr)) := by
  rw [file_absSq bl hx, rank_absSq bl hx]
  cases bl
  · rfl
  · simp only [if_true]
    have : (7 : Int) - rank x + -dr = 7 - (rank x + dr) := by omega
    rw [this, sq_mirror hon]
    rfl

theorem pawnDir_not (bl : Bool) : pawnDir (!bl) = if bl then -1 else 1 := by cases bl <;> rfl
theorem pawnDir2_not (bl : Bool) : 2 * pawnDir (!bl) = if bl then -2 else 2 := by cases bl <;> rfl

/-- the promotion field, relative. -/
def PromoR (t : Nat) (pr : Option Kind) : Prop :=
  if t / 8 = 7 then ∃ k ∈ promoKinds, pr = some k else pr = none

theorem promoA_abs (bl : Bool) {t : Nat} (ht : t < 64) (pr : Option Kind) :
    PromoA (!bl) (absSq bl t) pr ↔ PromoR t pr := by
  unfold PromoA PromoR
  rw [rank_absSq bl ht]
  have hr := rank_bounds ht
  have e : (if bl = true then 7 - rank t else rank t) = pawnLast (!bl) ↔ t / 8 = 7 := by
    unfold pawnLast rank at *
    cases bl <;> simp <;> omega
  by_cases h : t / 8 = 7
  · rw [if_pos (e.mpr h), if_pos h]
  · rw [if_neg (fun h' => h (e.mp h')), if_neg h]

/-- pseudo-legal pawn moves on the relative board (the mover's pawns move up). -/
def PawnPseudo (B : Board) (ep : Option Nat) (f t : Nat) (pr : Option Kind) : Prop :=
  (t = f + 8 ∧ B t = none ∧ PromoR t pr) ∨
  (f / 8 = 1 ∧ t = f + 16 ∧ B (f + 8) = none ∧ B t = none ∧ pr = none) ∨
  (((t = f + 7 ∧ f % 8 ≠ 0) ∨ (t = f + 9 ∧ f % 8 ≠ 7)) ∧
    ((∃ q, B t = some q ∧ q.white = false ∧ PromoR t pr) ∨ (B t = none ∧ ep = some t ∧ pr = none)))

/-- stepping on the relative board. -/
theorem rel_step {x : Nat} (hx : x < 64) (df dr : Int) (hdf : df = -1 ∨ df = 0 ∨ df = 1)
    (hdr : dr = 1 ∨ dr = 2) :
    (onBoard (file x + df) (rank x + dr) = true ↔
      (0 ≤ file x + df ∧ file x + df < 8 ∧ x + 8 * dr.toNat < 64)) ∧
    (onBoard (file x + df) (rank x + dr) = true →
      ((sq (file x + df) (rank x + dr) : Nat) : Int) = x + 8 * dr + df) := by
  rw [onBoard_iff]
  unfold sq file rank
  rcases hdf with rfl | rfl | rfl <;> rcases hdr with rfl | rfl <;> constructor <;> omega

theorem capA_abs (p : Position) {f : Nat} (hf : f < 64) (df : Int) (hdf : df = -1 ∨ df = 1) (b : Nat)
    (pr : Option Kind) :
    CapA (abs p) (!p.black) (absSq p.black f) df b pr ↔
      ∃ t, t < 64 ∧ b = absSq p.black t ∧ (t : Int) = f + 8 + df ∧ (0 ≤ file f + df ∧ file f + df < 8) ∧
        ((∃ q, relBoard p t = some q ∧ q.white = false ∧ PromoR t pr) ∨
          (relBoard p t = none ∧ p.ep = some t ∧ pr = none)) := by
  unfold CapA
  rw [pawnDir_not, onBoard_abs p.black hf df 1]
  have hstep := rel_step hf df 1 (by rcases hdf with h | h <;> simp [h]) (Or.inl rfl)
  have key : ∀ t, t < 64 →
      ((match (abs p).board (absSq p.black t) with
        | some q => q.white ≠ (!p.black) ∧ PromoA (!p.black) (absSq p.black t) pr
        | none => (abs p).ep = some (absSq p.black t) ∧ pr = none) ↔
      ((∃ q, relBoard p t = some q ∧ q.white = false ∧ PromoR t pr) ∨
          (relBoard p t = none ∧ p.ep = some t ∧ pr = none))) := by
    intro t ht
    rw [abs_at]
    have hep : (abs p).ep = some (absSq p.black t) ↔ p.ep = some t := by
      show p.ep.map (absSq p.black) = some (absSq p.black t) ↔ _
      cases p.ep with
      | none => simp
      | some x =>
        simp only [Option.map_some, Option.some.injEq]
        exact ⟨fun h => absSq_inj _ h, fun h => by rw [h]⟩
    cases hB : relBoard p t with
    | none => simp [hep]
    | some q =>
      simp only [Option.map_some, promoA_abs p.black ht, reduceCtorEq, false_and, or_false,
        Option.some.injEq, exists_eq_left']
      have : (framePiece p.black q).white ≠ (!p.black) ↔ q.white = false := by
        obtain ⟨w, kd⟩ := q
        unfold framePiece flipPiece
        cases p.black <;> cases w <;> simp
      rw [this]
  constructor
  · rintro ⟨hon, hb, hm⟩
    have hon' := hstep.1.mp hon
    have hval := hstep.2 hon
    rw [sq_abs p.black hf df 1 hon] at hb
    have ht : sq (file f + df) (rank f + 1) < 64 := onBoard_lt hon
    refine ⟨_, ht, hb, by omega, ⟨hon'.1, hon'.2.1⟩, ?_⟩
    rw [hb] at hm
    exact (key _ ht).mp hm
  · rintro ⟨t, ht, hb, hval, hrange, hm⟩
    have hon : onBoard (file f + df) (rank f + 1) = true := by
      rw [hstep.1]; refine ⟨hrange.1, hrange.2, ?_⟩
      have : (1 : Int).toNat = 1 := rfl
      rw [this]
      unfold file at hrange
      omega
    have hval' := hstep.2 hon
    have e : sq (file f + df) (rank f + 1) = t := by omega
    refine ⟨hon, by rw [sq_abs p.black hf df 1 hon, e]; exact hb, ?_⟩
    rw [hb]
    exact (key t ht).mpr hm

theorem push_abs (bl : Bool) {x : Nat} (hx : x < 64) (n : Int) (hn : n = 1 ∨ n = 2) :
    (onBoard (file (absSq bl x)) (rank (absSq bl x) + (if bl then -n else n)) = true ↔ x + 8 * n.toNat < 64) ∧
    (x + 8 * n.toNat < 64 →
      sq (file (absSq bl x)) (rank (absSq bl x) + (if bl then -n else n)) = absSq bl (x + 8 * n.toNat)) := by
  have h1 := onBoard_abs bl hx 0 n
  have hs := rel_step hx 0 n (Or.inr (Or.inl rfl)) hn
  simp only [Int.add_zero] at h1 hs
  have fx := file_bounds x
  constructor
  · rw [h1, hs.1]
    constructor
    · exact fun h => h.2.2
    · exact fun h => ⟨fx.1, fx.2, h⟩
  · intro h
    have hon : onBoard (file x) (rank x + n) = true := hs.1.mpr ⟨fx.1, fx.2, h⟩
    have h2 := sq_abs bl hx 0 n (by simpa only [Int.add_zero] using hon)
    simp only [Int.add_zero] at h2
    rw [h2]
    congr 1
    have := hs.2 hon
    rcases hn with rfl | rfl <;> simp at this ⊢ <;> omega

theorem start_abs (bl : Bool) {x : Nat} (hx : x < 64) : rank (absSq bl x) = pawnStart (!bl) ↔ x / 8 = 1 := by
  rw [rank_absSq bl hx]
  have := rank_bounds hx
  unfold pawnStart rank at *
  cases bl <;> simp <;> omega

theorem pseudo_pawn_rel (p : Position) {f : Nat} (hf : f < 64) (hB : relBoard p f = some ⟨true, .pawn⟩)
    (b : Nat) (pr : Option Kind) :
    Move.normal (absSq p.black f) b pr ∈ pseudoFrom (abs p) (absSq p.black f) ↔
      ∃ t, t < 64 ∧ b = absSq p.black t ∧ PawnPseudo (relBoard p) p.ep f t pr := by
  have hBa : (abs p).board (absSq p.black f) = some ⟨(abs p).whiteToMove, .pawn⟩ :=
    (abs_at_us p f .pawn).mpr hB
  have ew : (abs p).whiteToMove = !p.black := rfl
  rw [mem_pseudoFrom_pawn _ _ hBa]
  simp only [ew, true_and]
  have e2 : (2 : Int) * (if p.black = true then -1 else 1) = if p.black = true then -2 else 2 := by
    cases p.black <;> rfl
  rw [capA_abs p hf (-1) (Or.inl rfl), capA_abs p hf 1 (Or.inr rfl), pawnDir_not, e2]
  obtain ⟨p1a, p1b⟩ := push_abs p.black hf 1 (Or.inl rfl)
  obtain ⟨p2a, p2b⟩ := push_abs p.black hf 2 (Or.inr rfl)
  have t1 : (1 : Int).toNat = 1 := rfl
  have t2 : (2 : Int).toNat = 2 := rfl
  rw [t1] at p1a p1b
  rw [t2] at p2a p2b
  rw [p1a, start_abs p.black hf]
  unfold PawnPseudo
  have hfile := file_bounds f
  constructor
  · rintro (⟨h8, hn1, hpush⟩ | ⟨t, ht, hb, hv, hr, hm⟩ | ⟨t, ht, hb, hv, hr, hm⟩)
    · rw [p1b (by omega), abs_at_none] at hn1
      rcases hpush with ⟨hb, hpr⟩ | ⟨hst, hn2, hb, hpr⟩
      · rw [p1b (by omega)] at hb
        refine ⟨f + 8, by omega, hb, Or.inl ⟨rfl, hn1, ?_⟩⟩
        rw [hb, promoA_abs p.black (by omega)] at hpr
        exact hpr
      · have h16 : f + 8 * 2 < 64 := by omega
        rw [p2b h16] at hb hn2
        rw [abs_at_none] at hn2
        exact ⟨f + 16, by omega, hb, Or.inr (Or.inl ⟨hst, rfl, hn1, hn2, hpr⟩)⟩
    · refine ⟨t, ht, hb, Or.inr (Or.inr ⟨Or.inl ⟨by omega, ?_⟩, hm⟩)⟩
      unfold file at hr; omega
    · refine ⟨t, ht, hb, Or.inr (Or.inr ⟨Or.inr ⟨by omega, ?_⟩, hm⟩)⟩
      unfold file at hr; omega
  · rintro ⟨t, ht, hb, (⟨rfl, hn1, hpr⟩ | ⟨hst, rfl, hn1, hn2, hpr⟩ | ⟨hgeo, hm⟩)⟩
    · left
      refine ⟨by omega, ?_, Or.inl ⟨?_, ?_⟩⟩
      · rw [p1b (by omega), abs_at_none]; exact hn1
      · rw [p1b (by omega)]; exact hb
      · rw [hb, promoA_abs p.black ht]; exact hpr
    · left
      have h16 : f + 8 * 2 < 64 := by omega
      refine ⟨by omega, ?_, Or.inr ⟨hst, ?_, ?_, hpr⟩⟩
      · rw [p1b (by omega), abs_at_none]; exact hn1
      · rw [p2b h16, abs_at_none]; exact hn2
      · rw [p2b h16]; exact hb
    · rcases hgeo with ⟨rfl, h0⟩ | ⟨rfl, h7⟩
      · right; left
        refine ⟨f + 7, ht, hb, by omega, ?_, hm⟩
        unfold file; omega
      · right; right
        refine ⟨f + 9, ht, hb, by omega, ?_, hm⟩
        unfold file; omega

end Rawr.Att
