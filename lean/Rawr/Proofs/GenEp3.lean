import Rawr.Proofs.GenPawnGen
import Rawr.Proofs.GenPawnApply
/-!
# C01, en passant: specification side, and the class lemma
-/
set_option linter.unusedSimpArgs false
namespace Rawr.Att
open Spec

theorem rank4_tbl : ∀ i : Fin 64, (0xFF000000#64 : BB).getLsbD i.val = true → i.val / 8 = 3 := by decide

/-- retro-consistency (domain E), in the mover's frame. -/
theorem epConsistent_rel {p : Position} (hV : ValidPos p = true) (hE : Spec.EpConsistent (abs p) = true)
    {e : Nat} (hep : p.ep = some e) :
    relBoard p (e + 8) = none ∧
      attackedBy (prePush (relBoard p) e) false (lsb (p.p5 &&& p.c0)) = false := by
  obtain ⟨e64, e5, hBe, hBP, _, _⟩ := ep_facts hV hep
  have F := kingFacts hV
  have hepa : (abs p).ep = some (absSq p.black e) := by
    show p.ep.map (absSq p.black) = _; rw [hep]; rfl
  have ew : (abs p).whiteToMove = !p.black := rfl
  have fe := file_bounds e
  -- the two squares
  have horig : sq (file (absSq p.black e)) (if (!p.black) = true then 6 else 1) = absSq p.black (e + 8) := by
    have hon : onBoard (file e) (if (!p.black) = true then 6 else 1) = true := by
      rw [onBoard_iff]; cases p.black <;> simp <;> omega
    apply eq_of_file_rank
    · rw [file_absSq _ e64, file_sq hon, file_absSq _ (by omega)]; unfold file; omega
    · rw [file_absSq _ e64, rank_sq hon, rank_absSq _ (by omega)]
      unfold rank; cases p.black <;> simp <;> omega
  have hpush : sq (file (absSq p.black e)) (if (!p.black) = true then 4 else 3) = absSq p.black (e - 8) := by
    have hon : onBoard (file e) (if (!p.black) = true then 4 else 3) = true := by
      rw [onBoard_iff]; cases p.black <;> simp <;> omega
    apply eq_of_file_rank
    · rw [file_absSq _ e64, file_sq hon, file_absSq _ (by omega)]; unfold file; omega
    · rw [file_absSq _ e64, rank_sq hon, rank_absSq _ (by omega)]
      unfold rank; cases p.black <;> simp <;> omega
  unfold Spec.EpConsistent at hE
  rw [hepa] at hE
  dsimp only at hE
  rw [ew, horig, hpush, Bool.and_eq_true, Bool.not_eq_true'] at hE
  obtain ⟨h1, h2⟩ := hE
  have hBn : relBoard p (e + 8) = none := (abs_at_none p (e + 8)).mp ((isNone_iff _).mp h1)
  refine ⟨hBn, ?_⟩
  have hboard : setSq (setSq (abs p).board (absSq p.black (e - 8)) none) (absSq p.black (e + 8))
      (some ⟨!(!p.black), .pawn⟩) = frameB p.black (prePush (relBoard p) e) := by
    unfold prePush
    rw [frameB_setSq, frameB_setSq, ← absBoard_eq_frame, Option.map_some, framePiece_them, not_not_b]
    rfl
  rw [hboard] at h2
  have hk : ∀ s, s < 64 → (prePush (relBoard p) e s = some ⟨true, .king⟩ ↔ s = lsb (p.p5 &&& p.c0)) := by
    unfold prePush
    apply king_unique_setSq (king_unique_setSq (relKing_unique hV) _ (by simp)) _ (by simp)
    · intro h; rw [h, F.rel] at hBP; cases hBP
    · intro h; rw [h, F.rel] at hBn; cases hBn
  rw [inCheck_framed p.black _ F.k64 hk] at h2
  exact h2

/-- the board after the en-passant capture is `epBoard`, and the rules' check test is the attack test. -/
theorem ep_legal_iff {p : Position} (hV : ValidPos p = true) {e : Nat} (hep : p.ep = some e) {F : Nat}
    {cap : Int × Int} (hgeo : CapGeo cap F e) (hF : relBoard p F = some ⟨true, .pawn⟩) :
    Move.normal (absSq p.black F) (absSq p.black e) none ∈ Spec.legalMoves (abs p) ↔
      attackedBy (epBoard (relBoard p) F e) false (lsb (p.p5 &&& p.c0)) = false := by
  have C := epCtx_of hV hep hgeo hF
  have G := C.coords
  have KF := kingFacts hV
  have hpseudo : Move.normal (absSq p.black F) (absSq p.black e) none ∈
      pseudoFrom (abs p) (absSq p.black F) := by
    rw [pseudo_pawn_rel p G.F64 hF]
    refine ⟨e, C.e64, rfl, Or.inr (Or.inr ⟨?_, Or.inr ⟨C.Be, hep, rfl⟩⟩)⟩
    rcases hgeo with ⟨_, h1, h2⟩ | ⟨_, h1, h2⟩
    · right; exact ⟨h1.symm, by omega⟩
    · left; exact ⟨h1.symm, by omega⟩
  have hfile : (file F != file e && (relBoard p e).isNone) = true := by
    rw [C.Be]
    have := G.fe
    have := G.cap1
    simp only [Option.isNone_none, Bool.and_true, bne_iff_ne, ne_eq]
    omega
  have hsq : sq (file e) (rank F) = e - 8 := by
    have h1 := G.re
    have h2 := G.r5
    have h3 := C.e64
    unfold sq file rank at *
    omega
  have hboard : afterPawn (relBoard p) F e none = epBoard (relBoard p) F e := by
    unfold afterPawn epBoard
    rw [if_pos hfile, hsq]
    rfl
  have hk : ∀ s, s < 64 → (epBoard (relBoard p) F e s = some ⟨true, .king⟩ ↔ s = lsb (p.p5 &&& p.c0)) := by
    unfold epBoard
    apply king_unique_setSq (king_unique_setSq (king_unique_setSq (relKing_unique hV) _ (by simp)) _ (by simp))
      _ (by simp)
    · intro h; have := C.BF; rw [h, KF.rel] at this; cases this
    · intro h; have := C.BP; rw [h, KF.rel] at this; cases this
    · intro h; have := C.Be; rw [h, KF.rel] at this; cases this
  rw [mem_legal_normal, apply_pawn_board p G.F64 C.e64 hF, hboard]
  have ew : (abs p).whiteToMove = !p.black := rfl
  rw [ew, inCheck_framed p.black _ KF.k64 hk]
  exact ⟨fun h => h.2, fun h => ⟨⟨absSq_lt G.F64, hpseudo⟩, h⟩⟩

/-- **en passant, class lemma**: a generated pawn move onto the en-passant square is a legal en-passant
capture of the rules, and conversely. -/
theorem gen_ep_iff {p : Position} (hV : ValidPos p = true) (hE : Spec.EpConsistent (abs p) = true)
    {e : Nat} (hep : p.ep = some e) (f pr : Nat) :
    gm 0 f e pr ∈ moveGenerator p ↔
      (pr = 6 ∧ relBoard p f = some ⟨true, .pawn⟩ ∧
        Move.normal (absSq p.black f) (absSq p.black e) none ∈ Spec.legalMoves (abs p)) := by
  have hC := valid_consistent hV
  obtain ⟨e64, e5, hBe, hBP, hc0e, _⟩ := ep_facts hV hep
  obtain ⟨hBn, hEb⟩ := epConsistent_rel hV hE hep
  have hocc : p.occ.getLsbD e = false := by
    have := occRep_rel hC e e64; rw [hBe] at this; exact this
  have hc1e : p.c1.getLsbD e = false := by
    unfold Position.occ at hocc
    rw [BitVec.getLsbD_or, hc0e, Bool.false_or] at hocc; exact hocc
  rw [mem_gen_pawn, epCondNE_iff hV hep hBn hEb, epCondNW_iff hV hep hBn hEb]
  constructor
  · rintro (⟨h1, h2, _⟩ | ⟨h1, _, _⟩ | ⟨h1, _, _⟩ | ⟨h1, _, _⟩ | ⟨_, hpr, h⟩)
    · -- a single push onto `e` would start from the enemy pawn's square
      exfalso
      rw [mem_toList] at h1
      unfold pushSet at h1
      simp only [BitVec.getLsbD_and, Bool.and_eq_true] at h1
      obtain ⟨_, hn⟩ := (north_iff _ e64).mp h1.2.1.1
      simp only [BitVec.getLsbD_and, Bool.and_eq_true] at hn
      have hown : relBoard p (e - 8) = some ⟨true, .pawn⟩ :=
        (own_pawn_iff hC (by omega)).mp (by rw [BitVec.getLsbD_and, hn.1.1, hn.1.2]; rfl)
      rw [hBP] at hown; cases hown
    · exfalso
      rw [mem_toList] at h1
      unfold dblSet at h1
      simp only [BitVec.getLsbD_and, Bool.and_eq_true] at h1
      have := rank4_tbl ⟨e, e64⟩ h1.2.1.2
      simp only at this; omega
    · exfalso
      rw [mem_toList] at h1
      unfold capNESet at h1
      simp only [BitVec.getLsbD_and, Bool.and_eq_true] at h1
      rw [hc1e] at h1; exact absurd h1.2.1.2 (by decide)
    · exfalso
      rw [mem_toList] at h1
      unfold capNWSet at h1
      simp only [BitVec.getLsbD_and, Bool.and_eq_true] at h1
      rw [hc1e] at h1; exact absurd h1.2.1.2 (by decide)
    · rcases h with ⟨rfl, h9, hf, hBF, hL⟩ | ⟨rfl, hf, hBF, hL⟩
      · exact ⟨hpr, hBF, (ep_legal_iff hV hep (Or.inl ⟨rfl, by omega, hf⟩) hBF).mpr hL⟩
      · exact ⟨hpr, hBF, (ep_legal_iff hV hep (Or.inr ⟨rfl, by omega, hf⟩) hBF).mpr hL⟩
  · rintro ⟨hpr, hBF, hleg⟩
    right; right; right; right
    refine ⟨hep, hpr, ?_⟩
    have f64 : f < 64 := by
      apply Classical.byContradiction
      intro h
      rw [relBoard_ge p f (by omega)] at hBF; cases hBF
    -- the geometry of the capture, from pseudo-legality
    have hps := ((mem_legal_normal _ _ _ _).mp hleg).1.2
    rw [pseudo_pawn_rel p f64 hBF] at hps
    obtain ⟨t, t64, hte, hpp⟩ := hps
    have : t = e := (absSq_inj _ hte).symm
    subst this
    rcases hpp with ⟨h1, _, _⟩ | ⟨h1, h2, _⟩ | ⟨hg, _⟩
    · exfalso
      have : f = t - 8 := by omega
      rw [this, hBP] at hBF; cases hBF
    · omega
    · rcases hg with ⟨h1, h2⟩ | ⟨h1, h2⟩
      · right
        have hfe : f = t - 7 := by omega
        have hgeo : CapGeo dNW f t := Or.inr ⟨rfl, by omega, by omega⟩
        subst hfe
        exact ⟨rfl, by omega, hBF, (ep_legal_iff hV hep hgeo hBF).mp hleg⟩
      · left
        have hfe : f = t - 9 := by omega
        have hgeo : CapGeo dNE f t := Or.inl ⟨rfl, by omega, by omega⟩
        subst hfe
        exact ⟨rfl, by omega, by omega, hBF, (ep_legal_iff hV hep hgeo hBF).mp hleg⟩

end Rawr.Att
