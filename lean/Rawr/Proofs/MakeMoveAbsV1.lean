import Rawr.Spec.Chess
/-! C02 (4), specification level: what membership in `Spec.legalMoves` says about a non-castling move
(`NormalLegal`), and counting lemmas for `squares.filter`. No engine model involved. -/
namespace Rawr.SV
open Rawr.Spec

/-! ### coordinates -/

theorem sq_coords {f r : Int} (h : onBoard f r = true) :
    file (sq f r) = f ∧ rank (sq f r) = r ∧ sq f r < 64 := by
  simp only [onBoard, Bool.and_eq_true, decide_eq_true_eq] at h
  obtain ⟨⟨⟨h1, h2⟩, h3⟩, h4⟩ := h
  simp only [file, rank, sq]
  omega

theorem file_rank_bounds (s : Nat) (h : s < 64) : 0 ≤ file s ∧ file s < 8 ∧ 0 ≤ rank s ∧ rank s < 8 := by
  simp only [file, rank]
  omega

theorem sq_file_rank (s : Nat) : sq (file s) (rank s) = s := by
  simp only [file, rank, sq]
  omega

/-- two squares with the same coordinates are equal. -/
theorem eq_of_coords {s t : Nat} (hf : file s = file t) (hr : rank s = rank t) : s = t := by
  simp only [file, rank] at hf hr
  omega

/-! ### exactly one element of `squares` satisfies a predicate -/

theorem filter_range_len_zero (P : Nat → Bool) (n : Nat) :
    ((List.range n).filter P).length = 0 ↔ ∀ j, j < n → P j = false := by
  rw [List.length_eq_zero_iff, List.filter_eq_nil_iff]
  constructor
  · intro h j hj
    have := h j (List.mem_range.mpr hj)
    simpa using this
  · intro h j hj
    rw [h j (List.mem_range.mp hj)]
    simp

theorem filter_range_len_one (P : Nat → Bool) (n : Nat) :
    ((List.range n).filter P).length = 1 ↔ ∃ k, k < n ∧ P k = true ∧ ∀ j, j < n → P j = true → j = k := by
  induction n with
  | zero =>
    constructor
    · intro h; simp at h
    · rintro ⟨k, hk, _⟩; omega
  | succ n ih =>
    rw [List.range_succ, List.filter_append, List.length_append]
    cases hn : P n
    · simp only [List.filter_cons, hn, Bool.false_eq_true, if_false, List.filter_nil, List.length_nil, Nat.add_zero]
      rw [ih]
      constructor
      · rintro ⟨k, hk, hpk, hu⟩
        refine ⟨k, by omega, hpk, ?_⟩
        intro j hj hpj
        by_cases hjn : j = n
        · subst hjn; rw [hn] at hpj; cases hpj
        · exact hu j (by omega) hpj
      · rintro ⟨k, hk, hpk, hu⟩
        have : k ≠ n := by intro e; subst e; rw [hn] at hpk; cases hpk
        exact ⟨k, by omega, hpk, fun j hj hpj => hu j (by omega) hpj⟩
    · simp only [List.filter_cons, hn, if_true, List.filter_nil, List.length_cons, List.length_nil]
      constructor
      · intro h
        have h0 : ((List.range n).filter P).length = 0 := by omega
        rw [filter_range_len_zero] at h0
        refine ⟨n, by omega, hn, ?_⟩
        intro j hj hpj
        by_cases hjn : j = n
        · exact hjn
        · rw [h0 j (by omega)] at hpj; cases hpj
      · rintro ⟨k, hk, hpk, hu⟩
        have hkn : k = n := (hu n (by omega) hn).symm
        subst hkn
        have h0 : ((List.range k).filter P).length = 0 := by
          rw [filter_range_len_zero]
          intro j hj
          cases hpj : P j
          · rfl
          · have := hu j (by omega) hpj
            omega
        omega

theorem length_one_mem {l : List Nat} {x : Nat} (h1 : l.length = 1) (hx : x ∈ l) : l = [x] := by
  cases l with
  | nil => cases hx
  | cons a t =>
    cases t with
    | nil => simp at hx; rw [hx]
    | cons _ _ => simp at h1

/-! ### kings -/

/-- square `k` is the only square holding the king of colour `c`. -/
def UniqueKing (B : Board) (c : Bool) (k : Nat) : Prop :=
  k < 64 ∧ B k = some ⟨c, .king⟩ ∧ ∀ j, j < 64 → B j = some ⟨c, .king⟩ → j = k

theorem countKing_eq (B : Board) (c : Bool) :
    countPieces B (fun pc => pc == ⟨c, .king⟩) = (kingSquares B c).length := by
  unfold countPieces kingSquares
  congr 1
  apply List.filter_congr
  intro s _
  cases B s <;> simp

theorem kingSquares_len_one (B : Board) (c : Bool) :
    (kingSquares B c).length = 1 ↔ ∃ k, UniqueKing B c k := by
  unfold kingSquares squares
  rw [filter_range_len_one]
  constructor
  · rintro ⟨k, hk, hp, hu⟩
    exact ⟨k, hk, by simpa using hp, fun j hj hpj => hu j hj (by simpa using hpj)⟩
  · rintro ⟨k, hk, hp, hu⟩
    exact ⟨k, hk, by simpa using hp, fun j hj hpj => hu j hj (by simpa using hpj)⟩

theorem kingSquares_of_unique {B : Board} {c : Bool} {k : Nat} (h : UniqueKing B c k) : kingSquares B c = [k] := by
  apply length_one_mem ((kingSquares_len_one B c).mpr ⟨k, h⟩)
  unfold kingSquares squares
  rw [List.mem_filter, List.mem_range]
  exact ⟨h.1, by simpa using h.2.1⟩

theorem unique_of_kingSquares {B : Board} {c : Bool} {k : Nat} (h : kingSquares B c = [k]) : UniqueKing B c k := by
  have h1 : (kingSquares B c).length = 1 := by rw [h]; rfl
  obtain ⟨k', hk'⟩ := (kingSquares_len_one B c).mp h1
  have := kingSquares_of_unique hk'
  rw [h] at this
  cases this
  exact hk'

/-- the unique-king property only depends on where the kings of that colour are. -/
theorem uniqueKing_congr {B B' : Board} {c : Bool} {k : Nat} (h : UniqueKing B c k)
    (hsame : ∀ j, j < 64 → (B' j = some ⟨c, .king⟩ ↔ B j = some ⟨c, .king⟩)) : UniqueKing B' c k :=
  ⟨h.1, (hsame k h.1).mpr h.2.1, fun j hj hb => h.2.2 j hj ((hsame j hj).mp hb)⟩

/-! ### `Spec.apply`, unfolded -/

/-- what remains of one castling right after a non-castling move (the local `lostBy` of `Spec.apply`). -/
def lostCore (r : Option Nat) (mover : Bool) (hr : Int) (src dst : Nat) (kingMoved : Bool) : Option Nat :=
  match r with
  | none => none
  | some f => if ((mover && kingMoved) || src == sq f hr || dst == sq f hr) = true then none else some f

theorem apply_normal {a : APos} {s t : Nat} {promo : Option Kind} {pc : Piece} (h : a.board s = some pc) :
    apply a (.normal s t promo) =
      { board := setSq (if (pc.kind == .pawn && file s != file t && !(a.board t).isSome) = true
            then setSq (setSq a.board s none) (sq (file t) (rank s)) none else setSq a.board s none) t
            (some (match promo with | some k => ⟨pc.white, k⟩ | none => pc)),
        whiteToMove := !a.whiteToMove,
        wK := lostCore a.wK (true == a.whiteToMove) (homeRank true) s t (pc.kind == .king),
        wQ := lostCore a.wQ (true == a.whiteToMove) (homeRank true) s t (pc.kind == .king),
        bK := lostCore a.bK (false == a.whiteToMove) (homeRank false) s t (pc.kind == .king),
        bQ := lostCore a.bQ (false == a.whiteToMove) (homeRank false) s t (pc.kind == .king),
        ep := if (pc.kind == .pawn && (rank t - rank s).natAbs == 2) = true
          then some (sq (file s) ((rank s + rank t) / 2)) else none,
        half := if (pc.kind == .pawn || (a.board t).isSome ||
          (pc.kind == .pawn && file s != file t && !(a.board t).isSome)) = true then 0 else a.half + 1,
        full := if a.whiteToMove = true then a.full else a.full + 1 } := by
  simp only [apply, h]
  rfl

theorem apply_castle {a : APos} {ks : Bool} {rf k : Nat} {l : List Nat}
    (hr : right a a.whiteToMove ks = some rf) (hk : kingSquares a.board a.whiteToMove = k :: l) :
    apply a (.castle ks) =
      { board := setSq (setSq (setSq (setSq a.board k none) (sq rf (homeRank a.whiteToMove)) none)
            (sq (if ks = true then 6 else 2) (homeRank a.whiteToMove)) (some ⟨a.whiteToMove, .king⟩))
            (sq (if ks = true then 5 else 3) (homeRank a.whiteToMove)) (some ⟨a.whiteToMove, .rook⟩),
        whiteToMove := !a.whiteToMove,
        wK := if a.whiteToMove = true then none else a.wK, wQ := if a.whiteToMove = true then none else a.wQ,
        bK := if a.whiteToMove = true then a.bK else none, bQ := if a.whiteToMove = true then a.bQ else none,
        ep := none, half := a.half + 1,
        full := if a.whiteToMove = true then a.full else a.full + 1 } := by
  simp only [apply, hr, hk]

end Rawr.SV
