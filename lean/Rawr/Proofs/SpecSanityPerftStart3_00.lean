import Rawr.Proofs.SpecSanityPerftDefs
/-! perft of the start position, depth 3, slice 00: the subtree of first move `.normal 1 16 none` (kernel-evaluated). -/
namespace Rawr.SpecS
open Rawr.Spec

theorem start3_00 : leaves (apply stdStart (.normal 1 16 none)) 2 = 400 := by decide +kernel

end Rawr.SpecS
