import Rawr.Proofs.SpecSanityPerftDefs
/-! perft of the start position, depth 3, slice 18: the subtree of first move `.normal 15 23 none` (kernel-evaluated). -/
namespace Rawr.SpecS
open Rawr.Spec

theorem start3_18 : leaves (apply stdStart (.normal 15 23 none)) 2 = 380 := by decide +kernel

end Rawr.SpecS
