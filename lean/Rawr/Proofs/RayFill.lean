import Rawr.Proofs.BBSet
/-!
# The eight unrolled 7-step fills of rays.rs are coordinate walks

Generic in the direction: a step function that distributes over unions and maps the single square `s`
to the single square one `(df, dr)` step away (or to nothing at the board edge) yields, after the
seven unrolled fill steps of `rayFill`, exactly `Spec.walk df dr s blockers`.
-/
namespace Rawr
open Spec

/-- `k + 1` fill steps from the set `b` (`rayFill` is `fill 6` from a single square). -/
def fill (step : BB → BB) (bl : BB) : Nat → BB → BB
  | 0, b => step b
  | k + 1, b => fill step bl k b ||| step (fill step bl k b &&& ~~~bl)

theorem rayFill_eq_fill (step : BB → BB) (s : Nat) (bl : BB) :
    rayFill step s bl = fill step bl 6 (bit s) := rfl

theorem or_or_self_right (a b : BB) : a ||| b ||| b = a ||| b := by
  rw [BitVec.or_assoc, BitVec.or_self]

theorem fill_zero {step : BB → BB} (h : Linear step) (bl : BB) (k : Nat) :
    fill step bl k 0#64 = 0#64 := by
  induction k with
  | zero => exact h.1
  | succ k ih => simp only [fill, ih, BitVec.zero_and, h.1, BitVec.or_zero]

/-- the first step is contained in every later stage. -/
theorem fill_absorb {step : BB → BB} (bl : BB) (k : Nat) (c : BB) :
    fill step bl k c ||| step c = fill step bl k c := by
  induction k with
  | zero => exact BitVec.or_self
  | succ k ih =>
    simp only [fill]
    rw [BitVec.or_assoc, BitVec.or_comm (step _) (step c), ← BitVec.or_assoc, ih]

/-- peeling the fill from the near end. -/
theorem fill_succ_front {step : BB → BB} (h : Linear step) (bl : BB) (k : Nat) (b : BB) :
    fill step bl (k + 1) b = step b ||| fill step bl k (step b &&& ~~~bl) := by
  induction k with
  | zero => rfl
  | succ k ih =>
    have e : fill step bl (k + 1 + 1) b
        = fill step bl (k + 1) b ||| step (fill step bl (k + 1) b &&& ~~~bl) := rfl
    rw [e, ih]
    have e2 : fill step bl (k + 1) (step b &&& ~~~bl)
        = fill step bl k (step b &&& ~~~bl)
          ||| step (fill step bl k (step b &&& ~~~bl) &&& ~~~bl) := rfl
    rw [e2, BitVec.and_or_distrib_right, h.2]
    have ha := fill_absorb (step := step) bl k (step b &&& ~~~bl)
    generalize step (fill step bl k (step b &&& ~~~bl) &&& ~~~bl) = Y
    generalize fill step bl k (step b &&& ~~~bl) = X at ha ⊢
    generalize step (step b &&& ~~~bl) = Z at ha ⊢
    -- `X` absorbs `Z`
    rw [BitVec.or_assoc, ← BitVec.or_assoc X, ha]

/-- the single square one step from `s`, or nothing at the edge. -/
def stepBB (df dr : Int) (s : Nat) : BB :=
  if onBoard (file s + df) (rank s + dr) then bit (sq (file s + df) (rank s + dr)) else 0#64

theorem file_sq {f r : Int} (h : onBoard f r = true) : file (sq f r) = f := by
  simp only [onBoard, Bool.and_eq_true, decide_eq_true_eq] at h
  unfold file sq; omega

theorem rank_sq {f r : Int} (h : onBoard f r = true) : rank (sq f r) = r := by
  simp only [onBoard, Bool.and_eq_true, decide_eq_true_eq] at h
  unfold rank sq; omega

theorem onBoard_lt {f r : Int} (h : onBoard f r = true) : sq f r < 64 := by
  simp only [onBoard, Bool.and_eq_true, decide_eq_true_eq] at h
  unfold sq; omega

theorem bit_and_not (t : Nat) (bl : BB) :
    bit t &&& ~~~bl = if bl.getLsbD t then 0#64 else bit t := by
  apply BitVec.eq_of_getLsbD_eq
  intro i hi
  rw [BitVec.getLsbD_and, BitVec.getLsbD_not, getLsbD_bit]
  by_cases hb : bl.getLsbD t = true
  · simp only [hb, if_true]
    by_cases h : i = t
    · subst h; simp [hb]
    · simp [h]
  · simp only [hb, if_false, Bool.false_eq_true]
    rw [getLsbD_bit]
    by_cases h : i = t
    · subst h
      have hb' : bl.getLsbD i = false := by simpa using hb
      rw [hb']; simp [hi]
    · simp [h]

/-- Generic direction: the fill is the coordinate walk. -/
theorem fill_eq_walk {step : BB → BB} {df dr : Int} (hlin : Linear step)
    (hstep : ∀ s, s < 64 → step (bit s) = stepBB df dr s) (bl : BB) :
    ∀ (k s : Nat), s < 64 →
      fill step bl k (bit s) = setBB (walkFrom df dr bl.getLsbD (k + 1) (file s) (rank s)) := by
  intro k
  induction k with
  | zero =>
    intro s hs
    simp only [fill, hstep s hs, stepBB, walkFrom]
    split
    · split <;> simp [setBB_cons, setBB_nil]
    · rfl
  | succ k ih =>
    intro s hs
    rw [fill_succ_front hlin, hstep s hs, walkFrom]
    dsimp only
    unfold stepBB
    by_cases hb : onBoard (file s + df) (rank s + dr) = true
    · simp only [hb, if_true]
      rw [bit_and_not]
      by_cases hbl : bl.getLsbD (sq (file s + df) (rank s + dr)) = true
      · simp only [hbl, if_true, fill_zero hlin, setBB_cons, setBB_nil]
      · simp only [hbl, if_false, Bool.false_eq_true, setBB_cons]
        rw [ih _ (onBoard_lt hb), file_sq hb, rank_sq hb]
    · simp only [hb, if_false, Bool.false_eq_true, fill_zero hlin, setBB_nil, BitVec.zero_and,
        BitVec.or_zero]

/-- `rays::ray_*` over any step function with the two properties. -/
theorem rayFill_eq_walk {step : BB → BB} {df dr : Int} (hlin : Linear step)
    (hstep : ∀ s, s < 64 → step (bit s) = stepBB df dr s) (s : Nat) (hs : s < 64) (bl : BB) :
    rayFill step s bl = setBB (walk df dr s bl.getLsbD) := by
  rw [rayFill_eq_fill]
  exact fill_eq_walk hlin hstep bl 6 s hs

/-! ### the eight step functions on single squares (64-row tables) -/

theorem north_bit : ∀ s : Fin 64, north (bit s) = stepBB 0 1 s := by decide +kernel
theorem south_bit : ∀ s : Fin 64, south (bit s) = stepBB 0 (-1) s := by decide +kernel
theorem east_bit : ∀ s : Fin 64, east (bit s) = stepBB 1 0 s := by decide +kernel
theorem west_bit : ∀ s : Fin 64, west (bit s) = stepBB (-1) 0 s := by decide +kernel
theorem northEast_bit : ∀ s : Fin 64, northEast (bit s) = stepBB 1 1 s := by decide +kernel
theorem northWest_bit : ∀ s : Fin 64, northWest (bit s) = stepBB (-1) 1 s := by decide +kernel
theorem southEast_bit : ∀ s : Fin 64, southEast (bit s) = stepBB 1 (-1) s := by decide +kernel
theorem southWest_bit : ∀ s : Fin 64, southWest (bit s) = stepBB (-1) (-1) s := by decide +kernel

/-! ### the eight fills -/

theorem rayN_eq_walk (s : Nat) (hs : s < 64) (bl : BB) :
    rayN s bl = setBB (walk 0 1 s bl.getLsbD) :=
  rayFill_eq_walk linear_north (fun s h => north_bit ⟨s, h⟩) s hs bl
theorem rayS_eq_walk (s : Nat) (hs : s < 64) (bl : BB) :
    rayS s bl = setBB (walk 0 (-1) s bl.getLsbD) :=
  rayFill_eq_walk linear_south (fun s h => south_bit ⟨s, h⟩) s hs bl
theorem rayE_eq_walk (s : Nat) (hs : s < 64) (bl : BB) :
    rayE s bl = setBB (walk 1 0 s bl.getLsbD) :=
  rayFill_eq_walk linear_east (fun s h => east_bit ⟨s, h⟩) s hs bl
theorem rayW_eq_walk (s : Nat) (hs : s < 64) (bl : BB) :
    rayW s bl = setBB (walk (-1) 0 s bl.getLsbD) :=
  rayFill_eq_walk linear_west (fun s h => west_bit ⟨s, h⟩) s hs bl
theorem rayNE_eq_walk (s : Nat) (hs : s < 64) (bl : BB) :
    rayNE s bl = setBB (walk 1 1 s bl.getLsbD) :=
  rayFill_eq_walk linear_northEast (fun s h => northEast_bit ⟨s, h⟩) s hs bl
theorem rayNW_eq_walk (s : Nat) (hs : s < 64) (bl : BB) :
    rayNW s bl = setBB (walk (-1) 1 s bl.getLsbD) :=
  rayFill_eq_walk linear_northWest (fun s h => northWest_bit ⟨s, h⟩) s hs bl
theorem raySE_eq_walk (s : Nat) (hs : s < 64) (bl : BB) :
    raySE s bl = setBB (walk 1 (-1) s bl.getLsbD) :=
  rayFill_eq_walk linear_southEast (fun s h => southEast_bit ⟨s, h⟩) s hs bl
theorem raySW_eq_walk (s : Nat) (hs : s < 64) (bl : BB) :
    raySW s bl = setBB (walk (-1) (-1) s bl.getLsbD) :=
  rayFill_eq_walk linear_southWest (fun s h => southWest_bit ⟨s, h⟩) s hs bl

end Rawr
