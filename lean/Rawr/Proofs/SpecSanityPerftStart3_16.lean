import Rawr.Proofs.SpecSanityPerftDefs
/-! perft of the start position, depth 3, slice 16: the subtree of first move `.normal 14 22 none` (kernel-evaluated). -/
namespace Rawr.SpecS
open Rawr.Spec

theorem start3_16 : leaves (apply stdStart (.normal 14 22 none)) 2 = 420 := by decide +kernel

end Rawr.SpecS
