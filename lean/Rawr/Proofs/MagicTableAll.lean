import Rawr.Proofs.MagicTable_00
import Rawr.Proofs.MagicTable_01
import Rawr.Proofs.MagicTable_02
import Rawr.Proofs.MagicTable_03
import Rawr.Proofs.MagicTable_04
import Rawr.Proofs.MagicTable_05
import Rawr.Proofs.MagicTable_06
import Rawr.Proofs.MagicTable_07
import Rawr.Proofs.MagicTable_08
import Rawr.Proofs.MagicTable_09
import Rawr.Proofs.MagicTable_10
import Rawr.Proofs.MagicTable_11
import Rawr.Proofs.MagicTable_12
import Rawr.Proofs.MagicTable_13
import Rawr.Proofs.MagicTable_14
import Rawr.Proofs.MagicTable_15
/-! C10 table check: all 128 (piece, square) obligations, 107 648 rows. -/
namespace Rawr
theorem checkB_all : ∀ sq : Nat, sq < 64 → checkB sq = true
  | 0, _ => MagicTable.bishop_0
  | 1, _ => MagicTable.bishop_1
  | 2, _ => MagicTable.bishop_2
  | 3, _ => MagicTable.bishop_3
  | 4, _ => MagicTable.bishop_4
  | 5, _ => MagicTable.bishop_5
  | 6, _ => MagicTable.bishop_6
  | 7, _ => MagicTable.bishop_7
  | 8, _ => MagicTable.bishop_8
  | 9, _ => MagicTable.bishop_9
  | 10, _ => MagicTable.bishop_10
  | 11, _ => MagicTable.bishop_11
  | 12, _ => MagicTable.bishop_12
  | 13, _ => MagicTable.bishop_13
  | 14, _ => MagicTable.bishop_14
  | 15, _ => MagicTable.bishop_15
  | 16, _ => MagicTable.bishop_16
  | 17, _ => MagicTable.bishop_17
  | 18, _ => MagicTable.bishop_18
  | 19, _ => MagicTable.bishop_19
  | 20, _ => MagicTable.bishop_20
  | 21, _ => MagicTable.bishop_21
  | 22, _ => MagicTable.bishop_22
  | 23, _ => MagicTable.bishop_23
  | 24, _ => MagicTable.bishop_24
  | 25, _ => MagicTable.bishop_25
  | 26, _ => MagicTable.bishop_26
  | 27, _ => MagicTable.bishop_27
  | 28, _ => MagicTable.bishop_28
  | 29, _ => MagicTable.bishop_29
  | 30, _ => MagicTable.bishop_30
  | 31, _ => MagicTable.bishop_31
  | 32, _ => MagicTable.bishop_32
  | 33, _ => MagicTable.bishop_33
  | 34, _ => MagicTable.bishop_34
  | 35, _ => MagicTable.bishop_35
  | 36, _ => MagicTable.bishop_36
  | 37, _ => MagicTable.bishop_37
  | 38, _ => MagicTable.bishop_38
  | 39, _ => MagicTable.bishop_39
  | 40, _ => MagicTable.bishop_40
  | 41, _ => MagicTable.bishop_41
  | 42, _ => MagicTable.bishop_42
  | 43, _ => MagicTable.bishop_43
  | 44, _ => MagicTable.bishop_44
  | 45, _ => MagicTable.bishop_45
  | 46, _ => MagicTable.bishop_46
  | 47, _ => MagicTable.bishop_47
  | 48, _ => MagicTable.bishop_48
  | 49, _ => MagicTable.bishop_49
  | 50, _ => MagicTable.bishop_50
  | 51, _ => MagicTable.bishop_51
  | 52, _ => MagicTable.bishop_52
  | 53, _ => MagicTable.bishop_53
  | 54, _ => MagicTable.bishop_54
  | 55, _ => MagicTable.bishop_55
  | 56, _ => MagicTable.bishop_56
  | 57, _ => MagicTable.bishop_57
  | 58, _ => MagicTable.bishop_58
  | 59, _ => MagicTable.bishop_59
  | 60, _ => MagicTable.bishop_60
  | 61, _ => MagicTable.bishop_61
  | 62, _ => MagicTable.bishop_62
  | 63, _ => MagicTable.bishop_63
  | n + 64, h => absurd h (by omega)
theorem checkR_all : ∀ sq : Nat, sq < 64 → checkR sq = true
  | 0, _ => MagicTable.rook_0
  | 1, _ => MagicTable.rook_1
  | 2, _ => MagicTable.rook_2
  | 3, _ => MagicTable.rook_3
  | 4, _ => MagicTable.rook_4
  | 5, _ => MagicTable.rook_5
  | 6, _ => MagicTable.rook_6
  | 7, _ => MagicTable.rook_7
  | 8, _ => MagicTable.rook_8
  | 9, _ => MagicTable.rook_9
  | 10, _ => MagicTable.rook_10
  | 11, _ => MagicTable.rook_11
  | 12, _ => MagicTable.rook_12
  | 13, _ => MagicTable.rook_13
  | 14, _ => MagicTable.rook_14
  | 15, _ => MagicTable.rook_15
  | 16, _ => MagicTable.rook_16
  | 17, _ => MagicTable.rook_17
  | 18, _ => MagicTable.rook_18
  | 19, _ => MagicTable.rook_19
  | 20, _ => MagicTable.rook_20
  | 21, _ => MagicTable.rook_21
  | 22, _ => MagicTable.rook_22
  | 23, _ => MagicTable.rook_23
  | 24, _ => MagicTable.rook_24
  | 25, _ => MagicTable.rook_25
  | 26, _ => MagicTable.rook_26
  | 27, _ => MagicTable.rook_27
  | 28, _ => MagicTable.rook_28
  | 29, _ => MagicTable.rook_29
  | 30, _ => MagicTable.rook_30
  | 31, _ => MagicTable.rook_31
  | 32, _ => MagicTable.rook_32
  | 33, _ => MagicTable.rook_33
  | 34, _ => MagicTable.rook_34
  | 35, _ => MagicTable.rook_35
  | 36, _ => MagicTable.rook_36
  | 37, _ => MagicTable.rook_37
  | 38, _ => MagicTable.rook_38
  | 39, _ => MagicTable.rook_39
  | 40, _ => MagicTable.rook_40
  | 41, _ => MagicTable.rook_41
  | 42, _ => MagicTable.rook_42
  | 43, _ => MagicTable.rook_43
  | 44, _ => MagicTable.rook_44
  | 45, _ => MagicTable.rook_45
  | 46, _ => MagicTable.rook_46
  | 47, _ => MagicTable.rook_47
  | 48, _ => MagicTable.rook_48
  | 49, _ => MagicTable.rook_49
  | 50, _ => MagicTable.rook_50
  | 51, _ => MagicTable.rook_51
  | 52, _ => MagicTable.rook_52
  | 53, _ => MagicTable.rook_53
  | 54, _ => MagicTable.rook_54
  | 55, _ => MagicTable.rook_55
  | 56, _ => MagicTable.rook_56
  | 57, _ => MagicTable.rook_57
  | 58, _ => MagicTable.rook_58
  | 59, _ => MagicTable.rook_59
  | 60, _ => MagicTable.rook_60
  | 61, _ => MagicTable.rook_61
  | 62, _ => MagicTable.rook_62
  | 63, _ => MagicTable.rook_63
  | n + 64, h => absurd h (by omega)
end Rawr
