import Rawr.Generated.RustTime
import Rawr.Model.TimeBudget
/-!
# The clock arms of `should_stop` (search::root::root) regenerated from the Rust source agree with the model

`Rawr/Generated/RustTime.lean` is rewritten by `tools/rust2lean.py` from root.rs on every run.
-/
namespace Rawr

theorem agree_timeBudget : @R.timeBudget = @timeBudget := rfl
theorem agree_movetimeBudget : @R.movetimeBudget = @movetimeBudget := rfl

end Rawr
