import Rawr.Props.C01_pawns
import Rawr.Props.C01_pieces
import Rawr.Props.C01_king
import Rawr.Props.C01_shape
import Rawr.Proofs.SpecNodup
/-!
# C01, assembly: every generated move decodes to a legal move, every legal move is the decoding of a
generated move, `encodeMove` inverts `decodeMove` on generated moves
-/
set_option linter.unusedSimpArgs false
namespace Rawr.Att
open Spec

theorem decode_normal (p : Position) (m : Mv) (h : p.c0.isSet m.dst = false) :
    decodeMove p m = .normal (absSq p.black m.src) (absSq p.black m.dst) (promoOf m.promo) := by
  unfold decodeMove promoOf
  simp [h]

theorem decode_castle (p : Position) (m : Mv) (h : p.c0.isSet m.dst = true) :
    decodeMove p m = .castle (decide (m.dst > m.src)) := by
  unfold decodeMove
  simp [h]

theorem pieceOn_lt {p : Position} {s k : Nat} (h : p.pieceOn s = some k) : k < 6 := by
  unfold Position.pieceOn at h
  split at h; · injection h with h; pomega
  split at h; · injection h with h; pomega
  split at h; · injection h with h; pomega
  split at h; · injection h with h; pomega
  split at h; · injection h with h; pomega
  split at h; · injection h with h; pomega
  cases h

/-- the source of a generated king-tagged move is the king's square. -/
theorem king_src {p : Position} (hV : ValidPos p = true) {s d : Nat} (h : gm 5 s d 6 ∈ moveGenerator p) :
    s = (prelude p).ksq := by
  have F := kingFacts hV
  rcases (mem_gen_king p s d).mp h with ⟨hk, _⟩ | ⟨_, hk, _⟩ | ⟨_, hk, _⟩
  · rw [F.list, List.mem_singleton] at hk; rw [prelude_ksq]; exact hk
  · exact hk
  · exact hk

/-- the castling move of a side for which castling is legal decodes to that side. -/
theorem decode_castleRook {p : Position} (hV : ValidPos p = true) (ks : Bool)
    (hl : Spec.castleLegal (abs p) ks = true) :
    p.c0.isSet (castleRookSq p ks) = true ∧
      decodeMove p ⟨(prelude p).ksq, castleRookSq p ks, 6⟩ = Move.castle ks := by
  have hr : rightUs p ks = true := by
    cases hr : rightUs p ks
    · rw [castleLegal_no_right ks hr] at hl; cases hl
    · rfl
  have CF := castleFacts hV ks hr
  have hown : p.c0.isSet (castleRookSq p ks) = true := by
    have hR := rook_of_right hV
    unfold rightUs at hr
    unfold castleRookSq
    cases ks
    · have := hR.2 hr
      rw [BitVec.getLsbD_and, Bool.and_eq_true] at this; exact this.1
    · have := hR.1 hr
      rw [BitVec.getLsbD_and, Bool.and_eq_true] at this; exact this.1
  refine ⟨hown, ?_⟩
  unfold decodeMove
  simp only [hown, if_true]
  congr 1
  have hside := CF.side
  rw [prelude_ksq]
  unfold castleRookSq rookFile at *
  cases ks
  · simp only [Bool.false_eq_true, if_false, fromCoords_zero] at hside ⊢
    simp only [decide_eq_false_iff_not]; omega
  · simp only [if_true, fromCoords_zero] at hside ⊢
    simp only [decide_eq_true_eq]; omega

/-- **soundness**: every generated move decodes to a legal move of the rules. -/
theorem gen_decode_legal {p : Position} (hV : ValidPos p = true) (hE : Spec.EpConsistent (abs p) = true)
    (g : GMv) (hg : g ∈ moveGenerator p) : decodeMove p g.mv ∈ Spec.legalMoves (abs p) := by
  have G := gen_shape p hV g hg
  obtain ⟨pc, ⟨s, d, pr⟩⟩ := g
  have hpc := pieceOn_lt G.tag
  dsimp only at hpc G
  cases hown : p.c0.isSet d
  · rw [decode_normal p _ hown]
    dsimp only
    have h6 : pc ≠ 0 → pr = 6 := fun h => promo6_of_not_pawn G h
    rcases (show pc = 0 ∨ pc = 1 ∨ pc = 2 ∨ pc = 3 ∨ pc = 4 ∨ pc = 5 by pomega) with
      rfl | rfl | rfl | rfl | rfl | rfl
    · exact ((C01_pawns p hV hE s d pr).mp hg).2.2.2
    · obtain rfl := h6 (by decide)
      exact ((C01_knights p hV s d).mp hg).1
    · obtain rfl := h6 (by decide)
      exact ((C01_bishops p hV s d).mp hg).1
    · obtain rfl := h6 (by decide)
      exact ((C01_rooks p hV s d).mp hg).1
    · obtain rfl := h6 (by decide)
      exact ((C01_queens p hV s d).mp hg).1
    · obtain rfl := h6 (by decide)
      have hs := king_src hV hg
      subst hs
      exact (C01_king_steps p hV d).mp ⟨hg, by rw [hown]; decide⟩
  · obtain ⟨h5, _⟩ := G.dst_own hown
    dsimp only at h5
    subst h5
    have hpr : pr = 6 := promo6_of_not_pawn G (by simp)
    subst hpr
    have hs := king_src hV hg
    subst hs
    obtain ⟨ks, _, hdec, hleg⟩ := (C01_castling_moves p hV d).mp ⟨hg, hown⟩
    rw [hdec]; exact hleg

theorem pseudo_src_own {P : APos} {a : Nat} {m : Move} (h : m ∈ pseudoFrom P a) :
    ∃ kd, P.board a = some ⟨P.whiteToMove, kd⟩ := by
  unfold pseudoFrom at h
  cases hB : P.board a with
  | none => rw [hB] at h; cases h
  | some pc =>
    rw [hB] at h
    dsimp only at h
    obtain ⟨w, kd⟩ := pc
    by_cases hw : w = P.whiteToMove
    · subst hw; exact ⟨kd, rfl⟩
    · have : (w != P.whiteToMove) = true := by simpa using hw
      simp only [this, if_true] at h
      cases h

theorem exists_prN {t : Nat} {pr : Option Kind} (h : PromoR t pr ∨ pr = none) :
    ∃ prN, PrOk prN ∧ promoOf prN = pr := by
  have key : pr = none ∨ ∃ k ∈ promoKinds, pr = some k := by
    rcases h with h | h
    · unfold PromoR at h
      split at h
      · exact Or.inr h
      · exact Or.inl h
    · exact Or.inl h
  rcases key with rfl | ⟨k, hk, rfl⟩
  · exact ⟨6, Or.inl rfl, rfl⟩
  · simp only [promoKinds, List.mem_cons, List.not_mem_nil, or_false] at hk
    rcases hk with rfl | rfl | rfl | rfl
    · exact ⟨4, Or.inr (Or.inr (Or.inr (Or.inr rfl))), rfl⟩
    · exact ⟨3, Or.inr (Or.inr (Or.inr (Or.inl rfl))), rfl⟩
    · exact ⟨2, Or.inr (Or.inr (Or.inl rfl)), rfl⟩
    · exact ⟨1, Or.inr (Or.inl rfl), rfl⟩

theorem isSet_of_rel {p : Position} (hC : Consistent p = true) {f : Nat} (hf : f < 64) :
    (relBoard p f = some ⟨true, .knight⟩ → p.p1.isSet f = true ∧ p.c0.isSet f = true) ∧
    (relBoard p f = some ⟨true, .bishop⟩ → p.p2.isSet f = true ∧ p.c0.isSet f = true) ∧
    (relBoard p f = some ⟨true, .rook⟩ → p.p3.isSet f = true ∧ p.c0.isSet f = true) ∧
    (relBoard p f = some ⟨true, .queen⟩ → p.p4.isSet f = true ∧ p.c0.isSet f = true) := by
  have R := rep_us hC
  unfold BB.isSet
  refine ⟨fun h => ?_, fun h => ?_, fun h => ?_, fun h => ?_⟩
  · have := R.knight f hf; rw [h, BitVec.getLsbD_and] at this
    simp only [decide_true, Bool.and_eq_true] at this; exact ⟨this.2, this.1⟩
  · have := R.bishop f hf; rw [h, BitVec.getLsbD_and] at this
    simp only [decide_true, Bool.and_eq_true] at this; exact ⟨this.2, this.1⟩
  · have := R.rook f hf; rw [h, BitVec.getLsbD_and] at this
    simp only [decide_true, Bool.and_eq_true] at this; exact ⟨this.2, this.1⟩
  · have := R.queen f hf; rw [h, BitVec.getLsbD_and] at this
    simp only [decide_true, Bool.and_eq_true] at this; exact ⟨this.2, this.1⟩

/-- **completeness**: every legal move of the rules is the decoding of a generated move. -/
theorem legal_is_generated {p : Position} (hV : ValidPos p = true) (hE : Spec.EpConsistent (abs p) = true)
    (m : Move) (hm : m ∈ Spec.legalMoves (abs p)) : ∃ g ∈ moveGenerator p, decodeMove p g.mv = m := by
  have hC := valid_consistent hV
  cases m with
  | castle ks =>
    have hl := (mem_legal_castle _ _).mp hm
    obtain ⟨hown, hdec⟩ := decode_castleRook hV ks hl
    exact ⟨gm 5 (prelude p).ksq (castleRookSq p ks) 6,
      ((C01_castling p hV (castleRookSq p ks)).mpr ⟨ks, rfl, hl⟩).1, hdec⟩
  | normal a b pr =>
    obtain ⟨⟨ha, hps⟩, _⟩ := (mem_legal_normal _ _ _ _).mp hm
    obtain ⟨kd, hBa⟩ := pseudo_src_own hps
    have ew : (abs p).whiteToMove = !p.black := rfl
    rw [ew] at hBa
    have hf : absSq p.black a < 64 := absSq_lt ha
    have haf : absSq p.black (absSq p.black a) = a := absSq_absSq _ _
    have hB : relBoard p (absSq p.black a) = some ⟨true, kd⟩ := by
      rw [← abs_at_us, haf]; exact hBa
    generalize hfdef : absSq p.black a = f at *
    subst haf
    have dec : ∀ (pc t prN : Nat), gm pc f t prN ∈ moveGenerator p → pc ≠ 5 →
        decodeMove p (gm pc f t prN).mv = .normal (absSq p.black f) (absSq p.black t) (promoOf prN) := by
      intro pc t prN hg hpc
      have G := gen_shape p hV _ hg
      apply decode_normal
      cases hown : p.c0.isSet (gm pc f t prN).mv.dst
      · rfl
      · exact absurd (G.dst_own hown).1 hpc
    cases kd with
    | pawn =>
      rw [pseudo_pawn_rel p hf hB] at hps
      obtain ⟨t, ht, rfl, hpp⟩ := hps
      have hpr : PromoR t pr ∨ pr = none := by
        rcases hpp with ⟨_, _, h⟩ | ⟨_, _, _, _, h⟩ | ⟨_, ⟨q, _, _, h⟩ | ⟨_, _, h⟩⟩
        · exact Or.inl h
        · exact Or.inr h
        · exact Or.inl h
        · exact Or.inr h
      obtain ⟨prN, hok, rfl⟩ := exists_prN hpr
      have hg := (C01_pawns p hV hE f t prN).mpr ⟨hB, ht, hok, hm⟩
      exact ⟨gm 0 f t prN, hg, dec 0 t prN hg (by decide)⟩
    | knight =>
      obtain rfl := C01_pieces_abs p 1 f b pr hB (Or.inl rfl) hm
      have hm' : Move.normal (absSq p.black f) (absSq p.black (absSq p.black b)) none ∈
          Spec.legalMoves (abs p) := by rw [absSq_absSq]; exact hm
      have hg := (C01_knights p hV f (absSq p.black b)).mpr ⟨hm', (isSet_of_rel hC hf).1 hB⟩
      exact ⟨_, hg, by rw [dec 1 _ 6 hg (by decide), absSq_absSq]; rfl⟩
    | bishop =>
      obtain rfl := C01_pieces_abs p 2 f b pr hB (Or.inr (Or.inl rfl)) hm
      have hm' : Move.normal (absSq p.black f) (absSq p.black (absSq p.black b)) none ∈
          Spec.legalMoves (abs p) := by rw [absSq_absSq]; exact hm
      have hg := (C01_bishops p hV f (absSq p.black b)).mpr ⟨hm', (isSet_of_rel hC hf).2.1 hB⟩
      exact ⟨_, hg, by rw [dec 2 _ 6 hg (by decide), absSq_absSq]; rfl⟩
    | rook =>
      obtain rfl := C01_pieces_abs p 3 f b pr hB (Or.inr (Or.inr (Or.inl rfl))) hm
      have hm' : Move.normal (absSq p.black f) (absSq p.black (absSq p.black b)) none ∈
          Spec.legalMoves (abs p) := by rw [absSq_absSq]; exact hm
      have hg := (C01_rooks p hV f (absSq p.black b)).mpr ⟨hm', (isSet_of_rel hC hf).2.2.1 hB⟩
      exact ⟨_, hg, by rw [dec 3 _ 6 hg (by decide), absSq_absSq]; rfl⟩
    | queen =>
      obtain rfl := C01_pieces_abs p 4 f b pr hB (Or.inr (Or.inr (Or.inr rfl))) hm
      have hm' : Move.normal (absSq p.black f) (absSq p.black (absSq p.black b)) none ∈
          Spec.legalMoves (abs p) := by rw [absSq_absSq]; exact hm
      have hg := (C01_queens p hV f (absSq p.black b)).mpr ⟨hm', (isSet_of_rel hC hf).2.2.2 hB⟩
      exact ⟨_, hg, by rw [dec 4 _ 6 hg (by decide), absSq_absSq]; rfl⟩
    | king =>
      have hk : f = (prelude p).ksq := by rw [prelude_ksq]; exact (relKing_unique hV f hf).mp hB
      subst hk
      obtain ⟨rfl, hg, hno⟩ := (C01_king_steps_abs p hV b pr).mp hm
      refine ⟨_, hg, ?_⟩
      have hno' : p.c0.isSet (absSq p.black b) = false := by
        cases h : p.c0.isSet (absSq p.black b)
        · rfl
        · exact absurd h hno
      rw [decode_normal p _ hno']
      show Move.normal _ (absSq p.black (absSq p.black b)) (promoOf 6) = _
      rw [absSq_absSq]; rfl

/-- `encodeMove` inverts `decodeMove` on the generated moves. -/
theorem encode_decode {p : Position} (hV : ValidPos p = true) (g : GMv) (hg : g ∈ moveGenerator p) :
    encodeMove p (decodeMove p g.mv) = g.mv := by
  have G := gen_shape p hV g hg
  obtain ⟨pc, ⟨s, d, pr⟩⟩ := g
  dsimp only at G ⊢
  cases hown : p.c0.isSet d
  · rw [decode_normal p _ hown]
    unfold encodeMove promoOf
    dsimp only
    rw [absSq_absSq, absSq_absSq]
    congr 1
    rcases G.promo_mem with h | h | h | h | h <;> dsimp only at h <;> subst h <;> rfl
  · rw [decode_castle p _ hown]
    obtain ⟨h5, hc⟩ := G.dst_own hown
    dsimp only at h5
    subst h5
    have hpr : pr = 6 := promo6_of_not_pawn G (by simp)
    subst hpr
    unfold encodeMove
    dsimp only
    rcases hc with ⟨_, h1, h2, _, _, h3, _⟩ | ⟨_, h1, h2, _, _, h3, _⟩
    · dsimp only at h1 h2 h3
      have : decide (d > s) = true := by simpa using h3
      rw [this, if_pos rfl, ← h1, ← h2]
    · dsimp only at h1 h2 h3
      have : decide (d > s) = false := by simp; omega
      rw [this]
      simp only [Bool.false_eq_true, if_false]
      rw [← h1, ← h2]

end Rawr.Att
