import Rawr.Model.Search
/-! The selection sort of qsearch.rs / negamax.rs (`selSort`) returns a permutation of its input.

Every outer step exchanges the entries `i` and `best` of the two parallel arrays with two `Array.set!`;
both indices are in range as long as the two arrays have the same size, and the sizes never change. -/
namespace Rawr

/-- the two `set!` of one outer step are `Array.swap` when both indices are in range. -/
theorem setIfInBounds_eq_set {α : Type} (a : Array α) (i : Nat) (v : α) (h : i < a.size) :
    a.setIfInBounds i v = a.set i v h := by
  rw [Array.setIfInBounds, dif_pos h]

theorem set!_set!_eq_swap {α : Type} [Inhabited α] (a : Array α) (i j : Nat)
    (hi : i < a.size) (hj : j < a.size) :
    (a.set! i a[j]!).set! j a[i]! = a.swap i j hi hj := by
  rw [Array.swap_def]
  simp only [Array.set!_eq_setIfInBounds, getElem!_pos a i hi, getElem!_pos a j hj]
  rw [setIfInBounds_eq_set a i _ hi, setIfInBounds_eq_set _ j _ (by simpa using hj)]

theorem set!_set!_perm {α : Type} [Inhabited α] (a : Array α) (i j : Nat)
    (hi : i < a.size) (hj : j < a.size) :
    ((a.set! i a[j]!).set! j a[i]!).Perm a := by
  rw [set!_set!_eq_swap a i j hi hj]; exact Array.swap_perm hi hj

theorem size_set!_set! {α : Type} (a : Array α) (i j : Nat) (x y : α) :
    ((a.set! i x).set! j y).size = a.size := by
  simp only [Array.set!_eq_setIfInBounds, Array.size_setIfInBounds]

/-- the inner loop returns an index in range whenever it starts from one. -/
theorem selInner_lt (sc : Array Int) : ∀ (f best j : Nat), best < sc.size → selInner sc best j f < sc.size
  | 0, best, j, h => by simpa [selInner] using h
  | f + 1, best, j, h => by
    unfold selInner
    split
    · rename_i hj
      apply selInner_lt sc f
      split
      · exact hj
      · exact h
    · exact h

/-- the outer loop permutes the move array (the score array has the same size). -/
theorem selOuter_perm (n : Nat) : ∀ (fuel i : Nat) (sc : Array Int) (mv : Array Mv),
    sc.size = mv.size → n ≤ mv.size → (selOuter n i fuel sc mv).Perm mv
  | 0, i, sc, mv, _, _ => by simp [selOuter, Array.Perm.refl]
  | fuel + 1, i, sc, mv, hs, hn => by
    unfold selOuter
    split
    · rename_i hi
      have hi' : i < mv.size := by omega
      have hb : selInner sc i (i + 1) n < mv.size := by
        rw [← hs]; exact selInner_lt sc n i (i + 1) (by omega)
      refine Array.Perm.trans (selOuter_perm n fuel (i + 1) _ _ ?_ ?_) (set!_set!_perm mv i _ hi' hb)
      · simp only [size_set!_set!, hs]
      · simp only [size_set!_set!]; exact hn
    · exact Array.Perm.refl _

theorem selSort_perm (sc : Array Int) (mv : Array Mv) (hs : sc.size = mv.size) :
    (selSort sc mv).Perm mv :=
  selOuter_perm mv.size mv.size 0 sc mv hs (Nat.le_refl _)

theorem selSort_toList_perm (sc : Array Int) (mv : Array Mv) (hs : sc.size = mv.size) :
    (selSort sc mv).toList.Perm mv.toList :=
  Array.perm_iff_toList_perm.mp (selSort_perm sc mv hs)

theorem selSort_size (sc : Array Int) (mv : Array Mv) (hs : sc.size = mv.size) :
    (selSort sc mv).size = mv.size :=
  (selSort_perm sc mv hs).size_eq

/-- qsearch.rs `sort` returns a permutation of the generated captures. -/
theorem sortQs_perm (p : Position) (ms l : List Mv) (h : sortQs p ms = some l) : l.Perm ms := by
  unfold sortQs at h
  split at h
  · cases h; exact List.Perm.refl _
  · split at h
    · cases h
    · cases h
      simpa using selSort_toList_perm (ms.map (captureScore Gen.orderValsQsearch p)).toArray ms.toArray
        (by simp)

/-- negamax.rs `sort` returns a permutation of the generated moves. -/
theorem sortNm_perm (p : Position) (ms l : List Mv) (tt : Option Mv) (h : sortNm p ms tt = some l) :
    l.Perm ms := by
  unfold sortNm at h
  split at h
  · cases h; exact List.Perm.refl _
  · split at h
    · cases h
    · cases h
      simpa using selSort_toList_perm (ms.map fun m =>
        if tt == some m then Gen.ttMoveOrderScore else captureScore Gen.orderValsNegamax p m).toArray
          ms.toArray (by simp)

/-- `sort` only fails on the buffer overflow. -/
theorem sortQs_isSome (p : Position) (ms : List Mv) (h : ms.length ≤ Gen.orderBufQsearch) :
    ∃ l, sortQs p ms = some l := by
  unfold sortQs
  split
  · exact ⟨_, rfl⟩
  · rw [if_neg (by omega)]; exact ⟨_, rfl⟩

end Rawr
