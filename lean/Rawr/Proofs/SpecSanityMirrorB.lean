import Rawr.Proofs.SpecSanityMirrorA
/-!
# Sanity of the specification, part 1 (b): `Spec.apply` commutes with the colour mirror
-/
namespace Rawr.SpecS
open Rawr.Spec Rawr.Att Rawr.SV

theorem flip_kind (pc : Piece) : (flipPiece pc).kind = pc.kind := rfl
theorem flip_white (pc : Piece) : (flipPiece pc).white = !pc.white := rfl

theorem beq_not_not (x y : Bool) : ((!x) == (!y)) = (x == y) := by cases x <;> cases y <;> rfl

/-- the rights bookkeeping of a non-castling move, mirrored. -/
theorem lostCore_mirror (r : Option Nat) (hr : ∀ f, r = some f → f < 8) (mover : Bool) (w : Bool)
    (s t : Nat) (km : Bool) :
    lostCore r mover (homeRank (!w)) (s ^^^ 56) (t ^^^ 56) km = lostCore r mover (homeRank w) s t km := by
  cases r with
  | none => rfl
  | some f =>
    have hf := hr f rfl
    unfold lostCore
    simp only
    rw [sq_home_mirror hf w]
    have e1 : (s ^^^ 56 == sq (f : Int) (homeRank w) ^^^ 56) = (s == sq (f : Int) (homeRank w)) := by
      rw [Bool.eq_iff_iff, beq_iff_eq, beq_iff_eq]
      constructor
      · intro h; have := congrArg (· ^^^ 56) h; simpa only [x56_x56] using this
      · intro h; rw [h]
    have e2 : (t ^^^ 56 == sq (f : Int) (homeRank w) ^^^ 56) = (t == sq (f : Int) (homeRank w)) := by
      rw [Bool.eq_iff_iff, beq_iff_eq, beq_iff_eq]
      constructor
      · intro h; have := congrArg (· ^^^ 56) h; simpa only [x56_x56] using this
      · intro h; rw [h]
    rw [e1, e2]

theorem newPiece_flip (pr : Option Kind) (pc : Piece) :
    (match pr with | some k => (⟨(flipPiece pc).white, k⟩ : Piece) | none => flipPiece pc) =
      flipPiece (match pr with | some k => ⟨pc.white, k⟩ | none => pc) := by
  cases pr <;> rfl

/-- **a non-castling move**: `apply` commutes with the mirror, up to the full-move counter. -/
theorem apply_mirror_normal (a : APos) (hR : RightsOK a) {s t : Nat} (hs : s < 64) (ht : t < 64)
    (pr : Option Kind) :
    EqModFull (apply (mirrorA a) (.normal (s ^^^ 56) (t ^^^ 56) pr)) (mirrorA (apply a (.normal s t pr))) := by
  cases hb : a.board s with
  | none =>
    have hb' : (mirrorA a).board (s ^^^ 56) = none := by
      show mirrorB a.board (s ^^^ 56) = none
      rw [mirrorB_x56, hb]; rfl
    simp only [apply, hb, hb']
    exact EqModFull.refl _
  | some pc =>
    have hb' : (mirrorA a).board (s ^^^ 56) = some (flipPiece pc) := by
      show mirrorB a.board (s ^^^ 56) = _
      rw [mirrorB_x56, hb]; rfl
    rw [apply_normal hb, apply_normal hb', eqModFull_iff]
    have fs := file_x56 hs
    have ft := file_x56 ht
    have rs := rank_x56 hs
    have rt := rank_x56 ht
    have hbs := rank_bounds hs
    have hbt := rank_bounds ht
    have hfs := file_bounds s
    have hft := file_bounds t
    have hsome : ((mirrorA a).board (t ^^^ 56)).isSome = (a.board t).isSome := mirrorB_isSome a.board t
    have hvic : sq (file (t ^^^ 56)) (rank (s ^^^ 56)) = sq (file t) (rank s) ^^^ 56 := by
      rw [ft, rs]
      apply sq_mirror
      rw [onBoard_iff]; omega
    have hw : (mirrorA a).whiteToMove = !a.whiteToMove := rfl
    have hbd : (mirrorA a).board = mirrorB a.board := rfl
    refine ⟨?_, rfl, ?_, ?_, ?_, ?_, ?_, ?_⟩
    · -- board
      rw [hbd] at hsome
      rw [hvic]
      simp only [mirrorA, flip_kind, fs, ft, hsome]
      rw [mirrorB_setSq]
      have eb : (if (pc.kind == Kind.pawn && file s != file t && !(a.board t).isSome) = true then
            setSq (setSq (mirrorB a.board) (s ^^^ 56) none) (sq (file t) (rank s) ^^^ 56) none
          else setSq (mirrorB a.board) (s ^^^ 56) none) =
          mirrorB (if (pc.kind == Kind.pawn && file s != file t && !(a.board t).isSome) = true then
            setSq (setSq a.board s none) (sq (file t) (rank s)) none else setSq a.board s none) := by
        split
        · rw [mirrorB_setSq, mirrorB_setSq]; rfl
        · rw [mirrorB_setSq]; rfl
      rw [eb]
      cases pr <;> rfl
    · show lostCore a.bK (true == !a.whiteToMove) (homeRank true) _ _ _ =
        lostCore a.bK (false == a.whiteToMove) (homeRank false) _ _ _
      rw [show (true == !a.whiteToMove) = (false == a.whiteToMove) from by cases a.whiteToMove <;> rfl]
      exact lostCore_mirror a.bK (fun f h => hR false true f h) _ false s t _
    · show lostCore a.bQ (true == !a.whiteToMove) (homeRank true) _ _ _ =
        lostCore a.bQ (false == a.whiteToMove) (homeRank false) _ _ _
      rw [show (true == !a.whiteToMove) = (false == a.whiteToMove) from by cases a.whiteToMove <;> rfl]
      exact lostCore_mirror a.bQ (fun f h => hR false false f h) _ false s t _
    · show lostCore a.wK (false == !a.whiteToMove) (homeRank false) _ _ _ =
        lostCore a.wK (true == a.whiteToMove) (homeRank true) _ _ _
      rw [show (false == !a.whiteToMove) = (true == a.whiteToMove) from by cases a.whiteToMove <;> rfl]
      exact lostCore_mirror a.wK (fun f h => hR true true f h) _ true s t _
    · show lostCore a.wQ (false == !a.whiteToMove) (homeRank false) _ _ _ =
        lostCore a.wQ (true == a.whiteToMove) (homeRank true) _ _ _
      rw [show (false == !a.whiteToMove) = (true == a.whiteToMove) from by cases a.whiteToMove <;> rfl]
      exact lostCore_mirror a.wQ (fun f h => hR true false f h) _ true s t _
    · -- en passant square
      simp only [mirrorA, flip_kind, fs, rs, rt]
      have e : (7 - rank t - (7 - rank s)).natAbs = (rank t - rank s).natAbs := by omega
      rw [e]
      split
      · next hc =>
        simp only [Bool.and_eq_true, beq_iff_eq] at hc
        simp only [Option.map_some]
        congr 1
        have e2 : (7 - rank s + (7 - rank t)) / 2 = 7 - (rank s + rank t) / 2 := by omega
        rw [e2]
        apply sq_mirror
        rw [onBoard_iff]; omega
      · rfl
    · -- half-move clock
      simp only [mirrorA, flip_kind, fs, ft]
      rw [hbd] at hsome
      simp only [hsome]

/-- **castling**: `apply` commutes with the mirror, up to the full-move counter. -/
theorem apply_mirror_castle (a : APos) {ks : Bool} {rf k : Nat} (hrf : rf < 8)
    (hr : right a a.whiteToMove ks = some rf) (hk : kingSquares a.board a.whiteToMove = [k]) :
    EqModFull (apply (mirrorA a) (.castle ks)) (mirrorA (apply a (.castle ks))) := by
  have hr' : right (mirrorA a) (mirrorA a).whiteToMove ks = some rf := by
    rw [right_mirror]
    show right a (!!a.whiteToMove) ks = some rf
    rw [Bool.not_not]; exact hr
  have hk' : kingSquares (mirrorA a).board (mirrorA a).whiteToMove = [k ^^^ 56] :=
    kingSquares_mirror_singleton hk
  rw [apply_castle hr hk, apply_castle hr' hk', eqModFull_iff]
  have hw : (mirrorA a).whiteToMove = !a.whiteToMove := rfl
  refine ⟨?_, rfl, ?_, ?_, ?_, ?_, rfl, rfl⟩
  · simp only [mirrorA]
    rw [sq_home_mirror hrf, sq_home_mirror' _ (by split <;> omega) (by split <;> omega),
      sq_home_mirror' _ (by split <;> omega) (by split <;> omega)]
    rw [mirrorB_setSq, mirrorB_setSq, mirrorB_setSq, mirrorB_setSq]
    rfl
  · simp only [mirrorA]; rcases Bool.eq_false_or_eq_true a.whiteToMove with h | h <;> simp [h]
  · simp only [mirrorA]; rcases Bool.eq_false_or_eq_true a.whiteToMove with h | h <;> simp [h]
  · simp only [mirrorA]; rcases Bool.eq_false_or_eq_true a.whiteToMove with h | h <;> simp [h]
  · simp only [mirrorA]; rcases Bool.eq_false_or_eq_true a.whiteToMove with h | h <;> simp [h]

/-- **`apply` commutes with the mirror on every legal move** (up to the full-move counter). -/
theorem apply_mirror {a : APos} (hR : RightsOK a) {m : Move} (hm : m ∈ legalMoves a) :
    EqModFull (apply (mirrorA a) (mirrorMove m)) (mirrorA (apply a m)) := by
  rcases legal_cases hm with ⟨s, t, pr, pc, e, nl, _⟩ | ⟨ks, e, hc⟩
  · subst e
    exact apply_mirror_normal a hR nl.hs nl.ht pr
  · subst e
    obtain ⟨rf, k, cf⟩ := castle_facts hc
    exact apply_mirror_castle a (hR _ _ _ cf.hr) cf.hr cf.hk

/-- the full-move counter after the mirrored move: it is the only field on which the two sides differ. -/
theorem apply_mirror_full {a : APos} {m : Move} (hm : m ∈ legalMoves a) :
    (apply (mirrorA a) (mirrorMove m)).full = (if a.whiteToMove = true then a.full + 1 else a.full) ∧
    (mirrorA (apply a m)).full = (if a.whiteToMove = true then a.full else a.full + 1) := by
  rcases legal_cases hm with ⟨s, t, pr, pc, e, nl, _⟩ | ⟨ks, e, hc⟩
  · subst e
    have hb' : (mirrorA a).board (s ^^^ 56) = some (flipPiece pc) := by
      show mirrorB a.board (s ^^^ 56) = _
      rw [mirrorB_x56, nl.hpc]; rfl
    simp only [mirrorMove]
    rw [apply_normal hb', apply_normal nl.hpc]
    simp only [mirrorA]
    rcases Bool.eq_false_or_eq_true a.whiteToMove with h | h <;> simp [h]
  · subst e
    obtain ⟨rf, k, cf⟩ := castle_facts hc
    have hr' : right (mirrorA a) (mirrorA a).whiteToMove ks = some rf := by
      rw [right_mirror]
      show right a (!!a.whiteToMove) ks = some rf
      rw [Bool.not_not]; exact cf.hr
    have hk' : kingSquares (mirrorA a).board (mirrorA a).whiteToMove = [k ^^^ 56] :=
      kingSquares_mirror_singleton cf.hk
    simp only [mirrorMove]
    rw [apply_castle hr' hk', apply_castle cf.hr cf.hk]
    simp only [mirrorA]
    rcases Bool.eq_false_or_eq_true a.whiteToMove with h | h <;> simp [h]

end Rawr.SpecS
