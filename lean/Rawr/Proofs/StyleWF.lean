import Rawr.Model.Style
/-!
# Well-formedness of annotated games (the chess facts C20 relies on)

`Rawr.Model.Style` analyses *annotated games*: lists of plies carrying what python-chess answers.
Not every list of annotations comes from a chess game.  `WFGame side g` collects the (decidable) facts
about games played from the standard starting position that the theorems of `Rawr/Props/C20.lean` use:

1. fewer than 1024 half-moves (the property's own bound; `game_length`/`no_queens` have 1024 slots);
2. a pawn of `side` never moves to its own first or second rank (relative rank index ≥ 2);
3. the material on the final board is at most 206 = 2·(9·9 + 2·5 + 4·3) (`final_material` has 207 slots);
4. among the first 40 half-moves, `side` moves a pawn to relative rank index `r+1` at most as often
   as to index `r`, for `r = 3,…,6` (a pawn that arrives on the 5th…8th rank arrived on the rank
   before at an earlier move, and two pawns never share an arrival).

These four facts are PROVED from the rules of chess (`Rawr.Spec`) in `Rawr/Proofs/StyleChessWF.lean`
(`wfGame_of_legal`); in addition the `styledriver` executable evaluates `wfGame` on every game the
harness generates.  Core Lean only.
-/
namespace Rawr.Style

/-- is ply number `i` an early (ply < 40) pawn move of `side` to relative rank index `r`? -/
def isEarlyPush (side : Color) (r : Nat) (i : Nat) (p : Ply) : Bool :=
  decide (i < 40) && p.turn == side && p.piece == PAWN && Stats.relRank p.turn p.to == r

/-- number of early pawn moves of `side` to relative rank index `r`, plies numbered from `i`. -/
def earlyPushesFrom (side : Color) (r : Nat) : Nat → List Ply → Nat
  | _, [] => 0
  | i, p :: ps => b2n (isEarlyPush side r i p) + earlyPushesFrom side r (i + 1) ps

def earlyPushes (side : Color) (g : Game) (r : Nat) : Nat := earlyPushesFrom side r 0 g.plies

/-- fact 2 for one ply. -/
def pawnRankOk (side : Color) (p : Ply) : Bool :=
  !(p.turn == side && p.piece == PAWN) || decide (2 ≤ Stats.relRank p.turn p.to)

/-- the four facts, executable. -/
def wfGame (side : Color) (g : Game) : Bool :=
  decide (g.plies.length < 1024) &&
  g.plies.all (pawnRankOk side) &&
  decide (g.finalWhite.material + g.finalBlack.material ≤ 206) &&
  [3, 4, 5, 6].all fun r => decide (earlyPushes side g (r + 1) ≤ earlyPushes side g r)

structure WFGame (side : Color) (g : Game) : Prop where
  short : g.plies.length < 1024
  pawnRank : ∀ p ∈ g.plies, pawnRankOk side p = true
  material : g.finalWhite.material + g.finalBlack.material ≤ 206
  chain : ∀ r, 3 ≤ r → r ≤ 6 → earlyPushes side g (r + 1) ≤ earlyPushes side g r

theorem wfGame_iff (side : Color) (g : Game) : wfGame side g = true ↔ WFGame side g := by
  constructor
  · intro h
    simp only [wfGame, Bool.and_eq_true, decide_eq_true_eq, List.all_eq_true] at h
    obtain ⟨⟨⟨h1, h2⟩, h3⟩, h4⟩ := h
    refine ⟨h1, h2, h3, ?_⟩
    intro r hr3 hr6
    have : r = 3 ∨ r = 4 ∨ r = 5 ∨ r = 6 := by omega
    rcases this with rfl | rfl | rfl | rfl <;> exact h4 _ (by simp)
  · intro ⟨h1, h2, h3, h4⟩
    simp only [wfGame, Bool.and_eq_true, decide_eq_true_eq, List.all_eq_true]
    refine ⟨⟨⟨h1, h2⟩, h3⟩, ?_⟩
    intro r hr
    simp only [List.mem_cons, List.not_mem_nil, or_false] at hr
    exact h4 r (by omega) (by omega)

instance (side : Color) (g : Game) : Decidable (WFGame side g) :=
  decidable_of_iff _ (wfGame_iff side g)

end Rawr.Style
