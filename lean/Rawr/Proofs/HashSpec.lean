import Rawr.Proofs.HashLemmas
/-! C04(c): `calculateHashK K p = Spec.zobristAbs K (abs p)` for board-consistent `p`. -/
namespace Rawr.ZH
open Rawr Rawr.Position Rawr.Spec

/-- the eight bits of one square of a board-consistent position. -/
def cellOk (u v q0 q1 q2 q3 q4 q5 : Bool) : Bool :=
  !(u && v) &&
  !(q0 && q1) && !(q0 && q2) && !(q0 && q3) && !(q0 && q4) && !(q0 && q5) &&
  !(q1 && q2) && !(q1 && q3) && !(q1 && q4) && !(q1 && q5) &&
  !(q2 && q3) && !(q2 && q4) && !(q2 && q5) && !(q3 && q4) && !(q3 && q5) && !(q4 && q5) &&
  ((u || v) == (q0 || q1 || q2 || q3 || q4 || q5))

theorem and_zero_bit {a b : BB} (h : a &&& b = 0#64) (s : Nat) : (a.getLsbD s && b.getLsbD s) = false := by
  have := congrArg (fun x => x.getLsbD s) h
  simpa using this

theorem cellOk_of_consistent {p : Position} (h : Consistent p) (s : Nat) :
    cellOk (p.c0.getLsbD s) (p.c1.getLsbD s) (p.p0.getLsbD s) (p.p1.getLsbD s) (p.p2.getLsbD s)
      (p.p3.getLsbD s) (p.p4.getLsbD s) (p.p5.getLsbD s) = true := by
  simp only [Consistent, Bool.and_eq_true, beq_iff_eq] at h
  obtain ⟨⟨⟨⟨⟨⟨⟨⟨⟨⟨⟨⟨⟨⟨⟨⟨h0, h1⟩, h2⟩, h3⟩, h4⟩, h5⟩, h6⟩, h7⟩, h8⟩, h9⟩, h10⟩, h11⟩, h12⟩, h13⟩, h14⟩, h15⟩, h16⟩ := h
  have e := congrArg (fun x => x.getLsbD s) h16
  simp only [BitVec.getLsbD_or] at e
  simp only [cellOk, and_zero_bit h0, and_zero_bit h1, and_zero_bit h2, and_zero_bit h3, and_zero_bit h4,
    and_zero_bit h5, and_zero_bit h6, and_zero_bit h7, and_zero_bit h8, and_zero_bit h9, and_zero_bit h10,
    and_zero_bit h11, and_zero_bit h12, and_zero_bit h13, and_zero_bit h14, and_zero_bit h15, e,
    Bool.not_false, Bool.and_self, beq_self_eq_true]

/-- the key contribution of absolute square `a`, from the eight bits of its mover-relative image. -/
def cellKey (K : ZKeys) (t : Bool) (a : Nat) (u v q0 q1 q2 q3 q4 q5 : Bool) : BB :=
  ((if (u && q0) then K.piece (zIndex t 0 a) else 0#64) ^^^ (if (v && q0) then K.piece (zIndex (!t) 0 a) else 0#64)) ^^^
  ((if (u && q1) then K.piece (zIndex t 1 a) else 0#64) ^^^ (if (v && q1) then K.piece (zIndex (!t) 1 a) else 0#64)) ^^^
  ((if (u && q2) then K.piece (zIndex t 2 a) else 0#64) ^^^ (if (v && q2) then K.piece (zIndex (!t) 2 a) else 0#64)) ^^^
  ((if (u && q3) then K.piece (zIndex t 3 a) else 0#64) ^^^ (if (v && q3) then K.piece (zIndex (!t) 3 a) else 0#64)) ^^^
  ((if (u && q4) then K.piece (zIndex t 4 a) else 0#64) ^^^ (if (v && q4) then K.piece (zIndex (!t) 4 a) else 0#64)) ^^^
  ((if (u && q5) then K.piece (zIndex t 5 a) else 0#64) ^^^ (if (v && q5) then K.piece (zIndex (!t) 5 a) else 0#64))

/-- the piece `absBoard` reports, from the same eight bits. -/
def cellPiece (t : Bool) (u v q0 q1 q2 q3 q4 q5 : Bool) : Option Piece :=
  match (if q0 then some 0 else if q1 then some 1 else if q2 then some 2 else if q3 then some 3
         else if q4 then some 4 else if q5 then some 5 else (none : Option Nat)) with
  | none => none
  | some k => if u then some ⟨!t, kindOf k⟩ else if v then some ⟨t, kindOf k⟩ else none

theorem cellKey_eq (K : ZKeys) (t : Bool) (a : Nat) (u v q0 q1 q2 q3 q4 q5 : Bool)
    (h : cellOk u v q0 q1 q2 q3 q4 q5 = true) :
    cellKey K t a u v q0 q1 q2 q3 q4 q5 =
      match cellPiece t u v q0 q1 q2 q3 q4 q5 with
      | some pc => K.piece (pieceKeyIndex pc a)
      | none => 0#64 := by
  revert h
  cases u <;> cases v <;> cases q0 <;> cases q1 <;> cases q2 <;> cases q3 <;> cases q4 <;> cases q5 <;>
    intro h <;> first
    | exact absurd h (by decide)
    | (cases t <;> simp [cellKey, cellPiece, pieceKeyIndex, zIndex, kindOf, kindIndex])

theorem pieceKey_eq_xorSum (K : ZKeys) (p : Position) :
    pieceKey K p.black p.c0 p.c1 p.piece =
      xorSum (fun a => let s := maybeFlip a p.black
        cellKey K p.black a (p.c0.getLsbD s) (p.c1.getLsbD s) (p.p0.getLsbD s) (p.p1.getLsbD s)
          (p.p2.getLsbD s) (p.p3.getLsbD s) (p.p4.getLsbD s) (p.p5.getLsbD s)) (List.range 64) := by
  unfold pieceKey LA
  simp only [← xorSum_xor, BitVec.getLsbD_and, cellKey, Position.piece]

theorem absBoard_eq (p : Position) (a : Nat) (ha : a < 64) :
    absBoard p a = (let s := maybeFlip a p.black
      cellPiece p.black (p.c0.getLsbD s) (p.c1.getLsbD s) (p.p0.getLsbD s) (p.p1.getLsbD s)
          (p.p2.getLsbD s) (p.p3.getLsbD s) (p.p4.getLsbD s) (p.p5.getLsbD s)) := by
  simp only [absBoard, ha, if_true, absSq, maybeFlip, pieceOn, BB.isSet, cellPiece]
  rfl

theorem spec_fold (b : Board) (g : Piece → Nat → BB) (l : List Nat) :
    l.foldl (fun h s => match b s with | some pc => h ^^^ g pc s | none => h) 0#64 =
      xorSum (fun s => match b s with | some pc => g pc s | none => 0#64) l := by
  unfold xorSum
  congr 1
  funext h s
  split <;> simp [*]

def specEpKey (K : ZKeys) : Option Nat → BB
  | some e => K.ep (e % 8)
  | none => 0#64

theorem zobristAbs_eq (K : ZKeys) (a : APos) :
    zobristAbs K a =
      xorSum (fun s => match a.board s with | some pc => K.piece (pieceKeyIndex pc s) | none => 0#64)
        (List.range 64) ^^^
      (specEpKey K a.ep ^^^ onKey a.wK.isSome (K.castling 0) ^^^ onKey a.wQ.isSome (K.castling 1) ^^^
        onKey a.bK.isSome (K.castling 2) ^^^ onKey a.bQ.isSome (K.castling 3) ^^^
        onKey (!a.whiteToMove) K.turn) := by
  have hf := spec_fold a.board (fun pc s => K.piece (pieceKeyIndex pc s)) (List.range 64)
  unfold zobristAbs
  simp only [squares]
  cases a.ep <;> cases a.wK.isSome <;> cases a.wQ.isSome <;> cases a.bK.isSome <;> cases a.bQ.isSome <;>
    cases a.whiteToMove <;>
    simp only [specEpKey, onKey, Bool.false_eq_true, if_false, if_true, Bool.not_true, Bool.not_false,
      BitVec.xor_zero, BitVec.zero_xor, BitVec.xor_assoc] <;>
    first | exact hf | exact congrArg (· ^^^ _) hf

theorem metaKey_abs (K : ZKeys) (p : Position) :
    metaKey K p.black p.ep p.usK p.usQ p.themK p.themQ =
      (specEpKey K (abs p).ep ^^^ onKey (abs p).wK.isSome (K.castling 0) ^^^
        onKey (abs p).wQ.isSome (K.castling 1) ^^^ onKey (abs p).bK.isSome (K.castling 2) ^^^
        onKey (abs p).bQ.isSome (K.castling 3) ^^^ onKey (!(abs p).whiteToMove) K.turn) := by
  have hep : specEpKey K (abs p).ep = epKey K p.ep := by
    simp only [abs]
    cases p.ep with
    | none => rfl
    | some e =>
      cases p.black
      · rfl
      · simp only [Option.map_some, specEpKey, epKey, absSq, if_true, fileOf, xor56_mod8]
  rw [hep]
  unfold metaKey abs
  cases p.black <;> cases p.usK <;> cases p.usQ <;> cases p.themK <;> cases p.themQ <;>
    simp [onKey, col] <;> ac_rfl

/-- C04(c). -/
theorem calc_eq_spec (K : ZKeys) (p : Position) (h : Consistent p) :
    calculateHashK K p = zobristAbs K (abs p) := by
  rw [calc_eq, zobristAbs_eq, pieceKey_eq_xorSum, metaKey_abs]
  congr 1
  apply xorSum_congr
  intro a ha
  have ha := List.mem_range.mp ha
  have hb : (abs p).board a = absBoard p a := rfl
  rw [hb, absBoard_eq p a ha]
  exact cellKey_eq K p.black a _ _ _ _ _ _ _ _ (cellOk_of_consistent h _)

/-- the specification key looks only at the board, the side to move, which rights are present and the
en-passant file. -/
theorem zobristAbs_congr (K : ZKeys) (a b : APos) (hb : ∀ s, s < 64 → a.board s = b.board s)
    (ht : a.whiteToMove = b.whiteToMove)
    (hwK : a.wK.isSome = b.wK.isSome) (hwQ : a.wQ.isSome = b.wQ.isSome)
    (hbK : a.bK.isSome = b.bK.isSome) (hbQ : a.bQ.isSome = b.bQ.isSome)
    (hep : a.ep.map (· % 8) = b.ep.map (· % 8)) : zobristAbs K a = zobristAbs K b := by
  rw [zobristAbs_eq, zobristAbs_eq, ht, hwK, hwQ, hbK, hbQ]
  have h1 : specEpKey K a.ep = specEpKey K b.ep := by
    cases ha : a.ep <;> cases hb' : b.ep <;> simp [ha, hb'] at hep <;> simp [specEpKey, hep]
  rw [h1]
  congr 1
  apply xorSum_congr
  intro s hs
  rw [hb s (List.mem_range.mp hs)]

end Rawr.ZH
