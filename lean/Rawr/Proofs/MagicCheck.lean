import Rawr.Model.Magic
import Rawr.Spec.Walk
/-!
# C10, table part: a kernel-evaluable checker over `Nat` shadows and its soundness

`checkSq` enumerates every subset `s` of a mask and compares the table entry selected by the magic
index of `s` with the coordinate walk. Everything that is evaluated by the kernel works on `Nat`
literals, all intermediate values are forced (kernel evaluation is lazy). The soundness theorems at
the end of the file connect a successful run to the `BitVec` model functions of `Model/Magic.lean`
and to `Spec.walkBB`.
-/
namespace Rawr
open Spec

/-! ### forcing combinators -/

/-- `k n`, with `n` evaluated to a literal first. -/
def forceNat (n : Nat) (k : Nat → Bool) : Bool :=
  match n with
  | 0 => k 0
  | Nat.succ j => k (Nat.succ j)

theorem forceNat_eq (n : Nat) (k : Nat → Bool) : forceNat n k = k n := by
  cases n <;> rfl

def forceList : List Nat → (List Nat → Bool) → Bool
  | [], k => k []
  | x :: xs, k => forceNat x fun x => forceList xs fun xs => k (x :: xs)

theorem forceList_eq (l : List Nat) (k : List Nat → Bool) : forceList l k = k l := by
  induction l generalizing k with
  | nil => rfl
  | cons x xs ih => simp only [forceList, forceNat_eq, ih]

def forceLists : List (List Nat) → (List (List Nat) → Bool) → Bool
  | [], k => k []
  | x :: xs, k => forceList x fun x => forceLists xs fun xs => k (x :: xs)

theorem forceLists_eq (l : List (List Nat)) (k : List (List Nat) → Bool) : forceLists l k = k l := by
  induction l generalizing k with
  | nil => rfl
  | cons x xs ih => simp only [forceLists, forceList_eq, ih]

/-! ### trie lookup written for the kernel -/

def getFast : Trie → Nat → Nat → Option Nat
  | .E, _, _ => none
  | .L v, _, _ => some v
  | .N l r, d, i =>
    match d with
    | 0 => none
    | Nat.succ d =>
      match Nat.land 1 (Nat.shiftRight i d) with
      | 0 => getFast l d i
      | Nat.succ _ => getFast r d i

theorem testBit_match {α : Type} (i d : Nat) (a b : α) :
    (match Nat.land 1 (Nat.shiftRight i d) with | 0 => a | Nat.succ _ => b)
      = if i.testBit d then b else a := by
  have h : i.testBit d = (Nat.land 1 (Nat.shiftRight i d) != 0) := rfl
  rw [h]
  cases Nat.land 1 (Nat.shiftRight i d) <;> simp

theorem getFast_eq (t : Trie) (d i : Nat) : getFast t d i = t.get d i := by
  induction t generalizing d with
  | E => simp [getFast, Trie.get]
  | L v => simp [getFast, Trie.get]
  | N l r ihl ihr =>
    cases d with
    | zero => simp [getFast, Trie.get]
    | succ d => simp only [getFast, Trie.get, testBit_match, ihl, ihr]

def magicGetFast (idx : Nat) : Option Nat :=
  match Nat.blt idx Gen.magicTableLen with
  | true => getFast Gen.magicTrie Gen.magicTrieDepth idx
  | false => none

theorem magicGetFast_eq (idx : Nat) : magicGetFast idx = magicGet idx := by
  unfold magicGetFast magicGet
  by_cases h : idx < Gen.magicTableLen
  · have : Nat.blt idx Gen.magicTableLen = true := by simpa [Nat.blt_eq] using h
    simp [this, h, getFast_eq]
  · have : Nat.blt idx Gen.magicTableLen = false := by
      cases hb : Nat.blt idx Gen.magicTableLen
      · rfl
      · exact absurd (Nat.blt_eq.mp hb) h
    simp [this, h]

/-! ### sets of squares as `Nat`, scanning a precomputed ray -/

def setNat (l : List Nat) : Nat := l.foldr (fun t a => 2 ^ t ||| a) 0

/-- prefix of `l` up to and including the first element satisfying `p`. -/
def takeUntil (p : Nat → Bool) : List Nat → List Nat
  | [] => []
  | t :: ts => if p t then [t] else t :: takeUntil p ts

/-- `setNat (takeUntil s.testBit ray)`. -/
def scanRay (s : Nat) : List Nat → Nat
  | [] => 0
  | t :: ts =>
    match Nat.land 1 (Nat.shiftRight s t) with
    | 0 => 2 ^ t ||| scanRay s ts
    | Nat.succ _ => 2 ^ t ||| 0

def scanRays (s : Nat) : List (List Nat) → Nat
  | [] => 0
  | r :: rs => scanRay s r ||| scanRays s rs

theorem scanRay_eq (s : Nat) (l : List Nat) : scanRay s l = setNat (takeUntil s.testBit l) := by
  induction l with
  | nil => rfl
  | cons t ts ih =>
    simp only [scanRay, testBit_match, takeUntil, ih]
    split <;> simp [setNat]

theorem setNat_append (a b : List Nat) : setNat (a ++ b) = setNat a ||| setNat b := by
  induction a with
  | nil => simp [setNat]
  | cons t ts ih =>
    have : setNat (t :: ts ++ b) = 2 ^ t ||| setNat (ts ++ b) := rfl
    rw [this, ih, ← Nat.or_assoc]; rfl

theorem scanRays_eq (s : Nat) (rs : List (List Nat)) :
    scanRays s rs = setNat (rs.flatMap (takeUntil s.testBit)) := by
  induction rs with
  | nil => rfl
  | cons r rs ih => simp only [scanRays, List.flatMap_cons, setNat_append, scanRay_eq, ih]

/-- the rays of the empty board. -/
def emptyOcc : Nat → Bool := fun _ => false

theorem walkFrom_takeUntil (df dr : Int) (occ : Nat → Bool) (n : Nat) (f r : Int) :
    walkFrom df dr occ n f r = takeUntil occ (walkFrom df dr emptyOcc n f r) := by
  induction n generalizing f r with
  | zero => rfl
  | succ n ih =>
    simp only [walkFrom]
    split
    · simp only [emptyOcc, Bool.false_eq_true, if_false, takeUntil]
      split
      · rfl
      · rw [ih]
    · rfl

def emptyRays (dirs : List (Int × Int)) (sq : Nat) : List (List Nat) :=
  dirs.map fun d => walk d.1 d.2 sq emptyOcc

theorem scanRays_emptyRays (dirs : List (Int × Int)) (sq s : Nat) :
    scanRays s (emptyRays dirs sq) = setNat (walkList dirs sq s.testBit) := by
  rw [scanRays_eq, emptyRays, walkList]
  congr 1
  induction dirs with
  | nil => rfl
  | cons d ds ih =>
    simp only [List.map_cons, List.flatMap_cons, ih]
    congr 1
    exact (walkFrom_takeUntil d.1 d.2 s.testBit 7 (file sq) (rank sq)).symm

/-! ### `setNat` is the `Nat` shadow of `Spec.setBB` -/

theorem onBoard_sq_lt {f r : Int} (h : onBoard f r = true) : sq f r < 64 := by
  simp only [onBoard, Bool.and_eq_true, decide_eq_true_eq] at h
  unfold sq; omega

theorem mem_walkFrom_lt {df dr : Int} {occ : Nat → Bool} {n : Nat} {f r : Int} {t : Nat}
    (h : t ∈ walkFrom df dr occ n f r) : t < 64 := by
  induction n generalizing f r with
  | zero => simp [walkFrom] at h
  | succ n ih =>
    simp only [walkFrom] at h
    split at h
    · rename_i hb
      split at h
      · simp only [List.mem_singleton] at h; subst h; exact onBoard_sq_lt hb
      · simp only [List.mem_cons] at h
        rcases h with h | h
        · subst h; exact onBoard_sq_lt hb
        · exact ih h
    · simp at h

theorem mem_walkList_lt {dirs : List (Int × Int)} {sq : Nat} {occ : Nat → Bool} {t : Nat}
    (h : t ∈ walkList dirs sq occ) : t < 64 := by
  simp only [walkList, List.mem_flatMap] at h
  obtain ⟨d, _, h⟩ := h
  exact mem_walkFrom_lt h

theorem setBB_toNat (l : List Nat) (h : ∀ t ∈ l, t < 64) : (setBB l).toNat = setNat l := by
  induction l with
  | nil => rfl
  | cons t ts ih =>
    have ht : t < 64 := h t (List.mem_cons_self ..)
    have e : setBB (t :: ts) = (1#64 <<< t) ||| setBB ts := rfl
    have e' : setNat (t :: ts) = 2 ^ t ||| setNat ts := rfl
    rw [e, e', BitVec.toNat_or, ih (fun x hx => h x (List.mem_cons_of_mem _ hx)),
      BitVec.toNat_shiftLeft]
    congr 1
    have : (1#64).toNat = 1 := rfl
    rw [this, Nat.one_shiftLeft]
    exact Nat.mod_eq_of_lt (Nat.pow_lt_pow_right (by decide) ht)

theorem walkBB_toNat (dirs : List (Int × Int)) (sq : Nat) (occ : BitVec 64) :
    (walkBB dirs sq occ).toNat = setNat (walkList dirs sq occ.toNat.testBit) := by
  unfold walkBB
  rw [setBB_toNat _ (fun t h => mem_walkList_lt h)]
  congr 2

/-! ### enumeration of all subsets of a mask, highest bit first -/

/-- `P (s ||| t)` for every subset `t` of `m` (`m < 2 ^ fuel`). -/
def allSub (P : Nat → Bool) : Nat → Nat → Nat → Bool
  | 0, _, s => P s
  | f + 1, m, s =>
    match m with
    | 0 => P s
    | Nat.succ k =>
      match allSub P f (Nat.succ k % 2 ^ Nat.log2 (Nat.succ k)) s with
      | false => false
      | true =>
        forceNat (s ||| 2 ^ Nat.log2 (Nat.succ k)) fun s' =>
          allSub P f (Nat.succ k % 2 ^ Nat.log2 (Nat.succ k)) s'

theorem split_top (m : Nat) (h : m ≠ 0) : m = 2 ^ m.log2 ||| m % 2 ^ m.log2 := by
  have h1 : 2 ^ m.log2 ≤ m := Nat.log2_self_le h
  have h2 : m < 2 ^ (m.log2 + 1) := Nat.lt_log2_self
  apply Nat.eq_of_testBit_eq
  intro j
  rw [Nat.testBit_or, Nat.testBit_two_pow, Nat.testBit_mod_two_pow]
  rcases Nat.lt_trichotomy j m.log2 with hj | hj | hj
  · have : ¬ m.log2 = j := by omega
    simp [hj, this]
  · subst hj
    have : m / 2 ^ m.log2 % 2 = 1 := by
      have : m / 2 ^ m.log2 = 1 := by
        apply Nat.div_eq_of_lt_le
        · simpa using h1
        · rw [Nat.pow_succ] at h2; omega
      rw [this]
    simp [Nat.testBit_eq_decide_div_mod_eq, this]
  · have : ¬ m.log2 = j := by omega
    have hlt : ¬ j < m.log2 := by omega
    have : m.testBit j = false := by
      apply Nat.testBit_lt_two_pow
      exact Nat.lt_of_lt_of_le h2 (Nat.pow_le_pow_right (by decide) hj)
    simp [*]

theorem and_two_pow_cases (o i : Nat) : o &&& 2 ^ i = 0 ∨ o &&& 2 ^ i = 2 ^ i := by
  by_cases h : o.testBit i
  · right
    apply Nat.eq_of_testBit_eq; intro j
    rw [Nat.testBit_and, Nat.testBit_two_pow]
    by_cases hj : i = j
    · subst hj; simp [h]
    · simp [hj]
  · left
    apply Nat.eq_of_testBit_eq; intro j
    rw [Nat.testBit_and, Nat.testBit_two_pow]
    by_cases hj : i = j
    · subst hj; simp [h]
    · simp [hj]

theorem allSub_sound (P : Nat → Bool) : ∀ (f m s : Nat), m < 2 ^ f → allSub P f m s = true →
    ∀ o : Nat, P (s ||| (o &&& m)) = true := by
  intro f
  induction f with
  | zero =>
    intro m s hm h o
    have : m = 0 := by simpa using hm
    subst this
    simpa [allSub] using h
  | succ f ih =>
    intro m s hm h o
    cases m with
    | zero => simpa [allSub] using h
    | succ k =>
      simp only [allSub, forceNat_eq, Nat.succ_eq_add_one] at h
      generalize hM : k + 1 = M at h hm ⊢
      have hM0 : M ≠ 0 := by omega
      have h1 : 2 ^ M.log2 ≤ M := Nat.log2_self_le hM0
      have hi : M.log2 < f + 1 := by
        apply (Nat.pow_lt_pow_iff_right (a := 2) (by decide)).mp
        exact Nat.lt_of_le_of_lt h1 hm
      have hM' : M % 2 ^ M.log2 < 2 ^ f :=
        Nat.lt_of_lt_of_le (Nat.mod_lt _ (Nat.two_pow_pos _))
          (Nat.pow_le_pow_right (by decide) (by omega))
      split at h
      · exact absurd h (by simp)
      · rename_i ha
        have ra := ih _ _ hM' ha o
        have rb := ih _ _ hM' h o
        have e : o &&& M = o &&& 2 ^ M.log2 ||| o &&& (M % 2 ^ M.log2) := by
          conv => lhs; rw [split_top M hM0]
          exact Nat.and_or_distrib_left ..
        rw [e]
        rcases and_two_pow_cases o M.log2 with hz | hz
        · rw [hz, Nat.zero_or]; exact ra
        · rw [hz, ← Nat.or_assoc]; exact rb

/-! ### the per-square check -/

/-- one row: the table entry at the magic index of `s` is the walk over occupancy `s`. -/
def rowOK (rays : List (List Nat)) (magic off shift : Nat) (s : Nat) : Bool :=
  forceNat (off + (((s * magic) % 18446744073709551616) >>> shift)) fun idx =>
    match magicGetFast idx with
    | some v => Nat.beq v (scanRays s rays)
    | none => false

/-- all rows of one square: every subset `s` of `mask`. -/
def checkSq (dirs : List (Int × Int)) (stuff : Array (Nat × Nat)) (shift mask sq : Nat) : Bool :=
  match stuff[sq]?.getD (0, 0) with
  | (magic, off) =>
    forceNat magic fun magic => forceNat off fun off => forceNat mask fun mask =>
    forceNat shift fun shift => forceLists (emptyRays dirs sq) fun rays =>
      allSub (fun s => forceNat s (rowOK rays magic off shift)) 64 mask 0

def checkB (sq : Nat) : Bool :=
  checkSq diag Gen.bishopStuffLib Gen.bishopShiftLib (bishopMask sq).toNat sq
def checkR (sq : Nat) : Bool :=
  checkSq orth Gen.rookStuffLib Gen.rookShiftLib (rookMask sq).toNat sq

theorem checkSq_sound (dirs : List (Int × Int)) (stuff : Array (Nat × Nat)) (shift : Nat)
    (mask : BB) (sq : Nat) (h : checkSq dirs stuff shift mask.toNat sq = true) (occ : BB) :
    magicGet (magicIndex stuff shift mask sq occ) = some (walkBB dirs sq (occ &&& mask)).toNat := by
  unfold checkSq at h
  simp only [forceNat_eq, forceLists_eq] at h
  have h2 := allSub_sound _ 64 mask.toNat 0 mask.isLt h occ.toNat
  simp only [forceNat_eq, rowOK, Nat.zero_or, magicGetFast_eq] at h2
  have hidx : magicIndex stuff shift mask sq occ
      = (stuff[sq]?.getD (0, 0)).2 +
        (((occ.toNat &&& mask.toNat) * (stuff[sq]?.getD (0, 0)).1) % 18446744073709551616) >>> shift := by
    simp only [magicIndex, BitVec.toNat_ushiftRight, BitVec.toNat_mul, BitVec.toNat_and,
      BitVec.toNat_ofNat]
    congr 2
    exact (Nat.mul_mod_mod _ _ _)
  rw [hidx]
  split at h2
  · rename_i v hv
    rw [hv]
    congr 1
    have := Nat.eq_of_beq_eq_true h2
    rw [this, scanRays_emptyRays, walkBB_toNat, BitVec.toNat_and]
  · exact absurd h2 (by simp)

theorem checkB_sound (sq : Nat) (h : checkB sq = true) (occ : BB) :
    magicGet (bishopIndex sq occ) = some (walkBB diag sq (occ &&& bishopMask sq)).toNat :=
  checkSq_sound diag _ _ _ sq h occ

theorem checkR_sound (sq : Nat) (h : checkR sq = true) (occ : BB) :
    magicGet (rookIndex sq occ) = some (walkBB orth sq (occ &&& rookMask sq)).toNat :=
  checkSq_sound orth _ _ _ sq h occ

end Rawr
