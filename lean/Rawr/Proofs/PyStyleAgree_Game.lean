import Rawr.Proofs.PyStyleAgree
/-!
# `analyse_game` regenerated from style.py equals the model's `analyseGame`
-/
namespace Rawr.PyStyleAgree
open Rawr Rawr.Style Rawr.PyStyle

theorem agree_get_material_score (w b : PieceCounts) (side : Color) :
    PyStyle.get_material_score (w, b) side = (if side == WHITE then w else b).material := rfl

/-- `us_castled` / `them_castled` are the ints 0, 1, 2 in the script. -/
def Castled.toNat : Castled → Nat
  | .no => 0
  | .king => 1
  | .queen => 2

/-- the model's loop record as the tuple of loop-carried variables of the generated loop body
(`stats, us_castled, them_castled, queens_gone, ply, has_QvRR, has_RRvQ, has_Qv3minor, has_3minorvQ`). -/
def ofLoop (L : Loop) : Stats × Nat × Nat × Bool × Nat × Bool × Bool × Bool × Bool :=
  (L.stats, Castled.toNat L.usCastled, Castled.toNat L.themCastled, L.queensGone, L.ply,
   L.hasQvRR, L.hasRRvQ, L.hasQv3minor, L.has3minorvQ)

theorem ww : (WHITE == WHITE) = true := rfl
theorem bw : (BLACK == WHITE) = false := rfl

theorem lift_ok {α : Type} (a : α) : Py.lift (Except.ok a : Except PyErr α) = .ok a := rfl
theorem lift_err {α : Type} (e : PyErr) : Py.lift (Except.error e : Except PyErr α) = .error (.base e) := rfl

/-! ### the stages of the model's `stepUs`, in the shape of the generated statements -/

theorem castleUs_stats (L : Loop) (p : Ply) :
    (markCastleUs L p).stats =
      (if p.ksCastle = true then (PyStyle.Stats.aug_castleKing L.stats 1, 1)
       else if p.qsCastle = true then (PyStyle.Stats.aug_castleQueen L.stats 1, 2)
       else (L.stats, Castled.toNat L.usCastled)).fst := by
  unfold markCastleUs; cases p.ksCastle <;> cases p.qsCastle <;> rfl

theorem castleUs_us (L : Loop) (p : Ply) :
    Castled.toNat (markCastleUs L p).usCastled =
      (if p.ksCastle = true then (PyStyle.Stats.aug_castleKing L.stats 1, 1)
       else if p.qsCastle = true then (PyStyle.Stats.aug_castleQueen L.stats 1, 2)
       else (L.stats, Castled.toNat L.usCastled)).snd := by
  unfold markCastleUs; cases p.ksCastle <;> cases p.qsCastle <;> rfl

theorem castleUs_us' (L : Loop) (p : Ply) : (markCastleUs L p).usCastled =
    (if p.ksCastle = true then Castled.king else if p.qsCastle = true then Castled.queen else L.usCastled) := by
  unfold markCastleUs; cases p.ksCastle <;> cases p.qsCastle <;> rfl

theorem castleUs_them (L : Loop) (p : Ply) : (markCastleUs L p).themCastled = L.themCastled := by
  unfold markCastleUs; cases p.ksCastle <;> cases p.qsCastle <;> rfl
theorem castleUs_qg (L : Loop) (p : Ply) : (markCastleUs L p).queensGone = L.queensGone := by
  unfold markCastleUs; cases p.ksCastle <;> cases p.qsCastle <;> rfl
theorem castleUs_ply (L : Loop) (p : Ply) : (markCastleUs L p).ply = L.ply := by
  unfold markCastleUs; cases p.ksCastle <;> cases p.qsCastle <;> rfl
theorem castleUs_f1 (L : Loop) (p : Ply) : (markCastleUs L p).hasQvRR = L.hasQvRR := by
  unfold markCastleUs; cases p.ksCastle <;> cases p.qsCastle <;> rfl
theorem castleUs_f2 (L : Loop) (p : Ply) : (markCastleUs L p).hasRRvQ = L.hasRRvQ := by
  unfold markCastleUs; cases p.ksCastle <;> cases p.qsCastle <;> rfl
theorem castleUs_f3 (L : Loop) (p : Ply) : (markCastleUs L p).hasQv3minor = L.hasQv3minor := by
  unfold markCastleUs; cases p.ksCastle <;> cases p.qsCastle <;> rfl
theorem castleUs_f4 (L : Loop) (p : Ply) : (markCastleUs L p).has3minorvQ = L.has3minorvQ := by
  unfold markCastleUs; cases p.ksCastle <;> cases p.qsCastle <;> rfl

/-- `len(board.pieces(K, not side))` as generated, and as the model spells it. -/
theorem them_eq (side : Color) (a b : Nat) :
    (if ((!side) == WHITE) = true then a else b) = (if (side == WHITE) = true then b else a) := by
  cases side <;> rfl

theorem ite_add (c : Prop) [Decidable c] (a b a' b' : Nat) :
    ((if c then a else b) + (if c then a' else b')) = (if c then a + a' else b + b') := by
  split <;> rfl

/-- `# Material imbalance` (inside the loop) with the four flags spelled out. -/
theorem imb_flat (side : Color) (L : Loop) (p : Ply) : markImbalance side L p =
    { L with
      hasQvRR := (if ((if (side == WHITE) = true then p.queensW else p.queensB) == 1 &&
         (if (side == WHITE) = true then p.queensB else p.queensW) == 0 &&
         (if (side == WHITE) = true then p.rooksW else p.rooksB) == 0 &&
         (if (side == WHITE) = true then p.rooksB else p.rooksW) == 2) = true then true else L.hasQvRR)
      hasRRvQ := (if ((if (side == WHITE) = true then p.queensW else p.queensB) == 0 &&
         (if (side == WHITE) = true then p.queensB else p.queensW) == 1 &&
         (if (side == WHITE) = true then p.rooksW else p.rooksB) == 2 &&
         (if (side == WHITE) = true then p.rooksB else p.rooksW) == 0) = true then true else L.hasRRvQ)
      hasQv3minor := (if ((if (side == WHITE) = true then p.queensW else p.queensB) == 1 &&
         (if (side == WHITE) = true then p.queensB else p.queensW) == 0 &&
         (if (side == WHITE) = true then p.knightsW + p.bishopsW else p.knightsB + p.bishopsB) == 0 &&
         (if (side == WHITE) = true then p.knightsB + p.bishopsB else p.knightsW + p.bishopsW) == 3) = true
         then true else L.hasQv3minor)
      has3minorvQ := (if ((if (side == WHITE) = true then p.queensW else p.queensB) == 0 &&
         (if (side == WHITE) = true then p.queensB else p.queensW) == 1 &&
         (if (side == WHITE) = true then p.knightsW + p.bishopsW else p.knightsB + p.bishopsB) == 3 &&
         (if (side == WHITE) = true then p.knightsB + p.bishopsB else p.knightsW + p.bishopsW) == 0) = true
         then true else L.has3minorvQ) } := by
  unfold markImbalance; dsimp only
  cases side <;> simp only [WHITE, beq_self_eq_true, ↓reduceIte, Bool.false_eq_true, show (false == true) = false from rfl] <;>
    (repeat' split) <;> rfl

/-- `# Threats` in the shape of the generated statements. -/
theorem threats_flat (s : Stats) (p : Ply) : markThreats s p =
    (let dx : Int := (squareFile p.enemyKing : Int) - (squareFile p.to : Int)
     let dy : Int := (squareRank p.enemyKing : Int) - (squareRank p.to : Int)
     let stats := s
     let stats := if (p.piece == ROOK || p.piece == QUEEN) = true then
         (if (decide (Int.natAbs dx ≤ 1) || decide (Int.natAbs dy ≤ 1)) = true then
            PyStyle.Stats.aug_numRookThreats stats 1 else stats) else stats
     if (p.piece == BISHOP || p.piece == QUEEN) = true then
       (if Int.natAbs ((Int.natAbs dx : Int) - (Int.natAbs dy : Int)) ≤ 1 then
          PyStyle.Stats.aug_numBishopThreats stats 1 else stats) else stats) := by
  unfold markThreats rookThreat bishopThreat absDiff
  dsimp only
  cases (p.piece == ROOK || p.piece == QUEEN) <;> cases (p.piece == BISHOP || p.piece == QUEEN) <;>
    simp only [Bool.false_and, Bool.true_and, Bool.false_eq_true, ↓reduceIte, decide_eq_true_eq] <;>
    (repeat' split) <;> rfl

/-- the iteration when the queens test fails. -/
theorem body_eq_noq (side : Color) (L : Loop) (p : Ply)
    (hq : ¬ (L.queensGone == false && p.queensW == 0 && p.queensB == 0) = true) :
    PyStyle.analyse_game.loop1_body side (ofLoop L) (L.ply, p) = Py.lift ((step side L p).map ofLoop) := by
  unfold PyStyle.analyse_game.loop1_body step markQueens
  simp only [ofLoop, ww, bw, ↓reduceIte, Bool.false_eq_true, hq, bind_ok, pure_eq]
  by_cases ht : (p.turn == side) = true
  · have hT := fun s => threats_flat s p
    simp only at hT
    simp only [ht, ↓reduceIte, stepUs, castleUs_stats, castleUs_us', castleUs_them, castleUs_qg, castleUs_ply,
      castleUs_f1, castleUs_f2, castleUs_f3, castleUs_f4, imb_flat, them_eq, ite_add]
    simp only [← hT]
    generalize markThreats _ p = sT
    simp only [markMoveType, markPawn, agree_add_capture, agree_add_noncapture, agree_add_pawn_push, augAdd_one]
    cases p.isCapture <;> simp only [Bool.false_eq_true, ↓reduceIte] <;>
      (generalize incAt _ _ = r
       cases r with
       | error e => rfl
       | ok l =>
         simp only [lift_ok, bind_ok, map_ok, PyStyle.Stats.set_noncaptureDistance, PyStyle.Stats.set_captureDistance]
         cases (p.piece == PAWN) <;> simp only [Bool.false_eq_true, ↓reduceIte]
         · cases p.ksCastle <;> cases p.qsCastle <;> rfl
         · generalize Stats.addPawnPush _ _ _ _ _ = r2
           cases r2 with
           | error e => rfl
           | ok s2 => cases p.ksCastle <;> cases p.qsCastle <;> rfl)
  · simp only [ht, ↓reduceIte, Bool.false_eq_true, stepThem, map_ok, lift_ok]
    cases p.ksCastle <;> cases p.qsCastle <;> rfl

/-- one iteration of the move loop: the generated loop body on the tuple image of the model's loop record. -/
theorem body_eq (side : Color) (L : Loop) (p : Ply) :
    PyStyle.analyse_game.loop1_body side (ofLoop L) (L.ply, p) = Py.lift ((step side L p).map ofLoop) := by
  by_cases hq : (L.queensGone == false && p.queensW == 0 && p.queensB == 0) = true
  · cases hqo : L.stats.queensOff L.ply with
    | error e =>
      unfold PyStyle.analyse_game.loop1_body step markQueens
      simp only [ofLoop, ww, bw, ↓reduceIte, Bool.false_eq_true, hq, agree_queens_off, hqo, lift_err, bind_err,
        map_err]
    | ok s1 =>
      have hL1 : ¬ (({ L with stats := s1, queensGone := true } : Loop).queensGone == false && p.queensW == 0 &&
          p.queensB == 0) = true := by simp
      have h1 : PyStyle.analyse_game.loop1_body side (ofLoop L) (L.ply, p) =
          PyStyle.analyse_game.loop1_body side (ofLoop { L with stats := s1, queensGone := true }) (L.ply, p) := by
        unfold PyStyle.analyse_game.loop1_body
        simp only [ofLoop, ww, bw, ↓reduceIte, Bool.false_eq_true, hq, agree_queens_off, hqo, lift_ok, bind_ok,
          pure_eq, show (true == false) = false from rfl, Bool.false_and]
      have h2 : step side L p = step side { L with stats := s1, queensGone := true } p := by
        unfold step markQueens
        simp only [hq, hqo, ↓reduceIte, Bool.false_eq_true, show (true == false) = false from rfl, Bool.false_and]
      rw [h1, h2]
      exact body_eq_noq side _ p hL1
  · exact body_eq_noq side L p hq

/-! ### the move loop -/

theorem markQueens_ply {L L1 : Loop} {p : Ply} (h : markQueens L p = .ok L1) : L1.ply = L.ply := by
  unfold markQueens at h
  split at h
  · cases hq : L.stats.queensOff L.ply with
    | error e => rw [hq] at h; cases h
    | ok s => rw [hq] at h; cases h; rfl
  · cases h; rfl

theorem stepUs_ply {side : Color} {L L2 : Loop} {p : Ply} (h : stepUs side L p = .ok L2) : L2.ply = L.ply := by
  unfold stepUs at h
  dsimp only at h
  split at h
  · cases h
  · split at h
    · cases h
    · cases h; simp only [castleUs_ply, imb_flat]

theorem stepThem_ply (L : Loop) (p : Ply) : (stepThem L p).ply = L.ply := by
  unfold stepThem; cases p.ksCastle <;> cases p.qsCastle <;> rfl

theorem step_ply {side : Color} {L L' : Loop} {p : Ply} (h : step side L p = .ok L') : L'.ply = L.ply + 1 := by
  unfold step at h
  cases h1 : markQueens L p with
  | error e => rw [h1] at h; cases h
  | ok L1 =>
    rw [h1] at h
    dsimp only at h
    have e1 := markQueens_ply h1
    by_cases ht : (p.turn == side) = true
    · simp only [ht, ↓reduceIte] at h
      cases h2 : stepUs side L1 p with
      | error e => rw [h2] at h; cases h
      | ok L2 => rw [h2] at h; cases h; simp only [stepUs_ply h2, e1]
    · simp only [ht, ↓reduceIte, Bool.false_eq_true] at h
      cases h; simp only [stepThem_ply, e1]

theorem loop_eq (side : Color) (ps : List Ply) (L : Loop) :
    List.foldlM (PyStyle.analyse_game.loop1_body side) (ofLoop L) (Py.enumerateFrom L.ply ps)
      = Py.lift ((runLoop side L ps).map ofLoop) := by
  induction ps generalizing L with
  | nil => rfl
  | cons p ps ih =>
    unfold Py.enumerateFrom runLoop
    rw [List.foldlM_cons, body_eq]
    cases h : step side L p with
    | error e => rfl
    | ok L' =>
      simp only [map_ok, lift_ok, bind_ok]
      rw [← step_ply h]
      exact ih L'

theorem result_in (r : Result) :
    (!(r == Result.whiteWins || r == Result.blackWins || r == Result.draw)) = false := by
  cases r <;> rfl

/-- a raising callee followed by a continuation, in the generated form and in the model's. -/
theorem lift_bind {α β : Type} (x y : Except PyErr α) (K : α → Except Py.Exc β) (K' : α → Except PyErr β)
    (hxy : x = y) (hK : ∀ a, K a = Py.lift (K' a)) :
    (Py.lift x >>= K) = Py.lift (y >>= K') := by
  subst hxy
  cases x with
  | error e => rfl
  | ok a => exact hK a

/-- the model's spelling of a bind in `Except` (its two `match`es in `finishAnalysis`). -/
theorem match_bind_stats {β : Type} (x : Except PyErr Stats) (F : Stats → Except PyErr β) :
    Rawr.Style.stepUs.match_1 (fun _ => Except PyErr β) x (fun e => .error e) F = x >>= F := by
  cases x <;> rfl

theorem match_bind_list {β : Type} (x : Except PyErr (List Nat)) (F : List Nat → Except PyErr β) :
    Rawr.Style.finishAnalysis.match_1 (fun _ => Except PyErr β) x (fun e => .error e) F = x >>= F := by
  cases x <;> rfl

/-- `# Material imbalance` after the loop, in the shape of the generated statements. -/
theorem imbsum_flat (s : Stats) (L : Loop) : imbalanceSummary s L =
    (let stats := s
     let stats := if L.hasQvRR = true then PyStyle.Stats.aug_numQvRR stats 1 else stats
     let stats := if L.hasRRvQ = true then PyStyle.Stats.aug_numRRvQ stats 1 else stats
     let stats := if L.hasQv3minor = true then PyStyle.Stats.aug_numQv3minor stats 1 else stats
     if L.has3minorvQ = true then PyStyle.Stats.aug_num3minorvQ stats 1 else stats) := rfl

/-- the castling summary: the generated `if / elif` chain over the ints 0, 1, 2 (whose `else: raise RuntimeError`
is never reached) is the model's match on `Castled`. -/
theorem castle_chain (s : Stats) (us them : Castled) :
    (if (Castled.toNat us == 0 && Castled.toNat them == 0) = true then (pure s : Except Py.Exc Stats)
     else if (Castled.toNat us == 0 && Castled.toNat them != 0) = true then pure s
     else if (Castled.toNat us != 0 && Castled.toNat them == 0) = true then pure s
     else if (Castled.toNat us == 1 && Castled.toNat them == 1) = true then pure (PyStyle.Stats.aug_castleSame s 1)
     else if (Castled.toNat us == 2 && Castled.toNat them == 2) = true then pure (PyStyle.Stats.aug_castleSame s 1)
     else if (Castled.toNat us == 1 && Castled.toNat them == 2) = true then
       pure (PyStyle.Stats.aug_castleOpposite s 1)
     else if (Castled.toNat us == 2 && Castled.toNat them == 1) = true then
       pure (PyStyle.Stats.aug_castleOpposite s 1)
     else throw Py.Exc.runtime) = pure (castleSummary s us them) := by
  cases us <;> cases them <;> rfl

theorem agree_analyse_game (g : Game) (side : Color) (s : Stats) :
    PyStyle.analyse_game g side s = Py.lift (analyseGame g side s) := by
  unfold PyStyle.analyse_game analyseGame
  simp only [result_in, Bool.false_eq_true, ↓reduceIte]
  have h0 : (s, 0, 0, false, 0, false, false, false, false) = ofLoop { stats := s } := rfl
  have hl := loop_eq side g.plies { stats := s }
  unfold Py.enumerate
  rw [h0, hl]
  cases hr : runLoop side { stats := s } g.plies with
  | error e => rfl
  | ok L =>
    have hI := fun s => imbsum_flat s L
    simp only at hI
    simp only [map_ok, lift_ok, bind_ok, ofLoop]
    simp only [← hI, castle_chain]
    rw [pure_eq, bind_ok]
    unfold finishAnalysis
    dsimp only
    simp only [match_bind_stats, match_bind_list]
    refine lift_bind _ _ _ _ ?_ ?_
    · rw [agree_finish_game]
    intro s2
    refine lift_bind _ _ _ _ ?_ ?_
    · cases side <;> cases g.result <;> rfl
    · intro fm; cases side <;> cases g.result <;> rfl

/-! ## analyse_pgn: the per-job statements -/

/-- `analyse_game(game, side, stats); count += 1; assert(is_valid(stats))`. -/
theorem agree_analyse_pgn_job (g : Game) (side : Color) (s : Stats) (count : Nat) :
    PyStyle.analyse_pgn.job g side s count =
      Py.lift (do
        let s' ← analyseGame g side s
        let ok ← isValid s'
        if ok then pure (s', count + 1) else throw PyErr.assertion) := by
  unfold PyStyle.analyse_pgn.job
  rw [agree_analyse_game, agree_is_valid]
  cases analyseGame g side s with
  | error e => rfl
  | ok s' =>
    simp only [lift_ok, bind_ok]
    cases isValid s' with
    | error e => rfl
    | ok b => cases b <;> rfl

/-- running the generated job statements over the jobs of ONE filter is the model's `analysePgn`
(`count` only counts). -/
theorem agree_analyse_pgn (jobs : List (Game × Color)) (s : Stats) (count : Nat) :
    List.foldlM (fun (st : Stats × Nat) (j : Game × Color) => PyStyle.analyse_pgn.job j.1 j.2 st.1 st.2) (s, count) jobs
      = Py.lift ((analysePgn jobs s).map (fun s' => (s', count + jobs.length))) := by
  induction jobs generalizing s count with
  | nil => rfl
  | cons j js ih =>
    obtain ⟨g, side⟩ := j
    rw [List.foldlM_cons, agree_analyse_pgn_job]
    unfold analysePgn
    cases analyseGame g side s with
    | error e => rfl
    | ok s' =>
      simp only [bind_ok]
      cases isValid s' with
      | error e => rfl
      | ok b =>
        cases b with
        | false => rfl
        | true =>
          simp only [bind_ok, ↓reduceIte, pure_eq, lift_ok]
          rw [ih, List.length_cons, Nat.add_assoc, Nat.add_comm 1]

/-! ## main: the `styles` list and the per-filter report -/

/-- `styles`: the three score functions, in order. -/
theorem agree_main_styles : PyStyle.main.styles.map (·.2) =
    [fun s (_ : Bool) => getAggressionScore .guarded s, fun s _ => getPositionalScore .guarded s,
     fun s _ => getPawnPusherScore s] := by
  unfold PyStyle.main.styles
  simp only [List.map]
  congr 1
  · funext s v; exact agree_get_aggression_score s v
  · congr 1
    · funext s v; exact agree_get_positional_score s v
    · congr 1
      funext s v; exact agree_get_pawn_pusher_score s v

theorem div_nat_ok (a : Q) (n : Nat) (h : n ≠ 0) : ∃ r, Q.div a (Q.nat n) = .ok r := by
  unfold Q.div Q.nat
  have h1 : ((n : Nat) : Int) ≠ 0 := by omega
  have h2 : (0 : Int) < (n : Int) := by omega
  simp only [h1, h2, ↓reduceIte]
  exact ⟨_, rfl⟩

/-- the report of one filter raises exactly when the model's `mainScores` does (the printed percentages divide by
`num_games`, which is positive there). -/
theorem agree_main_report (s : Stats) (verbose : Bool) :
    PyStyle.main.report s verbose = (mainScores .guarded s).map (fun _ => ()) := by
  unfold PyStyle.main.report mainScores
  dsimp only
  split
  · rfl
  · rename_i h
    have hn : s.numGames ≠ 0 := by omega
    obtain ⟨r1, h1⟩ := div_nat_ok (Q.nat (100 * s.numWins)) s.numGames hn
    obtain ⟨r2, h2⟩ := div_nat_ok (Q.nat (100 * s.numDraws)) s.numGames hn
    obtain ⟨r3, h3⟩ := div_nat_ok (Q.nat (100 * s.numLosses)) s.numGames hn
    simp only [h1, h2, h3, bind_ok, List.foldlM_cons, List.foldlM_nil, agree_get_aggression_score,
      agree_get_positional_score, agree_get_pawn_pusher_score]
    cases getAggressionScore .guarded s with
    | error e => rfl
    | ok a =>
      cases getPositionalScore .guarded s with
      | error e => cases a <;> rfl
      | ok b =>
        cases getPawnPusherScore s with
        | error e => cases a <;> cases b <;> rfl
        | ok c => cases a <;> cases b <;> cases c <;> rfl

/-! ## sanity: the regenerated functions compute (1. e4 d5 2. exd5 as an annotated game, won by White); the
expected numbers are those of the real script on this game (run through `pystub/chess`) -/

def demoPly (turn : Color) (piece : Nat) (frm to : Square) (cap : Bool) (ek : Square) : Ply :=
  { turn := turn, piece := piece, frm := frm, to := to, isCapture := cap, ksCastle := false, qsCastle := false,
    checkAfter := false, queensW := 1, queensB := 1, rooksW := 2, rooksB := 2, knightsW := 2, knightsB := 2,
    bishopsW := 2, bishopsB := 2, enemyKing := ek }

def demoGame : Game :=
  { result := .whiteWins
    plies := [demoPly WHITE PAWN 12 28 false 60, demoPly BLACK PAWN 51 35 false 4, demoPly WHITE PAWN 28 35 true 60]
    finalWhite := ⟨8, 2, 2, 2, 1⟩, finalBlack := ⟨7, 2, 2, 2, 1⟩ }

example : (match PyStyle.analyse_pgn.job demoGame WHITE PyStyle.Stats.default 0 with
    | .ok (s, c) => c == 1 && s.numGames == 1 && s.numWins == 1 && s.numWinAhead == 1 && s.totalMoves == 2 &&
        s.totalCaptures == 1 && s.totalPawnPushes == 2 && s.shortGames == 1 && s.nonchecks == 2 &&
        s.gameLength.getD 3 0 == 1 && s.finalMaterial.getD 77 0 == 1 && s.captureDistance.getD 3 0 == 1 &&
        (match PyStyle.get_positional_score s true with   -- the real script prints 0.25 here
         | .ok (some q) => q.num * 4 == (q.den : Int)
         | _ => false)
    | .error _ => false) = true := by decide +kernel

example : (match PyStyle.analyse_game demoGame BLACK PyStyle.Stats.default with
    | .ok s => (match PyStyle.main.report s true, PyStyle.get_positional_score s false with
        | .ok (), .ok (some q) => s.numLosses == 1 && q.num * 6 == (q.den : Int)   -- the real script: 0.1666..
        | _, _ => false)
    | .error _ => false) = true := by decide +kernel

end Rawr.PyStyleAgree

#print axioms Rawr.PyStyleAgree.agree_get_material_score
#print axioms Rawr.PyStyleAgree.agree_analyse_game
#print axioms Rawr.PyStyleAgree.agree_analyse_pgn_job
#print axioms Rawr.PyStyleAgree.agree_analyse_pgn
#print axioms Rawr.PyStyleAgree.agree_main_styles
#print axioms Rawr.PyStyleAgree.agree_main_report
