import Rawr.Proofs.RustSessionAgree_Rules
import Rawr.Proofs.BridgeSearch
import Rawr.Props.C03_rules
/-!
# `go` on the positions the properties quantify over

`agree_go` needs (`GoOk`) that the ordering code of the search cannot hit an empty origin square (`OrderOkN`) and that the
moves the driver reports — the principal variation of every iteration and the best move — are between on-board squares
(`Mv::to_uci` panics otherwise).  Both hold for a position in `V ∧ E` with counter room for the search (`VE 1000`) and a
table with bounded scores (`TTBounded`, preserved by the search, true of a new / cleared / resized table):
`orderOkN_of_VE`, and `root_reports_legal` below (every reported move is a generated move of the root position — the
per-iteration version of C03's `rootIter_bestC`).

`agree_go_rules`: **`uci::go::go`** for every command line, with no hypothesis but these two, the iteration bound and —
for `go wtime .. / movetime ..` only — that the model's stop oracle is the one the clock implements.
-/
set_option linter.unusedSimpArgs false
namespace Rawr.Sess
open T Position

/-- every move an iteration reports is a generated move of the root position. -/
theorem rootIter_pvC (lim : Limit) (G : Nat → Position → Prop) (hG : SearchDomC G) (K : Int)
    (hK1 : Gen.MATE_SCORE ≤ K) (hK2 : K ≤ Gen.INF) (fuel : Nat) (p : Position) (hGp : G fuel p)
    (hf : (fuel : Int) ≤ K + Gen.MATE_SCORE) :
    ∀ (k : Nat) (depth : Int) (st : SState) (bestMove : Option Mv) (infos : List InfoRec) (res : RootResult),
      TTIn K st.tt → BestInv p k depth st bestMove → (∀ r ∈ infos, ∀ x ∈ r.pv, x ∈ legalMoves p) →
      rootIter lim fuel p k depth st bestMove infos = some res →
      ∀ r ∈ res.infos, ∀ x ∈ r.pv, x ∈ legalMoves p := by
  have hexit : ∀ (infos : List InfoRec) (res : RootResult), (∀ r ∈ infos, ∀ x ∈ r.pv, x ∈ legalMoves p) →
      res.infos = infos.reverse → ∀ r ∈ res.infos, ∀ x ∈ r.pv, x ∈ legalMoves p := by
    intro infos res hq e r hr
    rw [e] at hr
    exact hq r (by simpa using hr)
  intro k
  induction k with
  | zero =>
    intro depth st bestMove infos res _ _ hq h
    simp only [rootIter, Option.some.injEq] at h
    exact hexit infos res hq (by rw [← h])
  | succ k ih =>
    intro depth st bestMove infos res htt hinv hq h
    have hd1 : 1 ≤ depth := by rcases hinv with ⟨e, _⟩ | ⟨e, _⟩ <;> omega
    rcases rootIter_step h with ⟨_, hres⟩ | ⟨_, score, s1, hnm, hrest⟩
    · exact hexit infos res hq (by rw [hres])
    · obtain ⟨htt1, hroot⟩ := negamax_rootC lim G hG K hK1 hK2 fuel p _ depth score s1 hGp (by exact htt) hd1 hf hnm
      have hbest : (legalMoves p = [] ∧ s1.best = none) ∨ (∃ m ∈ legalMoves p, s1.best = some m) := by
        rcases hroot with ⟨⟨hgt, _⟩, _, e⟩ | ⟨_, hnil, hcons⟩
        · rcases hinv with ⟨e1, _⟩ | ⟨_, m, hm, _, e2⟩
          · have : (1 : Int) < depth := hgt
            omega
          · right; exact ⟨m, hm, by rw [e]; exact e2⟩
        · by_cases hl : legalMoves p = []
          · rcases hinv with ⟨_, _, e1, _⟩ | ⟨_, m, hm, _⟩
            · left; exact ⟨hl, by rw [hnil hl]; exact e1⟩
            · rw [hl] at hm; simp at hm
          · right; exact (hcons hl).2
      rcases hrest with ⟨_, hres⟩ | ⟨m, hm, hrest⟩
      · exact hexit infos res hq (by rw [hres])
      · have hmleg : m ∈ legalMoves p := by
          rcases hbest with ⟨_, e⟩ | ⟨m', hm', e⟩
          · rw [hm] at e; simp at e
          · rw [hm] at e; simp only [Option.some.injEq] at e; rw [e]; exact hm'
        rcases hrest with ⟨_, hres⟩ | ⟨_, hrec⟩
        · exact hexit infos res hq (by rw [hres])
        · refine ih _ _ _ _ _ (by rw [endPoll_tt]; exact htt1) ?_ ?_ hrec
          · right
            exact ⟨by omega, m, hmleg, rfl, by rw [endPoll_best]; exact hm⟩
          · intro r hr
            rcases List.mem_cons.1 hr with rfl | hr
            · intro x hx
              have : x = m := by simpa [mkInfo] using hx
              rw [this]; exact hmleg
            · exact hq r hr

/-- **the moves `root` reports are generated moves of the root position** (`V ∧ E`, counter room, bounded table). -/
theorem root_reports_legal (lim : Limit) (fuel : Nat) (p : Position) (hist : List BB) (tt : Table TTEntry) (res : RootResult)
    (hV : ValidPos p = true) (hE : Spec.EpConsistent (abs p) = true) (htt : TTBounded tt)
    (hf : (fuel : Int) ≤ Gen.INF + Gen.MATE_SCORE)
    (hh : p.halfmoves + fuel + 64 < 2147483648) (hfm : p.fullmoves + fuel + 64 < 2147483648)
    (h : root lim fuel p hist tt = some res) :
    (∀ r ∈ res.infos, ∀ x ∈ r.pv, x ∈ legalMoves p) ∧ (∀ m, res.best = some m → m ∈ legalMoves p) := by
  have hGp : VE fuel p := ⟨hV, hE, hh, hfm⟩
  constructor
  · exact rootIter_pvC lim VE searchDomC_VE Gen.INF MATE_le_INF (Int.le_refl _) fuel p hGp hf
      _ _ _ _ _ _ (by exact htt) (Or.inl ⟨rfl, by decide, rfl, rfl⟩) (by simp) h
  · obtain ⟨h1, h2⟩ := rootIter_bestC lim VE searchDomC_VE Gen.INF MATE_le_INF (Int.le_refl _) fuel p hGp hf
      _ _ _ _ _ _ (by exact htt) (Or.inl ⟨rfl, by decide, rfl, rfl⟩) h
    intro m hm
    by_cases hl : legalMoves p = []
    · rw [h2 hl] at hm; cases hm
    · obtain ⟨m', hm', e⟩ := h1 hl
      rw [e] at hm; injection hm with hm; rw [← hm]; exact hm'

/-- the oracle condition of `GoOk`: only the time controls constrain the model's stop oracle. -/
def OracleOk (clk : Nat → Nat) (o : Nat → Bool) (p : Position) : T.GoType → Prop
  | .time w b _ _ mtg => o = fun k => decide (clk k / 1000000 ≥ (if !p.black then w else b) / max (mtg.getD 30) 1)
  | .movetime t => o = fun k => decide (clk k / 1000000 ≥ t)
  | _ => True

theorem goOk_rules (fuel : Nat) (clk : Nat → Nat) (o : Nat → Bool) (s : UState) (u : T.GoType)
    (hV : ValidPos s.pos = true) (hE : Spec.EpConsistent (abs s.pos) = true) (htt : TTBounded s.tt)
    (hh : s.pos.halfmoves + 1000 + 64 < 2147483648) (hfm : s.pos.fullmoves + 1000 + 64 < 2147483648)
    (hfuel : 256 ≤ fuel) (hd : ∀ d, u = .perft d ∨ u = .splitPerft d → d < 256) (ho : OracleOk clk o s.pos u) :
    GoOk fuel clk o s u := by
  have hB := movesOnBoard_of_valid hV
  have search : ∀ lim, toLimit (fun k => clk k / 1000000) s.pos (T.toSettings u) = some lim → goLimit o (goToModel u) = some lim →
      OrderOkN 1000 s.pos ∧ toLimit (fun k => clk k / 1000000) s.pos (T.toSettings u) = goLimit o (goToModel u) ∧
      ∀ lim res, goLimit o (goToModel u) = some lim → root lim 1000 s.pos s.hist s.tt = some res → ResOnBoard res := by
    intro lim h1 h2
    refine ⟨orderOkN_of_VE 1000 s.pos ⟨hV, hE, hh, hfm⟩, h1.trans h2.symm, ?_⟩
    intro lim' res _ hres
    obtain ⟨hp, hb⟩ := root_reports_legal lim' 1000 s.pos s.hist s.tt res hV hE htt (by decide) hh hfm hres
    exact ⟨fun r hr m hm => hB m (hp r hr m hm), fun m hm => hB m (hb m hm)⟩
  cases u with
  | perft d => have := hd d (Or.inl rfl); show d < fuel; omega
  | splitPerft d => have := hd d (Or.inr rfl); exact ⟨by omega, hB⟩
  | time w b wi bi m =>
    have ho' : o = fun k => decide (clk k / 1000000 ≥ (if !s.pos.black then w else b) / max (m.getD 30) 1) := ho
    exact search _ rfl (by rw [ho']; rfl)
  | movetime t =>
    have ho' : o = fun k => decide (clk k / 1000000 ≥ t) := ho
    exact search _ rfl (by rw [ho']; rfl)
  | depth d => exact search _ rfl rfl
  | nodes n => exact search _ rfl rfl
  | infinite => exact search _ rfl rfl

theorem parseUnsigned_lt (b : Nat) (s : List Char) (n : Nat) (h : parseUnsigned b s = some n) : n < b := by
  unfold parseUnsigned at h
  simp only [] at h
  generalize (parseUnsigned.match_1 (fun _ => List Char) s (fun r => r) (fun r => r)) = ds at h
  by_cases c : (ds.isEmpty || !ds.all fun c => decide ('0' ≤ c) && decide (c ≤ '9')) = true
  · rw [if_pos c] at h; cases h
  · rw [if_neg c] at h
    by_cases c2 : List.foldl (fun a c => a * 10 + (c.toNat - '0'.toNat)) 0 ds < b
    · rw [if_pos c2] at h; injection h with h; omega
    · rw [if_neg c2] at h; cases h

theorem ite_some {α : Type} {c : Bool} {x y : Option α} {a : α} (h : (if c = true then x else y) = some a) :
    (c = true ∧ x = some a) ∨ (c = false ∧ y = some a) := by
  cases c
  · right; exact ⟨rfl, by simpa using h⟩
  · left; exact ⟨rfl, by simpa using h⟩

theorem parseGoLoop_small : ∀ (fuel : Nat) (toks : List (List Char)) (a a' : GoArgs),
    ((∀ d, a.perft = some d → d < 256) ∧ (∀ d, a.split = some d → d < 256)) → parseGoLoop fuel toks a = some a' →
    (∀ d, a'.perft = some d → d < 256) ∧ (∀ d, a'.split = some d → d < 256) := by
  intro fuel
  induction fuel with
  | zero => intro toks a a' hinv h; simp only [parseGoLoop, Option.some.injEq] at h; rw [← h]; exact hinv
  | succ fuel ih =>
    intro toks a a' hinv h
    rw [parseGoLoop] at h
    rcases ite_some h with ⟨_, h1⟩ | ⟨_, h⟩
    · refine ih _ _ _ ?_ h1; exact ⟨fun d hd => hinv.1 d hd, fun d hd => hinv.2 d hd⟩
    rcases ite_some h with ⟨_, h1⟩ | ⟨_, h⟩
    · refine ih _ _ _ ?_ h1; exact ⟨fun d hd => hinv.1 d hd, fun d hd => hinv.2 d hd⟩
    rcases ite_some h with ⟨_, h1⟩ | ⟨_, h⟩
    · refine ih _ _ _ ?_ h1; exact ⟨fun d hd => hinv.1 d hd, fun d hd => hinv.2 d hd⟩
    rcases ite_some h with ⟨_, h1⟩ | ⟨_, h⟩
    · refine ih _ _ _ ?_ h1; exact ⟨fun d hd => hinv.1 d hd, fun d hd => hinv.2 d hd⟩
    rcases ite_some h with ⟨_, h1⟩ | ⟨_, h⟩
    · refine ih _ _ _ ?_ h1; exact ⟨fun d hd => hinv.1 d hd, fun d hd => hinv.2 d hd⟩
    rcases ite_some h with ⟨_, h1⟩ | ⟨_, h⟩
    · refine ih _ _ _ ?_ h1; exact ⟨fun d hd => hinv.1 d hd, fun d hd => hinv.2 d hd⟩
    rcases ite_some h with ⟨_, h1⟩ | ⟨_, h⟩
    · refine ih _ _ _ ?_ h1; exact ⟨fun d hd => hinv.1 d hd, fun d hd => hinv.2 d hd⟩
    rcases ite_some h with ⟨_, h1⟩ | ⟨_, h⟩
    · refine ih _ _ _ ?_ h1; exact ⟨fun d hd => hinv.1 d hd, fun d hd => hinv.2 d hd⟩
    rcases ite_some h with ⟨_, h1⟩ | ⟨_, h⟩
    · refine ih _ _ _ ?_ h1; exact ⟨fun d hd => hinv.1 d hd, fun d hd => hinv.2 d hd⟩
    rcases ite_some h with ⟨_, h1⟩ | ⟨_, h⟩
    · refine ih _ _ _ ?_ h1; exact ⟨fun d hd => parseUnsigned_lt _ _ _ hd, fun d hd => hinv.2 d hd⟩
    rcases ite_some h with ⟨_, h1⟩ | ⟨_, h⟩
    · refine ih _ _ _ ?_ h1; exact ⟨fun d hd => hinv.1 d hd, fun d hd => parseUnsigned_lt _ _ _ hd⟩
    rcases ite_some h with ⟨_, h1⟩ | ⟨_, h⟩
    · simp only [Option.some.injEq] at h1; rw [← h1]; exact hinv
    · cases h

theorem parseGo_small (toks : List (List Char)) (d : Nat) (h : parseGo toks = some (.perft d) ∨ parseGo toks = some (.split d)) :
    d < 256 := by
  rw [parseGo_eq] at h
  cases hl : parseGoLoop (toks.length + 1) toks {} with
  | none => rw [hl] at h; rcases h with h | h <;> cases h
  | some a =>
    have hs := parseGoLoop_small _ _ _ a ⟨fun d hd => (by cases hd), fun d hd => (by cases hd)⟩ hl
    rw [hl] at h
    simp only [goSelect] at h
    rcases h with h | h
    · split at h <;> simp only [Option.some.injEq, reduceCtorEq, GoKind.perft.injEq] at h
      subst h
      exact hs.1 _ (by assumption)
    · split at h <;> simp only [Option.some.injEq, reduceCtorEq, GoKind.split.injEq] at h
      subst h
      exact hs.2 _ (by assumption)

/-- **`uci::go::go`** on a valid position (`V ∧ E`, room for 1000 + 64 plies in the counters) with a bounded table. -/
theorem _root_.Rawr.agree_go_rules (fuel : Nat) (ar : Arith) (clk : Nat → Nat) (o : Nat → Bool) (s : UState) (toks : List (List Char))
    (hfuel : toks.length + 1 ≤ fuel) (hfuel2 : 256 ≤ fuel)
    (hV : ValidPos s.pos = true) (hE : Spec.EpConsistent (abs s.pos) = true) (htt : TTBounded s.tt)
    (hh : s.pos.halfmoves + 1000 + 64 < 2147483648) (hfm : s.pos.fullmoves + 1000 + 64 < 2147483648)
    (ho : ∀ u st, R.parse_go fuel toks = some (some u, st) → OracleOk clk o s.pos u) :
    GoRel s (doGo ar o s toks) (R.go fuel ar 1000 clk toks s.pos s.hist.reverse s.tt) := by
  refine agree_go fuel ar clk o s toks hfuel (fun u st hp =>
    goOk_rules fuel clk o s u hV hE htt hh hfm hfuel2 (fun d hd' => ?_) (ho u st hp))
  have hpg := agree_parse_go fuel toks hfuel
  rw [hp] at hpg
  simp only [Option.map_some, Option.some.injEq] at hpg
  apply parseGo_small toks d
  rcases hd' with rfl | rfl
  · left; exact hpg.symm
  · right; exact hpg.symm

/-! ## non-vacuity: a session with a search -/
theorem ttBounded_fresh (mb : Nat) : TTBounded ((Table.new 0 Gen.ttEntrySize : Table TTEntry).resize mb Gen.ttEntrySize) := by
  have h0 : (Table.new 0 Gen.ttEntrySize : Table TTEntry) = ⟨#[]⟩ := by
    unfold Table.new Table.resize Table.numEntries; simp
  rw [h0]
  unfold Table.resize
  simp only [Array.size_empty, Nat.le_zero_eq, Nat.sub_zero, Array.empty_append]
  split
  · rename_i h; rw [h]; exact TTIn.replicate (by decide) 0
  · exact TTIn.replicate (by decide) _

/-- `isready`, `go depth 1`, `quit`: the side conditions of `agree_listen` hold (for every clock and oracle), so the
canonical transcript of the regenerated listen.rs — banner, `readyok`, the `info` line with `time ?`, `bestmove ..` — is the
model's. -/
example (ar : Arith) (clk : Nat → Nat) (o : Nat → Bool) :
    (R.listen 300 ar 1000 clk none ["isready".toList, "go depth 1".toList, "quit".toList]).map (fun r => transcript r.2) =
      listen ar o ["isready".toList, "go depth 1".toList, "quit".toList] := by
  apply agree_listen VE (fun _ _ h => movesOnBoard_of_valid h.1) VE_mono
    (fun n q m q' hq hm hk => searchDomC_VE.move n q m q' hq hm hk) 300 ar clk o none _ (by decide) (by decide)
  intro pos s got rest hsf hfl
  rw [setFen_startpos] at hsf
  injection hsf with hsf
  subst hsf
  have hf : firstLoop ["isready".toList, "go depth 1".toList, "quit".toList]
      { hashMb := 16, frc := false, pos := Gen.startpos, hist := [Gen.startpos.hash], tt := Table.new 0 Gen.ttEntrySize } =
      some ({ hashMb := 16, frc := false, pos := Gen.startpos, hist := [Gen.startpos.hash], tt := Table.new 0 Gen.ttEntrySize },
        true, ["go depth 1".toList, "quit".toList]) := by
    simp only [firstLoop]
    rfl
  rw [hf] at hfl
  simp only [Option.some.injEq, Prod.mk.injEq] at hfl
  obtain ⟨rfl, rfl, rfl⟩ := hfl
  have hcmd : (splitWs "go depth 1".toList).headD [] = str "go" := by decide
  refine ⟨⟨fun _ => ⟨by decide, fun u st hp => ?_⟩, fun e => ?_, fun e => ?_, fun e => ?_⟩, ?_⟩
  · have hVE := startpos_VE
    refine goOk_rules 300 clk o _ u hVE.1 hVE.2.1 (ttBounded_fresh 16) hVE.2.2.1 hVE.2.2.2 (by decide) (fun d hd => ?_) ?_
    · have hpg := agree_parse_go 300 ((splitWs "go depth 1".toList).drop 1) (by decide)
      rw [hp] at hpg
      simp only [Option.map_some, Option.some.injEq] at hpg
      apply parseGo_small ((splitWs "go depth 1".toList).drop 1) d
      rcases hd with rfl | rfl
      · left; exact hpg.symm
      · right; exact hpg.symm
    · have hpg := agree_parse_go 300 ((splitWs "go depth 1".toList).drop 1) (by decide)
      rw [hp] at hpg
      simp only [Option.map_some, Option.some.injEq] at hpg
      have : parseGo ((splitWs "go depth 1".toList).drop 1) = some (.depth 1) := by rfl
      rw [this] at hpg
      cases u <;> simp only [goToModel, Option.some.injEq, reduceCtorEq] at hpg <;> trivial
  · rw [hcmd] at e; exact absurd e (by decide)
  · rw [hcmd] at e; exact absurd e (by decide)
  · rw [hcmd] at e; rcases e with e | e | e <;> exact absurd e (by decide)
  · intro s' L _
    have hq : (splitWs "quit".toList).headD [] = str "quit" := by decide
    refine ⟨⟨fun e => ?_, fun e => ?_, fun e => ?_, fun e => ?_⟩, fun _ _ _ => trivial⟩
    · rw [hq] at e; exact absurd e (by decide)
    · rw [hq] at e; exact absurd e (by decide)
    · rw [hq] at e; exact absurd e (by decide)
    · rw [hq] at e; rcases e with e | e | e <;> exact absurd e (by decide)

end Rawr.Sess

#print axioms Rawr.agree_go_rules
