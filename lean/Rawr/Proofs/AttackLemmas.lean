import Rawr.Proofs.SpecMirror
import Rawr.Model.Attacks
import Rawr.Proofs.HashSpec
/-!
# L4: the attack queries of attacks.rs against `Spec.attackedBy`, frame-free part

A board `B` and a colour `w` are *represented* by six bitboards (the pieces of colour `w`, by kind) and
an occupancy bitboard. Under that hypothesis every test of `attacks.rs` is the corresponding disjunct
of `Spec.attackedBy B w`.
-/
namespace Rawr.Att
open Spec

/-- `X` is the set of squares of the board holding exactly the piece `pc`. -/
def Holds (B : Board) (pc : Piece) (X : BB) : Prop := ∀ s, s < 64 → X.getLsbD s = decide (B s = some pc)

structure Rep (B : Board) (w : Bool) (P N Bi R Q K : BB) : Prop where
  pawn : Holds B ⟨w, .pawn⟩ P
  knight : Holds B ⟨w, .knight⟩ N
  bishop : Holds B ⟨w, .bishop⟩ Bi
  rook : Holds B ⟨w, .rook⟩ R
  queen : Holds B ⟨w, .queen⟩ Q
  king : Holds B ⟨w, .king⟩ K

def OccRep (B : Board) (occ : BB) : Prop := ∀ x, x < 64 → occ.getLsbD x = (B x).isSome

/-- `∃ s ∈ X, f s`. -/
def anyS (X : BB) (f : Nat → Bool) : Bool := (List.range 64).any fun s => X.getLsbD s && f s

theorem any_or {α : Type} (l : List α) (p q : α → Bool) :
    l.any (fun x => p x || q x) = (l.any p || l.any q) := by
  induction l with
  | nil => rfl
  | cons x xs ih =>
    simp only [List.any_cons, ih]
    cases p x <;> cases q x <;> cases xs.any p <;> cases xs.any q <;> rfl

theorem anyS_or (X Y : BB) (f : Nat → Bool) : anyS (X ||| Y) f = (anyS X f || anyS Y f) := by
  unfold anyS
  rw [← any_or]
  congr 1; funext s
  rw [BitVec.getLsbD_or]; cases X.getLsbD s <;> cases Y.getLsbD s <;> cases f s <;> rfl

theorem anyS_congr {X : BB} {f g : Nat → Bool} (h : ∀ s, s < 64 → X.getLsbD s = true → f s = g s) :
    anyS X f = anyS X g := by
  unfold anyS
  apply any_range_congr
  intro s hs
  cases hX : X.getLsbD s
  · rfl
  · rw [h s hs hX]

theorem anyS_iff (X : BB) (f : Nat → Bool) :
    anyS X f = true ↔ ∃ s, s < 64 ∧ X.getLsbD s = true ∧ f s = true := by
  simp only [anyS, List.any_eq_true, List.mem_range, Bool.and_eq_true]

theorem queen_split (a b c d e : Bool) :
    (a && (b || c || d) && e) = ((a && b && e) || (a && (c || d) && e)) := by
  cases a <;> cases b <;> cases c <;> cases d <;> cases e <;> rfl

/-- one square's contribution to `Spec.attackedBy`. -/
theorem attack_cell {B : Board} {w : Bool} {P N Bi R Q K : BB} (h : Rep B w P N Bi R Q K)
    (s : Nat) (hs : s < 64) (t : Nat) :
    (match B s with
      | some pc => pc.white == w && pieceAttacks B s pc t
      | none => false) =
    ((P.getLsbD s && pawnStep w s t) || (N.getLsbD s && knightStep s t) ||
     ((Bi ||| Q).getLsbD s && diagAtt B s t) || ((R ||| Q).getLsbD s && orthAtt B s t) ||
     (K.getLsbD s && kingStep s t)) := by
  rw [BitVec.getLsbD_or, BitVec.getLsbD_or, h.pawn s hs, h.knight s hs, h.bishop s hs, h.rook s hs,
    h.queen s hs, h.king s hs]
  cases hB : B s with
  | none => simp
  | some pc =>
    obtain ⟨w', kd⟩ := pc
    by_cases hw : w' = w
    · subst hw
      cases kd <;>
        simp only [pieceAttacks, pawnStep, knightStep, kingStep, diagAtt, orthAtt, queen_split] <;> simp
    · have : (w' == w) = false := by simpa using hw
      cases kd <;> simp [hw, this]

theorem attackedBy_decomp {B : Board} {w : Bool} {P N Bi R Q K : BB} (h : Rep B w P N Bi R Q K)
    (t : Nat) :
    attackedBy B w t =
      (anyS P (fun s => pawnStep w s t) || anyS N (fun s => knightStep s t) ||
       anyS (Bi ||| Q) (fun s => diagAtt B s t) || anyS (R ||| Q) (fun s => orthAtt B s t) ||
       anyS K (fun s => kingStep s t)) := by
  unfold attackedBy anyS squares
  simp only [← any_or]
  apply any_range_congr
  intro s hs
  exact attack_cell h s hs t



/-! ### the bitboard tests as `anyS` -/

theorem isOcc_iff (X : BB) : X.isOcc = true ↔ ∃ s, s < 64 ∧ X.getLsbD s = true := by
  unfold BB.isOcc
  simp only [bne_iff_ne, ne_eq]
  constructor
  · intro h
    apply Classical.byContradiction
    intro hn
    apply h
    apply BitVec.eq_of_getLsbD_eq
    intro i hi
    rw [BitVec.getLsbD_zero]
    cases hX : X.getLsbD i
    · rfl
    · exact absurd ⟨i, hi, hX⟩ hn
  · rintro ⟨s, _, hX⟩ h0
    rw [h0, BitVec.getLsbD_zero] at hX
    exact absurd hX (by decide)

theorem isOcc_and (A X : BB) : (A &&& X).isOcc = anyS X A.getLsbD := by
  rw [Bool.eq_iff_iff, isOcc_iff, anyS_iff]
  simp only [BitVec.getLsbD_and, Bool.and_eq_true]
  constructor
  · rintro ⟨s, h1, h2, h3⟩; exact ⟨s, h1, h3, h2⟩
  · rintro ⟨s, h1, h2, h3⟩; exact ⟨s, h1, h3, h2⟩

theorem knightStep_symm (s t : Nat) : knightStep s t = knightStep t s := by
  have e1 : (file t - file s).natAbs = (file s - file t).natAbs := by omega
  have e2 : (rank t - rank s).natAbs = (rank s - rank t).natAbs := by omega
  simp only [knightStep, e1, e2]
theorem kingStep_symm (s t : Nat) : kingStep s t = kingStep t s := by
  have e1 : (file t - file s).natAbs = (file s - file t).natAbs := by omega
  have e2 : (rank t - rank s).natAbs = (rank s - rank t).natAbs := by omega
  simp only [kingStep, e1, e2]
theorem pawnStep_symm (w : Bool) (s t : Nat) : pawnStep w s t = pawnStep (!w) t s := by
  have e1 : (file t - file s).natAbs = (file s - file t).natAbs := by omega
  have e2 : (rank t - rank s == (if w then 1 else -1)) = (rank s - rank t == (if !w then 1 else -1)) := by
    rw [Bool.eq_iff_iff]; cases w <;> simp <;> omega
  simp only [pawnStep, e1, e2]

theorem pawn_test (w : Bool) (P : BB) (t : Nat) (ht : t < 64) :
    (pawnsAtt w P).isSet t = anyS P (fun s => pawnStep w s t) := by
  unfold BB.isSet anyS
  rw [C10_pawnsAtt]; simp [ht]

theorem knight_test (N : BB) (t : Nat) (ht : t < 64) :
    (knights (bit t) &&& N).isOcc = anyS N (fun s => knightStep s t) := by
  rw [isOcc_and]
  apply anyS_congr
  intro s hs _
  rw [(C10_leapers_bit t ht).1, getLsbD_geomBB, knightStep_symm]; simp [hs]

theorem knight_set_test (N : BB) (t : Nat) (ht : t < 64) :
    (knights N).isSet t = anyS N (fun s => knightStep s t) := by
  unfold BB.isSet anyS
  rw [C10_knights]; simp [ht]

theorem king_test (K : BB) (t : Nat) (ht : t < 64) :
    (adjacent (bit t) &&& K).isOcc = anyS K (fun s => kingStep s t) := by
  rw [isOcc_and]
  apply anyS_congr
  intro s hs _
  rw [(C10_leapers_bit t ht).2.1, getLsbD_geomBB, kingStep_symm]; simp [hs]

theorem king_set_test (K : BB) (t : Nat) (ht : t < 64) :
    (adjacent K).isSet t = anyS K (fun s => kingStep s t) := by
  unfold BB.isSet anyS
  rw [C10_adjacent]; simp [ht]

theorem bishop_test {B : Board} {occ : BB} (ho : OccRep B occ) (X : BB) (t : Nat) (ht : t < 64) :
    (bishopMoves t occ &&& X).isOcc = anyS X (fun s => diagAtt B s t) := by
  rw [isOcc_and]
  apply anyS_congr
  intro s hs _
  rw [C10_bishop_mem t ht, walkSet4_diag B _ ho t s ht hs, diagAtt_symm]; simp [hs]

theorem rook_test {B : Board} {occ : BB} (ho : OccRep B occ) (X : BB) (t : Nat) (ht : t < 64) :
    (rookMoves t occ &&& X).isOcc = anyS X (fun s => orthAtt B s t) := by
  rw [isOcc_and]
  apply anyS_congr
  intro s hs _
  rw [C10_rook_mem t ht, walkSet4_orth B _ ho t s ht hs, orthAtt_symm]; simp [hs]

/-- `attacks::is_safe` for a represented board. -/
theorem isSafe_rep {B : Board} {occ P N Bi R Q K : BB} (h : Rep B false P N Bi R Q K)
    (ho : OccRep B occ) (t : Nat) (ht : t < 64) :
    isSafe t occ P N Bi R Q K = !attackedBy B false t := by
  unfold isSafe
  dsimp only
  rw [attackedBy_decomp h, pawn_test false P t ht, knight_test N t ht, bishop_test ho _ t ht,
    rook_test ho _ t ht, king_test K t ht]
  cases anyS P _ <;> cases anyS N _ <;> cases anyS (Bi ||| Q) _ <;> cases anyS (R ||| Q) _ <;>
    cases anyS K _ <;> rfl



/-! ### the mover-relative board of a position and its representation -/

/-- the board in the mover's frame: the mover's pieces are "white" and play up the board. -/
def relBoard (p : Position) : Board := absBoard { p with black := false }

theorem relBoard_eq (p : Position) (s : Nat) (hs : s < 64) :
    relBoard p s = ZH.cellPiece false (p.c0.getLsbD s) (p.c1.getLsbD s) (p.p0.getLsbD s)
      (p.p1.getLsbD s) (p.p2.getLsbD s) (p.p3.getLsbD s) (p.p4.getLsbD s) (p.p5.getLsbD s) := by
  unfold relBoard
  rw [ZH.absBoard_eq _ s hs]
  rfl

theorem relBoard_ge (p : Position) (s : Nat) (hs : 64 ≤ s) : relBoard p s = none := by
  unfold relBoard absBoard
  simp [Nat.not_lt.mpr hs]

/-- what the eight bits of a consistent cell say about the piece on it. -/
def CellFacts (c : Option Piece) (u v q0 q1 q2 q3 q4 q5 : Bool) : Prop :=
    ((u && q0) = decide (c = some ⟨true, .pawn⟩) ∧
     (u && q1) = decide (c = some ⟨true, .knight⟩) ∧
     (u && q2) = decide (c = some ⟨true, .bishop⟩) ∧
     (u && q3) = decide (c = some ⟨true, .rook⟩) ∧
     (u && q4) = decide (c = some ⟨true, .queen⟩) ∧
     (u && q5) = decide (c = some ⟨true, .king⟩)) ∧
    ((v && q0) = decide (c = some ⟨false, .pawn⟩) ∧
     (v && q1) = decide (c = some ⟨false, .knight⟩) ∧
     (v && q2) = decide (c = some ⟨false, .bishop⟩) ∧
     (v && q3) = decide (c = some ⟨false, .rook⟩) ∧
     (v && q4) = decide (c = some ⟨false, .queen⟩) ∧
     (v && q5) = decide (c = some ⟨false, .king⟩)) ∧
    (u || v) = c.isSome

theorem cell_facts (u v q0 q1 q2 q3 q4 q5 : Bool) (h : ZH.cellOk u v q0 q1 q2 q3 q4 q5 = true) :
    CellFacts (ZH.cellPiece false u v q0 q1 q2 q3 q4 q5) u v q0 q1 q2 q3 q4 q5 := by
  revert h
  unfold CellFacts
  cases u <;> cases v <;> cases q0 <;> cases q1 <;> cases q2 <;> cases q3 <;> cases q4 <;> cases q5 <;>
    decide

theorem rel_facts {p : Position} (h : Consistent p = true) (s : Nat) (hs : s < 64) :
    CellFacts (relBoard p s) (p.c0.getLsbD s) (p.c1.getLsbD s) (p.p0.getLsbD s)
      (p.p1.getLsbD s) (p.p2.getLsbD s) (p.p3.getLsbD s) (p.p4.getLsbD s) (p.p5.getLsbD s) := by
  rw [relBoard_eq p s hs]
  exact cell_facts _ _ _ _ _ _ _ _ (ZH.cellOk_of_consistent h s)

/-- the mover's pieces are the "white" pieces of the relative board. -/
theorem rep_us {p : Position} (h : Consistent p = true) :
    Rep (relBoard p) true (p.c0 &&& p.p0) (p.c0 &&& p.p1) (p.c0 &&& p.p2) (p.c0 &&& p.p3)
      (p.c0 &&& p.p4) (p.c0 &&& p.p5) := by
  constructor <;> intro s hs <;> rw [BitVec.getLsbD_and]
  · exact (rel_facts h s hs).1.1
  · exact (rel_facts h s hs).1.2.1
  · exact (rel_facts h s hs).1.2.2.1
  · exact (rel_facts h s hs).1.2.2.2.1
  · exact (rel_facts h s hs).1.2.2.2.2.1
  · exact (rel_facts h s hs).1.2.2.2.2.2

theorem rep_them {p : Position} (h : Consistent p = true) :
    Rep (relBoard p) false (p.c1 &&& p.p0) (p.c1 &&& p.p1) (p.c1 &&& p.p2) (p.c1 &&& p.p3)
      (p.c1 &&& p.p4) (p.c1 &&& p.p5) := by
  constructor <;> intro s hs <;> rw [BitVec.getLsbD_and]
  · exact (rel_facts h s hs).2.1.1
  · exact (rel_facts h s hs).2.1.2.1
  · exact (rel_facts h s hs).2.1.2.2.1
  · exact (rel_facts h s hs).2.1.2.2.2.1
  · exact (rel_facts h s hs).2.1.2.2.2.2.1
  · exact (rel_facts h s hs).2.1.2.2.2.2.2

theorem occRep_rel {p : Position} (h : Consistent p = true) : OccRep (relBoard p) p.occ := by
  intro s hs
  unfold Position.occ
  rw [BitVec.getLsbD_or]
  exact (rel_facts h s hs).2.2



/-! ### `lsb` of a set with at most one member -/

theorem mem_toList (X : BB) (s : Nat) : s ∈ toList X ↔ s < 64 ∧ X.getLsbD s = true := by
  unfold toList; rw [List.mem_filter, List.mem_range]

theorem bit_64 : bit 64 = 0#64 := by decide

theorem bit_lsb_of_count_le_one (K : BB) (h : count K ≤ 1) : bit (lsb K) = K := by
  unfold count at h
  unfold lsb
  match hl : toList K, h with
  | [], _ =>
    simp only [List.head?_nil, Option.getD_none, bit_64]
    apply BitVec.eq_of_getLsbD_eq
    intro i hi
    rw [BitVec.getLsbD_zero]
    cases hK : K.getLsbD i
    · rfl
    · have := (mem_toList K i).mpr ⟨hi, hK⟩
      rw [hl] at this; exact absurd this List.not_mem_nil
  | [a], _ =>
    simp only [List.head?_cons, Option.getD_some]
    have ha := (mem_toList K a).mp (by rw [hl]; exact List.mem_singleton_self a)
    apply BitVec.eq_of_getLsbD_eq
    intro i hi
    rw [getLsbD_bit]
    by_cases e : i = a
    · subst e; simp [hi, ha.2]
    · cases hK : K.getLsbD i
      · simp [e]
      · have := (mem_toList K i).mpr ⟨hi, hK⟩
        rw [hl, List.mem_singleton] at this; exact absurd this e
  | _ :: _ :: _, h => simp at h

theorem toList_of_count_one (K : BB) (h : count K = 1) : toList K = [lsb K] ∧ lsb K < 64 := by
  unfold count at h
  unfold lsb
  match hl : toList K, h with
  | [a], _ =>
    have ha := (mem_toList K a).mp (by rw [hl]; exact List.mem_singleton_self a)
    exact ⟨rfl, ha.1⟩

/-! ### the attack queries in the mover's frame -/

theorem rep_side {p : Position} (h : Consistent p = true) (them : Bool) :
    Rep (relBoard p) (!them) (p.side them &&& p.p0) (p.side them &&& p.p1) (p.side them &&& p.p2)
      (p.side them &&& p.p3) (p.side them &&& p.p4) (p.side them &&& p.p5) := by
  cases them
  · exact rep_us h
  · exact rep_them h

/-- `attackedBy` of the relative board, as the five tests on bitboards, for either side. -/
theorem attackedBy_rel {p : Position} (h : Consistent p = true) (them : Bool) (t : Nat) :
    attackedBy (relBoard p) (!them) t =
      (anyS (p.side them &&& p.p0) (fun s => pawnStep (!them) s t) ||
       anyS (p.side them &&& p.p1) (fun s => knightStep s t) ||
       anyS (p.side them &&& p.p2 ||| p.side them &&& p.p4) (fun s => diagAtt (relBoard p) s t) ||
       anyS (p.side them &&& p.p3 ||| p.side them &&& p.p4) (fun s => orthAtt (relBoard p) s t) ||
       anyS (p.side them &&& p.p5) (fun s => kingStep s t)) :=
  attackedBy_decomp (rep_side h them) t

theorem isSqAttacked_rel {p : Position} (h : Consistent p = true) (sq : Nat) (hsq : sq < 64)
    (them : Bool) (hk : count (p.p5 &&& p.side them) ≤ 1) :
    p.isSqAttacked sq them = attackedBy (relBoard p) (!them) sq := by
  have ho := occRep_rel h
  rw [attackedBy_rel h]
  unfold Position.isSqAttacked
  dsimp only
  rw [bit_lsb_of_count_le_one _ hk, king_set_test _ sq hsq, BitVec.and_comm p.p5,
    ← bishop_test ho _ sq hsq, ← rook_test ho _ sq hsq, ← knight_test _ sq hsq,
    ← BitVec.and_or_distrib_left, ← BitVec.and_or_distrib_left,
    BitVec.and_assoc, BitVec.and_comm p.p1, BitVec.and_comm p.p0]
  cases them
  · rw [pawn_test true _ sq hsq]
    simp only [Bool.not_false, Bool.true_and, Bool.false_and, Bool.false_eq_true, if_false]
    cases anyS _ _ <;> cases (_ : BB).isOcc <;> cases (_ : BB).isOcc <;> cases (_ : BB).isOcc <;>
      cases anyS _ _ <;> rfl
  · rw [pawn_test false _ sq hsq]
    simp only [Bool.not_true, Bool.true_and, Bool.false_and, Bool.false_eq_true, if_false]
    cases anyS _ _ <;> cases (_ : BB).isOcc <;> cases (_ : BB).isOcc <;> cases (_ : BB).isOcc <;>
      cases anyS _ _ <;> rfl



theorem anyS_or_fun (X : BB) (f g : Nat → Bool) :
    anyS X (fun s => f s || g s) = (anyS X f || anyS X g) := by
  unfold anyS
  rw [← any_or]
  congr 1; funext s
  dsimp only
  cases X.getLsbD s <;> cases f s <;> cases g s <;> rfl

theorem anyS_swap (X Y : BB) (f : Nat → Nat → Bool) :
    anyS X (fun s => anyS Y (fun u => f s u)) = anyS Y (fun u => anyS X (fun s => f s u)) := by
  rw [Bool.eq_iff_iff, anyS_iff, anyS_iff]
  simp only [anyS_iff]
  constructor
  · rintro ⟨s, h1, h2, u, h3, h4, h5⟩; exact ⟨u, h3, h4, s, h1, h2, h5⟩
  · rintro ⟨s, h1, h2, u, h3, h4, h5⟩; exact ⟨u, h3, h4, s, h1, h2, h5⟩

theorem toList_any (X : BB) (f : Nat → Bool) : (toList X).any f = anyS X f := by
  unfold toList anyS
  rw [List.any_filter]

/-- `(F(P) &&& bb).isOcc` for a set-valued leaper map given pointwise. -/
theorem set_test {A bb : BB} {g : Nat → Bool} (hA : ∀ t, t < 64 → A.getLsbD t = g t) :
    (A &&& bb).isOcc = anyS bb g := by
  rw [isOcc_and]
  exact anyS_congr fun s hs _ => hA s hs

theorem isBbAttacked_rel {p : Position} (h : Consistent p = true) (bb : BB) (them : Bool) :
    p.isBbAttacked bb them = (toList bb).any (fun s => attackedBy (relBoard p) (!them) s) := by
  have ho := occRep_rel h
  rw [toList_any]
  simp only [attackedBy_rel h, anyS_or_fun]
  unfold Position.isBbAttacked
  dsimp only
  rw [toList_any, anyS_or_fun]
  have eB : anyS bb (fun sq => (bishopMoves sq p.occ &&& (p.side them &&& (p.p2 ||| p.p4))).isOcc)
      = anyS bb (fun t => anyS (p.side them &&& p.p2 ||| p.side them &&& p.p4)
          (fun s => diagAtt (relBoard p) s t)) :=
    anyS_congr fun t ht _ => by rw [BitVec.and_or_distrib_left, bishop_test ho _ t ht]
  have eR : anyS bb (fun sq => (rookMoves sq p.occ &&& (p.side them &&& (p.p3 ||| p.p4))).isOcc)
      = anyS bb (fun t => anyS (p.side them &&& p.p3 ||| p.side them &&& p.p4)
          (fun s => orthAtt (relBoard p) s t)) :=
    anyS_congr fun t ht _ => by rw [BitVec.and_or_distrib_left, rook_test ho _ t ht]
  have eN : (knights bb &&& p.p1 &&& p.side them).isOcc
      = anyS bb (fun t => anyS (p.side them &&& p.p1) (fun s => knightStep s t)) := by
    rw [BitVec.and_assoc, BitVec.and_comm p.p1, isOcc_and, anyS_swap]
    apply anyS_congr
    intro s hs _
    rw [C10_knights]
    simp only [hs, decide_true, Bool.true_and, knightStep_symm s]
    rfl
  have eK : (adjacent bb &&& p.p5 &&& p.side them).isOcc
      = anyS bb (fun t => anyS (p.side them &&& p.p5) (fun s => kingStep s t)) := by
    rw [BitVec.and_assoc, BitVec.and_comm p.p5, isOcc_and, anyS_swap]
    apply anyS_congr
    intro s hs _
    rw [C10_adjacent]
    simp only [hs, decide_true, Bool.true_and, kingStep_symm s]
    rfl
  rw [eB, eR, eN, eK]
  cases them
  · have eP : (pawnsAtt true (p.p0 &&& p.c0) &&& bb).isOcc
        = anyS bb (fun t => anyS (p.side false &&& p.p0) (fun s => pawnStep (!false) s t)) :=
      set_test fun t ht => by rw [BitVec.and_comm]; exact pawn_test true _ t ht
    rw [eP]
    simp only [Bool.not_false, Bool.true_and, Bool.false_and, Bool.false_eq_true, if_false]
    cases anyS bb _ <;> cases anyS bb _ <;> cases anyS bb _ <;> cases anyS bb _ <;>
      cases anyS bb _ <;> rfl
  · have eP : (pawnsAtt false (p.p0 &&& p.c1) &&& bb).isOcc
        = anyS bb (fun t => anyS (p.side true &&& p.p0) (fun s => pawnStep (!true) s t)) :=
      set_test fun t ht => by rw [BitVec.and_comm]; exact pawn_test false _ t ht
    rw [eP]
    simp only [Bool.not_true, Bool.true_and, Bool.false_and, Bool.false_eq_true, if_false]
    cases anyS bb _ <;> cases anyS bb _ <;> cases anyS bb _ <;> cases anyS bb _ <;>
      cases anyS bb _ <;> rfl



theorem foldl_or_bit (c : Nat → Bool) (l : List Nat) (a : BB) (s : Nat) :
    (l.foldl (fun acc sq => if c sq then acc ||| bit sq else acc) a).getLsbD s
      = (a.getLsbD s || (decide (s < 64) && l.contains s && c s)) := by
  induction l generalizing a with
  | nil => simp
  | cons x xs ih =>
    rw [List.foldl_cons, ih, List.contains_cons]
    by_cases hc : c x = true
    · simp only [hc, if_true, BitVec.getLsbD_or, getLsbD_bit]
      by_cases e : s = x
      · subst e
        cases a.getLsbD s <;> cases decide (s < 64) <;> simp [hc]
      · have : (s == x) = false := by simpa using e
        simp [e, this]
    · have hc' : c x = false := by simpa using hc
      simp only [hc', Bool.false_eq_true, if_false]
      by_cases e : s = x
      · subst e; simp [hc']
      · have : (s == x) = false := by simpa using e
        simp [this]

theorem getAttacked_rel {p : Position} (h : Consistent p = true) (mask : BB) (them : Bool)
    (s : Nat) (hs : s < 64) :
    (p.getAttacked mask them).getLsbD s
      = (mask.getLsbD s && attackedBy (relBoard p) (!them) s) := by
  have ho := occRep_rel h
  unfold Position.getAttacked
  dsimp only
  have eBQ : p.side them &&& (p.p2 ||| p.p4) = p.side them &&& p.p2 ||| p.side them &&& p.p4 :=
    BitVec.and_or_distrib_left
  have eRQ : p.side them &&& (p.p3 ||| p.p4) = p.side them &&& p.p3 ||| p.side them &&& p.p4 :=
    BitVec.and_or_distrib_left
  rw [foldl_or_bit, attackedBy_rel h, eBQ, eRQ, bishop_test ho _ s hs, rook_test ho _ s hs]
  have hc : (toList (mask &&& ~~~((if (!them) = true then mask &&& pawnsAtt true (p.p0 &&& p.c0)
        else mask &&& pawnsAtt false (p.p0 &&& p.c1)) ||| mask &&& knights (p.p1 &&& p.side them) |||
        mask &&& adjacent (p.p5 &&& p.side them)))).contains s
      = (mask.getLsbD s && !((if (!them) = true then mask &&& pawnsAtt true (p.p0 &&& p.c0)
        else mask &&& pawnsAtt false (p.p0 &&& p.c1)) ||| mask &&& knights (p.p1 &&& p.side them) |||
        mask &&& adjacent (p.p5 &&& p.side them)).getLsbD s) := by
    rw [Bool.eq_iff_iff, List.contains_iff_mem, mem_toList]
    simp [hs]
  rw [hc]
  simp only [BitVec.getLsbD_or, BitVec.getLsbD_and]
  have eN := knight_set_test (p.p1 &&& p.side them) s hs
  have eK := king_set_test (p.p5 &&& p.side them) s hs
  unfold BB.isSet at eN eK
  rw [eN, eK, BitVec.and_comm p.p1, BitVec.and_comm p.p5, BitVec.and_comm p.p0 p.c0,
    BitVec.and_comm p.p0 p.c1]
  cases them
  · have eP := pawn_test true (p.c0 &&& p.p0) s hs
    unfold BB.isSet at eP
    simp only [Bool.not_false, if_true, BitVec.getLsbD_and, eP, hs, decide_true,
      Bool.true_and, Position.side, Bool.false_eq_true, if_false]
    cases mask.getLsbD s <;> cases anyS _ _ <;> cases anyS _ _ <;> cases anyS _ _ <;> cases anyS _ _ <;>
      cases anyS _ _ <;> rfl
  · have eP := pawn_test false (p.c1 &&& p.p0) s hs
    unfold BB.isSet at eP
    simp only [Bool.not_true, Bool.false_eq_true, if_false, BitVec.getLsbD_and, eP,
      hs, decide_true, Bool.true_and, Position.side, if_true]
    cases mask.getLsbD s <;> cases anyS _ _ <;> cases anyS _ _ <;> cases anyS _ _ <;> cases anyS _ _ <;>
      cases anyS _ _ <;> rfl



/-! ### kings, `in_check` -/

theorem kingSquares_rel {p : Position} (h : Consistent p = true) (them : Bool) :
    kingSquares (relBoard p) (!them) = toList (p.side them &&& p.p5) := by
  unfold kingSquares squares toList
  apply List.filter_congr
  intro s hs
  rw [(rep_side h them).king s (List.mem_range.mp hs), Bool.eq_iff_iff, beq_iff_eq, decide_eq_true_iff]

theorem inCheck_rel {p : Position} (h : Consistent p = true)
    (hk0 : count (p.p5 &&& p.c0) = 1) (hk1 : count (p.p5 &&& p.c1) ≤ 1) :
    p.inCheck = Spec.inCheck (relBoard p) true := by
  obtain ⟨hl, hlt⟩ := toList_of_count_one _ hk0
  unfold Position.inCheck Spec.inCheck
  rw [isSqAttacked_rel h _ hlt true hk1]
  have := kingSquares_rel h false
  simp only [Bool.not_false, Position.side, Bool.false_eq_true, if_false] at this
  rw [this, BitVec.and_comm _ p.p5, hl]
  simp

theorem inCheckThem_rel {p : Position} (h : Consistent p = true)
    (hk0 : count (p.p5 &&& p.c0) ≤ 1) (hk1 : count (p.p5 &&& p.c1) = 1) :
    p.inCheckThem = Spec.inCheck (relBoard p) false := by
  obtain ⟨hl, hlt⟩ := toList_of_count_one _ hk1
  unfold Position.inCheckThem Spec.inCheck
  rw [isSqAttacked_rel h _ hlt false hk0]
  have := kingSquares_rel h true
  simp only [Bool.not_true, Position.side, if_true] at this
  rw [this, BitVec.and_comm _ p.p5, hl]
  simp

/-! ### `is_safe` with the mover's king lifted -/

theorem holds_setSq_none {B : Board} {pc : Piece} {X : BB} (h : Holds B pc X) (k : Nat)
    (hk : B k ≠ some pc) : Holds (setSq B k none) pc X := by
  intro s hs
  unfold setSq
  by_cases e : s = k
  · subst e; rw [h s hs]; simp [hk]
  · simp only [e, if_false]; exact h s hs

theorem rep_setSq_none {B : Board} {w : Bool} {P N Bi R Q K : BB} (h : Rep B w P N Bi R Q K)
    (k : Nat) (hk : ∀ kd, B k ≠ some ⟨w, kd⟩) : Rep (setSq B k none) w P N Bi R Q K :=
  ⟨holds_setSq_none h.pawn k (hk _), holds_setSq_none h.knight k (hk _),
   holds_setSq_none h.bishop k (hk _), holds_setSq_none h.rook k (hk _),
   holds_setSq_none h.queen k (hk _), holds_setSq_none h.king k (hk _)⟩

theorem occRep_setSq_none {B : Board} {occ : BB} (ho : OccRep B occ) (k : Nat)
    (hk : occ.getLsbD k = true) : OccRep (setSq B k none) (occ ^^^ bit k) := by
  intro s hs
  unfold setSq
  rw [BitVec.getLsbD_xor, getLsbD_bit]
  by_cases e : s = k
  · subst e; simp [hk, hs]
  · simp [e, ho s hs]

theorem cell_white (u v q0 q1 q2 q3 q4 q5 : Bool) (h : ZH.cellOk u v q0 q1 q2 q3 q4 q5 = true) :
    (ZH.cellPiece false u v q0 q1 q2 q3 q4 q5).map (·.white)
      = if u then some true else if v then some false else none := by
  revert h
  cases u <;> cases v <;> cases q0 <;> cases q1 <;> cases q2 <;> cases q3 <;> cases q4 <;> cases q5 <;>
    decide

/-- the colour of the piece on a square of the relative board. -/
theorem relBoard_white {p : Position} (h : Consistent p = true) (s : Nat) (hs : s < 64) :
    (relBoard p s).map (·.white)
      = if p.c0.getLsbD s then some true else if p.c1.getLsbD s then some false else none := by
  rw [relBoard_eq p s hs]
  exact cell_white _ _ _ _ _ _ _ _ (ZH.cellOk_of_consistent h s)

theorem isSafe_lift {p : Position} (h : Consistent p = true) (ksq : Nat) (hk64 : ksq < 64)
    (hk : p.c0.getLsbD ksq = true) (to : Nat) (hto : to < 64) :
    isSafe to (p.occ ^^^ bit ksq) (p.c1 &&& p.p0) (p.c1 &&& p.p1) (p.c1 &&& p.p2) (p.c1 &&& p.p3)
      (p.c1 &&& p.p4) (p.c1 &&& p.p5) = !attackedBy (setSq (relBoard p) ksq none) false to := by
  have hw := relBoard_white h ksq hk64
  rw [hk, if_pos rfl] at hw
  have hne : ∀ kd, relBoard p ksq ≠ some ⟨false, kd⟩ := by
    intro kd e; rw [e] at hw; simp at hw
  have hocc : p.occ.getLsbD ksq = true := by
    unfold Position.occ; rw [BitVec.getLsbD_or, hk]; rfl
  exact isSafe_rep (rep_setSq_none (rep_them h) ksq hne) (occRep_setSq_none (occRep_rel h) ksq hocc)
    to hto

/-! ### from the mover's frame to absolute coordinates -/

theorem absSq_lt {b : Bool} {s : Nat} (h : s < 64) : absSq b s < 64 := by
  unfold absSq; cases b
  · exact h
  · exact x56_lt h

theorem absSq_absSq (b : Bool) (s : Nat) : absSq b (absSq b s) = s := by
  unfold absSq; cases b
  · rfl
  · exact x56_x56 s

theorem relBoard_def (p : Position) (a : Nat) :
    relBoard p a = if a < 64 then
      match p.pieceOn a with
      | none => none
      | some k =>
        if p.c0.isSet a then some ⟨true, kindOf k⟩
        else if p.c1.isSet a then some ⟨false, kindOf k⟩ else none
      else none := rfl

theorem absBoard_frame (p : Position) :
    absBoard p = if p.black then mirrorB (relBoard p) else relBoard p := by
  cases hb : p.black
  · simp only [Bool.false_eq_true, if_false]
    unfold relBoard
    congr 1
    cases p; simp only at hb; subst hb; rfl
  · simp only [if_true]
    funext a
    unfold mirrorB absBoard
    rw [relBoard_def]
    by_cases ha : a < 64
    · simp only [ha, x56_lt ha, if_true, absSq, hb, Bool.not_true]
      cases p.pieceOn (a ^^^ 56) with
      | none => rfl
      | some k =>
        simp only
        cases p.c0.isSet (a ^^^ 56) <;> cases p.c1.isSet (a ^^^ 56) <;> rfl
    · have : ¬ (a ^^^ 56 < 64) := Nat.not_lt.mpr (x56_ge (Nat.le_of_not_lt ha))
      simp [ha, this]

/-- the colour (as `Piece.white`) of side `them` of position `p`. -/
def sideWhite (p : Position) (them : Bool) : Bool := if them then p.black else !p.black

/-- attacks on the absolute board are attacks on the relative board. -/
theorem attackedBy_abs (p : Position) (them : Bool) (s : Nat) (hs : s < 64) :
    attackedBy (abs p).board (sideWhite p them) (absSq p.black s)
      = attackedBy (relBoard p) (!them) s := by
  have e : (abs p).board = absBoard p := rfl
  rw [e, absBoard_frame]
  unfold sideWhite absSq
  cases hb : p.black
  · cases them <;> rfl
  · simp only [if_true]
    rw [← attackedBy_mirror (relBoard p) (!them) s hs]
    cases them <;> rfl

theorem inCheck_abs (p : Position) (them : Bool) :
    Spec.inCheck (abs p).board (sideWhite p them) = Spec.inCheck (relBoard p) (!them) := by
  have e : (abs p).board = absBoard p := rfl
  rw [e, absBoard_frame]
  unfold sideWhite
  cases hb : p.black
  · cases them <;> rfl
  · simp only [if_true]
    rw [← inCheck_mirror (relBoard p) (!them)]
    cases them <;> rfl



/-! ### the frame change as an operation on boards -/

/-- relative board ↦ absolute board. -/
def frameB (black : Bool) (B : Board) : Board := if black then mirrorB B else B
/-- relative colour (`true` = the mover) ↦ absolute colour (`true` = White). -/
def absCol (black w : Bool) : Bool := if black then !w else w
def framePiece (black : Bool) (pc : Piece) : Piece := if black then flipPiece pc else pc

theorem absBoard_eq_frame (p : Position) : (abs p).board = frameB p.black (relBoard p) :=
  absBoard_frame p

theorem sideWhite_eq (p : Position) (them : Bool) : sideWhite p them = absCol p.black (!them) := by
  unfold sideWhite absCol; cases them <;> cases p.black <;> rfl

theorem attackedBy_frame (black : Bool) (B : Board) (w : Bool) (s : Nat) (hs : s < 64) :
    attackedBy (frameB black B) (absCol black w) (absSq black s) = attackedBy B w s := by
  unfold frameB absCol absSq
  cases black
  · rfl
  · simp only [if_true]
    exact attackedBy_mirror B w s hs

theorem inCheck_frame (black : Bool) (B : Board) (w : Bool) :
    Spec.inCheck (frameB black B) (absCol black w) = Spec.inCheck B w := by
  unfold frameB absCol
  cases black
  · rfl
  · simp only [if_true]
    exact inCheck_mirror B w

theorem mirrorB_setSq (B : Board) (k : Nat) (v : Option Piece) :
    mirrorB (setSq B k v) = setSq (mirrorB B) (k ^^^ 56) (v.map flipPiece) := by
  funext a
  unfold mirrorB setSq
  by_cases e : a ^^^ 56 = k
  · have : a = k ^^^ 56 := by rw [← e, x56_x56]
    simp [this, x56_x56]
  · have : ¬ a = k ^^^ 56 := by intro h; apply e; rw [h, x56_x56]
    simp [e, this]

theorem frameB_setSq (black : Bool) (B : Board) (k : Nat) (v : Option Piece) :
    frameB black (setSq B k v) = setSq (frameB black B) (absSq black k) (v.map (framePiece black)) := by
  unfold frameB absSq framePiece
  cases black
  · simp
  · simp only [if_true]; exact mirrorB_setSq B k v



/-! ### exactly one king per side on the domain -/

theorem countPieces_king (B : Board) (w : Bool) :
    countPieces B (fun pc => pc == ⟨w, .king⟩) = (kingSquares B w).length := by
  unfold countPieces kingSquares
  congr 1
  apply List.filter_congr
  intro s _
  cases B s with
  | none => rfl
  | some pc =>
    rw [Bool.eq_iff_iff, beq_iff_eq, beq_iff_eq, Option.some.injEq]

theorem kingSquares_length_mirror (B : Board) (w : Bool) :
    (kingSquares (mirrorB B) (!w)).length = (kingSquares B w).length := by
  unfold kingSquares squares
  rw [← List.countP_eq_length_filter, ← List.countP_eq_length_filter, ← x56_perm.countP_eq,
    List.countP_map]
  apply List.countP_congr
  intro s _
  simp only [Function.comp]
  rw [mirror_holds]

theorem kingSquares_length_frame (black : Bool) (B : Board) (w : Bool) :
    (kingSquares (frameB black B) (absCol black w)).length = (kingSquares B w).length := by
  unfold frameB absCol
  cases black
  · rfl
  · simp only [if_true]; exact kingSquares_length_mirror B w

/-- the number of kings of side `them` is what `Spec.Valid` counts. -/
theorem count_kings {p : Position} (h : Consistent p = true) (them : Bool) :
    count (p.p5 &&& p.side them)
      = countPieces (abs p).board (fun pc => pc == ⟨sideWhite p them, .king⟩) := by
  rw [countPieces_king, absBoard_eq_frame, sideWhite_eq, kingSquares_length_frame,
    kingSquares_rel h them, BitVec.and_comm]
  rfl

theorem valid_consistent {p : Position} (hv : ValidPos p = true) : Consistent p = true := by
  simp only [ValidPos, Bool.and_eq_true] at hv
  exact hv.1.1.1.1.1.1.1.1

theorem valid_spec {p : Position} (hv : ValidPos p = true) : Spec.Valid (abs p) = true := by
  simp only [ValidPos, Bool.and_eq_true] at hv
  exact hv.1.1.1.1.1.1.1.2

theorem valid_kings {p : Position} (hv : ValidPos p = true) (them : Bool) :
    count (p.p5 &&& p.side them) = 1 := by
  rw [count_kings (valid_consistent hv)]
  have hV := valid_spec hv
  unfold Spec.Valid at hV
  simp only [Bool.and_eq_true, beq_iff_eq] at hV
  obtain ⟨⟨⟨⟨⟨⟨⟨kw, kb⟩, _⟩, _⟩, _⟩, _⟩, _⟩, _⟩ := hV
  cases hw : sideWhite p them
  · exact kb
  · exact kw

end Rawr.Att
