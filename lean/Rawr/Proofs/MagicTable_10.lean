import Rawr.Proofs.MagicCheck
/-! C10 table check, part 10 of 16: 6560 rows, each one evaluated by the kernel.
The partition into modules balances row counts and depends on board geometry only; the statements do
not mention any table content, so a changed table or magic makes these proofs fail. -/
namespace Rawr.MagicTable
theorem bishop_2 : checkB 2 = true := by decide +kernel
theorem bishop_11 : checkB 11 = true := by decide +kernel
theorem bishop_19 : checkB 19 = true := by decide +kernel
theorem bishop_23 : checkB 23 = true := by decide +kernel
theorem bishop_39 : checkB 39 = true := by decide +kernel
theorem bishop_43 : checkB 43 = true := by decide +kernel
theorem bishop_51 : checkB 51 = true := by decide +kernel
theorem rook_6 : checkR 6 = true := by decide +kernel
theorem rook_20 : checkR 20 = true := by decide +kernel
theorem rook_42 : checkR 42 = true := by decide +kernel
theorem rook_55 : checkR 55 = true := by decide +kernel
end Rawr.MagicTable
