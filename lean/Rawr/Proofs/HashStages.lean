import Rawr.Model.MakeMove
/-! `makemove` cut into named stages (definitionally the same function), so that proofs can reason
about one stage at a time without the `let`-chain blowing up. -/
namespace Rawr.ZH
open Rawr Rawr.Position

/-- move the piece `i` from `src` to `dst` (colour board and piece board), store the key, bump the clock. -/
def stRelocate (p : Position) (m : Mv) (i : Pc) (hash : BB) : Position :=
  let s : Position := { p with hash := hash, c0 := p.c0 ^^^ (bit m.src ||| bit m.dst), halfmoves := p.halfmoves + 1 }
  s.setPiece i (s.piece i ^^^ (bit m.src ||| bit m.dst))

/-- remove the captured piece `c`. -/
def capStep (s : Position) (m : Mv) (c : Pc) : Position :=
  let s := { s with c1 := s.c1 ^^^ bit m.dst, halfmoves := 0 }
  s.setPiece c (s.piece c ^^^ bit m.dst)

def stClock (s : Position) (i : Pc) : Position := if i == 0 then { s with halfmoves := 0 } else s

/-- remove the pawn captured en passant. -/
def epStep (s : Position) (ep : Nat) : Position :=
  { s with c1 := s.c1 ^^^ south (bit ep), p0 := s.p0 ^^^ south (bit ep) }

def stDouble (s : Position) (m : Mv) (i : Pc) : Position :=
  if i == 0 && m.dst - m.src == 16 then { s with ep := some (m.dst - 8) } else { s with ep := none }

def stCastle (s : Position) (m : Mv) (kscUs qscUs : Nat) : Position :=
  let bbFrom := bit m.src
  let bbTo := bit m.dst
  if (s.p5 &&& s.p3).isOcc && m.dst > m.src then
    let s := { s with c0 := s.c0 ^^^ (bbFrom ||| bbTo), p5 := s.p5 ^^^ (bbFrom ||| bbTo) }
    let s := { s with c0 := s.c0 ^^^ bbFrom ^^^ bit 6, p5 := s.p5 ^^^ bbFrom ^^^ bit 6 }
    { s with c0 := s.c0 ^^^ bit kscUs ^^^ bit 5, p3 := s.p3 ^^^ bit kscUs ^^^ bit 5 }
  else if (s.p5 &&& s.p3).isOcc && m.dst < m.src then
    let s := { s with c0 := s.c0 ^^^ (bbFrom ||| bbTo), p5 := s.p5 ^^^ (bbFrom ||| bbTo) }
    let s := { s with c0 := s.c0 ^^^ bbFrom ^^^ bit 2, p5 := s.p5 ^^^ bbFrom ^^^ bit 2 }
    { s with c0 := s.c0 ^^^ bit qscUs ^^^ bit 3, p3 := s.p3 ^^^ bit qscUs ^^^ bit 3 }
  else s

def stPromo (s : Position) (m : Mv) : Position :=
  if m.promo != 6 then
    let s := { s with p0 := s.p0 ^^^ bit m.dst }
    s.setPiece m.promo (s.piece m.promo ^^^ bit m.dst)
  else s

def stRights (s : Position) (m : Mv) (ksqUs ksqThem kscUs qscUs kscThem qscThem : Nat) : Position :=
  { s with
    usK := s.usK && (m.src != ksqUs && m.src != kscUs && m.dst != kscUs),
    usQ := s.usQ && (m.src != ksqUs && m.src != qscUs && m.dst != qscUs),
    themK := s.themK && (m.src != ksqThem && m.src != kscThem && m.dst != kscThem),
    themQ := s.themQ && (m.src != ksqThem && m.src != qscThem && m.dst != qscThem) }

/-- the stages after the en-passant removal up to the rights update (all total). -/
def stTail0 (p : Position) (m : Mv) (i : Pc) (s : Position) : Position :=
  let s := stDouble s m i
  let s := stCastle s m (fromCoords p.cf0 0) (fromCoords p.cf1 0)
  let s := stPromo s m
  stRights s m (lsb (p.c0 &&& p.p5)) (lsb (p.c1 &&& p.p5)) (fromCoords p.cf0 0) (fromCoords p.cf1 0)
    (fromCoords p.cf2 7) (fromCoords p.cf3 7)

/-- the full-move counter: one more after each move by Black. -/
def stFull (s : Position) : Position := if s.black then { s with fullmoves := s.fullmoves + 1 } else s

/-- all stages after the en-passant removal. -/
def stTail (p : Position) (m : Mv) (i : Pc) (s : Position) : Position := stFull (stTail0 p m i s)

theorem full_hash (s : Position) : (stFull s).flip.hash = s.flip.hash := by
  unfold stFull
  split <;> rfl

theorem full_calc (K : ZKeys) (s : Position) : calculateHashK K (stFull s).flip = calculateHashK K s.flip := by
  unfold stFull
  split <;> rfl

/-- `makemove` with the same monadic plumbing, the pure steps named. -/
def mmStaged (p : Position) (m : Mv) (updateHash : Bool) : Option Position := do
  let piece ← p.pieceOn m.src
  let captured := p.pieceOn m.dst
  let hash ← if updateHash then p.predictHash m else pure p.hash
  let s := stRelocate p m piece hash
  let s ← if s.c1.isSet m.dst then (do
      let c ← captured
      pure (capStep s m c)) else pure s
  let s := stClock s piece
  let s ← if piece == 0 && fileOf m.src != fileOf m.dst && captured.isNone then (do
      let ep ← s.ep
      pure (epStep s ep)) else pure s
  pure (stTail p m piece s).flip

/-- the part of `makemove` after the piece and the key have been looked up. -/
def mmFrom (p : Position) (m : Mv) (piece : Pc) (hash : BB) : Option Position := do
  let captured := p.pieceOn m.dst
  let s := stRelocate p m piece hash
  let s ← if s.c1.isSet m.dst then (do
      let c ← captured
      pure (capStep s m c)) else pure s
  let s := stClock s piece
  let s ← if piece == 0 && fileOf m.src != fileOf m.dst && captured.isNone then (do
      let ep ← s.ep
      pure (epStep s ep)) else pure s
  pure (stTail p m piece s).flip

theorem mmStaged_eq (p : Position) (m : Mv) (u : Bool) :
    mmStaged p m u = (do
      let i ← p.pieceOn m.src
      let h ← if u then p.predictHash m else pure p.hash
      mmFrom p m i h) := rfl

theorem makemove_eq_staged (p : Position) (m : Mv) (u : Bool) : p.makemove m u = mmStaged p m u := rfl

/-! ### field lemmas -/

def cnd (c : Prop) [Decidable c] (b : BB) : BB := if c then b else 0#64

theorem setPiece_piece (s : Position) (i k : Nat) (b : BB) (hi : i < 6) :
    (s.setPiece i b).piece k = if k = i then b else s.piece k := by
  have : i = 0 ∨ i = 1 ∨ i = 2 ∨ i = 3 ∨ i = 4 ∨ i = 5 := by omega
  rcases this with rfl | rfl | rfl | rfl | rfl | rfl <;>
    (unfold Position.piece Position.setPiece; split <;> simp_all)

theorem setPiece_piece_xor (s : Position) (i k : Nat) (d : BB) (hi : i < 6) :
    (s.setPiece i (s.piece i ^^^ d)).piece k = s.piece k ^^^ cnd (k = i) d := by
  rw [setPiece_piece _ _ _ _ hi]
  unfold cnd
  split
  · next h => rw [h]
  · simp

theorem setPiece_other (s : Position) (i : Nat) (b : BB) :
    (s.setPiece i b).c0 = s.c0 ∧ (s.setPiece i b).c1 = s.c1 ∧ (s.setPiece i b).ep = s.ep ∧
    (s.setPiece i b).black = s.black ∧ (s.setPiece i b).usK = s.usK ∧ (s.setPiece i b).usQ = s.usQ ∧
    (s.setPiece i b).themK = s.themK ∧ (s.setPiece i b).themQ = s.themQ ∧ (s.setPiece i b).hash = s.hash := by
  unfold Position.setPiece
  split <;> simp

end Rawr.ZH
