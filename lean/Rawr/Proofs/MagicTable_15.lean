import Rawr.Proofs.MagicCheck
/-! C10 table check, part 15 of 16: 6528 rows, each one evaluated by the kernel.
The partition into modules balances row counts and depends on board geometry only; the statements do
not mention any table content, so a changed table or magic makes these proofs fail. -/
namespace Rawr.MagicTable
theorem bishop_0 : checkB 0 = true := by decide +kernel
theorem bishop_5 : checkB 5 = true := by decide +kernel
theorem bishop_14 : checkB 14 = true := by decide +kernel
theorem bishop_26 : checkB 26 = true := by decide +kernel
theorem bishop_30 : checkB 30 = true := by decide +kernel
theorem bishop_46 : checkB 46 = true := by decide +kernel
theorem bishop_54 : checkB 54 = true := by decide +kernel
theorem bishop_59 : checkB 59 = true := by decide +kernel
theorem rook_1 : checkR 1 = true := by decide +kernel
theorem rook_13 : checkR 13 = true := by decide +kernel
theorem rook_32 : checkR 32 = true := by decide +kernel
theorem rook_35 : checkR 35 = true := by decide +kernel
end Rawr.MagicTable
