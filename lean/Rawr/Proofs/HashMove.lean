import Rawr.Proofs.HashMoveNC
import Rawr.Proofs.HashMoveC
/-! C04(a) assembled: for a position satisfying `KeyHyps` and a move of `MoveShape`, the key predicted
by `predict_hash` and the key recomputed after `makemove` differ from the current stored / recomputed
key by the same amount. -/
namespace Rawr.ZH
open Rawr Rawr.Position

theorem rook_piece {p : Position} (hC : Consistent p) {x : Nat} (h : p.p3.getLsbD x = true) :
    p.pieceOn x = some 3 := by
  have := piece_bit hC x 3
  simp only [Position.piece] at this
  rw [h] at this
  simpa using this.symm

theorem pawn_piece {p : Position} (hC : Consistent p) {x : Nat} (h : p.p0.getLsbD x = true) :
    p.pieceOn x = some 0 := by
  have := piece_bit hC x 0
  simp only [Position.piece] at this
  rw [h] at this
  simpa using this.symm

theorem emptyOr_cases {p : Position} {x : Nat} {m : Mv} (h : emptyOr p x m = true) :
    x = m.src ∨ x = m.dst ∨ (p.c0.getLsbD x = false ∧ p.c1.getLsbD x = false) := by
  simp only [emptyOr, Bool.or_eq_true, beq_iff_eq, Bool.not_eq_true', BB.isSet, BitVec.getLsbD_or,
    Bool.or_eq_false_iff] at h
  rcases h with (h | h) | h
  · exact Or.inl h
  · exact Or.inr (Or.inl h)
  · exact Or.inr (Or.inr h)

/-- the common conclusion: the predicted key is `p.hash ^^^ Δ`, the position after the move has stored
key `h` and recomputed key `calculateHashK K p ^^^ Δ`. -/
def StepOK (K : ZKeys) (p : Position) (m : Mv) (h : BB) (q : Position) : Prop :=
  q.hash = h ∧ ∃ Δ : BB, predictHashK K p m = some (p.hash ^^^ Δ) ∧
    calculateHashK K q = calculateHashK K p ^^^ Δ

theorem step_from (K : ZKeys) {p : Position} {m : Mv} (kh : KeyHyps p = true) (hm : MoveShape p m = true)
    {i : Nat} (hpo : p.pieceOn m.src = some i) (h : BB) {q : Position} (hq : mmFrom p m i h = some q) :
    StepOK K p m h q := by
  have hC := keyHyps_consistent kh
  have kh' := kh
  simp only [KeyHyps, Bool.and_eq_true, Bool.or_eq_true, Bool.not_eq_true', decide_eq_true_eq, BB.isSet,
    BitVec.getLsbD_and] at kh'
  obtain ⟨⟨⟨⟨⟨_, _⟩, bK⟩, bQ⟩, _⟩, _⟩ := kh'
  unfold MoveShape at hm
  rw [hpo] at hm
  simp only [Bool.and_eq_true, decide_eq_true_eq, BB.isSet] at hm
  obtain ⟨⟨⟨hs, hd⟩, h0s⟩, hrest⟩ := hm
  by_cases h0d : p.c0.getLsbD m.dst = true
  · -- castling
    rw [if_pos h0d] at hrest
    simp only [Bool.and_eq_true, beq_iff_eq] at hrest
    obtain ⟨⟨hi5, hpr⟩, hside⟩ := hrest
    subst hi5
    by_cases hK : p.usK = true ∧ m.dst = fromCoords p.cf0 0
    · rw [if_pos hK] at hside
      simp only [Bool.and_eq_true, decide_eq_true_eq] at hside
      obtain ⟨⟨hlt, e6⟩, e5⟩ := hside
      obtain ⟨hu, hdst⟩ := hK
      have hrook : p.pieceOn m.dst = some 3 := by
        rcases bK with b | b
        · rw [hu] at b; cases b
        · rw [← hdst] at b; exact rook_piece hC b.2
      have f : CFacts p m 6 5 := ⟨hC, hs, hd, by omega, by omega, by omega, hpo, hrook, h0s, h0d,
        emptyOr_cases e6, emptyOr_cases e5⟩
      obtain ⟨a, b⟩ := castleK_step K kh f hpr hdst.symm hlt h hq
      exact ⟨a, _, by rw [predict_castleK K f hpr hu hdst.symm, BitVec.xor_assoc, BitVec.xor_assoc],
        by rw [b, BitVec.xor_assoc, BitVec.xor_assoc]⟩
    · rw [if_neg hK] at hside
      have hnK : (p.usK && m.dst == fromCoords p.cf0 0) = false := by
        cases hh : (p.usK && m.dst == fromCoords p.cf0 0)
        · rfl
        · exact absurd (by simpa using hh) hK
      simp only [Bool.and_eq_true, decide_eq_true_eq, beq_iff_eq] at hside
      obtain ⟨⟨⟨⟨hu, hdst⟩, hlt⟩, e2⟩, e3⟩ := hside
      have hrook : p.pieceOn m.dst = some 3 := by
        rcases bQ with b | b
        · rw [hu] at b; cases b
        · rw [← hdst] at b; exact rook_piece hC b.2
      have f : CFacts p m 2 3 := ⟨hC, hs, hd, by omega, by omega, by omega, hpo, hrook, h0s, h0d,
        emptyOr_cases e2, emptyOr_cases e3⟩
      obtain ⟨a, b⟩ := castleQ_step K kh f hpr hdst.symm hlt h hq
      exact ⟨a, _, by rw [predict_castleQ K f hpr hnK hu hdst.symm, BitVec.xor_assoc, BitVec.xor_assoc],
        by rw [b, BitVec.xor_assoc, BitVec.xor_assoc]⟩
  · -- every other move
    have h0d' : p.c0.getLsbD m.dst = false := by simpa using h0d
    rw [if_neg h0d] at hrest
    simp only [Bool.and_eq_true, Bool.or_eq_true, Bool.not_eq_true', beq_iff_eq, decide_eq_true_eq] at hrest
    obtain ⟨hep, hpromo⟩ := hrest
    have f : NCFacts p m i ((p.pieceOn m.dst).getD 0) (p.c1.getLsbD m.dst)
        (i == 0 && fileOf m.src != fileOf m.dst && (p.pieceOn m.dst).isNone) (m.promo != 6) := by
      refine ⟨hC, hs, hd, hpo, h0s, h0d', rfl, ?_, ?_, ?_, ?_⟩
      · intro hc
        have := occ_bit hC m.dst
        rw [h0d', hc] at this
        cases hp : p.pieceOn m.dst with
        | none => rw [hp] at this; cases this
        | some c => rfl
      · intro hc
        exact empty_piece hC h0d' hc
      · intro he
        rcases hep with hep | hep
        · rw [he] at hep; cases hep
        · obtain ⟨⟨⟨_, h8⟩, hpawn⟩, _⟩ := hep
          simp only [BitVec.getLsbD_and, Bool.and_eq_true] at hpawn
          exact ⟨h8, hpawn.1, pawn_piece hC hpawn.2⟩
      · intro hp
        rcases hpromo with hp6 | hp6
        · rw [hp6] at hp; cases hp
        · exact hp6.1
    have hepE : (i == 0 && fileOf m.src != fileOf m.dst && (p.pieceOn m.dst).isNone) = true →
        p.ep = some m.dst := by
      intro he
      rcases hep with hep | hep
      · rw [he] at hep; cases hep
      · exact hep.1.1.1
    have hp6 : (m.promo != 6) = true → m.promo < 6 := by
      intro hp
      rcases hpromo with hp6 | hp6
      · rw [hp6] at hp; cases hp
      · exact hp6.2
    obtain ⟨a, b⟩ := nc_core K kh f rfl rfl hepE hp6 h hq
    exact ⟨a, _, by rw [predict_nc K kh f rfl rfl, BitVec.xor_assoc, BitVec.xor_assoc],
      by rw [b, BitVec.xor_assoc, BitVec.xor_assoc]⟩

/-- `makemove` (with or without key update): stored key and recomputed key of the result. -/
theorem makemove_step (K : ZKeys) {p : Position} {m : Mv} {u : Bool} {q : Position}
    (kh : KeyHyps p = true) (hm : MoveShape p m = true) (hq : p.makemove m u = some q) :
    ∃ h, (if u then p.predictHash m else some p.hash) = some h ∧ StepOK K p m h q := by
  rw [makemove_eq_staged, mmStaged_eq] at hq
  cases hpo : p.pieceOn m.src with
  | none => rw [hpo] at hq; cases hq
  | some i =>
    rw [hpo] at hq
    simp only [Option.bind_eq_bind, Option.bind_some, Option.pure_def] at hq
    cases u with
    | false =>
      simp only [Bool.false_eq_true, if_false] at hq ⊢
      exact ⟨p.hash, rfl, step_from K kh hm hpo p.hash hq⟩
    | true =>
      simp only [if_true] at hq ⊢
      cases hh : p.predictHash m with
      | none => rw [hh] at hq; cases hq
      | some h =>
        rw [hh] at hq
        exact ⟨h, rfl, step_from K kh hm hpo h hq⟩

/-- K-generic form of C04(a): if the stored key is the recomputed key (w.r.t. `K`), the key predicted
(w.r.t. `K`) for a move equals the recomputed key of the position after it. -/
theorem predict_eq_calc (K : ZKeys) {p : Position} {m : Mv} {u : Bool} {q : Position} {h : BB}
    (kh : KeyHyps p = true) (hm : MoveShape p m = true) (hinv : p.hash = calculateHashK K p)
    (hp : predictHashK K p m = some h) (hq : p.makemove m u = some q) : h = calculateHashK K q := by
  obtain ⟨_, _, _, Δ, h1, h2⟩ := makemove_step K kh hm hq
  rw [h1] at hp
  rw [h2, ← hinv]
  exact (Option.some.inj hp).symm

/-- C04(a) for the engine's table. -/
theorem move_preserves {p : Position} {m : Mv} {q : Position}
    (kh : KeyHyps p = true) (hm : MoveShape p m = true) (hinv : p.hash = p.calculateHash)
    (hq : p.makemove m true = some q) :
    p.predictHash m = some q.hash ∧ q.hash = q.calculateHash := by
  obtain ⟨h, hh, hqh, Δ, h1, h2⟩ := makemove_step genKeys kh hm hq
  simp only [if_true] at hh
  have e : h = p.hash ^^^ Δ := by
    have : p.predictHash m = some (p.hash ^^^ Δ) := h1
    rw [hh] at this
    exact Option.some.inj this
  refine ⟨by rw [hqh, hh], ?_⟩
  show q.hash = calculateHashK genKeys q
  rw [hqh, h2, e, hinv]
  rfl

end Rawr.ZH
