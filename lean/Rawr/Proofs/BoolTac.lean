import Lean
/-! `bool_taut`: close a goal that is a propositional identity over `Bool` variables by clearing every
hypothesis, reverting the `Bool` variables and running `decide` over all valuations. -/
namespace Rawr.ZH
open Lean Elab Tactic Meta

/-- clear every propositional hypothesis that can be cleared, then revert all `Bool` variables. -/
elab "bool_prep" : tactic => liftMetaTactic fun g => g.withContext do
  let mut g := g
  let decls := (← getLCtx).decls.toList.reverse.filterMap id
  for d in decls do
    if d.isImplementationDetail then continue
    if (← isProp d.type) then
      try g ← g.clear d.fvarId catch _ => pure ()
  let mut bs : Array FVarId := #[]
  for d in decls.reverse do
    if d.isImplementationDetail then continue
    if d.type.isConstOf ``Bool then bs := bs.push d.fvarId
  let (_, g') ← g.revert bs
  return [g']

macro "bool_taut" : tactic => `(tactic| (bool_prep; decide))

/-- the leaves of a tree of `^^^`. -/
partial def xorLeaves (e : Expr) (acc : Array Expr) : Array Expr :=
  match e.getAppFnArgs with
  | (``HXor.hXor, #[_, _, _, _, a, b]) => xorLeaves b (xorLeaves a acc)
  | _ => if acc.contains e then acc else acc.push e

/-- generalize every leaf of the two XOR trees of an equation (so that `ac_rfl` sees only atoms). -/
elab "xor_atoms" : tactic => do
  let g ← getMainGoal
  let t := (← instantiateMVars (← g.getType)).consumeMData
  let some (_, lhs, rhs) := t.eq? | throwError "xor_atoms: not an equation"
  let leaves := xorLeaves rhs (xorLeaves lhs #[])
  let args := leaves.map fun e => ({ expr := e } : GeneralizeArg)
  let (_, g') ← g.generalize args
  replaceMainGoal [g']

/-- equality of two XOR combinations of the same leaves. -/
macro "xor_ac" : tactic => `(tactic| (xor_atoms; ac_rfl))

example (a c d : BitVec 64) (f : Bool → BitVec 64) (x y : Bool) :
    a ^^^ f (x && y) ^^^ (c ^^^ d) = d ^^^ (f (x && y) ^^^ a) ^^^ c := by xor_ac

section
variable {n : Nat} {a : Bool}
example (_h : n = 3) (_h2 : a = true) (b c : Bool) : (a ^^ b ^^ c) = (c ^^ (b ^^ a)) := by
  bool_taut
end

end Rawr.ZH
