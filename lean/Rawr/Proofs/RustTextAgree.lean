import Rawr.Generated.RustText
import Rawr.Generated.StartPos
import Rawr.Proofs.RustImpAgree
/-!
# The hand-written model of the FEN / UCI text side agrees with the functions regenerated from the Rust source
-/
namespace Rawr
open Position

/-! ## square.rs `impl Display for Square`, uci/mv.rs `to_uci` -/

private theorem files_lookup : ∀ k, k < 8 → ['a', 'b', 'c', 'd', 'e', 'f', 'g', 'h'][k]? = some (fileChar k) := by decide
private theorem ranks_lookup : ∀ k, k < 8 → ['1', '2', '3', '4', '5', '6', '7', '8'][k]? = some (rankChar k) := by decide
private theorem ranks_lookup_none (k : Nat) (h : 8 ≤ k) : ['1', '2', '3', '4', '5', '6', '7', '8'][k]? = none := by
  simp; omega

/-- `Square::fmt` appends the model's `sqName`; it indexes a table of 8 rank characters with `sq / 8`, so it panics
for `sq ≥ 64` (the model's `sqName` is total). -/
theorem agree_square_fmt (s : Nat) (acc : List Char) :
    R.square_fmt s acc = if s < 64 then some (acc ++ sqName s) else none := by
  unfold R.square_fmt
  have h8 : s % 8 < 8 := Nat.mod_lt _ (by decide)
  simp only [files_lookup _ h8]
  by_cases h : s < 64
  · have : s / 8 < 8 := by omega
    simp [ranks_lookup _ this, h, sqName]
  · have : 8 ≤ s / 8 := by omega
    simp [ranks_lookup_none _ this, h]

theorem flipSq_lt {x : Nat} (h : x < 64) : flipSq x < 64 := by
  unfold flipSq; exact Nat.xor_lt_two_pow (n := 6) h (by decide)

private theorem promo_match (pc : Nat) :
    (match pc with | 1 => ['n'] | 2 => ['b'] | 3 => ['r'] | 4 => ['q'] | _ => ([] : List Char)) = promoChars pc := by
  unfold promoChars; rfl

private theorem to_uci_aux (a b : Nat) (ha : a < 64) (hb : b < 64) (l : List Char) :
    (do let x ← R.square_fmt a []; let y ← R.square_fmt b []; pure ([] ++ x ++ y ++ l) : Option (List Char))
      = some (sqName a ++ sqName b ++ l) := by
  simp [agree_square_fmt, ha, hb]

/-- `Mv::to_uci` (Chess960 castling target rewriting, flipping for Black, promotion letter) is the model's
`toUciChars` for on-board squares; for squares ≥ 64 the Rust code panics in `Square::fmt`. -/
theorem agree_to_uci (m : Mv) (p : Position) (h1 : m.src < 64) (h2 : m.dst < 64) :
    R.to_uci m p = some (toUciChars p m) := by
  unfold R.to_uci toUciChars
  have ht : (if (!p.frc && p.c0.isSet m.dst) = true then (if fileOf m.dst > fileOf m.src then 6 else 2) else m.dst) < 64 := by
    split
    · split <;> decide
    · exact h2
  dsimp only [R.get_us]
  cases p.black
  · exact to_uci_aux _ _ h1 ht _
  · exact to_uci_aux _ _ (flipSq_lt h1) (flipSq_lt ht) _

/-- `Mv::flipped` (chess/mv.rs). -/
theorem agree_mv_flipped (m : Mv) : R.mv_flipped m = ⟨flipSq m.src, flipSq m.dst, m.promo⟩ := rfl

example : R.to_uci ⟨12, 28, 6⟩ Gen.startpos = some "e2e4".toList := by decide
end Rawr

#print axioms Rawr.agree_square_fmt
#print axioms Rawr.agree_to_uci
#print axioms Rawr.agree_mv_flipped
