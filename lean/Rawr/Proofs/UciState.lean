import Rawr.Model.Uci
import Rawr.Proofs.Hashtable
import Rawr.Proofs.HashStages
import Rawr.Props.C13
/-! Helpers for C16 / C15 / C05: the second loop of `listen` as a state machine.

* `cmdOf`, `argsOf` : first token / remaining tokens of a line;
* `steps` : iterated `stepSecond` with the outputs concatenated; `secondLoop` is `steps` (`secondLoop_eq`);
* `UInv` : the two invariants of the loop (table length = configured size, `pos.frc = frc`);
* `makemove` / `applyTokens` keep the `frc` flag. -/
namespace Rawr

def cmdOf (line : List Char) : List Char := (splitWs line).headD []
def argsOf (line : List Char) : List (List Char) := (splitWs line).drop 1

/-! ## iterated steps -/

/-- run the second loop over `lines`: final state, concatenated output, "has quit". `none` = panic. -/
def steps (ar : Arith) (clock : Nat → Bool) : UState → List (List Char) → Option (UState × List String × Bool)
  | s, [] => some (s, [], false)
  | s, l :: ls =>
    match stepSecond ar clock s l with
    | none => none
    | some (s', o, true) => some (s', o, true)
    | some (s', o, false) =>
      match steps ar clock s' ls with
      | none => none
      | some (s'', o', q) => some (s'', o ++ o', q)

theorem secondLoop_eq (ar : Arith) (clock : Nat → Bool) (ls : List (List Char)) (s : UState) (out : List String) :
    secondLoop ar clock ls s out = (steps ar clock s ls).map fun r => out ++ r.2.1 := by
  induction ls generalizing s out with
  | nil => simp [secondLoop, steps]
  | cons l ls ih =>
    unfold secondLoop steps
    cases h : stepSecond ar clock s l with
    | none => rfl
    | some r =>
      obtain ⟨s', o, q⟩ := r
      cases q with
      | true => simp
      | false =>
        simp only [Bool.false_eq_true, if_false]
        rw [ih]
        cases steps ar clock s' ls with
        | none => rfl
        | some r => simp [List.append_assoc]

theorem steps_append (ar : Arith) (clock : Nat → Bool) (s : UState) (a b : List (List Char)) :
    steps ar clock s (a ++ b) =
      match steps ar clock s a with
      | none => none
      | some (s', o, true) => some (s', o, true)
      | some (s', o, false) => (steps ar clock s' b).map fun r => (r.1, o ++ r.2.1, r.2.2) := by
  induction a generalizing s with
  | nil =>
    simp only [List.nil_append, steps, List.nil_append]
    cases steps ar clock s b with
    | none => rfl
    | some r => rfl
  | cons l ls ih =>
    simp only [List.cons_append, steps]
    cases h : stepSecond ar clock s l with
    | none => rfl
    | some r =>
      obtain ⟨s', o, q⟩ := r
      cases q with
      | true => rfl
      | false =>
        simp only
        rw [ih]
        cases h2 : steps ar clock s' ls with
        | none => rfl
        | some r2 =>
          obtain ⟨s2, o2, q2⟩ := r2
          cases q2 with
          | true => rfl
          | false =>
            simp only
            cases steps ar clock s2 b with
            | none => rfl
            | some r3 => simp [List.append_assoc]

/-! ## `frc` is carried through moves -/

open ZH
theorem setPiece_frc (s : Position) (i : Nat) (b : BB) : (s.setPiece i b).frc = s.frc := by
  unfold Position.setPiece
  split <;> rfl
theorem stDouble_frc (s : Position) (m : Mv) (i : Pc) : (stDouble s m i).frc = s.frc := by
  unfold stDouble; split <;> rfl
theorem stCastle_frc (s : Position) (m : Mv) (a b : Nat) : (stCastle s m a b).frc = s.frc := by
  unfold stCastle; simp only; split
  · rfl
  · split <;> rfl
theorem stPromo_frc (s : Position) (m : Mv) : (stPromo s m).frc = s.frc := by
  unfold stPromo; split
  · simp only [setPiece_frc]
  · rfl
theorem stFull_frc (s : Position) : (stFull s).frc = s.frc := by
  unfold stFull; split <;> rfl
theorem tail_frc (p : Position) (m : Mv) (i : Pc) (s : Position) : (stTail p m i s).flip.frc = s.frc := by
  show (stTail p m i s).frc = s.frc
  unfold stTail stTail0
  simp only [stFull_frc]
  show (stPromo _ m).frc = _
  rw [stPromo_frc, stCastle_frc, stDouble_frc]

theorem stRelocate_frc (p : Position) (m : Mv) (i : Pc) (hash : BB) : (stRelocate p m i hash).frc = p.frc := by
  unfold stRelocate; simp only [setPiece_frc]
theorem capStep_frc (s : Position) (m : Mv) (c : Pc) : (capStep s m c).frc = s.frc := by
  unfold capStep; simp only [setPiece_frc]
theorem stClock_frc (s : Position) (i : Pc) : (stClock s i).frc = s.frc := by
  unfold stClock; split <;> rfl

theorem mmFrom_frc {p : Position} {m : Mv} {i : Pc} {hash : BB} {q : Position}
    (h : mmFrom p m i hash = some q) : q.frc = p.frc := by
  have key : ∀ s : Position, s.frc = p.frc →
      (if (i == 0 && fileOf m.src != fileOf m.dst && (p.pieceOn m.dst).isNone) = true then
          ((stClock s i).ep.bind fun ep => some (epStep (stClock s i) ep)).bind fun s => some (stTail p m i s).flip
        else (some (stClock s i)).bind fun s => some (stTail p m i s).flip) = some q → q.frc = p.frc := by
    intro s hs hq
    split at hq
    · simp only [Option.bind_eq_some_iff] at hq
      obtain ⟨s2, ⟨ep, _, h2⟩, h3⟩ := hq
      cases h2; cases h3
      rw [tail_frc]
      show (stClock s i).frc = _
      rw [stClock_frc, hs]
    · simp only [Option.bind_some] at hq
      cases hq
      rw [tail_frc, stClock_frc, hs]
  unfold mmFrom at h
  simp only [Option.bind_eq_bind, Option.pure_def] at h
  split at h
  · simp only [Option.bind_eq_some_iff] at h
    obtain ⟨s1, ⟨c, _, h1⟩, h2⟩ := h
    cases h1
    exact key _ (by rw [capStep_frc, stRelocate_frc]) h2
  · simp only [Option.bind_some] at h
    exact key _ (stRelocate_frc ..) h

theorem makemove_frc {p : Position} {m : Mv} {u : Bool} {q : Position} (h : p.makemove m u = some q) :
    q.frc = p.frc := by
  rw [makemove_eq_staged, mmStaged_eq] at h
  cases hpo : p.pieceOn m.src with
  | none => rw [hpo] at h; cases h
  | some i =>
    rw [hpo] at h
    simp only [Option.bind_eq_bind, Option.bind_some, Option.pure_def] at h
    cases u with
    | false =>
      simp only [Bool.false_eq_true, if_false] at h
      exact mmFrom_frc h
    | true =>
      simp only [if_true] at h
      cases hh : p.predictHash m with
      | none => rw [hh] at h; cases h
      | some hv =>
        rw [hh] at h
        exact mmFrom_frc h

/-! ## the move selected by a token -/

/-- the closure `castling` of `uci::moves::moves`. -/
def castleSel (pos : Position) (whiteString : Bool) (file : Nat) : Option Mv :=
  let mv : Mv := ⟨4, fromCoords file 0, 6⟩
  if whiteString == !pos.black && pos.c0.isSet mv.dst && (legalMoves pos).contains mv then some mv else none

/-- the move a token selects (`mv` in `uci::moves::moves`). -/
def denote (pos : Position) (t : List Char) : Option Mv :=
  match (legalMoves pos).find? fun m => toUciChars pos m == t with
  | some m => some m
  | none =>
    if t == str "e1g1" then castleSel pos true pos.cf0
    else if t == str "e1c1" then castleSel pos true pos.cf1
    else if t == str "e8g8" then castleSel pos false pos.cf0
    else if t == str "e8c8" then castleSel pos false pos.cf1
    else none

theorem applyToken_eq (pos : Position) (hist : List BB) (t : List Char) :
    applyToken pos hist t =
      match denote pos t with
      | none => some (pos, hist, ["info string unknown move " ++ String.ofList t])
      | some m =>
        match pos.makemove m true with
        | none => none
        | some np => some (np, np.hash :: hist, []) := by
  unfold applyToken denote castleSel
  generalize legalMoves pos = L
  generalize pos.makemove = mk
  rfl

theorem applyToken_frc {pos : Position} {hist : List BB} {t : List Char} {r : Position × List BB × List String}
    (h : applyToken pos hist t = some r) : r.1.frc = pos.frc := by
  rw [applyToken_eq] at h
  split at h
  · cases h; rfl
  · split at h
    · cases h
    · next np hm => cases h; exact makemove_frc hm

theorem applyTokens_frc {ts : List (List Char)} {pos : Position} {hist : List BB} {out : List String}
    {r : Position × List BB × List String} (h : applyTokens ts pos hist out = some r) : r.1.frc = pos.frc := by
  induction ts generalizing pos hist out with
  | nil => simp only [applyTokens] at h; cases h; rfl
  | cons t ts ih =>
    simp only [applyTokens] at h
    split at h
    · cases h
    · next p1 h1 o1 h1eq =>
      rw [ih h]
      exact applyToken_frc h1eq

/-! ## the loop invariant -/

/-- invariants of the second loop: the table has the configured number of slots and the position carries
the current `UCI_Chess960` flag. -/
structure UInv (s : UState) : Prop where
  len : s.tt.len = Table.numEntries s.hashMb Gen.ttEntrySize
  frc : s.pos.frc = s.frc

/-- the state a fresh engine with the given option values is in when it enters the second loop. -/
def fresh (hashMb : Nat) (frc : Bool) : UState :=
  { hashMb := hashMb, frc := frc, pos := { Gen.startpos with frc := frc },
    hist := [Gen.startpos.hash], tt := Table.new hashMb Gen.ttEntrySize }

theorem fresh_inv (hashMb : Nat) (frc : Bool) : UInv (fresh hashMb frc) :=
  ⟨Table.len_new _ _, rfl⟩

theorem doSetoption_inv {s : UState} (h : UInv s) (toks : List (List Char)) : UInv (doSetoption s toks true) := by
  unfold doSetoption
  split
  · split
    · exact h
    · split
      · split
        · exact ⟨Table.len_resize _ _ _, h.frc⟩
        · exact h
      · split
        · exact ⟨h.len, rfl⟩
        · exact h
  · exact h

/-- in the first loop `setoption` keeps `pos.frc = frc` (the table is resized afterwards). -/
theorem doSetoption_frc {s : UState} (h : s.pos.frc = s.frc) (toks : List (List Char)) (b : Bool) :
    (doSetoption s toks b).pos.frc = (doSetoption s toks b).frc := by
  unfold doSetoption
  split
  · split
    · exact h
    · split
      · split
        · split <;> exact h
        · exact h
      · split
        · rfl
        · exact h
  · exact h

theorem doPosition_inv {ar : Arith} {s : UState} (h : UInv s) {toks : List (List Char)} {r : UState × List String}
    (hr : doPosition ar s toks = some r) : UInv r.1 := by
  unfold doPosition at hr
  simp only at hr
  split at hr
  · cases hr
  · split at hr
    · cases hr
    · cases hr
      exact ⟨h.len, rfl⟩

theorem doGo_inv {ar : Arith} {clock : Nat → Bool} {s : UState} (h : UInv s) {toks : List (List Char)}
    {r : UState × List String} (hr : doGo ar clock s toks = some r) : UInv r.1 := by
  have search : ∀ lim, (match root lim 1000 s.pos s.hist s.tt with
      | none => none
      | some res =>
        some (({ s with hist := res.hist, tt := res.tt } : UState),
          res.infos.map (infoLine s.pos) ++
            [match res.best with | some m => "bestmove " ++ mvStr s.pos m | none => "bestmove 0000"])) = some r →
      UInv r.1 := by
    intro lim hr
    split at hr
    · cases hr
    · next res hres =>
      cases hr
      exact ⟨by rw [← h.len]; exact root_preserves_tt_len _ _ _ _ _ _ hres, h.frc⟩
  unfold doGo at hr
  split at hr
  · cases hr; exact h
  · simp only at hr
    split at hr
    · exact search _ hr
    · exact search _ hr
    · exact search _ hr
    · exact search _ hr
    · exact search _ hr
    · simp only [Option.map_eq_some_iff] at hr
      obtain ⟨l, _, hl⟩ := hr
      cases hl; exact h
    · simp only [Option.map_eq_some_iff] at hr
      obtain ⟨l, _, hl⟩ := hr
      cases hl; exact h

theorem stepSecond_inv {ar : Arith} {clock : Nat → Bool} {s : UState} (h : UInv s) {line : List Char}
    {r : UState × List String × Bool} (hr : stepSecond ar clock s line = some r) : UInv r.1 := by
  unfold stepSecond at hr
  simp only at hr
  split at hr
  · cases hr
    exact ⟨by rw [← h.len]; exact Table.len_clear _, rfl⟩
  split at hr
  · cases hr; exact h
  split at hr
  · cases hr; exact h
  split at hr
  · simp only [Option.map_eq_some_iff] at hr
    obtain ⟨a, ha, hb⟩ := hr
    cases hb
    exact doGo_inv h ha
  split at hr
  · simp only [Option.map_eq_some_iff] at hr
    obtain ⟨a, ha, hb⟩ := hr
    cases hb
    exact doPosition_inv h ha
  split at hr
  · simp only [Option.map_eq_some_iff] at hr
    obtain ⟨a, ha, hb⟩ := hr
    cases hb
    exact ⟨h.len, by rw [← h.frc]; exact applyTokens_frc ha⟩
  split at hr
  · cases hr; exact doSetoption_inv h _
  split at hr
  · cases hr; exact h
  split at hr
  · cases hr; exact h
  split at hr
  · cases hr; exact h
  · cases hr; exact h

theorem steps_inv {ar : Arith} {clock : Nat → Bool} {ls : List (List Char)} {s : UState} (h : UInv s)
    {r : UState × List String × Bool} (hr : steps ar clock s ls = some r) : UInv r.1 := by
  induction ls generalizing s r with
  | nil => simp only [steps] at hr; cases hr; exact h
  | cons l ls ih =>
    simp only [steps] at hr
    split at hr
    · cases hr
    · next s' o hs => cases hr; exact stepSecond_inv h hs
    · next s' o hs =>
      split at hr
      · cases hr
      · next s'' o' q h2 => cases hr; exact ih (r := (s'', o', q)) (stepSecond_inv h hs) h2

end Rawr
