import Rawr.Proofs.TerminationMono
import Rawr.Proofs.Hashtable
import Rawr.Proofs.SelSort
import Rawr.Props.C19
/-! Termination, part 2: the search structure alone (no chess).

* `QDomT G μ`: on the set `G` of positions every capture list fits the ordering buffer, every generated capture
  can be made, leads into `G` again and lowers the measure `μ`. Then `qminimax` and `qsearch` answer on every
  fuel above `μ p` (`qminimax_total`, `qsearch_total`).
* `NDomT G Φ`: on the fuel-indexed family `G` every move list fits, quiescence answers, the clock is not
  negative, every generated move can be made, leads into `G` one index lower, and either lowers the potential
  `Φ` or keeps it and advances the half-move clock by one; the null move (asked only where the model tries it:
  out of check and not `isEndgame`) stays in `G` and does not raise `Φ`. Then `negamax` answers on every fuel
  above `rank B (depth + 1) (Φ p) (clk ply halfmoves)` (`negamax_total`), and the driver answers
  (`rootIter_total`, `root_total`). -/
namespace Rawr.Term
open Rawr

theorem ex_ite {α : Type} {c : Prop} [Decidable c] {a b : Option α}
    (h1 : c → ∃ r, a = some r) (h2 : ¬c → ∃ r, b = some r) : ∃ r, (if c then a else b) = some r := by
  by_cases hc : c
  · rw [if_pos hc]; exact h1 hc
  · rw [if_neg hc]; exact h2 hc

theorem ne_none_of_ex {α : Type} {a : Option α} (h : ∃ r, a = some r) : a ≠ none := by
  obtain ⟨r, hr⟩ := h; rw [hr]; exact fun e => by cases e

/-! ## quiescence -/

structure QDomT (G : Position → Prop) (μ : Position → Nat) : Prop where
  fit : ∀ q, G q → (legalCaptures q).length ≤ Gen.orderBufQsearch
  step : ∀ q m, G q → m ∈ legalCaptures q → ∃ q', q.makemove m false = some q' ∧ G q' ∧ μ q' < μ q

theorem qminimax_total {G : Position → Prop} {μ : Position → Nat} (hD : QDomT G μ) :
    ∀ (f : Nat) (p : Position), G p → μ p < f → ∃ v, qminimax f p = some v := by
  intro f
  induction f with
  | zero => intro p _ h; omega
  | succ f ih =>
    intro p hG hμ
    rw [qminimax_succ]
    rw [AB.foldMax_isSome_iff]
    intro m hm
    obtain ⟨q', hmk, hG', hlt⟩ := hD.step p m hG hm
    obtain ⟨v, hv⟩ := ih q' hG' (by omega)
    exact ⟨-v, by simp only [qcv, hmk, hv]⟩

theorem qtreeOk {G : Position → Prop} {μ : Position → Nat} (hD : QDomT G μ) :
    ∀ (f : Nat) (p : Position), G p → QTreeOk f p := by
  intro f
  induction f with
  | zero => intro p _; trivial
  | succ f ih =>
    intro p hG
    refine ⟨hD.fit p hG, fun m hm np hmk => ?_⟩
    obtain ⟨q', hmk', hG', _⟩ := hD.step p m hG hm
    rw [hmk] at hmk'
    cases hmk'
    exact ih _ hG'

theorem qsearch_total {G : Position → Prop} {μ : Position → Nat} (hD : QDomT G μ)
    (f : Nat) (p : Position) (hG : G p) (hμ : μ p < f) (st : QState) (α β ply : Int) :
    ∃ r, qsearch f p st α β ply = some r := by
  obtain ⟨v, hv⟩ := qminimax_total hD f p hG hμ
  obtain ⟨r, st', h⟩ := C19_qsearch_defined f p st α β ply v hv (qtreeOk hD f p hG)
  exact ⟨_, h⟩

/-! ## the move loop -/

theorem sortNm_isSome (p : Position) (ms : List Mv) (tt : Option Mv) (h : ms.length ≤ Gen.orderBufNegamax) :
    ∃ l, sortNm p ms tt = some l := by
  unfold sortNm
  split
  · exact ⟨_, rfl⟩
  · rw [if_neg (by omega)]; exact ⟨_, rfl⟩

/-- the move loop answers when every move can be made and the recursive call answers on every child
for every window, state, flag and depth up to `depth - 1`. -/
theorem nmLoop_total (rec : Position → SState → Int → Int → Int → Int → Bool → Option (Int × SState))
    (p : Position) (beta ply depth : Int) (inCheck : Bool) (ms : List Mv)
    (h : ∀ m ∈ ms, ∃ np, p.makemove m true = some np ∧
      ∀ st a b d, d ≤ depth - 1 → ∃ r, rec np st a b (ply + 1) d true = some r) :
    ∀ (idx : Nat) (st : SState) (alpha best : Int) (bestMv : Option Mv),
      ∃ r, nmLoop rec p beta ply depth inCheck ms idx st alpha best bestMv = some r := by
  induction ms with
  | nil => intro idx st alpha best bestMv; exact ⟨_, rfl⟩
  | cons m ms ih =>
    intro idx st alpha best bestMv
    obtain ⟨np, hmk, hrec⟩ := h m List.mem_cons_self
    have ih := ih (fun m' hm' => h m' (List.mem_cons_of_mem _ hm'))
    simp only [nmLoop, hmk]
    generalize hres : (ite ((idx == 0) = true) _ _ : Option (Int × SState)) = res
    have hres' : ∃ x, res = some x := by
      subst hres
      refine ex_ite (fun _ => ?_) (fun _ => ?_)
      · generalize hr1 : rec _ _ _ _ _ _ _ = r1
        have hr : ∃ x, r1 = some x := by rw [← hr1]; exact hrec _ _ _ _ (by omega)
        obtain ⟨⟨v, s1⟩, rfl⟩ := hr
        exact ⟨_, rfl⟩
      · generalize hr1 : rec _ _ _ _ _ _ _ = r1
        have hr : ∃ x, r1 = some x := by rw [← hr1]; exact hrec _ _ _ _ (by split <;> omega)
        obtain ⟨⟨v, s1⟩, rfl⟩ := hr
        simp only []
        refine ex_ite (fun _ => ?_) (fun _ => ⟨_, rfl⟩)
        generalize hr1 : rec _ _ _ _ _ _ _ = r1
        have hr : ∃ x, r1 = some x := by rw [← hr1]; exact hrec _ _ _ _ (by omega)
        obtain ⟨⟨v, s1⟩, rfl⟩ := hr
        exact ⟨_, rfl⟩
    clear hres
    obtain ⟨⟨v, s1⟩, rfl⟩ := hres'
    simp only []
    exact ex_ite (fun _ => ⟨_, rfl⟩) (fun _ => ih _ _ _ _ _)

/-! ## the measure -/

/-- the clock coordinate: the root (which ignores the fifty-move rule) counts as one more than any clock. -/
def clk (ply hm : Int) : Nat := if ply = 0 then 101 else (100 - hm).toNat

/-- lexicographic rank of (depth bound, potential, clock), for potentials up to `B`. -/
def rank (B : Nat) (e : Int) (φ c : Nat) : Nat := e.toNat * (102 * (B + 1)) + φ * 102 + c

theorem rank_child_lt (B : Nat) (e ec : Int) (φ φc c cc : Nat) (he : ec ≤ e)
    (h : (φc < φ ∧ cc ≤ 101) ∨ (φc ≤ φ ∧ cc < c)) : rank B ec φc cc < rank B e φ c := by
  unfold rank
  have h1 : ec.toNat ≤ e.toNat := by omega
  have h2 := Nat.mul_le_mul_right (102 * (B + 1)) h1
  generalize ec.toNat * (102 * (B + 1)) = X at h2
  generalize e.toNat * (102 * (B + 1)) = Y at h2
  omega

theorem rank_null_lt (B : Nat) (e ec : Int) (φ φc c cc : Nat) (he : ec + 1 ≤ e) (he0 : 0 < e)
    (hφ : φc ≤ B) (hc : cc ≤ 101) : rank B ec φc cc < rank B e φ c := by
  unfold rank
  have h1 : ec.toNat + 1 ≤ e.toNat := by omega
  have h2 := Nat.mul_le_mul_right (102 * (B + 1)) h1
  rw [Nat.succ_mul] at h2
  generalize ec.toNat * (102 * (B + 1)) = X at h2
  generalize e.toNat * (102 * (B + 1)) = Y at h2
  omega

theorem rank_mono_depth (B : Nat) (e e' : Int) (φ c : Nat) (he : e ≤ e') : rank B e φ c ≤ rank B e' φ c := by
  unfold rank
  have h1 : e.toNat ≤ e'.toNat := by omega
  have h2 := Nat.mul_le_mul_right (102 * (B + 1)) h1
  omega

/-! ## the main search -/

structure NDomT (G : Nat → Position → Prop) (Φ : Position → Nat) : Prop where
  fit : ∀ n q, G n q → (legalMoves q).length ≤ Gen.orderBufNegamax
  qs : ∀ n q, G n q → ∀ st α β ply, ∃ r, qsearch qFuel q st α β ply = some r
  clock : ∀ n q, G n q → 0 ≤ q.halfmoves
  step : ∀ n q m, G (n + 1) q → m ∈ legalMoves q → ∃ q', q.makemove m true = some q' ∧ G n q' ∧
    (Φ q' < Φ q ∨ (Φ q' ≤ Φ q ∧ q'.halfmoves = q.halfmoves + 1))
  null : ∀ n q, G (n + 1) q → q.inCheck = false → isEndgame q = false → G n q.makenull ∧ Φ q.makenull ≤ Φ q

theorem negamax_total (lim : Limit) {G : Nat → Position → Prop} {Φ : Position → Nat} (hD : NDomT G Φ)
    (B : Nat) : ∀ (f : Nat) (p : Position) (st : SState) (α β ply depth : Int) (cn : Bool),
      0 ≤ ply → G f p → Φ p ≤ B → rank B (depth + 1) (Φ p) (clk ply p.halfmoves) < f →
      ∃ r, negamax lim f p st α β ply depth cn = some r := by
  intro f
  induction f with
  | zero => intro p st α β ply depth cn _ _ _ h; omega
  | succ f ih =>
    intro p st α β ply depth cn hply hG hB hrank
    have hhm : 0 ≤ p.halfmoves := hD.clock _ _ hG
    simp only [negamax]
    generalize hd' : (if p.inCheck = true then depth + 1 else depth) = d'
    have hd'le : d' ≤ depth + 1 := by rw [← hd']; split <;> omega
    generalize (ite (_ = true) (shouldStop lim _) (false, _) : Bool × SState) = pr
    obtain ⟨stop, s1⟩ := pr
    simp only []
    generalize hp : (Table.poll _ _ : Option TTEntry) = probe
    have hprobe : ∃ e, probe = some e := by rw [← hp]; exact Table.poll_ne_none _ _
    clear hp
    obtain ⟨tte, rfl⟩ := hprobe
    simp only []
    generalize (ite (_ = true) _ _ : Option Int × Int × Int) = cut
    rcases cut with ⟨_ | v, alpha, beta⟩ <;> simp only []
    case some => exact ⟨_, rfl⟩
    -- quiescence
    refine ex_ite (fun _ => ?_) (fun hdpos => ?_)
    · generalize hq : qsearch _ _ _ _ _ _ = q
      have hq' : ∃ x, q = some x := by rw [← hq]; exact hD.qs _ _ hG _ _ _ _
      obtain ⟨⟨v, qs⟩, rfl⟩ := hq'
      exact ⟨_, rfl⟩
    -- stopped / rule draw / reverse futility
    refine ex_ite (fun _ => ⟨_, rfl⟩) (fun _ => ?_)
    refine ex_ite (fun _ => ⟨_, rfl⟩) (fun hdraw => ?_)
    refine ex_ite (fun _ => ⟨_, rfl⟩) (fun _ => ?_)
    -- what the rule-draw test leaves: a non-root node has clock < 100
    have hclk : ply ≠ 0 → p.halfmoves < 100 := by
      intro h0
      have : (ply == 0) = false := by simpa using h0
      simp only [this, Bool.not_false, Bool.true_and, Bool.or_eq_true, decide_eq_true_eq, not_or] at hdraw
      omega
    -- a child's clock coordinate
    have hclkc : ∀ hm : Int, clk (ply + 1) hm = (100 - hm).toNat := by
      intro hm; unfold clk; rw [if_neg (by omega)]
    -- null move
    generalize hn : (ite (_ = true) _ _ : Option (Option Int × SState)) = nr
    have hnr : ∃ x, nr = some x := by
      subst hn
      refine ex_ite (fun hc => ?_) (fun _ => ⟨_, rfl⟩)
      simp only [Bool.and_eq_true, Bool.not_eq_true', decide_eq_true_eq] at hc
      obtain ⟨⟨⟨⟨_, _⟩, hd2⟩, hnc⟩, hne⟩ := hc
      obtain ⟨hGn, hΦn⟩ := hD.null _ _ hG hnc hne
      generalize hr1 : negamax lim f _ _ _ _ _ _ _ = r1
      have hr : ∃ x, r1 = some x := by
        rw [← hr1]
        refine ih _ _ _ _ _ _ _ (by omega) hGn (by omega) ?_
        refine Nat.lt_of_lt_of_le (rank_null_lt B (depth + 1) _ (Φ p) _ (clk ply p.halfmoves) _ (by omega)
          (by omega) (by omega) ?_) (by omega)
        rw [hclkc]
        show (100 - (0 : Int)).toNat ≤ 101
        decide
      obtain ⟨⟨v, s2⟩, rfl⟩ := hr
      simp only []
      exact ex_ite (fun _ => ⟨_, rfl⟩) (fun _ => ⟨_, rfl⟩)
    clear hn
    obtain ⟨⟨ov, s2⟩, rfl⟩ := hnr
    rcases ov with _ | v <;> simp only []
    case some => exact ⟨_, rfl⟩
    -- move ordering
    generalize hs : sortNm _ _ _ = sorted
    have hsorted : ∃ l, sorted = some l := by rw [← hs]; exact sortNm_isSome _ _ _ (hD.fit _ _ hG)
    obtain ⟨moves, rfl⟩ := hsorted
    have hperm := sortNm_perm _ _ _ _ hs
    clear hs
    simp only []
    -- the move loop
    generalize hl : nmLoop (negamax lim f) _ _ _ _ _ _ _ _ _ _ _ = l
    have hloop : ∃ x, l = some x := by
      rw [← hl]
      refine nmLoop_total _ _ _ _ _ _ _ (fun m hm => ?_) _ _ _ _ _
      obtain ⟨q', hmk, hG', hΦ⟩ := hD.step _ _ _ hG (hperm.mem_iff.mp hm)
      refine ⟨q', hmk, fun st a b d hd => ?_⟩
      have hhm' : 0 ≤ q'.halfmoves := hD.clock _ _ hG'
      refine ih _ _ _ _ _ _ _ (by omega) hG' (by omega) ?_
      refine Nat.lt_of_lt_of_le (rank_child_lt B (depth + 1) _ (Φ p) _ (clk ply p.halfmoves) _ (by omega) ?_)
        (by omega)
      rw [hclkc]
      rcases hΦ with hlt | ⟨hle, hhalf⟩
      · left; exact ⟨hlt, by omega⟩
      · right
        refine ⟨hle, ?_⟩
        unfold clk
        by_cases h0 : ply = 0
        · rw [if_pos h0]; omega
        · rw [if_neg h0]; have := hclk h0; omega
    clear hl
    obtain ⟨⟨s3, a3, best, bestMv⟩, rfl⟩ := hloop
    simp only []
    rcases bestMv with _ | bm <;> simp only []
    · exact ⟨_, rfl⟩
    generalize hst : (Table.add _ _ _ : Option (Table TTEntry)) = stored
    have hstored : ∃ t, stored = some t := by rw [← hst]; exact Table.add_ne_none _ _ _
    obtain ⟨t, rfl⟩ := hstored
    exact ⟨_, rfl⟩

/-! ## the driver -/

theorem rootIter_total (lim : Limit) (fuel : Nat) (p : Position)
    (h : ∀ (d : Int) (st : SState), 1 ≤ d → d < Gen.MAX_DEPTH →
      ∃ r, negamax lim fuel p st (-Gen.INF) Gen.INF 0 d false = some r) (k : Nat) :
    ∀ (depth : Int) (st : SState) (bm : Option Mv) (infos : List InfoRec), 1 ≤ depth →
      ∃ r, rootIter lim fuel p k depth st bm infos = some r := by
  induction k with
  | zero => intro depth st bm infos _; exact ⟨_, rfl⟩
  | succ k ih =>
    intro depth st bm infos hd
    simp only [rootIter]
    refine ex_ite (fun _ => ⟨_, rfl⟩) (fun hlt => ?_)
    generalize hr1 : negamax lim fuel _ _ _ _ _ _ _ = r1
    have hr : ∃ x, r1 = some x := by rw [← hr1]; exact h _ _ hd (by omega)
    obtain ⟨⟨v, s1⟩, rfl⟩ := hr
    simp only []
    cases s1.best with
    | none => exact ⟨_, rfl⟩
    | some b =>
      simp only []
      generalize (if depth > 1 then shouldStop lim s1 else (false, s1)) = pr
      obtain ⟨stop, s2⟩ := pr
      simp only []
      exact ex_ite (fun _ => ⟨_, rfl⟩) (fun _ => ih _ _ _ _ (by omega))

/-- the driver answers as soon as the root calls of all iterations `1 ≤ d < MAX_DEPTH` do. -/
theorem root_total_of (lim : Limit) (fuel : Nat) (p : Position) (hist : List BB) (tt : Table TTEntry)
    (h : ∀ (d : Int) (st : SState), 1 ≤ d → d < Gen.MAX_DEPTH →
      ∃ r, negamax lim fuel p st (-Gen.INF) Gen.INF 0 d false = some r) :
    ∃ r, root lim fuel p hist tt = some r :=
  rootIter_total lim fuel p h _ _ _ _ _ (by decide)

/-- fuel sufficient for every iteration of the driver on a position of potential `φ ≤ B`. -/
def rootFuel (B φ : Nat) : Nat := rank B Gen.MAX_DEPTH φ 101 + 1

theorem root_total (lim : Limit) {G : Nat → Position → Prop} {Φ : Position → Nat} (hD : NDomT G Φ)
    (B : Nat) (p : Position) (hist : List BB) (tt : Table TTEntry) (hB : Φ p ≤ B)
    (hG : G (rootFuel B (Φ p)) p) : ∃ r, root lim (rootFuel B (Φ p)) p hist tt = some r := by
  refine root_total_of lim _ p hist tt (fun d st h1 h2 => ?_)
  refine negamax_total lim hD B _ p st _ _ 0 d false (by omega) hG hB ?_
  have : clk 0 p.halfmoves = 101 := rfl
  rw [this]
  unfold rootFuel
  have := rank_mono_depth B (d + 1) Gen.MAX_DEPTH (Φ p) 101 (by omega)
  omega

end Rawr.Term
