import Rawr.Model.Eval
import Rawr.Proofs.FlipLemmas
/-! Helper lemmas about the evaluation model: it reads only the eight boards; `phase` is
flip-invariant; `taper` is odd in the score (core Lean only). -/
namespace Rawr

/-- The eight boards of two positions coincide. -/
def SameBoards (p q : Position) : Prop :=
  p.c0 = q.c0 ∧ p.c1 = q.c1 ∧ p.p0 = q.p0 ∧ p.p1 = q.p1 ∧ p.p2 = q.p2 ∧ p.p3 = q.p3 ∧
  p.p4 = q.p4 ∧ p.p5 = q.p5

theorem SameBoards.piece {p q : Position} (h : SameBoards p q) : p.piece = q.piece := by
  obtain ⟨_, _, h0, h1, h2, h3, h4, h5⟩ := h
  funext i
  unfold Position.piece
  split <;> first | assumption | rfl

theorem SameBoards.flip {p q : Position} (h : SameBoards p q) : SameBoards p.flip q.flip := by
  obtain ⟨g0, g1, h0, h1, h2, h3, h4, h5⟩ := h
  simp only [SameBoards, Position.flip_c0, Position.flip_c1, Position.flip_p0, Position.flip_p1,
    Position.flip_p2, Position.flip_p3, Position.flip_p4, Position.flip_p5, g0, g1, h0, h1, h2, h3,
    h4, h5, and_self]

theorem evalUsT_congr (T : EvalTables) {p q : Position} (h : SameBoards p q) :
    evalUsT T p = evalUsT T q := by
  have hp := h.piece
  obtain ⟨g0, g1, h0, _, _, h3, _, h5⟩ := h
  unfold evalUsT
  rw [g0, g1, h0, h3, h5, hp]

theorem phase_congr {p q : Position} (h : SameBoards p q) : phase p = phase q := by
  obtain ⟨_, _, _, h1, h2, h3, h4, _⟩ := h
  unfold phase
  rw [h1, h2, h3, h4]

theorem evalT_congr (T : EvalTables) {p q : Position} (h : SameBoards p q) :
    evalT T p = evalT T q := by
  unfold evalT
  rw [evalUsT_congr T h, evalUsT_congr T h.flip, phase_congr h]

/-- `get_phase` does not change under `flip`. -/
theorem phase_flip (p : Position) : phase p.flip = phase p := by
  unfold phase
  simp only [Position.flip_p1, Position.flip_p2, Position.flip_p3, Position.flip_p4, count_flipBB]

/-- `taper` is an odd function of the score (Rust's `/` truncates towards zero). -/
theorem taper_sub_swap (a b : Score) (ph : Int) : taper (b.sub a) ph = - taper (a.sub b) ph := by
  unfold taper Score.sub
  rw [← Int.neg_tdiv]
  congr 1
  simp only [Int.sub_mul]
  omega

end Rawr
