import Rawr.Proofs.RustSearchAgree_QSearch
import Rawr.Proofs.GenShapeMove
import Rawr.Proofs.MakeMoveAbsF
/-!
# The side condition of the search agreement theorems holds on well-formed positions

`SrcOk p (legalMoves p)` (no generated move starts from an empty square, so `piece.unwrap()` in the ordering code
cannot panic) follows from the generator shape lemmas for every position with the board facts `VFacts`
(consistent boards, one own king, castling rights backed by rooks, a well-formed en-passant square);
`ValidPos p` implies `VFacts p` (`vfacts_of_valid`); `RustSearchAgree_Rules.lean` carries this along the search tree.
-/
namespace Rawr

theorem srcOk_of_vfacts {p : Position} (F : VFacts p) : SrcOk p (legalMoves p) := by
  intro m hm _
  unfold legalMoves at hm
  obtain ⟨g, hg, rfl⟩ := List.mem_map.mp hm
  obtain ⟨i, hi⟩ := MM.shape_piece (moveShape_of_genOk F (gen_shape_of p F g hg))
  simp [hi]

end Rawr

#print axioms Rawr.srcOk_of_vfacts
