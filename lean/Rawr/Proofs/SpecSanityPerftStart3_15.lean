import Rawr.Proofs.SpecSanityPerftDefs
/-! perft of the start position, depth 3, slice 15: the subtree of first move `.normal 13 29 none` (kernel-evaluated). -/
namespace Rawr.SpecS
open Rawr.Spec

theorem start3_15 : leaves (apply stdStart (.normal 13 29 none)) 2 = 401 := by decide +kernel

end Rawr.SpecS
