import Rawr.Proofs.SearchHist
import Rawr.Proofs.SelSort
/-! Helper lemmas for C03 / C14: the range lemma.

Every score returned by an interior `negamax` call (`ply ≥ 1`) lies strictly inside `(-K, K)` for any
`K` with `MATE_SCORE ≤ K`, provided
* the table handed in only stores scores in `(-K, K)` (`TTIn K`, preserved),
* the static evaluation and the quiescence values of the positions the search visits are within
  `±EB = ±174416` (`SearchDom G`; the constant is the one `C17_bounds_all_V1` proves for every position with
  consistent boards),
* the ply counter cannot run past `K + MATE_SCORE` (`ply + fuel ≤ K + MATE_SCORE`): a mated node answers
  `-MATE_SCORE + ply`. -/
namespace Rawr

/-- strictly inside `(-K, K)`. -/
def InR (K v : Int) : Prop := -K < v ∧ v < K

theorem InR.neg {K v : Int} (h : InR K v) : InR K (-v) := by
  unfold InR at *; omega

theorem InR.mono {K K' v : Int} (h : InR K v) (hk : K ≤ K') : InR K' v := by
  unfold InR at *; omega

/-- every stored score is strictly inside `(-K, K)`. -/
def TTIn (K : Int) (t : Table TTEntry) : Prop := ∀ e ∈ t.entries, InR K e.score

theorem TTIn.poll {K : Int} {t : Table TTEntry} {key : Nat} {e : TTEntry} (hK : 0 < K) (h : TTIn K t)
    (hp : t.poll key = some e) : InR K e.score := by
  unfold Table.poll at hp
  split at hp
  · simp only [Option.some.injEq] at hp
    subst hp
    exact ⟨by show -K < (0 : Int); omega, by show (0 : Int) < K; omega⟩
  · exact h e (Array.mem_of_getElem? hp)

theorem TTIn.add {K : Int} {t t' : Table TTEntry} {key : Nat} {e : TTEntry} (h : TTIn K t)
    (he : InR K e.score) (ha : t.add key e = some t') : TTIn K t' := by
  unfold Table.add at ha
  split at ha
  · simp only [Option.some.injEq] at ha; subst ha; exact h
  · simp only [Option.some.injEq] at ha; subst ha
    intro x hx
    rcases Array.mem_or_eq_of_mem_setIfInBounds hx with h1 | h1
    · exact h x h1
    · subst h1; exact he

/-- a table whose entries are all `default` (fresh or cleared). -/
theorem TTIn.replicate {K : Int} (hK : 0 < K) (n : Nat) : TTIn K ⟨Array.replicate n default⟩ := by
  intro e he
  have : e = default := (Array.mem_replicate.1 he).2
  subst this
  exact ⟨by show -K < (0 : Int); omega, by show (0 : Int) < K; omega⟩

/-! ## quiescence -/

/-- the evaluation bound `C17_bounds_all_V1` proves for every position with consistent boards. -/
def EB : Int := 174416

/-- within `±EB`. -/
def VIn (v : Int) : Prop := -EB ≤ v ∧ v ≤ EB

theorem VIn.neg {v : Int} (h : VIn v) : VIn (-v) := by unfold VIn at *; omega

/-- a (fuel-indexed) family of positions closed under the captures quiescence makes, on which the static
evaluation is within `±EB`. -/
structure QDom (Q : Nat → Position → Prop) : Prop where
  eval : ∀ n q, Q (n + 1) q → VIn (eval q)
  capt : ∀ n q m q', Q (n + 1) q → m ∈ legalCaptures q → q.makemove m false = some q' → Q n q'

theorem qloop_range (rec : Position → QState → Int → Int → Int → Option (Int × QState))
    (P : Position → Prop)
    (hrec : ∀ np st a b pl v st', P np → rec np st a b pl = some (v, st') → VIn v)
    (p : Position) (beta ply : Int) :
    ∀ (ms : List Mv) (st : QState) (alpha best v : Int) (st' : QState),
      (∀ m ∈ ms, ∀ np, p.makemove m false = some np → P np) → VIn best →
      qloop rec p beta ply ms st alpha best = some (v, st') → VIn v := by
  intro ms
  induction ms with
  | nil =>
    intro st alpha best v st' _ hb h
    simp only [qloop, Option.some.injEq, Prod.mk.injEq] at h
    rw [← h.1]; exact hb
  | cons m ms ih =>
    intro st alpha best v st' hP hb h
    simp only [qloop] at h
    split at h
    · simp at h
    rename_i np hnp
    split at h
    · simp at h
    rename_i sc s1 hsc
    have hv : VIn sc := hrec _ _ _ _ _ _ _ (hP m List.mem_cons_self np hnp) hsc
    have hb1 : VIn (if -sc > best then -sc else best) := by
      split
      · exact hv.neg
      · exact hb
    ite_split h
    · simp only [Option.some.injEq, Prod.mk.injEq] at h
      rw [← h.1]; exact hb1
    · exact ih _ _ _ _ _ (fun m' hm' => hP m' (List.mem_cons_of_mem _ hm')) hb1 h

theorem qsearch_range (Q : Nat → Position → Prop) (hQ : QDom Q) :
    ∀ (fuel : Nat) (q : Position) (st : QState) (a b ply v : Int) (st' : QState),
      Q fuel q → qsearch fuel q st a b ply = some (v, st') → VIn v := by
  intro fuel
  induction fuel with
  | zero => intro q st a b ply v st' _ h; simp [qsearch] at h
  | succ fuel ih =>
    intro q st a b ply v st' hq h
    simp only [qsearch] at h
    have he := hQ.eval _ _ hq
    ite_split h
    · simp only [Option.some.injEq, Prod.mk.injEq] at h
      rw [← h.1]; exact he
    split at h
    · simp at h
    rename_i moves hsort
    have hperm := sortQs_perm _ _ _ hsort
    refine qloop_range (qsearch fuel) (Q fuel) (fun np st a b pl v st' hp hr => ih np st a b pl v st' hp hr)
      q b ply moves _ _ _ _ _ ?_ he h
    intro m hm np hnp
    exact hQ.capt _ _ _ _ hq (hperm.mem_iff.1 hm) hnp

/-! ## the domain of a search -/

/-- what `negamax` consults at a node beside its children: the static evaluation and quiescence. -/
def QOk (q : Position) : Prop :=
  VIn (eval q) ∧ ∀ st a b ply v st', qsearch qFuel q st a b ply = some (v, st') → VIn v

/-- a (fuel-indexed) family of positions closed under the moves `negamax` makes (legal moves and the null
move), on which evaluation and quiescence answer within `±EB`. -/
structure SearchDom (G : Nat → Position → Prop) : Prop where
  move : ∀ n q m q', G (n + 1) q → m ∈ legalMoves q → q.makemove m true = some q' → G n q'
  null : ∀ n q, G (n + 1) q → G n q.makenull
  qok : ∀ n q, G (n + 1) q → QOk q

/-! ## the move loop -/

/-- outcome of the loop for the pair (best score, best move): untouched, or set by one of the moves to a
score in range. -/
def LoopOut (K : Int) (ms : List Mv) (best : Int) (bestMv : Option Mv) (b' : Int) (bm' : Option Mv) : Prop :=
  (b' = best ∧ bm' = bestMv) ∨ (InR K b' ∧ ∃ m ∈ ms, bm' = some m)

theorem nmLoop_range (K : Int)
    (rec : Position → SState → Int → Int → Int → Int → Bool → Option (Int × SState))
    (P : Position → Prop) (p : Position) (beta ply depth : Int) (inCheck : Bool)
    (hrec : ∀ np s a b d c v s', P np → TTIn K s.tt → rec np s a b (ply + 1) d c = some (v, s') →
      InR K v ∧ TTIn K s'.tt) :
    ∀ (ms : List Mv) (idx : Nat) (st : SState) (alpha best : Int) (bestMv : Option Mv)
      (st' : SState) (a' b' : Int) (bm' : Option Mv),
      (∀ m ∈ ms, ∀ np, p.makemove m true = some np → P np) → TTIn K st.tt →
      nmLoop rec p beta ply depth inCheck ms idx st alpha best bestMv = some (st', a', b', bm') →
      TTIn K st'.tt ∧ LoopOut K ms best bestMv b' bm' ∧
        (ms ≠ [] → best ≤ -K → InR K b' ∧ ∃ m ∈ ms, bm' = some m) := by
  intro ms
  induction ms with
  | nil =>
    intro idx st alpha best bestMv st' a' b' bm' _ htt h
    simp only [nmLoop, Option.some.injEq, Prod.mk.injEq] at h
    obtain ⟨h1, _, h3, h4⟩ := h
    subst h1 h3 h4
    exact ⟨htt, Or.inl ⟨rfl, rfl⟩, fun hne => absurd rfl hne⟩
  | cons m ms ih =>
    intro idx st alpha best bestMv st' a' b' bm' hP htt h
    simp only [nmLoop] at h
    split at h
    · simp at h
    rename_i np hnp
    have hPnp : P np := hP m List.mem_cons_self np hnp
    generalize hres : (ite (_ = true) _ _ : Option (Int × SState)) = res at h
    have hresR : ∀ score s1, res = some (score, s1) → InR K score ∧ TTIn K s1.tt := by
      intro score s1 h1
      rw [h1] at hres
      rcases ite_cases hres with ⟨_, hr⟩ | ⟨_, hr⟩
      · split at hr
        · simp at hr
        · rename_i sc s2 hc
          have h2 := hrec _ _ _ _ _ _ _ _ hPnp (by exact htt) hc
          simp only [Option.some.injEq, Prod.mk.injEq] at hr
          rw [← hr.1, ← hr.2]; exact ⟨h2.1.neg, h2.2⟩
      · split at hr
        · simp at hr
        · rename_i sc s2 hc
          have h2 := hrec _ _ _ _ _ _ _ _ hPnp (by exact htt) hc
          ite_split hr
          · split at hr
            · simp at hr
            · rename_i sc3 s3 hc3
              have h3 := hrec _ _ _ _ _ _ _ _ hPnp (by exact h2.2) hc3
              simp only [Option.some.injEq, Prod.mk.injEq] at hr
              rw [← hr.1, ← hr.2]; exact ⟨h3.1.neg, h3.2⟩
          · simp only [Option.some.injEq, Prod.mk.injEq] at hr
            rw [← hr.1, ← hr.2]; exact ⟨h2.1.neg, h2.2⟩
    clear hres
    split at h
    · simp at h
    rename_i score s1
    obtain ⟨hsc, hs1⟩ := hresR _ _ rfl
    have hP' : ∀ m' ∈ ms, ∀ np, p.makemove m' true = some np → P np :=
      fun m' hm' => hP m' (List.mem_cons_of_mem _ hm')
    by_cases hsb : score > best
    · simp only [hsb, ↓reduceIte] at h
      ite_split h
      · simp only [Option.some.injEq, Prod.mk.injEq] at h
        obtain ⟨h1, _, h3, h4⟩ := h
        subst h1 h3 h4
        exact ⟨hs1, Or.inr ⟨hsc, m, List.mem_cons_self, rfl⟩, fun _ _ => ⟨hsc, m, List.mem_cons_self, rfl⟩⟩
      · obtain ⟨i1, i2, _⟩ := ih _ _ _ _ _ _ _ _ _ hP' (by exact hs1) h
        have hout : InR K b' ∧ ∃ m' ∈ m :: ms, bm' = some m' := by
          rcases i2 with ⟨e1, e2⟩ | ⟨e1, m', hm', e2⟩
          · rw [e1, e2]; exact ⟨hsc, m, List.mem_cons_self, rfl⟩
          · exact ⟨e1, m', List.mem_cons_of_mem _ hm', e2⟩
        exact ⟨i1, Or.inr hout, fun _ _ => hout⟩
    · simp only [hsb, ↓reduceIte] at h
      have hnb : ¬ best ≤ -K := by
        intro hb
        have := hsc.1
        omega
      ite_split h
      · simp only [Option.some.injEq, Prod.mk.injEq] at h
        obtain ⟨h1, _, h3, h4⟩ := h
        subst h1 h3 h4
        exact ⟨hs1, Or.inl ⟨rfl, rfl⟩, fun _ hb => absurd hb hnb⟩
      · obtain ⟨i1, i2, _⟩ := ih _ _ _ _ _ _ _ _ _ hP' (by exact hs1) h
        refine ⟨i1, ?_, fun _ hb => absurd hb hnb⟩
        rcases i2 with e | ⟨e1, m', hm', e2⟩
        · exact Or.inl e
        · exact Or.inr ⟨e1, m', List.mem_cons_of_mem _ hm', e2⟩

/-! ## interior nodes -/

theorem cut_some_val {c c0 c1 : Prop} [Decidable c] [Decidable c0] [Decidable c1] {sc α β a1 b1 v a b : Int}
    (h : (if c then (if c0 then (some sc, α, β) else if c1 then (some sc, a1, b1) else (none, a1, b1))
      else (none, α, β)) = (some v, a, b)) : v = sc := by
  split at h
  · split at h
    · simp only [Prod.mk.injEq, Option.some.injEq] at h; exact h.1.symm
    · split at h
      · simp only [Prod.mk.injEq, Option.some.injEq] at h; exact h.1.symm
      · simp at h
  · simp at h

theorem EB_lt_MATE : EB + 300 < Gen.MATE_SCORE := by decide

/-- The range lemma for interior nodes. -/
theorem negamax_range (lim : Limit) (G : Nat → Position → Prop) (hG : SearchDom G) (K : Int)
    (hK : Gen.MATE_SCORE ≤ K) :
    ∀ (fuel : Nat) (p : Position) (st : SState) (α β ply depth : Int) (cn : Bool) (v : Int) (st' : SState),
      G fuel p → TTIn K st.tt → 1 ≤ ply → ply + fuel ≤ K + Gen.MATE_SCORE →
      negamax lim fuel p st α β ply depth cn = some (v, st') → InR K v ∧ TTIn K st'.tt := by
  have hEB := EB_lt_MATE
  have hM : Gen.MATE_SCORE = 1000000 := rfl
  have hD : Gen.DRAW_SCORE = -50 := rfl
  intro fuel
  induction fuel with
  | zero => intro p st α β ply depth cn v st' _ _ _ _ h; simp [negamax] at h
  | succ fuel ih =>
    intro p st α β ply depth cn v st' hGp htt hply hbound h
    have hq := hG.qok _ _ hGp
    simp only [negamax] at h
    generalize hpr : (ite (_ = true) (shouldStop lim _) (false, _) : Bool × SState) = pr at h
    have hprtt : TTIn K pr.2.tt := by
      rw [← hpr]; split <;> exact htt
    clear hpr
    -- table probe
    split at h
    · simp at h
    rename_i tte hpoll
    have htte : InR K tte.score := htt.poll (by omega) hpoll
    -- table cut-off
    split at h
    · rename_i v0 _ _ hcut
      have hv0 : v0 = tte.score := cut_some_val hcut
      simp only [Option.some.injEq, Prod.mk.injEq] at h
      rw [← h.1, ← h.2, hv0]; exact ⟨htte, htt⟩
    -- quiescence
    ite_split h
    · split at h
      · simp at h
      · rename_i v1 q1 hqs
        have hv1 := hq.2 _ _ _ _ _ _ hqs
        simp only [Option.some.injEq, Prod.mk.injEq] at h
        rw [← h.1, ← h.2]
        refine ⟨?_, htt⟩
        unfold VIn at hv1; unfold InR; omega
    rename_i hdpos
    -- stopped
    ite_split h
    · simp only [Option.some.injEq, Prod.mk.injEq] at h
      rw [← h.1, ← h.2]
      exact ⟨by unfold InR; omega, hprtt⟩
    -- rule draws
    ite_split h
    · simp only [Option.some.injEq, Prod.mk.injEq] at h
      rw [← h.1, ← h.2]
      exact ⟨by unfold InR; omega, hprtt⟩
    -- reverse futility
    ite_split h
    · rename_i hrfp
      simp only [Bool.and_eq_true, decide_eq_true_eq] at hrfp
      simp only [Option.some.injEq, Prod.mk.injEq] at h
      rw [← h.1, ← h.2]
      refine ⟨?_, hprtt⟩
      have he := hq.1
      unfold VIn at he; unfold InR
      omega
    -- null move
    generalize hnr : (ite (_ = true) _ _ : Option (Option Int × SState)) = nr at h
    have hnullR : ∀ ov s2, nr = some (ov, s2) → TTIn K s2.tt ∧ ∀ v2, ov = some v2 → InR K v2 := by
      intro ov s2 h1
      rw [h1] at hnr
      rcases ite_cases hnr with ⟨_, hn⟩ | ⟨_, hn⟩
      · split at hn
        · simp at hn
        · rename_i sc s3 hc
          have h3 := ih _ _ _ _ _ _ _ _ _ (hG.null _ _ hGp) (by exact hprtt) (by omega) (by omega) hc
          ite_split hn <;>
          · simp only [Option.some.injEq, Prod.mk.injEq] at hn
            rw [← hn.1, ← hn.2]
            refine ⟨h3.2, ?_⟩
            intro v2 hv2
            first
              | (simp only [Option.some.injEq] at hv2; rw [← hv2]; exact h3.1.neg)
              | simp at hv2
      · simp only [Option.some.injEq, Prod.mk.injEq] at hn
        rw [← hn.1, ← hn.2]
        exact ⟨hprtt, fun v2 hv2 => by simp at hv2⟩
    clear hnr
    split at h
    · simp at h
    · obtain ⟨n1, n2⟩ := hnullR _ _ rfl
      simp only [Option.some.injEq, Prod.mk.injEq] at h
      rw [← h.1, ← h.2]
      exact ⟨n2 _ rfl, n1⟩
    · obtain ⟨n1, _⟩ := hnullR _ _ rfl
      -- move ordering
      split at h
      · simp at h
      rename_i moves hsort
      have hperm := sortNm_perm _ _ _ _ hsort
      -- the move loop
      split at h
      · simp at h
      rename_i s4 a4 best bestMv hloop
      obtain ⟨l1, l2, _⟩ := nmLoop_range K (negamax lim fuel) (G fuel) p _ ply _ _
        (fun np s a b d c v s' hp ht hr => ih np s a b (ply + 1) d c v s' hp ht (by omega) (by omega) hr)
        moves _ _ _ _ _ _ _ _ _
        (fun m hm np hnp => hG.move _ _ _ _ hGp (hperm.mem_iff.1 hm) hnp) n1 hloop
      -- no legal move / store
      split at h
      · simp only [Option.some.injEq, Prod.mk.injEq] at h
        rw [← h.1, ← h.2]
        refine ⟨?_, l1⟩
        unfold InR
        split <;> omega
      · rename_i bm
        have hb : InR K best := by
          rcases l2 with ⟨_, e2⟩ | ⟨e1, _⟩
          · simp at e2
          · exact e1
        split at h
        · simp at h
        · rename_i tt' hadd
          simp only [Option.some.injEq, Prod.mk.injEq] at h
          rw [← h.1, ← h.2]
          exact ⟨hb, l1.add hb hadd⟩

end Rawr
