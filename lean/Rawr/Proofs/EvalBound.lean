import Rawr.Model.Eval
import Rawr.Proofs.FlipLemmas
/-! Bounds for the evaluation over the extracted tables (core Lean only): population-count
inequalities, sums of bounded `Score`s, truncating division. -/
namespace Rawr

/-! ### population counts -/

theorem count_le_of_imp {a b : BB} (h : ∀ i, a.getLsbD i = true → b.getLsbD i = true) :
    count a ≤ count b := by
  rw [count_eq_countP, count_eq_countP]
  exact List.countP_mono_left (fun i _ => h i)

theorem count_and_le_left (a b : BB) : count (a &&& b) ≤ count a :=
  count_le_of_imp (fun i h => by rw [BitVec.getLsbD_and, Bool.and_eq_true] at h; exact h.1)

theorem count_and_le_right (a b : BB) : count (a &&& b) ≤ count b :=
  count_le_of_imp (fun i h => by rw [BitVec.getLsbD_and, Bool.and_eq_true] at h; exact h.2)

theorem count_or_le (a b : BB) : count (a ||| b) ≤ count a + count b := by
  rw [count_eq_countP, count_eq_countP, count_eq_countP]
  simp only [BitVec.getLsbD_or]
  generalize List.range 64 = l
  induction l with
  | nil => simp
  | cons x l ih =>
    simp only [List.countP_cons]
    cases a.getLsbD x <;> cases b.getLsbD x <;> simp <;> omega

theorem length_toList (b : BB) : (toList b).length = count b := rfl

/-- Pointwise domination of six indicator functions by a seventh gives the inequality of counts. -/
theorem countP6_le (f0 f1 f2 f3 f4 f5 g : Nat → Bool) (l : List Nat)
    (h : ∀ x ∈ l, (f0 x).toNat + (f1 x).toNat + (f2 x).toNat + (f3 x).toNat + (f4 x).toNat +
      (f5 x).toNat ≤ (g x).toNat) :
    l.countP f0 + l.countP f1 + l.countP f2 + l.countP f3 + l.countP f4 + l.countP f5
      ≤ l.countP g := by
  induction l with
  | nil => simp
  | cons x l ih =>
    have hx := h x List.mem_cons_self
    have ih' := ih (fun y hy => h y (List.mem_cons_of_mem _ hy))
    have e : ∀ f : Nat → Bool, (x :: l).countP f = l.countP f + (f x).toNat := by
      intro f
      rw [List.countP_cons]
      cases f x <;> rfl
    rw [e f0, e f1, e f2, e f3, e f4, e f5, e g]
    omega

theorem bool6 : ∀ a0 a1 a2 a3 a4 a5 c : Bool,
    (a0 && a1) = false → (a0 && a2) = false → (a0 && a3) = false → (a0 && a4) = false →
    (a0 && a5) = false → (a1 && a2) = false → (a1 && a3) = false → (a1 && a4) = false →
    (a1 && a5) = false → (a2 && a3) = false → (a2 && a4) = false → (a2 && a5) = false →
    (a3 && a4) = false → (a3 && a5) = false → (a4 && a5) = false →
    (a0 && c).toNat + (a1 && c).toNat + (a2 && c).toNat + (a3 && c).toNat + (a4 && c).toNat +
      (a5 && c).toNat ≤ c.toNat := by decide

theorem getLsbD_of_and_eq_zero {a b : BB} (h : a &&& b = 0#64) (i : Nat) :
    (a.getLsbD i && b.getLsbD i) = false := by
  have := congrArg (fun v => BitVec.getLsbD v i) h
  simpa only [BitVec.getLsbD_and, BitVec.getLsbD_zero] using this

/-- The six piece boards are pairwise disjoint (part of `Consistent`, V.1). -/
def PieceDisj (p : Position) : Prop :=
  p.p0 &&& p.p1 = 0#64 ∧ p.p0 &&& p.p2 = 0#64 ∧ p.p0 &&& p.p3 = 0#64 ∧ p.p0 &&& p.p4 = 0#64 ∧
  p.p0 &&& p.p5 = 0#64 ∧ p.p1 &&& p.p2 = 0#64 ∧ p.p1 &&& p.p3 = 0#64 ∧ p.p1 &&& p.p4 = 0#64 ∧
  p.p1 &&& p.p5 = 0#64 ∧ p.p2 &&& p.p3 = 0#64 ∧ p.p2 &&& p.p4 = 0#64 ∧ p.p2 &&& p.p5 = 0#64 ∧
  p.p3 &&& p.p4 = 0#64 ∧ p.p3 &&& p.p5 = 0#64 ∧ p.p4 &&& p.p5 = 0#64

theorem PieceDisj.flip {p : Position} (h : PieceDisj p) : PieceDisj p.flip := by
  unfold PieceDisj at *
  simp only [Position.flip_p0, Position.flip_p1, Position.flip_p2, Position.flip_p3,
    Position.flip_p4, Position.flip_p5, ← flipBB_and_distrib]
  obtain ⟨h1, h2, h3, h4, h5, h6, h7, h8, h9, h10, h11, h12, h13, h14, h15⟩ := h
  simp only [h1, h2, h3, h4, h5, h6, h7, h8, h9, h10, h11, h12, h13, h14, h15, flipBB_zero,
    and_self]

/-- With pairwise disjoint piece boards, the men of the six kinds inside a board `c` number at most
`count c`. -/
theorem sum_count_pieces_le {p : Position} (h : PieceDisj p) (c : BB) :
    count (p.p0 &&& c) + count (p.p1 &&& c) + count (p.p2 &&& c) + count (p.p3 &&& c) +
      count (p.p4 &&& c) + count (p.p5 &&& c) ≤ count c := by
  simp only [count_eq_countP]
  apply countP6_le
  intro x _
  obtain ⟨h1, h2, h3, h4, h5, h6, h7, h8, h9, h10, h11, h12, h13, h14, h15⟩ := h
  simp only [BitVec.getLsbD_and]
  exact bool6 _ _ _ _ _ _ _ (getLsbD_of_and_eq_zero h1 x) (getLsbD_of_and_eq_zero h2 x)
    (getLsbD_of_and_eq_zero h3 x) (getLsbD_of_and_eq_zero h4 x) (getLsbD_of_and_eq_zero h5 x)
    (getLsbD_of_and_eq_zero h6 x) (getLsbD_of_and_eq_zero h7 x) (getLsbD_of_and_eq_zero h8 x)
    (getLsbD_of_and_eq_zero h9 x) (getLsbD_of_and_eq_zero h10 x) (getLsbD_of_and_eq_zero h11 x)
    (getLsbD_of_and_eq_zero h12 x) (getLsbD_of_and_eq_zero h13 x) (getLsbD_of_and_eq_zero h14 x)
    (getLsbD_of_and_eq_zero h15 x)

/-! ### bounded scores -/

/-- Both components lie in `[-B, B]` and their difference `eg - mg` in `[-C, C]`. -/
def Score.Bnd (s : Score) (B C : Int) : Prop :=
  -B ≤ s.1 ∧ s.1 ≤ B ∧ -B ≤ s.2 ∧ s.2 ≤ B ∧ -C ≤ s.2 - s.1 ∧ s.2 - s.1 ≤ C

instance (s : Score) (B C : Int) : Decidable (s.Bnd B C) := by
  unfold Score.Bnd; exact inferInstance

theorem Score.Bnd.mono {s : Score} {A B C D : Int} (h : s.Bnd A C) (hAB : A ≤ B) (hCD : C ≤ D) :
    s.Bnd B D := by
  unfold Score.Bnd at *; omega

theorem Score.Bnd.add {s t : Score} {A B C D : Int} (hs : s.Bnd A C) (ht : t.Bnd B D) :
    (s.add t).Bnd (A + B) (C + D) := by
  unfold Score.Bnd Score.add at *; simp only; omega

theorem Score.Bnd.sub {s t : Score} {A B C D : Int} (hs : s.Bnd A C) (ht : t.Bnd B D) :
    (s.sub t).Bnd (A + B) (C + D) := by
  unfold Score.Bnd Score.sub at *; simp only; omega

theorem int_mul_bnd {x y : Int} {A B : Nat} (hx : -(A : Int) ≤ x ∧ x ≤ A)
    (hy : -(B : Int) ≤ y ∧ y ≤ B) :
    -((A * B : Nat) : Int) ≤ x * y ∧ x * y ≤ ((A * B : Nat) : Int) := by
  have h1 : x.natAbs ≤ A := by omega
  have h2 : y.natAbs ≤ B := by omega
  have h3 : (x * y).natAbs ≤ A * B := by
    rw [Int.natAbs_mul]; exact Nat.mul_le_mul h1 h2
  omega

theorem Score.Bnd.mul_nat {t : Score} {M K : Nat} (ht : t.Bnd M K) (n : Nat) :
    (t.mul (n : Int)).Bnd ((M * n : Nat) : Int) ((K * n : Nat) : Int) := by
  unfold Score.Bnd Score.mul at *
  have hn : -(n : Int) ≤ (n : Int) ∧ (n : Int) ≤ n := by omega
  have a := int_mul_bnd (x := t.1) (y := n) (A := M) (B := n) ⟨ht.1, ht.2.1⟩ hn
  have b := int_mul_bnd (x := t.2) (y := n) (A := M) (B := n) ⟨ht.2.2.1, ht.2.2.2.1⟩ hn
  have c := int_mul_bnd (x := t.2 - t.1) (y := n) (A := K) (B := n) ⟨ht.2.2.2.2.1, ht.2.2.2.2.2⟩ hn
  rw [Int.sub_mul] at c
  simp only
  omega

/-- Adding `l.length` scores, each within `±M` (difference `±K`), to a score within `±B` (`±C`). -/
theorem foldl_add_bnd (f : Nat → Score) (M K : Nat) (l : List Nat)
    (hf : ∀ x ∈ l, (f x).Bnd M K) :
    ∀ (s : Score) (B C : Int), s.Bnd B C →
      (l.foldl (fun s x => s.add (f x)) s).Bnd (B + ((l.length * M : Nat) : Int))
        (C + ((l.length * K : Nat) : Int)) := by
  induction l with
  | nil => intro s B C h; simpa using h
  | cons x l ih =>
    intro s B C h
    rw [List.foldl_cons]
    have h1 := ih (fun y hy => hf y (List.mem_cons_of_mem _ hy)) (s.add (f x)) (B + M) (C + K)
      (h.add (hf x List.mem_cons_self))
    refine h1.mono ?_ ?_
    · rw [List.length_cons, Nat.add_mul]; omega
    · rw [List.length_cons, Nat.add_mul]; omega

/-! ### truncating division -/

theorem tdiv_eq (a c : Int) : a.tdiv c = if 0 ≤ a then a / c else -((-a) / c) := by
  split
  · next h => exact Int.tdiv_eq_ediv_of_nonneg h
  · next h =>
    have : (-a).tdiv c = (-a) / c := Int.tdiv_eq_ediv_of_nonneg (by omega)
    rw [← this, Int.neg_tdiv, Int.neg_neg]

/-! ### the extracted tables

`(900, 0)` piece values, `(90, 0)` passed pawns, `(25, 0)` open file, `(20, 20)` shield,
`(173, 137)` square tables: maximal absolute entry and maximal `|eg - mg|`. -/

theorem gen_passed_bnd (r : Nat) : (genEvalTables.passed r).Bnd (90 : Nat) (0 : Nat) := by
  unfold genEvalTables
  simp only
  by_cases h : r < 8
  · revert r; decide
  · rw [Array.getElem?_eq_none (by simpa [Gen.evPassedPawns] using h)]; decide

theorem gen_pieceValue_bnd (i : Nat) : (genEvalTables.pieceValue i).Bnd (900 : Nat) (0 : Nat) := by
  unfold genEvalTables
  simp only
  by_cases h : i < 6
  · revert i; decide
  · rw [Array.getElem?_eq_none (by simpa [Gen.evPieceValues] using h)]; decide

theorem gen_evPst_all :
    Gen.evPst.toList.all (fun s => decide (Score.Bnd s (173 : Nat) (137 : Nat))) = true := by
  decide +kernel

theorem gen_pst_bnd (i sq : Nat) : (genEvalTables.pst i sq).Bnd (173 : Nat) (137 : Nat) := by
  unfold genEvalTables
  simp only
  cases h : Gen.evPst[i * 64 + sq]? with
  | none => decide
  | some v =>
    have hm : v ∈ Gen.evPst.toList := Array.mem_toList_iff.mpr (Array.mem_of_getElem? h)
    have := List.all_eq_true.mp gen_evPst_all v hm
    exact of_decide_eq_true this

theorem gen_rook_bnd : genEvalTables.rookOpenFile.Bnd (25 : Nat) (0 : Nat) := by decide
theorem gen_shield_bnd : genEvalTables.kingPawnShield.Bnd (20 : Nat) (20 : Nat) := by decide

/-! ### `eval_us` over the extracted tables -/

/-- One iteration of the `for i in 0..6` loop of `eval_us`. -/
def kindStep (T : EvalTables) (p : Position) (s : Score) (i : Nat) : Score :=
  (toList (p.piece i &&& p.c0)).foldl (fun s sq => s.add (T.pst i sq))
    (s.add ((T.pieceValue i).mul (count (p.piece i &&& p.c0))))

theorem kindStep_bnd (p : Position) (s : Score) (i : Nat) (B C : Int) (h : s.Bnd B C) :
    (kindStep genEvalTables p s i).Bnd (B + ((count (p.piece i &&& p.c0) * 1073 : Nat) : Int))
      (C + ((count (p.piece i &&& p.c0) * 137 : Nat) : Int)) := by
  have h1 := h.add ((gen_pieceValue_bnd i).mul_nat (count (p.piece i &&& p.c0)))
  have h2 := foldl_add_bnd (genEvalTables.pst i) 173 137 (toList (p.piece i &&& p.c0))
    (fun x _ => gen_pst_bnd i x) _ _ _ h1
  rw [length_toList] at h2
  unfold kindStep
  exact h2.mono (by omega) (by omega)

theorem count_passedPawns_le (us them : BB) : count (passedPawns us them) ≤ count us := by
  unfold passedPawns
  exact count_and_le_left _ _

/-- The part of `eval_us` before the loop over the kinds. -/
def evalUsPre (T : EvalTables) (p : Position) : Score :=
  (((toList (passedPawns (p.p0 &&& p.c0) (p.p0 &&& p.c1))).foldl
      (fun (s : Score) sq => s.add (T.passed (rankOf sq))) (0, 0)).add
    (T.kingPawnShield.mul (count (kingShield (lsb (p.p5 &&& p.c0)) &&& (p.p0 &&& p.c0))))).add
    (T.rookOpenFile.mul (count (openFiles p.p0 &&& p.c0 &&& p.p3)))

theorem evalUsT_eq (T : EvalTables) (p : Position) :
    evalUsT T p = (List.range 6).foldl (kindStep T p) (evalUsPre T p) := rfl

theorem evalUsT_eq' (T : EvalTables) (p : Position) :
    evalUsT T p = kindStep T p (kindStep T p (kindStep T p (kindStep T p (kindStep T p
      (kindStep T p (evalUsPre T p) 0) 1) 2) 3) 4) 5 := by
  rw [evalUsT_eq, show List.range 6 = [0, 1, 2, 3, 4, 5] from by decide]
  rfl

theorem evalUsPre_bnd (p : Position) :
    (evalUsPre genEvalTables p).Bnd ((count p.c0 * 135 : Nat) : Int)
      ((count p.c0 * 20 : Nat) : Int) := by
  have h0 : Score.Bnd (0, 0) 0 0 := by decide
  have h1 := foldl_add_bnd (fun sq => genEvalTables.passed (rankOf sq)) 90 0
    (toList (passedPawns (p.p0 &&& p.c0) (p.p0 &&& p.c1))) (fun x _ => gen_passed_bnd _) _ _ _ h0
  rw [length_toList] at h1
  have h2 := h1.add (gen_shield_bnd.mul_nat
    (count (kingShield (lsb (p.p5 &&& p.c0)) &&& (p.p0 &&& p.c0))))
  have h3 := h2.add (gen_rook_bnd.mul_nat (count (openFiles p.p0 &&& p.c0 &&& p.p3)))
  unfold evalUsPre
  have c1 := count_passedPawns_le (p.p0 &&& p.c0) (p.p0 &&& p.c1)
  have c1' := count_and_le_right p.p0 p.c0
  have c2 := count_and_le_right (kingShield (lsb (p.p5 &&& p.c0))) (p.p0 &&& p.c0)
  have c3 := count_and_le_left (openFiles p.p0 &&& p.c0) p.p3
  have c3' := count_and_le_right (openFiles p.p0) p.c0
  exact h3.mono (by omega) (by omega)

/-- `eval_us` with pairwise disjoint piece boards: each component is at most `1208` per man of the
side (`900 + 173` material and square, `90` passed pawn, `20` shield, `25` open file), and the
difference `eg - mg` at most `157` per man (`137` square, `20` shield). -/
theorem evalUsT_bnd {p : Position} (hd : PieceDisj p) :
    (evalUsT genEvalTables p).Bnd ((count p.c0 * 1208 : Nat) : Int)
      ((count p.c0 * 157 : Nat) : Int) := by
  have k0 := kindStep_bnd p _ 0 _ _ (evalUsPre_bnd p)
  have k1 := kindStep_bnd p _ 1 _ _ k0
  have k2 := kindStep_bnd p _ 2 _ _ k1
  have k3 := kindStep_bnd p _ 3 _ _ k2
  have k4 := kindStep_bnd p _ 4 _ _ k3
  have k5 := kindStep_bnd p _ 5 _ _ k4
  rw [evalUsT_eq']
  have c4 := sum_count_pieces_le hd p.c0
  simp only [Position.piece] at k5
  exact k5.mono (by omega) (by omega)

/-! ### phase, taper -/

/-- Knights, bishops, rooks and queens stand on occupied squares. -/
def OnMen (p : Position) : Prop :=
  (p.p1 ||| p.p2 ||| p.p3 ||| p.p4) &&& ~~~(p.c0 ||| p.c1) = 0#64

theorem count_le_and_of_onMen {p : Position} (h : OnMen p) (b : BB)
    (hb : ∀ i, b.getLsbD i = true → (p.p1 ||| p.p2 ||| p.p3 ||| p.p4).getLsbD i = true) :
    count b ≤ count (b &&& (p.c0 ||| p.c1)) := by
  apply count_le_of_imp
  intro i hi
  have h1 := hb i hi
  have h2 := getLsbD_of_and_eq_zero h i
  rw [h1, Bool.true_and] at h2
  by_cases h64 : i < 64
  · rw [BitVec.getLsbD_not, Bool.and_eq_false_iff] at h2
    rw [BitVec.getLsbD_and, hi, Bool.true_and]
    rcases h2 with h2 | h2
    · simp [h64] at h2
    · cases hc : (p.c0 ||| p.c1).getLsbD i
      · rw [hc] at h2; exact absurd h2 (by decide)
      · rfl
  · exact absurd (BitVec.lt_of_getLsbD hi) h64

theorem count_le_64 (b : BB) : count b ≤ 64 := by
  rw [count_eq_countP]
  have := List.countP_le_length (p := fun i => b.getLsbD i) (l := List.range 64)
  rw [List.length_range] at this
  exact this

/-- At most `count (c0 ||| c1)` knights, bishops, rooks and queens altogether. -/
theorem sum_count_officers_le_occ {p : Position} (hd : PieceDisj p) (ho : OnMen p) :
    count p.p1 + count p.p2 + count p.p3 + count p.p4 ≤ count (p.c0 ||| p.c1) := by
  have h := sum_count_pieces_le hd (p.c0 ||| p.c1)
  have g1 := count_le_and_of_onMen ho p.p1 (fun i hi => by simp [BitVec.getLsbD_or, hi])
  have g2 := count_le_and_of_onMen ho p.p2 (fun i hi => by simp [BitVec.getLsbD_or, hi])
  have g3 := count_le_and_of_onMen ho p.p3 (fun i hi => by simp [BitVec.getLsbD_or, hi])
  have g4 := count_le_and_of_onMen ho p.p4 (fun i hi => by simp [BitVec.getLsbD_or, hi])
  omega

theorem sum_count_officers_le {p : Position} (hd : PieceDisj p) (ho : OnMen p) :
    count p.p1 + count p.p2 + count p.p3 + count p.p4 ≤ count p.c0 + count p.c1 :=
  Nat.le_trans (sum_count_officers_le_occ hd ho) (count_or_le p.c0 p.c1)

/-- Disjoint colour boards hold at most 64 men together. -/
theorem count_add_le_64 {a b : BB} (h : a &&& b = 0#64) : count a + count b ≤ 64 := by
  have key : List.countP (fun i => a.getLsbD i) (List.range 64) +
      List.countP (fun i => b.getLsbD i) (List.range 64) + List.countP (fun _ => false) (List.range 64) +
      List.countP (fun _ => false) (List.range 64) + List.countP (fun _ => false) (List.range 64) +
      List.countP (fun _ => false) (List.range 64) ≤ List.countP (fun _ => true) (List.range 64) := by
    apply countP6_le
    intro x _
    have := getLsbD_of_and_eq_zero h x
    revert this
    cases a.getLsbD x <;> cases b.getLsbD x <;> decide
  rw [count_eq_countP, count_eq_countP]
  simp only [List.countP_false, List.countP_true, List.length_range] at key
  omega

/-- The `i32` range. -/
def I32 (x : Int) : Prop := -2147483648 ≤ x ∧ x ≤ 2147483647

/-- `get_phase` with at most 32 knights, bishops, rooks and queens. -/
theorem phase_bnd {p : Position} (h : count p.p1 + count p.p2 + count p.p3 + count p.p4 ≤ 32) :
    -1108 ≤ phase p ∧ phase p ≤ 256 := by
  unfold phase
  simp only
  rw [tdiv_eq]
  split <;> omega

/-- `get_phase` with at most 64 knights, bishops, rooks and queens. -/
theorem phase_bnd64 {p : Position} (h : count p.p1 + count p.p2 + count p.p3 + count p.p4 ≤ 64) :
    -2474 ≤ phase p ∧ phase p ≤ 256 := by
  unfold phase
  simp only
  rw [tdiv_eq]
  split <;> omega

/-- The numerator of `taper` regrouped: `256·mg + phase·(eg − mg)`. -/
theorem taper_num_eq (s : Score) (ph : Int) :
    s.1 * (256 - ph) + s.2 * ph = s.1 * 256 + (s.2 - s.1) * ph := by
  rw [Int.mul_sub, Int.sub_mul]
  omega

/-- `taper` of a score within `±D` (difference `±E`) at a phase in `[-L, 256]`, `L ≥ 256`: the two
products, the numerator (crudely, for `i32`, and finely via `256·mg + phase·(eg − mg)`) and the
quotient. -/
theorem taper_bnd {s : Score} {D E L : Nat} (hs : s.Bnd D E) {ph : Int}
    (hp : -(L : Int) ≤ ph ∧ ph ≤ 256) (hL : 256 ≤ L) :
    (-((D * (256 + L) : Nat) : Int) ≤ s.1 * (256 - ph) ∧
      s.1 * (256 - ph) ≤ ((D * (256 + L) : Nat) : Int)) ∧
    (-((D * L : Nat) : Int) ≤ s.2 * ph ∧ s.2 * ph ≤ ((D * L : Nat) : Int)) ∧
    (-((D * 256 + E * L : Nat) : Int) ≤ s.1 * (256 - ph) + s.2 * ph ∧
      s.1 * (256 - ph) + s.2 * ph ≤ ((D * 256 + E * L : Nat) : Int)) ∧
    (-(((D * 256 + E * L) / 256 : Nat) : Int) ≤ taper s ph ∧
      taper s ph ≤ (((D * 256 + E * L) / 256 : Nat) : Int)) := by
  unfold Score.Bnd at hs
  have ha : -((256 + L : Nat) : Int) ≤ 256 - ph ∧ 256 - ph ≤ ((256 + L : Nat) : Int) := by
    omega
  have hb : -((L : Nat) : Int) ≤ ph ∧ ph ≤ ((L : Nat) : Int) := by
    omega
  have a := int_mul_bnd (x := s.1) (y := 256 - ph) (A := D) (B := 256 + L) ⟨hs.1, hs.2.1⟩ ha
  have b := int_mul_bnd (x := s.2) (y := ph) (A := D) (B := L) ⟨hs.2.2.1, hs.2.2.2.1⟩ hb
  have c := int_mul_bnd (x := s.2 - s.1) (y := ph) (A := E) (B := L)
    ⟨hs.2.2.2.2.1, hs.2.2.2.2.2⟩ hb
  have e := taper_num_eq s ph
  unfold taper
  rw [tdiv_eq]
  generalize s.1 * (256 - ph) = X at *
  generalize s.2 * ph = Y at *
  generalize (s.2 - s.1) * ph = Z at *
  clear ha hb
  refine ⟨a, b, ⟨by omega, by omega⟩, ?_⟩
  split <;> constructor <;> omega

end Rawr
