import Rawr.Proofs.GenShape
/-! No move is generated twice (`moveGenerator p` and `legalMoves p` have no duplicates). -/
set_option linter.unusedSimpArgs false
namespace Rawr
open Rawr.Position Rawr.Spec Rawr.ZH

/-! ### list lemmas -/

theorem nodup_toList (b : BB) : (toList b).Nodup :=
  List.Pairwise.filter _ List.nodup_range

theorem nodup_flatMap_key {α β : Type} (key : β → α) (l : List α) (f : α → List β) (hl : l.Nodup)
    (hf : ∀ x ∈ l, (f x).Nodup) (hk : ∀ x ∈ l, ∀ y ∈ f x, key y = x) : (l.flatMap f).Nodup := by
  induction l with
  | nil => exact List.Pairwise.nil
  | cons x xs ih =>
    rw [List.flatMap_cons, List.nodup_append]
    rw [List.nodup_cons] at hl
    refine ⟨hf x List.mem_cons_self, ih hl.2 (fun y hy => hf y (List.mem_cons_of_mem _ hy))
      (fun y hy => hk y (List.mem_cons_of_mem _ hy)), ?_⟩
    intro a ha b hb e
    rw [List.mem_flatMap] at hb
    obtain ⟨y, hy, hby⟩ := hb
    have h1 := hk x List.mem_cons_self a ha
    have h2 := hk y (List.mem_cons_of_mem _ hy) b hby
    rw [e, h2] at h1
    rw [h1] at hy
    exact hl.1 hy

theorem nodup_map_inj {α β : Type} {l : List α} (f : α → β) (hl : l.Nodup)
    (hinj : ∀ a ∈ l, ∀ b ∈ l, f a = f b → a = b) : (l.map f).Nodup := by
  unfold List.Nodup
  rw [List.pairwise_map]
  exact List.Pairwise.imp_of_mem (fun ha hb hne e => hne (hinj _ ha _ hb e)) hl

theorem base_key {α : Type} (key : α → Nat) {B : List α} (hB : B.Nodup) (hk : ∀ b ∈ B, key b = 0) :
    B.Nodup ∧ ∀ a ∈ B, key a < 1 :=
  ⟨hB, fun a ha => by rw [hk a ha]; exact Nat.lt_succ_self 0⟩

theorem step_key {α : Type} (key : α → Nat) {A B : List α} {n : Nat} (hA : A.Nodup ∧ ∀ a ∈ A, key a < n)
    (hB : B.Nodup) (hk : ∀ b ∈ B, key b = n) : (A ++ B).Nodup ∧ ∀ a ∈ A ++ B, key a < n + 1 := by
  refine ⟨List.nodup_append.mpr ⟨hA.1, hB, ?_⟩, ?_⟩
  · intro a ha b hb e
    have h1 := hA.2 a ha
    have h2 := hk b hb
    rw [e, h2] at h1
    exact Nat.lt_irrefl _ h1
  · intro a ha
    rcases List.mem_append.mp ha with h | h
    · exact Nat.lt_succ_of_lt (hA.2 a h)
    · rw [hk a h]; exact Nat.lt_succ_self n

theorem nodup_ite_singleton {α : Type} (c : Prop) [Decidable c] (a : α) : (if c then [a] else []).Nodup := by
  split
  · exact List.nodup_cons.mpr ⟨List.not_mem_nil, List.Pairwise.nil⟩
  · exact List.Pairwise.nil

/-! ### the class of a generated move -/

/-- the number (0–15) of the generator block a move comes from, computed from the move. -/
def classKey (p : Position) (g : GMv) : Nat :=
  match g.piece with
  | 0 => if g.mv.dst - g.mv.src = 8 then 0 else if g.mv.dst - g.mv.src = 16 then 1
         else if p.c1.getLsbD g.mv.dst then (if g.mv.dst - g.mv.src = 9 then 2 else 3) else 4
  | 1 => 5
  | 2 => if (prelude p).bpinned.getLsbD g.mv.src then 6 else 7
  | 3 => if (prelude p).rpinned.getLsbD g.mv.src then 8 else 9
  | 4 => if (prelude p).pinned.getLsbD g.mv.src then
           (if (bishopMoves g.mv.src p.occ).getLsbD g.mv.dst then 10 else 11) else 12
  | _ => if p.c0.getLsbD g.mv.dst then (if p.usK && g.mv.dst == p.cf0 then 14 else 15) else 13

theorem pinned_eq (p : Position) : (prelude p).pinned = (prelude p).bpinned ||| (prelude p).rpinned := rfl

theorem not_pinned {p : Position} {i : Nat} (h : (~~~(prelude p).pinned).getLsbD i = true) :
    (prelude p).pinned.getLsbD i = false ∧ (prelude p).bpinned.getLsbD i = false ∧
      (prelude p).rpinned.getLsbD i = false := by
  simp only [BitVec.getLsbD_not, Bool.and_eq_true, Bool.not_eq_true'] at h
  have h2 := h.2
  rw [pinned_eq, BitVec.getLsbD_or, Bool.or_eq_false_iff] at h2
  exact ⟨h.2, h2⟩

theorem mem_pawnArrive' {d to : Nat} {g : GMv} (h : g ∈ pawnArrive d to) :
    g.piece = 0 ∧ g.mv.src = to - d ∧ g.mv.dst = to := by
  unfold pawnArrive at h
  split at h <;> simp only [List.mem_cons, List.not_mem_nil, or_false] at h
  · rcases h with h | h | h | h <;> subst h <;> exact ⟨rfl, rfl, rfl⟩
  · subst h; exact ⟨rfl, rfl, rfl⟩

theorem nodup_pawnArrive (d to : Nat) : (pawnArrive d to).Nodup := by
  unfold pawnArrive
  split <;> simp [gm]

theorem nodup_pawnBlock (d : Nat) (B : BB) : ((toList B).flatMap (pawnArrive d)).Nodup :=
  nodup_flatMap_key (fun g => g.mv.dst) _ _ (nodup_toList B) (fun x _ => nodup_pawnArrive d x)
    (fun _ _ _ hy => (mem_pawnArrive' hy).2.2)

theorem nodup_sliderBlock (pc : Nat) (S : BB) (f : Nat → BB) :
    ((toList S).flatMap fun src => (toList (f src)).map fun to => gm pc src to 6).Nodup := by
  apply nodup_flatMap_key (fun g => g.mv.src) _ _ (nodup_toList S)
  · intro x _
    apply nodup_map_inj _ (nodup_toList _)
    intro a _ b _ e
    simp only [gm, GMv.mk.injEq, Mv.mk.injEq] at e
    exact e.2.2.1
  · intro x _ y hy
    rw [List.mem_map] at hy
    obtain ⟨t, _, rfl⟩ := hy
    rfl

theorem key_pawn {g : GMv} {d to : Nat} (hg : g ∈ pawnArrive d to) (hd : d ≤ to) :
    g.piece = 0 ∧ g.mv.dst - g.mv.src = d ∧ g.mv.dst = to := by
  obtain ⟨h1, h2, h3⟩ := mem_pawnArrive' hg
  exact ⟨h1, by rw [h2, h3]; omega, h3⟩

/-- the generator's list has no duplicates and every element has its block number as key. -/
theorem gen_nodup_aux (p : Position) (F : VFacts p) :
    (moveGenerator p).Nodup ∧ ∀ g ∈ moveGenerator p, classKey p g < 16 := by
  obtain ⟨hk64, hk5, hk0, hke⟩ := ksq_facts F
  unfold moveGenerator
  dsimp only
  refine step_key (classKey p) (step_key _ (step_key _ (step_key _ (step_key _ (step_key _ (step_key _
    (step_key _ (step_key _ (step_key _ (step_key _ (step_key _ (step_key _ (step_key _ (step_key _
    (base_key _ ?n1 ?k1) ?n2 ?k2) ?n3 ?k3) ?n4 ?k4) ?n5 ?k5) ?n6 ?k6) ?n7 ?k7) ?n8 ?k8) ?n9 ?k9) ?n10 ?k10)
    ?n11 ?k11) ?n12 ?k12) ?n13 ?k13) ?n14 ?k14) ?n15 ?k15) ?n16 ?k16
  case n1 => exact nodup_pawnBlock _ _
  case n3 => exact nodup_pawnBlock _ _
  case n4 => exact nodup_pawnBlock _ _
  case n2 =>
    apply nodup_map_inj _ (nodup_toList _)
    intro a _ b _ e
    simp only [gm, GMv.mk.injEq, Mv.mk.injEq] at e
    exact e.2.2.1
  case n5 =>
    split
    · exact List.Pairwise.nil
    · rename_i ep hpe
      rw [List.nodup_append]
      refine ⟨nodup_ite_singleton _ _, nodup_ite_singleton _ _, ?_⟩
      intro a ha b hb e
      split at ha
      · rename_i hcnd
        simp only [Bool.and_eq_true, BB.isSet] at hcnd
        obtain ⟨h9, _, _, _⟩ := northEast_mem hcnd.1
        split at hb
        · rw [List.mem_singleton] at ha hb
          rw [ha, hb] at e
          simp only [gm, GMv.mk.injEq, Mv.mk.injEq] at e
          omega
        · cases hb
      · cases ha
  case n6 => exact nodup_sliderBlock _ _ _
  case n7 => exact nodup_sliderBlock _ _ _
  case n8 => exact nodup_sliderBlock _ _ _
  case n9 => exact nodup_sliderBlock _ _ _
  case n10 => exact nodup_sliderBlock _ _ _
  case n11 => exact nodup_sliderBlock _ _ _
  case n12 => exact nodup_sliderBlock _ _ _
  case n13 => exact nodup_sliderBlock _ _ _
  case n14 =>
    apply nodup_flatMap_key (fun g => g.mv.src) _ _ (nodup_toList _)
    · intro x _
      apply nodup_map_inj _ (List.Pairwise.filter _ (nodup_toList _))
      intro a _ b _ e
      simp only [gm, GMv.mk.injEq, Mv.mk.injEq] at e
      exact e.2.2.1
    · intro x _ y hy
      rw [List.mem_map] at hy
      obtain ⟨t, _, rfl⟩ := hy
      rfl
  case n15 => exact nodup_ite_singleton _ _
  case n16 => exact nodup_ite_singleton _ _
  case k1 =>
    intro g hg
    simp only [List.mem_flatMap, Rawr.mem_toList] at hg
    obtain ⟨a, ha, hga⟩ := hg
    simp only [BitVec.getLsbD_and, Bool.and_eq_true] at ha
    obtain ⟨h8, _, _⟩ := north_mem ha.1.1
    obtain ⟨e1, e2, _⟩ := key_pawn hga h8
    simp only [classKey, e1, e2, if_true]
  case k2 =>
    intro g hg
    simp only [List.mem_map, Rawr.mem_toList] at hg
    obtain ⟨a, ha, rfl⟩ := hg
    simp only [BitVec.getLsbD_and, Bool.and_eq_true] at ha
    obtain ⟨h16, _, _⟩ := northNorth_mem ha.1.1.1.1
    have e : a - (a - 16) = 16 := by omega
    simp [classKey, gm, e]
  case k3 =>
    intro g hg
    simp only [List.mem_flatMap, Rawr.mem_toList] at hg
    obtain ⟨a, ha, hga⟩ := hg
    simp only [BitVec.getLsbD_and, Bool.and_eq_true] at ha
    have hn := ha.1.1
    rw [east_north] at hn
    obtain ⟨h9, _, _⟩ := northEast_mem hn
    obtain ⟨e1, e2, e3⟩ := key_pawn hga h9
    have hc1 : p.c1.getLsbD g.mv.dst = true := by rw [e3]; exact ha.1.2
    simp [classKey, e1, e2, hc1]
  case k4 =>
    intro g hg
    simp only [List.mem_flatMap, Rawr.mem_toList] at hg
    obtain ⟨a, ha, hga⟩ := hg
    simp only [BitVec.getLsbD_and, Bool.and_eq_true] at ha
    obtain ⟨h7, _, _⟩ := northWest_mem ha.1.1
    obtain ⟨e1, e2, e3⟩ := key_pawn hga h7
    have hc1 : p.c1.getLsbD g.mv.dst = true := by rw [e3]; exact ha.1.2
    simp [classKey, e1, e2, hc1]
  case k5 =>
    intro g hg
    split at hg
    · cases hg
    · rename_i ep hpe
      obtain ⟨_, _, _, hc1, _⟩ := F.ep ep hpe
      rw [List.mem_append] at hg
      rcases hg with hg | hg <;> split at hg
      · rename_i hcnd
        simp only [Bool.and_eq_true, BB.isSet] at hcnd
        obtain ⟨h9, _, _, _⟩ := northEast_mem hcnd.1
        rw [List.mem_singleton] at hg
        subst hg
        have e : ep - (ep - 9) = 9 := by omega
        simp [classKey, gm, e, hc1]
      · cases hg
      · rename_i hcnd
        simp only [Bool.and_eq_true, BB.isSet] at hcnd
        obtain ⟨h7, _, _, _⟩ := northWest_mem hcnd.1
        rw [List.mem_singleton] at hg
        subst hg
        have e : ep - (ep - 7) = 7 := by omega
        simp [classKey, gm, e, hc1]
      · cases hg
  case k6 =>
    intro g hg
    simp only [List.mem_flatMap, List.mem_map, Rawr.mem_toList] at hg
    obtain ⟨a, ha, b, hb, rfl⟩ := hg
    rfl
  case k7 =>
    intro g hg
    simp only [List.mem_flatMap, List.mem_map, Rawr.mem_toList] at hg
    obtain ⟨a, ha, b, hb, rfl⟩ := hg
    simp only [BitVec.getLsbD_and, Bool.and_eq_true] at ha
    simp [classKey, gm, ha.2]
  case k8 =>
    intro g hg
    simp only [List.mem_flatMap, List.mem_map, Rawr.mem_toList] at hg
    obtain ⟨a, ha, b, hb, rfl⟩ := hg
    rw [BitVec.getLsbD_and, Bool.and_eq_true] at ha
    simp [classKey, gm, (not_pinned ha.2).2.1]
  case k9 =>
    intro g hg
    simp only [List.mem_flatMap, List.mem_map, Rawr.mem_toList] at hg
    obtain ⟨a, ha, b, hb, rfl⟩ := hg
    simp only [BitVec.getLsbD_and, Bool.and_eq_true] at ha
    simp [classKey, gm, ha.2]
  case k10 =>
    intro g hg
    simp only [List.mem_flatMap, List.mem_map, Rawr.mem_toList] at hg
    obtain ⟨a, ha, b, hb, rfl⟩ := hg
    rw [BitVec.getLsbD_and, Bool.and_eq_true] at ha
    simp [classKey, gm, (not_pinned ha.2).2.2]
  case k11 =>
    intro g hg
    simp only [List.mem_flatMap, List.mem_map, Rawr.mem_toList] at hg
    obtain ⟨a, ha, b, hb, rfl⟩ := hg
    simp only [BitVec.getLsbD_and, Bool.and_eq_true] at ha hb
    have hp : (prelude p).pinned.getLsbD a = true := by rw [pinned_eq, BitVec.getLsbD_or, ha.2]; rfl
    simp [classKey, gm, hp, hb.1.1]
  case k12 =>
    intro g hg
    simp only [List.mem_flatMap, List.mem_map, Rawr.mem_toList] at hg
    obtain ⟨a, ha, b, hb, rfl⟩ := hg
    simp only [BitVec.getLsbD_and, Bool.and_eq_true] at ha hb
    have hp : (prelude p).pinned.getLsbD a = true := by
      rw [pinned_eq, BitVec.getLsbD_or, ha.2, Bool.or_true]
    have hnb : (bishopMoves a p.occ).getLsbD b = false := by
      cases h : (bishopMoves a p.occ).getLsbD b
      · rfl
      · have := bishop_rook_disjoint a (BitVec.lt_of_getLsbD ha.2) p.occ b h
        rw [hb.1.1] at this; cases this
    simp [classKey, gm, hp, hnb]
  case k13 =>
    intro g hg
    simp only [List.mem_flatMap, List.mem_map, Rawr.mem_toList] at hg
    obtain ⟨a, ha, b, hb, rfl⟩ := hg
    rw [BitVec.getLsbD_and, Bool.and_eq_true] at ha
    simp [classKey, gm, (not_pinned ha.2).1]
  case k14 =>
    intro g hg
    simp only [List.mem_flatMap, List.mem_map, Rawr.mem_toList] at hg
    obtain ⟨a, ha, b, hb, rfl⟩ := hg
    unfold kingTargetsSafe at hb
    rw [List.mem_filter, Rawr.mem_toList] at hb
    have hb := hb.1
    simp only [BitVec.getLsbD_and, BitVec.getLsbD_not, Bool.and_eq_true, Bool.not_eq_true'] at hb
    simp [classKey, gm, hb.2.2]
  case k15 =>
    intro g hg
    split at hg
    · rename_i hcs
      rw [List.mem_singleton] at hg
      subst hg
      unfold castleOk at hcs
      simp only [Bool.and_eq_true] at hcs
      have hu := hcs.1.1.1.1
      obtain ⟨hcf, hrook, hlt⟩ := F.rK hu
      rw [BitVec.getLsbD_and, Bool.and_eq_true] at hrook
      simp [classKey, gm, fromCoords, hrook.1, hu]
    · cases hg
  case k16 =>
    intro g hg
    split at hg
    · rename_i hcs
      rw [List.mem_singleton] at hg
      subst hg
      unfold castleOk at hcs
      simp only [Bool.and_eq_true] at hcs
      have hu := hcs.1.1.1.1
      obtain ⟨hcf, hrook, hlt, _⟩ := F.rQ hu
      rw [BitVec.getLsbD_and, Bool.and_eq_true] at hrook
      have hne : ¬ (p.usK = true ∧ p.cf1 = p.cf0) := by
        rintro ⟨hK, e⟩
        have := (F.rK hK).2.2
        omega
      simp [classKey, gm, fromCoords, hrook.1, hne]
    · cases hg

/-- the generator never invokes its callback twice with the same (piece, move). -/
theorem moveGenerator_nodup (p : Position) (hV : ValidPos p = true) : (moveGenerator p).Nodup :=
  (gen_nodup_aux p (vfacts_of_valid hV)).1

/-- **No move appears twice in `legal_moves`.** -/
theorem gen_nodup_valid (p : Position) (hV : ValidPos p = true) : (legalMoves p).Nodup := by
  unfold legalMoves
  apply nodup_map_inj _ (moveGenerator_nodup p hV)
  intro a ha b hb e
  have h1 := (gen_shape_valid p hV a ha).tag
  have h2 := (gen_shape_valid p hV b hb).tag
  rw [e, h2] at h1
  cases a; cases b
  simp only at e h1
  simp only [Option.some.injEq] at h1
  rw [e, h1]

end Rawr
