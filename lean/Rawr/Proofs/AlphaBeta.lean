/-! Generic fail-soft alpha-beta lemmas (no chess here).

`foldMax cv ms acc` is the reference: the maximum of `acc` and the exact values `cv m` of the moves,
`none` when one of them is undefined. `loop call beta ms st alpha best` is the shape of the move loop of
a fail-soft negamax search whose recursive call on move `m` with window `(a, b)` is `call m st a b`.
`Bound a b r v` says that `r` is a legitimate fail-soft answer for the exact value `v` in window `(a, b)`. -/
namespace Rawr.AB

/-- `r` reported for window `(a, b)` against the exact value `v`:
an upper bound when failing low, exact inside the window, a lower bound when failing high. -/
def Bound (a b r v : Int) : Prop :=
  (r ≤ a → v ≤ r) ∧ (a < r ∧ r < b → r = v) ∧ (b ≤ r → r ≤ v)

/-- the formulation by the position of the exact value: exact whenever `v` is strictly inside. -/
theorem Bound.exact_of_inside {a b r v : Int} (h : Bound a b r v) (hv : a < v ∧ v < b) : r = v := by
  obtain ⟨h1, h2, h3⟩ := h
  by_cases c1 : r ≤ a
  · have := h1 c1; omega
  · by_cases c3 : b ≤ r
    · have := h3 c3; omega
    · exact h2 (by omega)

theorem Bound.neg_child {a b r c : Int} (h : Bound (-b) (-a) r (-c)) :
    (-r ≤ a → c ≤ -r) ∧ (a < -r ∧ -r < b → -r = c) ∧ (b ≤ -r → -r ≤ c) := by
  obtain ⟨h1, h2, h3⟩ := h
  refine ⟨fun h => ?_, fun h => ?_, fun h => ?_⟩
  · have := h3 (by omega); omega
  · have := h2 (by omega); omega
  · have := h1 (by omega); omega

section
variable {M : Type}

/-- maximum of `acc` and the exact child values; `none` if some child value is undefined. -/
def foldMax (cv : M → Option Int) : List M → Int → Option Int
  | [], acc => some acc
  | m :: ms, acc =>
    match cv m with
    | none => none
    | some c => foldMax cv ms (max acc c)

theorem foldMax_ge (cv : M → Option Int) : ∀ (ms : List M) (acc v : Int), foldMax cv ms acc = some v → acc ≤ v
  | [], acc, v, h => by simp only [foldMax, Option.some.injEq] at h; omega
  | m :: ms, acc, v, h => by
    simp only [foldMax] at h
    split at h
    · cases h
    · have := foldMax_ge cv ms _ _ h; omega

/-- every defined child value is below the fold. -/
theorem foldMax_ge_child (cv : M → Option Int) : ∀ (ms : List M) (acc v : Int), foldMax cv ms acc = some v →
    ∀ m ∈ ms, ∃ c, cv m = some c ∧ c ≤ v
  | [], _, _, _, m, hm => by cases hm
  | x :: ms, acc, v, h, m, hm => by
    simp only [foldMax] at h
    split at h
    · cases h
    · rename_i c hc
      rcases List.mem_cons.mp hm with rfl | hm
      · exact ⟨c, hc, by have := foldMax_ge cv ms _ _ h; omega⟩
      · exact foldMax_ge_child cv ms _ _ h m hm

/-- the fold is attained: by `acc` or by one of the children. -/
theorem foldMax_attained (cv : M → Option Int) : ∀ (ms : List M) (acc v : Int), foldMax cv ms acc = some v →
    v = acc ∨ ∃ m ∈ ms, cv m = some v
  | [], acc, v, h => by simp only [foldMax, Option.some.injEq] at h; exact Or.inl h.symm
  | x :: ms, acc, v, h => by
    simp only [foldMax] at h
    split at h
    · cases h
    · rename_i c hc
      rcases foldMax_attained cv ms _ _ h with h' | ⟨m, hm, hv⟩
      · by_cases hle : c ≤ acc
        · left; omega
        · right; exact ⟨x, List.mem_cons_self, by rw [hc, h']; congr 1; omega⟩
      · exact Or.inr ⟨m, List.mem_cons_of_mem _ hm, hv⟩

/-- the order of the moves does not matter for the reference value. -/
theorem foldMax_perm (cv : M → Option Int) {l₁ l₂ : List M} (h : l₁.Perm l₂) :
    ∀ acc, foldMax cv l₁ acc = foldMax cv l₂ acc := by
  induction h with
  | nil => intro acc; rfl
  | cons x _ ih =>
    intro acc
    simp only [foldMax]
    split
    · rfl
    · exact ih _
  | swap x y l =>
    intro acc
    simp only [foldMax]
    cases cv x <;> cases cv y <;> simp only
    rename_i a b
    congr 1; omega
  | trans _ _ ih₁ ih₂ => intro acc; rw [ih₁, ih₂]

/-- the fold only looks at the child values of the listed moves. -/
theorem foldMax_congr (cv cv' : M → Option Int) : ∀ (ms : List M)
    (_h : ∀ m ∈ ms, ∀ c, cv m = some c → cv' m = some c) (acc v : Int),
    foldMax cv ms acc = some v → foldMax cv' ms acc = some v
  | [], _, _, _, h => h
  | m :: ms, hcv, acc, v, h => by
    simp only [foldMax] at h ⊢
    cases hc : cv m with
    | none => rw [hc] at h; cases h
    | some c =>
      rw [hc] at h
      rw [hcv m List.mem_cons_self c hc]
      exact foldMax_congr cv cv' ms (fun m' hm' => hcv m' (List.mem_cons_of_mem _ hm')) _ _ h

theorem foldMax_isSome_iff (cv : M → Option Int) : ∀ (ms : List M) (acc : Int),
    (∃ v, foldMax cv ms acc = some v) ↔ ∀ m ∈ ms, ∃ c, cv m = some c
  | [], acc => by simp [foldMax]
  | x :: ms, acc => by
    simp only [foldMax, List.mem_cons, forall_eq_or_imp]
    cases hx : cv x with
    | none => simp
    | some c => simp only [foldMax_isSome_iff cv ms, Option.some.injEq, exists_eq', true_and]

variable {S : Type}

/-- the move loop of a fail-soft negamax search. -/
def loop (call : M → S → Int → Int → Option (Int × S)) (beta : Int) :
    List M → S → Int → Int → Option (Int × S)
  | [], st, _, best => some (best, st)
  | m :: ms, st, alpha, best =>
    match call m st (-beta) (-alpha) with
    | none => none
    | some (sc, st) =>
      let score := -sc
      let best := if score > best then score else best
      let alpha := if score > alpha then score else alpha
      if alpha ≥ beta then some (best, st) else loop call beta ms st alpha best

theorem ite_gt_eq_max (a b : Int) : (if a > b then a else b) = max b a := by omega

/-- one iteration, with the two conditional updates written as `max`. -/
theorem loop_cons (call : M → S → Int → Int → Option (Int × S)) (beta : Int) (m : M) (ms : List M)
    (st : S) (alpha best : Int) :
    loop call beta (m :: ms) st alpha best =
      match call m st (-beta) (-alpha) with
      | none => none
      | some (sc, st1) =>
        if beta ≤ max alpha (-sc) then some (max best (-sc), st1)
        else loop call beta ms st1 (max alpha (-sc)) (max best (-sc)) := by
  simp only [loop]
  cases call m st (-beta) (-alpha) with
  | none => rfl
  | some x => simp only [ite_gt_eq_max, ge_iff_le]

/-- Soundness of the loop. `a0` is the alpha the node was entered with, `acc` the exact maximum of the
stand-pat value and the children searched so far, `best`/`alpha` the loop variables.
Invariant: `alpha = max a0 best < beta`, and `best` relates to `acc` as a fail-soft answer for `(a0, ·)`. -/
theorem loop_sound (cv : M → Option Int) (call : M → S → Int → Int → Option (Int × S)) (a0 beta : Int) :
    ∀ (ms : List M)
      (_hcall : ∀ m ∈ ms, ∀ st a b r st', a < b → call m st a b = some (r, st') →
        ∀ c, cv m = some c → Bound a b r (-c))
      (st : S) (alpha best acc r : Int) (st' : S) (v : Int),
      alpha = max a0 best → alpha < beta → (best ≤ a0 → acc ≤ best) → (a0 < best → acc = best) →
      loop call beta ms st alpha best = some (r, st') → foldMax cv ms acc = some v →
      Bound a0 beta r v
  | [], _, st, alpha, best, acc, r, st', v, ha, hlt, h1, h2, h, hv => by
    simp only [loop, Option.some.injEq, Prod.mk.injEq] at h
    simp only [foldMax, Option.some.injEq] at hv
    obtain ⟨rfl, _⟩ := h
    subst hv
    refine ⟨h1, fun hh => (h2 hh.1).symm, fun hh => ?_⟩
    omega
  | m :: ms, hcall, st, alpha, best, acc, r, st', v, ha, hlt, h1, h2, h, hv => by
    rw [loop_cons] at h
    simp only [foldMax] at hv
    cases hc : cv m with
    | none => rw [hc] at hv; cases hv
    | some c =>
    rw [hc] at hv
    simp only at hv
    cases hcl : call m st (-beta) (-alpha) with
    | none => rw [hcl] at h; cases h
    | some x =>
    obtain ⟨sc, st1⟩ := x
    rw [hcl] at h
    simp only at h
    obtain ⟨b1, b2, b3⟩ :=
      (hcall m List.mem_cons_self st (-beta) (-alpha) sc st1 (by omega) hcl c hc).neg_child
    have hge := foldMax_ge cv ms _ _ hv
    by_cases hcut : beta ≤ max alpha (-sc)
    · -- cut-off
      rw [if_pos hcut] at h
      simp only [Option.some.injEq, Prod.mk.injEq] at h
      obtain ⟨rfl, _⟩ := h
      have hs : beta ≤ -sc := by omega
      have := b3 hs
      refine ⟨fun hh => ?_, fun hh => ?_, fun _ => ?_⟩ <;> omega
    · rw [if_neg hcut] at h
      refine loop_sound cv call a0 beta ms
        (fun m' hm' => hcall m' (List.mem_cons_of_mem _ hm')) st1 _ _ _ r st' v ?_ ?_ ?_ ?_ h hv
      · omega
      · omega
      · intro hh
        have := b1 (by omega)
        have := h1 (by omega)
        omega
      · intro hh
        by_cases hsa : -sc ≤ alpha
        · have := b1 hsa
          by_cases hb0 : best ≤ a0
          · have := h1 hb0; omega
          · have := h2 (by omega); omega
        · have := b2 ⟨by omega, by omega⟩
          by_cases hb0 : best ≤ a0
          · have := h1 hb0; omega
          · have := h2 (by omega); omega

/-- the loop succeeds whenever all the recursive calls it can make succeed. -/
theorem loop_isSome (call : M → S → Int → Int → Option (Int × S)) (beta : Int) :
    ∀ (ms : List M) (_hcall : ∀ m ∈ ms, ∀ st a b, ∃ r st', call m st a b = some (r, st'))
      (st : S) (alpha best : Int), ∃ r st', loop call beta ms st alpha best = some (r, st')
  | [], _, st, alpha, best => ⟨_, _, rfl⟩
  | m :: ms, hcall, st, alpha, best => by
    obtain ⟨sc, st1, h⟩ := hcall m List.mem_cons_self st (-beta) (-alpha)
    rw [loop_cons, h]
    simp only
    split
    · exact ⟨_, _, rfl⟩
    · exact loop_isSome call beta ms (fun m' hm' => hcall m' (List.mem_cons_of_mem _ hm')) _ _ _

/-- the score of the loop does not depend on the threaded state when the scores of the calls do not. -/
theorem loop_score_indep {S₁ S₂ : Type} (call₁ : M → S₁ → Int → Int → Option (Int × S₁))
    (call₂ : M → S₂ → Int → Int → Option (Int × S₂)) (beta : Int) :
    ∀ (ms : List M)
      (_hcall : ∀ m ∈ ms, ∀ s₁ s₂ a b, (call₁ m s₁ a b).map Prod.fst = (call₂ m s₂ a b).map Prod.fst)
      (s₁ : S₁) (s₂ : S₂) (alpha best : Int),
      (loop call₁ beta ms s₁ alpha best).map Prod.fst = (loop call₂ beta ms s₂ alpha best).map Prod.fst
  | [], _, _, _, _, _ => rfl
  | m :: ms, hcall, s₁, s₂, alpha, best => by
    have h := hcall m List.mem_cons_self s₁ s₂ (-beta) (-alpha)
    rw [loop_cons, loop_cons]
    cases h₁ : call₁ m s₁ (-beta) (-alpha) with
    | none =>
      cases h₂ : call₂ m s₂ (-beta) (-alpha) with
      | none => rfl
      | some x => rw [h₁, h₂] at h; cases h
    | some x =>
      cases h₂ : call₂ m s₂ (-beta) (-alpha) with
      | none => rw [h₁, h₂] at h; cases h
      | some y =>
        rw [h₁, h₂] at h
        simp only [Option.map_some, Option.some.injEq] at h
        obtain ⟨sc, t₁⟩ := x
        obtain ⟨sc', t₂⟩ := y
        simp only at h
        subst h
        simp only
        split
        · rfl
        · exact loop_score_indep call₁ call₂ beta ms
            (fun m' hm' => hcall m' (List.mem_cons_of_mem _ hm')) _ _ _ _

/-- a state measure that no call decreases is not decreased by the loop. -/
theorem loop_mono (call : M → S → Int → Int → Option (Int × S)) (beta : Int) (le : S → S → Prop)
    (le_refl : ∀ s, le s s) (le_trans : ∀ a b c, le a b → le b c → le a c) :
    ∀ (ms : List M) (_hcall : ∀ m ∈ ms, ∀ st a b r st', call m st a b = some (r, st') → le st st')
      (st : S) (alpha best r : Int) (st' : S), loop call beta ms st alpha best = some (r, st') → le st st'
  | [], _, st, _, _, r, st', h => by
    simp only [loop, Option.some.injEq, Prod.mk.injEq] at h
    obtain ⟨_, rfl⟩ := h
    exact le_refl _
  | m :: ms, hcall, st, alpha, best, r, st', h => by
    rw [loop_cons] at h
    cases hcl : call m st (-beta) (-alpha) with
    | none => rw [hcl] at h; cases h
    | some x =>
    obtain ⟨sc, st1⟩ := x
    rw [hcl] at h
    simp only at h
    have h01 := hcall m List.mem_cons_self st _ _ sc st1 hcl
    split at h
    · simp only [Option.some.injEq, Prod.mk.injEq] at h
      obtain ⟨_, rfl⟩ := h
      exact h01
    · exact le_trans _ _ _ h01 (loop_mono call beta le le_refl le_trans ms
        (fun m' hm' => hcall m' (List.mem_cons_of_mem _ hm')) _ _ _ _ _ h)

end
end Rawr.AB
