import Rawr.Proofs.MagicCheck
/-! C10 table check, part 9 of 16: 6560 rows, each one evaluated by the kernel.
The partition into modules balances row counts and depends on board geometry only; the statements do
not mention any table content, so a changed table or magic makes these proofs fail. -/
namespace Rawr.MagicTable
theorem bishop_3 : checkB 3 = true := by decide +kernel
theorem bishop_12 : checkB 12 = true := by decide +kernel
theorem bishop_20 : checkB 20 = true := by decide +kernel
theorem bishop_24 : checkB 24 = true := by decide +kernel
theorem bishop_40 : checkB 40 = true := by decide +kernel
theorem bishop_44 : checkB 44 = true := by decide +kernel
theorem bishop_52 : checkB 52 = true := by decide +kernel
theorem rook_8 : checkR 8 = true := by decide +kernel
theorem rook_21 : checkR 21 = true := by decide +kernel
theorem rook_43 : checkR 43 = true := by decide +kernel
theorem rook_57 : checkR 57 = true := by decide +kernel
end Rawr.MagicTable
