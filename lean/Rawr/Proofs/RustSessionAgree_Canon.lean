import Rawr.Generated.RustSession
import Rawr.Proofs.FenDecimal
/-!
# The canonicalisation of the UCI transcript, as a function on the printed byte stream

The model (Rawr/Model/Uci.lean) prints `time ?` for every clock value, leaves `nps ..` out and prints `id name Rawr ?`;
the correspondence harness rewrites the real transcript the same way (`canon_transcript` in tools/vlib.py).  Here the
rewriting is a Lean function `transcript : List Char → List String` on the byte stream the regenerated Rust code prints:
the stream is cut at `'\n'` (`linesOf`), every line goes through `canonLine`:

* a line `nps ..` (split.rs) is dropped, a line `time ..` (split.rs) becomes `time ?`,
* `id name Rawr <version>` becomes `id name Rawr ?`,
* in a line `info depth ..` (go.rs `info_printer`, perft.rs) the word after `time` becomes `?` and the word `nps` and
  the word after it are removed (`canonWords`),
* every other line is kept.

`Out s m` says that the stream `s` consists of complete lines whose canonical form is the list `m` of model lines;
`Out.transcript` turns it into the functional statement `transcript s = m`.
-/
namespace Rawr.Sess
open T

/-! ## lines of a stream -/
/-- the lines of a byte stream (each terminated by `'\n'`; an unterminated rest counts as a line). -/
def linesOf : List Char → List (List Char)
  | [] => []
  | c :: r =>
    if c = '\n' then [] :: linesOf r
    else match linesOf r with
      | [] => [[c]]
      | l :: ls => (c :: l) :: ls

theorem linesOf_line (w r : List Char) (h : '\n' ∉ w) : linesOf (w ++ '\n' :: r) = w :: linesOf r := by
  induction w with
  | nil => simp [linesOf]
  | cons c w ih =>
    have hc : c ≠ '\n' := by intro e; apply h; simp [e]
    have hw : '\n' ∉ w := by intro e; apply h; simp [e]
    simp only [List.cons_append, linesOf, hc, if_false, ih hw]

/-- the stream of a list of lines. -/
def unl (L : List (List Char)) : List Char := L.flatMap (· ++ ['\n'])

theorem unl_nil : unl [] = [] := rfl
theorem unl_cons (l : List Char) (L : List (List Char)) : unl (l :: L) = l ++ '\n' :: unl L := by
  simp [unl]
theorem unl_append (A B : List (List Char)) : unl (A ++ B) = unl A ++ unl B := by simp [unl]

theorem linesOf_unl (L : List (List Char)) (h : ∀ l ∈ L, '\n' ∉ l) : linesOf (unl L) = L := by
  induction L with
  | nil => rfl
  | cons l L ih =>
    rw [unl_cons, linesOf_line _ _ (h l (by simp)), ih (fun x hx => h x (by simp [hx]))]

/-! ## words of a line -/
/-- `str::split(' ')`: the words of a line (empty words between consecutive blanks). -/
def splitSp : List Char → List (List Char)
  | [] => [[]]
  | c :: r =>
    if c = ' ' then [] :: splitSp r
    else match splitSp r with
      | [] => [[c]]
      | w :: ws => (c :: w) :: ws

theorem splitSp_ne_nil (l : List Char) : splitSp l ≠ [] := by
  cases l with
  | nil => simp [splitSp]
  | cons c r =>
    simp only [splitSp]
    split
    · simp
    · split <;> simp

theorem splitSp_word (w : List Char) (h : ' ' ∉ w) : splitSp w = [w] := by
  induction w with
  | nil => rfl
  | cons c w ih =>
    have hc : c ≠ ' ' := by intro e; apply h; simp [e]
    have hw : ' ' ∉ w := by intro e; apply h; simp [e]
    simp only [splitSp, hc, if_false, ih hw]

theorem splitSp_cons (w r : List Char) (h : ' ' ∉ w) : splitSp (w ++ ' ' :: r) = w :: splitSp r := by
  induction w with
  | nil => simp [splitSp]
  | cons c w ih =>
    have hc : c ≠ ' ' := by intro e; apply h; simp [e]
    have hw : ' ' ∉ w := by intro e; apply h; simp [e]
    simp only [List.cons_append, splitSp, hc, if_false, ih hw]

/-- words joined by single blanks. -/
def joinSp : List (List Char) → List Char
  | [] => []
  | [w] => w
  | w :: ws => w ++ ' ' :: joinSp ws

theorem joinSp_cons (w v : List Char) (ws : List (List Char)) : joinSp (w :: v :: ws) = w ++ ' ' :: joinSp (v :: ws) := rfl

theorem splitSp_joinSp (ws : List (List Char)) (hne : ws ≠ []) (h : ∀ w ∈ ws, ' ' ∉ w) : splitSp (joinSp ws) = ws := by
  induction ws with
  | nil => exact absurd rfl hne
  | cons w ws ih =>
    cases ws with
    | nil => exact splitSp_word w (h w (by simp))
    | cons v ws =>
      rw [joinSp_cons, splitSp_cons _ _ (h w (by simp)), ih (by simp) (fun x hx => h x (by simp [hx]))]

/-! ## the canonical form of a line -/
/-- in the words of an `info depth ..` line: `time <t>` becomes `time ?`, `nps <n>` disappears.
State: `none` = copying, `some true` = replace the next word by `?`, `some false` = drop the next word. -/
def canonWords : Option Bool → List (List Char) → List (List Char)
  | _, [] => []
  | some true, _ :: r => ['?'] :: canonWords none r
  | some false, _ :: r => canonWords none r
  | none, w :: r =>
    if w = ['t', 'i', 'm', 'e'] then w :: canonWords (some true) r
    else if w = ['n', 'p', 's'] then canonWords (some false) r
    else w :: canonWords none r

/-- `"id name Rawr "` -/
def pfxId : List Char := ['i', 'd', ' ', 'n', 'a', 'm', 'e', ' ', 'R', 'a', 'w', 'r', ' ']
/-- `"info depth "` -/
def pfxInfo : List Char := ['i', 'n', 'f', 'o', ' ', 'd', 'e', 'p', 't', 'h', ' ']

/-- the canonical form of one printed line (`none`: the line is dropped). -/
def canonLine (l : List Char) : Option (List Char) :=
  if ['n', 'p', 's', ' '].isPrefixOf l then none
  else if ['t', 'i', 'm', 'e', ' '].isPrefixOf l then some ['t', 'i', 'm', 'e', ' ', '?']
  else if pfxId.isPrefixOf l then some (pfxId ++ ['?'])
  else if pfxInfo.isPrefixOf l then some (joinSp (canonWords none (splitSp l)))
  else some l

/-- **the canonical transcript of a printed byte stream** (what the model's `listen` returns). -/
def transcript (s : List Char) : List String := ((linesOf s).filterMap canonLine).map String.ofList

/-- a word that `canonWords` copies. -/
def Plain (w : List Char) : Prop := w ≠ ['t', 'i', 'm', 'e'] ∧ w ≠ ['n', 'p', 's']

theorem canonWords_plain (w : List Char) (r : List (List Char)) (h : Plain w) :
    canonWords none (w :: r) = w :: canonWords none r := by
  simp [canonWords, h.1, h.2]
theorem canonWords_time (v : List Char) (r : List (List Char)) :
    canonWords none (['t', 'i', 'm', 'e'] :: v :: r) = ['t', 'i', 'm', 'e'] :: ['?'] :: canonWords none r := by
  simp [canonWords]
theorem canonWords_nps (v : List Char) (r : List (List Char)) :
    canonWords none (['n', 'p', 's'] :: v :: r) = canonWords none r := by
  simp [canonWords]
theorem canonWords_all_plain (ws : List (List Char)) (h : ∀ w ∈ ws, Plain w) : canonWords none ws = ws := by
  induction ws with
  | nil => rfl
  | cons w ws ih => rw [canonWords_plain _ _ (h w (by simp)), ih (fun x hx => h x (by simp [hx]))]

/-! ### lines the canonicalisation keeps -/
theorem isPrefixOf_mem {a : Char} {p l : List Char} (ha : a ∈ p) (h : p.isPrefixOf l = true) : a ∈ l := by
  rw [List.isPrefixOf_iff_prefix] at h
  exact h.subset ha

/-- a line without a blank is kept. -/
theorem canonLine_noblank (l : List Char) (h : ' ' ∉ l) : canonLine l = some l := by
  unfold canonLine
  have h1 : ['n', 'p', 's', ' '].isPrefixOf l = false := by
    cases hp : ['n', 'p', 's', ' '].isPrefixOf l
    · rfl
    · exact absurd (isPrefixOf_mem (a := ' ') (by simp) hp) h
  have h2 : ['t', 'i', 'm', 'e', ' '].isPrefixOf l = false := by
    cases hp : ['t', 'i', 'm', 'e', ' '].isPrefixOf l
    · rfl
    · exact absurd (isPrefixOf_mem (a := ' ') (by simp) hp) h
  have h3 : pfxId.isPrefixOf l = false := by
    cases hp : pfxId.isPrefixOf l
    · rfl
    · exact absurd (isPrefixOf_mem (a := ' ') (by decide) hp) h
  have h4 : pfxInfo.isPrefixOf l = false := by
    cases hp : pfxInfo.isPrefixOf l
    · rfl
    · exact absurd (isPrefixOf_mem (a := ' ') (by decide) hp) h
  simp only [h1, h2, h3, h4, Bool.false_eq_true, if_false]

/-- a line whose first character is none of `n`, `t`, `i` is kept. -/
theorem canonLine_head (c : Char) (r : List Char) (h1 : c ≠ 'n') (h2 : c ≠ 't') (h3 : c ≠ 'i') :
    canonLine (c :: r) = some (c :: r) := by
  unfold canonLine
  simp only [pfxId, pfxInfo, List.isPrefixOf, Bool.and_eq_true, beq_iff_eq, Ne.symm h1, Ne.symm h2, Ne.symm h3, false_and,
    if_false]

/-! ## `Out`: a stream of complete lines with a given canonical form -/
/-- `s` is the stream of a list of newline-free lines whose canonical form is `m`. -/
def Out (s : List Char) (m : List String) : Prop :=
  ∃ L : List (List Char), s = unl L ∧ (∀ l ∈ L, '\n' ∉ l) ∧ L.filterMap canonLine = m.map String.toList

theorem Out.nil : Out [] [] := ⟨[], rfl, by simp, rfl⟩

theorem Out.append {s t : List Char} {m n : List String} (h1 : Out s m) (h2 : Out t n) : Out (s ++ t) (m ++ n) := by
  obtain ⟨L1, e1, n1, c1⟩ := h1
  obtain ⟨L2, e2, n2, c2⟩ := h2
  refine ⟨L1 ++ L2, by rw [e1, e2, unl_append], ?_, by rw [List.filterMap_append, c1, c2, List.map_append]⟩
  intro l hl
  rcases List.mem_append.1 hl with h | h
  · exact n1 l h
  · exact n2 l h

theorem Out.transcript {s : List Char} {m : List String} (h : Out s m) : transcript s = m := by
  obtain ⟨L, e, nl, c⟩ := h
  unfold Sess.transcript
  rw [e, linesOf_unl L nl, c, List.map_map]
  have : (String.ofList ∘ String.toList) = id := by funext x; simp
  rw [this, List.map_id]

/-- one printed line with canonical form `b`. -/
theorem Out.line1 (a : String) (b : String) (hn : '\n' ∉ a.toList) (hc : canonLine a.toList = some b.toList) :
    Out (T.line a) [b] :=
  ⟨[a.toList], by simp [T.line, unl], by simpa using hn, by simp [hc]⟩

/-- one printed line that the canonicalisation drops. -/
theorem Out.dropped (a : String) (hn : '\n' ∉ a.toList) (hc : canonLine a.toList = none) : Out (T.line a) [] :=
  ⟨[a.toList], by simp [T.line, unl], by simpa using hn, by simp [hc]⟩

/-- lines printed by a callee of RustText.lean that the canonicalisation keeps. -/
theorem Out.unlines (L : List String) (hn : ∀ a ∈ L, '\n' ∉ a.toList) (hc : ∀ a ∈ L, canonLine a.toList = some a.toList) :
    Out (T.unlines L) L := by
  induction L with
  | nil => exact Out.nil
  | cons a L ih =>
    have : T.unlines (a :: L) = T.line a ++ T.unlines L := by simp [T.unlines]
    rw [this]
    exact Out.append (m := [a]) (Out.line1 a a (hn a (by simp)) (hc a (by simp)))
      (ih (fun x hx => hn x (by simp [hx])) (fun x hx => hc x (by simp [hx])))

/-! ## characters of printed numbers -/
theorem toString_nat_toList (n : Nat) : (toString n).toList = Nat.toDigits 10 n := by
  show (Nat.repr n).toList = _
  simp [Nat.repr]

theorem nat_digits (n : Nat) : ∀ c ∈ (toString n).toList, '0' ≤ c ∧ c ≤ '9' := by
  rw [toString_nat_toList]; exact toDigits_digits n

theorem toDigits_ne_nil (n : Nat) : Nat.toDigits 10 n ≠ [] := by
  have := intChars_ne_nil (n : Int)
  rwa [intChars_natCast, natChars_eq] at this

/-- the characters of a printed `i32` / `u64` / `u128`: digits or a sign. -/
def NumChars (w : List Char) : Prop := w ≠ [] ∧ ∀ c ∈ w, ('0' ≤ c ∧ c ≤ '9') ∨ c = '-'

theorem numChars_nat (n : Nat) : NumChars (toString n).toList :=
  ⟨by rw [toString_nat_toList]; exact toDigits_ne_nil n, fun c hc => Or.inl (nat_digits n c hc)⟩

theorem numChars_int (i : Int) : NumChars (toString i).toList := by
  cases i with
  | ofNat n => exact numChars_nat n
  | negSucc n =>
    show NumChars (("-" ++ Nat.repr (n + 1))).toList
    have h := numChars_nat (n + 1)
    refine ⟨by simp, ?_⟩
    intro c hc
    simp only [String.toList_append, List.mem_append] at hc
    rcases hc with hc | hc
    · right; simpa using hc
    · exact h.2 c hc

theorem NumChars.noblank {w : List Char} (h : NumChars w) : ' ' ∉ w := by
  intro hm
  rcases h.2 _ hm with ⟨h1, _⟩ | h1
  · exact absurd h1 (by decide)
  · exact absurd h1 (by decide)

theorem NumChars.nonl {w : List Char} (h : NumChars w) : '\n' ∉ w := by
  intro hm
  rcases h.2 _ hm with ⟨h1, _⟩ | h1
  · exact absurd h1 (by decide)
  · exact absurd h1 (by decide)

theorem NumChars.plain {w : List Char} (h : NumChars w) : Plain w := by
  constructor
  · intro e
    rcases h.2 't' (by rw [e]; simp) with ⟨_, h2⟩ | h1
    · exact absurd h2 (by decide)
    · exact absurd h1 (by decide)
  · intro e
    rcases h.2 'n' (by rw [e]; simp) with ⟨_, h2⟩ | h1
    · exact absurd h2 (by decide)
    · exact absurd h1 (by decide)

theorem NumChars.head {w : List Char} (h : NumChars w) : ∃ c r, w = c :: r ∧ c ≠ 'n' ∧ c ≠ 't' ∧ c ≠ 'i' := by
  cases w with
  | nil => exact absurd rfl h.1
  | cons c r =>
    refine ⟨c, r, rfl, ?_⟩
    rcases h.2 c (by simp) with ⟨h1, h2⟩ | h1
    · refine ⟨?_, ?_, ?_⟩ <;> (intro e; rw [e] at h2; exact absurd h2 (by decide))
    · rw [h1]; decide

end Rawr.Sess
