import Rawr.Proofs.SpecSanityPerftDefs
/-!
# Sanity of the specification, part 5: Chess960 perft position 1 (kernel-evaluated)

`bqnb1rkr/pp3ppp/3ppn2/2p5/5P2/P2P4/NPP1P1PP/BQ1BNRKR w HFhf - 2 9`, the first entry of the customary
Chess960 perft suite: 21, 528 (, 12189, …).
-/
namespace Rawr.SpecS
open Rawr.Spec

theorem leaves_frcPos1_1 : leaves frcPos1 1 = 21 := by decide +kernel

theorem leaves_frcPos1_2 : leaves frcPos1 2 = 528 := by decide +kernel

end Rawr.SpecS
