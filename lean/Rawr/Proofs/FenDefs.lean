import Rawr.Model.Fen
import Rawr.Abs
import Rawr.Spec.Fen
import Rawr.Proofs.Leapers
/-! Shared definitions for the FEN proofs (C06, C07): the bitboards spelled out by a coordinate board. -/
namespace Rawr
open Spec

/-- square `s` of `b` holds a piece of colour `white`. -/
def isCol (b : Board) (white : Bool) (s : Nat) : Bool :=
  match b s with | some pc => pc.white == white | none => false

/-- square `s` of `b` holds a piece of kind `k`. -/
def isKind (b : Board) (k : Kind) (s : Nat) : Bool :=
  match b s with | some pc => pc.kind == k | none => false

/-- `q` with the eight boards replaced by the ones `b` spells out in absolute coordinates
(`c0` = White's pieces, `c1` = Black's): what the board loop of `set_fen` builds before the optional flip. -/
def placeAbs (b : Board) (q : Position) : Position :=
  { q with
    c0 := geomBB (isCol b true), c1 := geomBB (isCol b false),
    p0 := geomBB (isKind b .pawn), p1 := geomBB (isKind b .knight), p2 := geomBB (isKind b .bishop),
    p3 := geomBB (isKind b .rook), p4 := geomBB (isKind b .queen), p5 := geomBB (isKind b .king) }

/-- all eight boards of `q` are empty. -/
def BoardsEmpty (q : Position) : Prop :=
  q.c0 = 0#64 ∧ q.c1 = 0#64 ∧ q.p0 = 0#64 ∧ q.p1 = 0#64 ∧ q.p2 = 0#64 ∧ q.p3 = 0#64 ∧ q.p4 = 0#64 ∧ q.p5 = 0#64

end Rawr
