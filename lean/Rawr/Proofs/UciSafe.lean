import Rawr.Proofs.UciCount
/-! The panic sources of the UCI model, made explicit: a predicate `Safe` on (state, script), defined by
recursion over the run, that names exactly the partial components (`setFen`, `root`, `perft`, `makemove`), and
the proof that a `Safe` script never panics. Everything else (`parseGo`, `doSetoption`, the dispatch, `split`
with depth 0 = saturating subtraction, `movestogo 0`) is total. -/
namespace Rawr

/-- a `go` line is safe: the search / perft calls it makes return. -/
def GoSafe (clock : Nat → Bool) (s : UState) (toks : List (List Char)) : Prop :=
  match parseGo toks with
  | none => True
  | some (.perft d) => ∀ i, i < d → (perft (i + 1) s.pos).isSome = true
  | some (.split d) =>
    ∀ m ∈ legalMoves s.pos, ∃ np, s.pos.makemove m false = some np ∧ (perft (d - 1) np).isSome = true
  | some k => (root (k.limit clock) 1000 s.pos s.hist s.tt).isSome = true

/-- a token list is safe: every `makemove` on a selected move returns. -/
def MovesSafe (ts : List (List Char)) (pos : Position) : Prop := (trace ts pos).isSome = true

/-- a `position` line is safe: the FEN is accepted by `setFen` and the moves are safe. -/
def PositionSafe (ar : Arith) (s : UState) (toks : List (List Char)) : Prop :=
  ∃ p, setFen ar s.pos.frc (positionArgs toks).1 = some p ∧
    MovesSafe (positionArgs toks).2 { p with frc := s.pos.frc }

/-- one line is safe in state `s`. Only `go`, `position` and `moves` lines carry a condition. -/
def StepSafe (ar : Arith) (clock : Nat → Bool) (s : UState) (l : List Char) : Prop :=
  (cmdOf l = str "go" → GoSafe clock s (argsOf l)) ∧
  (cmdOf l = str "position" → PositionSafe ar s (argsOf l)) ∧
  (cmdOf l = str "moves" → MovesSafe (argsOf l) s.pos)

/-- a script is safe from state `s` (recursion over the run). -/
def Safe (ar : Arith) (clock : Nat → Bool) : UState → List (List Char) → Prop
  | _, [] => True
  | s, l :: ls =>
    StepSafe ar clock s l ∧ ∀ s' o, stepSecond ar clock s l = some (s', o, false) → Safe ar clock s' ls

theorem foldl_opt_isSome {α γ : Type} (f : Option γ → α → Option γ) (xs : List α)
    (h : ∀ a ∈ xs, ∀ c, (f (some c) a).isSome = true) (init : γ) :
    (xs.foldl f (some init)).isSome = true := by
  induction xs generalizing init with
  | nil => rfl
  | cons x xs ih =>
    rw [List.foldl_cons]
    obtain ⟨c, hc⟩ := Option.isSome_iff_exists.1 (h x (by simp) init)
    rw [hc]
    exact ih (fun a ha => h a (by simp [ha])) c

variable {ar : Arith} {clock : Nat → Bool}

theorem moves_safe {ts : List (List Char)} {pos : Position} (h : MovesSafe ts pos) (hist : List BB)
    (out : List String) : (applyTokens ts pos hist out).isSome = true := by
  rw [applyTokens_eq]
  unfold MovesSafe at h
  obtain ⟨tr, htr⟩ := Option.isSome_iff_exists.1 h
  rw [htr]
  rfl

theorem position_safe {s : UState} {toks : List (List Char)} (h : PositionSafe ar s toks) :
    (doPosition ar s toks).isSome = true := by
  obtain ⟨p, hp, hm⟩ := h
  rw [doPosition_eq, hp]
  simp only
  obtain ⟨r, hr⟩ := Option.isSome_iff_exists.1 (moves_safe hm [p.hash] [])
  rw [hr]
  rfl

theorem go_safe {s : UState} {toks : List (List Char)} (h : GoSafe clock s toks) :
    (doGo ar clock s toks).isSome = true := by
  unfold GoSafe at h
  cases hp : parseGo toks with
  | none => rw [doGo_none hp]; rfl
  | some k =>
    rw [hp] at h
    have search : k.isSearch = true → (root (k.limit clock) 1000 s.pos s.hist s.tt).isSome = true →
        (doGo ar clock s toks).isSome = true := by
      intro hk hr
      rw [doGo_search hp hk]
      unfold goSearch
      obtain ⟨res, hres⟩ := Option.isSome_iff_exists.1 hr
      rw [hres]
      rfl
    cases k with
    | time wt bt mtg => exact search rfl h
    | movetime t => exact search rfl h
    | depth d => exact search rfl h
    | nodes n => exact search rfl h
    | infinite => exact search rfl h
    | perft d =>
      simp only at h
      unfold doGo
      rw [hp]
      simp only [Option.isSome_map]
      apply foldl_opt_isSome
      intro i hi c
      obtain ⟨n, hn⟩ := Option.isSome_iff_exists.1 (h i (List.mem_range.1 hi))
      rw [hn]
      rfl
    | split d =>
      simp only at h
      unfold doGo
      rw [hp]
      simp only [Option.isSome_map]
      apply foldl_opt_isSome
      intro m hm c
      obtain ⟨np, hnp, hpf⟩ := h m hm
      obtain ⟨n, hn⟩ := Option.isSome_iff_exists.1 hpf
      obtain ⟨l, tot⟩ := c
      rw [hnp]
      simp only [hn]
      rfl

/-- a safe line does not panic. -/
theorem step_safe {s : UState} {l : List Char} (h : StepSafe ar clock s l) :
    (stepSecond ar clock s l).isSome = true := by
  obtain ⟨hg, hp, hm⟩ := h
  by_cases c1 : cmdOf l = str "ucinewgame"
  · rw [stepSecond_ucinewgame ar clock s l c1]; rfl
  by_cases c2 : cmdOf l = str "isready"
  · rw [stepSecond_isready ar clock s l c2]; rfl
  by_cases c3 : cmdOf l = str "print" ∨ cmdOf l = str "display" ∨ cmdOf l = str "board"
  · rw [stepSecond_print ar clock s l c3]; rfl
  by_cases c4 : cmdOf l = str "go"
  · rw [stepSecond_go ar clock s l c4, Option.isSome_map]; exact go_safe (hg c4)
  by_cases c5 : cmdOf l = str "position"
  · rw [stepSecond_position ar clock s l c5, Option.isSome_map]; exact position_safe (hp c5)
  by_cases c6 : cmdOf l = str "moves"
  · rw [stepSecond_moves ar clock s l c6, Option.isSome_map]; exact moves_safe (hm c6) _ _
  by_cases c7 : cmdOf l = str "setoption"
  · rw [stepSecond_setoption ar clock s l c7]; rfl
  by_cases c8 : cmdOf l = str "history"
  · rw [stepSecond_history ar clock s l c8]; rfl
  by_cases c9 : cmdOf l = str "eval"
  · rw [stepSecond_eval ar clock s l c9]; rfl
  by_cases c10 : cmdOf l = str "quit"
  · rw [stepSecond_quit ar clock s l c10]; rfl
  · have hk : ∀ c ∈ knownCmds, cmdOf l ≠ str c := by
      intro c hc
      simp only [knownCmds, List.mem_cons, List.not_mem_nil, or_false] at hc
      rcases hc with rfl | rfl | rfl | rfl | rfl | rfl | rfl | rfl | rfl | rfl | rfl | rfl
      · exact c1
      · exact c2
      · exact fun e => c3 (Or.inl e)
      · exact fun e => c3 (Or.inr (Or.inl e))
      · exact fun e => c3 (Or.inr (Or.inr e))
      · exact c4
      · exact c5
      · exact c6
      · exact c7
      · exact c8
      · exact c9
      · exact c10
    rw [stepSecond_other ar clock s l hk]; rfl

/-- a safe script does not panic in the second loop. -/
theorem steps_safe {ls : List (List Char)} {s : UState} (h : Safe ar clock s ls) :
    (steps ar clock s ls).isSome = true := by
  induction ls generalizing s with
  | nil => rfl
  | cons l ls ih =>
    obtain ⟨h1, h2⟩ := h
    obtain ⟨⟨s', o, q⟩, hs⟩ := Option.isSome_iff_exists.1 (step_safe h1)
    simp only [steps, hs]
    cases q with
    | true => rfl
    | false =>
      simp only
      obtain ⟨r, hr⟩ := Option.isSome_iff_exists.1 (ih (h2 s' o hs))
      rw [hr]
      rfl

theorem setFen_startpos (ar : Arith) : setFen ar false (str "startpos") = some Gen.startpos := by
  cases ar <;> decide +kernel

/-- the state in which `listen` starts its first loop. -/
def initState : UState :=
  { hashMb := 16, frc := false, pos := Gen.startpos, hist := [Gen.startpos.hash], tt := Table.new 0 Gen.ttEntrySize }

/-- the state in which the second loop starts and the lines it gets (`none` = `quit` in the first loop). -/
def afterFirst (lines : List (List Char)) : Option (UState × Bool × List (List Char)) :=
  (firstLoop lines initState).map fun r =>
    ({ r.1 with tt := r.1.tt.resize r.1.hashMb Gen.ttEntrySize }, r.2.1, r.2.2)

theorem listen_eq (ar : Arith) (clock : Nat → Bool) (lines : List (List Char)) :
    listen ar clock lines =
      match afterFirst lines with
      | none => some (banner false 16)
      | some (s, r, rest) =>
        (steps ar clock s rest).map fun x => (banner false 16 ++ if r then ["readyok"] else []) ++ x.2.1 := by
  unfold listen afterFirst
  rw [setFen_startpos]
  simp only
  unfold initState
  cases firstLoop lines _ with
  | none => rfl
  | some r =>
    obtain ⟨s, g, rest⟩ := r
    simp only [Option.map_some]
    rw [secondLoop_eq]

/-- a whole script is safe. -/
def ListenSafe (ar : Arith) (clock : Nat → Bool) (lines : List (List Char)) : Prop :=
  match afterFirst lines with
  | none => True
  | some (s, _, rest) => Safe ar clock s rest

theorem listen_safe {lines : List (List Char)} (h : ListenSafe ar clock lines) :
    (listen ar clock lines).isSome = true := by
  rw [listen_eq]
  unfold ListenSafe at h
  cases ha : afterFirst lines with
  | none => rfl
  | some r =>
    obtain ⟨s, g, rest⟩ := r
    rw [ha] at h
    simp only [Option.isSome_map] at h ⊢
    exact steps_safe h

/-! ## the converse: `Safe` is exactly "does not panic" -/

theorem foldl_opt_isSome_rev {α γ : Type} (G : α → Prop) (f : Option γ → α → Option γ)
    (hn : ∀ a, f none a = none) (hf : ∀ a c, (f (some c) a).isSome = true → G a)
    (xs : List α) (init : γ) (h : (xs.foldl f (some init)).isSome = true) : ∀ a ∈ xs, G a := by
  induction xs generalizing init with
  | nil => intro a ha; cases ha
  | cons x xs ih =>
    rw [List.foldl_cons] at h
    cases hx : f (some init) x with
    | none => rw [hx, foldl_none f hn] at h; cases h
    | some c =>
      rw [hx] at h
      intro a ha
      rcases List.mem_cons.1 ha with rfl | ha
      · exact hf _ init (by rw [hx]; rfl)
      · exact ih c h a ha

theorem moves_safe_iff {ts : List (List Char)} {pos : Position} (hist : List BB) (out : List String) :
    (applyTokens ts pos hist out).isSome = true ↔ MovesSafe ts pos := by
  rw [applyTokens_eq, Option.isSome_map]
  rfl

theorem position_safe_iff {s : UState} {toks : List (List Char)} :
    (doPosition ar s toks).isSome = true ↔ PositionSafe ar s toks := by
  refine ⟨fun h => ?_, position_safe⟩
  rw [doPosition_eq] at h
  split at h
  · cases h
  · next p hp =>
    refine ⟨p, hp, ?_⟩
    rw [← moves_safe_iff [p.hash] []]
    split at h
    · cases h
    · next hap => rw [hap]; rfl

theorem go_safe_iff {s : UState} {toks : List (List Char)} :
    (doGo ar clock s toks).isSome = true ↔ GoSafe clock s toks := by
  refine ⟨fun h => ?_, go_safe⟩
  unfold GoSafe
  cases hp : parseGo toks with
  | none => trivial
  | some k =>
    have search : k.isSearch = true → (root (k.limit clock) 1000 s.pos s.hist s.tt).isSome = true := by
      intro hk
      rw [doGo_search hp hk] at h
      unfold goSearch at h
      split at h
      · cases h
      · next hres => rw [hres]; rfl
    cases k with
    | time wt bt mtg => exact search rfl
    | movetime t => exact search rfl
    | depth d => exact search rfl
    | nodes n => exact search rfl
    | infinite => exact search rfl
    | perft d =>
      simp only
      unfold doGo at h
      rw [hp] at h
      simp only [Option.isSome_map] at h
      intro i hi
      refine foldl_opt_isSome_rev (fun i => (perft (i + 1) s.pos).isSome = true) _ (fun a => rfl) ?_ _ _ h i
        (List.mem_range.2 hi)
      intro a c hc
      split at hc
      · next e1 e2 => rw [e2]; rfl
      · cases hc
    | split d =>
      simp only
      unfold doGo at h
      rw [hp] at h
      simp only [Option.isSome_map] at h
      intro m hm
      refine foldl_opt_isSome_rev
        (fun m => ∃ np, s.pos.makemove m false = some np ∧ (perft (d - 1) np).isSome = true) _ (fun a => rfl) ?_ _ _ h
        m hm
      intro a c hc
      split at hc
      · next np e1 e2 =>
        refine ⟨np, e2, ?_⟩
        rw [Option.isSome_map] at hc
        exact hc
      · cases hc

theorem step_safe_iff {s : UState} {l : List Char} :
    (stepSecond ar clock s l).isSome = true ↔ StepSafe ar clock s l := by
  refine ⟨fun h => ⟨fun c => ?_, fun c => ?_, fun c => ?_⟩, step_safe⟩
  · rw [stepSecond_go ar clock s l c, Option.isSome_map] at h
    exact go_safe_iff.1 h
  · rw [stepSecond_position ar clock s l c, Option.isSome_map] at h
    exact position_safe_iff.1 h
  · rw [stepSecond_moves ar clock s l c, Option.isSome_map] at h
    exact (moves_safe_iff _ _).1 h

theorem steps_safe_iff {ls : List (List Char)} {s : UState} :
    (steps ar clock s ls).isSome = true ↔ Safe ar clock s ls := by
  refine ⟨fun h => ?_, steps_safe⟩
  induction ls generalizing s with
  | nil => trivial
  | cons l ls ih =>
    simp only [steps] at h
    split at h
    · cases h
    · next s1 o1 hs =>
      refine ⟨step_safe_iff.1 (by rw [hs]; rfl), ?_⟩
      intro s' o hs'
      rw [hs] at hs'
      cases hs'
    · next s1 o1 hs =>
      refine ⟨step_safe_iff.1 (by rw [hs]; rfl), ?_⟩
      intro s' o hs'
      rw [hs] at hs'
      cases hs'
      apply ih
      split at h
      · cases h
      · next h2 => rw [h2]; rfl

/-- `ListenSafe` is exactly "the process does not panic". -/
theorem listen_safe_iff {lines : List (List Char)} :
    (listen ar clock lines).isSome = true ↔ ListenSafe ar clock lines := by
  refine ⟨fun h => ?_, listen_safe⟩
  rw [listen_eq] at h
  unfold ListenSafe
  cases ha : afterFirst lines with
  | none => trivial
  | some r =>
    obtain ⟨s, g, rest⟩ := r
    rw [ha] at h
    simp only [Option.isSome_map] at h ⊢
    exact steps_safe_iff.1 h

end Rawr
