import Rawr.Abs
import Rawr.Proofs.EvalBound
/-! From the domain `D` of DESIGN.md §4 (`InD`: board consistency V.1 + legal material M on the
absolute position) to the hypotheses of the evaluation bound: at most 16 men a side on the
engine's colour boards (core Lean only). -/
namespace Rawr
open Spec

theorem range64_map_absSq_perm (bl : Bool) : ((List.range 64).map (absSq bl)).Perm (List.range 64) := by
  cases bl
  · have : absSq false = id := rfl
    rw [this, List.map_id]
  · exact range64_map_flipSq_perm

/-- `countPieces` as a `countP`, re-indexed by the relative square. -/
theorem countPieces_eq_rel (b : Board) (f : Piece → Bool) (bl : Bool) :
    countPieces b f = (List.range 64).countP
      (fun s => match b (absSq bl s) with | some pc => f pc | none => false) := by
  unfold countPieces squares
  rw [← List.countP_eq_length_filter]
  rw [← (range64_map_absSq_perm bl).countP_eq, List.countP_map]
  rfl

theorem absSq_absSq (bl : Bool) (s : Nat) : absSq bl (absSq bl s) = s := by
  cases bl
  · rfl
  · exact flipSq_flipSq s

theorem absSq_lt (bl : Bool) {s : Nat} (h : s < 64) : absSq bl s < 64 := by
  cases bl
  · exact h
  · exact flipSq_lt h

theorem pieceOn_ne_none_of_bits {p : Position} {s : Nat}
    (h : (p.p0 ||| p.p1 ||| p.p2 ||| p.p3 ||| p.p4 ||| p.p5).getLsbD s = true) :
    ∃ k, p.pieceOn s = some k := by
  unfold Position.pieceOn BB.isSet
  simp only [BitVec.getLsbD_or, Bool.or_eq_true] at h
  by_cases h0 : p.p0.getLsbD s = true
  · exact ⟨0, by simp [h0]⟩
  by_cases h1 : p.p1.getLsbD s = true
  · exact ⟨1, by simp [h0, h1]⟩
  by_cases h2 : p.p2.getLsbD s = true
  · exact ⟨2, by simp [h0, h1, h2]⟩
  by_cases h3 : p.p3.getLsbD s = true
  · exact ⟨3, by simp [h0, h1, h2, h3]⟩
  by_cases h4 : p.p4.getLsbD s = true
  · exact ⟨4, by simp [h0, h1, h2, h3, h4]⟩
  by_cases h5 : p.p5.getLsbD s = true
  · exact ⟨5, by simp [h0, h1, h2, h3, h4, h5]⟩
  · simp [h0, h1, h2, h3, h4, h5] at h

/-- The men of the mover (`c0`) are at most the pieces of the mover's colour on the absolute board;
likewise for the opponent (`c1`). -/
theorem count_le_countPieces {p : Position} (hc : Consistent p = true) :
    count p.c0 ≤ countPieces (absBoard p) (fun pc => pc.white == !p.black) ∧
    count p.c1 ≤ countPieces (absBoard p) (fun pc => pc.white == p.black) := by
  unfold Consistent at hc
  simp only [Bool.and_eq_true, beq_iff_eq] at hc
  have hocc := hc.2
  have hdis : p.c0 &&& p.c1 = 0#64 := hc.1.1.1.1.1.1.1.1.1.1.1.1.1.1.1.1
  rw [countPieces_eq_rel _ _ p.black, countPieces_eq_rel _ _ p.black, count_eq_countP,
    count_eq_countP]
  have key : ∀ s, s < 64 → (p.c0.getLsbD s = true ∨ p.c1.getLsbD s = true) →
      ∃ k, absBoard p (absSq p.black s) =
        if p.c0.getLsbD s = true then some ⟨!p.black, kindOf k⟩ else some ⟨p.black, kindOf k⟩ := by
    intro s hs hor
    have hbits : (p.p0 ||| p.p1 ||| p.p2 ||| p.p3 ||| p.p4 ||| p.p5).getLsbD s = true := by
      rw [← hocc, BitVec.getLsbD_or, Bool.or_eq_true]; exact hor
    obtain ⟨k, hk⟩ := pieceOn_ne_none_of_bits hbits
    refine ⟨k, ?_⟩
    unfold absBoard
    simp only [absSq_lt p.black hs, if_true, absSq_absSq, hk, BB.isSet]
    by_cases h0 : p.c0.getLsbD s = true
    · simp [h0]
    · have h1 : p.c1.getLsbD s = true := hor.resolve_left h0
      simp [h0, h1]
  constructor
  · apply List.countP_mono_left
    intro s hs h0
    obtain ⟨k, hk⟩ := key s (List.mem_range.mp hs) (Or.inl h0)
    simp [hk, h0]
  · apply List.countP_mono_left
    intro s hs h1
    have h0 : ¬ p.c0.getLsbD s = true := by
      intro h0
      have := getLsbD_of_and_eq_zero hdis s
      rw [h0, h1] at this
      exact absurd this (by decide)
    obtain ⟨k, hk⟩ := key s (List.mem_range.mp hs) (Or.inr h1)
    simp [hk, h0]

/-- Legal material on the absolute position gives at most 16 men on each colour board. -/
theorem count_le_16_of_LegalMaterial {p : Position} (hc : Consistent p = true)
    (hm : LegalMaterial (abs p) = true) : count p.c0 ≤ 16 ∧ count p.c1 ≤ 16 := by
  obtain ⟨h0, h1⟩ := count_le_countPieces hc
  unfold LegalMaterial at hm
  simp only [List.all_cons, List.all_nil, Bool.and_true, Bool.and_eq_true, decide_eq_true_eq] at hm
  have ht := hm.1.1.1
  have hf := hm.2.1.1
  have e : (abs p).board = absBoard p := rfl
  rw [e] at ht hf
  cases hb : p.black <;> rw [hb] at h0 h1 <;> simp only [Bool.not_true, Bool.not_false] at h0 <;>
    omega

end Rawr
