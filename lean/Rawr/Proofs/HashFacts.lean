import Rawr.Proofs.HashSpec
import Rawr.Proofs.HashStages
/-! Bit-level facts about board-consistent positions, `lsb`, and the hypotheses of C04(a). -/
namespace Rawr.ZH
open Rawr Rawr.Position

def chain (q0 q1 q2 q3 q4 q5 : Bool) : Option Nat :=
  if q0 then some 0 else if q1 then some 1 else if q2 then some 2 else if q3 then some 3
         else if q4 then some 4 else if q5 then some 5 else none

theorem cell_facts : ∀ u v q0 q1 q2 q3 q4 q5 : Bool, cellOk u v q0 q1 q2 q3 q4 q5 = true →
    (q0 = (chain q0 q1 q2 q3 q4 q5 == some 0)) ∧ (q1 = (chain q0 q1 q2 q3 q4 q5 == some 1)) ∧
    (q2 = (chain q0 q1 q2 q3 q4 q5 == some 2)) ∧ (q3 = (chain q0 q1 q2 q3 q4 q5 == some 3)) ∧
    (q4 = (chain q0 q1 q2 q3 q4 q5 == some 4)) ∧ (q5 = (chain q0 q1 q2 q3 q4 q5 == some 5)) ∧
    ((u || v) = (chain q0 q1 q2 q3 q4 q5).isSome) ∧ ((u && v) = false) := by
  decide

theorem chain_lt (q0 q1 q2 q3 q4 q5 : Bool) (k : Nat) (h : chain q0 q1 q2 q3 q4 q5 = some k) : k < 6 := by
  unfold chain at h
  repeat (split at h; · cases h; omega)
  cases h

theorem pieceOn_eq_chain (p : Position) (x : Nat) :
    p.pieceOn x = chain (p.p0.getLsbD x) (p.p1.getLsbD x) (p.p2.getLsbD x) (p.p3.getLsbD x)
      (p.p4.getLsbD x) (p.p5.getLsbD x) := rfl

theorem pieceOn_lt {p : Position} {x k : Nat} (h : p.pieceOn x = some k) : k < 6 :=
  chain_lt _ _ _ _ _ _ k (pieceOn_eq_chain p x ▸ h)

/-- in a consistent position the board of kind `k` has bit `x` iff `pieceOn x = some k`. -/
theorem piece_bit {p : Position} (h : Consistent p) (x k : Nat) :
    (p.piece k).getLsbD x = (p.pieceOn x == some k) := by
  have hc := cell_facts _ _ _ _ _ _ _ _ (cellOk_of_consistent h x)
  rw [← pieceOn_eq_chain] at hc
  obtain ⟨h0, h1, h2, h3, h4, h5, _, _⟩ := hc
  by_cases hk : k < 6
  · have : k = 0 ∨ k = 1 ∨ k = 2 ∨ k = 3 ∨ k = 4 ∨ k = 5 := by omega
    rcases this with rfl | rfl | rfl | rfl | rfl | rfl
    · simpa [Position.piece] using h0
    · simpa [Position.piece] using h1
    · simpa [Position.piece] using h2
    · simpa [Position.piece] using h3
    · simpa [Position.piece] using h4
    · simpa [Position.piece] using h5
  · have h6 : p.piece k = 0#64 := by
      unfold Position.piece
      split <;> first | omega | rfl
    have h7 : p.pieceOn x ≠ some k := fun e => hk (pieceOn_lt e)
    simp [h6, h7]

theorem occ_bit {p : Position} (h : Consistent p) (x : Nat) :
    (p.c0.getLsbD x || p.c1.getLsbD x) = (p.pieceOn x).isSome := by
  have hc := cell_facts _ _ _ _ _ _ _ _ (cellOk_of_consistent h x)
  rw [← pieceOn_eq_chain] at hc
  exact hc.2.2.2.2.2.2.1

theorem disj_bit {p : Position} (h : Consistent p) (x : Nat) :
    (p.c0.getLsbD x && p.c1.getLsbD x) = false := by
  have hc := cell_facts _ _ _ _ _ _ _ _ (cellOk_of_consistent h x)
  exact hc.2.2.2.2.2.2.2

/-! ### lsb -/

theorem mem_toList (b : BB) (i : Nat) : i ∈ toList b ↔ b.getLsbD i = true := by
  unfold toList
  rw [List.mem_filter, List.mem_range]
  constructor
  · exact fun h => h.2
  · intro h
    refine ⟨?_, h⟩
    apply Classical.byContradiction
    intro hn
    rw [BitVec.getLsbD_of_ge _ _ (by omega)] at h
    cases h

theorem lsb_cases (b : BB) : lsb b = 64 ∨ b.getLsbD (lsb b) = true := by
  unfold lsb
  cases h : toList b with
  | nil => left; rfl
  | cons a l =>
    right
    have : a ∈ toList b := by rw [h]; exact List.mem_cons_self
    simpa using (mem_toList b a).mp this

theorem lsb_unique {b : BB} (hc : count b ≤ 1) {x : Nat} (hx : b.getLsbD x = true) : lsb b = x := by
  unfold count at hc
  unfold lsb
  have hm := (mem_toList b x).mpr hx
  cases h : toList b with
  | nil => rw [h] at hm; cases hm
  | cons a l =>
    rw [h] at hm hc
    have : l = [] := by
      cases l with
      | nil => rfl
      | cons _ _ => simp at hc
    subst this
    simp at hm
    simp [hm]

/-! ### small bit lemmas -/

theorem south_bit {e : Nat} (h8 : 8 ≤ e) (h64 : e < 64) : south (bit e) = bit (e - 8) := by
  apply BitVec.eq_of_getLsbD_eq
  intro i hi
  unfold south
  rw [BitVec.getLsbD_ushiftRight, getLsbD_bit, getLsbD_bit]
  by_cases h : i = e - 8
  · subst h
    have : 8 + (e - 8) = e := by omega
    simp [this, h64, hi]
  · have : ¬ (8 + i = e) := by omega
    simp [h, this]

theorem getLsbD_cnd (c : Prop) [Decidable c] (b : BB) (x : Nat) :
    (cnd c b).getLsbD x = (decide c && b.getLsbD x) := by
  unfold cnd
  split <;> simp [*]

theorem isOcc_of_bit {b : BB} {x : Nat} (h : b.getLsbD x = true) : b.isOcc = true := by
  unfold BB.isOcc
  simp only [bne_iff_ne, ne_eq]
  intro e
  rw [e] at h
  simp at h

theorem isOcc_false_of {b : BB} (h : ∀ x, x < 64 → b.getLsbD x = false) : b.isOcc = false := by
  unfold BB.isOcc
  have : b = 0#64 := by
    apply BitVec.eq_of_getLsbD_eq
    intro i hi
    simp [h i hi]
  simp [this]

end Rawr.ZH
