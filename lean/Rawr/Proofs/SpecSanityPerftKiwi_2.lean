import Rawr.Proofs.SpecSanityPerftDefs
/-! perft of `kiwipete`, depth 2, slice 2: the subtrees of 12 first moves (kernel-evaluated). -/
namespace Rawr.SpecS
open Rawr.Spec

theorem kiwi2_2 :
    (([.normal 18 3 none, .normal 18 24 none, .normal 18 33 none, .normal 21 19 none,
      .normal 21 20 none, .normal 21 22 none, .normal 21 23 none, .normal 21 29 none,
      .normal 21 30 none, .normal 21 37 none, .normal 21 39 none, .normal 21 45 none] : List Move).map
      fun m => leaves (apply kiwipete m) 1).sum = 507 := by decide +kernel

end Rawr.SpecS
