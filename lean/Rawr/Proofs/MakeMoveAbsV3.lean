import Rawr.Proofs.MakeMoveAbsV2
/-! C02 (4), specification level: `Spec.Valid` as a structure of facts (`ValidFacts`). -/
namespace Rawr.SV
open Rawr.Spec

/-- one castling right is backed: the rook stands on its square, the king on the home rank on the right side. -/
def RightOK (a : APos) (w ks : Bool) (f : Nat) : Prop :=
  f < 8 ∧ a.board (sq f (homeRank w)) = some ⟨w, .rook⟩ ∧
    ∃ k, kingSquares a.board w = [k] ∧ rank k = homeRank w ∧ (if ks = true then file k < (f : Int) else (f : Int) < file k)

structure ValidFacts (a : APos) : Prop where
  kw : ∃ k, UniqueKing a.board true k
  kb : ∃ k, UniqueKing a.board false k
  pawns : ∀ s, s < 64 → ∀ pc, a.board s = some pc → pc.kind = .pawn → rank s ≠ 0 ∧ rank s ≠ 7
  notInCheck : inCheck a.board (!a.whiteToMove) = false
  rights : ∀ w ks f, right a w ks = some f → RightOK a w ks f
  ep : ∀ e, a.ep = some e → rank e = (if a.whiteToMove = true then 5 else 2) ∧ a.board e = none ∧
    a.board (sq (file e) (if a.whiteToMove = true then 4 else 3)) = some ⟨!a.whiteToMove, .pawn⟩
  half : 0 ≤ a.half
  full : 1 ≤ a.full

theorem king_clause (B : Board) (c : Bool) :
    (countPieces B (fun pc => pc == ⟨c, .king⟩) == 1) = true ↔ ∃ k, UniqueKing B c k := by
  rw [beq_iff_eq, countKing_eq, kingSquares_len_one]

theorem pawn_clause (B : Board) :
    (squares.all fun s => match B s with
      | some pc => !(pc.kind == .pawn && (rank s == 0 || rank s == 7)) | none => true) = true ↔
    ∀ s, s < 64 → ∀ pc, B s = some pc → pc.kind = .pawn → rank s ≠ 0 ∧ rank s ≠ 7 := by
  unfold squares
  rw [List.all_eq_true]
  constructor
  · intro h s hs pc hpc hk
    have := h s (List.mem_range.mpr hs)
    rw [hpc] at this
    simpa [hk] using this
  · intro h s hs
    have hs := List.mem_range.mp hs
    cases hb : B s with
    | none => rfl
    | some pc =>
      by_cases hk : pc.kind = .pawn
      · have := h s hs pc hb hk
        simp [hk, this.1, this.2]
      · simp [hk]

theorem right_clause (a : APos) (w ks : Bool) :
    (match right a w ks with
      | none => true
      | some f =>
        decide (f < 8) && a.board (sq f (homeRank w)) == some ⟨w, .rook⟩ &&
        (match kingSquares a.board w with
         | [k] => rank k == homeRank w && (if ks = true then decide (file k < (f : Int)) else decide ((f : Int) < file k))
         | _ => false)) = true ↔ ∀ f, right a w ks = some f → RightOK a w ks f := by
  cases hr : right a w ks with
  | none => simp
  | some f =>
    simp only [Option.some.injEq, forall_eq', RightOK, Bool.and_eq_true, decide_eq_true_eq, beq_iff_eq]
    constructor
    · rintro ⟨⟨h1, h2⟩, h3⟩
      refine ⟨h1, h2, ?_⟩
      split at h3
      · next k hk =>
        simp only [Bool.and_eq_true, beq_iff_eq] at h3
        refine ⟨k, hk, h3.1, ?_⟩
        cases ks <;> simpa using h3.2
      · cases h3
    · rintro ⟨h1, h2, k, hk, h3, h4⟩
      refine ⟨⟨h1, h2⟩, ?_⟩
      rw [hk]
      simp only [Bool.and_eq_true, beq_iff_eq]
      refine ⟨h3, ?_⟩
      cases ks <;> simpa using h4

theorem mem_rights (w ks : Bool) : (w, ks) ∈ [(true, true), (true, false), (false, true), (false, false)] := by
  cases w <;> cases ks <;> simp

theorem valid_iff (a : APos) : Valid a = true ↔ ValidFacts a := by
  unfold Valid
  simp only [Bool.and_eq_true, List.all_eq_true]
  constructor
  · rintro ⟨⟨⟨⟨⟨⟨⟨h1, h2⟩, h3⟩, h4⟩, h5⟩, h9⟩, h10⟩, h11⟩
    refine ⟨(king_clause _ _).mp h1, (king_clause _ _).mp h2, (pawn_clause _).mp (List.all_eq_true.mpr h3),
      by simpa using h4, ?_, ?_, by simpa using h10, by simpa using h11⟩
    · intro w ks
      exact (right_clause a w ks).mp (h5 (w, ks) (mem_rights w ks))
    · intro e he
      rw [he] at h9
      simpa [and_assoc] using h9
  · intro v
    refine ⟨⟨⟨⟨⟨⟨⟨(king_clause _ _).mpr v.kw, (king_clause _ _).mpr v.kb⟩,
      List.all_eq_true.mp ((pawn_clause _).mpr v.pawns)⟩, by simpa using v.notInCheck⟩, ?_⟩, ?_⟩,
      by simpa using v.half⟩, by simpa using v.full⟩
    · rintro ⟨w, ks⟩ _
      exact (right_clause a w ks).mpr (v.rights w ks)
    · cases he : a.ep with
      | none => rfl
      | some e => simpa [and_assoc] using v.ep e he

end Rawr.SV
