import Rawr.Proofs.GenKing
/-!
# C01, castling: `castleOk` ⇄ `Spec.castleLegal` (helper lemmas)
-/
namespace Rawr.Att
open Spec

/-! ### what `Spec.Valid` says about a castling right -/

theorem valid_right {P : APos} (hV : Spec.Valid P = true) (w ks : Bool) {f : Nat}
    (hr : right P w ks = some f) :
    f < 8 ∧ P.board (sq f (homeRank w)) = some ⟨w, .rook⟩ ∧
      ∃ k, kingSquares P.board w = [k] ∧ rank k = homeRank w ∧
        (if ks then file k < f else (f : Int) < file k) := by
  unfold Spec.Valid at hV
  simp only [Bool.and_eq_true] at hV
  obtain ⟨⟨⟨⟨_, hR⟩, _⟩, _⟩, _⟩ := hV
  have hm : (w, ks) ∈ [(true, true), (true, false), (false, true), (false, false)] := by
    cases w <;> cases ks <;> simp
  have := List.all_eq_true.mp hR (w, ks) hm
  simp only [hr, Bool.and_eq_true, decide_eq_true_eq, beq_iff_eq] at this
  obtain ⟨⟨h1, h2⟩, h3⟩ := this
  refine ⟨h1, h2, ?_⟩
  split at h3
  · rename_i k hk
    simp only [Bool.and_eq_true, beq_iff_eq] at h3
    refine ⟨k, hk, h3.1, ?_⟩
    cases ks
    · simpa using h3.2
    · simpa using h3.2
  · cases h3

/-- the castling right of the mover, read off the engine position. -/
def rightUs (p : Position) (ks : Bool) : Bool := if ks then p.usK else p.usQ
def rookFile (p : Position) (ks : Bool) : Nat := if ks then p.cf0 else p.cf1

theorem right_abs (p : Position) (ks : Bool) :
    right (abs p) (abs p).whiteToMove ks = if rightUs p ks then some (rookFile p ks) else none := by
  unfold right abs rightUs rookFile
  cases p.black <;> cases ks <;> simp



theorem sq_home (black : Bool) (f : Nat) (hf : f < 8) :
    sq f (homeRank (!black)) = absSq black f := by
  cases black
  · simp [sq, homeRank, absSq]
  · simp only [sq, homeRank, absSq, Bool.not_true, Bool.false_eq_true, if_false, if_true,
      ZH.xor56_lo f hf]
    omega

theorem mem_kingSquares (B : Board) (w : Bool) (s : Nat) :
    s ∈ kingSquares B w ↔ s < 64 ∧ B s = some ⟨w, .king⟩ := by
  unfold kingSquares squares
  rw [List.mem_filter, List.mem_range, beq_iff_eq]

structure CastleFacts (p : Position) (ks : Bool) (k r : Nat) : Prop where
  k8 : k < 8
  r8 : r < 8
  rook : relBoard p r = some ⟨true, .rook⟩
  side : if ks then k < r else r < k
  ksq : kingSquares (abs p).board (!p.black) = [absSq p.black k]

theorem castleFacts {p : Position} (hV : ValidPos p = true) (ks : Bool) (hr : rightUs p ks = true) :
    CastleFacts p ks (lsb (p.p5 &&& p.c0)) (rookFile p ks) := by
  have F := kingFacts hV
  have hra := right_abs p ks
  rw [hr, if_pos rfl] at hra
  obtain ⟨h8, hrook, ka, hks, hrank, hside⟩ := valid_right (valid_spec hV) _ ks hra
  have ew : (abs p).whiteToMove = !p.black := rfl
  rw [ew] at hrook hks hrank
  have hka : ka = absSq p.black (lsb (p.p5 &&& p.c0)) := by
    have : absSq p.black (lsb (p.p5 &&& p.c0)) ∈ kingSquares (abs p).board (!p.black) :=
      (mem_kingSquares _ _ _).mpr ⟨absSq_lt F.k64, F.abs⟩
    rw [hks, List.mem_singleton] at this
    exact this.symm
  subst hka
  rw [sq_home _ _ h8] at hrook
  have hk8 : lsb (p.p5 &&& p.c0) < 8 := by
    rw [rank_absSq _ F.k64] at hrank
    have := rank_bounds F.k64
    unfold homeRank at hrank
    unfold rank at *
    cases hb : p.black <;> rw [hb] at hrank <;> simp at hrank <;> omega
  refine ⟨hk8, h8, (abs_at_us p _ _).mp hrook, ?_, hks⟩
  rw [file_absSq _ F.k64] at hside
  unfold file at hside
  cases ks
  · simp only [Bool.false_eq_true, if_false] at hside ⊢; omega
  · simp only [if_true] at hside ⊢; omega



/-! ### `Spec.castleLegal` in the mover's frame -/

def kTo (ks : Bool) : Nat := if ks then 6 else 2
def rTo (ks : Bool) : Nat := if ks then 5 else 3

/-- the relative board after castling. -/
def castledB (B : Board) (k r : Nat) (ks : Bool) : Board :=
  setSq (setSq (setSq (setSq B k none) r none) (kTo ks) (some ⟨true, .king⟩)) (rTo ks)
    (some ⟨true, .rook⟩)

structure CastleRel (p : Position) (ks : Bool) (k r : Nat) : Prop where
  c1 : attackedBy (relBoard p) false k = false
  c2 : ∀ s ∈ span k (kTo ks) ++ span r (rTo ks), s = k ∨ s = r ∨ relBoard p s = none
  c3 : ∀ s ∈ span k (kTo ks), attackedBy (relBoard p) false s = false
  c4 : attackedBy (castledB (relBoard p) k r ks) false (kTo ks) = false

theorem mem_span (a b s : Nat) : s ∈ span a b ↔ min a b ≤ s ∧ s ≤ max a b := by
  unfold span
  simp only [List.mem_map, List.mem_range]
  constructor
  · rintro ⟨i, hi, rfl⟩; omega
  · intro h; exact ⟨s - min a b, by omega, by omega⟩

theorem absSq_lo (bl : Bool) {x : Nat} (hx : x < 8) : absSq bl x = if bl then x + 56 else x := by
  unfold absSq; cases bl
  · rfl
  · simp only [if_true]; exact ZH.xor56_lo x hx

theorem all_span_abs (bl : Bool) {a b : Nat} (ha : a < 8) (hb : b < 8) (f : Nat → Bool) :
    (span (absSq bl a) (absSq bl b)).all f = (span a b).all (fun s => f (absSq bl s)) := by
  rw [Bool.eq_iff_iff, List.all_eq_true, List.all_eq_true]
  simp only [mem_span, absSq_lo bl ha, absSq_lo bl hb]
  cases bl
  · simp only [Bool.false_eq_true, if_false]
    constructor
    · intro h s hs; rw [absSq_lo false (by omega)]; exact h s hs
    · intro h s hs; have := h s hs; rw [absSq_lo false (by omega)] at this; exact this
  · simp only [if_true]
    constructor
    · intro h s hs; rw [absSq_lo true (by omega)]; exact h (s + 56) (by omega)
    · intro h s hs
      have := h (s - 56) (by omega)
      rw [absSq_lo true (by omega)] at this
      simp only [if_true] at this
      have e : s - 56 + 56 = s := by omega
      rw [e] at this; exact this

theorem absSq_inj (bl : Bool) {a b : Nat} (h : absSq bl a = absSq bl b) : a = b := by
  have := congrArg (absSq bl) h
  rwa [absSq_absSq, absSq_absSq] at this

theorem apply_castle_board (P : APos) (ks : Bool) (rf ka : Nat) (l : List Nat)
    (hr : right P P.whiteToMove ks = some rf) (hk : kingSquares P.board P.whiteToMove = ka :: l) :
    (apply P (.castle ks)).board =
      setSq (setSq (setSq (setSq P.board ka none) (sq rf (homeRank P.whiteToMove)) none)
        (sq (if ks then 6 else 2) (homeRank P.whiteToMove)) (some ⟨P.whiteToMove, .king⟩))
        (sq (if ks then 5 else 3) (homeRank P.whiteToMove)) (some ⟨P.whiteToMove, .rook⟩) := by
  unfold apply
  simp only [hr, hk]

/-- a board with exactly one king of colour `w`, on `b`. -/
theorem inCheck_unique (B : Board) (w : Bool) (b : Nat) (hb : b < 64)
    (h : ∀ s, s < 64 → (B s = some ⟨w, .king⟩ ↔ s = b)) :
    Spec.inCheck B w = attackedBy B (!w) b := by
  unfold Spec.inCheck kingSquares squares
  rw [List.any_filter]
  have : ∀ s, s < 64 → ((B s == some ⟨w, .king⟩) && attackedBy B (!w) s)
      = (decide (s = b) && attackedBy B (!w) s) := by
    intro s hs
    congr 1
    rw [Bool.eq_iff_iff, beq_iff_eq, decide_eq_true_iff]
    exact h s hs
  rw [any_range_congr this, any_range_single hb]



theorem castleLegal_no_right {p : Position} (ks : Bool) (hr : rightUs p ks = false) :
    castleLegal (abs p) ks = false := by
  have hra := right_abs p ks
  rw [hr] at hra
  simp only [Bool.false_eq_true, if_false] at hra
  unfold castleLegal
  simp only [hra]

theorem kTo_cast (ks : Bool) : (if ks then (6 : Int) else 2) = ((kTo ks : Nat) : Int) := by
  cases ks <;> rfl
theorem rTo_cast (ks : Bool) : (if ks then (5 : Int) else 3) = ((rTo ks : Nat) : Int) := by
  cases ks <;> rfl
theorem kTo_lt (ks : Bool) : kTo ks < 8 := by cases ks <;> decide
theorem rTo_lt (ks : Bool) : rTo ks < 8 := by cases ks <;> decide

theorem not_not_b (b : Bool) : (!(!b)) = b := by cases b <;> rfl
theorem absCol_false (b : Bool) : absCol b false = b := by cases b <;> rfl
theorem absCol_true (b : Bool) : absCol b true = !b := by cases b <;> rfl

theorem castledB_king (B : Board) (k r : Nat) (ks : Bool)
    (hBk : ∀ s, s < 64 → B s = some ⟨true, .king⟩ → s = k) (s : Nat) (hs : s < 64) :
    castledB B k r ks s = some ⟨true, .king⟩ ↔ s = kTo ks := by
  have hne : kTo ks ≠ rTo ks := by cases ks <;> decide
  unfold castledB setSq
  by_cases e1 : s = rTo ks
  · rw [if_pos e1]
    constructor
    · intro h; cases h
    · intro h; rw [e1] at h; exact absurd h.symm hne
  · rw [if_neg e1]
    by_cases e2 : s = kTo ks
    · rw [if_pos e2]; exact ⟨fun _ => e2, fun _ => rfl⟩
    · rw [if_neg e2]
      by_cases e3 : s = r
      · rw [if_pos e3]; exact ⟨fun h => (by cases h), fun h => absurd h e2⟩
      · rw [if_neg e3]
        by_cases e4 : s = k
        · rw [if_pos e4]; exact ⟨fun h => (by cases h), fun h => absurd h e2⟩
        · rw [if_neg e4]
          exact ⟨fun h => absurd (hBk s hs h) e4, fun h => absurd h e2⟩

theorem castleLegal_rel {p : Position} (hV : ValidPos p = true) (ks : Bool)
    (hr : rightUs p ks = true) :
    castleLegal (abs p) ks = true ↔
      CastleRel p ks (lsb (p.p5 &&& p.c0)) (rookFile p ks) := by
  have F := kingFacts hV
  have CF := castleFacts hV ks hr
  have hC := valid_consistent hV
  have hra := right_abs p ks
  rw [hr, if_pos rfl] at hra
  have ew : (abs p).whiteToMove = !p.black := rfl
  have hks : kingSquares (abs p).board (abs p).whiteToMove = [absSq p.black (lsb (p.p5 &&& p.c0))] :=
    CF.ksq
  have hb := apply_castle_board (abs p) ks _ _ _ hra hks
  generalize hk : lsb (p.p5 &&& p.c0) = k at *
  generalize hrf : rookFile p ks = r at *
  have k64 : k < 64 := F.k64
  have r64 : r < 64 := Nat.lt_trans CF.r8 (by decide)
  -- the castled board, through the frame
  have hb' : (apply (abs p) (.castle ks)).board = frameB p.black (castledB (relBoard p) k r ks) := by
    rw [hb, ew, kTo_cast, rTo_cast, sq_home _ _ CF.r8, sq_home _ _ (kTo_lt ks), sq_home _ _ (rTo_lt ks)]
    unfold castledB
    rw [frameB_setSq, frameB_setSq, frameB_setSq, frameB_setSq, ← absBoard_eq_frame]
    simp only [Option.map_none, Option.map_some, framePiece_us]
  -- the king of the castled board
  have hking : ∀ s, s < 64 →
      (castledB (relBoard p) k r ks s = some ⟨true, .king⟩ ↔ s = kTo ks) := by
    intro s hs
    apply castledB_king _ _ _ _ _ s hs
    intro s' hs' h
    have h' := (abs_at_us p s' .king).mpr h
    have := F.uniq _ (absSq_lt hs') h'
    exact absSq_inj _ this
  have hc4 : Spec.inCheck (apply (abs p) (.castle ks)).board (abs p).whiteToMove
      = attackedBy (castledB (relBoard p) k r ks) false (kTo ks) := by
    rw [hb', ew, ← absCol_true, inCheck_frame,
      inCheck_unique _ true (kTo ks) (Nat.lt_trans (kTo_lt ks) (by decide)) hking]
    rfl
  have hatt : ∀ s, s < 64 →
      attackedBy (abs p).board (!(abs p).whiteToMove) (absSq p.black s)
        = attackedBy (relBoard p) false s := by
    intro s hs
    rw [ew, not_not_b, absBoard_eq_frame]
    have := attackedBy_frame p.black (relBoard p) false s hs
    rw [absCol_false] at this
    exact this
  unfold castleLegal
  simp only [hra, hks, hc4]
  rw [kTo_cast, rTo_cast, ew, sq_home _ _ CF.r8, sq_home _ _ (kTo_lt ks), sq_home _ _ (rTo_lt ks),
    ← ew, hatt k k64, List.all_append, all_span_abs _ CF.k8 (kTo_lt ks), all_span_abs _ CF.k8 (kTo_lt ks),
    all_span_abs _ CF.r8 (rTo_lt ks)]
  -- the three facts implied by validity
  have h1 : (rank (absSq p.black k) == homeRank (abs p).whiteToMove) = true := by
    rw [beq_iff_eq, rank_absSq _ k64, ew]
    have : rank k = 0 := by unfold rank; have := CF.k8; omega
    rw [this]; cases p.black <;> rfl
  have h2 : ((abs p).board (absSq p.black r) == some ⟨(abs p).whiteToMove, .rook⟩) = true := by
    rw [beq_iff_eq, ew]; exact (abs_at_us p r .rook).mpr CF.rook
  have h3 : (if ks = true then decide (file (absSq p.black k) < (r : Int))
      else decide ((r : Int) < file (absSq p.black k))) = true := by
    rw [file_absSq _ k64]
    have := CF.side
    have := CF.k8
    unfold file
    cases ks
    · simp only [Bool.false_eq_true, if_false, decide_eq_true_eq] at *; omega
    · simp only [if_true, decide_eq_true_eq] at *; omega
  simp only [h1, h2, h3, Bool.true_and, Bool.and_eq_true, Bool.not_eq_true', List.all_eq_true,
    Bool.or_eq_true, beq_iff_eq]
  constructor
  · rintro ⟨⟨⟨a1, a2k, a2r⟩, a3⟩, a4⟩
    refine ⟨a1, ?_, ?_, a4⟩
    · intro s hs
      rcases List.mem_append.mp hs with hs | hs
      · rcases a2k s hs with (h | h) | h
        · exact Or.inl (absSq_inj _ h)
        · exact Or.inr (Or.inl (absSq_inj _ h))
        · exact Or.inr (Or.inr ((abs_at_none p s).mp (by simpa using h)))
      · rcases a2r s hs with (h | h) | h
        · exact Or.inl (absSq_inj _ h)
        · exact Or.inr (Or.inl (absSq_inj _ h))
        · exact Or.inr (Or.inr ((abs_at_none p s).mp (by simpa using h)))
    · intro s hs
      have h8 : s < 8 := by
        have := (mem_span _ _ _).mp hs; have := CF.k8; have := kTo_lt ks; omega
      rw [← hatt s (by omega)]; exact a3 s hs
  · rintro ⟨a1, a2, a3, a4⟩
    refine ⟨⟨⟨a1, ?_, ?_⟩, ?_⟩, a4⟩
    · intro s hs
      rcases a2 s (List.mem_append.mpr (Or.inl hs)) with h | h | h
      · exact Or.inl (Or.inl (by rw [h]))
      · exact Or.inl (Or.inr (by rw [h]))
      · exact Or.inr (by rw [(abs_at_none p s).mpr h]; rfl)
    · intro s hs
      rcases a2 s (List.mem_append.mpr (Or.inr hs)) with h | h | h
      · exact Or.inl (Or.inl (by rw [h]))
      · exact Or.inl (Or.inr (by rw [h]))
      · exact Or.inr (by rw [(abs_at_none p s).mpr h]; rfl)
    · intro s hs
      have h8 : s < 8 := by
        have := (mem_span _ _ _).mp hs; have := CF.k8; have := kTo_lt ks; omega
      rw [hatt s (by omega)]; exact a3 s hs

end Rawr.Att
