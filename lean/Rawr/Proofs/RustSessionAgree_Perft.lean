import Rawr.Proofs.RustSessionAgree_Info
import Rawr.Proofs.RustTextAgree_Go
import Rawr.Proofs.RustTextAgree_Uci
/-!
# uci/perft.rs, uci/split.rs regenerated from the Rust source agree with the `perft` / `split` branches of the model's
`doGo`, modulo the canonicalisation of the clock-dependent words and lines
-/
set_option linter.unusedSimpArgs false
namespace Rawr.Sess
open T

/-- a printed line given by its words. -/
theorem Out.words (a b : String) (ws : List (List Char)) (ha : a.toList = joinSp ws) (hw : ∀ w ∈ ws, Word w)
    (hc : canonLine (joinSp ws) = some b.toList) : Out (T.line a) [b] :=
  Out.line1 a b (by rw [ha]; exact nonl_joinSp ws hw) (by rw [ha]; exact hc)

theorem Out.dropped_words (a : String) (ws : List (List Char)) (ha : a.toList = joinSp ws) (hw : ∀ w ∈ ws, Word w)
    (hc : canonLine (joinSp ws) = none) : Out (T.line a) [] :=
  Out.dropped a (by rw [ha]; exact nonl_joinSp ws hw) (by rw [ha]; exact hc)

/-- a command that leaves the position `p` alone: the model prints `m` (`none`: panic), the regenerated code returns `x`. -/
@[irreducible] def CmdRel (p : Position) (m : Option (List String)) (x : Option (Position × List Char)) : Prop :=
  match m with
  | none => x = none
  | some L => ∃ s, x = some (p, s) ∧ Out s L

/-! ## uci/perft.rs -/
/-- the model's `perft` branch of `doGo`: the lines, `none` = panic. -/
def perftStep (p : Position) (d : Nat) (acc : Option (List String)) (i : Nat) : Option (List String) :=
  match acc, perft i p with
  | some l, some n => some (l ++ [s!"info depth {i} nodes {n} time ?"] ++ (if i == d then [s!"nodes {n}"] else []))
  | _, _ => none

theorem perftStep_none (p : Position) (d : Nat) (l : List Nat) : l.foldl (perftStep p d) none = none := by
  induction l with
  | nil => rfl
  | cons i l ih => simpa [perftStep] using ih

def perftLines (p : Position) (d : Nat) : Option (List String) := (List.range' 1 d).foldl (perftStep p d) (some [])

theorem hts (x : String) : toString x = x := rfl

/-- the `info depth i nodes n time t [nps x]` line of perft.rs. -/
theorem perft_info_out (i n t : Nat) (x : Option Nat) (a : String)
    (ha : a = "info depth " ++ toString i ++ " nodes " ++ toString n ++ " time " ++ toString t ++
      (match x with | some v => " nps " ++ toString v | none => "")) :
    Out (T.line a) [s!"info depth {i} nodes {n} time ?"] := by
  apply Out.words a _ (wInfo :: wDepth :: ([(toString i).toList, wNodes, (toString n).toList] ++
    wTime :: (toString t).toList :: (npsWords (x.map fun v => (toString v).toList) ++ [])))
  · rw [ha, joinSp_eq]
    cases x <;>
      simp [String.toList_append, tailSp_cons, tailSp_nil, npsWords, wInfo, wDepth, wNodes, wTime, wNps]
  · intro w hw
    simp only [List.cons_append, List.nil_append, List.append_nil, List.mem_cons] at hw
    rcases hw with rfl | rfl | rfl | rfl | rfl | rfl | rfl | hw
    · constructor <;> decide
    · constructor <;> decide
    · exact (numChars_nat i).word
    · constructor <;> decide
    · exact (numChars_nat n).word
    · constructor <;> decide
    · exact (numChars_nat t).word
    · cases x with
      | none => simp [npsWords] at hw
      | some v =>
        simp only [Option.map_some, npsWords, List.mem_cons, List.not_mem_nil, or_false] at hw
        rcases hw with rfl | rfl
        · constructor <;> decide
        · exact (numChars_nat v).word
  · rw [canonLine_info]
    · congr 1
      rw [joinSp_eq]
      simp [String.toList_append, tailSp_cons, tailSp_nil, hts, wInfo, wDepth, wNodes, wTime]
    · intro w hw
      simp only [List.mem_cons, List.not_mem_nil, or_false] at hw
      rcases hw with rfl | rfl | rfl
      · exact word_plain_num (numChars_nat i)
      · exact ⟨by constructor <;> decide, by constructor <;> decide⟩
      · exact word_plain_num (numChars_nat n)
    · intro w hw; simp at hw
    · exact (numChars_nat t).word
    · intro v hv
      cases x with
      | none => simp at hv
      | some u => simp only [Option.map_some, Option.some.injEq] at hv; rw [← hv]; exact (numChars_nat u).word

/-- a kept line `<keyword> <number>` whose keyword does not begin the `nps ` / `time ` / `id name Rawr ` / `info depth `
prefixes. -/
theorem nodes_out (n : Nat) : Out (T.line ("nodes " ++ toString n)) [s!"nodes {n}"] := by
  apply Out.words _ _ [wNodes, (toString n).toList]
  · simp [joinSp, String.toList_append, wNodes]
  · intro w hw
    simp only [List.mem_cons, List.not_mem_nil, or_false] at hw
    rcases hw with rfl | rfl
    · constructor <;> decide
    · exact (numChars_nat n).word
  · have : (s!"nodes {n}").toList = joinSp [wNodes, (toString n).toList] := by
      simp [joinSp, String.toList_append, wNodes, hts]
    rw [this]
    simp [joinSp, wNodes, canonLine, List.isPrefixOf, pfxId, pfxInfo]

/-- what one iteration of perft.rs prints. -/
def perftOut (clock : Nat → Nat) (tick i n d : Nat) : List Char :=
  T.line (if clock tick == 0 then
      "info depth " ++ toString i ++ " nodes " ++ toString n ++ " time " ++ toString (clock tick / 1000000)
    else "info depth " ++ toString i ++ " nodes " ++ toString n ++ " time " ++ toString (clock tick / 1000000) ++ " nps " ++
      toString (F64.toU64 (F64.div (F64.ofNat n) (F64.ofNanos (clock tick))))) ++
  (if i == d then T.line ("nodes " ++ toString n) else [])

theorem perft_step_eq (fuel : Nat) (ar : Arith) (p : Position) (clock : Nat → Nat) (d i tick : Nat) (out : List Char)
    (hi : i < fuel) :
    R.uci_perft_loop1_step fuel ar p clock d i tick out =
      (perft i p).bind fun n => some (ForInStep.yield (tick + 1, out ++ perftOut clock tick i n d)) := by
  unfold R.uci_perft_loop1_step perftOut
  simp only [agree_pos_perft ar fuel i p hi, bind, pure]
  cases perft i p with
  | none => rfl
  | some n =>
    simp only [Option.bind_some]
    by_cases hz : (clock tick == 0) = true <;> by_cases hd : (i == d) = true <;> simp [hz, hd]

theorem perftOut_out (clock : Nat → Nat) (tick i n d : Nat) :
    Out (perftOut clock tick i n d) ([s!"info depth {i} nodes {n} time ?"] ++ (if i == d then [s!"nodes {n}"] else [])) := by
  unfold perftOut
  apply Out.append
  · by_cases hz : (clock tick == 0) = true
    · simp only [hz, if_true]
      exact perft_info_out i n (clock tick / 1000000) none _ (by simp)
    · simp only [hz, Bool.false_eq_true, if_false]
      exact perft_info_out i n (clock tick / 1000000) (some (F64.toU64 (F64.div (F64.ofNat n) (F64.ofNanos (clock tick))))) _
        (by simp [String.append_assoc])
  · by_cases hd : (i == d) = true
    · simp only [hd, if_true]; exact nodes_out n
    · simp only [hd, Bool.false_eq_true, if_false]; exact Out.nil

theorem uci_perft_loop_eq (fuel : Nat) (ar : Arith) (p : Position) (clock : Nat → Nat) (d : Nat) :
    ∀ (l : List Nat) (tick : Nat) (out : List Char) (acc : List String), (∀ i ∈ l, i < fuel) → Out out acc →
      match l.foldl (perftStep p d) (some acc) with
      | none => R.uci_perft_loop1 fuel ar p clock d l tick out = none
      | some L => ∃ tick' s, R.uci_perft_loop1 fuel ar p clock d l tick out = some (tick', s) ∧ Out s L := by
  intro l
  induction l with
  | nil => intro tick out acc _ ho; exact ⟨tick, out, rfl, ho⟩
  | cons i l ih =>
    intro tick out acc hl ho
    have hi : i < fuel := hl i (by simp)
    simp only [R.uci_perft_loop1, List.forIn_cons, List.foldl_cons, perft_step_eq _ _ _ _ _ _ _ _ hi] at ih ⊢
    cases hp : perft i p with
    | none =>
      simp only [perftStep, hp, bind, Option.bind_none]
      rw [show l.foldl (perftStep p d) none = none from perftStep_none p d l]
      trivial
    | some n =>
      simp only [perftStep, hp, bind, Option.bind_some]
      have := ih (tick + 1) (out ++ perftOut clock tick i n d)
        (acc ++ [s!"info depth {i} nodes {n} time ?"] ++ (if i == d then [s!"nodes {n}"] else []))
        (fun x hx => hl x (by simp [hx])) (by rw [List.append_assoc]; exact ho.append (perftOut_out clock tick i n d))
      exact this

/-- **`uci::perft::perft`**: the regenerated function prints lines whose canonical form is what the model's `perft`
branch prints; it panics exactly when the model does.  The position is not changed. -/
theorem _root_.Rawr.agree_uci_perft (fuel : Nat) (ar : Arith) (clock : Nat → Nat) (p : Position) (d : Nat) (hf : d < fuel) :
    CmdRel p (perftLines p d) (R.uci_perft fuel ar clock p d) := by
  unfold CmdRel R.uci_perft perftLines
  have hr : T.range 1 (d + 1) = List.range' 1 d := by simp [T.range]
  have hl : ∀ i ∈ List.range' 1 d, i < fuel := by
    intro i hi
    simp only [List.mem_range'_1] at hi
    omega
  have := uci_perft_loop_eq fuel ar p clock d (List.range' 1 d) 0 [] [] hl Out.nil
  rw [hr]
  simp only [bind, pure]
  split at this
  · simp [this]
  · obtain ⟨tick', s, e, ho⟩ := this
    exact ⟨s, by simp [e], ho⟩

/-! ## uci/split.rs -/
/-- the model's `split` branch of `doGo`. -/
def splitStep (p : Position) (d1 : Nat) (acc : Option (List String × Nat)) (m : Mv) : Option (List String × Nat) :=
  match acc, p.makemove m false with
  | some (l, tot), some np => (perft d1 np).map fun n => (l ++ [s!"{mvStr p m} {n}"], tot + n)
  | _, _ => none

theorem splitStep_none (p : Position) (d1 : Nat) (l : List Mv) : l.foldl (splitStep p d1) none = none := by
  induction l with
  | nil => rfl
  | cons i l ih => simpa [splitStep] using ih

def splitLines (p : Position) (d : Nat) : Option (List String) :=
  ((legalMoves p).foldl (splitStep p (d - 1)) (some ([], 0))).map fun r => r.1 ++ ["time ?", s!"nodes {r.2}"]

/-- the line `<move> <nodes>` of split.rs is kept. -/
theorem split_line_out (p : Position) (m : Mv) (n : Nat) (h1 : m.src < 64) (h2 : m.dst < 64) :
    Out (T.line (String.ofList (toUciChars p m) ++ " " ++ toString n)) [s!"{mvStr p m} {n}"] := by
  obtain ⟨hw, c, r, hc, c1, c2, c3⟩ := toUciChars_facts p m h1 h2
  apply Out.words _ _ [toUciChars p m, (toString n).toList]
  · simp [joinSp, String.toList_append]
  · intro w hw'
    simp only [List.mem_cons, List.not_mem_nil, or_false] at hw'
    rcases hw' with rfl | rfl
    · exact hw
    · exact (numChars_nat n).word
  · have : (s!"{mvStr p m} {n}").toList = joinSp [toUciChars p m, (toString n).toList] := by
      simp [joinSp, String.toList_append, hts, mvStr, toUci]
    rw [this, joinSp_cons, hc]
    exact canonLine_head c _ c1 c2 c3

theorem nps_line_out (x : Nat) : Out (T.line ("nps " ++ toString x)) [] := by
  apply Out.dropped_words _ [wNps, (toString x).toList]
  · simp [joinSp, String.toList_append, wNps]
  · intro w hw
    simp only [List.mem_cons, List.not_mem_nil, or_false] at hw
    rcases hw with rfl | rfl
    · constructor <;> decide
    · exact (numChars_nat x).word
  · simp [joinSp, wNps, canonLine, List.isPrefixOf]

theorem time_line_out (t : Nat) : Out (T.line ("time " ++ toString t)) ["time ?"] := by
  apply Out.words _ _ [wTime, (toString t).toList]
  · simp [joinSp, String.toList_append, wTime]
  · intro w hw
    simp only [List.mem_cons, List.not_mem_nil, or_false] at hw
    rcases hw with rfl | rfl
    · constructor <;> decide
    · exact (numChars_nat t).word
  · simp [joinSp, wTime, canonLine, List.isPrefixOf]

theorem split_step_eq (fuel : Nat) (ar : Arith) (p : Position) (d : Nat) (m : Mv) (total : Nat) (out : List Char)
    (hd : d - 1 < fuel) (h1 : m.src < 64) (h2 : m.dst < 64) :
    R.uci_split_loop1_step fuel ar p d m total out =
      (p.makemove m false).bind fun np => (perft (d - 1) np).bind fun n =>
        some (ForInStep.yield (total + n, out ++ T.line (String.ofList (toUciChars p m) ++ " " ++ toString n))) := by
  unfold R.uci_split_loop1_step
  simp only [agree_after_move, agree_to_uci m p h1 h2, bind, pure]
  cases p.makemove m false with
  | none => rfl
  | some np =>
    simp only [Option.bind_some, agree_pos_perft ar fuel (d - 1) np hd]

@[irreducible] def SplitRel (r : Option (List String × Nat)) (x : Option (Nat × List Char)) : Prop :=
  match r with
  | none => x = none
  | some (L, tot) => ∃ s, x = some (tot, s) ∧ Out s L

theorem uci_split_loop_eq (fuel : Nat) (ar : Arith) (p : Position) (d : Nat) (hd : d - 1 < fuel) :
    ∀ (l : List Mv) (total : Nat) (out : List Char) (acc : List String), (∀ m ∈ l, m.src < 64 ∧ m.dst < 64) → Out out acc →
      SplitRel (l.foldl (splitStep p (d - 1)) (some (acc, total))) (R.uci_split_loop1 fuel ar p d l total out) := by
  unfold SplitRel
  intro l
  induction l with
  | nil => intro total out acc _ ho; exact ⟨out, rfl, ho⟩
  | cons m l ih =>
    intro total out acc hl ho
    have hm := hl m (by simp)
    simp only [R.uci_split_loop1, List.forIn_cons, List.foldl_cons, split_step_eq fuel ar p d m _ _ hd hm.1 hm.2] at ih ⊢
    cases hk : p.makemove m false with
    | none =>
      simp only [splitStep, hk, bind, Option.bind_none]
      rw [show l.foldl (splitStep p (d - 1)) none = none from splitStep_none p (d - 1) l]
      trivial
    | some np =>
      cases hp : perft (d - 1) np with
      | none =>
        simp only [splitStep, hk, hp, bind, Option.bind_some, Option.bind_none, Option.map_none]
        rw [show l.foldl (splitStep p (d - 1)) none = none from splitStep_none p (d - 1) l]
        trivial
      | some n =>
        simp only [splitStep, hk, hp, bind, Option.bind_some, Option.map_some]
        exact ih (total + n) _ (acc ++ [s!"{mvStr p m} {n}"]) (fun x hx => hl x (by simp [hx]))
          (ho.append (split_line_out p m n hm.1 hm.2))

/-- what split.rs prints after the moves. -/
def splitTail (clock : Nat → Nat) (tot : Nat) : List Char :=
  (if clock 0 == 0 then [] else T.line ("nps " ++ toString (F64.toU64 (F64.div (F64.ofNat tot) (F64.ofNanos (clock 0)))))) ++
  T.line ("time " ++ toString (clock 0 / 1000000)) ++ T.line ("nodes " ++ toString tot)

theorem uci_split_eq (fuel : Nat) (ar : Arith) (clock : Nat → Nat) (p : Position) (d : Nat) :
    R.uci_split fuel ar clock p d =
      (R.uci_split_loop1 fuel ar p d (legalMoves p) 0 []).bind fun r => some (p, r.2 ++ splitTail clock r.1) := by
  unfold R.uci_split splitTail
  simp only [agree_legal_moves, bind, pure]
  cases R.uci_split_loop1 fuel ar p d (legalMoves p) 0 [] with
  | none => rfl
  | some r =>
    simp only [Option.bind_some]
    by_cases hz : (clock 0 == 0) = true
    · simp only [hz, if_true, List.nil_append, List.append_assoc]
    · simp only [hz, Bool.false_eq_true, if_false, List.append_assoc]

theorem splitTail_out (clock : Nat → Nat) (tot : Nat) : Out (splitTail clock tot) ["time ?", s!"nodes {tot}"] := by
  unfold splitTail
  have h2 := (time_line_out (clock 0 / 1000000)).append (nodes_out tot)
  by_cases hz : (clock 0 == 0) = true
  · simp only [hz, if_true, List.nil_append]
    exact h2
  · simp only [hz, Bool.false_eq_true, if_false, List.append_assoc]
    exact (nps_line_out _).append h2

/-- **`uci::split::split`**: the regenerated function prints lines whose canonical form is what the model's `split`
branch prints (the `nps` line is dropped, `time <t>` is `time ?`); it panics exactly when the model does. -/
theorem _root_.Rawr.agree_uci_split (fuel : Nat) (ar : Arith) (clock : Nat → Nat) (p : Position) (d : Nat) (hf : d - 1 < fuel)
    (hB : MovesOnBoard p) :
    CmdRel p (splitLines p d) (R.uci_split fuel ar clock p d) := by
  rw [uci_split_eq]
  unfold splitLines
  unfold MovesOnBoard at hB
  generalize legalMoves p = l at hB ⊢
  have this := uci_split_loop_eq fuel ar p d hf l 0 [] [] hB Out.nil
  generalize l.foldl (splitStep p (d - 1)) (some ([], 0)) = r at this ⊢
  rcases r with _ | ⟨L, tot⟩
  · simp only [SplitRel] at this
    rw [this]
    simp only [CmdRel, Option.map_none, Option.bind_none]
  · simp only [SplitRel] at this
    obtain ⟨s, e, ho⟩ := this
    rw [e]
    simp only [CmdRel, Option.map_some, Option.bind_some]
    exact ⟨_, rfl, ho.append (splitTail_out clock tot)⟩

end Rawr.Sess

#print axioms Rawr.agree_uci_perft
#print axioms Rawr.agree_uci_split
