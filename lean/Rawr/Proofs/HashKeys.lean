import Rawr.Model.Zobrist
import Rawr.Generated.StartPos
/-! C04(d): the extracted Zobrist tables hold 781 pairwise distinct non-zero 64-bit keys
(kernel-evaluated `Nat` checker, re-run whenever the translated table changes). -/
namespace Rawr

/-- all 781 keys: 768 piece keys, 8 en-passant, 4 castling, 1 turn. -/
def allKeysNat : List Nat :=
  Gen.zKeys.toList ++ Gen.zKeysEp.toList ++ Gen.zKeysCastling.toList ++ [Gen.zKeyTurn]

/-- `x` is non-zero, below `2^64` and different from every element of the list. -/
def freshKey (x : Nat) : List Nat → Bool
  | [] => true
  | y :: ys => if x == y then false else freshKey x ys

/-- executable check: every key is in `(0, 2^64)` and differs from all later ones. -/
def keysOk : List Nat → Bool
  | [] => true
  | x :: xs =>
    if x == 0 then false else if 18446744073709551616 ≤ x then false
    else if freshKey x xs then keysOk xs else false

theorem freshKey_sound {x : Nat} {l : List Nat} (h : freshKey x l = true) : x ∉ l := by
  induction l with
  | nil => simp
  | cons y ys ih =>
    simp only [freshKey] at h
    split at h
    · exact absurd h (by simp)
    · rename_i hne
      simp only [List.mem_cons, not_or]
      exact ⟨by simpa using hne, ih h⟩

theorem keysOk_sound {l : List Nat} (h : keysOk l = true) :
    l.Nodup ∧ ∀ k ∈ l, k ≠ 0 ∧ k < 2 ^ 64 := by
  induction l with
  | nil => simp
  | cons x xs ih =>
    simp only [keysOk] at h
    split at h
    · exact absurd h (by simp)
    · rename_i h0
      split at h
      · exact absurd h (by simp)
      · rename_i hlt
        split at h
        · rename_i hf
          obtain ⟨hn, ha⟩ := ih h
          refine ⟨List.nodup_cons.mpr ⟨freshKey_sound hf, hn⟩, ?_⟩
          intro k hk
          rcases List.mem_cons.mp hk with rfl | hk
          · exact ⟨by simpa using h0, by omega⟩
          · exact ha k hk
        · exact absurd h (by simp)

theorem keys_sizes : Gen.zKeys.size = 768 ∧ Gen.zKeysEp.size = 8 ∧ Gen.zKeysCastling.size = 4 := by
  decide +kernel


/-- the same check done bucket-wise (`x % m`), which keeps the kernel evaluation short. -/
def bucketsOk (m : Nat) (l : List Nat) : Bool :=
  (List.range m).all fun r => keysOk (l.filter (fun x => x % m == r))

theorem bucketsOk_sound {m : Nat} (hm : 0 < m) {l : List Nat} (h : bucketsOk m l = true) :
    l.Nodup ∧ ∀ k ∈ l, k ≠ 0 ∧ k < 2 ^ 64 := by
  have hb : ∀ r, r < m → keysOk (l.filter (fun x => x % m == r)) = true := by
    intro r hr
    have := List.all_eq_true.mp h r (List.mem_range.mpr hr)
    exact this
  constructor
  · rw [List.nodup_iff_count]
    intro a
    have h1 := (keysOk_sound (hb (a % m) (Nat.mod_lt _ hm))).1
    rw [List.nodup_iff_count] at h1
    have h2 := h1 a
    rwa [List.count_filter (by simp)] at h2
  · intro k hk
    exact (keysOk_sound (hb (k % m) (Nat.mod_lt _ hm))).2 k
      (List.mem_filter.mpr ⟨hk, by simp⟩)

theorem bucketsOk_allKeys : bucketsOk 32 allKeysNat = true := by decide +kernel

/-- all 781 extracted keys are pairwise distinct, non-zero and fit in 64 bits. -/
theorem allKeysNat_ok : allKeysNat.Nodup ∧ ∀ k ∈ allKeysNat, k ≠ 0 ∧ k < 2 ^ 64 :=
  bucketsOk_sound (by decide) bucketsOk_allKeys

theorem allKeysNat_length : allKeysNat.length = 781 := by decide +kernel

/-- the 781 keys as the model sees them (`genKeys`), in table order. -/
def genKeyList : List BB :=
  (List.range 768).map genKeys.piece ++ (List.range 8).map genKeys.ep ++
    (List.range 4).map genKeys.castling ++ [genKeys.turn]

theorem range_map_getD (a : Array Nat) (f : Nat → BB) :
    (List.range a.size).map (fun i => f (a[i]?.getD 0)) = a.toList.map f := by
  apply List.ext_getElem
  · simp
  · intro i h1 h2
    simp only [List.length_map, List.length_range] at h1
    simp [h1]

theorem genKeyList_eq : genKeyList = allKeysNat.map (BitVec.ofNat 64) := by
  have h := keys_sizes
  have h1 := range_map_getD Gen.zKeys (BitVec.ofNat 64)
  have h2 := range_map_getD Gen.zKeysEp (BitVec.ofNat 64)
  have h3 := range_map_getD Gen.zKeysCastling (BitVec.ofNat 64)
  rw [h.1] at h1; rw [h.2.1] at h2; rw [h.2.2] at h3
  simp only [genKeyList, allKeysNat, genKeys, List.map_append, List.map_cons, List.map_nil, h1, h2, h3]

theorem genKeyList_ok : genKeyList.Nodup ∧ (∀ k ∈ genKeyList, k ≠ 0#64) ∧ genKeyList.length = 781 := by
  obtain ⟨hn, hr⟩ := allKeysNat_ok
  rw [genKeyList_eq]
  refine ⟨?_, ?_, by simp [allKeysNat_length]⟩
  · unfold List.Nodup
    rw [List.pairwise_map]
    refine List.Pairwise.imp_of_mem ?_ hn
    intro a b ha hb hab heq
    apply hab
    have h1 := congrArg BitVec.toNat heq
    simp only [BitVec.toNat_ofNat] at h1
    rwa [Nat.mod_eq_of_lt (hr a ha).2, Nat.mod_eq_of_lt (hr b hb).2] at h1
  · intro k hk
    obtain ⟨a, ha, rfl⟩ := List.mem_map.mp hk
    intro heq
    have h1 := congrArg BitVec.toNat heq
    simp only [BitVec.toNat_ofNat, Nat.reducePow, Nat.zero_mod] at h1
    rw [Nat.mod_eq_of_lt (hr a ha).2] at h1
    exact (hr a ha).1 h1

theorem startpos_key : Gen.startpos.hash = Gen.startpos.calculateHash := by decide +kernel

end Rawr
