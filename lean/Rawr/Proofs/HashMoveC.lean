import Rawr.Proofs.HashMeta
/-! C04(a), castling (king takes own rook): board identities and key change. -/
namespace Rawr.ZH
open Rawr Rawr.Position

/-- facts for a castling move: king on `src`, own rook on `dst`; `kTo`/`rTo` (g1/f1 or c1/d1) are each
the king's square, the rook's square, or empty. -/
structure CFacts (p : Position) (m : Mv) (kTo rTo : Nat) : Prop where
  hC : Consistent p
  hs : m.src < 64
  hd : m.dst < 64
  hk : kTo < 64
  hr : rTo < 64
  hkr : kTo ≠ rTo
  hpo : p.pieceOn m.src = some 5
  hrook : p.pieceOn m.dst = some 3
  h0s : p.c0.getLsbD m.src = true
  h0d : p.c0.getLsbD m.dst = true
  eK : kTo = m.src ∨ kTo = m.dst ∨ (p.c0.getLsbD kTo = false ∧ p.c1.getLsbD kTo = false)
  eR : rTo = m.src ∨ rTo = m.dst ∨ (p.c0.getLsbD rTo = false ∧ p.c1.getLsbD rTo = false)

def cD0 (m : Mv) (kTo rTo : Nat) : BB :=
  (bit m.src ||| bit m.dst) ^^^ ((bit m.src ||| bit m.dst) ^^^ bit m.src ^^^ bit kTo ^^^ bit m.dst ^^^ bit rTo)

def cDP (m : Mv) (kTo rTo : Nat) (k : Nat) : BB :=
  cnd (k = 5) (bit m.src ||| bit m.dst) ^^^
    (cnd (k = 5) ((bit m.src ||| bit m.dst) ^^^ bit m.src ^^^ bit kTo) ^^^ cnd (k = 3) (bit m.dst ^^^ bit rTo))

def cU (m : Mv) (kTo rTo : Nat) (k : Nat) : BB :=
  cnd (k = 5) (bit m.src) ^^^ cnd (k = 5) (bit kTo) ^^^ cnd (k = 3) (bit m.dst) ^^^ cnd (k = 3) (bit rTo)

section
variable {p : Position} {m : Mv} {kTo rTo : Nat}

theorem CFacts.hne (f : CFacts p m kTo rTo) : m.src ≠ m.dst := by
  intro e
  have h1 := f.hpo
  rw [e, f.hrook] at h1
  cases h1

theorem empty_piece {p : Position} (hC : Consistent p) {x : Nat} (h0 : p.c0.getLsbD x = false)
    (h1 : p.c1.getLsbD x = false) : p.pieceOn x = none := by
  have := occ_bit hC x
  rw [h0, h1] at this
  cases h : p.pieceOn x with
  | none => rfl
  | some k => rw [h] at this; cases this

theorem c_U (f : CFacts p m kTo rTo) (k : Nat) :
    (p.c0 ^^^ cD0 m kTo rTo) &&& (p.piece k ^^^ cDP m kTo rTo k) = (p.c0 &&& p.piece k) ^^^ cU m kTo rTo k := by
  have hne := f.hne
  have hkr := f.hkr
  have f1 : (p.pieceOn m.src == some k) = decide (k = 5) := by rw [f.hpo, some_beq]
  have f2 : (p.pieceOn m.dst == some k) = decide (k = 3) := by rw [f.hrook, some_beq]
  have h0s := f.h0s
  have h0d := f.h0d
  have h53 : (decide (k = 5) && decide (k = 3)) = false := by
    by_cases h : k = 5
    · subst h; rfl
    · simp [h]
  apply BitVec.eq_of_getLsbD_eq
  intro x hx
  simp only [cD0, cDP, cU, BitVec.getLsbD_and, BitVec.getLsbD_xor, BitVec.getLsbD_or, getLsbD_cnd, getLsbD_bit,
    piece_bit f.hC, hx, decide_true, Bool.and_true]
  by_cases h1 : x = m.src
  · subst h1
    have hab : (decide (m.src = kTo) && decide (m.src = rTo)) = false := by
      by_cases h : m.src = kTo
      · have : ¬ m.src = rTo := fun e => hkr (h.symm.trans e)
        simp [this]
      · simp [h]
    simp only [f1, h0s, hne, decide_true, decide_false]
    revert hab h53
    generalize decide (k = 5) = k5, decide (k = 3) = k3, decide (m.src = kTo) = a, decide (m.src = rTo) = b
    bool_taut
  · by_cases h2 : x = m.dst
    · subst h2
      have hab : (decide (m.dst = kTo) && decide (m.dst = rTo)) = false := by
        by_cases h : m.dst = kTo
        · have : ¬ m.dst = rTo := fun e => hkr (h.symm.trans e)
          simp [this]
        · simp [h]
      simp only [f2, h0d, h1, decide_true, decide_false]
      revert hab h53
      generalize decide (k = 5) = k5, decide (k = 3) = k3, decide (m.dst = kTo) = a, decide (m.dst = rTo) = b
      bool_taut
    · simp only [h1, h2, decide_false, Bool.or_false, Bool.and_false, Bool.xor_false, Bool.false_xor]
      by_cases h3 : x = kTo
      · subst h3
        have h4 : ¬ x = rTo := hkr
        rcases f.eK with e | e | ⟨e0, e1⟩
        · exact absurd e h1
        · exact absurd e h2
        · simp [e0, empty_piece f.hC e0 e1, h4]
      · by_cases h4 : x = rTo
        · subst h4
          rcases f.eR with e | e | ⟨e0, e1⟩
          · exact absurd e h1
          · exact absurd e h2
          · simp [e0, empty_piece f.hC e0 e1, h3]
        · simp [h3, h4]

theorem c_T (f : CFacts p m kTo rTo) (k : Nat) :
    (p.c1 ^^^ 0#64) &&& (p.piece k ^^^ cDP m kTo rTo k) = (p.c1 &&& p.piece k) ^^^ 0#64 := by
  have h1s : p.c1.getLsbD m.src = false := by
    have := disj_bit f.hC m.src
    rw [f.h0s] at this
    simpa using this
  have h1d : p.c1.getLsbD m.dst = false := by
    have := disj_bit f.hC m.dst
    rw [f.h0d] at this
    simpa using this
  apply BitVec.eq_of_getLsbD_eq
  intro x hx
  simp only [cDP, BitVec.getLsbD_and, BitVec.getLsbD_xor, BitVec.getLsbD_or, getLsbD_cnd, getLsbD_bit,
    hx, decide_true, Bool.and_true, BitVec.xor_zero]
  by_cases h1 : x = m.src
  · subst h1; simp [h1s]
  · by_cases h2 : x = m.dst
    · subst h2; simp [h1d]
    · by_cases h3 : x = kTo
      · subst h3
        rcases f.eK with e | e | ⟨e0, e1⟩
        · exact absurd e h1
        · exact absurd e h2
        · simp [e1]
      · by_cases h4 : x = rTo
        · subst h4
          rcases f.eR with e | e | ⟨e0, e1⟩
          · exact absurd e h1
          · exact absurd e h2
          · simp [e1]
        · simp [h1, h2, h3, h4]

/-- key change of the boards in a castling move. -/
def cKeyDelta (K : ZKeys) (t : Bool) (m : Mv) (kTo rTo : Nat) : BB :=
  kU K t 5 m.src ^^^ kU K t 5 kTo ^^^ kU K t 3 m.dst ^^^ kU K t 3 rTo

theorem c_pieceKey (f : CFacts p m kTo rTo) (K : ZKeys) (t : Bool) {s s' : Position}
    (hs0 : s.c0 = p.c0) (hs1 : s.c1 = p.c1) (hsP : s.piece = p.piece)
    (h : BoardEff s s' (cD0 m kTo rTo) 0#64 (cDP m kTo rTo)) :
    pieceKey K t s'.c0 s'.c1 s'.piece = pieceKey K t p.c0 p.c1 p.piece ^^^ cKeyDelta K t m kTo rTo := by
  rw [pieceKey_eff' K t h (cU m kTo rTo) (fun _ => 0#64)
    (fun k => by rw [hs0, hsP]; exact c_U f k) (fun k => by rw [hs1, hsP]; exact c_T f k), hs0, hs1, hsP]
  congr 1
  simp only [cU, LA_xor, LA_cnd, LA_bit K _ _ _ f.hs, LA_bit K _ _ _ f.hd, LA_bit K _ _ _ f.hk,
    LA_bit K _ _ _ f.hr, LA_zero, BitVec.xor_zero, sum6_xor]
  rw [sum6_cnd_eq 5 (by omega), sum6_cnd_eq 5 (by omega), sum6_cnd_eq 3 (by omega), sum6_cnd_eq 3 (by omega)]
  rfl

theorem c_tail (K : ZKeys) (kh : KeyHyps p = true) (f : CFacts p m kTo rTo) (hpr : m.promo = 6)
    (hCast : ∀ s5 : Position, (s5.p5 &&& s5.p3).isOcc = true →
      BoardEff s5 (stCastle s5 m (fromCoords p.cf0 0) (fromCoords p.cf1 0))
        ((bit m.src ||| bit m.dst) ^^^ bit m.src ^^^ bit kTo ^^^ bit m.dst ^^^ bit rTo) 0#64
        (fun k => cnd (k = 5) ((bit m.src ||| bit m.dst) ^^^ bit m.src ^^^ bit kTo) ^^^
          cnd (k = 3) (bit m.dst ^^^ bit rTo)))
    (h : BB) (s4 : Position)
    (E : BoardEff { p with hash := h } s4 (bit m.src ||| bit m.dst) 0#64
      (fun k => cnd (k = 5) (bit m.src ||| bit m.dst))) :
    (stTail0 p m 5 s4).flip.hash = h ∧
    calculateHashK K (stTail0 p m 5 s4).flip =
      calculateHashK K p ^^^ cKeyDelta K p.black m kTo rTo ^^^ metaDelta K p m 5 ^^^ K.turn := by
  obtain ⟨d0, d1, dP, d5, d3, dsm, dep⟩ := double_fields s4 m 5
  have hC := f.hC
  have hocc : ((stDouble s4 m 5).p5 &&& (stDouble s4 m 5).p3).isOcc = true := by
    rw [d5, d3]
    show (s4.piece 5 &&& s4.piece 3).isOcc = true
    rw [E.P 5, E.P 3]
    apply isOcc_of_bit (x := m.dst)
    have g5 : (p.piece 5).getLsbD m.dst = false := by rw [piece_bit hC, f.hrook]; rfl
    have g3 : (p.piece 3).getLsbD m.dst = true := by rw [piece_bit hC, f.hrook]; rfl
    show (((p.piece 5 ^^^ cnd (5 = 5) (bit m.src ||| bit m.dst)) &&&
      (p.piece 3 ^^^ cnd (3 = 5) (bit m.src ||| bit m.dst))).getLsbD m.dst) = true
    simp only [BitVec.getLsbD_and, BitVec.getLsbD_xor, BitVec.getLsbD_or, getLsbD_cnd, getLsbD_bit, g5, g3]
    simp [f.hd]
  have E5 : BoardEff s4 (stDouble s4 m 5) 0#64 0#64 (fun _ => 0#64) :=
    ⟨by simp [d0], by simp [d1], fun k => by simp [dP], dsm⟩
  have E6 := hCast _ hocc
  have e7 := promo_none (stCastle (stDouble s4 m 5) m (fromCoords p.cf0 0) (fromCoords p.cf1 0)) m hpr
  have Etot : BoardEff { p with hash := h } (stCastle (stDouble s4 m 5) m (fromCoords p.cf0 0) (fromCoords p.cf1 0))
      (cD0 m kTo rTo) 0#64 (cDP m kTo rTo) :=
    ((E.trans E5).trans E6).cast (by simp [cD0]) (by simp)
      (fun k => by simp only [cDP, BitVec.xor_zero])
  have HP := c_pieceKey f K p.black (s := { p with hash := h }) rfl rfl rfl Etot
  obtain ⟨r0, r1, rP, rb, rh, rep, rUK, rUQ, rTK, rTQ⟩ :=
    rights_fields (stCastle (stDouble s4 m 5) m (fromCoords p.cf0 0) (fromCoords p.cf1 0)) m
    (lsb (p.c0 &&& p.p5)) (lsb (p.c1 &&& p.p5)) (fromCoords p.cf0 0) (fromCoords p.cf1 0)
    (fromCoords p.cf2 7) (fromCoords p.cf3 7)
  have hT : stTail0 p m 5 s4 = stRights (stCastle (stDouble s4 m 5) m (fromCoords p.cf0 0) (fromCoords p.cf1 0)) m
      (lsb (p.c0 &&& p.p5)) (lsb (p.c1 &&& p.p5)) (fromCoords p.cf0 0) (fromCoords p.cf1 0)
      (fromCoords p.cf2 7) (fromCoords p.cf3 7) := by
    unfold stTail0
    simp only [e7]
  have r := rfacts_of kh f.hs f.h0s f.hpo (fun _ _ => rfl) (fun _ _ => rfl)
  have HM := meta_move K r (stTail0 p m 5 s4)
    (by rw [hT, rep, castle_ep, dep])
    (by rw [hT, rUK, Etot.sm.usK]) (by rw [hT, rUQ, Etot.sm.usQ])
    (by rw [hT, rTK, Etot.sm.themK]) (by rw [hT, rTQ, Etot.sm.themQ])
  have hb : (stTail0 p m 5 s4).black = p.black := by rw [hT, rb, Etot.sm.black]
  constructor
  · show (stTail0 p m 5 s4).hash = h
    rw [hT, rh, Etot.sm.hash]
  · rw [calc_flip, calc_eq K (stTail0 p m 5 s4), calc_eq K p, hb, HM]
    have e0 : (stTail0 p m 5 s4).c0 = (stCastle (stDouble s4 m 5) m (fromCoords p.cf0 0) (fromCoords p.cf1 0)).c0 := by
      rw [hT, r0]
    have e1 : (stTail0 p m 5 s4).c1 = (stCastle (stDouble s4 m 5) m (fromCoords p.cf0 0) (fromCoords p.cf1 0)).c1 := by
      rw [hT, r1]
    have eP : (stTail0 p m 5 s4).piece =
        (stCastle (stDouble s4 m 5) m (fromCoords p.cf0 0) (fromCoords p.cf1 0)).piece := by rw [hT, rP]
    rw [e0, e1, eP, HP]
    xor_ac

theorem c_core (K : ZKeys) (kh : KeyHyps p = true) (f : CFacts p m kTo rTo) (hpr : m.promo = 6)
    (hCast : ∀ s5 : Position, (s5.p5 &&& s5.p3).isOcc = true →
      BoardEff s5 (stCastle s5 m (fromCoords p.cf0 0) (fromCoords p.cf1 0))
        ((bit m.src ||| bit m.dst) ^^^ bit m.src ^^^ bit kTo ^^^ bit m.dst ^^^ bit rTo) 0#64
        (fun k => cnd (k = 5) ((bit m.src ||| bit m.dst) ^^^ bit m.src ^^^ bit kTo) ^^^
          cnd (k = 3) (bit m.dst ^^^ bit rTo)))
    (h : BB) {q : Position} (hq : mmFrom p m 5 h = some q) :
    q.hash = h ∧ calculateHashK K q =
      calculateHashK K p ^^^ cKeyDelta K p.black m kTo rTo ^^^ metaDelta K p m 5 ^^^ K.turn := by
  have E1 := relocate_eff p m 5 h (by omega)
  have h1d : p.c1.getLsbD m.dst = false := by
    have := disj_bit f.hC m.dst
    rw [f.h0d] at this
    simpa using this
  have hc1 : (stRelocate p m 5 h).c1.isSet m.dst = false := by
    unfold BB.isSet
    rw [E1.c1]
    simpa using h1d
  have h50 : ((5 : Nat) == 0) = false := rfl
  unfold mmFrom at hq
  simp only [Option.bind_eq_bind, Option.pure_def, hc1, h50, Bool.false_and, Bool.false_eq_true, if_false,
    Option.bind_some, Option.some.injEq] at hq
  subst hq
  show (stFull _).flip.hash = h ∧ calculateHashK K (stFull _).flip = _
  rw [full_hash, full_calc]
  exact c_tail K kh f hpr hCast h _ ((E1.trans (clock_eff _ 5)).cast (by simp) (by simp) (fun k => by simp))

theorem castleK_step (K : ZKeys) (kh : KeyHyps p = true) (f : CFacts p m 6 5) (hpr : m.promo = 6)
    (hdst : fromCoords p.cf0 0 = m.dst) (hgt : m.dst > m.src)
    (h : BB) {q : Position} (hq : mmFrom p m 5 h = some q) :
    q.hash = h ∧ calculateHashK K q =
      calculateHashK K p ^^^ cKeyDelta K p.black m 6 5 ^^^ metaDelta K p m 5 ^^^ K.turn :=
  c_core K kh f hpr (fun s5 hocc => (castle_eff_K s5 m _ _ hocc hgt).cast (by rw [hdst]) rfl
    (fun k => by rw [hdst])) h hq

theorem castleQ_step (K : ZKeys) (kh : KeyHyps p = true) (f : CFacts p m 2 3) (hpr : m.promo = 6)
    (hdst : fromCoords p.cf1 0 = m.dst) (hlt : m.dst < m.src)
    (h : BB) {q : Position} (hq : mmFrom p m 5 h = some q) :
    q.hash = h ∧ calculateHashK K q =
      calculateHashK K p ^^^ cKeyDelta K p.black m 2 3 ^^^ metaDelta K p m 5 ^^^ K.turn :=
  c_core K kh f hpr (fun s5 hocc => (castle_eff_Q s5 m _ _ hocc hlt).cast (by rw [hdst]) rfl
    (fun k => by rw [hdst])) h hq

theorem xx_yy (x y r : BB) : x ^^^ x ^^^ (y ^^^ y ^^^ r) = r := by
  rw [BitVec.xor_self, BitVec.zero_xor, BitVec.xor_self, BitVec.zero_xor]

theorem predict_castleK (K : ZKeys) (f : CFacts p m 6 5) (hpr : m.promo = 6)
    (hu : p.usK = true) (hdst : fromCoords p.cf0 0 = m.dst) :
    predictHashK K p m =
      some (p.hash ^^^ cKeyDelta K p.black m 6 5 ^^^ metaDelta K p m 5 ^^^ K.turn) := by
  have h1d : p.c1.isSet m.dst = false := by
    unfold BB.isSet
    have := disj_bit f.hC m.dst
    rw [f.h0d] at this
    simpa using this
  have h50 : ((5 : Nat) == 0) = false := rfl
  have h55 : ((5 : Nat) == 5) = true := rfl
  have h66 : ((6 : Nat) != 6) = false := rfl
  have hdd : (m.dst == m.dst) = true := by simp
  unfold predictHashK
  simp only [f.hpo, Option.bind_eq_bind, Option.bind_some, Option.pure_def, h1d, hpr, h50, h55, h66, hu, hdst, hdd,
    Bool.false_and, Bool.true_and, Bool.and_true, Bool.false_eq_true, if_false, if_true, xorIf_eq]
  congr 1
  simp only [cKeyDelta, metaDelta, kU, hdst, hu, h50, h55, Bool.false_and, Bool.true_and, Bool.and_true]
  have o0 : ∀ x : BB, onKey false x = 0#64 := fun x => rfl
  refine Eq.trans ?_ (xx_yy (K.piece (zIndex p.black 5 (maybeFlip m.src p.black)))
    (K.piece (zIndex p.black 5 (maybeFlip m.dst p.black))) _)
  cases p.ep <;> simp only [epKey, o0, BitVec.xor_zero, BitVec.zero_xor] <;> xor_ac

theorem predict_castleQ (K : ZKeys) (f : CFacts p m 2 3) (hpr : m.promo = 6)
    (hnK : (p.usK && m.dst == fromCoords p.cf0 0) = false)
    (hu : p.usQ = true) (hdst : fromCoords p.cf1 0 = m.dst) :
    predictHashK K p m =
      some (p.hash ^^^ cKeyDelta K p.black m 2 3 ^^^ metaDelta K p m 5 ^^^ K.turn) := by
  have h1d : p.c1.isSet m.dst = false := by
    unfold BB.isSet
    have := disj_bit f.hC m.dst
    rw [f.h0d] at this
    simpa using this
  have h50 : ((5 : Nat) == 0) = false := rfl
  have h55 : ((5 : Nat) == 5) = true := rfl
  have h66 : ((6 : Nat) != 6) = false := rfl
  have hdd : (m.dst == m.dst) = true := by simp
  have hK : ((5 : Nat) == 5 && p.usK && m.dst == fromCoords p.cf0 0) = false := by
    rw [Bool.and_assoc, hnK]; rfl
  unfold predictHashK
  simp only [f.hpo, Option.bind_eq_bind, Option.bind_some, Option.pure_def, h1d, hpr, hK, h50, h66,
    Bool.false_and, Bool.false_eq_true, if_false, xorIf_eq]
  simp only [h55, hu, hdst, hdd, Bool.true_and, Bool.and_true, Bool.and_self, if_true]
  congr 1
  simp only [cKeyDelta, metaDelta, kU, hdst, hu, h50, h55, Bool.false_and, Bool.true_and, Bool.and_true]
  have o0 : ∀ x : BB, onKey false x = 0#64 := fun x => rfl
  refine Eq.trans ?_ (xx_yy (K.piece (zIndex p.black 5 (maybeFlip m.src p.black)))
    (K.piece (zIndex p.black 5 (maybeFlip m.dst p.black))) _)
  cases p.ep <;> simp only [epKey, o0, BitVec.xor_zero, BitVec.zero_xor] <;> xor_ac

end

end Rawr.ZH
