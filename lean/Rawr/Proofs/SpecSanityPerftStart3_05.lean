import Rawr.Proofs.SpecSanityPerftDefs
/-! perft of the start position, depth 3, slice 05: the subtree of first move `.normal 8 24 none` (kernel-evaluated). -/
namespace Rawr.SpecS
open Rawr.Spec

theorem start3_05 : leaves (apply stdStart (.normal 8 24 none)) 2 = 420 := by decide +kernel

end Rawr.SpecS
