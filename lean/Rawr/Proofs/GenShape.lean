import Rawr.Proofs.GenShapeWalk
import Rawr.Proofs.CountLemmas
/-! `GenOk`: the shape of every move produced by `moveGenerator` on a valid position (`gen_shape`). -/
set_option linter.unusedSimpArgs false
namespace Rawr
open Rawr.Position Rawr.Spec Rawr.ZH

/-- `omega` after exposing `Pc = Nat`. -/
macro "pomega" : tactic => `(tactic| ((try delta Pc at *); omega))

/-- king-side castling as generated: king takes own rook. -/
def IsCastleK (p : Position) (m : Mv) : Prop :=
  p.usK = true ∧ m.src = lsb (p.p5 &&& p.c0) ∧ m.dst = fromCoords p.cf0 0 ∧ p.cf0 < 8 ∧
  (p.c0 &&& p.p3).getLsbD m.dst = true ∧ m.src < m.dst ∧ emptyOr p 6 m = true ∧ emptyOr p 5 m = true

/-- queen-side castling as generated. -/
def IsCastleQ (p : Position) (m : Mv) : Prop :=
  p.usQ = true ∧ m.src = lsb (p.p5 &&& p.c0) ∧ m.dst = fromCoords p.cf1 0 ∧ p.cf1 < 8 ∧
  (p.c0 &&& p.p3).getLsbD m.dst = true ∧ m.dst < m.src ∧ m.src < 8 ∧ emptyOr p 2 m = true ∧ emptyOr p 3 m = true

/-- pawn geometry: push, double push, capture towards the h-file / a-file, en passant. -/
def PawnGeom (p : Position) (src dst : Nat) : Prop :=
  (dst = src + 8 ∧ p.occ.getLsbD dst = false) ∨
  (rankOf src = 1 ∧ dst = src + 16 ∧ p.occ.getLsbD (src + 8) = false ∧ p.occ.getLsbD dst = false) ∨
  (dst = src + 9 ∧ fileOf dst = fileOf src + 1 ∧ p.c1.getLsbD dst = true) ∨
  (dst = src + 7 ∧ fileOf src = fileOf dst + 1 ∧ p.c1.getLsbD dst = true) ∨
  (p.ep = some dst ∧ ((dst = src + 9 ∧ fileOf dst = fileOf src + 1) ∨ (dst = src + 7 ∧ fileOf src = fileOf dst + 1)) ∧
    8 ≤ dst ∧ rankOf dst = 5 ∧ (p.c1 &&& p.p0).getLsbD (dst - 8) = true ∧ p.occ.getLsbD dst = false)

/-- the shape of a generated move. -/
structure GenOk (p : Position) (g : GMv) : Prop where
  src_lt : g.mv.src < 64
  dst_lt : g.mv.dst < 64
  ne : g.mv.src ≠ g.mv.dst
  tag : p.pieceOn g.mv.src = some g.piece
  own : p.c0.isSet g.mv.src = true
  dst_own : p.c0.isSet g.mv.dst = true → g.piece = 5 ∧ (IsCastleK p g.mv ∨ IsCastleQ p g.mv)
  promo_mem : g.mv.promo = 6 ∨ g.mv.promo = 1 ∨ g.mv.promo = 2 ∨ g.mv.promo = 3 ∨ g.mv.promo = 4
  promo_iff : g.mv.promo ≠ 6 ↔ (g.piece = 0 ∧ rankOf g.mv.dst = 7)
  pawn : g.piece = 0 → PawnGeom p g.mv.src g.mv.dst
  king : g.piece = 5 → p.c0.isSet g.mv.dst = false → (adjacent (bit g.mv.src)).getLsbD g.mv.dst = true

/-! ### bit membership of the shifts -/

theorem notAFile_mem : ∀ i : Fin 64, notAFile.getLsbD i.val = true → i.val % 8 ≠ 0 := by decide
theorem notHFile_mem : ∀ i : Fin 64, notHFile.getLsbD i.val = true → i.val % 8 ≠ 7 := by decide
theorem rank4_mem : ∀ i : Fin 64, (0xFF000000#64 : BB).getLsbD i.val = true → i.val / 8 = 3 := by decide

theorem north_mem {x : BB} {i : Nat} (h : (north x).getLsbD i = true) : 8 ≤ i ∧ i < 64 ∧ x.getLsbD (i - 8) = true := by
  have hi := BitVec.lt_of_getLsbD h
  simp only [north, BitVec.getLsbD_shiftLeft, Bool.and_eq_true, decide_eq_true_eq, Bool.not_eq_true',
    decide_eq_false_iff_not] at h
  exact ⟨by omega, hi, h.2⟩

theorem northNorth_mem {x : BB} {i : Nat} (h : (northNorth x).getLsbD i = true) :
    16 ≤ i ∧ i < 64 ∧ x.getLsbD (i - 16) = true := by
  have hi := BitVec.lt_of_getLsbD h
  simp only [northNorth, BitVec.getLsbD_shiftLeft, Bool.and_eq_true, decide_eq_true_eq, Bool.not_eq_true',
    decide_eq_false_iff_not] at h
  exact ⟨by omega, hi, h.2⟩

theorem northEast_mem {x : BB} {i : Nat} (h : (northEast x).getLsbD i = true) :
    9 ≤ i ∧ i < 64 ∧ x.getLsbD (i - 9) = true ∧ i % 8 ≠ 0 := by
  have hi := BitVec.lt_of_getLsbD h
  simp only [northEast, BitVec.getLsbD_and, BitVec.getLsbD_shiftLeft, Bool.and_eq_true, decide_eq_true_eq,
    Bool.not_eq_true', decide_eq_false_iff_not] at h
  exact ⟨by omega, hi, h.1.2, notAFile_mem ⟨i, hi⟩ h.2⟩

theorem northWest_mem {x : BB} {i : Nat} (h : (northWest x).getLsbD i = true) :
    7 ≤ i ∧ i < 64 ∧ x.getLsbD (i - 7) = true ∧ i % 8 ≠ 7 := by
  have hi := BitVec.lt_of_getLsbD h
  simp only [northWest, BitVec.getLsbD_and, BitVec.getLsbD_shiftLeft, Bool.and_eq_true, decide_eq_true_eq,
    Bool.not_eq_true', decide_eq_false_iff_not] at h
  exact ⟨by omega, hi, h.1.2, notHFile_mem ⟨i, hi⟩ h.2⟩

theorem empty_mem {p : Position} {i : Nat} (h : p.empty.getLsbD i = true) : p.occ.getLsbD i = false := by
  simp only [Position.empty, BitVec.getLsbD_not, Bool.and_eq_true, Bool.not_eq_true'] at h
  exact h.2

theorem occ_false {p : Position} {i : Nat} (h : p.occ.getLsbD i = false) :
    p.c0.getLsbD i = false ∧ p.c1.getLsbD i = false := by
  simp only [Position.occ, BitVec.getLsbD_or, Bool.or_eq_false_iff] at h
  exact h

theorem pieceOn_of_bit {p : Position} (hC : Consistent p = true) {k x : Nat}
    (h : (p.piece k).getLsbD x = true) : p.pieceOn x = some k := by
  rw [piece_bit hC] at h
  simpa using h

theorem ksq_facts {p : Position} (F : VFacts p) :
    lsb (p.p5 &&& p.c0) < 64 ∧ p.p5.getLsbD (lsb (p.p5 &&& p.c0)) = true ∧
      p.c0.getLsbD (lsb (p.p5 &&& p.c0)) = true ∧ lsb (p.p5 &&& p.c0) = lsb (p.c0 &&& p.p5) := by
  have e : p.p5 &&& p.c0 = p.c0 &&& p.p5 := BitVec.and_comm _ _
  rw [e]
  rcases lsb_cases (p.c0 &&& p.p5) with h | h
  · exfalso
    have h1 := F.king1
    unfold lsb at h
    unfold count at h1
    cases hl : toList (p.c0 &&& p.p5) with
    | nil => rw [hl] at h1; cases h1
    | cons a l =>
      rw [hl] at h
      have : a ∈ toList (p.c0 &&& p.p5) := by rw [hl]; exact List.mem_cons_self
      have := BitVec.lt_of_getLsbD ((Rawr.mem_toList _ _).mp this)
      simp at h
      omega
  · have hlt := BitVec.lt_of_getLsbD h
    rw [BitVec.getLsbD_and, Bool.and_eq_true] at h
    exact ⟨hlt, h.2, h.1, rfl⟩

/-! ### the classes -/

/-- knights and sliders: any own non-pawn, non-king piece moving into `allowed`. -/
theorem piece_ok {p : Position} (F : VFacts p) {k src dst : Nat} (hk : k = 1 ∨ k = 2 ∨ k = 3 ∨ k = 4)
    (hs : (p.piece k).getLsbD src = true) (hc : p.c0.getLsbD src = true)
    (hd : (prelude p).allowed.getLsbD dst = true) : GenOk p (gm k src dst 6) := by
  have hd0 := allowed_not_own F.cons (ksq_facts F).1 hd
  refine ⟨BitVec.lt_of_getLsbD hc, BitVec.lt_of_getLsbD hd, ?_, pieceOn_of_bit F.cons hs, hc, ?_, Or.inl rfl, ?_, ?_, ?_⟩
  · intro e
    simp only [gm] at e
    rw [e, hd0] at hc; cases hc
  · intro h
    simp only [gm, BB.isSet, hd0] at h; cases h
  · simp only [gm]
    constructor
    · intro h; exact absurd rfl h
    · rintro ⟨h, _⟩; pomega
  · intro h; simp only [gm] at h; pomega
  · intro h; simp only [gm] at h; pomega

/-- the moves of one `pawnArrive d to` call. -/
theorem pawnArrive_ok {p : Position} (F : VFacts p) {d to : Nat} {g : GMv} (hg : g ∈ pawnArrive d to)
    (hto : to < 64) (hd : d ≤ to) (hd0 : 0 < d) (h0 : p.p0.getLsbD (to - d) = true)
    (hc : p.c0.getLsbD (to - d) = true) (hdst : p.c0.getLsbD to = false)
    (hgeo : PawnGeom p (to - d) to) : GenOk p g := by
  have key : g.piece = 0 ∧ g.mv.src = to - d ∧ g.mv.dst = to ∧
      ((rankOf to = 7 ∧ (g.mv.promo = 1 ∨ g.mv.promo = 2 ∨ g.mv.promo = 3 ∨ g.mv.promo = 4)) ∨
       (rankOf to ≠ 7 ∧ g.mv.promo = 6)) := by
    unfold pawnArrive at hg
    split at hg
    · rename_i h7
      have h7 : rankOf to = 7 := by simpa using h7
      simp only [List.mem_cons, List.not_mem_nil, or_false] at hg
      rcases hg with h | h | h | h <;> subst h <;> simp [gm, h7]
    · rename_i h7
      have h7 : rankOf to ≠ 7 := by simpa using h7
      simp only [List.mem_cons, List.not_mem_nil, or_false] at hg
      subst hg
      simp [gm, h7]
  obtain ⟨hp, hs, hdd, hpr⟩ := key
  refine ⟨by rw [hs]; pomega, by rw [hdd]; exact hto, by rw [hs, hdd]; pomega, ?_, by rw [hs]; exact hc, ?_, ?_, ?_,
    ?_, ?_⟩
  · rw [hs, hp]; exact pieceOn_of_bit (k := 0) F.cons h0
  · intro h; rw [hdd] at h; simp only [BB.isSet, hdst] at h; cases h
  · rcases hpr with ⟨_, h⟩ | ⟨_, h⟩
    · exact Or.inr h
    · exact Or.inl h
  · rw [hdd]
    rcases hpr with ⟨h7, h⟩ | ⟨h7, h⟩
    · exact ⟨fun _ => ⟨hp, h7⟩, fun _ => by pomega⟩
    · exact ⟨fun hn => absurd h hn, fun hh => absurd hh.2 h7⟩
  · intro _; rw [hs, hdd]; exact hgeo
  · intro h; pomega

/-- one move of a pawn with no promotion (double push, en passant). -/
theorem pawn_plain_ok {p : Position} (F : VFacts p) {d to : Nat}
    (hto : to < 64) (hd : d ≤ to) (hd0 : 0 < d) (h0 : p.p0.getLsbD (to - d) = true)
    (hc : p.c0.getLsbD (to - d) = true) (hdst : p.c0.getLsbD to = false) (h7 : rankOf to ≠ 7)
    (hgeo : PawnGeom p (to - d) to) : GenOk p (gm 0 (to - d) to 6) := by
  refine ⟨by simp only [gm]; pomega, hto, by simp only [gm]; pomega, pieceOn_of_bit (k := 0) F.cons h0, hc, ?_,
    Or.inl rfl, ?_, fun _ => hgeo, ?_⟩
  · intro h; simp only [gm, BB.isSet, hdst] at h; cases h
  · exact ⟨fun hn => absurd rfl hn, fun hh => absurd hh.2 h7⟩
  · intro h; simp only [gm] at h; pomega

/-- a king step. -/
theorem king_ok {p : Position} (F : VFacts p) {src dst : Nat}
    (hs : (p.p5 &&& p.c0).getLsbD src = true) (hd : dst ∈ kingTargetsSafe p src) : GenOk p (gm 5 src dst 6) := by
  unfold kingTargetsSafe at hd
  rw [List.mem_filter, Rawr.mem_toList] at hd
  have hd := hd.1
  simp only [BitVec.getLsbD_and, BitVec.getLsbD_not, Bool.and_eq_true, Bool.not_eq_true'] at hs hd
  obtain ⟨hadj, hlt, hd0⟩ := hd
  have hlt : dst < 64 := by simpa using hlt
  refine ⟨BitVec.lt_of_getLsbD hs.2, hlt, ?_, pieceOn_of_bit (k := 5) F.cons hs.1, hs.2, ?_, Or.inl rfl, ?_, ?_, ?_⟩
  · intro e; simp only [gm] at e; rw [← e, hs.2] at hd0; cases hd0
  · intro h; simp only [gm, BB.isSet, hd0] at h; cases h
  · simp only [gm]
    exact ⟨fun hn => absurd rfl hn, fun hh => by pomega⟩
  · intro h; simp only [gm] at h; pomega
  · intro _ _; exact hadj

theorem lineBetween_mem (a b : Nat) (hb : b < 64) : (lineBetween a b).getLsbD b = true := by
  unfold lineBetween
  rw [BitVec.getLsbD_or, getLsbD_bit]
  simp [hb]

theorem emptyOr_of_castle {p : Position} {ksq rsq : Nat} {both : BB} {x : Nat} {m : Mv} (hx : x < 64)
    (hboth : both.getLsbD x = true) (hm : m.src = ksq ∧ m.dst = rsq)
    (h : (p.occ &&& both &&& ~~~bit ksq &&& ~~~bit rsq).isEmpty = true) : emptyOr p x m = true := by
  unfold emptyOr
  by_cases h1 : x = m.src
  · simp [h1]
  by_cases h2 : x = m.dst
  · simp [h2]
  have e : p.occ &&& both &&& ~~~bit ksq &&& ~~~bit rsq = 0#64 := by simpa [BB.isEmpty] using h
  have := congrArg (fun b => b.getLsbD x) e
  simp only [BitVec.getLsbD_and, BitVec.getLsbD_not, getLsbD_bit, hboth, hx, decide_true, Bool.true_and,
    Bool.and_true, BitVec.getLsbD_zero] at this
  rw [hm.1] at h1
  rw [hm.2] at h2
  simp only [h1, h2, decide_false, Bool.not_false, Bool.and_true] at this
  simp only [BB.isSet, Position.occ] at this ⊢
  simp [this]

theorem castleK_ok {p : Position} (F : VFacts p)
    (h : castleOk p (prelude p) p.usK (fromCoords p.cf0 0) 6 5 = true) :
    GenOk p (gm 5 (prelude p).ksq (fromCoords p.cf0 0) 6) := by
  unfold castleOk at h
  simp only [Bool.and_eq_true] at h
  obtain ⟨⟨⟨⟨hu, _⟩, _⟩, hempty⟩, _⟩ := h
  obtain ⟨hcf, hrook, hlt⟩ := F.rK hu
  obtain ⟨hk64, hk5, hk0, hke⟩ := ksq_facts F
  have hfc : fromCoords p.cf0 0 = p.cf0 := by simp [fromCoords]
  rw [prelude_ksq, hfc] at hempty ⊢
  rw [← hke] at hlt
  have hr3 : p.p3.getLsbD p.cf0 = true := by
    rw [BitVec.getLsbD_and, Bool.and_eq_true] at hrook; exact hrook.2
  have hr0 : p.c0.getLsbD p.cf0 = true := by
    rw [BitVec.getLsbD_and, Bool.and_eq_true] at hrook; exact hrook.1
  refine ⟨hk64, by simp only [gm]; pomega, by simp only [gm]; pomega, pieceOn_of_bit (k := 5) F.cons hk5, hk0, ?_,
    Or.inl rfl, ?_, ?_, ?_⟩
  · intro _
    have hb6 : (lineBetween (lsb (p.p5 &&& p.c0)) 6 ||| lineBetween p.cf0 5).getLsbD 6 = true := by
      rw [BitVec.getLsbD_or, lineBetween_mem _ 6 (by omega)]; rfl
    have hb5 : (lineBetween (lsb (p.p5 &&& p.c0)) 6 ||| lineBetween p.cf0 5).getLsbD 5 = true := by
      rw [BitVec.getLsbD_or, lineBetween_mem _ 5 (by omega), Bool.or_true]
    exact ⟨rfl, Or.inl ⟨hu, rfl, hfc.symm, hcf, hrook, hlt,
      emptyOr_of_castle (ksq := lsb (p.p5 &&& p.c0)) (rsq := p.cf0) (by omega) hb6 ⟨rfl, rfl⟩ hempty,
      emptyOr_of_castle (ksq := lsb (p.p5 &&& p.c0)) (rsq := p.cf0) (by omega) hb5 ⟨rfl, rfl⟩ hempty⟩⟩
  · simp only [gm]
    exact ⟨fun hn => absurd rfl hn, fun hh => by pomega⟩
  · intro h; simp only [gm] at h; pomega
  · intro _ h; simp only [gm, BB.isSet, hr0] at h; cases h

theorem castleQ_ok {p : Position} (F : VFacts p)
    (h : castleOk p (prelude p) p.usQ (fromCoords p.cf1 0) 2 3 = true) :
    GenOk p (gm 5 (prelude p).ksq (fromCoords p.cf1 0) 6) := by
  unfold castleOk at h
  simp only [Bool.and_eq_true] at h
  obtain ⟨⟨⟨⟨hu, _⟩, _⟩, hempty⟩, _⟩ := h
  obtain ⟨hcf, hrook, hlt, hk8⟩ := F.rQ hu
  obtain ⟨hk64, hk5, hk0, hke⟩ := ksq_facts F
  have hfc : fromCoords p.cf1 0 = p.cf1 := by simp [fromCoords]
  rw [prelude_ksq, hfc] at hempty ⊢
  rw [← hke] at hlt hk8
  have hr0 : p.c0.getLsbD p.cf1 = true := by
    rw [BitVec.getLsbD_and, Bool.and_eq_true] at hrook; exact hrook.1
  refine ⟨hk64, by simp only [gm]; pomega, by simp only [gm]; pomega, pieceOn_of_bit (k := 5) F.cons hk5, hk0, ?_,
    Or.inl rfl, ?_, ?_, ?_⟩
  · intro _
    have hb2 : (lineBetween (lsb (p.p5 &&& p.c0)) 2 ||| lineBetween p.cf1 3).getLsbD 2 = true := by
      rw [BitVec.getLsbD_or, lineBetween_mem _ 2 (by omega)]; rfl
    have hb3 : (lineBetween (lsb (p.p5 &&& p.c0)) 2 ||| lineBetween p.cf1 3).getLsbD 3 = true := by
      rw [BitVec.getLsbD_or, lineBetween_mem _ 3 (by omega), Bool.or_true]
    exact ⟨rfl, Or.inr ⟨hu, rfl, hfc.symm, hcf, hrook, hlt, hk8,
      emptyOr_of_castle (ksq := lsb (p.p5 &&& p.c0)) (rsq := p.cf1) (by omega) hb2 ⟨rfl, rfl⟩ hempty,
      emptyOr_of_castle (ksq := lsb (p.p5 &&& p.c0)) (rsq := p.cf1) (by omega) hb3 ⟨rfl, rfl⟩ hempty⟩⟩
  · simp only [gm]
    exact ⟨fun hn => absurd rfl hn, fun hh => by pomega⟩
  · intro h; simp only [gm] at h; pomega
  · intro _ h; simp only [gm, BB.isSet, hr0] at h; cases h

end Rawr

namespace Rawr
open Rawr.Position Rawr.Spec Rawr.ZH

theorem pawn_src {p : Position} {X : BB} {i : Nat} (h : (p.p0 &&& p.c0 &&& X).getLsbD i = true) :
    p.p0.getLsbD i = true ∧ p.c0.getLsbD i = true := by
  simp only [BitVec.getLsbD_and, Bool.and_eq_true] at h
  exact ⟨h.1.1, h.1.2⟩

theorem pawn_src2 {p : Position} {X Y : BB} {i : Nat} (h : (p.p0 &&& p.c0 &&& X &&& Y).getLsbD i = true) :
    p.p0.getLsbD i = true ∧ p.c0.getLsbD i = true := by
  simp only [BitVec.getLsbD_and, Bool.and_eq_true] at h
  exact ⟨h.1.1.1, h.1.1.2⟩

theorem c1_not_c0 {p : Position} (hC : Consistent p = true) {i : Nat} (h : p.c1.getLsbD i = true) :
    p.c0.getLsbD i = false := by
  have := disj_bit hC i
  rw [h, Bool.and_true] at this
  exact this

/-- one en-passant capture. -/
theorem ep_ok {p : Position} (F : VFacts p) {ep d : Nat} (hep : p.ep = some ep) (hd : d = 9 ∨ d = 7)
    (hsrc : p.p0.getLsbD (ep - d) = true ∧ p.c0.getLsbD (ep - d) = true) (hle : d ≤ ep)
    (hfile : (d = 9 ∧ ep % 8 ≠ 0) ∨ (d = 7 ∧ ep % 8 ≠ 7)) : GenOk p (gm 0 (ep - d) ep 6) := by
  obtain ⟨h64, h5, hc0, hc1, hpawn⟩ := F.ep ep hep
  have hocc : p.occ.getLsbD ep = false := by simp [Position.occ, hc0, hc1]
  unfold rankOf at h5
  apply pawn_plain_ok F h64 hle (by omega) hsrc.1 hsrc.2 hc0 (by unfold rankOf; omega)
  refine Or.inr (Or.inr (Or.inr (Or.inr ⟨hep, ?_, by omega, h5, hpawn, hocc⟩)))
  unfold fileOf
  rcases hfile with ⟨rfl, h⟩ | ⟨rfl, h⟩
  · exact Or.inl ⟨by omega, by omega⟩
  · exact Or.inr ⟨by omega, by omega⟩

/-- **Shape of the generated moves.** -/
theorem gen_shape_of (p : Position) (F : VFacts p) : ∀ g ∈ moveGenerator p, GenOk p g := by
  intro g hg
  unfold moveGenerator at hg
  simp only [List.mem_append, List.mem_flatMap, List.mem_map, Rawr.mem_toList] at hg
  rcases hg with ((((((((((((((⟨a, ha, hga⟩ | ⟨a, ha, hga⟩) | ⟨a, ha, hga⟩) | ⟨a, ha, hga⟩) | hep) |
    ⟨a, ha, b, hb, hga⟩) | ⟨a, ha, b, hb, hga⟩) | ⟨a, ha, b, hb, hga⟩) | ⟨a, ha, b, hb, hga⟩) |
    ⟨a, ha, b, hb, hga⟩) | ⟨a, ha, b, hb, hga⟩) | ⟨a, ha, b, hb, hga⟩) | ⟨a, ha, b, hb, hga⟩) |
    ⟨a, ha, b, hb, hga⟩) | hc) | hc
  · -- single pushes
    simp only [BitVec.getLsbD_and, Bool.and_eq_true] at ha
    obtain ⟨⟨hn, he⟩, _⟩ := ha
    obtain ⟨h8, h64, hx⟩ := north_mem hn
    have hs := pawn_src hx
    have hocc := empty_mem he
    exact pawnArrive_ok F hga h64 h8 (by omega) hs.1 hs.2 (occ_false hocc).1 (Or.inl ⟨by omega, hocc⟩)
  · -- double pushes
    simp only [BitVec.getLsbD_and, Bool.and_eq_true] at ha
    obtain ⟨⟨⟨⟨hn, he⟩, hne⟩, hr⟩, _⟩ := ha
    obtain ⟨h16, h64, hx⟩ := northNorth_mem hn
    have hs := pawn_src hx
    have hocc := empty_mem he
    have hocc8 := empty_mem (north_mem hne).2.2
    have h3 := rank4_mem ⟨a, h64⟩ hr
    simp only at h3
    subst hga
    apply pawn_plain_ok F h64 h16 (by omega) hs.1 hs.2 (occ_false hocc).1 (by unfold rankOf; omega)
    refine Or.inr (Or.inl ⟨by unfold rankOf; omega, by omega, ?_, hocc⟩)
    have e : a - 16 + 8 = a - 8 := by omega
    rw [e]; exact hocc8
  · -- captures towards the h-file
    simp only [BitVec.getLsbD_and, Bool.and_eq_true] at ha
    obtain ⟨⟨hn, ht⟩, _⟩ := ha
    rw [east_north] at hn
    obtain ⟨h9, h64, hx, hf⟩ := northEast_mem hn
    have hs := pawn_src2 hx
    exact pawnArrive_ok F hga h64 h9 (by omega) hs.1 hs.2 (c1_not_c0 F.cons ht)
      (Or.inr (Or.inr (Or.inl ⟨by omega, by unfold fileOf; omega, ht⟩)))
  · -- captures towards the a-file
    simp only [BitVec.getLsbD_and, Bool.and_eq_true] at ha
    obtain ⟨⟨hn, ht⟩, _⟩ := ha
    obtain ⟨h7, h64, hx, hf⟩ := northWest_mem hn
    have hs := pawn_src2 hx
    exact pawnArrive_ok F hga h64 h7 (by omega) hs.1 hs.2 (c1_not_c0 F.cons ht)
      (Or.inr (Or.inr (Or.inr (Or.inl ⟨by omega, by unfold fileOf; omega, ht⟩))))
  · -- en passant
    split at hep
    · cases hep
    · rename_i ep hpe
      simp only [List.mem_append] at hep
      rcases hep with hep | hep <;> split at hep
      · rw [List.mem_singleton] at hep
        rename_i hcnd
        simp only [Bool.and_eq_true, BB.isSet] at hcnd
        obtain ⟨h9, h64, hx, hf⟩ := northEast_mem hcnd.1
        subst hep
        exact ep_ok F hpe (Or.inl rfl) (pawn_src2 hx) h9 (Or.inl ⟨rfl, hf⟩)
      · cases hep
      · rw [List.mem_singleton] at hep
        rename_i hcnd
        simp only [Bool.and_eq_true, BB.isSet] at hcnd
        obtain ⟨h7, h64, hx, hf⟩ := northWest_mem hcnd.1
        subst hep
        exact ep_ok F hpe (Or.inr rfl) (pawn_src2 hx) h7 (Or.inr ⟨rfl, hf⟩)
      · cases hep
  · -- knights
    simp only [BitVec.getLsbD_and, Bool.and_eq_true] at ha hb
    subst hga
    exact piece_ok F (Or.inl rfl) ha.1.1 ha.1.2 hb.2
  · simp only [BitVec.getLsbD_and, Bool.and_eq_true] at ha hb
    subst hga
    exact piece_ok F (Or.inr (Or.inl rfl)) ha.1.1 ha.1.2 hb.1.2
  · simp only [BitVec.getLsbD_and, Bool.and_eq_true] at ha hb
    subst hga
    exact piece_ok F (Or.inr (Or.inl rfl)) ha.1.1 ha.1.2 hb.2
  · simp only [BitVec.getLsbD_and, Bool.and_eq_true] at ha hb
    subst hga
    exact piece_ok F (Or.inr (Or.inr (Or.inl rfl))) ha.1.1 ha.1.2 hb.1.2
  · simp only [BitVec.getLsbD_and, Bool.and_eq_true] at ha hb
    subst hga
    exact piece_ok F (Or.inr (Or.inr (Or.inl rfl))) ha.1.1 ha.1.2 hb.2
  · simp only [BitVec.getLsbD_and, Bool.and_eq_true] at ha hb
    subst hga
    exact piece_ok F (Or.inr (Or.inr (Or.inr rfl))) ha.1.1 ha.1.2 hb.1.2
  · simp only [BitVec.getLsbD_and, Bool.and_eq_true] at ha hb
    subst hga
    exact piece_ok F (Or.inr (Or.inr (Or.inr rfl))) ha.1.1 ha.1.2 hb.1.2
  · simp only [BitVec.getLsbD_and, Bool.and_eq_true] at ha hb
    subst hga
    exact piece_ok F (Or.inr (Or.inr (Or.inr rfl))) ha.1.1 ha.1.2 hb.2
  · -- king steps
    subst hga
    exact king_ok F ha hb
  · split at hc
    · rename_i hcs
      rw [List.mem_singleton] at hc
      subst hc
      exact castleK_ok F hcs
    · cases hc
  · split at hc
    · rename_i hcs
      rw [List.mem_singleton] at hc
      subst hc
      exact castleQ_ok F hcs
    · cases hc

theorem gen_shape_valid (p : Position) (hV : ValidPos p = true) : ∀ g ∈ moveGenerator p, GenOk p g :=
  gen_shape_of p (vfacts_of_valid hV)

end Rawr
