import Rawr.Proofs.FenSplit
import Rawr.Proofs.FenStaged
import Rawr.Proofs.FenSound2
import Rawr.Proofs.FenBoardParse
import Rawr.Proofs.FenRel
import Rawr.Proofs.FenValidOfSpec
import Rawr.Proofs.FenDecimal
/-! # C07(b,c): `set_fen` on the strings printed by `Spec.printFen` — assembly. -/
namespace Rawr
open Position Spec FenS
set_option linter.unusedSimpArgs false

namespace FenC

/-- the en-passant field of `printFen`. -/
def epField (a : APos) : List Char := match a.ep with | some e => sqChars e | none => ['-']

theorem printFen_shape (a : APos) (st : CastleStyle) :
    printFen a st = printBoard a.board ++ ' ' :: ([if a.whiteToMove then 'w' else 'b'] ++ ' ' ::
      (castleField a st ++ ' ' :: (epField a ++ ' ' :: (intChars a.half ++ ' ' :: intChars a.full)))) := by
  unfold printFen epField
  simp only [List.append_assoc, List.cons_append, List.nil_append]
  rfl

theorem fenEp_sqChars : ∀ (ar : Arith) (e : Fin 64), fenEp ar (sqChars e) = some (some e.val) := by
  intro ar; cases ar <;> decide +kernel

theorem sqChars_no_space : ∀ e : Fin 64, ' ' ∉ sqChars e := by decide +kernel

theorem fenEp_dash (ar : Arith) : fenEp ar ['-'] = some none := by cases ar <;> rfl

/-- evaluation of the staged parser on a six-field string. -/
theorem staged_eval {ar : Arith} {frc : Bool} {fen f0 f1 f2 f3 f4 f5 : List Char}
    (hparts : splitSpace fen = [f0, f1, f2, f3, f4, f5])
    {pb pc : Position} {flip : Bool} {ep : Option Nat} {hm fm : Int}
    (h0 : fenBoard ar f0 { Position.dflt with frc := frc } 0 = some (pb, 64))
    (h1 : fenSide f1 = some flip)
    (hk0 : (pb.c0 &&& pb.p5).isEmpty = false) (hk1 : (pb.c1 &&& pb.p5).isEmpty = false)
    (h2 : fenCastling f2 [] pb = some pc) (h3 : fenEp ar f3 = some ep)
    (h4 : parseI32 f4 = some hm) (hm0 : 0 ≤ hm) (h5 : parseI32 f5 = some fm) (hfm0 : 0 ≤ fm) :
    setFenCore ar frc fen = fenFinish ar { pc with ep := ep } hm fm flip := by
  rw [setFenCore_eq_staged]
  unfold setFenStaged
  simp only [hparts, List.headD_cons, h0, Option.bind_some, bne_self_eq_false, Bool.false_eq_true, if_false,
    List.getElem?_cons_succ, List.getElem?_cons_zero, h1, hk0, hk1, Bool.or_self, fenCastlePart, h2, h3, h4, h5,
    Int.not_lt.mpr hm0, Int.not_lt.mpr hfm0, List.length_cons, List.length_nil]
  simp

/-- two positions with the same fields (the key aside) whose keys are the recomputed keys are equal. -/
theorem eq_of_fields {x y : Position} (h1 : x.c0 = y.c0) (h2 : x.c1 = y.c1) (h3 : x.p0 = y.p0) (h4 : x.p1 = y.p1)
    (h5 : x.p2 = y.p2) (h6 : x.p3 = y.p3) (h7 : x.p4 = y.p4) (h8 : x.p5 = y.p5)
    (h9 : x.halfmoves = y.halfmoves) (h10 : x.fullmoves = y.fullmoves) (h11 : x.black = y.black)
    (h12 : x.ep = y.ep) (h13 : x.usK = y.usK) (h14 : x.usQ = y.usQ) (h15 : x.themK = y.themK)
    (h16 : x.themQ = y.themQ) (h17 : x.cf0 = y.cf0) (h18 : x.cf1 = y.cf1) (h19 : x.cf2 = y.cf2)
    (h20 : x.cf3 = y.cf3) (h22 : x.frc = y.frc)
    (hx : x.hash = x.calculateHash) (hy : y.hash = y.calculateHash) : x = y :=
  FenRel.Position.ext' h1 h2 h3 h4 h5 h6 h7 h8 h9 h10 h11 h12 h13 h14 h15 h16 h17 h18 h19 h20
    (hx.trans ((FenRel.calculateHash_congr h1 h2 h3 h4 h5 h6 h7 h8 h11 h12 h13 h14 h15 h16).trans hy.symm)) h22

theorem map_absSq_false (o : Option Nat) : o.map (absSq false) = o := by
  cases o <;> rfl


/-- the position after the board loop on `printBoard a.board`. -/
def preCastle (a : APos) (frc : Bool) : Position := placeAbs a.board { Position.dflt with frc := frc }

/-- the position after the castling loop on `castleField a st`. -/
def postCastle (a : APos) (frc : Bool) : Position :=
  { preCastle a frc with
    usK := a.wK.isSome, usQ := a.wQ.isSome, themK := a.bK.isSome, themQ := a.bQ.isSome,
    cf0 := a.wK.getD (preCastle a frc).cf0, cf1 := a.wQ.getD (preCastle a frc).cf1,
    cf2 := a.bK.getD (preCastle a frc).cf2, cf3 := a.bQ.getD (preCastle a frc).cf3 }

theorem finPos_eq_rel (a : APos) (frc : Bool) :
    finPos { postCastle a frc with ep := a.ep } a.half a.full (!a.whiteToMove) = rel a frc := by
  cases hw : a.whiteToMove
  · obtain ⟨b0, b1, b2, b3, b4, b5, b6, b7⟩ := rel_boards_black a frc hw
    apply eq_of_fields
    · rw [b0]; rfl
    · rw [b1]; rfl
    · rw [b2]; rfl
    · rw [b3]; rfl
    · rw [b4]; rfl
    · rw [b5]; rfl
    · rw [b6]; rfl
    · rw [b7]; rfl
    · rfl
    · rfl
    · rw [rel_black, hw]; rfl
    · rw [rel_ep, hw]; rfl
    · rw [rel_usK, hw]; rfl
    · rw [rel_usQ, hw]; rfl
    · rw [rel_themK, hw]; rfl
    · rw [rel_themQ, hw]; rfl
    · rw [rel_cf0, hw]; rfl
    · rw [rel_cf1, hw]; rfl
    · rw [rel_cf2, hw]; rfl
    · rw [rel_cf3, hw]; rfl
    · rfl
    · rfl
    · rfl
  · obtain ⟨b0, b1, b2, b3, b4, b5, b6, b7⟩ := rel_boards_white a frc hw
    apply eq_of_fields
    · rw [b0]; rfl
    · rw [b1]; rfl
    · rw [b2]; rfl
    · rw [b3]; rfl
    · rw [b4]; rfl
    · rw [b5]; rfl
    · rw [b6]; rfl
    · rw [b7]; rfl
    · rfl
    · rfl
    · rw [rel_black, hw]; rfl
    · rw [rel_ep, hw]; exact (map_absSq_false _).symm
    · rw [rel_usK, hw]; rfl
    · rw [rel_usQ, hw]; rfl
    · rw [rel_themK, hw]; rfl
    · rw [rel_themQ, hw]; rfl
    · rw [rel_cf0, hw]; rfl
    · rw [rel_cf1, hw]; rfl
    · rw [rel_cf2, hw]; rfl
    · rw [rel_cf3, hw]; rfl
    · rfl
    · rfl
    · rfl


theorem boardsEmpty_dflt (frc : Bool) : BoardsEmpty { Position.dflt with frc := frc } :=
  ⟨rfl, rfl, rfl, rfl, rfl, rfl, rfl, rfl⟩

theorem kings_nonempty (a : APos) (frc : Bool) (hv : (rel a frc).validate = none) :
    ((preCastle a frc).c0 &&& (preCastle a frc).p5).isEmpty = false ∧
    ((preCastle a frc).c1 &&& (preCastle a frc).p5).isEmpty = false := by
  obtain ⟨hw, hb, _⟩ := ((validate_none_iff (rel a frc)).mp hv).2.2.1
  simp only [Position.white, Position.blackBB, rel_black] at hw hb
  show BB.isEmpty (geomBB (isCol a.board true) &&& geomBB (isKind a.board .king)) = false ∧
    BB.isEmpty (geomBB (isCol a.board false) &&& geomBB (isKind a.board .king)) = false
  rw [isEmpty_false, isEmpty_false]
  cases hwm : a.whiteToMove
  · obtain ⟨b0, b1, _, _, _, _, _, b7⟩ := rel_boards_black a frc hwm
    simp only [hwm, Bool.not_false, if_true, b0, b1, b7, ← ZH.flipBB_and, count_flipBB] at hw hb
    exact ⟨ne_zero_of_count_one hw, ne_zero_of_count_one hb⟩
  · obtain ⟨b0, b1, _, _, _, _, _, b7⟩ := rel_boards_white a frc hwm
    simp only [hwm, Bool.not_true, if_false, Bool.false_eq_true, b0, b1, b7] at hw hb
    exact ⟨ne_zero_of_count_one hw, ne_zero_of_count_one hb⟩

theorem side_no_space (w : Bool) : ' ' ∉ [if w then 'w' else 'b'] := by cases w <;> decide

theorem fenSide_print (w : Bool) : fenSide [if w then 'w' else 'b'] = some (!w) := by cases w <;> decide

/-- completeness, given the castling loop's result on the printed castling field. -/
theorem accepts_core (a : APos) (frc : Bool) (ar : Arith) (st : CastleStyle)
    (hV : Valid a = true) (hb : ∀ s, 64 ≤ s → a.board s = none)
    (hh : a.half < 2147483648) (hf : a.full < 2147483648)
    (hatt : (rel a frc).isSqAttacked (lsb ((rel a frc).c1 &&& (rel a frc).p5)) false = false)
    (hcastle : fenCastling (castleField a st) [] (preCastle a frc) = some (postCastle a frc))
    (hns : ' ' ∉ castleField a st) :
    setFenCore ar frc (printFen a st) = some (rel a frc) := by
  have hRC := rel_consistent a frc
  have habs := abs_rel a frc hb
  have hRv : (rel a frc).validate = none := validate_of_valid _ hRC (by rw [habs]; exact hV) hatt
  obtain ⟨_, _, _, _, _, hh0, hf1⟩ := FenV.valid_split hV
  have hep64 : ∀ e, a.ep = some e → e < 64 := by
    intro e he
    have hr := (FenV.valid_ep hV he).1
    exact FenV.rank_lt hr (by split <;> decide)
  have hepns : ' ' ∉ epField a := by
    unfold epField
    cases he : a.ep with
    | none => decide
    | some e => exact sqChars_no_space ⟨e, hep64 e he⟩
  have hepv : fenEp ar (epField a) = some a.ep := by
    unfold epField
    cases he : a.ep with
    | none => exact fenEp_dash ar
    | some e => exact fenEp_sqChars ar ⟨e, hep64 e he⟩
  have hparts := splitSpace_six _ _ _ _ _ _ (printBoard_no_space a.board) (side_no_space a.whiteToMove) hns hepns
    (intChars_no_space a.half hh0) (intChars_no_space a.full (by omega))
  rw [← printFen_shape a st] at hparts
  obtain ⟨hk0, hk1⟩ := kings_nonempty a frc hRv
  have hfb : fenBoard ar (printBoard a.board) { Position.dflt with frc := frc } 0 = some (preCastle a frc, 64) :=
    fenBoard_printBoard ar a.board _ (boardsEmpty_dflt frc)
  rw [staged_eval hparts hfb (fenSide_print _) hk0 hk1 hcastle hepv
    (parseI32_intChars a.half hh0 hh) hh0 (parseI32_intChars a.full (by omega) hf) (by omega)]
  have e : fenFinish ar { postCastle a frc with ep := a.ep } a.half a.full (!a.whiteToMove) =
      if validateAr ar (finPos { postCastle a frc with ep := a.ep } a.half a.full (!a.whiteToMove))
      then some (finPos { postCastle a frc with ep := a.ep } a.half a.full (!a.whiteToMove)) else none := rfl
  rw [e, finPos_eq_rel]
  have hva : validateAr ar (rel a frc) = true := by
    unfold validateAr
    rw [hRv]
    simp only [Option.isNone_none, Bool.and_true]
    rw [rel_ep]
    cases ar
    · rfl
    · cases he : a.ep with
      | none => rfl
      | some e =>
        simp only [Option.map_some, decide_eq_true_eq]
        exact FenRel.absSq_lt _ (hep64 e he)
  rw [hva]; rfl

end FenC
end Rawr
