import Rawr.Proofs.GenPawns
/-!
# C01, pawn classes: the four pawn blocks of the generator against `Spec.legalMoves`
-/
set_option linter.unusedSimpArgs false
namespace Rawr.Att
open Spec

/-! ### the promotion field -/

/-- the promotion fields the generator uses. -/
def PrOk (pr : Nat) : Prop := pr = 6 ∨ pr = 1 ∨ pr = 2 ∨ pr = 3 ∨ pr = 4

/-- the promotion piece denoted by a promotion field (as in `decodeMove`). -/
def promoOf (pr : Nat) : Option Kind := if pr == 6 then none else some (kindOf pr)

theorem promo_bridge {t pr : Nat} (h : PrOk pr) : PromoR t (promoOf pr) ↔ PromoOk t pr := by
  unfold PromoR PromoOk promoOf rankOf
  rcases h with rfl | rfl | rfl | rfl | rfl <;> by_cases h7 : t / 8 = 7 <;>
    simp [h7, promoKinds, kindOf]

theorem promoOk_prOk {t pr : Nat} (h : PromoOk t pr) : PrOk pr := by
  unfold PromoOk at h
  unfold PrOk
  split at h <;> omega

/-! ### membership in the four target sets -/

theorem empty_mem (p : Position) {t : Nat} (ht : t < 64) :
    p.empty.getLsbD t = true ↔ p.occ.getLsbD t = false := by
  unfold Position.empty Position.occ
  rw [BitVec.getLsbD_not]
  simp [ht]

theorem occ_none {p : Position} (hC : Consistent p = true) {t : Nat} (ht : t < 64) :
    p.occ.getLsbD t = false ↔ relBoard p t = none := by
  rw [occRep_rel hC t ht]
  cases relBoard p t <;> simp

theorem enemy_iff {p : Position} (hC : Consistent p = true) {t : Nat} (ht : t < 64) :
    p.c1.getLsbD t = true ↔ ∃ q, relBoard p t = some q ∧ q.white = false := by
  have h := relBoard_white hC t ht
  have hd := ZH.and_zero_bit (a := p.c0) (b := p.c1) (by
    have := hC; unfold Consistent at this
    simp only [Bool.and_eq_true, beq_iff_eq] at this
    exact this.1.1.1.1.1.1.1.1.1.1.1.1.1.1.1.1) t
  constructor
  · intro h1
    rw [h1] at hd h
    have h0 : p.c0.getLsbD t = false := by simpa using hd
    rw [h0] at h
    simp only [Bool.false_eq_true, if_false, if_true] at h
    cases hB : relBoard p t with
    | none => rw [hB] at h; cases h
    | some q => rw [hB] at h; simp only [Option.map_some, Option.some.injEq] at h; exact ⟨q, rfl, h⟩
  · rintro ⟨q, hq, hw⟩
    rw [hq] at h
    simp only [Option.map_some, hw] at h
    cases h0 : p.c0.getLsbD t <;> rw [h0] at h
    · cases h1 : p.c1.getLsbD t
      · rw [h1] at h; simp at h
      · rfl
    · simp at h

section sets
variable {p : Position} (hV : ValidPos p = true) {t : Nat} (ht : t < 64)
include hV ht

theorem pushSet_mem :
    (pushSet p).getLsbD t = true ↔
      (8 ≤ t ∧ relBoard p (t - 8) = some ⟨true, .pawn⟩ ∧ (prelude p).hpinned.getLsbD (t - 8) = false ∧
        (prelude p).bpinned.getLsbD (t - 8) = false ∧ relBoard p t = none ∧
        (prelude p).allowed.getLsbD t = true) := by
  have hC := valid_consistent hV
  unfold pushSet
  simp only [BitVec.getLsbD_and, Bool.and_eq_true]
  rw [north_iff _ ht, empty_mem p ht, occ_none hC ht]
  have h8 : t - 8 < 64 := by omega
  simp only [BitVec.getLsbD_and, BitVec.getLsbD_not, BitVec.getLsbD_or, h8, decide_true, Bool.true_and,
    Bool.and_eq_true, Bool.not_eq_true', Bool.or_eq_false_iff]
  rw [← own_pawn_iff hC h8, BitVec.getLsbD_and, Bool.and_eq_true]
  constructor
  · rintro ⟨⟨⟨h1, h2, h3, h4⟩, h5⟩, h6⟩; exact ⟨h1, h2, h3, h4, h5, h6⟩
  · rintro ⟨h1, h2, h3, h4, h5, h6⟩; exact ⟨⟨⟨h1, h2, h3, h4⟩, h5⟩, h6⟩

theorem dblSet_mem :
    (dblSet p).getLsbD t = true ↔
      (t / 8 = 3 ∧ relBoard p (t - 16) = some ⟨true, .pawn⟩ ∧ (prelude p).hpinned.getLsbD (t - 16) = false ∧
        (prelude p).bpinned.getLsbD (t - 16) = false ∧ relBoard p (t - 8) = none ∧ relBoard p t = none ∧
        (prelude p).allowed.getLsbD t = true) := by
  have hC := valid_consistent hV
  unfold dblSet
  simp only [BitVec.getLsbD_and, Bool.and_eq_true]
  have hr : (0xFF000000#64 : BB).getLsbD t = true ↔ t / 8 = 3 := by
    have : ∀ i : Fin 64, (0xFF000000#64 : BB).getLsbD i.val = decide (i.val / 8 = 3) := by decide
    rw [this ⟨t, ht⟩]; simp
  rw [northNorth_iff _ ht, north_iff _ ht, empty_mem p ht, occ_none hC ht, hr]
  constructor
  · rintro ⟨⟨⟨⟨⟨h16, hsrc⟩, h5⟩, ⟨h8, h6⟩⟩, h3⟩, h7⟩
    have h16' : t - 16 < 64 := by omega
    have h8' : t - 8 < 64 := by omega
    rw [empty_mem p h8', occ_none hC h8'] at h6
    simp only [BitVec.getLsbD_and, BitVec.getLsbD_not, BitVec.getLsbD_or, h16', decide_true, Bool.true_and,
      Bool.and_eq_true, Bool.not_eq_true', Bool.or_eq_false_iff] at hsrc
    refine ⟨h3, (own_pawn_iff hC h16').mp ?_, hsrc.2.1, hsrc.2.2, h6, h5, h7⟩
    rw [BitVec.getLsbD_and, hsrc.1.1, hsrc.1.2]; rfl
  · rintro ⟨h3, hB, hh, hb, h6, h5, h7⟩
    have h16' : t - 16 < 64 := by omega
    have h8' : t - 8 < 64 := by omega
    have hsrc := (own_pawn_iff hC h16').mpr hB
    rw [BitVec.getLsbD_and, Bool.and_eq_true] at hsrc
    refine ⟨⟨⟨⟨⟨by omega, ?_⟩, h5⟩, ⟨by omega, ?_⟩⟩, h3⟩, h7⟩
    · simp only [BitVec.getLsbD_and, BitVec.getLsbD_not, BitVec.getLsbD_or, h16', decide_true, Bool.true_and,
        Bool.and_eq_true, Bool.not_eq_true', Bool.or_eq_false_iff]
      exact ⟨hsrc, hh, hb⟩
    · rw [empty_mem p h8', occ_none hC h8']; exact h6

theorem capNESet_mem :
    (capNESet p).getLsbD t = true ↔
      (9 ≤ t ∧ t % 8 ≠ 0 ∧ relBoard p (t - 9) = some ⟨true, .pawn⟩ ∧
        (prelude p).rpinned.getLsbD (t - 9) = false ∧
        ((prelude p).bpinned.getLsbD (t - 9) = false ∨ (prelude p).bxrays.getLsbD t = true) ∧
        (∃ q, relBoard p t = some q ∧ q.white = false) ∧ (prelude p).allowed.getLsbD t = true) := by
  have hC := valid_consistent hV
  unfold capNESet
  simp only [BitVec.getLsbD_and, Bool.and_eq_true]
  rw [east_north_iff _ ht, enemy_iff hC ht]
  constructor
  · rintro ⟨⟨⟨h9, hf, hsrc⟩, hen⟩, hal⟩
    have h9' : t - 9 < 64 := by omega
    simp only [BitVec.getLsbD_and, BitVec.getLsbD_not, BitVec.getLsbD_or, h9', decide_true, Bool.true_and,
      Bool.and_eq_true, Bool.not_eq_true', Bool.or_eq_true] at hsrc
    refine ⟨h9, hf, (own_pawn_iff hC h9').mp ?_, hsrc.1.2, ?_, hen, hal⟩
    · rw [BitVec.getLsbD_and, hsrc.1.1.1, hsrc.1.1.2]; rfl
    · rcases hsrc.2 with h | h
      · exact Or.inl h
      · right
        have := ((southWest_iff _ h9').mp h).2
        rwa [show t - 9 + 9 = t by omega] at this
  · rintro ⟨h9, hf, hB, hr, hb, hen, hal⟩
    have h9' : t - 9 < 64 := by omega
    have hsrc := (own_pawn_iff hC h9').mpr hB
    rw [BitVec.getLsbD_and, Bool.and_eq_true] at hsrc
    refine ⟨⟨⟨h9, hf, ?_⟩, hen⟩, hal⟩
    simp only [BitVec.getLsbD_and, BitVec.getLsbD_not, BitVec.getLsbD_or, h9', decide_true, Bool.true_and,
      Bool.and_eq_true, Bool.not_eq_true', Bool.or_eq_true]
    refine ⟨⟨hsrc, hr⟩, ?_⟩
    rcases hb with h | h
    · exact Or.inl h
    · right
      exact (southWest_iff _ h9').mpr ⟨by omega, by rwa [show t - 9 + 9 = t by omega]⟩

theorem capNWSet_mem :
    (capNWSet p).getLsbD t = true ↔
      (7 ≤ t ∧ t % 8 ≠ 7 ∧ relBoard p (t - 7) = some ⟨true, .pawn⟩ ∧
        (prelude p).rpinned.getLsbD (t - 7) = false ∧
        ((prelude p).bpinned.getLsbD (t - 7) = false ∨ (prelude p).bxrays.getLsbD t = true) ∧
        (∃ q, relBoard p t = some q ∧ q.white = false) ∧ (prelude p).allowed.getLsbD t = true) := by
  have hC := valid_consistent hV
  unfold capNWSet
  simp only [BitVec.getLsbD_and, Bool.and_eq_true]
  rw [northWest_iff _ ht, enemy_iff hC ht]
  constructor
  · rintro ⟨⟨⟨h7, hf, hsrc⟩, hen⟩, hal⟩
    have h7' : t - 7 < 64 := by omega
    simp only [BitVec.getLsbD_and, BitVec.getLsbD_not, BitVec.getLsbD_or, h7', decide_true, Bool.true_and,
      Bool.and_eq_true, Bool.not_eq_true', Bool.or_eq_true] at hsrc
    refine ⟨h7, hf, (own_pawn_iff hC h7').mp ?_, hsrc.1.2, ?_, hen, hal⟩
    · rw [BitVec.getLsbD_and, hsrc.1.1.1, hsrc.1.1.2]; rfl
    · rcases hsrc.2 with h | h
      · exact Or.inl h
      · right
        have := ((southEast_iff _ h7').mp h).2
        rwa [show t - 7 + 7 = t by omega] at this
  · rintro ⟨h7, hf, hB, hr, hb, hen, hal⟩
    have h7' : t - 7 < 64 := by omega
    have hsrc := (own_pawn_iff hC h7').mpr hB
    rw [BitVec.getLsbD_and, Bool.and_eq_true] at hsrc
    refine ⟨⟨⟨h7, hf, ?_⟩, hen⟩, hal⟩
    simp only [BitVec.getLsbD_and, BitVec.getLsbD_not, BitVec.getLsbD_or, h7', decide_true, Bool.true_and,
      Bool.and_eq_true, Bool.not_eq_true', Bool.or_eq_true]
    refine ⟨⟨hsrc, hr⟩, ?_⟩
    rcases hb with h | h
    · exact Or.inl h
    · right
      exact (southEast_iff _ h7').mpr ⟨by omega, by rwa [show t - 7 + 7 = t by omega]⟩

end sets

/-! ### the class lemma for all pawn moves -/

theorem promoOf_none {pr : Nat} (h : PrOk pr) (h' : promoOf pr = none) : pr = 6 := by
  unfold promoOf at h'
  rcases h with rfl | rfl | rfl | rfl | rfl <;> first | rfl | (simp at h')

theorem at_cap {f t : Nat} {e : Int × Int} (h : (e = dNE ∧ t = f + 9 ∧ f % 8 ≠ 7) ∨ (e = dNW ∧ t = f + 7 ∧ f % 8 ≠ 0)) :
    At f e 1 t := by
  unfold At
  rcases h with ⟨rfl, rfl, h⟩ | ⟨rfl, rfl, h⟩
  · simp only [dNE]; unfold file rank; omega
  · simp only [dNW]; unfold file rank; omega

/-- **pawns, class lemma**: a pawn-tagged move is generated iff it is a legal move of a pawn of the side to
move (pushes, double pushes, captures, promotions with each of the four pieces, en passant). -/
theorem pawns_core' {p : Position} (hV : ValidPos p = true) (f t prN : Nat)
    (hEp : p.ep = some t → (gm 0 f t prN ∈ moveGenerator p ↔
      (prN = 6 ∧ relBoard p f = some ⟨true, .pawn⟩ ∧
        Move.normal (absSq p.black f) (absSq p.black t) none ∈ Spec.legalMoves (abs p)))) :
    gm 0 f t prN ∈ moveGenerator p ↔
      (relBoard p f = some ⟨true, .pawn⟩ ∧ t < 64 ∧ PrOk prN ∧
        Move.normal (absSq p.black f) (absSq p.black t) (promoOf prN) ∈ Spec.legalMoves (abs p)) := by
  have hC := valid_consistent hV
  have KF := kingFacts hV
  have hNE : dNE ∈ diag := by simp [diag_eq]
  have hNW : dNW ∈ diag := by simp [diag_eq]
  have enemy_ne_king : ∀ {t : Nat} {q : Piece}, relBoard p t = some q → q.white = false →
      t ≠ lsb (p.p5 &&& p.c0) := by
    intro t q hq hw e
    rw [e, KF.rel] at hq; injection hq with hq; rw [← hq] at hw; cases hw
  constructor
  · intro hg
    rcases (mem_gen_pawn p f t prN).mp hg with ⟨h1, hf, hp⟩ | ⟨h1, hf, hp⟩ | ⟨h1, hf, hp⟩ | ⟨h1, hf, hp⟩ |
      ⟨hep, hpr, h⟩
    · obtain ⟨ht, hm⟩ := (mem_toList _ _).mp h1
      obtain ⟨h8, hB, hh, hb, hBt, hal⟩ := (pushSet_mem hV ht).mp hm
      subst hf
      have hf64 : t - 8 < 64 := by omega
      have hpr := promoOk_prOk hp
      have hN : PawnPseudoN (relBoard p) (t - 8) t (promoOf prN) :=
        Or.inl ⟨by omega, hBt, (promo_bridge hpr).mpr hp⟩
      refine ⟨hB, ht, hpr, (legal_pawn_iff hV hf64 ht hB _ hN).mpr ⟨hal, ?_⟩⟩
      refine (pinOk_push hV hf64 ht (own_of_rel hC hf64 hB) (Nat.le_refl 1) (by omega) ?_).mpr ⟨hh, hb⟩
      intro i hi1 hi2
      have : i = 1 := by omega
      subst this
      rw [show t - 8 + 8 * 1 = t by omega]; exact hBt
    · obtain ⟨ht, hm⟩ := (mem_toList _ _).mp h1
      obtain ⟨h3, hB, hh, hb, hB8, hBt, hal⟩ := (dblSet_mem hV ht).mp hm
      subst hf; subst hp
      have hf64 : t - 16 < 64 := by omega
      have hN : PawnPseudoN (relBoard p) (t - 16) t (promoOf 6) :=
        Or.inr (Or.inl ⟨by omega, by omega, by rw [show t - 16 + 8 = t - 8 by omega]; exact hB8, hBt, rfl⟩)
      refine ⟨hB, ht, Or.inl rfl, (legal_pawn_iff hV hf64 ht hB _ hN).mpr ⟨hal, ?_⟩⟩
      refine (pinOk_push hV hf64 ht (own_of_rel hC hf64 hB) (m := 2) (by omega) (by omega) ?_).mpr ⟨hh, hb⟩
      intro i hi1 hi2
      rcases (show i = 1 ∨ i = 2 by omega) with rfl | rfl
      · rw [show t - 16 + 8 * 1 = t - 8 by omega]; exact hB8
      · rw [show t - 16 + 8 * 2 = t by omega]; exact hBt
    · obtain ⟨ht, hm⟩ := (mem_toList _ _).mp h1
      obtain ⟨h9, hf0, hB, hr, hb, ⟨q, hq, hw⟩, hal⟩ := (capNESet_mem hV ht).mp hm
      subst hf
      have hf64 : t - 9 < 64 := by omega
      have hpr := promoOk_prOk hp
      have hN : PawnPseudoN (relBoard p) (t - 9) t (promoOf prN) :=
        Or.inr (Or.inr ⟨Or.inr ⟨by omega, by omega⟩, q, hq, hw, (promo_bridge hpr).mpr hp⟩)
      refine ⟨hB, ht, hpr, (legal_pawn_iff hV hf64 ht hB _ hN).mpr ⟨hal, ?_⟩⟩
      exact (pinOk_cap hV ht (own_of_rel hC hf64 hB) hNE
        (at_cap (Or.inl ⟨rfl, by omega, by omega⟩)) (enemy_ne_king hq hw)).mpr ⟨hr, hb⟩
    · obtain ⟨ht, hm⟩ := (mem_toList _ _).mp h1
      obtain ⟨h7, hf7, hB, hr, hb, ⟨q, hq, hw⟩, hal⟩ := (capNWSet_mem hV ht).mp hm
      subst hf
      have hf64 : t - 7 < 64 := by omega
      have hpr := promoOk_prOk hp
      have hN : PawnPseudoN (relBoard p) (t - 7) t (promoOf prN) :=
        Or.inr (Or.inr ⟨Or.inl ⟨by omega, by omega⟩, q, hq, hw, (promo_bridge hpr).mpr hp⟩)
      refine ⟨hB, ht, hpr, (legal_pawn_iff hV hf64 ht hB _ hN).mpr ⟨hal, ?_⟩⟩
      exact (pinOk_cap hV ht (own_of_rel hC hf64 hB) hNW
        (at_cap (Or.inr ⟨rfl, by omega, by omega⟩)) (enemy_ne_king hq hw)).mpr ⟨hr, hb⟩
    · obtain ⟨hpr', hB, hleg⟩ := (hEp hep).mp hg
      subst hpr'
      exact ⟨hB, (ep_facts hV hep).1, Or.inl rfl, hleg⟩
  · rintro ⟨hB, ht, hpr, hleg⟩
    have hf : f < 64 := by
      apply Classical.byContradiction
      intro h
      rw [relBoard_ge p f (by omega)] at hB; cases hB
    have hus := own_of_rel hC hf hB
    have hps := ((mem_legal_normal _ _ _ _).mp hleg).1.2
    rw [pseudo_pawn_rel p hf hB] at hps
    obtain ⟨t', _, hte, hpp⟩ := hps
    have : t' = t := (absSq_inj _ hte).symm
    subst this
    rcases (pawnPseudo_split _ _ _ _ _).mp hpp with hN | ⟨_, _, hep, hnone⟩
    · obtain ⟨hal, hok⟩ := (legal_pawn_iff hV hf ht hB _ hN).mp hleg
      rw [mem_gen_pawn]
      rcases hN with ⟨h1, hBt, hpromo⟩ | ⟨h1, h2, hB8, hBt, hnone⟩ | ⟨hg, q, hq, hw, hpromo⟩
      · left
        have hclr : ∀ i, 1 ≤ i → i ≤ 1 → relBoard p (f + 8 * i) = none := by
          intro i hi1 hi2
          have : i = 1 := by omega
          subst this; rw [← h1]; exact hBt
        obtain ⟨hh, hb⟩ := (pinOk_push hV hf ht hus (Nat.le_refl 1) (by omega) hclr).mp hok
        have e : t' - 8 = f := by omega
        refine ⟨(mem_toList _ _).mpr ⟨ht, (pushSet_mem hV ht).mpr ⟨by omega, ?_, ?_, ?_, hBt, hal⟩⟩, e.symm,
          (promo_bridge hpr).mp hpromo⟩ <;> rw [e] <;> assumption
      · right; left
        have hclr : ∀ i, 1 ≤ i → i ≤ 2 → relBoard p (f + 8 * i) = none := by
          intro i hi1 hi2
          rcases (show i = 1 ∨ i = 2 by omega) with rfl | rfl
          · exact hB8
          · rw [show f + 8 * 2 = t' by omega]; exact hBt
        obtain ⟨hh, hb⟩ := (pinOk_push hV hf ht hus (m := 2) (by omega) (by omega) hclr).mp hok
        have e : t' - 16 = f := by omega
        have e8 : t' - 8 = f + 8 := by omega
        refine ⟨(mem_toList _ _).mpr ⟨ht, (dblSet_mem hV ht).mpr ⟨by omega, ?_, ?_, ?_, ?_, hBt, hal⟩⟩, e.symm,
          promoOf_none hpr hnone⟩
        · rw [e]; exact hB
        · rw [e]; exact hh
        · rw [e]; exact hb
        · rw [e8]; exact hB8
      · rcases hg with ⟨h1, h2⟩ | ⟨h1, h2⟩
        · right; right; right; left
          obtain ⟨hr, hb⟩ := (pinOk_cap hV ht hus hNW (at_cap (Or.inr ⟨rfl, h1, h2⟩))
            (enemy_ne_king hq hw)).mp hok
          have e : t' - 7 = f := by omega
          refine ⟨(mem_toList _ _).mpr ⟨ht, (capNWSet_mem hV ht).mpr
            ⟨by omega, by omega, ?_, ?_, ?_, ⟨q, hq, hw⟩, hal⟩⟩, e.symm, (promo_bridge hpr).mp hpromo⟩
          · rw [e]; exact hB
          · rw [e]; exact hr
          · rw [e]; exact hb
        · right; right; left
          obtain ⟨hr, hb⟩ := (pinOk_cap hV ht hus hNE (at_cap (Or.inl ⟨rfl, h1, h2⟩))
            (enemy_ne_king hq hw)).mp hok
          have e : t' - 9 = f := by omega
          refine ⟨(mem_toList _ _).mpr ⟨ht, (capNESet_mem hV ht).mpr
            ⟨by omega, by omega, ?_, ?_, ?_, ⟨q, hq, hw⟩, hal⟩⟩, e.symm, (promo_bridge hpr).mp hpromo⟩
          · rw [e]; exact hB
          · rw [e]; exact hr
          · rw [e]; exact hb
    · have h6 := promoOf_none hpr hnone
      subst h6
      exact (hEp hep).mpr ⟨rfl, hB, hleg⟩

/-- all pawn moves, on the domain `V ∧ E`. -/
theorem pawns_core {p : Position} (hV : ValidPos p = true) (hE : Spec.EpConsistent (abs p) = true)
    (f t prN : Nat) :
    gm 0 f t prN ∈ moveGenerator p ↔
      (relBoard p f = some ⟨true, .pawn⟩ ∧ t < 64 ∧ PrOk prN ∧
        Move.normal (absSq p.black f) (absSq p.black t) (promoOf prN) ∈ Spec.legalMoves (abs p)) :=
  pawns_core' hV f t prN (fun hep => gen_ep_iff hV hE hep f prN)

/-- pawn moves to a square other than the en-passant square: no retro-consistency needed. -/
theorem pawns_core_noep {p : Position} (hV : ValidPos p = true) (f t prN : Nat) (hne : p.ep ≠ some t) :
    gm 0 f t prN ∈ moveGenerator p ↔
      (relBoard p f = some ⟨true, .pawn⟩ ∧ t < 64 ∧ PrOk prN ∧
        Move.normal (absSq p.black f) (absSq p.black t) (promoOf prN) ∈ Spec.legalMoves (abs p)) :=
  pawns_core' hV f t prN (fun hep => absurd hep hne)

end Rawr.Att
