import Rawr.Model.CountMoves
namespace Rawr

def rank8 : BB := 0xFF00000000000000#64

theorem rank8_getLsbD (i : Nat) (h : i < 64) : rank8.getLsbD i = (rankOf i == 7) := by
  have : ∀ j : Fin 64, rank8.getLsbD j.val = (rankOf j.val == 7) := by decide
  exact this ⟨i, h⟩

theorem length_pawnArrive (d to : Nat) : (pawnArrive d to).length = if rankOf to == 7 then 4 else 1 := by
  unfold pawnArrive; split <;> rfl

theorem foldl_add_eq_sum {α} (l : List α) (g : α → Nat) (init : Nat) :
    l.foldl (fun a x => a + g x) init = init + (l.map g).sum := by
  induction l generalizing init with
  | nil => simp
  | cons x xs ih => simp [ih]; omega

theorem sumOver_eq {α β γ} (l : List α) (h : α → List β) (k : α → β → γ) :
    l.foldl (fun a src => a + (h src).length) 0 = (l.flatMap fun src => (h src).map (k src)).length := by
  rw [foldl_add_eq_sum, List.length_flatMap]; simp

theorem east_north (x : BB) : east (north x) = northEast x := by
  simp only [east, north, northEast, ← BitVec.shiftLeft_add]

theorem length_flatMap_pawnArrive_aux (d : Nat) (b : Nat → Bool) (l : List Nat) (hl : ∀ i ∈ l, i < 64) :
    ((l.filter b).flatMap (pawnArrive d)).length
      = 4 * (l.filter fun i => (b i && rank8.getLsbD i)).length
        + (l.filter fun i => (b i && !rank8.getLsbD i)).length := by
  induction l with
  | nil => rfl
  | cons x xs ih =>
    have hx : x < 64 := hl x (by simp)
    have ih' := ih (fun i hi => hl i (by simp [hi]))
    have hr := rank8_getLsbD x hx
    simp only [List.filter_cons]
    cases hb : b x <;> cases h7 : rankOf x == 7 <;>
      simp [hr, h7, ih', length_pawnArrive] <;> omega

theorem length_flatMap_pawnArrive (d : Nat) (B : BB) :
    ((toList B).flatMap (pawnArrive d)).length = 4 * count (B &&& rank8) + count (B &&& ~~~rank8) := by
  unfold count toList
  rw [length_flatMap_pawnArrive_aux d _ _ (fun i hi => by simpa using hi)]
  congr 2
  · congr 1; apply List.filter_congr; intro i hi; simp
  · apply List.filter_congr; intro i hi
    have : i < 64 := by simpa using hi
    simp [this]


def promoMask : BB := 0xFF000000000000#64
def nonMask : BB := 0xFFFFFFFFFFFF#64

theorem shl_self_and (x : BB) (k : Nat) : x <<< k = x <<< k &&& (BitVec.allOnes 64) <<< k := by
  rw [← BitVec.shiftLeft_and_distrib, BitVec.and_allOnes]

theorem north_promo (x : BB) : north (x &&& promoMask) = north x &&& rank8 := by
  simp only [north, BitVec.shiftLeft_and_distrib]
  congr 1

theorem north_non (x : BB) : north (x &&& nonMask) = north x &&& ~~~rank8 := by
  simp only [north, BitVec.shiftLeft_and_distrib]
  rw [shl_self_and x 8, BitVec.and_assoc, BitVec.and_assoc]
  congr 1

theorem northEast_promo (x : BB) : northEast (x &&& promoMask) = northEast x &&& rank8 := by
  simp only [northEast, BitVec.shiftLeft_and_distrib]
  rw [BitVec.and_assoc, BitVec.and_assoc]
  congr 1

theorem northEast_non (x : BB) : northEast (x &&& nonMask) = northEast x &&& ~~~rank8 := by
  simp only [northEast, BitVec.shiftLeft_and_distrib]
  rw [shl_self_and x 9]
  simp only [BitVec.and_assoc]
  congr 1

theorem northWest_promo (x : BB) : northWest (x &&& promoMask) = northWest x &&& rank8 := by
  simp only [northWest, BitVec.shiftLeft_and_distrib]
  rw [BitVec.and_assoc, BitVec.and_assoc]
  congr 1

theorem northWest_non (x : BB) : northWest (x &&& nonMask) = northWest x &&& ~~~rank8 := by
  simp only [northWest, BitVec.shiftLeft_and_distrib]
  rw [shl_self_and x 7]
  simp only [BitVec.and_assoc]
  congr 1


/-! The counter's promotion / non-promotion source masks select exactly the rank-8 / non-rank-8 arrivals. -/

theorem north_promo_board (U X E A : BB) :
    north (U &&& 0xFF000000000000#64 &&& X) &&& E &&& A = north (U &&& X) &&& E &&& A &&& rank8 := by
  rw [show U &&& 0xFF000000000000#64 &&& X = (U &&& X) &&& promoMask by unfold promoMask; ac_rfl,
    north_promo]; ac_rfl

theorem north_non_board (U X E A : BB) :
    north (U &&& 0xFFFFFFFFFFFF#64 &&& X) &&& E &&& A = north (U &&& X) &&& E &&& A &&& ~~~rank8 := by
  rw [show U &&& 0xFFFFFFFFFFFF#64 &&& X = (U &&& X) &&& nonMask by unfold nonMask; ac_rfl,
    north_non]; ac_rfl

theorem northEast_promo_board (U X Y E A : BB) :
    northEast (U &&& 0xFF000000000000#64 &&& X &&& Y) &&& E &&& A
      = east (north (U &&& X &&& Y)) &&& E &&& A &&& rank8 := by
  rw [show U &&& 0xFF000000000000#64 &&& X &&& Y = (U &&& X &&& Y) &&& promoMask by unfold promoMask; ac_rfl,
    northEast_promo, east_north]; ac_rfl

theorem northEast_non_board (U X Y E A : BB) :
    northEast (U &&& 0xFFFFFFFFFFFF#64 &&& X &&& Y) &&& E &&& A
      = east (north (U &&& X &&& Y)) &&& E &&& A &&& ~~~rank8 := by
  rw [show U &&& 0xFFFFFFFFFFFF#64 &&& X &&& Y = (U &&& X &&& Y) &&& nonMask by unfold nonMask; ac_rfl,
    northEast_non, east_north]; ac_rfl

theorem northWest_promo_board (U X Y E A : BB) :
    northWest (U &&& 0xFF000000000000#64 &&& X &&& Y) &&& E &&& A
      = northWest (U &&& X &&& Y) &&& E &&& A &&& rank8 := by
  rw [show U &&& 0xFF000000000000#64 &&& X &&& Y = (U &&& X &&& Y) &&& promoMask by unfold promoMask; ac_rfl,
    northWest_promo]; ac_rfl

theorem northWest_non_board (U X Y E A : BB) :
    northWest (U &&& 0xFFFFFFFFFFFF#64 &&& X &&& Y) &&& E &&& A
      = northWest (U &&& X &&& Y) &&& E &&& A &&& ~~~rank8 := by
  rw [show U &&& 0xFFFFFFFFFFFF#64 &&& X &&& Y = (U &&& X &&& Y) &&& nonMask by unfold nonMask; ac_rfl,
    northWest_non]; ac_rfl

/-- the counter's `sumOver` against the generator's `slider`/knight blocks. -/
theorem sumOver_count {γ} (l : List Nat) (f : Nat → BB) (k : Nat → Nat → γ) :
    l.foldl (fun a src => a + count (f src)) 0
      = (l.flatMap fun src => (toList (f src)).map (k src)).length :=
  sumOver_eq l (fun src => toList (f src)) k

theorem length_ite_singleton {α} (c : Prop) [Decidable c] (a : α) :
    (if c then [a] else []).length = if c then 1 else 0 := by
  split <;> rfl

/-! ## Sources of generated moves (for C08b) -/

theorem mem_toList (b : BB) (i : Nat) : i ∈ toList b ↔ b.getLsbD i = true := by
  unfold toList
  simp only [List.mem_filter, List.mem_range, and_iff_right_iff_imp]
  intro h
  exact BitVec.lt_of_getLsbD h

theorem lsb_cases (b : BB) : lsb b = 64 ∨ b.getLsbD (lsb b) = true := by
  unfold lsb
  cases h : (toList b).head? with
  | none => left; rfl
  | some x =>
    right
    have : x ∈ toList b := List.mem_of_head? h
    simpa [mem_toList] using this

theorem north_getLsbD (x : BB) (i : Nat) : (north x).getLsbD i = true → x.getLsbD (i - 8) = true := by
  simp only [north, BitVec.getLsbD_shiftLeft, Bool.and_eq_true]; exact fun h => h.2
theorem northNorth_getLsbD (x : BB) (i : Nat) : (northNorth x).getLsbD i = true → x.getLsbD (i - 16) = true := by
  simp only [northNorth, BitVec.getLsbD_shiftLeft, Bool.and_eq_true]; exact fun h => h.2
theorem northEast_getLsbD (x : BB) (i : Nat) : (northEast x).getLsbD i = true → x.getLsbD (i - 9) = true := by
  simp only [northEast, BitVec.getLsbD_and, BitVec.getLsbD_shiftLeft, Bool.and_eq_true]; exact fun h => h.1.2
theorem northWest_getLsbD (x : BB) (i : Nat) : (northWest x).getLsbD i = true → x.getLsbD (i - 7) = true := by
  simp only [northWest, BitVec.getLsbD_and, BitVec.getLsbD_shiftLeft, Bool.and_eq_true]; exact fun h => h.1.2
theorem eastNorth_getLsbD (x : BB) (i : Nat) : (east (north x)).getLsbD i = true → x.getLsbD (i - 9) = true := by
  rw [east_north]; exact northEast_getLsbD x i

theorem mem_pawnArrive {d to : Nat} {g : GMv} (h : g ∈ pawnArrive d to) : g.piece = 0 ∧ g.mv.src = to - d := by
  unfold pawnArrive at h
  split at h <;> simp only [List.mem_cons, List.not_mem_nil, or_false] at h
  · rcases h with h | h | h | h <;> subst h <;> exact ⟨rfl, rfl⟩
  · subst h; exact ⟨rfl, rfl⟩

theorem disj_getLsbD {a b : BB} (h : a &&& b = 0#64) {i : Nat} (hb : b.getLsbD i = true) : a.getLsbD i = false := by
  have := congrArg (fun x => x.getLsbD i) h
  simp only [BitVec.getLsbD_and, hb, Bool.and_true] at this
  simpa using this


/-- own pawns do not share a square with an own non-pawn piece. -/
def OwnPawnsDisjoint (p : Position) : Prop :=
  p.p0 &&& p.c0 &&& (p.p1 ||| p.p2 ||| p.p3 ||| p.p4 ||| p.p5) = 0#64

instance (p : Position) : Decidable (OwnPawnsDisjoint p) := by
  unfold OwnPawnsDisjoint; infer_instance

theorem own_nonpawn_not_pawn {p : Position} (h : OwnPawnsDisjoint p) {i : Nat}
    (hc : p.c0.getLsbD i = true)
    (hk : (p.p1 ||| p.p2 ||| p.p3 ||| p.p4 ||| p.p5).getLsbD i = true) : p.p0.getLsbD i = false := by
  have := congrArg (fun x => x.getLsbD i) h
  simp only [BitVec.getLsbD_and, hk, hc, Bool.and_true] at this
  simpa using this

theorem prelude_ksq (p : Position) : (prelude p).ksq = lsb (p.p5 &&& p.c0) := rfl

theorem pawn_tag {p : Position} {g : GMv} {s : Nat} (hp : g.piece = 0) (hs : g.mv.src = s)
    (h0 : p.p0.getLsbD s = true) : (g.piece == 0) = p.p0.isSet g.mv.src := by
  simp [BB.isSet, hp, hs, h0]

theorem piece_tag {p : Position} (h : OwnPawnsDisjoint p) {g : GMv} {k src dst : Nat} (hk : k ≠ 0)
    (hg : gm k src dst 6 = g) (hc : p.c0.getLsbD src = true)
    (hu : (p.p1 ||| p.p2 ||| p.p3 ||| p.p4 ||| p.p5).getLsbD src = true) :
    (g.piece == 0) = p.p0.isSet g.mv.src := by
  subst hg
  simp [BB.isSet, gm, hk, own_nonpawn_not_pawn h hc hu]

theorem castle_tag {p : Position} (h : OwnPawnsDisjoint p) {g : GMv} {dst : Nat}
    (hg : g = gm 5 (prelude p).ksq dst 6) : (g.piece == 0) = p.p0.isSet g.mv.src := by
  subst hg
  rw [prelude_ksq]
  rcases lsb_cases (p.p5 &&& p.c0) with h64 | hk
  · simp [BB.isSet, gm, h64]
  · simp only [BitVec.getLsbD_and, Bool.and_eq_true] at hk
    exact piece_tag h (by decide) rfl hk.2 (by simp [BitVec.getLsbD_or, hk.1])

theorem src_tag (p : Position) (h : OwnPawnsDisjoint p) :
    ∀ g ∈ moveGenerator p, (g.piece == 0) = p.p0.isSet g.mv.src := by
  intro g hg
  unfold moveGenerator at hg
  simp only [List.mem_append, List.mem_flatMap, List.mem_map, mem_toList] at hg
  rcases hg with ((((((((((((((⟨a, ha, hga⟩ | ⟨a, ha, hga⟩) | ⟨a, ha, hga⟩) | ⟨a, ha, hga⟩) | hep) |
    ⟨a, ha, b, -, hga⟩) | ⟨a, ha, b, -, hga⟩) | ⟨a, ha, b, -, hga⟩) | ⟨a, ha, b, -, hga⟩) |
    ⟨a, ha, b, -, hga⟩) | ⟨a, ha, b, -, hga⟩) | ⟨a, ha, b, -, hga⟩) | ⟨a, ha, b, -, hga⟩) |
    ⟨a, ha, b, -, hga⟩) | hc) | hc
  · obtain ⟨hp, hs⟩ := mem_pawnArrive hga
    simp only [BitVec.getLsbD_and, Bool.and_eq_true] at ha
    have := north_getLsbD _ _ ha.1.1
    simp only [BitVec.getLsbD_and, Bool.and_eq_true] at this
    exact pawn_tag hp hs this.1.1
  · simp only [BitVec.getLsbD_and, Bool.and_eq_true] at ha
    have := northNorth_getLsbD _ _ ha.1.1.1.1
    simp only [BitVec.getLsbD_and, Bool.and_eq_true] at this
    subst hga
    exact pawn_tag rfl rfl this.1.1
  · obtain ⟨hp, hs⟩ := mem_pawnArrive hga
    simp only [BitVec.getLsbD_and, Bool.and_eq_true] at ha
    have := eastNorth_getLsbD _ _ ha.1.1
    simp only [BitVec.getLsbD_and, Bool.and_eq_true] at this
    exact pawn_tag hp hs this.1.1.1
  · obtain ⟨hp, hs⟩ := mem_pawnArrive hga
    simp only [BitVec.getLsbD_and, Bool.and_eq_true] at ha
    have := northWest_getLsbD _ _ ha.1.1
    simp only [BitVec.getLsbD_and, Bool.and_eq_true] at this
    exact pawn_tag hp hs this.1.1.1
  · split at hep
    · cases hep
    · simp only [List.mem_append] at hep
      rcases hep with hep | hep <;> split at hep
      · simp only [List.mem_singleton] at hep
        rename_i hc
        simp only [Bool.and_eq_true, BB.isSet] at hc
        have := northEast_getLsbD _ _ hc.1
        simp only [BitVec.getLsbD_and, Bool.and_eq_true] at this
        subst hep
        exact pawn_tag rfl rfl this.1.1.1
      · cases hep
      · simp only [List.mem_singleton] at hep
        rename_i hc
        simp only [Bool.and_eq_true, BB.isSet] at hc
        have := northWest_getLsbD _ _ hc.1
        simp only [BitVec.getLsbD_and, Bool.and_eq_true] at this
        subst hep
        exact pawn_tag rfl rfl this.1.1.1
      · cases hep
  all_goals first
    | (simp only [BitVec.getLsbD_and, Bool.and_eq_true] at ha
       first
        | exact piece_tag h (by decide) hga ha.1.2 (by simp [BitVec.getLsbD_or, ha.1.1])
        | exact piece_tag h (by decide) hga ha.2 (by simp [BitVec.getLsbD_or, ha.1]))
    | (split at hc
       · exact castle_tag h (List.mem_singleton.mp hc)
       · cases hc)
end Rawr
