import Rawr.Proofs.MagicCheck
/-! C10 table check, part 1 of 16: 7168 rows, each one evaluated by the kernel.
The partition into modules balances row counts and depends on board geometry only; the statements do
not mention any table content, so a changed table or magic makes these proofs fail. -/
namespace Rawr.MagicTable
theorem rook_11 : checkR 11 = true := by decide +kernel
theorem rook_33 : checkR 33 = true := by decide +kernel
theorem rook_53 : checkR 53 = true := by decide +kernel
theorem rook_56 : checkR 56 = true := by decide +kernel
end Rawr.MagicTable
