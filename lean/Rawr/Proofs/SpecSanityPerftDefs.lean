import Rawr.Spec.Chess
/-!
# Sanity of the specification, part 5: literal test positions

Positions with a *frozen* board (a balanced tree of comparisons over literal rows), so that the kernel can
evaluate the rules of `Rawr/Spec/Chess.lean` on them. Squares are `file + 8 * rank`, rank 0 = White's
first rank; rows are listed from rank 1 to rank 8, files a to h.
-/
namespace Rawr.SpecS
open Rawr.Spec

abbrev wP : Option Piece := some ⟨true, .pawn⟩
abbrev wN : Option Piece := some ⟨true, .knight⟩
abbrev wB : Option Piece := some ⟨true, .bishop⟩
abbrev wR : Option Piece := some ⟨true, .rook⟩
abbrev wQ : Option Piece := some ⟨true, .queen⟩
abbrev wK : Option Piece := some ⟨true, .king⟩
abbrev bP : Option Piece := some ⟨false, .pawn⟩
abbrev bN : Option Piece := some ⟨false, .knight⟩
abbrev bB : Option Piece := some ⟨false, .bishop⟩
abbrev bR : Option Piece := some ⟨false, .rook⟩
abbrev bQ : Option Piece := some ⟨false, .queen⟩
abbrev bK : Option Piece := some ⟨false, .king⟩
abbrev __ : Option Piece := none

/-- one rank: files a–h. -/
def row8 (a b c d e f g h : Option Piece) (i : Nat) : Option Piece :=
  if i < 4 then (if i < 2 then (if i < 1 then a else b) else (if i < 3 then c else d))
  else (if i < 6 then (if i < 5 then e else f) else (if i < 7 then g else h))

/-- eight ranks, first rank first; empty off the board. -/
def board8 (r1 r2 r3 r4 r5 r6 r7 r8 : Nat → Option Piece) : Board := fun s =>
  if s < 32 then
    (if s < 16 then (if s < 8 then r1 s else r2 (s - 8)) else (if s < 24 then r3 (s - 16) else r4 (s - 24)))
  else
    (if s < 48 then (if s < 40 then r5 (s - 32) else r6 (s - 40))
     else (if s < 56 then r7 (s - 48) else if s < 64 then r8 (s - 56) else none))

theorem board8_off (r1 r2 r3 r4 r5 r6 r7 r8 : Nat → Option Piece) (s : Nat) (h : 64 ≤ s) :
    board8 r1 r2 r3 r4 r5 r6 r7 r8 s = none := by
  unfold board8
  rw [if_neg (by omega), if_neg (by omega), if_neg (by omega), if_neg (by omega)]

/-- `rnbqkbnr/pppppppp/8/8/8/8/PPPPPPPP/RNBQKBNR w KQkq - 0 1` — the standard start position -/
def stdStart : APos :=
  { board := board8
      (row8 wR wN wB wQ wK wB wN wR)
      (row8 wP wP wP wP wP wP wP wP)
      (row8 __ __ __ __ __ __ __ __)
      (row8 __ __ __ __ __ __ __ __)
      (row8 __ __ __ __ __ __ __ __)
      (row8 __ __ __ __ __ __ __ __)
      (row8 bP bP bP bP bP bP bP bP)
      (row8 bR bN bB bQ bK bB bN bR)
    whiteToMove := true, wK := (some 7), wQ := (some 0), bK := (some 7), bQ := (some 0),
    ep := none, half := 0, full := 1 }

/-- `r3k2r/p1ppqpb1/bn2pnp1/3PN3/1p2P3/2N2Q1p/PPPBBPPP/R3K2R w KQkq - 0 1` — "Kiwipete" (position 2 of the chessprogramming perft page) -/
def kiwipete : APos :=
  { board := board8
      (row8 wR __ __ __ wK __ __ wR)
      (row8 wP wP wP wB wB wP wP wP)
      (row8 __ __ wN __ __ wQ __ bP)
      (row8 __ bP __ __ wP __ __ __)
      (row8 __ __ __ wP wN __ __ __)
      (row8 bB bN __ __ bP bN bP __)
      (row8 bP __ bP bP bQ bP bB __)
      (row8 bR __ __ __ bK __ __ bR)
    whiteToMove := true, wK := (some 7), wQ := (some 0), bK := (some 7), bQ := (some 0),
    ep := none, half := 0, full := 1 }

/-- `8/2p5/3p4/KP5r/1R3p1k/8/4P1P1/8 w - - 0 1` — position 3 of the chessprogramming perft page -/
def cpwPos3 : APos :=
  { board := board8
      (row8 __ __ __ __ __ __ __ __)
      (row8 __ __ __ __ wP __ wP __)
      (row8 __ __ __ __ __ __ __ __)
      (row8 __ wR __ __ __ bP __ bK)
      (row8 wK wP __ __ __ __ __ bR)
      (row8 __ __ __ bP __ __ __ __)
      (row8 __ __ bP __ __ __ __ __)
      (row8 __ __ __ __ __ __ __ __)
    whiteToMove := true, wK := none, wQ := none, bK := none, bQ := none,
    ep := none, half := 0, full := 1 }

/-- `bqnb1rkr/pp3ppp/3ppn2/2p5/5P2/P2P4/NPP1P1PP/BQ1BNRKR w HFhf - 2 9` — Chess960 perft position 1 -/
def frcPos1 : APos :=
  { board := board8
      (row8 wB wQ __ wB wN wR wK wR)
      (row8 wN wP wP __ wP __ wP wP)
      (row8 wP __ __ wP __ __ __ __)
      (row8 __ __ __ __ __ wP __ __)
      (row8 __ __ bP __ __ __ __ __)
      (row8 __ __ __ bP bP bN __ __)
      (row8 bP bP __ __ __ bP bP bP)
      (row8 bB bQ bN bB __ bR bK bR)
    whiteToMove := true, wK := (some 7), wQ := (some 5), bK := (some 7), bQ := (some 5),
    ep := none, half := 2, full := 9 }

/-- `1r4kr/p5pp/8/8/8/8/PPP4P/RK4R1 w GAhb - 0 1` — a Chess960 castling test: White may castle with the g1 and the a1 rook, Black with the h8 and the b8 rook -/
def frcCastle : APos :=
  { board := board8
      (row8 wR wK __ __ __ __ wR __)
      (row8 wP wP wP __ __ __ __ wP)
      (row8 __ __ __ __ __ __ __ __)
      (row8 __ __ __ __ __ __ __ __)
      (row8 __ __ __ __ __ __ __ __)
      (row8 __ __ __ __ __ __ __ __)
      (row8 bP __ __ __ __ __ bP bP)
      (row8 __ bR __ __ __ __ bK bR)
    whiteToMove := true, wK := (some 6), wQ := (some 0), bK := (some 7), bQ := (some 1),
    ep := none, half := 0, full := 1 }

/-- unfolding one ply of `leaves` along a known move list. -/
theorem leaves_succ_of {a : APos} {l : List Move} (h : legalMoves a = l) (d : Nat) :
    leaves a (d + 1) = (l.map fun m => leaves (apply a m) d).sum := by
  rw [← h]; rfl

end Rawr.SpecS
