import Rawr.Proofs.MakeMoveAbsF
/-! C02: from `AbsEq` to equality — outside the 64 squares both boards are empty — so that statements
about `Spec.apply (abs p) mv` transfer verbatim to `abs q`. -/
namespace Rawr.MM
open Rawr Rawr.Position Rawr.Spec Rawr.ZH Rawr.SV

theorem APos.ext' {a b : APos} (h0 : a.board = b.board) (h1 : a.whiteToMove = b.whiteToMove)
    (h2 : a.wK = b.wK) (h3 : a.wQ = b.wQ) (h4 : a.bK = b.bK) (h5 : a.bQ = b.bQ) (h6 : a.ep = b.ep)
    (h7 : a.half = b.half) (h8 : a.full = b.full) : a = b := by
  cases a; cases b
  simp only [APos.mk.injEq]
  exact ⟨h0, h1, h2, h3, h4, h5, h6, h7, h8⟩

/-- the board off the 64 squares. -/
def OffEmpty (B : Board) : Prop := ∀ s, 64 ≤ s → B s = none

theorem offEmpty_abs (p : Position) : OffEmpty (abs p).board := by
  intro s hs
  show absBoard p s = none
  have : ¬ s < 64 := by omega
  simp only [absBoard, this, if_false]

theorem offEmpty_set_none {B : Board} (h : OffEmpty B) (t : Nat) : OffEmpty (setSq B t none) := by
  intro s hs
  unfold setSq
  split
  · rfl
  · exact h s hs

theorem offEmpty_set {B : Board} (h : OffEmpty B) {t : Nat} (ht : t < 64) (v : Option Piece) :
    OffEmpty (setSq B t v) := by
  intro s hs
  unfold setSq
  have : ¬ s = t := by omega
  rw [if_neg this]
  exact h s hs

theorem sq_home_lt (f : Nat) (hf : f < 8) (w : Bool) : sq (f : Int) (homeRank w) < 64 := by
  cases w <;> simp only [sq, homeRank, Bool.false_eq_true, if_false, if_true] <;> omega

/-- `Spec.apply` never puts anything off the board. -/
theorem offEmpty_apply {a : APos} (h : OffEmpty a.board) (mv : Move)
    (ht : ∀ s t pr, mv = .normal s t pr → t < 64) : OffEmpty (apply a mv).board := by
  cases mv with
  | normal s t pr =>
    have ht := ht s t pr rfl
    cases hb : a.board s with
    | none =>
      have : apply a (.normal s t pr) = a := by simp only [apply, hb]
      rw [this]; exact h
    | some pc =>
      rw [apply_normal hb]
      apply offEmpty_set _ ht
      split
      · exact offEmpty_set_none (offEmpty_set_none h _) _
      · exact offEmpty_set_none h _
  | castle ks =>
    cases hr : right a a.whiteToMove ks with
    | none =>
      have : apply a (.castle ks) = a := by simp only [apply, hr]
      rw [this]; exact h
    | some rf =>
      cases hk : kingSquares a.board a.whiteToMove with
      | nil =>
        have : apply a (.castle ks) = a := by simp only [apply, hr, hk]
        rw [this]; exact h
      | cons k l =>
        rw [apply_castle hr hk]
        apply offEmpty_set
        · apply offEmpty_set
          · exact offEmpty_set_none (offEmpty_set_none h _) _
          · cases ks
            · exact sq_home_lt 2 (by omega) _
            · exact sq_home_lt 6 (by omega) _
        · cases ks
          · exact sq_home_lt 3 (by omega) _
          · exact sq_home_lt 5 (by omega) _

theorem eq_of_absEq {a b : APos} (h : AbsEq a b) (ha : OffEmpty a.board) (hb : OffEmpty b.board) : a = b := by
  apply APos.ext' _ h.turn h.wK h.wQ h.bK h.bQ h.ep h.half h.full
  funext s
  by_cases hs : s < 64
  · exact h.board s hs
  · rw [ha s (by omega), hb s (by omega)]

theorem decode_target_lt {p : Position} {m : Mv} (hd : m.dst < 64) (s t : Nat) (pr : Option Kind)
    (h : decodeMove p m = .normal s t pr) : t < 64 := by
  unfold decodeMove at h
  split at h
  · cases h
  · cases h
    exact absSq_lt _ hd

theorem shape_dst_lt {p : Position} {m : Mv} (hm : MoveShape p m = true) : m.src < 64 ∧ m.dst < 64 := by
  unfold MoveShape at hm
  simp only [Bool.and_eq_true, decide_eq_true_eq] at hm
  exact ⟨hm.1.1.1, hm.1.1.2⟩

/-- (1) as an equation. -/
theorem abs_eq_apply {p : Position} {m : Mv} {q : Position} {u : Bool} (hV : ValidPos p = true)
    (hs : MoveShape2 p m = true) (h : p.makemove m u = some q) :
    abs q = Spec.apply (abs p) (decodeMove p m) := by
  have hs' := hs
  simp only [MoveShape2, Bool.and_eq_true] at hs'
  obtain ⟨_, q', _, hq, so⟩ := makemove_out hV hs'.1 u
  rw [hq] at h
  cases h
  exact eq_of_absEq (so.refines hs'.2) (offEmpty_abs _)
    (offEmpty_apply (offEmpty_abs _) _ (decode_target_lt (shape_dst_lt hs'.1).2))

end Rawr.MM
