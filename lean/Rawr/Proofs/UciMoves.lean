import Rawr.Proofs.UciState
/-! Helpers for C05: a declarative description `Denotes pos t m` of "token `t` denotes the legal move `m`"
and the proof that the selection made by `uci::moves::moves` (`denote`) is exactly that;
the trace of positions reached by a token list. -/
namespace Rawr

/-- the rook file designated by a conventional castling string of the MOVER's colour
(`e1g1`/`e1c1` when White is to move, `e8g8`/`e8c8` when Black is), `none` for every other token. -/
def castleFile (pos : Position) (t : List Char) : Option Nat :=
  if t = str "e1g1" then (if pos.black then none else some pos.cf0)
  else if t = str "e1c1" then (if pos.black then none else some pos.cf1)
  else if t = str "e8g8" then (if pos.black then some pos.cf0 else none)
  else if t = str "e8c8" then (if pos.black then some pos.cf1 else none)
  else none

/-- `m` is the first legal move (in generation order) whose `to_uci` string is `t`. -/
def FirstPrinting (pos : Position) (t : List Char) (m : Mv) : Prop :=
  ∃ as bs, legalMoves pos = as ++ m :: bs ∧ toUciChars pos m = t ∧ ∀ x ∈ as, toUciChars pos x ≠ t

/-- no legal move prints as `t`, `t` is a conventional castling string of the mover's colour and
`m` = king E1 takes own rook on the designated file is legal. -/
def CastleAlias (pos : Position) (t : List Char) (m : Mv) : Prop :=
  (∀ x ∈ legalMoves pos, toUciChars pos x ≠ t) ∧
  ∃ file, castleFile pos t = some file ∧ m = ⟨4, fromCoords file 0, 6⟩ ∧ m ∈ legalMoves pos ∧
    pos.c0.isSet m.dst = true

/-- token `t` denotes the legal move `m` in the active notation. -/
def Denotes (pos : Position) (t : List Char) (m : Mv) : Prop := FirstPrinting pos t m ∨ CastleAlias pos t m

theorem FirstPrinting.mem {pos : Position} {t : List Char} {m : Mv} (h : FirstPrinting pos t m) :
    m ∈ legalMoves pos := by
  obtain ⟨as, bs, e, _⟩ := h
  rw [e]; simp

theorem FirstPrinting.prints {pos : Position} {t : List Char} {m : Mv} (h : FirstPrinting pos t m) :
    toUciChars pos m = t := by
  obtain ⟨as, bs, _, e, _⟩ := h
  exact e

theorem Denotes.mem {pos : Position} {t : List Char} {m : Mv} (h : Denotes pos t m) : m ∈ legalMoves pos := by
  rcases h with h | h
  · exact h.mem
  · obtain ⟨_, _, _, _, h, _⟩ := h; exact h

theorem find_iff_first (pos : Position) (t : List Char) (m : Mv) :
    ((legalMoves pos).find? fun m => toUciChars pos m == t) = some m ↔ FirstPrinting pos t m := by
  rw [List.find?_eq_some_iff_append]
  constructor
  · rintro ⟨h1, as, bs, e, h2⟩
    refine ⟨as, bs, e, by simpa using h1, ?_⟩
    intro x hx
    have := h2 x hx
    simpa using this
  · rintro ⟨as, bs, e, h1, h2⟩
    refine ⟨by simpa using h1, as, bs, e, ?_⟩
    intro x hx
    have := h2 x hx
    simpa using this

theorem castleSel_eq_some (pos : Position) (ws : Bool) (file : Nat) (m : Mv) :
    castleSel pos ws file = some m ↔
      ws = !pos.black ∧ m = ⟨4, fromCoords file 0, 6⟩ ∧ m ∈ legalMoves pos ∧ pos.c0.isSet m.dst = true := by
  unfold castleSel
  simp only
  split
  · next h =>
    simp only [Bool.and_eq_true, beq_iff_eq, List.contains_iff_mem] at h
    constructor
    · intro e; cases e; exact ⟨h.1.1, rfl, h.2, h.1.2⟩
    · rintro ⟨_, e, _, _⟩; rw [e]
  · next h =>
    simp only [Bool.and_eq_true, beq_iff_eq, List.contains_iff_mem] at h
    constructor
    · intro e; cases e
    · rintro ⟨a, e, b, c⟩
      subst e
      exact absurd ⟨⟨a, c⟩, b⟩ h

/-- the castling branch of the selection, described through `castleFile`. -/
theorem castleChain_iff (pos : Position) (t : List Char) (m : Mv) :
    (if t == str "e1g1" then castleSel pos true pos.cf0
      else if t == str "e1c1" then castleSel pos true pos.cf1
      else if t == str "e8g8" then castleSel pos false pos.cf0
      else if t == str "e8c8" then castleSel pos false pos.cf1
      else none) = some m ↔
    ∃ file, castleFile pos t = some file ∧ m = ⟨4, fromCoords file 0, 6⟩ ∧ m ∈ legalMoves pos ∧
      pos.c0.isSet m.dst = true := by
  unfold castleFile
  by_cases h1 : t = str "e1g1"
  · subst h1
    simp only [BEq.rfl, if_true, castleSel_eq_some]
    cases pos.black <;> simp
  by_cases h2 : t = str "e1c1"
  · subst h2
    have d1 : (str "e1c1" == str "e1g1") = false := by decide
    have d1' : ¬ str "e1c1" = str "e1g1" := by decide
    simp only [d1, d1', BEq.rfl, if_true, if_false, Bool.false_eq_true, castleSel_eq_some]
    cases pos.black <;> simp
  by_cases h3 : t = str "e8g8"
  · subst h3
    have d1 : (str "e8g8" == str "e1g1") = false := by decide
    have d1' : ¬ str "e8g8" = str "e1g1" := by decide
    have d2 : (str "e8g8" == str "e1c1") = false := by decide
    have d2' : ¬ str "e8g8" = str "e1c1" := by decide
    simp only [d1, d1', d2, d2', BEq.rfl, if_true, if_false, Bool.false_eq_true, castleSel_eq_some]
    cases pos.black <;> simp
  by_cases h4 : t = str "e8c8"
  · subst h4
    have d1 : (str "e8c8" == str "e1g1") = false := by decide
    have d1' : ¬ str "e8c8" = str "e1g1" := by decide
    have d2 : (str "e8c8" == str "e1c1") = false := by decide
    have d2' : ¬ str "e8c8" = str "e1c1" := by decide
    have d3 : (str "e8c8" == str "e8g8") = false := by decide
    have d3' : ¬ str "e8c8" = str "e8g8" := by decide
    simp only [d1, d1', d2, d2', d3, d3', BEq.rfl, if_true, if_false, Bool.false_eq_true, castleSel_eq_some]
    cases pos.black <;> simp
  have b1 : (t == str "e1g1") = false := by simpa using h1
  have b2 : (t == str "e1c1") = false := by simpa using h2
  have b3 : (t == str "e8g8") = false := by simpa using h3
  have b4 : (t == str "e8c8") = false := by simpa using h4
  simp only [b1, b2, b3, b4, h1, h2, h3, h4, if_false, Bool.false_eq_true]
  simp

theorem denote_of_find_some {pos : Position} {t : List Char} {m0 : Mv}
    (hf : ((legalMoves pos).find? fun m => toUciChars pos m == t) = some m0) : denote pos t = some m0 := by
  unfold denote
  rw [hf]

theorem denote_of_find_none {pos : Position} {t : List Char}
    (hf : ((legalMoves pos).find? fun m => toUciChars pos m == t) = none) :
    denote pos t =
      if t == str "e1g1" then castleSel pos true pos.cf0
      else if t == str "e1c1" then castleSel pos true pos.cf1
      else if t == str "e8g8" then castleSel pos false pos.cf0
      else if t == str "e8c8" then castleSel pos false pos.cf1
      else none := by
  unfold denote
  rw [hf]

/-- the selection of `uci::moves::moves` is exactly `Denotes`. -/
theorem denote_eq_some_iff (pos : Position) (t : List Char) (m : Mv) :
    denote pos t = some m ↔ Denotes pos t m := by
  rcases Option.eq_none_or_eq_some ((legalMoves pos).find? fun m => toUciChars pos m == t) with hf | ⟨m0, hf⟩
  · rw [denote_of_find_none hf, castleChain_iff]
    have hn : ∀ x ∈ legalMoves pos, toUciChars pos x ≠ t := by
      intro x hx
      have := List.find?_eq_none.1 hf x hx
      simpa using this
    constructor
    · intro h; exact Or.inr ⟨hn, h⟩
    · rintro (h | h)
      · exact absurd h.prints (hn m h.mem)
      · exact h.2
  · rw [denote_of_find_some hf]
    simp only [Option.some.injEq]
    have f0 := (find_iff_first pos t m0).1 hf
    constructor
    · intro e; subst e; exact Or.inl f0
    · rintro (h | h)
      · have := (find_iff_first pos t m).2 h
        rw [hf] at this
        exact Option.some.inj this
      · exact absurd f0.prints (h.1 m0 f0.mem)

theorem denote_eq_none_iff (pos : Position) (t : List Char) :
    denote pos t = none ↔ ∀ m, ¬ Denotes pos t m := by
  constructor
  · intro h m hm
    rw [← denote_eq_some_iff, h] at hm
    cases hm
  · intro h
    cases hd : denote pos t with
    | none => rfl
    | some m => exact absurd ((denote_eq_some_iff pos t m).1 hd) (h m)

/-- a token denotes at most one move. -/
theorem Denotes.unique {pos : Position} {t : List Char} {m m' : Mv} (h : Denotes pos t m) (h' : Denotes pos t m') :
    m = m' := by
  rw [← denote_eq_some_iff] at h h'
  rw [h] at h'
  exact Option.some.inj h'

/-! ## the positions reached by a token list -/

/-- positions reached after each accepted token, in order (`none` = `makemove` panics on a selected move). -/
def trace : List (List Char) → Position → Option (List Position)
  | [], _ => some []
  | t :: ts, pos =>
    match denote pos t with
    | none => trace ts pos
    | some m =>
      match pos.makemove m true with
      | none => none
      | some np => (trace ts np).map (np :: ·)

/-- the unknown-move reports of a token list, in order. -/
def reports : List (List Char) → Position → List String
  | [], _ => []
  | t :: ts, pos =>
    match denote pos t with
    | none => ("info string unknown move " ++ String.ofList t) :: reports ts pos
    | some m =>
      match pos.makemove m true with
      | none => []
      | some np => reports ts np

/-- `applyTokens` as the left fold of `applyToken` (in the `Option` monad), outputs appended. -/
theorem applyTokens_eq_foldlM (ts : List (List Char)) (pos : Position) (hist : List BB) (out : List String) :
    applyTokens ts pos hist out =
      ts.foldlM (fun (st : Position × List BB × List String) t =>
        (applyToken st.1 st.2.1 t).map fun r => (r.1, r.2.1, st.2.2 ++ r.2.2)) (pos, hist, out) := by
  induction ts generalizing pos hist out with
  | nil => rfl
  | cons t ts ih =>
    simp only [applyTokens, List.foldlM_cons]
    cases applyToken pos hist t with
    | none => rfl
    | some r =>
      obtain ⟨p, h, o⟩ := r
      simp only [Option.map_some, Option.bind_eq_bind, Option.bind_some]
      exact ih p h (out ++ o)

/-- complete description of `applyTokens` through `trace` and `reports`. -/
theorem applyTokens_eq (ts : List (List Char)) (pos : Position) (hist : List BB) (out : List String) :
    applyTokens ts pos hist out =
      (trace ts pos).map fun tr =>
        (tr.getLastD pos, (tr.map (·.hash)).reverse ++ hist, out ++ reports ts pos) := by
  induction ts generalizing pos hist out with
  | nil => simp [applyTokens, trace, reports]
  | cons t ts ih =>
    simp only [applyTokens, applyToken_eq, trace, reports]
    cases hd : denote pos t with
    | none =>
      simp only
      rw [ih]
      cases trace ts pos with
      | none => rfl
      | some tr => simp
    | some m =>
      simp only
      cases hm : pos.makemove m true with
      | none => rfl
      | some np =>
        simp only
        rw [ih]
        cases trace ts np with
        | none => rfl
        | some tr =>
          simp only [Option.map_some, List.append_nil, Option.some.injEq, Prod.mk.injEq, List.map_cons,
            List.reverse_cons, List.append_assoc, List.singleton_append, and_true]
          cases tr <;> simp [List.getLastD]

/-! ## the `position` wrapper -/

/-- the FEN string (already trimmed as `str::trim` does) and the move tokens of a `position` command, as `uci::position` cuts them. -/
def positionArgs (toks : List (List Char)) : List Char × List (List Char) :=
  let (fen, rest) : List Char × List (List Char) :=
    match toks with
    | t :: rest =>
      if t == str "startpos" then (str "startpos", rest.drop 1)
      else if t == str "fen" then
        let fenToks := rest.takeWhile (· != str "moves")
        let after := (rest.dropWhile (· != str "moves")).drop 1
        (fenToks.foldl (fun a b => a ++ b ++ [' ']) [], after)
      else ([], [])
    | [] => ([], [])
  (rustTrim fen, rest)

theorem doPosition_eq (ar : Arith) (s : UState) (toks : List (List Char)) :
    doPosition ar s toks =
      match setFen ar s.pos.frc (positionArgs toks).1 with
      | none => none
      | some p =>
        match applyTokens (positionArgs toks).2 { p with frc := s.pos.frc } [p.hash] [] with
        | none => none
        | some (p, hist, out) => some ({ s with pos := { p with frc := s.frc }, hist := hist }, out) := by
  unfold doPosition positionArgs
  rfl

end Rawr
