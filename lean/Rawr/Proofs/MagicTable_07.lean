import Rawr.Proofs.MagicCheck
/-! C10 table check, part 7 of 16: 6656 rows, each one evaluated by the kernel.
The partition into modules balances row counts and depends on board geometry only; the statements do
not mention any table content, so a changed table or magic makes these proofs fail. -/
namespace Rawr.MagicTable
theorem bishop_27 : checkB 27 = true := by decide +kernel
theorem rook_16 : checkR 16 = true := by decide +kernel
theorem rook_25 : checkR 25 = true := by decide +kernel
theorem rook_45 : checkR 45 = true := by decide +kernel
theorem rook_59 : checkR 59 = true := by decide +kernel
end Rawr.MagicTable
