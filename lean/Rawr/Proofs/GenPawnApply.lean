import Rawr.Proofs.GenPawnSpec
/-!
# C01, pawns, specification side: the board after a pawn move and the check test, in the mover's frame
-/
set_option linter.unusedSimpArgs false
namespace Rawr.Att
open Spec

/-- the piece standing on the target square after a pawn move with promotion field `pr`. -/
def pawnResult (pr : Option Kind) : Piece := ⟨true, match pr with | some k => k | none => .pawn⟩

/-- the relative board after the pawn move `f → t`. -/
def afterPawn (B : Board) (f t : Nat) (pr : Option Kind) : Board :=
  setSq (if (file f != file t && (B t).isNone) = true then setSq (setSq B f none) (sq (file t) (rank f)) none
    else setSq B f none) t (some (pawnResult pr))

theorem framePiece_result (bl : Bool) (pr : Option Kind) :
    framePiece bl (pawnResult pr) = (match pr with | some k => ⟨!bl, k⟩ | none => ⟨!bl, .pawn⟩ : Piece) := by
  unfold pawnResult
  cases pr <;> exact framePiece_us bl _

theorem sq_file_rank_abs (bl : Bool) {f t : Nat} (hf : f < 64) (_ht : t < 64) :
    sq (file t) (rank (absSq bl f)) = absSq bl (sq (file t) (rank f)) := by
  have ft := file_bounds t
  have rf := rank_bounds hf
  have hon : onBoard (file t) (rank f) = true := by rw [onBoard_iff]; omega
  rw [rank_absSq bl hf]
  cases bl
  · rfl
  · simp only [if_true]
    rw [sq_mirror hon]; rfl

/-- the board after a pawn move, as a relative board seen through the frame. -/
theorem apply_pawn_board (p : Position) {f t : Nat} (hf : f < 64) (ht : t < 64)
    (hB : relBoard p f = some ⟨true, .pawn⟩) (pr : Option Kind) :
    (apply (abs p) (.normal (absSq p.black f) (absSq p.black t) pr)).board
      = frameB p.black (afterPawn (relBoard p) f t pr) := by
  have hBa : (abs p).board (absSq p.black f) = some ⟨!p.black, .pawn⟩ := (abs_at_us p f .pawn).mpr hB
  have hsome : ((abs p).board (absSq p.black t)).isSome = !(relBoard p t).isNone := by
    rw [abs_at]; cases relBoard p t <;> rfl
  unfold apply afterPawn
  simp only [hBa, beq_self_eq_true, Bool.true_and, hsome, Bool.not_not, file_absSq p.black hf,
    file_absSq p.black ht, sq_file_rank_abs p.black hf ht]
  have eb : (abs p).board = frameB p.black (relBoard p) := absBoard_eq_frame p
  rw [eb]
  have e1 : ∀ X : Board, setSq (frameB p.black X) (absSq p.black f) none
      = frameB p.black (setSq X f none) := by
    intro X; rw [frameB_setSq]; rfl
  have e2 : ∀ (X : Board) (x : Nat), setSq (frameB p.black X) (absSq p.black x) none
      = frameB p.black (setSq X x none) := by
    intro X x; rw [frameB_setSq]; rfl
  have e3 : ∀ (X : Board) (kd : Kind), setSq (frameB p.black X) (absSq p.black t) (some ⟨!p.black, kd⟩)
        = frameB p.black (setSq X t (some ⟨true, kd⟩)) := by
    intro X kd; rw [frameB_setSq, Option.map_some, framePiece_us]
  by_cases hc : (file f != file t && (relBoard p t).isNone) = true
  · simp only [hc, if_true]
    cases pr <;> (simp only [pawnResult]; rw [e1, e2, e3])
  · have hc' : (file f != file t && (relBoard p t).isNone) = false := Bool.eq_false_iff.mpr hc
    simp only [hc', Bool.false_eq_true, if_false]
    cases pr <;> (simp only [pawnResult]; rw [e1, e3])

/-- the mover's king is where the prelude says, and nowhere else. -/
theorem relKing_unique {p : Position} (hV : ValidPos p = true) (s : Nat) (hs : s < 64) :
    relBoard p s = some ⟨true, .king⟩ ↔ s = lsb (p.p5 &&& p.c0) := by
  have F := kingFacts hV
  constructor
  · intro h
    have h' := (abs_at_us p s .king).mpr h
    exact absSq_inj _ (F.uniq _ (absSq_lt hs) h')
  · intro h; rw [h]; exact F.rel

theorem king_unique_setSq {B : Board} {k : Nat} (h : ∀ s, s < 64 → (B s = some ⟨true, .king⟩ ↔ s = k))
    {x : Nat} (hx : x ≠ k) {v : Option Piece} (hv : v ≠ some ⟨true, .king⟩) :
    ∀ s, s < 64 → (setSq B x v s = some ⟨true, .king⟩ ↔ s = k) := by
  intro s hs
  unfold setSq
  by_cases e : s = x
  · rw [if_pos e]
    constructor
    · intro h'; exact absurd h' hv
    · intro h'; rw [e] at h'; exact absurd h' hx
  · rw [if_neg e]; exact h s hs

/-- check on a board seen through the frame, when the mover's only king stands on `k`. -/
theorem inCheck_framed (bl : Bool) (X : Board) {k : Nat} (hk : k < 64)
    (hX : ∀ s, s < 64 → (X s = some ⟨true, .king⟩ ↔ s = k)) :
    Spec.inCheck (frameB bl X) (!bl) = attackedBy X false k := by
  rw [← absCol_true, inCheck_frame, inCheck_unique X true k hk hX]
  rfl

theorem pawnResult_ne_king {pr : Option Kind} (h : pr ≠ some .king) :
    (some (pawnResult pr) : Option Piece) ≠ some ⟨true, .king⟩ := by
  unfold pawnResult
  intro e
  injection e with e
  injection e with _ e
  cases pr with
  | none => cases e
  | some k => simp only at e; subst e; exact h rfl

end Rawr.Att
