import Rawr.Props.C17
import Rawr.Proofs.SpecSanityMirrorA
/-! The colour mirror of `SpecSanity` is the `Spec.mirrorA` of C17 (where `abs (mirrorSwap p) = Spec.mirrorA (abs p)`
ties it to the engine's representation). -/
namespace Rawr.SpecS

theorem mirrorA_eq_C17 (a : Spec.APos) : Spec.mirrorA a = SpecS.mirrorA a := rfl

end Rawr.SpecS
