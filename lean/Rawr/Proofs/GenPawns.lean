import Rawr.Proofs.GenEp3
import Rawr.Proofs.GenSliders
/-!
# C01, pawn classes: pushes, double pushes, captures, promotions
-/
set_option linter.unusedSimpArgs false
namespace Rawr.Att
open Spec

/-- pseudo-legal pawn moves other than en passant, on the relative board. -/
def PawnPseudoN (B : Board) (f t : Nat) (pr : Option Kind) : Prop :=
  (t = f + 8 ∧ B t = none ∧ PromoR t pr) ∨
  (f / 8 = 1 ∧ t = f + 16 ∧ B (f + 8) = none ∧ B t = none ∧ pr = none) ∨
  (((t = f + 7 ∧ f % 8 ≠ 0) ∨ (t = f + 9 ∧ f % 8 ≠ 7)) ∧ ∃ q, B t = some q ∧ q.white = false ∧ PromoR t pr)

/-- the en-passant clause of `PawnPseudo`. -/
def PawnPseudoE (B : Board) (ep : Option Nat) (f t : Nat) (pr : Option Kind) : Prop :=
  ((t = f + 7 ∧ f % 8 ≠ 0) ∨ (t = f + 9 ∧ f % 8 ≠ 7)) ∧ B t = none ∧ ep = some t ∧ pr = none

theorem pawnPseudo_split (B : Board) (ep : Option Nat) (f t : Nat) (pr : Option Kind) :
    PawnPseudo B ep f t pr ↔ (PawnPseudoN B f t pr ∨ PawnPseudoE B ep f t pr) := by
  unfold PawnPseudo PawnPseudoN PawnPseudoE
  constructor
  · rintro (h | h | ⟨hg, h | h⟩)
    · exact Or.inl (Or.inl h)
    · exact Or.inl (Or.inr (Or.inl h))
    · exact Or.inl (Or.inr (Or.inr ⟨hg, h⟩))
    · exact Or.inr ⟨hg, h⟩
  · rintro ((h | h | ⟨hg, h⟩) | ⟨hg, h⟩)
    · exact Or.inl h
    · exact Or.inr (Or.inl h)
    · exact Or.inr (Or.inr ⟨hg, Or.inl h⟩)
    · exact Or.inr (Or.inr ⟨hg, Or.inr h⟩)

theorem promoR_ne_king {t : Nat} {pr : Option Kind} (h : PromoR t pr) : pr ≠ some .king := by
  unfold PromoR at h
  split at h
  · obtain ⟨k, hk, rfl⟩ := h
    intro e; injection e with e; subst e
    simp [promoKinds] at hk
  · rw [h]; exact fun e => by cases e

/-- spec legality of a pawn move other than en passant, through the safety lemma. -/
theorem legal_pawn_iff {p : Position} (hV : ValidPos p = true) {f t : Nat} (hf : f < 64) (ht : t < 64)
    (hB : relBoard p f = some ⟨true, .pawn⟩) (pr : Option Kind) (hN : PawnPseudoN (relBoard p) f t pr) :
    Move.normal (absSq p.black f) (absSq p.black t) pr ∈ Spec.legalMoves (abs p) ↔
      ((prelude p).allowed.getLsbD t = true ∧ PinOk p f t) := by
  have hC := valid_consistent hV
  have KF := kingFacts hV
  have hus := own_of_rel hC hf hB
  have hpseudo : Move.normal (absSq p.black f) (absSq p.black t) pr ∈
      pseudoFrom (abs p) (absSq p.black f) := by
    rw [pseudo_pawn_rel p hf hB]
    exact ⟨t, ht, rfl, (pawnPseudo_split _ _ _ _ _).mpr (Or.inl hN)⟩
  have hft : t ≠ f := by
    rcases hN with ⟨h, _⟩ | ⟨_, h, _⟩ | ⟨h | h, _⟩ <;> omega
  have hcond : (file f != file t && (relBoard p t).isNone) = false := by
    rcases hN with ⟨h, _⟩ | ⟨_, h, _⟩ | ⟨_, q, hq, _⟩
    · have : file f = file t := by unfold file; omega
      simp [this]
    · have : file f = file t := by unfold file; omega
      simp [this]
    · rw [hq]; simp
  have hpr : pr ≠ some .king := by
    rcases hN with ⟨_, _, h⟩ | ⟨_, _, _, _, h⟩ | ⟨_, q, _, _, h⟩
    · exact promoR_ne_king h
    · rw [h]; exact fun e => by cases e
    · exact promoR_ne_king h
  have htk : t ≠ lsb (p.p5 &&& p.c0) := by
    intro e
    have hk := KF.rel
    rw [← e] at hk
    rcases hN with ⟨_, h, _⟩ | ⟨_, _, _, h, _⟩ | ⟨_, q, hq, hw, _⟩
    · rw [h] at hk; cases hk
    · rw [h] at hk; cases hk
    · rw [hq] at hk; injection hk with hk; rw [hk] at hw; cases hw
  have hfk : f ≠ lsb (p.p5 &&& p.c0) := by
    intro e; have hk := KF.rel; rw [← e, hB] at hk; cases hk
  have hto : p.c0.getLsbD t = false := by
    rcases hN with ⟨_, h, _⟩ | ⟨_, _, _, h, _⟩ | ⟨_, q, hq, hw, _⟩
    · exact own_of_none hC ht h
    · exact own_of_none hC ht h
    · exact own_not_enemy hC ht hq hw
  have hboard : afterPawn (relBoard p) f t pr
      = setSq (setSq (relBoard p) f none) t (some (pawnResult pr)) := by
    unfold afterPawn
    rw [hcond]; rfl
  have hk : ∀ s, s < 64 → (setSq (setSq (relBoard p) f none) t (some (pawnResult pr)) s
      = some ⟨true, .king⟩ ↔ s = lsb (p.p5 &&& p.c0)) :=
    king_unique_setSq (king_unique_setSq (relKing_unique hV) hfk (by simp)) htk (pawnResult_ne_king hpr)
  rw [mem_legal_normal, apply_pawn_board p hf ht hB, hboard]
  have ew : (abs p).whiteToMove = !p.black := rfl
  rw [ew, inCheck_framed p.black _ KF.k64 hk,
    safe_after_move_rel hV hf ht hus hft hto (pawnResult pr) rfl]
  exact ⟨fun h => h.2, fun h => ⟨⟨absSq_lt hf, hpseudo⟩, h⟩⟩

/-! ### the pin conditions of the pawn blocks -/

theorem at_north {f t m : Nat} (htm : t = f + 8 * m) : At f dN m t := by
  unfold At dN file rank
  subst htm
  constructor
  · simp only [Int.zero_mul, Int.add_zero]; omega
  · simp only [Int.one_mul]; omega

theorem onRay_north {f x i : Nat} (h : OnRay f dN i x) : x = f + 8 * i := by
  unfold OnRay dN file rank at h
  simp only [Int.zero_mul, Int.add_zero, Int.one_mul] at h
  omega

/-- a pawn push (one or two squares over empty squares) respects the pins iff the pawn is neither pinned
along its rank nor along a diagonal. -/
theorem pinOk_push {p : Position} (hV : ValidPos p = true) {f t m : Nat} (hf : f < 64) (ht : t < 64)
    (hus : p.c0.getLsbD f = true) (hm1 : 1 ≤ m) (htm : t = f + 8 * m)
    (hclr : ∀ i, 1 ≤ i → i ≤ m → relBoard p (f + 8 * i) = none) :
    PinOk p f t ↔ ((prelude p).hpinned.getLsbD f = false ∧ (prelude p).bpinned.getLsbD f = false) := by
  have KF := kingFacts hV
  have hAt : At f dN m t := at_north htm
  have hN : dN ∈ orth := by simp [orth_eq]
  constructor
  · intro hok
    constructor
    · cases hh : (prelude p).hpinned.getLsbD f
      · rfl
      · exfalso
        obtain ⟨d0, hd0, h1, _, s0, h2, hch⟩ := (prelude_hpinned hV f).mp hh
        have hd0' : d0 ∈ orth := by
          simp only [List.mem_cons, List.not_mem_nil, or_false] at hd0
          rcases hd0 with rfl | rfl <;> simp [orth_eq]
        rw [← sliders_orth p hd0'] at hch
        have := pinOk_move_dir (mem_dirs8_orth hd0') h1 h2 hch hok good_N hm1 hAt
        simp only [List.mem_cons, List.not_mem_nil, or_false] at hd0
        rcases hd0 with rfl | rfl <;> rcases this with h | h <;> exact absurd h (by decide)
    · cases hb : (prelude p).bpinned.getLsbD f
      · rfl
      · exact absurd hok (bpinned_not_pinOk_orth hV hb hN hm1 hAt)
  · rintro ⟨hh, hb⟩
    cases hpin : (prelude p).pinned.getLsbD f
    · exact pinOk_of_not_pinned hV hus hpin t
    · rcases (prelude_pinned hV f).mp hpin with ⟨d0, hd0, hr⟩ | ⟨d0, hd0, h1, hus', s0, h2, hch⟩
      · have := (prelude_bpinned hV f).mpr ⟨d0, hd0, hr⟩
        rw [hb] at this; cases this
      · have hch' := hch
        rw [← sliders_orth p hd0] at hch'
        rw [pinOk_iff_line (mem_dirs8_orth hd0) t h1 h2 hch']
        have hd0' := hd0
        simp only [orth_eq, List.mem_cons, List.not_mem_nil, or_false] at hd0'
        rcases hd0' with rfl | rfl | rfl | rfl
        · have := (prelude_hpinned hV f).mpr ⟨dE, by simp, h1, hus', s0, h2, hch⟩
          rw [hh] at this; cases this
        · have := (prelude_hpinned hV f).mpr ⟨dW, by simp, h1, hus', s0, h2, hch⟩
          rw [hh] at this; cases this
        · right
          exact rayHit_of_pts good_N hf ht hm1 hAt fun i x hi1 hi2 hx => by
            rw [onRay_north hx]; exact hclr i hi1 (by omega)
        · left
          obtain ⟨j, hj1, hjf, hjc⟩ := (rayHit_pts _ good_S KF.k64 hf).mp h1
          have hkf : lsb (p.p5 &&& p.c0) = f + 8 * j := by
            unfold OnRay dS file rank at hjf
            simp only [Int.zero_mul, Int.add_zero] at hjf
            have := KF.k64
            omega
          have hjm : m < j := by
            apply Classical.byContradiction
            intro hn
            have := hclr j hj1 (by omega)
            rw [← hkf, KF.rel] at this; cases this
          refine rayHit_of_pts good_S KF.k64 ht (n := j - m) (by omega) ?_ fun i x hi1 hi2 hx =>
            hjc i x hi1 (by omega) hx
          unfold OnRay dS file rank at hjf ⊢
          simp only [Int.zero_mul, Int.add_zero] at hjf ⊢
          omega

/-- a pawn capture respects the pins iff the pawn is not pinned along a rank or file and, if pinned on a
diagonal, captures along that diagonal (the target is in `bxrays`). -/
theorem pinOk_cap {p : Position} (hV : ValidPos p = true) {f t : Nat} (ht : t < 64)
    (hus : p.c0.getLsbD f = true) {e : Int × Int} (he : e ∈ diag) (hAt : At f e 1 t)
    (htk : t ≠ lsb (p.p5 &&& p.c0)) :
    PinOk p f t ↔ ((prelude p).rpinned.getLsbD f = false ∧
      ((prelude p).bpinned.getLsbD f = false ∨ (prelude p).bxrays.getLsbD t = true)) := by
  have hnj : ∀ i' : Nat, 1 ≤ i' → i' < 1 → pt f e i' ≠ lsb (p.p5 &&& p.c0) := fun i' a b => by omega
  constructor
  · intro hok
    constructor
    · cases hr : (prelude p).rpinned.getLsbD f
      · rfl
      · exact absurd hok (rpinned_not_pinOk_diag hV hr he (Nat.le_refl 1) hAt)
    · cases hb : (prelude p).bpinned.getLsbD f
      · exact Or.inl rfl
      · exact Or.inr ((bpinned_pinOk_iff hV hb ht htk he (Nat.le_refl 1) hAt hnj).mp hok)
  · rintro ⟨hr, hb⟩
    cases hbp : (prelude p).bpinned.getLsbD f
    · apply pinOk_of_not_pinned hV hus
      rw [prelude_pinned_eq, BitVec.getLsbD_or, hbp, hr]; rfl
    · rcases hb with hb | hb
      · rw [hbp] at hb; cases hb
      · exact (bpinned_pinOk_iff hV hbp ht htk he (Nat.le_refl 1) hAt hnj).mpr hb

end Rawr.Att
