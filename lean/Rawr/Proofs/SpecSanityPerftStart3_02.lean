import Rawr.Proofs.SpecSanityPerftDefs
/-! perft of the start position, depth 3, slice 02: the subtree of first move `.normal 6 21 none` (kernel-evaluated). -/
namespace Rawr.SpecS
open Rawr.Spec

theorem start3_02 : leaves (apply stdStart (.normal 6 21 none)) 2 = 440 := by decide +kernel

end Rawr.SpecS
