import Rawr.Proofs.SpecSanityKings
import Rawr.Proofs.SpecMirror
/-!
# Sanity of the specification, part 4 (c): in a double check only the king moves

If two different enemy men attack the king of the side to move, every legal move is a move of that king
(capturing one checker leaves the other; a single interposition cannot shut two lines; castling is not
allowed in check). Geometry from `AttackGeom.lean` (`Between`, `clearBetween_iff`); no engine model.
-/
namespace Rawr.SpecS
open Rawr.Spec Rawr.Att Rawr.SV

/-! ### the squares a slider's attack depends on -/

theorem clearBetween_empty {B : Board} {s t x : Nat} (hc : clearBetween B s t = true) (hb : Between s t x) :
    B x = none := by
  obtain ⟨⟨a, b⟩, k, j, ⟨ha, hb', hab⟩, h1, h2, hf, hr, hxf, hxr⟩ := hb
  dsimp only at ha hb' hab hf hr hxf hxr
  have := (clearBetween_iff B ha hb' hab s t k (by omega) hf hr).mp hc j h1 h2
  rw [← hxf, ← hxr, Att.sq_file_rank] at this
  simpa using this

theorem clearBetween_mono (B B' : Board) (dirs : List (Int × Int)) (hd : ∀ d ∈ dirs, GoodDir d)
    (s t : Nat) (hs : s < 64) (ht : t < 64) (hal : Aligned dirs s t)
    (h : ∀ x, x < 64 → Between s t x → B x = none → B' x = none)
    (hc : clearBetween B s t = true) : clearBetween B' s t = true := by
  obtain ⟨d, hdm, k, hk, hf, hr⟩ := hal
  obtain ⟨ha, hb, hab⟩ := hd d hdm
  obtain ⟨a, b⟩ := d
  dsimp only at ha hb hab hf hr
  have fs := file_bounds s
  have rs := rank_bounds hs
  have ft := file_bounds t
  have rt := rank_bounds ht
  rw [clearBetween_iff B ha hb hab s t k hk hf hr] at hc
  rw [clearBetween_iff B' ha hb hab s t k hk hf hr]
  intro j h1 h2
  have hon : onBoard (file s + a * j) (rank s + b * j) = true := by
    rw [onBoard_iff]
    rcases ha with rfl | rfl | rfl <;> rcases hb with rfl | rfl | rfl <;> omega
  have := h _ (onBoard_lt hon) ⟨(a, b), k, j, ⟨ha, hb, hab⟩, h1, h2, hf, hr, file_sq hon, rank_sq hon⟩
    (by simpa using hc j h1 h2)
  rw [this]; rfl

/-- an attack survives when the squares between attacker and target only lose men. -/
theorem pieceAttacks_mono (B B' : Board) (s t : Nat) (hs : s < 64) (ht : t < 64) (pc : Piece)
    (h : ∀ x, x < 64 → Between s t x → B x = none → B' x = none)
    (ha : pieceAttacks B s pc t = true) : pieceAttacks B' s pc t = true := by
  rw [pieceAttacks_split] at ha ⊢
  have hdg : diagAtt B s t = true → diagAtt B' s t = true := by
    rw [diagAtt_iff, diagAtt_iff]
    rintro ⟨h1, h2⟩
    exact ⟨h1, clearBetween_mono B B' diag goodDir_diag s t hs ht h1 h h2⟩
  have hor : orthAtt B s t = true → orthAtt B' s t = true := by
    rw [orthAtt_iff, orthAtt_iff]
    rintro ⟨h1, h2⟩
    exact ⟨h1, clearBetween_mono B B' orth goodDir_orth s t hs ht h1 h h2⟩
  cases hk : pc.kind <;> simp only [hk] at ha ⊢
  · exact ha
  · exact ha
  · exact hdg ha
  · exact hor ha
  · rw [Bool.or_eq_true] at ha ⊢
    exact ha.imp hdg hor
  · exact ha

/-- every square strictly between an attacker and the square it attacks is empty (and a leaper has no such
square). -/
theorem attack_path_empty {B : Board} {s t x : Nat} {pc : Piece} (ha : pieceAttacks B s pc t = true)
    (hb : Between s t x) : B x = none := by
  rw [pieceAttacks_split] at ha
  have hdg : diagAtt B s t = true → B x = none := by
    rw [diagAtt_iff]; exact fun h => clearBetween_empty h.2 hb
  have hor : orthAtt B s t = true → B x = none := by
    rw [orthAtt_iff]; exact fun h => clearBetween_empty h.2 hb
  have hgeo : ∃ (a b : Int) (k : Nat), Unit3 a ∧ Unit3 b ∧ 2 ≤ k ∧ file t - file s = a * k ∧ rank t - rank s = b * k := by
    obtain ⟨⟨a, b⟩, k, j, ⟨ha', hb', _⟩, h1, h2, hf, hr, _, _⟩ := hb
    dsimp only at ha' hb' hf hr
    exact ⟨a, b, k, ha', hb', by omega, by omega, by omega⟩
  cases hk : pc.kind <;> simp only [hk] at ha
  · exfalso
    obtain ⟨a, b, k, ha', hb', hk2, hf, hr⟩ := hgeo
    simp only [pawnStep, Bool.and_eq_true, beq_iff_eq] at ha
    rw [hf] at ha
    rcases ha' with rfl | rfl | rfl <;> omega
  · exfalso
    obtain ⟨a, b, k, ha', hb', hk2, hf, hr⟩ := hgeo
    simp only [knightStep, Bool.or_eq_true, Bool.and_eq_true, beq_iff_eq] at ha
    rw [hf, hr] at ha
    rcases ha' with rfl | rfl | rfl <;> rcases hb' with rfl | rfl | rfl <;> omega
  · exact hdg ha
  · exact hor ha
  · rw [Bool.or_eq_true] at ha
    exact ha.elim hdg hor
  · exfalso
    obtain ⟨a, b, k, ha', hb', hk2, hf, hr⟩ := hgeo
    simp only [kingStep, beq_iff_eq] at ha
    rw [hf, hr] at ha
    rcases ha' with rfl | rfl | rfl <;> rcases hb' with rfl | rfl | rfl <;> omega

/-! ### geometry of two lines through one square -/

theorem unit_mul_eq {a a' : Int} (ha : Unit3 a) (ha' : Unit3 a') {m m' : Nat} (hm : 1 ≤ m) (hm' : 1 ≤ m')
    (h : a * m = a' * m') : a = a' ∧ (a ≠ 0 → m = m') := by
  rcases ha with rfl | rfl | rfl <;> rcases ha' with rfl | rfl | rfl <;> omega

/-- two different squares from which lines to `k` pass through the same square `t` lie on one ray from `k`:
one of them is strictly between the other and `k`. -/
theorem between_same_ray {c1 c2 k t : Nat} (h1 : Between c1 k t) (h2 : Between c2 k t) (hne : c1 ≠ c2) :
    Between c1 k c2 ∨ Between c2 k c1 := by
  obtain ⟨⟨a1, b1⟩, n1, j1, ⟨ha1, hb1, hab1⟩, p1, q1, hf1, hr1, tf1, tr1⟩ := h1
  obtain ⟨⟨a2, b2⟩, n2, j2, ⟨ha2, hb2, hab2⟩, p2, q2, hf2, hr2, tf2, tr2⟩ := h2
  dsimp only at ha1 hb1 hab1 hf1 hr1 tf1 tr1 ha2 hb2 hab2 hf2 hr2 tf2 tr2
  -- the step from `t` to `k`
  obtain ⟨m1, hm1⟩ : ∃ m1 : Nat, m1 = n1 - j1 := ⟨_, rfl⟩
  obtain ⟨m2, hm2⟩ : ∃ m2 : Nat, m2 = n2 - j2 := ⟨_, rfl⟩
  have ef : a1 * m1 = a2 * m2 := by
    have e1 : a1 * (m1 : Int) = a1 * n1 - a1 * j1 := by
      rw [hm1, Int.natCast_sub (by omega), Int.mul_sub]
    have e2 : a2 * (m2 : Int) = a2 * n2 - a2 * j2 := by
      rw [hm2, Int.natCast_sub (by omega), Int.mul_sub]
    omega
  have er : b1 * m1 = b2 * m2 := by
    have e1 : b1 * (m1 : Int) = b1 * n1 - b1 * j1 := by
      rw [hm1, Int.natCast_sub (by omega), Int.mul_sub]
    have e2 : b2 * (m2 : Int) = b2 * n2 - b2 * j2 := by
      rw [hm2, Int.natCast_sub (by omega), Int.mul_sub]
    omega
  obtain ⟨ea, ma⟩ := unit_mul_eq ha1 ha2 (by omega) (by omega) ef
  obtain ⟨eb, mb⟩ := unit_mul_eq hb1 hb2 (by omega) (by omega) er
  subst ea eb
  have hmm : m1 = m2 := by
    rcases hab1 with h | h
    · exact ma h
    · exact mb h
  have hnn : n1 ≠ n2 := by
    intro e
    apply hne
    apply eq_of_file_rank <;> (subst e; omega)
  rcases Nat.lt_or_gt_of_ne hnn with hlt | hgt
  · -- c1 is nearer to k: it lies between c2 and k
    right
    refine ⟨(a1, b1), n2, n2 - n1, ⟨ha1, hb1, hab1⟩, by omega, by omega, hf2, hr2, ?_, ?_⟩
    · dsimp only
      rw [Int.natCast_sub (by omega), Int.mul_sub]; omega
    · dsimp only
      rw [Int.natCast_sub (by omega), Int.mul_sub]; omega
  · left
    refine ⟨(a1, b1), n1, n1 - n2, ⟨ha1, hb1, hab1⟩, by omega, by omega, hf1, hr1, ?_, ?_⟩
    · dsimp only
      rw [Int.natCast_sub (by omega), Int.mul_sub]; omega
    · dsimp only
      rw [Int.natCast_sub (by omega), Int.mul_sub]; omega

/-! ### checkers -/

/-- `c` holds an enemy man that attacks square `k`. -/
def Checker (a : APos) (k c : Nat) : Prop :=
  c < 64 ∧ ∃ pc, a.board c = some pc ∧ pc.white = (!a.whiteToMove) ∧ pieceAttacks a.board c pc k = true

theorem attackedBy_iff (B : Board) (w : Bool) (k : Nat) :
    attackedBy B w k = true ↔ ∃ c, c < 64 ∧ ∃ pc, B c = some pc ∧ pc.white = w ∧ pieceAttacks B c pc k = true := by
  unfold attackedBy squares
  simp only [List.any_eq_true, List.mem_range]
  constructor
  · rintro ⟨c, hc, h⟩
    cases hb : B c with
    | none => rw [hb] at h; cases h
    | some pc =>
      rw [hb] at h
      simp only [Bool.and_eq_true, beq_iff_eq] at h
      exact ⟨c, hc, pc, hb, h.1, h.2⟩
  · rintro ⟨c, hc, pc, hb, hw, ha⟩
    refine ⟨c, hc, ?_⟩
    rw [hb]
    simp only [Bool.and_eq_true, beq_iff_eq]
    exact ⟨hw, ha⟩

/-- with a single king on `k`: in check iff some enemy man attacks `k`. -/
theorem inCheck_iff_checker {a : APos} {k : Nat} (hk : kingSquares a.board a.whiteToMove = [k]) :
    inCheck a.board a.whiteToMove = true ↔ ∃ c, Checker a k c := by
  unfold inCheck
  rw [hk]
  simp only [List.any_cons, List.any_nil, Bool.or_false]
  exact attackedBy_iff _ _ _

/-- what a legal move of a man other than the king does about one checker: it captures it (on the target,
or en passant), or it lands on a square strictly between the checker and the king. -/
theorem checker_fate {a : APos} {s t k c : Nat} {pr : Option Kind} {pc : Piece} (v : ValidFacts a)
    (nl : NormalLegal a s t pr pc) (hkd : pc.kind ≠ .king) (uk : UniqueKing a.board a.whiteToMove k)
    (hsafe : inCheck (newBoard a s t pr pc) a.whiteToMove = false) (hc : Checker a k c) :
    c = t ∨ (isEpB a s t pc = true ∧ c = sq (file t) (rank s)) ∨ (Between c k t ∧ a.board t = none) := by
  obtain ⟨hc64, pcc, hbc, hcw, hatt⟩ := hc
  by_cases h1 : c = t
  · exact Or.inl h1
  by_cases h2 : isEpB a s t pc = true ∧ c = sq (file t) (rank s)
  · exact Or.inr (Or.inl h2)
  right; right
  have hcs : c ≠ s := by
    intro e
    subst e
    rw [nl.hpc] at hbc
    have := Option.some.inj hbc
    subst this
    have := nl.hw
    rw [hcw] at this
    cases hw : a.whiteToMove <;> simp [hw] at this
  have hnb : newBoard a s t pr pc c = some pcc := by
    rw [newBoard_other h1, if_neg hcs, if_neg h2]; exact hbc
  have hks := kingSquares_of_unique (king_stays v nl uk (Or.inr hkd))
  unfold inCheck at hsafe
  rw [hks] at hsafe
  simp only [List.any_cons, List.any_nil, Bool.or_false] at hsafe
  have hna : pieceAttacks (newBoard a s t pr pc) c pcc k = false := by
    cases hp : pieceAttacks (newBoard a s t pr pc) c pcc k with
    | false => rfl
    | true =>
      have : attackedBy (newBoard a s t pr pc) (!a.whiteToMove) k = true :=
        (attackedBy_iff _ _ _).mpr ⟨c, hc64, pcc, hnb, hcw, hp⟩
      rw [hsafe] at this; cases this
  apply Classical.byContradiction
  intro hcon
  have := pieceAttacks_mono a.board (newBoard a s t pr pc) c k hc64 uk.1 pcc (by
    intro x hx hbx hbn
    by_cases hxt : x = t
    · subst hxt
      exact absurd ⟨hbx, hbn⟩ hcon
    · rw [newBoard_other hxt]
      split
      · rfl
      · split
        · rfl
        · exact hbn) hatt
  rw [hna] at this; cases this

/-- an en-passant capture cannot at the same time remove a checking pawn and shut the line of another
checker: the capturing pawn lands a knight's move away from the king. -/
theorem ep_no_block {a : APos} {s t k c2 : Nat} {pr : Option Kind} {pc : Piece}
    (nl : NormalLegal a s t pr pc) (hE : isEpB a s t pc = true)
    (hatt : pieceAttacks a.board (sq (file t) (rank s)) ⟨!a.whiteToMove, .pawn⟩ k = true)
    (hb : Between c2 k t) : False := by
  have hE' := hE
  simp only [isEpB, Bool.and_eq_true, beq_iff_eq, bne_iff_ne, ne_eq, Bool.not_eq_true', Option.isSome_eq_false_iff,
    Option.isNone_iff_eq_none] at hE'
  obtain ⟨⟨hk, hf⟩, hn⟩ := hE'
  obtain ⟨_, hr⟩ := nl.epT hk hn (fun e => hf e.symm)
  have hbs := file_rank_bounds s nl.hs
  have hbt := file_rank_bounds t nl.ht
  have hob : onBoard (file t) (rank s) = true := by rw [onBoard_iff]; omega
  simp only [pieceAttacks, file_sq hob, rank_sq hob, Bool.and_eq_true, beq_iff_eq] at hatt
  obtain ⟨⟨a', b'⟩, n, j, ⟨ha, hb', _⟩, p, q, kf, kr, tf, tr⟩ := hb
  dsimp only at ha hb' kf kr tf tr
  obtain ⟨m, hm⟩ : ∃ m : Nat, m = n - j := ⟨_, rfl⟩
  have ef : file k - file t = a' * m := by
    rw [hm, Int.natCast_sub (by omega), Int.mul_sub]; omega
  have er : rank k - rank t = b' * m := by
    rw [hm, Int.natCast_sub (by omega), Int.mul_sub]; omega
  have hw := nl.hw
  have hd := pdir_cases pc.white
  rw [hw] at hd hr
  rcases ha with rfl | rfl | rfl <;> rcases hb' with rfl | rfl | rfl <;>
    cases hwm : a.whiteToMove <;> simp [hwm, pdir] at hatt hr <;> omega

/-- **double check: only the king moves.** -/
theorem double_check_king_move {a : APos} (hv : Valid a = true) {k c1 c2 : Nat}
    (hk : kingSquares a.board a.whiteToMove = [k]) (h1 : Checker a k c1) (h2 : Checker a k c2)
    (hne : c1 ≠ c2) {m : Move} (hm : m ∈ legalMoves a) : ∃ t, m = .normal k t none := by
  have v := (valid_iff a).mp hv
  have uk := unique_of_kingSquares hk
  rcases legal_cases hm with ⟨s, t, pr, pc, e, nl, hc⟩ | ⟨ks, e, _⟩
  · subst e
    by_cases hkd : pc.kind = .king
    · have hpc : pc = ⟨a.whiteToMove, .king⟩ := by
        cases pc with
        | mk w kd => simp only [] at hkd; have := nl.hw; simp only [] at this; rw [hkd, this]
      have hs : s = k := uk.2.2 s nl.hs (by rw [nl.hpc, hpc])
      have hpr : pr = none := by
        cases hp : pr with
        | none => rfl
        | some k' => have := (nl.prK k' hp).1; rw [hkd] at this; cases this
      exact ⟨t, by rw [hs, hpr]⟩
    · exfalso
      rw [apply_board nl.hpc] at hc
      have f1 := checker_fate v nl hkd uk hc h1
      have f2 := checker_fate v nl hkd uk hc h2
      obtain ⟨_, p1, hb1, hw1, ha1⟩ := h1
      obtain ⟨_, p2, hb2, hw2, ha2⟩ := h2
      -- a square cannot be captured on and be empty
      have capt_empty : ∀ {c p}, a.board c = some p → c = t → a.board t = none → False := by
        intro c p hb e hn; rw [e, hn] at hb; cases hb
      have capt_ep : ∀ {c p}, a.board c = some p → c = t → isEpB a s t pc = true → False := by
        intro c p hb e hE
        simp only [isEpB, Bool.and_eq_true, Bool.not_eq_true', Option.isSome_eq_false_iff,
          Option.isNone_iff_eq_none] at hE
        exact capt_empty hb e hE.2
      have ep_att : ∀ {c p}, a.board c = some p → pieceAttacks a.board c p k = true →
          isEpB a s t pc = true → c = sq (file t) (rank s) →
          pieceAttacks a.board (sq (file t) (rank s)) ⟨!a.whiteToMove, .pawn⟩ k = true := by
        intro c p hb ha hE e
        have := (ep_victim v nl hE).1
        rw [← e, hb] at this
        rw [← e, ← Option.some.inj this]; exact ha
      rcases f1 with e1 | ⟨hE1, e1⟩ | ⟨bt1, hn1⟩ <;> rcases f2 with e2 | ⟨hE2, e2⟩ | ⟨bt2, hn2⟩
      · exact hne (e1.trans e2.symm)
      · exact capt_ep hb1 e1 hE2
      · exact capt_empty hb1 e1 hn2
      · exact capt_ep hb2 e2 hE1
      · exact hne (e1.trans e2.symm)
      · exact ep_no_block nl hE1 (ep_att hb1 ha1 hE1 e1) bt2
      · exact capt_empty hb2 e2 hn1
      · exact ep_no_block nl hE2 (ep_att hb2 ha2 hE2 e2) bt1
      · rcases between_same_ray bt1 bt2 hne with h | h
        · have := attack_path_empty ha1 h
          rw [hb2] at this; cases this
        · have := attack_path_empty ha2 h
          rw [hb1] at this; cases this
  · subst e
    exfalso
    exact no_castle_in_check ((inCheck_iff_checker hk).mpr ⟨c1, h1⟩) hm

/-- the same with `IsKingMove`. -/
theorem double_check_isKingMove {a : APos} (hv : Valid a = true) {k c1 c2 : Nat}
    (hk : kingSquares a.board a.whiteToMove = [k]) (h1 : Checker a k c1) (h2 : Checker a k c2)
    (hne : c1 ≠ c2) {m : Move} (hm : m ∈ legalMoves a) : IsKingMove a m := by
  obtain ⟨t, rfl⟩ := double_check_king_move hv hk h1 h2 hne hm
  exact (unique_of_kingSquares hk).2.1

end Rawr.SpecS
