import Rawr.Proofs.StyleChess
/-!
# Board invariants and censuses along legal play (part 2 of the chess facts behind `WFGame`)
-/
namespace Rawr.Style.Chess
open Rawr.Spec

/-- no white pawn on the first rank, no black pawn on the eighth, nothing off the board. -/
structure BoardInv (b : Board) : Prop where
  wp : ∀ x, b x = some ⟨true, .pawn⟩ → 8 ≤ x
  bp : ∀ x, b x = some ⟨false, .pawn⟩ → x < 56
  off : ∀ x, 64 ≤ x → b x = none

/-- pawns count as queens: this weight never grows. -/
def val9 : Kind → Nat
  | .pawn => 9 | .knight => 3 | .bishop => 3 | .rook => 5 | .queen => 9 | .king => 0

def wW (c : Bool) : Nat → Piece → Nat := fun _ pc => if pc.white = c then val9 pc.kind else 0

def relRankSq (side : Bool) (x : Nat) : Nat := if side then x / 8 else 7 - x / 8

/-- indicator of "a pawn of `side` on relative rank index `r`". -/
def nW (side : Bool) (r : Nat) : Nat → Piece → Nat :=
  fun x pc => if pc = ⟨side, .pawn⟩ ∧ relRankSq side x = r then 1 else 0

theorem landed_pawn {pc : Piece} {promo : Option Kind} {c : Bool}
    (hpawn : pc.kind = .pawn → ∀ k, promo = some k → k ≠ .pawn) (hnp : pc.kind ≠ .pawn → promo = none)
    (h : landed pc promo = ⟨c, .pawn⟩) : pc = ⟨c, .pawn⟩ ∧ promo = none := by
  cases promo with
  | none => exact ⟨h, rfl⟩
  | some k =>
    exfalso
    by_cases hk : pc.kind = .pawn
    · have := hpawn hk k rfl
      simp only [landed] at h
      have hk' : k = .pawn := by
        have := congrArg Piece.kind h
        simpa using this
      exact this hk'
    · have := hnp hk
      cases this

/-- a legal move, seen from the censuses: either a normal move of a piece `pc` standing on `s`, of the
side to move, or a castling move. -/
inductive MoveView (p : APos) (m : Move) : Prop where
  | normal (s t : Nat) (promo : Option Kind) (pc : Piece) (hm : m = .normal s t promo) (hs : s < 64) (ht : t < 64)
      (hb : p.board s = some pc) (hcol : pc.white = p.whiteToMove)
      (hpawn : pc.kind = .pawn → PawnShape pc.white s t promo) (hnp : pc.kind ≠ .pawn → promo = none)
  | castle (ks : Bool) (hm : m = .castle ks) (hl : castleLegal p ks = true)

theorem moveView {p : APos} {m : Move} (h : m ∈ legalMoves p) : MoveView p m := by
  rcases legalMoves_cases h with ⟨s, hs, hm⟩ | ⟨ks, hl, rfl⟩
  · obtain ⟨t, promo, pc, rfl, hb, hcol, ht, hp, hnp⟩ := pseudoFrom_shape hs hm
    exact .normal s t promo pc rfl hs ht hb hcol hp hnp
  · exact .castle ks rfl hl

theorem pawnShape_nat {w : Bool} {s t : Nat} {promo : Option Kind} (h : PawnShape w s t promo) :
    (w = true → (t / 8 = s / 8 + 1 ∨ (t / 8 = s / 8 + 2 ∧ s / 8 = 1))) ∧
    (w = false → (t / 8 + 1 = s / 8 ∨ (t / 8 + 2 = s / 8 ∧ s / 8 = 6))) := by
  have hr := h.rk
  unfold rank at hr
  constructor
  · intro hw; subst hw
    simp only [if_true] at hr
    omega
  · intro hw; subst hw
    simp only [Bool.false_eq_true, if_false] at hr
    omega

/-- the invariant is preserved by every legal move. -/
theorem boardInv_apply {p : APos} {m : Move} (hI : BoardInv p.board) (h : m ∈ legalMoves p) :
    BoardInv (apply p m).board := by
  cases moveView h with
  | normal s t promo pc hm hs ht hb hcol hpawn hnp =>
    subst hm
    have hpt := apply_normal_pointwise p s t promo pc hb
    have hland : ∀ c, landed pc promo = ⟨c, .pawn⟩ → pc = ⟨c, .pawn⟩ ∧ promo = none :=
      fun c => landed_pawn (fun hk => (hpawn hk).promo) hnp
    refine ⟨fun x hx => ?_, fun x hx => ?_, fun x hx => ?_⟩
    · rcases hpt x with h1 | h1 | ⟨rfl, h1⟩
      · exact hI.wp x (h1 ▸ hx)
      · rw [h1] at hx; cases hx
      · rw [h1] at hx
        obtain ⟨hpc, _⟩ := hland true (Option.some.inj hx)
        have hsh := (pawnShape_nat (hpawn (by rw [hpc]))).1 (by rw [hpc])
        omega
    · rcases hpt x with h1 | h1 | ⟨rfl, h1⟩
      · exact hI.bp x (h1 ▸ hx)
      · rw [h1] at hx; cases hx
      · rw [h1] at hx
        obtain ⟨hpc, _⟩ := hland false (Option.some.inj hx)
        have hsh := (pawnShape_nat (hpawn (by rw [hpc]))).2 (by rw [hpc])
        omega
    · rcases hpt x with h1 | h1 | ⟨rfl, _⟩
      · rw [h1]; exact hI.off x hx
      · exact h1
      · omega
  | castle ks hm hl =>
    subst hm
    obtain ⟨rf, k, hr, hk, hk64, hkb, hrook⟩ := castleLegal_facts hl
    obtain ⟨hbd, _⟩ := apply_castle_board hr hk
    obtain ⟨hkT, hrT⟩ := castle_targets ks p.whiteToMove
    have hpt : ∀ x, (apply p (.castle ks)).board x = p.board x ∨ (apply p (.castle ks)).board x = none ∨
        (x < 64 ∧ ((apply p (.castle ks)).board x = some ⟨p.whiteToMove, .king⟩ ∨
          (apply p (.castle ks)).board x = some ⟨p.whiteToMove, .rook⟩)) := by
      intro x
      rw [hbd]
      unfold setSq
      by_cases h1 : x = sq (if ks then 5 else 3) (homeRank p.whiteToMove)
      · right; right; exact ⟨by omega, Or.inr (by rw [if_pos h1])⟩
      · rw [if_neg h1]
        by_cases h2 : x = sq (if ks then 6 else 2) (homeRank p.whiteToMove)
        · right; right; exact ⟨by omega, Or.inl (by rw [if_pos h2])⟩
        · rw [if_neg h2]
          by_cases h3 : x = sq rf (homeRank p.whiteToMove)
          · right; left; rw [if_pos h3]
          · rw [if_neg h3]
            by_cases h4 : x = k
            · right; left; rw [if_pos h4]
            · left; rw [if_neg h4]
    refine ⟨fun x hx => ?_, fun x hx => ?_, fun x hx => ?_⟩
    · rcases hpt x with h1 | h1 | ⟨_, h1 | h1⟩
      · exact hI.wp x (h1 ▸ hx)
      · rw [h1] at hx; cases hx
      · rw [h1] at hx; simp at hx
      · rw [h1] at hx; simp at hx
    · rcases hpt x with h1 | h1 | ⟨_, h1 | h1⟩
      · exact hI.bp x (h1 ▸ hx)
      · rw [h1] at hx; cases hx
      · rw [h1] at hx; simp at hx
      · rw [h1] at hx; simp at hx
    · rcases hpt x with h1 | h1 | ⟨h64, _⟩
      · rw [h1]; exact hI.off x hx
      · exact h1
      · omega

/-! ## censuses -/

theorem sumSq_apply_castle_le {p : APos} {ks : Bool} (hI : BoardInv p.board) (hl : castleLegal p ks = true)
    (g : Nat → Piece → Nat)
    (hgk : ∀ x y, g x ⟨p.whiteToMove, .king⟩ = g y ⟨p.whiteToMove, .king⟩)
    (hgr : ∀ x y, g x ⟨p.whiteToMove, .rook⟩ = g y ⟨p.whiteToMove, .rook⟩) :
    sumSq (apply p (.castle ks)).board g ≤ sumSq p.board g := by
  obtain ⟨rf, k, hr, hk, hk64, hkb, hrook⟩ := castleLegal_facts hl
  obtain ⟨hbd, _⟩ := apply_castle_board hr hk
  rw [hbd]
  generalize hrsq : sq rf (homeRank p.whiteToMove) = rsq at hrook ⊢
  have hrsq64 : rsq < 64 := by
    by_cases h : 64 ≤ rsq
    · have := hI.off rsq h
      rw [this] at hrook; cases hrook
    · omega
  have hne : rsq ≠ k := by
    intro h
    rw [h, hkb] at hrook
    simp at hrook
  have h1 := sumSq_setSq p.board k none g
  rw [hkb] at h1
  simp only [hk64, if_true, gv, Nat.add_zero] at h1
  have hb1 : setSq p.board k none rsq = some ⟨p.whiteToMove, .rook⟩ := by
    unfold setSq; rw [if_neg hne]; exact hrook
  have h2 := sumSq_setSq (setSq p.board k none) rsq none g
  rw [hb1] at h2
  simp only [hrsq64, if_true, gv, Nat.add_zero] at h2
  have h3 := sumSq_setSq_le (setSq (setSq p.board k none) rsq none)
    (sq (if ks then 6 else 2) (homeRank p.whiteToMove)) ⟨p.whiteToMove, .king⟩ g
  have h4 := sumSq_setSq_le (setSq (setSq (setSq p.board k none) rsq none)
    (sq (if ks then 6 else 2) (homeRank p.whiteToMove)) (some ⟨p.whiteToMove, .king⟩))
    (sq (if ks then 5 else 3) (homeRank p.whiteToMove)) ⟨p.whiteToMove, .rook⟩ g
  have e1 := hgk k (sq (if ks then 6 else 2) (homeRank p.whiteToMove))
  have e2 := hgr rsq (sq (if ks then 5 else 3) (homeRank p.whiteToMove))
  omega

/-- the queen-valued material of either colour never grows. -/
theorem wW_apply_le {p : APos} {m : Move} (hI : BoardInv p.board) (h : m ∈ legalMoves p) (c : Bool) :
    sumSq (apply p m).board (wW c) ≤ sumSq p.board (wW c) := by
  cases moveView h with
  | normal s t promo pc hm hs ht hb hcol hpawn hnp =>
    subst hm
    have h1 := sumSq_apply_normal p s t promo pc hs hb (wW c)
    have h2 : wW c t (landed pc promo) ≤ wW c s pc := by
      cases promo with
      | none => exact Nat.le_refl _
      | some k =>
        have hk : pc.kind = .pawn := by
          by_cases hk : pc.kind = .pawn
          · exact hk
          · have := hnp hk; cases this
        simp only [wW, landed, hk]
        by_cases hc : pc.white = c
        · simp only [hc, if_true]
          cases k <;> simp [val9]
        · simp only [hc, if_false]
          exact Nat.le_refl _
    omega
  | castle ks hm hl =>
    subst hm
    exact sumSq_apply_castle_le hI hl (wW c) (fun _ _ => rfl) (fun _ _ => rfl)

/-- the number of pawns of `side` on a relative rank, across a castling move. -/
theorem nW_apply_castle_le {p : APos} {ks : Bool} (hI : BoardInv p.board) (hl : castleLegal p ks = true)
    (side : Bool) (r : Nat) : sumSq (apply p (.castle ks)).board (nW side r) ≤ sumSq p.board (nW side r) := by
  refine sumSq_apply_castle_le hI hl (nW side r) (fun x y => ?_) (fun x y => ?_) <;> simp [nW]

end Rawr.Style.Chess
