import Rawr.Props.C03_rules
import Rawr.Props.C11
import Rawr.Props.C12
import Rawr.Props.C14
/-! Helper lemmas for the "rules-level" corollaries of C11, C12, C14 (`Props/C11_rules.lean`, `C12_rules.lean`,
`C14_rules.lean`): the hypotheses of those properties on the search tree (`QEvalOk`, `TreeOk`, `AllChildrenDrawn`,
`SearchDom`) are discharged for every root in the domain `V ∧ E` (`VE` of `Props/C03_rules.lean`).

* `qEvalOk_of_QVE`, `qEvalOk_of_VE`: the evaluation is within `±EB = ±174416` on the capture tree below every
  position of `V ∧ E` (C17 through `qdom_QVE`);
* `KeysOk`, `treeOk_of_keysOk`: `TreeOk` with the evaluation clause removed — what is left is the absence of
  64-bit key collisions — implies `TreeOk … EB` on `V ∧ E`;
* children of a valid position: `makemove_total_V`, `child_VE`, `child_clock`;
* tables of default entries: `ttInv_replicate`, `noChildHit_replicate`;
* `rootIter_scoresC`, `rootIter_depth_countC`: the two iteration lemmas of `Proofs/RootLemmasIter.lean` that C14
  uses, for `SearchDomC` (null-move clause only when not in check; the original proofs with `negamax_rootC`);
* `len_of_root_some`: a returning `go depth D` (`D ≥ 1`) has ordered the root's moves, so they fit the buffer. -/
namespace Rawr.RulesLevel
open Rawr Position Spec ZH MM SV Br Att DM

/-! ## the evaluation on `V ∧ E` -/

theorem QVE_of_VE {n : Nat} {q : Position} (h : VE n q) : QVE qFuel q := by
  obtain ⟨hV, hE, hh, hf⟩ := h
  have : qFuel = 64 := rfl
  exact ⟨validPosNoHash_of_valid hV, hE, by omega, by omega⟩

/-- the capture tree below a position valid up to its key: evaluation within `±EB` (C17). -/
theorem qEvalOk_of_QVE : ∀ (f : Nat) (q : Position), QVE f q → QEvalOk EB f q
  | 0, _, _ => trivial
  | f + 1, q, h => ⟨qdom_QVE.eval f q h, fun m hm np hmk => qEvalOk_of_QVE f np (qdom_QVE.capt f q m np h hm hmk)⟩

theorem qEvalOk_of_VE {n : Nat} {q : Position} (h : VE n q) : QEvalOk EB qFuel q :=
  qEvalOk_of_QVE qFuel q (QVE_of_VE h)

theorem EB_nonneg : (0 : Int) ≤ EB := by decide
theorem EB_mate : EB + 300 ≤ Gen.MATE_SCORE - 2 := by decide
theorem EB_lt_INF : EB < Gen.INF := by decide

/-! ## children of a position of `V ∧ E` -/

theorem makemove_total_V {p : Position} (hV : ValidPos p = true) {m : Mv} (hm : m ∈ legalMoves p) :
    ∃ c, p.makemove m true = some c :=
  C02_makemove_total p m hV (gen_moveShape p hV m hm)

theorem child_VE {n : Nat} {p : Position} (h : VE (n + 1) p) {m : Mv} (hm : m ∈ legalMoves p) {c : Position}
    (hmk : p.makemove m true = some c) : VE n c :=
  searchDomC_VE.move n p m c h hm hmk

/-- one generated move from a position of `V ∧ E` leads to a position of `V ∧ E` (counter room for one ply). -/
theorem child_V_E {p : Position} (hV : ValidPos p = true) (hE : Spec.EpConsistent (abs p) = true)
    (hh : p.halfmoves + 1 < 2147483648) (hf : p.fullmoves + 1 < 2147483648) {m : Mv} (hm : m ∈ legalMoves p)
    {c : Position} (hmk : p.makemove m true = some c) :
    ValidPos c = true ∧ Spec.EpConsistent (abs c) = true ∧ abs c = Spec.apply (abs p) (decodeMove p m) := by
  have hs := gen_moveShape p hV m hm
  have hL := (C01_sound p hV hE m hm).1
  have habs := C02_makemove_eq p m c true hV hs hL hmk
  refine ⟨C02_valid_preserved p m c hV hs hL hmk hh hf, ?_, habs⟩
  rw [habs]
  exact epConsistent_apply (valid_unpack hV).2.1 hL

theorem VE_mono {n k : Nat} {p : Position} (h : VE n p) (hk : k ≤ n) : VE k p := by
  obtain ⟨hV, hE, hh, hf⟩ := h
  exact ⟨hV, hE, by omega, by omega⟩

/-- the clock after a generated move: 0 or one more. -/
theorem child_clock {p : Position} (hV : ValidPos p = true) (hE : Spec.EpConsistent (abs p) = true) {m : Mv}
    (hm : m ∈ legalMoves p) {c : Position} (hmk : p.makemove m true = some c) :
    0 ≤ c.halfmoves ∧ c.halfmoves ≤ p.halfmoves + 1 := by
  obtain ⟨b0, b1, _, _⟩ := C02_counters p m c true hV (gen_moveShape p hV m hm) (C01_sound p hV hE m hm).1 hmk
  exact ⟨b0, b1⟩

/-! ## key collisions: `TreeOk` without its evaluation clause -/

/-- the subtree below `q` that `fuel` can reach (null-move children included exactly where `TreeOk` includes
them): no node has a key in `Kp`, no node with a legal move has a key in `Ks`. -/
def KeysOk (Kp Ks : BB → Prop) : Nat → Position → Prop
  | 0, _ => True
  | f + 1, q => ¬ Kp q.hash ∧ (legalMoves q ≠ [] → ¬ Ks q.hash) ∧
      (q.inCheck = false → isEndgame q = false → KeysOk Kp Ks f q.makenull) ∧
      ∀ m ∈ legalMoves q, ∀ c, q.makemove m true = some c → KeysOk Kp Ks f c

/-- on `V ∧ E` the evaluation clause of `TreeOk` holds with `B = EB = 174416`. -/
theorem treeOk_of_keysOk (Kp Ks : BB → Prop) : ∀ (f : Nat) (q : Position), VE f q → KeysOk Kp Ks f q →
    TreeOk Kp Ks EB f q
  | 0, _, _, _ => trivial
  | f + 1, q, hq, ⟨h1, h2, h3, h4⟩ =>
    ⟨h1, h2, qEvalOk_of_VE hq,
      fun hc he => treeOk_of_keysOk Kp Ks f _ (searchDomC_VE.null f q hq hc) (h3 hc he),
      fun m hm c hmk => treeOk_of_keysOk Kp Ks f c (child_VE hq hm hmk) (h4 m hm c hmk)⟩

/-- executable form of `KeysOk`. -/
def keysOkB (kp ks : BB → Bool) : Nat → Position → Bool
  | 0, _ => true
  | f + 1, q => !kp q.hash && (decide (legalMoves q = []) || !ks q.hash) &&
      (q.inCheck || isEndgame q || keysOkB kp ks f q.makenull) &&
      (legalMoves q).all fun m =>
        match q.makemove m true with
        | none => true
        | some c => keysOkB kp ks f c

theorem keysOk_of_B (kp ks : BB → Bool) : ∀ (f : Nat) (q : Position), keysOkB kp ks f q = true →
    KeysOk (fun k => kp k = true) (fun k => ks k = true) f q
  | 0, _, _ => trivial
  | f + 1, q, h => by
    simp only [keysOkB, Bool.and_eq_true, Bool.or_eq_true, Bool.not_eq_true', decide_eq_true_eq,
      List.all_eq_true] at h
    obtain ⟨⟨⟨h1, h2⟩, h4⟩, h5⟩ := h
    refine ⟨by simp [h1], fun hne => ?_, fun hc he => ?_, fun m hm c hmk => ?_⟩
    · rcases h2 with h2 | h2
      · exact absurd h2 hne
      · simp [h2]
    · rcases h4 with (h4 | h4) | h4
      · rw [hc] at h4; cases h4
      · rw [he] at h4; cases h4
      · exact keysOk_of_B kp ks f _ h4
    · have := h5 m hm
      rw [hmk] at this
      exact keysOk_of_B kp ks f c this

/-! ## the repetition test -/

/-- "not a repetition" in the index form of C11.2. -/
theorem rep_lt_two_iff (H : List BB) (c : Position) :
    repCount (c.hash :: H) c.halfmoves c.hash < 2 ↔ ¬ OccurredBefore H c := by
  rw [← Nat.not_le]
  exact not_congr (C11_repetition_iff c.hash H c.halfmoves)

/-! ## tables of default entries -/

theorem poll_replicate (n key : Nat) : (⟨Array.replicate n default⟩ : Table TTEntry).poll key = some default := by
  rw [Table.poll_eq]
  congr 1
  unfold Table.slot
  simp only [Array.getElem?_replicate]
  split <;> rfl

/-- an all-default table satisfies `TTInv` as soon as `0` (the key of an empty slot) is not in `Ks`. -/
theorem ttInv_replicate (Kp Ks : BB → Prop) (n : Nat) (h0 : ¬ Ks 0#64) :
    TTInv Kp Ks ⟨Array.replicate n default⟩ := by
  intro key e he
  rw [poll_replicate] at he
  cases he
  exact ⟨Or.inr ⟨by decide, by decide⟩, h0⟩

/-- an all-default table has no hit on a child as soon as no child has key `0`. -/
theorem noChildHit_replicate (p : Position) (n : Nat)
    (h0 : ∀ m ∈ legalMoves p, ∀ c, p.makemove m true = some c → c.hash ≠ 0#64) :
    NoChildHit p ⟨Array.replicate n default⟩ := by
  intro m hm c hmk
  rw [poll_replicate]
  simp only [Option.map_some, ne_eq, Option.some.injEq]
  exact fun h' => h0 m hm c hmk h'.symm

/-! ## the ordering buffer -/

theorem sortNm_some_len {p : Position} {ms l : List Mv} {tt : Option Mv} (h : sortNm p ms tt = some l) :
    ms.length ≤ Gen.orderBufNegamax := by
  have e : Gen.orderBufNegamax = 218 := rfl
  unfold sortNm at h
  split at h
  · omega
  · split at h
    · cases h
    · omega

/-- a returning `go depth D`, `D ≥ 1`, has ordered the root's moves: there are at most 218. -/
theorem len_of_root_some (D : Int) (hD : 1 ≤ D) (fuel : Nat) (p : Position) (hist : List BB) (tt : Table TTEntry)
    (res : RootResult) (h : root (.depth D) (fuel + 1) p hist tt = some res) :
    (legalMoves p).length ≤ Gen.orderBufNegamax := by
  unfold root at h
  rw [show Gen.MAX_DEPTH.toNat = 127 + 1 from rfl] at h
  generalize (127 : Nat) = n at h
  simp only [rootIter, if_neg (show ¬ (1 : Int) ≥ Gen.MAX_DEPTH by decide)] at h
  split at h
  · simp at h
  rename_i score s1 hcall
  obtain ⟨_, _, _, _, _, _, _, _, hsort, _⟩ := root_call_unfold (.depth D) fuel p _ 1 score s1
    (by split <;> omega) (by show (1 : Int) ≤ D; exact hD) hcall
  exact sortNm_some_len hsort

/-! ## C14's iteration lemmas for `SearchDomC` -/

theorem rootIter_depth_countC (D : Int) (G : Nat → Position → Prop) (hG : SearchDomC G) (K : Int)
    (hK1 : Gen.MATE_SCORE ≤ K) (hK2 : K ≤ Gen.INF) (fuel : Nat) (p : Position) (hGp : G fuel p)
    (hf : (fuel : Int) ≤ K + Gen.MATE_SCORE) (hlegal : legalMoves p ≠ []) :
    ∀ (k : Nat) (depth : Int) (st : SState) (bestMove : Option Mv) (infos : List InfoRec) (res : RootResult),
      TTIn K st.tt → 1 ≤ depth → depth ≤ depthTarget D + 1 → (k : Int) + depth ≥ Gen.MAX_DEPTH + 1 →
      rootIter (.depth D) fuel p k depth st bestMove infos = some res →
      res.infos.length = infos.length + (depthTarget D + 1 - depth).toNat := by
  have hMD : Gen.MAX_DEPTH = 128 := rfl
  intro k
  induction k with
  | zero =>
    intro depth st bestMove infos res _ h1 h2 h3 h
    simp only [rootIter, Option.some.injEq] at h
    rw [← h]
    unfold depthTarget at *
    simp only [List.length_reverse]
    omega
  | succ k ih =>
    intro depth st bestMove infos res htt h1 h2 h3 h
    have hT : depthTarget D = max 1 (min D 127) := by unfold depthTarget; rw [hMD]; rfl
    rcases rootIter_step h with ⟨hcap, hres⟩ | ⟨hlt, score, s1, hnm, hrest⟩
    · rw [hres]; simp only [List.length_reverse]; omega
    · have hs1d : s1.depth = depth := negamax_depth_eq hnm
      by_cases hlast : depth = depthTarget D + 1
      · have hgtD : depth > D ∧ 1 < depth := by omega
        rcases hrest with ⟨_, hres⟩ | ⟨m, _, ⟨_, hres⟩ | ⟨hpoll, _⟩⟩
        · rw [hres]; simp only [List.length_reverse]; omega
        · rw [hres]; simp only [List.length_reverse]; omega
        · rw [endPoll_fst_of_gt _ _ _ hgtD.2, shouldStop_depth, hs1d] at hpoll
          simp only [decide_eq_false_iff_not] at hpoll
          omega
      · have hle : depth ≤ depthTarget D := by omega
        have hnoStop : 1 < depth → ¬ depth > D := by omega
        obtain ⟨htt1, hroot⟩ := negamax_rootC (.depth D) G hG K hK1 hK2 fuel p _ depth score s1 hGp
          (by exact htt) h1 hf hnm
        have hbest : ∃ m ∈ legalMoves p, s1.best = some m := by
          rcases hroot with ⟨⟨hgt, hs⟩, _⟩ | ⟨_, _, hcons⟩
          · have hgt' : 1 < depth := hgt
            rw [shouldStop_depth] at hs
            simp only [decide_eq_true_eq] at hs
            have hs' : depth > D := hs
            exact absurd hs' (hnoStop hgt')
          · exact (hcons hlegal).2
        obtain ⟨m0, _, hm0⟩ := hbest
        rcases hrest with ⟨hnone, _⟩ | ⟨m, _, ⟨hpoll, _⟩ | ⟨_, hrec⟩⟩
        · rw [hnone] at hm0; simp at hm0
        · by_cases hgt : 1 < depth
          · rw [endPoll_fst_of_gt _ _ _ hgt, shouldStop_depth, hs1d] at hpoll
            simp only [decide_eq_true_eq] at hpoll
            exact absurd hpoll (hnoStop hgt)
          · rw [endPoll_fst_of_le _ depth _ (by omega)] at hpoll; simp at hpoll
        · have := ih _ _ _ _ _ (by rw [endPoll_tt]; exact htt1) (by omega) (by omega) (by omega) hrec
          rw [this]
          simp only [List.length_cons]
          omega

theorem rootIter_scoresC (lim : Limit) (G : Nat → Position → Prop) (hG : SearchDomC G) (K : Int)
    (hK1 : Gen.MATE_SCORE ≤ K) (hK2 : K ≤ Gen.INF) (fuel : Nat) (p : Position) (hGp : G fuel p)
    (hf : (fuel : Int) ≤ K + Gen.MATE_SCORE) :
    ∀ (k : Nat) (depth : Int) (st : SState) (bestMove : Option Mv) (infos : List InfoRec) (res : RootResult),
      TTIn K st.tt → 1 ≤ depth → (legalMoves p = [] → st.best = none) →
      rootIter lim fuel p k depth st bestMove infos = some res →
      ∀ r ∈ res.infos, r ∈ infos ∨ InR K r.score := by
  intro k
  induction k with
  | zero =>
    intro depth st bestMove infos res _ _ _ h
    simp only [rootIter, Option.some.injEq] at h
    intro r hr
    rw [← h] at hr
    exact Or.inl (by simpa using hr)
  | succ k ih =>
    intro depth st bestMove infos res htt hd1 hnil h
    rcases rootIter_step h with ⟨_, hres⟩ | ⟨_, score, s1, hnm, hrest⟩
    · intro r hr; rw [hres] at hr; exact Or.inl (by simpa using hr)
    · rcases hrest with ⟨_, hres⟩ | ⟨m, hm, ⟨_, hres⟩ | ⟨hpoll, hrec⟩⟩
      · intro r hr; rw [hres] at hr; exact Or.inl (by simpa using hr)
      · intro r hr; rw [hres] at hr; exact Or.inl (by simpa using hr)
      · obtain ⟨htt1, hroot⟩ := negamax_rootC lim G hG K hK1 hK2 fuel p _ depth score s1 hGp
          (by exact htt) hd1 hf hnm
        have hM : Gen.MATE_SCORE = 1000000 := rfl
        have hscore : InR K score ∧ (legalMoves p = [] → s1.best = none) := by
          rcases hroot with ⟨_, e, e2⟩ | ⟨_, hnil', hcons⟩
          · refine ⟨by rw [e]; unfold InR; omega, fun hl => ?_⟩
            rw [e2]; exact hnil hl
          · by_cases hl : legalMoves p = []
            · have := hnil' hl
              rw [hm] at this
              have h2 : st.best = none := hnil hl
              have h3 : some m = st.best := this
              rw [h2] at h3; simp at h3
            · exact ⟨(hcons hl).1, fun hl' => absurd hl' hl⟩
        intro r hr
        rcases ih _ _ _ _ _ (by rw [endPoll_tt]; exact htt1) (by omega)
          (by rw [endPoll_best]; exact hscore.2) hrec r hr with h1 | h1
        · rcases List.mem_cons.1 h1 with e | h2
          · right; rw [e]; exact hscore.1
          · exact Or.inl h2
        · exact Or.inr h1

end Rawr.RulesLevel
