import Rawr.Proofs.GenEpGeom
/-!
# C01, en passant: the core, in the mover's frame

`B` the relative board, `k` the mover's king, `e` the en-passant square (relative rank 5), the captured
pawn on `e - 8`, the capturing pawn on `F` (`F + 9 = e` or `F + 7 = e`).
`epBoard B F e` is the board after the capture; `prePush B e` the board before the double push.
`ep_core`: the king is not attacked on `epBoard` iff `EpC1 ∧ EpC2 ∧ EpC3` (pins of the capturer only along
the capture line; every check is given by the captured pawn or is blocked on `e`; no rook or queen sees
the king along its rank once both pawns have left) — under the retro-consistency hypothesis
(`prePush` has the king unattacked), which is used for exactly one case: a diagonal opened by the
disappearance of the captured pawn.
-/
set_option linter.unusedSimpArgs false
namespace Rawr.Att
open Spec

def epBoard (B : Board) (F e : Nat) : Board :=
  setSq (setSq (setSq B F none) (e - 8) none) e (some ⟨true, .pawn⟩)

def prePush (B : Board) (e : Nat) : Board :=
  setSq (setSq B (e - 8) none) (e + 8) (some ⟨false, .pawn⟩)

theorem epBoard_at (B : Board) (F e x : Nat) :
    epBoard B F e x = if x = e then some ⟨true, .pawn⟩ else if x = e - 8 then none
      else if x = F then none else B x := rfl

theorem prePush_at (B : Board) (e x : Nat) :
    prePush B e x = if x = e + 8 then some ⟨false, .pawn⟩ else if x = e - 8 then none else B x := rfl

/-- the capture direction and the geometry of capturer and target. -/
def CapGeo (cap : Int × Int) (F e : Nat) : Prop :=
  (cap = dNE ∧ F + 9 = e ∧ e % 8 ≠ 0) ∨ (cap = dNW ∧ F + 7 = e ∧ e % 8 ≠ 7)

structure EpCtx (B : Board) (k e F : Nat) (cap : Int × Int) : Prop where
  k64 : k < 64
  e64 : e < 64
  erank : e / 8 = 5
  Bk : B k = some ⟨true, .king⟩
  Be : B e = none
  BP : B (e - 8) = some ⟨false, .pawn⟩
  BF : B F = some ⟨true, .pawn⟩
  geo : CapGeo cap F e

/-- the capturer is pinned, if at all, along the capture line. -/
def EpC1 (B : Board) (k F : Nat) (cap : Int × Int) : Prop :=
  ∀ d s pc, RayHit B k d F → RayHit B F d s → s < 64 → B s = some pc → pc.white = false →
    SliderOn pc d → (d = cap ∨ d = (-cap.1, -cap.2))

/-- every checker is the captured pawn, or a slider whose ray to the king passes over `e`. -/
def EpC2 (B : Board) (k e : Nat) : Prop :=
  (∀ s pc, s < 64 → B s = some pc → pc.white = false → leaperAtt pc s k = true → s = e - 8) ∧
  (∀ s pc d, s < 64 → B s = some pc → pc.white = false → SliderOn pc d → RayHit B k d s →
    RayHit B k d e)

/-- no rook or queen sees the king along its rank on the board after the capture. -/
def EpC3 (B : Board) (k e F : Nat) : Prop :=
  ∀ s pc, s < 64 → B s = some pc → pc.white = false → (pc.kind = .rook ∨ pc.kind = .queen) →
    ¬ RayHit (epBoard B F e) k dE s ∧ ¬ RayHit (epBoard B F e) k dW s

theorem leaper_not_slider {pc : Piece} {s k : Nat} {d : Int × Int} (h : leaperAtt pc s k = true)
    (h' : SliderOn pc d) : False := by
  obtain ⟨w, kd⟩ := pc
  unfold leaperAtt at h
  unfold SliderOn at h'
  cases kd <;> simp at h h'

theorem onRay_zero {k : Nat} {d : Int × Int} {x : Nat} (h : OnRay k d 0 x) : x = k := by
  unfold OnRay at h
  simp only [Int.natCast_zero, Int.mul_zero, Int.add_zero] at h
  exact eq_of_file_rank h.1 h.2

theorem onRay_idx {k : Nat} {d : Int × Int} (hd : GoodDir d) {i j x : Nat} (hi : OnRay k d i x)
    (hj : OnRay k d j x) : i = j := by
  obtain ⟨ha, hb, hab⟩ := hd
  obtain ⟨a, b⟩ := d
  unfold OnRay at hi hj
  dsimp only at *
  rcases ha with rfl | rfl | rfl <;> rcases hb with rfl | rfl | rfl <;> omega

theorem onRay_add {k : Nat} {d : Int × Int} {i j f x : Nat} (hf : OnRay k d i f) :
    OnRay f d j x ↔ OnRay k d (i + j) x := by
  unfold OnRay at *
  rw [hf.1, hf.2, Int.natCast_add, Int.mul_add, Int.mul_add, Int.add_assoc, Int.add_assoc]

/-- a blocker free stretch of a ray, transported to another board. -/
theorem rayHit_of_pts {X : Board} {d : Int × Int} (hd : GoodDir d) {k s : Nat} (hk : k < 64) (hs : s < 64)
    {n : Nat} (hn : 1 ≤ n) (hsn : OnRay k d n s)
    (h : ∀ i x, 1 ≤ i → i < n → OnRay k d i x → X x = none) : RayHit X k d s :=
  (rayHit_pts X hd hk hs).mpr ⟨n, hn, hsn, h⟩

/-- an empty square reached on the ray to an occupied square lies strictly before it. -/
theorem rayHit_before {X : Board} {d : Int × Int} (hd : GoodDir d) {k s e : Nat} (hk : k < 64)
    (hs : s < 64) (he : e < 64) (hrs : RayHit X k d s) (hre : RayHit X k d e) (os : X s ≠ none)
    (oe : X e = none) : ∃ n i, 1 ≤ i ∧ i < n ∧ OnRay k d n s ∧ OnRay k d i e := by
  obtain ⟨n, hn, hsn, hcs⟩ := (rayHit_pts X hd hk hs).mp hrs
  obtain ⟨i, hi, hei, hce⟩ := (rayHit_pts X hd hk he).mp hre
  refine ⟨n, i, hi, ?_, hsn, hei⟩
  rcases Nat.lt_trichotomy i n with h | h | h
  · exact h
  · subst h; rw [onRay_inj hsn hei] at os; exact absurd oe os
  · exact absurd (hce n s hn h hsn) os

/-! ### coordinates -/

structure EpCoords (e F : Nat) (cap : Int × Int) : Prop where
  cap2 : cap.2 = 1
  cap1 : cap.1 = 1 ∨ cap.1 = -1
  fe : file e = file F + cap.1
  re : rank e = rank F + 1
  fP : file (e - 8) = file e
  rP : rank (e - 8) + 1 = rank e
  r5 : rank e = 5
  F64 : F < 64
  P64 : e - 8 < 64
  fO : file (e + 8) = file e
  rO : rank (e + 8) = 6

theorem EpCtx.coords {B : Board} {k e F : Nat} {cap : Int × Int} (C : EpCtx B k e F cap) :
    EpCoords e F cap := by
  have h5 := C.erank
  have h64 := C.e64
  rcases C.geo with ⟨rfl, h1, h2⟩ | ⟨rfl, h1, h2⟩
  · refine ⟨rfl, Or.inl rfl, ?_, ?_, ?_, ?_, ?_, ?_, ?_, ?_, ?_⟩ <;> (try simp only [dNE]) <;>
      (try unfold file) <;> (try unfold rank) <;> omega
  · refine ⟨rfl, Or.inr rfl, ?_, ?_, ?_, ?_, ?_, ?_, ?_, ?_, ?_⟩ <;> (try simp only [dNW]) <;>
      (try unfold file) <;> (try unfold rank) <;> omega

section arith
variable {k e F : Nat} {cap d : Int × Int} (G : EpCoords e F cap) (hd : GoodDir d)
include G hd

theorem ep_A1 {i j : Nat} (hF : OnRay k d i F) (hP : OnRay k d j (e - 8)) (h2 : d.2 ≠ 0) : False := by
  obtain ⟨ha, hb, _⟩ := hd
  obtain ⟨a, b⟩ := d
  obtain ⟨c, c'⟩ := cap
  obtain ⟨g1, g2, g3, g4, g5, g6, g7, -, -, -, -⟩ := G
  unfold OnRay at hF hP
  dsimp only at *
  subst g1
  rcases ha with rfl | rfl | rfl <;> rcases hb with rfl | rfl | rfl <;> rcases g2 with rfl | rfl <;> omega

theorem ep_A2 {i : Nat} (hF : OnRay k d i F) (hc : d = cap) : OnRay k d (i + 1) e := by
  subst hc
  obtain ⟨c, c'⟩ := d
  obtain ⟨g1, g2, g3, g4, g5, g6, g7, -, -, -, -⟩ := G
  unfold OnRay at *
  dsimp only at *
  subst g1
  rcases g2 with rfl | rfl <;> constructor <;> omega

theorem ep_A3 {i : Nat} (hF : OnRay k d i F) (hc : d = (-cap.1, -cap.2)) (hi : 1 ≤ i) :
    OnRay k d (i - 1) e := by
  subst hc
  obtain ⟨c, c'⟩ := cap
  obtain ⟨g1, g2, g3, g4, g5, g6, g7, -, -, -, -⟩ := G
  unfold OnRay at *
  dsimp only at *
  subst g1
  rcases g2 with rfl | rfl <;> constructor <;> omega

theorem ep_A4 {i : Nat} (hP : OnRay k d i (e - 8)) (h1 : d.1 = 0) (hi : 1 ≤ i) :
    OnRay k d (i + 1) e ∨ OnRay k d (i - 1) e := by
  obtain ⟨ha, hb, hab⟩ := hd
  obtain ⟨a, b⟩ := d
  obtain ⟨g1, g2, g3, g4, g5, g6, g7, -, -, -, -⟩ := G
  unfold OnRay at *
  dsimp only at *
  subst h1
  rcases hb with rfl | rfl | rfl
  · right; constructor <;> omega
  · omega
  · left; constructor <;> omega

theorem ep_A5 {i j : Nat} (hP : OnRay k d i (e - 8)) (hO : OnRay k d j (e + 8)) (h1 : d.1 ≠ 0) : False := by
  obtain ⟨ha, hb, _⟩ := hd
  obtain ⟨a, b⟩ := d
  obtain ⟨g1, g2, g3, g4, g5, g6, g7, -, -, g10, g11⟩ := G
  unfold OnRay at hP hO
  dsimp only at *
  rcases ha with rfl | rfl | rfl <;> rcases hb with rfl | rfl | rfl <;> omega

end arith

theorem not_EW_of_slider {pc : Piece} {d : Int × Int} (h : SliderOn pc d) (hEW : ¬ (d = dE ∨ d = dW)) :
    d.2 ≠ 0 := by
  rcases h with ⟨hd, _⟩ | ⟨hd, _⟩
  · simp only [diag_eq, List.mem_cons, List.not_mem_nil, or_false] at hd
    rcases hd with rfl | rfl | rfl | rfl <;> decide
  · simp only [orth_eq, List.mem_cons, List.not_mem_nil, or_false] at hd
    rcases hd with rfl | rfl | rfl | rfl
    · exact absurd (Or.inl rfl) hEW
    · exact absurd (Or.inr rfl) hEW
    · decide
    · decide

theorem rookish_of_EW {pc : Piece} {d : Int × Int} (h : SliderOn pc d) (hEW : d = dE ∨ d = dW) :
    pc.kind = .rook ∨ pc.kind = .queen := by
  rcases h with ⟨hd, _⟩ | ⟨_, h⟩
  · exfalso
    simp only [diag_eq, List.mem_cons, List.not_mem_nil, or_false] at hd
    rcases hEW with rfl | rfl <;> rcases hd with hd | hd | hd | hd <;> exact absurd hd (by decide)
  · exact h

/-! ### soundness -/

theorem ep_sound {B : Board} {k e F : Nat} {cap : Int × Int} (C : EpCtx B k e F cap)
    (hBn : B (e + 8) = none) (hEb : attackedBy (prePush B e) false k = false)
    (c1 : EpC1 B k F cap) (c2 : EpC2 B k e) (c3 : EpC3 B k e F) :
    attackedBy (epBoard B F e) false k = false := by
  have G := C.coords
  cases hA : attackedBy (epBoard B F e) false k
  · rfl
  exfalso
  obtain ⟨s, hs64, pc, hB'', hw, ha⟩ := (attackedBy_iff _ _ _).mp hA
  have hsB : s ≠ e ∧ s ≠ e - 8 ∧ s ≠ F ∧ B s = some pc := by
    rw [epBoard_at] at hB''
    by_cases h1 : s = e
    · rw [if_pos h1] at hB''; injection hB'' with h; rw [← h] at hw; cases hw
    · rw [if_neg h1] at hB''
      by_cases h2 : s = e - 8
      · rw [if_pos h2] at hB''; cases hB''
      · rw [if_neg h2] at hB''
        by_cases h3 : s = F
        · rw [if_pos h3] at hB''; cases hB''
        · rw [if_neg h3] at hB''; exact ⟨h1, h2, h3, hB''⟩
  obtain ⟨hse, hsP, hsF, hBs⟩ := hsB
  rcases (pieceAttacks_iff _ _ _ _).mp ha with hl | ⟨d, hsl, hr⟩
  · exact hsP (c2.1 s pc hs64 hBs hw hl)
  have hgd := goodDir_of_slider hsl
  obtain ⟨n, hn, hsn, hclr⟩ := (rayHit_pts _ hgd C.k64 hs64).mp hr
  have hb : ∀ i x, 1 ≤ i → i < n → OnRay k d i x → x ≠ e ∧ (x = F ∨ x = e - 8 ∨ B x = none) := by
    intro i x h1 h2 hx
    have := hclr i x h1 h2 hx
    rw [epBoard_at] at this
    by_cases e1 : x = e
    · rw [if_pos e1] at this; cases this
    · rw [if_neg e1] at this
      refine ⟨e1, ?_⟩
      by_cases e2 : x = e - 8
      · exact Or.inr (Or.inl e2)
      · rw [if_neg e2] at this
        by_cases e3 : x = F
        · exact Or.inl e3
        · rw [if_neg e3] at this; exact Or.inr (Or.inr this)
  have he_off : ∀ i, i ≤ n → ¬ OnRay k d i e := by
    intro i hi hx
    rcases Nat.eq_zero_or_pos i with h0 | h0
    · subst h0
      have := onRay_zero hx
      have hBe := C.Be
      rw [this, C.Bk] at hBe; cases hBe
    · rcases Nat.lt_or_eq_of_le hi with h | h
      · exact (hb i e h0 h hx).1 rfl
      · subst h; exact hse (onRay_inj hsn hx)
  by_cases hEW : d = dE ∨ d = dW
  · have := c3 s pc hs64 hBs hw (rookish_of_EW hsl hEW)
    rcases hEW with rfl | rfl
    · exact this.1 hr
    · exact this.2 hr
  have hd2 := not_EW_of_slider hsl hEW
  by_cases hFon : ∃ i, 1 ≤ i ∧ i < n ∧ OnRay k d i F
  · obtain ⟨i0, h01, h0n, hF⟩ := hFon
    have hP : ∀ j, ¬ OnRay k d j (e - 8) := fun j hj => ep_A1 G hgd hF hj hd2
    have h1 : RayHit B k d F := rayHit_of_pts hgd C.k64 G.F64 h01 hF fun i x hi1 hi2 hx => by
      rcases (hb i x hi1 (Nat.lt_trans hi2 h0n) hx).2 with h | h | h
      · subst h; exact absurd (onRay_idx hgd hx hF) (Nat.ne_of_lt hi2)
      · subst h; exact absurd hx (hP i)
      · exact h
    have h2 : RayHit B F d s := by
      refine rayHit_of_pts hgd G.F64 hs64 (n := n - i0) (by omega) ?_ fun j x hj1 hj2 hx => ?_
      · rw [onRay_add hF, show i0 + (n - i0) = n by omega]; exact hsn
      · have hx' := (onRay_add hF).mp hx
        rcases (hb (i0 + j) x (by omega) (by omega) hx').2 with h | h | h
        · subst h; have := onRay_idx hgd hx' hF; omega
        · subst h; exact absurd hx' (hP _)
        · exact h
    rcases c1 d s pc h1 h2 hs64 hBs hw hsl with hd | hd
    · exact he_off (i0 + 1) (by omega) (ep_A2 G hgd hF hd)
    · exact he_off (i0 - 1) (by omega) (ep_A3 G hgd hF hd h01)
  · by_cases hPon : ∃ i, 1 ≤ i ∧ i < n ∧ OnRay k d i (e - 8)
    · obtain ⟨i0, h01, h0n, hP⟩ := hPon
      by_cases hd1 : d.1 = 0
      · rcases ep_A4 G hgd hP hd1 h01 with h | h
        · exact he_off (i0 + 1) (by omega) h
        · exact he_off (i0 - 1) (by omega) h
      · have : attackedBy (prePush B e) false k = true := by
          refine (attackedBy_iff _ _ _).mpr ⟨s, hs64, pc, ?_, hw, (pieceAttacks_iff _ _ _ _).mpr
            (Or.inr ⟨d, hsl, rayHit_of_pts hgd C.k64 hs64 hn hsn fun i x hi1 hi2 hx => ?_⟩)⟩
          · rw [prePush_at, if_neg (fun h => by rw [h, hBn] at hBs; cases hBs), if_neg hsP]; exact hBs
          · rw [prePush_at]
            by_cases e1 : x = e + 8
            · subst e1; exact absurd hx (fun h => ep_A5 G hgd hP h hd1)
            · rw [if_neg e1]
              by_cases e2 : x = e - 8
              · rw [if_pos e2]
              · rw [if_neg e2]
                rcases (hb i x hi1 hi2 hx).2 with h | h | h
                · subst h; exact absurd ⟨i, hi1, hi2, hx⟩ hFon
                · exact absurd h e2
                · exact h
        rw [this] at hEb; cases hEb
    · have hrB : RayHit B k d s := rayHit_of_pts hgd C.k64 hs64 hn hsn fun i x hi1 hi2 hx => by
        rcases (hb i x hi1 hi2 hx).2 with h | h | h
        · subst h; exact absurd ⟨i, hi1, hi2, hx⟩ hFon
        · subst h; exact absurd ⟨i, hi1, hi2, hx⟩ hPon
        · exact h
      have hre := c2.2 s pc d hs64 hBs hw hsl hrB
      obtain ⟨n', i, hi1, hin, hsn', hei⟩ := rayHit_before hgd C.k64 hs64 C.e64 hrB hre
        (by rw [hBs]; exact fun h => by cases h) C.Be
      have := onRay_idx hgd hsn' hsn
      subst this
      exact he_off i (Nat.le_of_lt hin) hei

/-! ### completeness -/

theorem ep_A6 {k e F : Nat} {cap d : Int × Int} (G : EpCoords e F cap) (hd : GoodDir d) {i j : Nat}
    (hF : OnRay k d i F) (he : OnRay k d j e) : d = cap ∨ d = (-cap.1, -cap.2) := by
  obtain ⟨ha, hb, _⟩ := hd
  obtain ⟨a, b⟩ := d
  obtain ⟨c, c'⟩ := cap
  obtain ⟨g1, g2, g3, g4, g5, g6, g7, -, -, -, -⟩ := G
  unfold OnRay at hF he
  dsimp only at *
  subst g1
  rcases ha with rfl | rfl | rfl <;> rcases hb with rfl | rfl | rfl <;> rcases g2 with rfl | rfl <;>
    first | exact Or.inl rfl | exact Or.inr rfl | omega

theorem slider_not_pawn {pc : Piece} {d : Int × Int} (h : SliderOn pc d) (hp : pc.kind = .pawn) : False := by
  rcases h with ⟨_, h | h⟩ | ⟨_, h | h⟩ <;> rw [hp] at h <;> cases h

theorem ep_complete {B : Board} {k e F : Nat} {cap : Int × Int} (C : EpCtx B k e F cap)
    (hL : attackedBy (epBoard B F e) false k = false) :
    EpC1 B k F cap ∧ EpC2 B k e ∧ EpC3 B k e F := by
  have G := C.coords
  have hno : ∀ s pc, s < 64 → B s = some pc → pc.white = false → s ≠ e - 8 →
      pieceAttacks (epBoard B F e) s pc k = true → False := by
    intro s pc hs hBs hw hsP ha
    have hB'' : epBoard B F e s = some pc := by
      rw [epBoard_at, if_neg (fun h => by rw [h, C.Be] at hBs; cases hBs), if_neg hsP,
        if_neg (fun h => by rw [h, C.BF] at hBs; injection hBs with h'; rw [← h'] at hw; cases hw)]
      exact hBs
    have := (attackedBy_iff _ _ _).mpr ⟨s, hs, pc, hB'', hw, ha⟩
    rw [hL] at this; cases this
  have hsP_of_slider : ∀ {s pc d}, B s = some pc → SliderOn pc d → s ≠ e - 8 := by
    intro s pc d hBs hsl h
    rw [h, C.BP] at hBs
    injection hBs with h'
    exact slider_not_pawn hsl (by rw [← h'])
  refine ⟨?_, ⟨?_, ?_⟩, ?_⟩
  · -- pins of the capturer
    intro d s pc h1 h2 hs hBs hw hsl
    have hgd := goodDir_of_slider hsl
    apply Classical.byContradiction
    intro hne
    obtain ⟨i0, h01, hF, hc1⟩ := (rayHit_pts _ hgd C.k64 G.F64).mp h1
    obtain ⟨m, hm1, hFs, hc2⟩ := (rayHit_pts _ hgd G.F64 hs).mp h2
    have he_off : ∀ j, ¬ OnRay k d j e := fun j hj => hne (ep_A6 G hgd hF hj)
    refine hno s pc hs hBs hw (hsP_of_slider hBs hsl) ((pieceAttacks_iff _ _ _ _).mpr (Or.inr ⟨d, hsl,
      rayHit_of_pts hgd C.k64 hs (n := i0 + m) (by omega) ((onRay_add hF).mp hFs) fun i x hi1 hi2 hx => ?_⟩))
    rw [epBoard_at, if_neg (fun (h : x = e) => he_off i (by rw [← h]; exact hx))]
    by_cases e2 : x = e - 8
    · rw [if_pos e2]
    · rw [if_neg e2]
      by_cases e3 : x = F
      · rw [if_pos e3]
      · rw [if_neg e3]
        rcases Nat.lt_trichotomy i i0 with h | h | h
        · exact hc1 i x hi1 h hx
        · subst h; exact absurd (onRay_inj hx hF) e3
        · exact hc2 (i - i0) x (by omega) (by omega)
            ((onRay_add hF).mpr (by rw [show i0 + (i - i0) = i by omega]; exact hx))
  · -- leapers
    intro s pc hs hBs hw hl
    apply Classical.byContradiction
    intro hsP
    exact hno s pc hs hBs hw hsP ((pieceAttacks_iff _ _ _ _).mpr (Or.inl hl))
  · -- sliders
    intro s pc d hs hBs hw hsl hr
    have hgd := goodDir_of_slider hsl
    apply Classical.byContradiction
    intro hne
    obtain ⟨n, hn, hsn, hc⟩ := (rayHit_pts _ hgd C.k64 hs).mp hr
    refine hno s pc hs hBs hw (hsP_of_slider hBs hsl) ((pieceAttacks_iff _ _ _ _).mpr (Or.inr ⟨d, hsl,
      rayHit_of_pts hgd C.k64 hs hn hsn fun i x hi1 hi2 hx => ?_⟩))
    rw [epBoard_at]
    by_cases e1 : x = e
    · subst e1
      exact absurd (rayHit_of_pts hgd C.k64 C.e64 hi1 hx fun j y hj1 hj2 hy =>
        hc j y hj1 (Nat.lt_trans hj2 hi2) hy) hne
    · rw [if_neg e1]
      by_cases e2 : x = e - 8
      · rw [if_pos e2]
      · rw [if_neg e2]
        by_cases e3 : x = F
        · rw [if_pos e3]
        · rw [if_neg e3]; exact hc i x hi1 hi2 hx
  · -- the rank
    intro s pc hs hBs hw hk
    have hsP : s ≠ e - 8 := by
      intro h; rw [h, C.BP] at hBs; injection hBs with h'
      rcases hk with hk | hk <;> rw [← h'] at hk <;> cases hk
    constructor
    · intro hr
      exact hno s pc hs hBs hw hsP ((pieceAttacks_iff _ _ _ _).mpr
        (Or.inr ⟨dE, Or.inr ⟨by simp [orth_eq], hk⟩, hr⟩))
    · intro hr
      exact hno s pc hs hBs hw hsP ((pieceAttacks_iff _ _ _ _).mpr
        (Or.inr ⟨dW, Or.inr ⟨by simp [orth_eq], hk⟩, hr⟩))

/-- the en-passant capture leaves the king unattacked iff the three conditions hold. -/
theorem ep_core {B : Board} {k e F : Nat} {cap : Int × Int} (C : EpCtx B k e F cap)
    (hBn : B (e + 8) = none) (hEb : attackedBy (prePush B e) false k = false) :
    attackedBy (epBoard B F e) false k = false ↔ EpC1 B k F cap ∧ EpC2 B k e ∧ EpC3 B k e F :=
  ⟨ep_complete C, fun ⟨c1, c2, c3⟩ => ep_sound C hBn hEb c1 c2 c3⟩

end Rawr.Att
