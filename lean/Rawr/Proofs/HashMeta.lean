import Rawr.Proofs.HashMoveN
import Rawr.Proofs.HashNull
/-! C04(a): the en-passant / castling-right / turn part of the key under `makemove`, and the
hypotheses `KeyHyps` (on the position) and `MoveShape` (on the move). -/
namespace Rawr.ZH
open Rawr Rawr.Position

/-- what C04(a) needs of the position: board consistency (V.1), at most one king of the side to move,
and every castling right backed by a rook of the right colour on its square (as `validate` demands). -/
def KeyHyps (p : Position) : Bool :=
  Consistent p && decide (count (p.c0 &&& p.p5) ≤ 1) &&
  (!p.usK || (p.c0 &&& p.p3).isSet (fromCoords p.cf0 0)) &&
  (!p.usQ || (p.c0 &&& p.p3).isSet (fromCoords p.cf1 0)) &&
  (!p.themK || (p.c1 &&& p.p3).isSet (fromCoords p.cf2 7)) &&
  (!p.themQ || (p.c1 &&& p.p3).isSet (fromCoords p.cf3 7))

/-- square `x` is the move's origin, its target, or empty. -/
def emptyOr (p : Position) (x : Nat) (m : Mv) : Bool :=
  x == m.src || x == m.dst || !(p.c0 ||| p.c1).isSet x

/-- the shape every generated move has: an own piece on `src`; `dst` is empty, holds an enemy piece,
or holds the own castling rook (castling is "king takes own rook", towards the right side, with the
king's and rook's target squares free); a pawn leaves its file to an empty square only onto the
en-passant square, with the enemy pawn behind it; promotion pieces only for pawns. -/
def MoveShape (p : Position) (m : Mv) : Bool :=
  decide (m.src < 64) && decide (m.dst < 64) && p.c0.isSet m.src &&
  match p.pieceOn m.src with
  | none => false
  | some i =>
    if p.c0.isSet m.dst then
      i == 5 && m.promo == 6 &&
      (if p.usK && m.dst == fromCoords p.cf0 0 then decide (m.src < m.dst) && emptyOr p 6 m && emptyOr p 5 m
       else p.usQ && m.dst == fromCoords p.cf1 0 && decide (m.dst < m.src) && emptyOr p 2 m && emptyOr p 3 m)
    else
      (!(i == 0 && fileOf m.src != fileOf m.dst && (p.pieceOn m.dst).isNone) ||
        (p.ep == some m.dst && decide (8 ≤ m.dst) && (p.c1 &&& p.p0).isSet (m.dst - 8) && m.promo == 6)) &&
      (m.promo == 6 || (i == 0 && decide (m.promo < 6)))

/-- the key change caused by en-passant state and castling rights (the same expression for every move). -/
def metaDelta (K : ZKeys) (p : Position) (m : Mv) (i : Nat) : BB :=
  epKey K p.ep ^^^ onKey (i == 0 && m.dst - m.src == 16) (K.ep (fileOf m.dst)) ^^^
  onKey (p.usK && m.src == fromCoords p.cf0 0) (K.castling (2 * col p.black)) ^^^
  onKey (p.usQ && m.src == fromCoords p.cf1 0) (K.castling (2 * col p.black + 1)) ^^^
  onKey (p.usK && i == 5) (K.castling (2 * col p.black)) ^^^
  onKey (p.usQ && i == 5) (K.castling (2 * col p.black + 1)) ^^^
  onKey (p.themK && m.dst == fromCoords p.cf2 7) (K.castling (2 * col (!p.black))) ^^^
  onKey (p.themQ && m.dst == fromCoords p.cf3 7) (K.castling (2 * col (!p.black) + 1))

/-- facts that make the rights update of `makemove` agree with the toggles of `predict_hash`. -/
structure RFacts (p : Position) (m : Mv) (i : Nat) : Prop where
  a1 : (m.src == lsb (p.c0 &&& p.p5)) = (i == 5)
  a2K : p.usK = true → (i == 5 && m.src == fromCoords p.cf0 0) = false
  a3K : p.usK = true → (m.dst == fromCoords p.cf0 0) = true → (i == 5) = true
  a2Q : p.usQ = true → (i == 5 && m.src == fromCoords p.cf1 0) = false
  a3Q : p.usQ = true → (m.dst == fromCoords p.cf1 0) = true → (i == 5) = true
  b1 : (m.src == lsb (p.c1 &&& p.p5)) = false
  b2K : p.themK = true → (m.src == fromCoords p.cf2 7) = false
  b2Q : p.themQ = true → (m.src == fromCoords p.cf3 7) = false

theorem rightU (c : BB) (r k5 a b : Bool) (h1 : r = true → (k5 && a) = false)
    (h2 : r = true → b = true → k5 = true) :
    onKey (r && (!k5 && !a && !b)) c = onKey r c ^^^ onKey (r && a) c ^^^ onKey (r && k5) c := by
  cases r <;> cases k5 <;> cases a <;> cases b <;> simp_all [onKey]

theorem rightT (c : BB) (r a b : Bool) (h : r = true → a = false) :
    onKey (r && (!false && !a && !b)) c = onKey r c ^^^ onKey (r && b) c := by
  cases r <;> cases a <;> cases b <;> simp_all [onKey]

theorem fileOf_sub8 {s d : Nat} (h : (d - s == 16) = true) : fileOf (d - 8) = fileOf d := by
  have : d - s = 16 := by simpa using h
  unfold fileOf
  omega

theorem meta_move (K : ZKeys) {p : Position} {m : Mv} {i : Nat} (r : RFacts p m i) (S : Position)
    (hep : S.ep = if (i == 0 && m.dst - m.src == 16) = true then some (m.dst - 8) else none)
    (hUK : S.usK = (p.usK && (m.src != lsb (p.c0 &&& p.p5) && m.src != fromCoords p.cf0 0 && m.dst != fromCoords p.cf0 0)))
    (hUQ : S.usQ = (p.usQ && (m.src != lsb (p.c0 &&& p.p5) && m.src != fromCoords p.cf1 0 && m.dst != fromCoords p.cf1 0)))
    (hTK : S.themK = (p.themK && (m.src != lsb (p.c1 &&& p.p5) && m.src != fromCoords p.cf2 7 && m.dst != fromCoords p.cf2 7)))
    (hTQ : S.themQ = (p.themQ && (m.src != lsb (p.c1 &&& p.p5) && m.src != fromCoords p.cf3 7 && m.dst != fromCoords p.cf3 7))) :
    metaKey K p.black S.ep S.usK S.usQ S.themK S.themQ =
      metaKey K p.black p.ep p.usK p.usQ p.themK p.themQ ^^^ metaDelta K p m i := by
  have e1 : epKey K S.ep = onKey (i == 0 && m.dst - m.src == 16) (K.ep (fileOf m.dst)) := by
    rw [hep]
    cases h : (i == 0 && m.dst - m.src == 16)
    · rfl
    · have h2 : (m.dst - m.src == 16) = true := by
        cases h3 : (m.dst - m.src == 16)
        · rw [h3] at h; simp at h
        · rfl
      simp [epKey, onKey, fileOf_sub8 h2]
  have e2 := rightU (K.castling (2 * col p.black)) p.usK (i == 5) (m.src == fromCoords p.cf0 0)
    (m.dst == fromCoords p.cf0 0) r.a2K r.a3K
  have e3 := rightU (K.castling (2 * col p.black + 1)) p.usQ (i == 5) (m.src == fromCoords p.cf1 0)
    (m.dst == fromCoords p.cf1 0) r.a2Q r.a3Q
  have e4 := rightT (K.castling (2 * col (!p.black))) p.themK (m.src == fromCoords p.cf2 7)
    (m.dst == fromCoords p.cf2 7) r.b2K
  have e5 := rightT (K.castling (2 * col (!p.black) + 1)) p.themQ (m.src == fromCoords p.cf3 7)
    (m.dst == fromCoords p.cf3 7) r.b2Q
  unfold metaKey metaDelta
  rw [e1, hUK, hUQ, hTK, hTQ]
  simp only [bne, r.a1, r.b1]
  rw [e2, e3, e4, e5]
  generalize epKey K p.ep = x0
  have h0 : ∀ a : BB, a = x0 ^^^ x0 ^^^ a := fun a => by rw [BitVec.xor_self, BitVec.zero_xor]
  refine (h0 _).trans ?_
  ac_rfl

theorem keyHyps_consistent {p : Position} (h : KeyHyps p = true) : Consistent p = true := by
  simp only [KeyHyps, Bool.and_eq_true] at h
  exact h.1.1.1.1.1

theorem lsb_ne_of_unset {b : BB} {x : Nat} (hx : x < 64) (h : b.getLsbD x = false) : (x == lsb b) = false := by
  rcases lsb_cases b with e | e
  · rw [e]; simp; omega
  · cases hh : (x == lsb b)
    · rfl
    · have : x = lsb b := by simpa using hh
      rw [← this, h] at e
      cases e

theorem rfacts_of {p : Position} {m : Mv} {i : Nat} (kh : KeyHyps p = true) (hs : m.src < 64)
    (h0s : p.c0.getLsbD m.src = true) (hpo : p.pieceOn m.src = some i)
    (h3K : p.usK = true → (m.dst == fromCoords p.cf0 0) = true → (i == 5) = true)
    (h3Q : p.usQ = true → (m.dst == fromCoords p.cf1 0) = true → (i == 5) = true) : RFacts p m i := by
  have hC := keyHyps_consistent kh
  simp only [KeyHyps, Bool.and_eq_true, Bool.or_eq_true, Bool.not_eq_true', decide_eq_true_eq, BB.isSet,
    BitVec.getLsbD_and] at kh
  obtain ⟨⟨⟨⟨⟨_, hk1⟩, bK⟩, bQ⟩, tK⟩, tQ⟩ := kh
  have h1s : p.c1.getLsbD m.src = false := by
    have := disj_bit hC m.src
    rw [h0s] at this
    simpa using this
  have hp5 : p.p5.getLsbD m.src = (i == 5) := by
    have := piece_bit hC m.src 5
    rw [hpo] at this
    simp only [Position.piece] at this
    rw [this]
    by_cases h : i = 5 <;> simp [h]
  have rook : ∀ x, p.p3.getLsbD x = true → p.pieceOn x = some 3 := by
    intro x hx
    have := piece_bit hC x 3
    simp only [Position.piece] at this
    rw [hx] at this
    simpa using this.symm
  refine ⟨?_, ?_, h3K, ?_, h3Q, ?_, ?_, ?_⟩
  · cases h5 : (i == 5)
    · apply lsb_ne_of_unset hs
      rw [BitVec.getLsbD_and, hp5, h5, Bool.and_false]
    · have : (p.c0 &&& p.p5).getLsbD m.src = true := by rw [BitVec.getLsbD_and, hp5, h5, h0s]; rfl
      rw [lsb_unique hk1 this]
      simp
  · intro hu
    rcases bK with e | e
    · rw [hu] at e; cases e
    · cases h5 : (i == 5)
      · rfl
      · cases hh : (m.src == fromCoords p.cf0 0)
        · rfl
        · have e1 : m.src = fromCoords p.cf0 0 := by simpa using hh
          have := rook _ e.2
          rw [← e1, hpo] at this
          have : i = 3 := by simpa using this
          subst this
          cases h5
  · intro hu
    rcases bQ with e | e
    · rw [hu] at e; cases e
    · cases h5 : (i == 5)
      · rfl
      · cases hh : (m.src == fromCoords p.cf1 0)
        · rfl
        · have e1 : m.src = fromCoords p.cf1 0 := by simpa using hh
          have := rook _ e.2
          rw [← e1, hpo] at this
          have : i = 3 := by simpa using this
          subst this
          cases h5
  · apply lsb_ne_of_unset hs
    rw [BitVec.getLsbD_and, h1s, Bool.false_and]
  · intro hu
    rcases tK with e | e
    · rw [hu] at e; cases e
    · cases hh : (m.src == fromCoords p.cf2 7)
      · rfl
      · have e1 : m.src = fromCoords p.cf2 7 := by simpa using hh
        rw [← e1, h1s] at e
        cases e.1
  · intro hu
    rcases tQ with e | e
    · rw [hu] at e; cases e
    · cases hh : (m.src == fromCoords p.cf3 7)
      · rfl
      · have e1 : m.src = fromCoords p.cf3 7 := by simpa using hh
        rw [← e1, h1s] at e
        cases e.1

end Rawr.ZH
