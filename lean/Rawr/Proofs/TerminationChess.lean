import Rawr.Props.C02
import Rawr.Props.C01_shape
import Rawr.Props.C08
import Rawr.Props.C08d
import Rawr.Proofs.FenValidOfSpec
import Rawr.Proofs.TerminationCore
import Rawr.Proofs.TerminationSpec
/-! Termination, part 4: the engine model against the potentials of `TerminationSpec`.

`menP p` / `potP p` are the potentials of the position denoted by `p`. One ply of the model
(`move_step`: a generated move that is legal by the rules, made with key update; `capt_step`: a generated
capture made without key update, as quiescence does; `null_step`) keeps the position in the domain `ValidPos`
(`ValidH` = up to the stored key, which quiescence leaves stale) and moves the potentials as
`apply_potential` says. -/
namespace Rawr.Term
open Rawr Rawr.Spec Rawr.MM Rawr.Position Rawr.ZH Rawr.SV

/-- number of men on the board denoted by `p`. -/
def menP (p : Position) : Nat := men (abs p).board
/-- men plus remaining pawn advancement. -/
def potP (p : Position) : Nat := pot (abs p).board

/-- `p` with the key recomputed. -/
def fixHash (p : Position) : Position := wh p p.calculateHash
/-- `p` is in the domain V up to its stored key. -/
def ValidH (p : Position) : Prop := ValidPos (fixHash p) = true

theorem fixHash_of_valid {p : Position} (h : ValidPos p = true) : fixHash p = p := by
  have hh := (valid_unpack h).2.2.2.2.2.2
  show ({ p with hash := p.calculateHash } : Position) = p
  rw [← hh]

theorem validH_of_valid {p : Position} (h : ValidPos p = true) : ValidH p := by
  unfold ValidH; rw [fixHash_of_valid h]; exact h

theorem menP_le (p : Position) : menP p ≤ 64 := men_le _
theorem potP_le (p : Position) : potP p ≤ 512 := pot_le _

theorem menP_pos {p : Position} (h : ValidH p) : 1 ≤ menP p :=
  valid_men_pos (a := abs p) (valid_unpack h).2.1

theorem halfmoves_nonneg {p : Position} (h : ValidH p) : 0 ≤ p.halfmoves :=
  ((valid_iff (abs p)).mp (valid_unpack h).2.1).half

/-! ## the engine's capture test implies the rules' -/

theorem specCapture_of_isCapture {q : Position} {m : Mv} (hV : ValidPos q = true)
    (hs : MoveShape q m = true) (hc : q.isCapture m = true) : SpecCapture (abs q) (decodeMove q m) := by
  obtain ⟨hC, _⟩ := valid_unpack hV
  have vf := vfacts_of_valid hV
  obtain ⟨hs64, hd64⟩ := shape_dst_lt hs
  have hdec : q.c0.getLsbD m.dst = false → decodeMove q m =
      .normal (absSq q.black m.src) (absSq q.black m.dst)
        (if (m.promo == 6) = true then none else some (kindOf m.promo)) := by
    intro h0d
    unfold decodeMove
    rw [BB.isSet, h0d]
    rfl
  unfold Position.isCapture at hc
  simp only [Bool.or_eq_true, Bool.and_eq_true, BB.isSet] at hc
  rcases hc with h1d | ⟨⟨hp0, _⟩, hep⟩
  · have h0d : q.c0.getLsbD m.dst = false := by
      have := disj_bit hC m.dst
      rw [h1d] at this
      simpa using this
    rw [hdec h0d]
    left
    show (absBoard q (absSq q.black m.dst)).isSome = true
    rw [(view_of_consistent hC).absBoard (absSq_lt _ hd64)]
    simp only [absSq_absSq]
    have ho := occ_bit hC m.dst
    rw [h0d, h1d] at ho
    obtain ⟨k, hk⟩ := Option.isSome_iff_exists.mp ho.symm
    rw [hk]
    simp [h0d, h1d]
  · have hep' : q.ep = some m.dst := by simpa using hep
    obtain ⟨_, _, h0d, _, _⟩ := vf.ep _ hep'
    rw [hdec h0d]
    right
    have h0s : q.c0.getLsbD m.src = true := by
      unfold MoveShape at hs
      simp only [Bool.and_eq_true, decide_eq_true_eq, BB.isSet] at hs
      exact hs.1.2
    refine ⟨⟨!q.black, .pawn⟩, ?_, rfl, ?_⟩
    · show absBoard q (absSq q.black m.src) = _
      rw [(view_of_consistent hC).absBoard (absSq_lt _ hs64)]
      simp only [absSq_absSq]
      rw [pawn_piece hC hp0]
      simp [h0s, kindOf]
    · show q.ep.map (absSq q.black) = _
      rw [hep']
      rfl

/-! ## one ply -/

/-- a generated move that is legal by the rules, made with key update. -/
theorem move_step {q : Position} {m : Mv} (hV : ValidPos q = true) (hm : m ∈ legalMoves q)
    (hL : decodeMove q m ∈ Spec.legalMoves (abs q))
    (hh : q.halfmoves + 1 < 2147483648) (hf : q.fullmoves + 1 < 2147483648) :
    ∃ q', q.makemove m true = some q' ∧ ValidPos q' = true ∧
      q'.halfmoves ≤ q.halfmoves + 1 ∧ q'.fullmoves ≤ q.fullmoves + 1 ∧
      menP q' ≤ menP q ∧ (q.isCapture m = true → menP q' < menP q) ∧
      (potP q' < potP q ∨ (potP q' ≤ potP q ∧ q'.halfmoves = q.halfmoves + 1)) := by
  have hs := gen_moveShape q hV m hm
  obtain ⟨q', hq⟩ := C02_makemove_total q m hV hs
  have hs2 := shape2_of_legal hV hs hL
  obtain ⟨hV', b1, b2⟩ := validPos_step hV hs2 hL hq hh hf
  have he : abs q' = Spec.apply (abs q) (decodeMove q m) := abs_eq_apply hV hs2 hq
  obtain ⟨p1, p2, p3⟩ := apply_potential (valid_unpack hV).2.1 hL
  rw [← he] at p1 p2 p3
  exact ⟨q', hq, hV', b1, b2, p1, fun hc => p2 (specCapture_of_isCapture hV hs hc), p3⟩

theorem consistent_pawn_disj {p : Position} (hC : Consistent p = true) :
    p.p0 &&& p.p1 = 0#64 ∧ p.p0 &&& p.p2 = 0#64 ∧ p.p0 &&& p.p3 = 0#64 ∧
    p.p0 &&& p.p4 = 0#64 ∧ p.p0 &&& p.p5 = 0#64 := by
  simp only [Consistent, Bool.and_eq_true, beq_iff_eq] at hC
  obtain ⟨⟨⟨⟨⟨⟨⟨⟨⟨⟨⟨⟨⟨⟨⟨⟨_, h1⟩, h2⟩, h3⟩, h4⟩, h5⟩, _⟩, _⟩, _⟩, _⟩, _⟩, _⟩, _⟩, _⟩, _⟩, _⟩, _⟩ := hC
  exact ⟨h1, h2, h3, h4, h5⟩

theorem mem_captures {q : Position} {m : Mv} (hC : Consistent q = true) (hm : m ∈ legalCaptures q) :
    m ∈ legalMoves q ∧ q.isCapture m = true := by
  rw [C08b_captures_filter q (consistent_pawn_disj hC), List.mem_filter] at hm
  exact hm

/-- `makemove::<false>` neither reads nor changes the stored key. -/
theorem makemove_false_wh {q : Position} {m : Mv} {h : BB} {r : Position}
    (hr : (wh q h).makemove m false = some r) : q.makemove m false = some (wh r q.hash) := by
  rw [makemove_eq_staged, mmStaged_eq] at hr ⊢
  have hpo : (wh q h).pieceOn m.src = q.pieceOn m.src := rfl
  rw [hpo] at hr
  cases hi : q.pieceOn m.src with
  | none => rw [hi] at hr; cases hr
  | some i =>
    rw [hi] at hr
    simp only [Option.bind_eq_bind, Option.bind_some, Option.pure_def, Bool.false_eq_true, if_false] at hr ⊢
    have e : mmFrom (wh q h) m i (wh q h).hash = mmFrom q m i h := rfl
    rw [e] at hr
    rw [mmFrom_wh q m i q.hash h, hr]
    rfl

/-- a generated capture that is legal by the rules, made without key update (as quiescence does). -/
theorem capt_step {q : Position} {m : Mv} (hV : ValidH q) (hm : m ∈ legalCaptures q)
    (hL : decodeMove q m ∈ Spec.legalMoves (abs q))
    (hh : q.halfmoves + 1 < 2147483648) (hf : q.fullmoves + 1 < 2147483648) :
    ∃ q', q.makemove m false = some q' ∧ ValidH q' ∧
      q'.halfmoves ≤ q.halfmoves + 1 ∧ q'.fullmoves ≤ q.fullmoves + 1 ∧ menP q' < menP q := by
  have hm' : m ∈ legalCaptures (fixHash q) := hm
  obtain ⟨hmm, hcap⟩ := mem_captures (valid_unpack hV).1 hm'
  obtain ⟨r, hr, hVr, b1, b2, _, p2, _⟩ := move_step (q := fixHash q) hV hmm hL hh hf
  obtain ⟨r2, hr2⟩ := C02_makemove_total' (fixHash q) m false hV (gen_moveShape _ hV m hmm)
  have hflag : wh r r2.hash = r2 := makemove_flag hr hr2
  have hq' := makemove_false_wh hr2
  have eh : (wh r2 q.hash).halfmoves = r.halfmoves := by rw [← hflag]; rfl
  have ef : (wh r2 q.hash).fullmoves = r.fullmoves := by rw [← hflag]; rfl
  have em : menP (wh r2 q.hash) = menP r := by rw [← hflag]; rfl
  have b1' : r.halfmoves ≤ q.halfmoves + 1 := b1
  have b2' : r.fullmoves ≤ q.fullmoves + 1 := b2
  have p2' : menP r < menP q := p2 hcap
  refine ⟨wh r2 q.hash, hq', ?_, by omega, by omega, by omega⟩
  have e : fixHash (wh r2 q.hash) = r := by
    rw [← hflag]
    show wh r r.calculateHash = r
    exact fixHash_of_valid hVr
  unfold ValidH
  rw [e]
  exact hVr

/-- the model's check test is the rules'. -/
theorem inCheck_spec {q : Position} (hV : ValidPos q = true) :
    q.inCheck = Spec.inCheck (abs q).board (abs q).whiteToMove := by
  obtain ⟨hC, hS, _⟩ := valid_unpack hV
  obtain ⟨kW, kB⟩ := Rawr.FenV.king_counts hC hS
  have k0 : count (q.p5 &&& q.c0) = 1 ∧ count (q.p5 &&& q.c1) = 1 := by
    rw [BitVec.and_comm q.p5 q.c0, BitVec.and_comm q.p5 q.c1]
    unfold Position.white at kW
    unfold Position.blackBB at kB
    cases hb : q.black
    · rw [hb] at kW kB
      exact ⟨kW, kB⟩
    · rw [hb] at kW kB
      exact ⟨kB, kW⟩
  exact C08d_inCheck q hC k0.1 (by omega)

/-- a null move out of check. -/
theorem null_step {q : Position} (hV : ValidPos q = true) (hc : q.inCheck = false) :
    ValidPos q.makenull = true ∧ q.makenull.halfmoves = 0 ∧ q.makenull.fullmoves = q.fullmoves ∧
      potP q.makenull = potP q := by
  have hc' : Spec.inCheck (abs q).board (abs q).whiteToMove = false := by rw [← inCheck_spec hV]; exact hc
  obtain ⟨hVn, h1, h2⟩ := validPos_null hV hc'
  refine ⟨hVn, h1, h2, ?_⟩
  unfold potP
  rw [abs_makenull hV]
  rfl

/-! ## quiescence -/

/-- hypotheses on a set `D` of positions closed under the captures quiescence makes: the capture lists fit
the ordering buffer, and every generated capture is legal by the rules (C01). All three only for positions that
are in the domain V up to the stored key. -/
structure CaptDom (D : Position → Prop) : Prop where
  capt : ∀ q m q', D q → ValidH q → m ∈ legalCaptures q → q.makemove m false = some q' → D q'
  fit : ∀ q, D q → ValidH q → (legalCaptures q).length ≤ Gen.orderBufQsearch
  legal : ∀ q, D q → ValidH q → ∀ m ∈ legalCaptures q, decodeMove q m ∈ Spec.legalMoves (abs q)

/-- the invariant of the capture tree. -/
def QInv (D : Position → Prop) (q : Position) : Prop :=
  D q ∧ ValidH q ∧ q.halfmoves + menP q < 2147483648 ∧ q.fullmoves + menP q < 2147483648

theorem captDom_qdom {D : Position → Prop} (hD : CaptDom D) : QDomT (QInv D) (fun q => menP q - 1) := by
  constructor
  · intro q hq
    exact hD.fit q hq.1 hq.2.1
  · intro q m hq hm
    obtain ⟨hDq, hV, hh, hf⟩ := hq
    have hpos := menP_pos hV
    obtain ⟨q', hmk, hV', b1, b2, hlt⟩ := capt_step hV hm (hD.legal q hDq hV m hm) (by omega) (by omega)
    have hpos' := menP_pos hV'
    exact ⟨q', hmk, ⟨hD.capt q m q' hDq hV hm hmk, hV', by omega, by omega⟩, by omega⟩

theorem qinv_of_valid {D : Position → Prop} {p : Position} (hp : D p) (hV : ValidH p)
    (hh : p.halfmoves + 64 < 2147483648) (hf : p.fullmoves + 64 < 2147483648) : QInv D p := by
  have := menP_le p
  exact ⟨hp, hV, by omega, by omega⟩

/-- quiescence answers on every fuel from the number of men on. -/
theorem qsearch_total_chess {D : Position → Prop} (hD : CaptDom D) {p : Position} (hp : D p) (hV : ValidH p)
    (hh : p.halfmoves + 64 < 2147483648) (hf : p.fullmoves + 64 < 2147483648)
    (f : Nat) (hfuel : menP p ≤ f) (st : QState) (α β ply : Int) :
    ∃ r, qsearch f p st α β ply = some r := by
  have := menP_pos hV
  exact qsearch_total (captDom_qdom hD) f p (qinv_of_valid hp hV hh hf) (by show menP p - 1 < f; omega) st α β ply

theorem qminimax_total_chess {D : Position → Prop} (hD : CaptDom D) {p : Position} (hp : D p) (hV : ValidH p)
    (hh : p.halfmoves + 64 < 2147483648) (hf : p.fullmoves + 64 < 2147483648)
    (f : Nat) (hfuel : menP p ≤ f) : ∃ v, qminimax f p = some v := by
  have := menP_pos hV
  exact qminimax_total (captDom_qdom hD) f p (qinv_of_valid hp hV hh hf) (by show menP p - 1 < f; omega)

/-! ## the main search -/

/-- hypotheses on a set `D` of positions closed under the three kinds of ply the search makes: the move lists
fit the ordering buffer, and every generated move is legal by the rules (C01). All clauses only for positions
that are in the domain V (up to the stored key where quiescence is concerned); the null move only where the
model tries one (not in check, not `isEndgame`). -/
structure ChessDom (D : Position → Prop) : Prop where
  move : ∀ q m q', D q → ValidPos q = true → m ∈ legalMoves q → q.makemove m true = some q' → D q'
  capt : ∀ q m q', D q → ValidH q → m ∈ legalCaptures q → q.makemove m false = some q' → D q'
  null : ∀ q, D q → ValidPos q = true → q.inCheck = false → isEndgame q = false → D q.makenull
  fit : ∀ q, D q → ValidH q → (legalMoves q).length ≤ Gen.orderBufNegamax
  legal : ∀ q, D q → ValidH q → ∀ m ∈ legalMoves q, decodeMove q m ∈ Spec.legalMoves (abs q)

theorem ChessDom.captDom {D : Position → Prop} (hD : ChessDom D) : CaptDom D := by
  refine ⟨hD.capt, fun q hq hV => ?_, fun q hq hV m hm => ?_⟩
  · have := C08b_captures_length_le q
    have := hD.fit q hq hV
    show _ ≤ 218
    have e : Gen.orderBufNegamax = 218 := rfl
    omega
  · have hm' : m ∈ legalCaptures (fixHash q) := hm
    exact hD.legal q hq hV m (mem_captures (valid_unpack hV).1 hm').1

/-- the invariant of the search tree, with `n` plies of counter budget left. -/
def NInv (D : Position → Prop) (n : Nat) (q : Position) : Prop :=
  D q ∧ ValidPos q = true ∧ q.halfmoves + n + 64 < 2147483648 ∧ q.fullmoves + n + 64 < 2147483648

theorem chessDom_ndom {D : Position → Prop} (hD : ChessDom D) : NDomT (NInv D) potP := by
  constructor
  · intro n q hq
    exact hD.fit q hq.1 (validH_of_valid hq.2.1)
  · intro n q hq st α β ply
    obtain ⟨hDq, hV, hh, hf⟩ := hq
    have h0 := halfmoves_nonneg (validH_of_valid hV)
    exact qsearch_total_chess hD.captDom hDq (validH_of_valid hV) (by omega) (by omega) qFuel (menP_le q) _ _ _ _
  · intro n q hq
    exact halfmoves_nonneg (validH_of_valid hq.2.1)
  · intro n q m hq hm
    obtain ⟨hDq, hV, hh, hf⟩ := hq
    obtain ⟨q', hmk, hV', b1, b2, _, _, hpot⟩ :=
      move_step hV hm (hD.legal q hDq (validH_of_valid hV) m hm) (by omega) (by omega)
    exact ⟨q', hmk, ⟨hD.move q m q' hDq hV hm hmk, hV', by omega, by omega⟩, hpot⟩
  · intro n q hq hc he
    obtain ⟨hDq, hV, hh, hf⟩ := hq
    obtain ⟨hVn, h1, h2, h3⟩ := null_step hV hc
    have h0 := halfmoves_nonneg (validH_of_valid hV)
    exact ⟨⟨hD.null q hDq hV hc he, hVn, by omega, by omega⟩, by omega⟩

end Rawr.Term
