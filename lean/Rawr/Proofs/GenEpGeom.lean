import Rawr.Proofs.PreludeGeom
/-!
# Tools for the pawn classes of C01: rays by index, attacks as rays, shifted sets
-/
set_option linter.unusedSimpArgs false
namespace Rawr.Att
open Spec

/-- `x` is the `i`-th square of the ray from `k` in direction `d`. -/
def OnRay (k : Nat) (d : Int × Int) (i : Nat) (x : Nat) : Prop :=
  file x = file k + d.1 * i ∧ rank x = rank k + d.2 * i

/-- `RayHit`, pointwise: `s` is the `n`-th square and the squares of index `1 … n-1` are empty. -/
theorem rayHit_pts (X : Board) {d : Int × Int} (hd : GoodDir d) {k s : Nat} (hk : k < 64) (hs : s < 64) :
    RayHit X k d s ↔
      ∃ n : Nat, 1 ≤ n ∧ OnRay k d n s ∧ ∀ i x, 1 ≤ i → i < n → OnRay k d i x → X x = none := by
  obtain ⟨ha, hb, hab⟩ := hd
  obtain ⟨a, b⟩ := d
  dsimp only at ha hb hab
  have fk := file_bounds k
  have rk := rank_bounds hk
  have fs := file_bounds s
  have rs := rank_bounds hs
  unfold RayHit OnRay
  dsimp only
  constructor
  · rintro ⟨n, hn, hf, hr, hc⟩
    rw [clearBetween_iff X ha hb hab k s n hn hf hr] at hc
    refine ⟨n, hn, ⟨hf, hr⟩, fun i x h1 h2 hx => ?_⟩
    have := hc i h1 h2
    rw [← hx.1, ← hx.2, sq_file_rank, isNone_iff] at this
    exact this
  · rintro ⟨n, hn, ⟨hf, hr⟩, h⟩
    refine ⟨n, hn, hf, hr, (clearBetween_iff X ha hb hab k s n hn hf hr).mpr fun i h1 h2 => ?_⟩
    have hon : onBoard (file k + a * i) (rank k + b * i) = true := by
      rw [onBoard_iff]
      rcases ha with rfl | rfl | rfl <;> rcases hb with rfl | rfl | rfl <;> omega
    rw [isNone_iff]
    exact h i _ h1 h2 ⟨file_sq hon, rank_sq hon⟩

/-- a square is determined by its index on a ray. -/
theorem onRay_inj {k : Nat} {d : Int × Int} {i : Nat} {x y : Nat} (hx : OnRay k d i x) (hy : OnRay k d i y) :
    x = y :=
  eq_of_file_rank (by rw [hx.1, hy.1]) (by rw [hx.2, hy.2])

/-! ### attacks as rays from the target -/

theorem diagAtt_rayHit (X : Board) (s k : Nat) :
    diagAtt X s k = true ↔ ∃ d ∈ diag, RayHit X k d s := by
  rw [diagAtt_symm, diagAtt_iff]
  unfold Aligned RayHit
  constructor
  · rintro ⟨⟨d, hd, j, h1, h2, h3⟩, hc⟩; exact ⟨d, hd, j, h1, h2, h3, hc⟩
  · rintro ⟨d, hd, j, h1, h2, h3, hc⟩; exact ⟨⟨d, hd, j, h1, h2, h3⟩, hc⟩

theorem orthAtt_rayHit (X : Board) (s k : Nat) :
    orthAtt X s k = true ↔ ∃ d ∈ orth, RayHit X k d s := by
  rw [orthAtt_symm, orthAtt_iff]
  unfold Aligned RayHit
  constructor
  · rintro ⟨⟨d, hd, j, h1, h2, h3⟩, hc⟩; exact ⟨d, hd, j, h1, h2, h3, hc⟩
  · rintro ⟨d, hd, j, h1, h2, h3, hc⟩; exact ⟨⟨d, hd, j, h1, h2, h3⟩, hc⟩

/-- the attack of a pawn, knight or king: board independent. -/
def leaperAtt (pc : Piece) (s k : Nat) : Bool :=
  match pc.kind with
  | .pawn => pawnStep pc.white s k
  | .knight => knightStep s k
  | .king => kingStep s k
  | _ => false

/-- the piece slides along direction `d`. -/
def SliderOn (pc : Piece) (d : Int × Int) : Prop :=
  (d ∈ diag ∧ (pc.kind = .bishop ∨ pc.kind = .queen)) ∨ (d ∈ orth ∧ (pc.kind = .rook ∨ pc.kind = .queen))

theorem pieceAttacks_iff (X : Board) (s : Nat) (pc : Piece) (k : Nat) :
    pieceAttacks X s pc k = true ↔
      leaperAtt pc s k = true ∨ ∃ d, SliderOn pc d ∧ RayHit X k d s := by
  rw [pieceAttacks_split]
  obtain ⟨w, kd⟩ := pc
  unfold leaperAtt SliderOn
  cases kd <;> simp only [Bool.false_eq_true, false_or, or_false, reduceCtorEq, and_false, and_true,
    or_true, true_or, false_and, exists_false, Bool.or_eq_true, diagAtt_rayHit, orthAtt_rayHit]
  constructor
  · rintro (⟨d, h1, h2⟩ | ⟨d, h1, h2⟩)
    · exact ⟨d, Or.inl h1, h2⟩
    · exact ⟨d, Or.inr h1, h2⟩
  · rintro ⟨d, h1 | h1, h2⟩
    · exact Or.inl ⟨d, h1, h2⟩
    · exact Or.inr ⟨d, h1, h2⟩

theorem goodDir_of_slider {pc : Piece} {d : Int × Int} (h : SliderOn pc d) : GoodDir d := by
  rcases h with ⟨h, _⟩ | ⟨h, _⟩
  · exact goodDir_diag d h
  · exact goodDir_orth d h

end Rawr.Att
