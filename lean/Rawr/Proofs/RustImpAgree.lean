import Rawr.Generated.RustImp
import Rawr.Generated.StartPos
/-!
# The hand-written model agrees with the IMPERATIVE functions regenerated from the Rust source

`Rawr/Generated/RustImp.lean` is rewritten by `tools/rust2lean_imp.py` from /repo on every run: each `R.<fn>` is
compiled statement by statement from the Rust body of `<fn>` (position.rs, flip.rs, makenull.rs, zobrist.rs,
attacks.rs, validate.rs, eval.rs; makemove.rs in `RustImpAgree_MakeMove.lean`).  The theorems below say that the
model definition IS the regenerated one (as functions, all arguments).  Any change to the Rust text of one of
these functions changes the generated definition and breaks the corresponding theorem on the next run.

Proof styles: `rfl` where the compiled term has the model's shape up to unfolding of getters, `let`s and
structure eta; otherwise `unfold` + rewriting with earlier agreement theorems + `cases` on a Bool/Option.
(No `simp` on the large terms: `simp` would inline the `let` chains.)
-/
set_option linter.unusedSimpArgs false
namespace Rawr
open Position

/-! ## position.rs -/
theorem agree_get_turn : @R.get_turn = @Position.black := rfl
theorem agree_get_us : @R.get_us = @Position.us := rfl
theorem agree_get_them : @R.get_them = @Position.them := rfl
theorem agree_get_white : @R.get_white = @Position.white := by
  funext p; unfold R.get_white Position.white; cases p.black <;> rfl
theorem agree_get_black : @R.get_black = @Position.blackBB := by
  funext p; unfold R.get_black Position.blackBB; cases p.black <;> rfl
theorem agree_get_side : @R.get_side = @Position.side := rfl
theorem agree_get_empty : @R.get_empty = @Position.empty := rfl
theorem agree_get_occupied : @R.get_occupied = @Position.occ := rfl
theorem agree_get_pawns : @R.get_pawns = @Position.pawns := rfl
theorem agree_get_knights : @R.get_knights = @Position.knightsBB := rfl
theorem agree_get_bishops : @R.get_bishops = @Position.bishops := rfl
theorem agree_get_rooks : @R.get_rooks = @Position.rooks := rfl
theorem agree_get_queens : @R.get_queens = @Position.queens := rfl
theorem agree_get_kings : @R.get_kings = @Position.kings := rfl
theorem agree_get_piece : @R.get_piece = @Position.piece := rfl
theorem agree_get_piece_on : @R.get_piece_on = @Position.pieceOn := rfl
theorem agree_get_colour_on : @R.get_colour_on = @Position.colourOn := rfl
theorem agree_is_occupied : @R.is_occupied = fun p sq => p.occ.isSet sq := rfl
theorem agree_is_empty : @R.is_empty = fun p sq => !p.occ.isSet sq := rfl
theorem agree_is_capture : @R.is_capture = @Position.isCapture := rfl

/-! ## flip.rs, makenull.rs, after_null.rs  (`if self.ep.is_some() { .. unwrap() .. }` is a `match`; the model
uses `Option.map`: one `cases` on the en-passant field) -/
theorem agree_flip : @R.flip = @Position.flip := by
  funext p
  rcases p with ⟨c0, c1, p0, p1, p2, p3, p4, p5, hm, fm, bl, ep, uk, uq, tk, tq, f0, f1, f2, f3, h, frc⟩
  cases ep <;> rfl
theorem agree_from_flipped : @R.from_flipped = @Position.flip := by
  funext p; unfold R.from_flipped; rw [agree_flip]

/-! ## zobrist.rs -/
/-- `colour as usize * 6 * 64 + piece as usize * 64 + sq.0 as usize` is the model's `zIndex`. -/
theorem agree_get_index : @R.get_index = @zIndex := by
  funext b pc sq; cases b <;> simp [R.get_index, zIndex, col]
theorem agree_ep_key : @R.ep_key = fun sq => genKeys.ep (fileOf sq) := rfl
theorem agree_turn_key : R.turn_key = genKeys.turn := rfl
theorem agree_white_pov : @R.white_pov = @Position.whitePov := by
  funext bb b; cases b <;> rfl

theorem agree_predict_hash : @R.predict_hash = @Position.predictHashK genKeys := by
  funext p m
  unfold R.predict_hash Position.predictHashK
  rw [agree_get_index]
  rfl
theorem agree_predict_hash' : @R.predict_hash = @Position.predictHash := agree_predict_hash

theorem agree_calculate_hash : @R.calculate_hash = @Position.calculateHashK genKeys := by
  funext p
  unfold R.calculate_hash Position.calculateHashK
  rw [agree_get_index, agree_white_pov, agree_get_white, agree_get_black]
  rfl
theorem agree_calculate_hash' : @R.calculate_hash = @Position.calculateHash := agree_calculate_hash

theorem agree_makenull : @R.makenull = @Position.makenull := by
  funext p
  rcases p with ⟨c0, c1, p0, p1, p2, p3, p4, p5, hm, fm, bl, ep, uk, uq, tk, tq, f0, f1, f2, f3, h, frc⟩
  cases ep <;> rfl
theorem agree_after_null : @R.after_null = @Position.makenull := by
  funext p; unfold R.after_null; rw [agree_makenull]

/-! ## attacks.rs -/
theorem agree_is_safe : @R.is_safe = @isSafe := rfl
theorem agree_is_sq_attacked : @R.is_sq_attacked = @Position.isSqAttacked := rfl

private theorem ite_true_false (b : Bool) : (if b = true then true else false) = b := by cases b <;> rfl

/-- `for sq in bb { if c { return true; } } false` is compiled to `if (toList bb).any c then true else false`. -/
theorem agree_is_bb_attacked : @R.is_bb_attacked = @Position.isBbAttacked := by
  funext p bb them
  unfold R.is_bb_attacked Position.isBbAttacked
  rw [ite_true_false]
  rfl

private theorem zero_or' (x : BB) : (0#64 ||| x) = x := by simp

/-- the Rust starts from `Bitboard::empty()` and `|=`s the pawn attacks; the model starts from the pawn attacks. -/
theorem agree_get_attacked : @R.get_attacked = @Position.getAttacked := by
  funext p mask them
  unfold R.get_attacked Position.getAttacked
  simp only [zero_or']
  cases them <;> rfl
theorem agree_in_check : @R.in_check = @Position.inCheck := rfl
theorem agree_in_check_them : @R.in_check_them = @Position.inCheckThem := rfl

/-! ## validate.rs
Bridges: (1) `count()` is an `i32` in Rust (`Int` in the compiled term), the model compares the `Nat`;
(2) the `if let Some(ep) = self.ep { .. return Err(..) .. }` block that may fall through is compiled to an
`Option`-valued join (`early`), the model uses `epErr`; (3) the model writes `bit (ep % 64)` for
`Bitboard::from_square(ep)` (the optimised build masks the shift), the compiled term `bit ep`: the two are only
reached when `rankOf ep = 5`, where `ep % 64 = ep`. -/
private theorem natCast_bne_one (n : Nat) : ((n : Int) != 1) = (n != 1) := by
  rw [Bool.eq_iff_iff]; simp only [bne_iff_ne, ne_eq]; omega

theorem agree_validate : @R.validate = @Position.validate := by
  funext p
  unfold R.validate Position.validate
  rw [agree_is_sq_attacked, agree_get_white, agree_get_black]
  simp only [natCast_bne_one, R.get_pawns, R.get_knights, R.get_bishops, R.get_rooks, R.get_queens, R.get_kings,
    R.get_us, R.get_them, R.get_occupied, Position.occ]
  cases p.ep with
  | none => rfl
  | some ep =>
    by_cases hr : (rankOf ep != 5) = true
    · simp only [hr, if_true] <;> rfl
    · have e64 : ep % 64 = ep := by
        simp only [rankOf, bne_iff_ne, ne_eq, Decidable.not_not] at hr; omega
      simp only [hr, e64, if_false]
      by_cases hb : (south (bit ep) &&& p.c1 &&& p.p0).isEmpty = true
      · simp only [hb, if_true, Bool.false_eq_true, if_false]
      · simp only [hb, if_false]
        by_cases hc : (bit ep &&& (p.c0 ||| p.c1)).isOcc = true
        · simp only [hc, if_true, Bool.false_eq_true, if_false]
        · simp only [hc, if_false, Bool.false_eq_true]
          rfl

end Rawr

#print axioms Rawr.agree_flip
#print axioms Rawr.agree_makenull
#print axioms Rawr.agree_predict_hash
#print axioms Rawr.agree_calculate_hash
#print axioms Rawr.agree_is_bb_attacked
#print axioms Rawr.agree_get_attacked
#print axioms Rawr.agree_validate
