import Rawr.Proofs.SpecSanityPerftDefs
/-! perft of `kiwipete`, depth 2, slice 3: the subtrees of 11 first moves (kernel-evaluated). -/
namespace Rawr.SpecS
open Rawr.Spec

theorem kiwi2_3 :
    (([.normal 35 43 none, .normal 35 44 none, .normal 36 19 none, .normal 36 26 none,
      .normal 36 30 none, .normal 36 42 none, .normal 36 46 none, .normal 36 51 none,
      .normal 36 53 none, .castle true, .castle false] : List Move).map
      fun m => leaves (apply kiwipete m) 1).sum = 474 := by decide +kernel

end Rawr.SpecS
