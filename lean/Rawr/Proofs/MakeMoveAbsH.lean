import Rawr.Proofs.MakeMoveAbsG
import Rawr.Proofs.MakeMoveAbsV5
/-! C02 (4),(5) on the engine side: `ValidPos` is preserved by a shaped, specification-legal move and by
a null move out of check. -/
namespace Rawr.MM
open Rawr Rawr.Position Rawr.Spec Rawr.ZH Rawr.SV

/-- the specification's null move: pass the turn, forget the en-passant target (and, as the engine does,
zero the half-move clock). -/
def specPass (a : APos) : APos := { a with whiteToMove := !a.whiteToMove, ep := none, half := 0 }

theorem counters_apply (a : APos) (mv : Move) (h0 : 0 ≤ a.half) :
    (apply a mv).half ≤ a.half + 1 ∧ (apply a mv).full ≤ a.full + 1 := by
  cases mv with
  | normal s t pr =>
    cases hb : a.board s with
    | none =>
      have : apply a (.normal s t pr) = a := by simp only [apply, hb]
      rw [this]; omega
    | some pc =>
      rw [apply_normal hb]
      simp only []
      constructor
      · split <;> omega
      · split <;> omega
  | castle ks =>
    cases hr : right a a.whiteToMove ks with
    | none =>
      have : apply a (.castle ks) = a := by simp only [apply, hr]
      rw [this]; omega
    | some rf =>
      cases hk : kingSquares a.board a.whiteToMove with
      | nil =>
        have : apply a (.castle ks) = a := by simp only [apply, hr, hk]
        rw [this]; omega
      | cons k l =>
        rw [apply_castle hr hk]
        simp only []
        constructor
        · omega
        · split <;> omega

/-- (4): a shaped move that is legal by the rules leads to a valid position (with key update). -/
theorem validPos_step {p : Position} {m : Mv} {q : Position} (hV : ValidPos p = true)
    (hs : MoveShape2 p m = true) (hL : decodeMove p m ∈ Spec.legalMoves (abs p))
    (hq : p.makemove m true = some q)
    (hh : p.halfmoves + 1 < 2147483648) (hf : p.fullmoves + 1 < 2147483648) :
    ValidPos q = true ∧ q.halfmoves ≤ p.halfmoves + 1 ∧ q.fullmoves ≤ p.fullmoves + 1 := by
  obtain ⟨hC, hS, c0, c1, c2, c3, hh0⟩ := valid_unpack hV
  have kh := keyHyps_of_valid hV
  have hs' := hs
  simp only [MoveShape2, Bool.and_eq_true] at hs'
  obtain ⟨_, q', _, hq', so⟩ := makemove_out hV hs'.1 true
  rw [hq'] at hq
  cases hq
  have he := abs_eq_apply hV hs hq'
  have hval : Valid (abs q) = true := by rw [he]; exact valid_apply hS hL
  have h0 : 0 ≤ (abs p).half := ((valid_iff _).mp hS).half
  obtain ⟨b1, b2⟩ := counters_apply (abs p) (decodeMove p m) h0
  rw [← he] at b1 b2
  have b1 : q.halfmoves ≤ p.halfmoves + 1 := b1
  have b2 : q.fullmoves ≤ p.fullmoves + 1 := b2
  have hhash := (move_preserves kh hs'.1 hh0 hq').2
  obtain ⟨e0, e1, e2, e3, _⟩ := so.cf
  refine ⟨?_, b1, b2⟩
  simp only [ValidPos, Bool.and_eq_true, decide_eq_true_eq, beq_iff_eq]
  refine ⟨⟨⟨⟨⟨⟨⟨⟨so.consistent, hval⟩, by omega⟩, by omega⟩, by omega⟩, by omega⟩, by omega⟩, by omega⟩, hhash⟩

/-! ### the null move -/

theorem abs_makenull {p : Position} (hV : ValidPos p = true) : abs p.makenull = specPass (abs p) := by
  obtain ⟨hC, _⟩ := valid_unpack hV
  have h := abs_flip { p with hash := p.makenull.hash } (fun x => disj_bit hC x)
  refine eq_of_absEq ?_ (offEmpty_abs _) (show OffEmpty (specPass (abs p)).board from offEmpty_abs p)
  exact ⟨fun s hs => h.board s hs, h.turn, h.wK, h.wQ, h.bK, h.bQ, rfl, rfl, h.full⟩

theorem valid_pass {a : APos} (hv : Valid a = true) (hc : inCheck a.board a.whiteToMove = false) :
    Valid (specPass a) = true := by
  rw [valid_iff] at hv ⊢
  refine ⟨hv.kw, hv.kb, hv.pawns, ?_, ?_, ?_, ?_, hv.full⟩
  · show inCheck a.board (!(!a.whiteToMove)) = false
    rw [Bool.not_not]; exact hc
  · intro w ks f hr
    have : right (specPass a) w ks = right a w ks := by cases w <;> cases ks <;> rfl
    rw [this] at hr
    exact hv.rights w ks f hr
  · intro e he; cases he
  · show (0 : Int) ≤ 0
    omega

theorem validPos_null {p : Position} (hV : ValidPos p = true)
    (hc : inCheck (abs p).board (abs p).whiteToMove = false) :
    ValidPos p.makenull = true ∧ p.makenull.halfmoves = 0 ∧ p.makenull.fullmoves = p.fullmoves := by
  obtain ⟨hC, hS, c0, c1, c2, c3, hh0⟩ := valid_unpack hV
  have hval : Valid (abs p.makenull) = true := by rw [abs_makenull hV]; exact valid_pass hS hc
  have hcons : Consistent p.makenull = true := consistent_flip (S := { p with hash := p.makenull.hash }) hC
  have hhash := null_preserves p hh0
  have hf : p.fullmoves < 2147483648 := by
    simp only [ValidPos, Bool.and_eq_true, decide_eq_true_eq] at hV
    exact hV.1.1.1.1.1.2
  refine ⟨?_, rfl, rfl⟩
  simp only [ValidPos, Bool.and_eq_true, decide_eq_true_eq, beq_iff_eq]
  exact ⟨⟨⟨⟨⟨⟨⟨⟨hcons, hval⟩, by show (0 : Int) < _; omega⟩, hf⟩, c2⟩, c3⟩, c0⟩, c1⟩, hhash⟩

/-! ### the pawn geometry follows from legality by the rules -/

theorem pawnGeom_of_legal {p : Position} {m : Mv} (hV : ValidPos p = true) (hm : MoveShape p m = true)
    (hL : decodeMove p m ∈ Spec.legalMoves (abs p)) : PawnGeom p m = true := by
  obtain ⟨hC, _⟩ := valid_unpack hV
  obtain ⟨hs, hd⟩ := shape_dst_lt hm
  unfold PawnGeom
  cases hpo : p.pieceOn m.src with
  | none => rfl
  | some i =>
    by_cases hi : i = 0
    · subst hi
      have hm' := hm
      unfold MoveShape at hm'
      rw [hpo] at hm'
      simp only [Bool.and_eq_true, decide_eq_true_eq, BB.isSet] at hm'
      obtain ⟨⟨_, h0s⟩, hrest⟩ := hm'
      have h0d : p.c0.getLsbD m.dst = false := by
        cases h : p.c0.getLsbD m.dst
        · rfl
        · rw [if_pos h] at hrest
          simp at hrest
      have hdec : decodeMove p m = .normal (absSq p.black m.src) (absSq p.black m.dst)
          (if (m.promo == 6) = true then none else some (kindOf m.promo)) := by
        unfold decodeMove
        rw [BB.isSet, h0d]
        rfl
      rw [hdec] at hL
      rcases legal_cases hL with ⟨s, t, pr, pc, e, nl, _⟩ | ⟨ks, e, _⟩
      · cases e
        have hb : (abs p).board (absSq p.black m.src) = some ⟨!p.black, kindOf 0⟩ := by
          show absBoard p _ = _
          rw [(view_of_consistent hC).absBoard (absSq_lt _ hs)]
          simp only [absSq_absSq, hpo, h0s, if_true]
        have hpc : pc = ⟨!p.black, .pawn⟩ := by
          have := nl.hpc
          rw [hb] at this
          exact (Option.some.inj this).symm
        subst hpc
        have hr := nl.pawnRank rfl
        rw [rank_absSq _ hs, rank_absSq _ hd, file_absSq _ hs, file_absSq _ hd] at hr
        simp only [Bool.or_eq_true, Bool.not_eq_true', beq_iff_eq, rankOf]
        simp only [pdir, fileOf] at hr
        cases hbk : p.black <;> simp only [hbk, Bool.not_false, Bool.not_true, if_true, Bool.false_eq_true, if_false] at hr
        · rcases hr with h | ⟨h1, h2, _⟩
          · left; right; omega
          · right; omega
        · rcases hr with h | ⟨h1, h2, _⟩
          · left; right; omega
          · right; omega
      · cases e
    · have : (some i == some 0) = false := by
        rw [some_beq]; simp; exact fun e => hi e.symm
      simp [this]

/-- `MoveShape` together with legality by the rules gives `MoveShape2`. -/
theorem shape2_of_legal {p : Position} {m : Mv} (hV : ValidPos p = true) (hm : MoveShape p m = true)
    (hL : decodeMove p m ∈ Spec.legalMoves (abs p)) : MoveShape2 p m = true := by
  simp only [MoveShape2, Bool.and_eq_true]
  exact ⟨hm, pawnGeom_of_legal hV hm hL⟩

end Rawr.MM
