import Rawr.Proofs.GenCastle
/-!
# C01, castling, model side: `castleOk` in the mover's frame
-/
namespace Rawr.Att
open Spec

/-! ### `line_between` on the back rank -/

theorem lineBetween_table : ∀ (a b : Fin 8) (s : Fin 64),
    ((lineBetween a.val b.val).getLsbD s.val || decide (s.val = a.val))
      = decide (min a.val b.val ≤ s.val ∧ s.val ≤ max a.val b.val) := by decide +kernel

theorem mem_lineBetween {a b : Nat} (ha : a < 8) (hb : b < 8) (s : Nat) (hs : s < 64) :
    ((lineBetween a b).getLsbD s = true ∨ s = a) ↔ s ∈ span a b := by
  have := lineBetween_table ⟨a, ha⟩ ⟨b, hb⟩ ⟨s, hs⟩
  simp only at this
  rw [mem_span, ← decide_eq_true_iff (p := min a b ≤ s ∧ s ≤ max a b), ← this]
  simp


/-! ### the path test -/

theorem isEmpty_iff (X : BB) : X.isEmpty = true ↔ ∀ s, s < 64 → X.getLsbD s = false := by
  have h := isOcc_iff X
  have e : X.isEmpty = !X.isOcc := by
    unfold BB.isEmpty BB.isOcc; cases h0 : (X == 0#64) <;> simp [bne, h0]
  rw [e]
  constructor
  · intro hn s hs
    cases hX : X.getLsbD s
    · rfl
    · have := h.mpr ⟨s, hs, hX⟩
      rw [this] at hn; cases hn
  · intro hall
    cases ho : X.isOcc
    · rfl
    · obtain ⟨s, hs, hX⟩ := h.mp ho
      rw [hall s hs] at hX; cases hX

theorem path_empty_iff {B : Board} {occ : BB} (ho : OccRep B occ) {k r kT rT : Nat}
    (hk : k < 8) (hr : r < 8) (hkT : kT < 8) (hrT : rT < 8) :
    (occ &&& (lineBetween k kT ||| lineBetween r rT) &&& ~~~bit k &&& ~~~bit r).isEmpty = true ↔
      ∀ s ∈ span k kT ++ span r rT, s = k ∨ s = r ∨ B s = none := by
  rw [isEmpty_iff]
  simp only [BitVec.getLsbD_and, BitVec.getLsbD_or, BitVec.getLsbD_not, getLsbD_bit, List.mem_append]
  constructor
  · intro h s hs
    have hs64 : s < 64 := by
      rcases hs with hs | hs <;> have := (mem_span _ _ _).mp hs <;> omega
    have := h s hs64
    by_cases e1 : s = k
    · exact Or.inl e1
    · by_cases e2 : s = r
      · exact Or.inr (Or.inl e2)
      · right; right
        have hl : ((lineBetween k kT).getLsbD s || (lineBetween r rT).getLsbD s) = true := by
          rcases hs with hs | hs
          · rcases (mem_lineBetween hk hkT s hs64).mpr hs with h' | h'
            · rw [h']; rfl
            · exact absurd h' e1
          · rcases (mem_lineBetween hr hrT s hs64).mpr hs with h' | h'
            · rw [h']; simp
            · exact absurd h' e2
        rw [hl, ho s hs64] at this
        simp only [hs64, decide_true, e1, e2, decide_false, Bool.and_false, Bool.not_false, Bool.and_true]
          at this
        cases hB : B s with
        | none => rfl
        | some _ => rw [hB] at this; simp at this
  · intro h s hs64
    by_cases e1 : s = k
    · simp [e1]
    · by_cases e2 : s = r
      · simp [e2]
      · by_cases hl : ((lineBetween k kT).getLsbD s || (lineBetween r rT).getLsbD s) = true
        · have hm : s ∈ span k kT ∨ s ∈ span r rT := by
            rw [Bool.or_eq_true] at hl
            rcases hl with hl | hl
            · exact Or.inl ((mem_lineBetween hk hkT s hs64).mp (Or.inl hl))
            · exact Or.inr ((mem_lineBetween hr hrT s hs64).mp (Or.inl hl))
          rcases h s hm with h' | h' | h'
          · exact absurd h' e1
          · exact absurd h' e2
          · rw [ho s hs64, h']; simp
        · have : ((lineBetween k kT).getLsbD s || (lineBetween r rT).getLsbD s) = false := by
            simpa using hl
          rw [this]; simp



/-! ### the prelude's check flag -/

theorem isOcc_or (X Y : BB) : (X ||| Y).isOcc = (X.isOcc || Y.isOcc) := by
  rw [Bool.eq_iff_iff, Bool.or_eq_true, isOcc_iff, isOcc_iff, isOcc_iff]
  simp only [BitVec.getLsbD_or, Bool.or_eq_true]
  constructor
  · rintro ⟨s, hs, h | h⟩
    · exact Or.inl ⟨s, hs, h⟩
    · exact Or.inr ⟨s, hs, h⟩
  · rintro (⟨s, hs, h⟩ | ⟨s, hs, h⟩)
    · exact ⟨s, hs, Or.inl h⟩
    · exact ⟨s, hs, Or.inr h⟩

theorem isOcc_zero : BB.isOcc (0#64 : BB) = false := by decide

theorem and_isOcc_of_empty {X Y : BB} (h : Y.isOcc = false) : (X &&& Y).isOcc = false := by
  cases hX : (X &&& Y).isOcc
  · rfl
  · obtain ⟨s, hs, hb⟩ := (isOcc_iff _).mp hX
    rw [BitVec.getLsbD_and, Bool.and_eq_true] at hb
    have := (isOcc_iff Y).mpr ⟨s, hs, hb.2⟩
    rw [h] at this; cases this

theorem prelude_inCheck_eq (p : Position) :
    (prelude p).inCheck =
      (let us := p.c0
       let them := p.c1
       let occ := p.occ
       let ksq := lsb (p.p5 &&& us)
       let diag := (them &&& (p.p2 ||| p.p4)).isOcc
       let orth := (them &&& (p.p3 ||| p.p4)).isOcc
       let bishopRays := (if diag then rayNE ksq occ else 0#64) ||| (if diag then raySW ksq occ else 0#64) |||
         (if diag then rayNW ksq occ else 0#64) ||| (if diag then raySE ksq occ else 0#64)
       let rookRays := (if orth then rayN ksq occ else 0#64) ||| (if orth then rayS ksq occ else 0#64) |||
         (if orth then rayE ksq occ else 0#64) ||| (if orth then rayW ksq occ else 0#64)
       ((northEast (us &&& p.p5) ||| northWest (us &&& p.p5)) &&& them &&& p.p0 |||
        knights (bit ksq) &&& p.p1 &&& them ||| bishopRays &&& them &&& (p.p2 ||| p.p4) |||
        rookRays &&& them &&& (p.p3 ||| p.p4)).isOcc) := rfl

theorem bishopRays_eq (d : Bool) (k : Nat) (hk : k < 64) (occ : BB) :
    (if d then rayNE k occ else 0#64) ||| (if d then raySW k occ else 0#64) |||
      (if d then rayNW k occ else 0#64) ||| (if d then raySE k occ else 0#64)
      = if d then bishopMoves k occ else 0#64 := by
  cases d
  · simp
  · simp only [if_true, (C10_fills_eq_table k hk occ).1, BitVec.or_zero]
    ac_rfl

theorem rookRays_eq (d : Bool) (k : Nat) (hk : k < 64) (occ : BB) :
    (if d then rayN k occ else 0#64) ||| (if d then rayS k occ else 0#64) |||
      (if d then rayE k occ else 0#64) ||| (if d then rayW k occ else 0#64)
      = if d then rookMoves k occ else 0#64 := by
  cases d
  · simp
  · simp only [if_true, (C10_fills_eq_table k hk occ).2, BitVec.or_zero]
    ac_rfl

theorem guarded_isOcc (M X : BB) :
    ((if X.isOcc then M else 0#64) &&& X).isOcc = (M &&& X).isOcc := by
  cases h : X.isOcc
  · simp only [Bool.false_eq_true, if_false, BitVec.zero_and, isOcc_zero]
    exact (and_isOcc_of_empty h).symm
  · simp

/-- the two kings are not adjacent (the side not to move is not in check). -/
theorem kings_apart {p : Position} (hV : ValidPos p = true) :
    anyS (p.c1 &&& p.p5) (fun s => kingStep s (lsb (p.p5 &&& p.c0))) = false := by
  have F := kingFacts hV
  have hC := valid_consistent hV
  cases hany : anyS (p.c1 &&& p.p5) (fun s => kingStep s (lsb (p.p5 &&& p.c0)))
  · rfl
  · exfalso
    obtain ⟨s, hs, hb, hstep⟩ := (anyS_iff _ _).mp hany
    -- the mover's king attacks `s`
    have hatt : attackedBy (relBoard p) true s = true := by
      have := attackedBy_rel hC false s
      simp only [Bool.not_false, Position.side, Bool.false_eq_true, if_false] at this
      rw [this]
      have : anyS (p.c0 &&& p.p5) (fun s' => kingStep s' s) = true := by
        rw [anyS_iff]
        refine ⟨_, F.k64, ?_, ?_⟩
        · rw [BitVec.getLsbD_and, F.c0, F.p5]; rfl
        · rw [kingStep_symm]; exact hstep
      rw [this]; simp
    have hin : Spec.inCheck (relBoard p) false = true := by
      unfold Spec.inCheck
      rw [List.any_eq_true]
      refine ⟨s, ?_, hatt⟩
      have := kingSquares_rel hC true
      simp only [Bool.not_true, Position.side, if_true] at this
      rw [this, mem_toList]; exact ⟨hs, hb⟩
    have habs := inCheck_abs p true
    simp only [Bool.not_true, sideWhite, if_true] at habs
    rw [hin] at habs
    have hVs := valid_spec hV
    unfold Spec.Valid at hVs
    simp only [Bool.and_eq_true, Bool.not_eq_true'] at hVs
    obtain ⟨⟨⟨⟨⟨_, hnc⟩, _⟩, _⟩, _⟩, _⟩ := hVs
    have ew : (!(abs p).whiteToMove) = p.black := by show (!(!p.black)) = p.black; cases p.black <;> rfl
    rw [ew, habs] at hnc
    cases hnc

/-- `prelude.in_check` is "the mover's king is attacked". -/
theorem prelude_inCheck {p : Position} (hV : ValidPos p = true) :
    (prelude p).inCheck = attackedBy (relBoard p) false (lsb (p.p5 &&& p.c0)) := by
  have F := kingFacts hV
  have hC := valid_consistent hV
  have ho := occRep_rel hC
  have hbit : p.c0 &&& p.p5 = bit (lsb (p.p5 &&& p.c0)) := by
    have hk := valid_kings hV false
    simp only [Position.side, Bool.false_eq_true, if_false] at hk
    rw [bit_lsb_of_count_le_one _ (Nat.le_of_eq hk), BitVec.and_comm]
  have hatt := attackedBy_rel hC true (lsb (p.p5 &&& p.c0))
  simp only [Bool.not_true, Position.side, if_true] at hatt
  rw [hatt, kings_apart hV, Bool.or_false, prelude_inCheck_eq]
  dsimp only
  generalize lsb (p.p5 &&& p.c0) = k at *
  have k64 : k < 64 := F.k64
  rw [bishopRays_eq _ k k64, rookRays_eq _ k k64, isOcc_or, isOcc_or, isOcc_or, hbit]
  -- pawns
  have eP : ((northEast (bit k) ||| northWest (bit k)) &&& p.c1 &&& p.p0).isOcc
      = anyS (p.c1 &&& p.p0) (fun s => pawnStep false s k) := by
    have e : northEast (bit k) ||| northWest (bit k) = pawnsAtt true (bit k) := rfl
    rw [e, BitVec.and_assoc, isOcc_and]
    apply anyS_congr
    intro s hs _
    rw [(C10_leapers_bit k k64).2.2 true, getLsbD_geomBB, pawnStep_symm]
    simp [hs]
  -- knights
  have eN : (knights (bit k) &&& p.p1 &&& p.c1).isOcc = anyS (p.c1 &&& p.p1) (fun s => knightStep s k) := by
    rw [BitVec.and_assoc, BitVec.and_comm p.p1, knight_test _ k k64]
  have eB : ((if (p.c1 &&& (p.p2 ||| p.p4)).isOcc then bishopMoves k p.occ else 0#64) &&& p.c1 &&&
        (p.p2 ||| p.p4)).isOcc
      = anyS (p.c1 &&& p.p2 ||| p.c1 &&& p.p4) (fun s => diagAtt (relBoard p) s k) := by
    rw [BitVec.and_assoc, guarded_isOcc, BitVec.and_or_distrib_left, bishop_test ho _ k k64]
  have eR : ((if (p.c1 &&& (p.p3 ||| p.p4)).isOcc then rookMoves k p.occ else 0#64) &&& p.c1 &&&
        (p.p3 ||| p.p4)).isOcc
      = anyS (p.c1 &&& p.p3 ||| p.c1 &&& p.p4) (fun s => orthAtt (relBoard p) s k) := by
    rw [BitVec.and_assoc, guarded_isOcc, BitVec.and_or_distrib_left, rook_test ho _ k k64]
  rw [eP, eN, eB, eR]

end Rawr.Att
