import Rawr.Props.C02_domain
import Rawr.Proofs.TerminationChess
/-! Termination, part 6: the domain `D = V ∧ E ∧ M` of DESIGN.md §4 is closed in the sense of `ChessDom` —
the bridge C01 (`C01_sound`) and the closure of E and M (`E_of_legal`, `M_of_legal`, `Props/C02_domain.lean`)
discharge every clause but `fit`, the bound of 218 on the number of legal moves (`MovesFit`). -/
namespace Rawr.Term
open Rawr Rawr.Spec Rawr.MM Rawr.Position Rawr.ZH Rawr.SV

/-- E ∧ M of the denoted position (V is carried by the search theorems themselves). -/
def EM (q : Position) : Prop := Spec.EpConsistent (abs q) = true ∧ Spec.LegalMaterial (abs q) = true

/-- **the one hypothesis left**: a position of `D = V ∧ E ∧ M` (stored key aside) has at most 218 legal moves —
the size of the ordering buffers of negamax.rs / qsearch.rs. (A fact about chess: 218 is the known maximum
over positions with legal material; it is not proved here.) -/
def MovesFit : Prop := ∀ q, ValidH q → EM q → (legalMoves q).length ≤ Gen.orderBufNegamax

/-- the same for captures only (what quiescence needs). -/
def CapturesFit : Prop := ∀ q, ValidH q → EM q → (legalCaptures q).length ≤ Gen.orderBufQsearch

theorem MovesFit.captures (h : MovesFit) : CapturesFit := by
  intro q hV hEM
  have h1 := C08b_captures_length_le q
  have h2 := h q hV hEM
  have e1 : Gen.orderBufNegamax = 218 := rfl
  have e2 : Gen.orderBufQsearch = 218 := rfl
  omega

/-- if the stored key is replaced before a `makemove::<false>`, only the key of the result changes. -/
theorem makemove_false_wh' {q : Position} {m : Mv} {h : BB} {r : Position}
    (hr : q.makemove m false = some r) : (wh q h).makemove m false = some (wh r h) := by
  have e : wh (wh q h) q.hash = q := rfl
  have := makemove_false_wh (q := wh q h) (h := q.hash) (m := m) (r := r) (by rw [e]; exact hr)
  exact this

theorem em_move {q : Position} {m : Mv} {q' : Position} {u : Bool} (hEM : EM q) (hV : ValidPos q = true)
    (hm : m ∈ legalMoves q) (hmk : q.makemove m u = some q') : EM q' := by
  have hs := gen_moveShape q hV m hm
  have hL := (C01_sound q hV hEM.1 m hm).1
  exact ⟨E_of_legal q m q' u hV hs hL hmk, M_of_legal q m q' u hV hEM.2 hs hL hmk⟩

theorem em_capt {q : Position} {m : Mv} {q' : Position} (hEM : EM q) (hV : ValidH q)
    (hm : m ∈ legalCaptures q) (hmk : q.makemove m false = some q') : EM q' := by
  have hm' : m ∈ legalCaptures (fixHash q) := hm
  have hmm := (mem_captures (valid_unpack hV).1 hm').1
  have hmk' : (fixHash q).makemove m false = some (wh q' q.calculateHash) := makemove_false_wh' hmk
  exact em_move (q := fixHash q) (q' := wh q' q.calculateHash) hEM hV hmm hmk'

theorem em_null {q : Position} (hEM : EM q) (hV : ValidPos q = true) : EM q.makenull := by
  unfold EM
  rw [abs_makenull hV]
  exact ⟨rfl, hEM.2⟩

/-- **`E ∧ M` is a closed set for the search**, given the bound on the number of moves. -/
theorem chessDom_EM (hfit : MovesFit) : ChessDom EM :=
  ⟨fun _ _ _ hEM hV hm hmk => em_move hEM hV hm hmk,
   fun _ _ _ hEM hV hm hmk => em_capt hEM hV hm hmk,
   fun _ hEM hV _ _ => em_null hEM hV,
   fun q hEM hV => hfit q hV hEM,
   fun q hEM hV m hm => (C01_sound (fixHash q) hV hEM.1 m hm).1⟩

theorem captDom_EM (hfit : CapturesFit) : CaptDom EM :=
  ⟨fun _ _ _ hEM hV hm hmk => em_capt hEM hV hm hmk,
   fun q hEM hV => hfit q hV hEM,
   fun q hEM hV m hm => by
     have hm' : m ∈ legalCaptures (fixHash q) := hm
     exact (C01_sound (fixHash q) hV hEM.1 m (mem_captures (valid_unpack hV).1 hm').1).1⟩

theorem em_of_inD {p : Position} (h : InD p = true) : ValidPos p = true ∧ EM p := by
  obtain ⟨hV, hE, hM⟩ := (inD_iff p).mp h
  exact ⟨hV, hE, hM⟩

end Rawr.Term
