import Rawr.Proofs.MagicCheck
/-! C10 table check, part 4 of 16: 6656 rows, each one evaluated by the kernel.
The partition into modules balances row counts and depends on board geometry only; the statements do
not mention any table content, so a changed table or magic makes these proofs fail. -/
namespace Rawr.MagicTable
theorem bishop_36 : checkB 36 = true := by decide +kernel
theorem rook_28 : checkR 28 = true := by decide +kernel
theorem rook_31 : checkR 31 = true := by decide +kernel
theorem rook_50 : checkR 50 = true := by decide +kernel
theorem rook_62 : checkR 62 = true := by decide +kernel
end Rawr.MagicTable
