import Rawr.Proofs.MakeMoveAbsV3
/-! C02 (4), specification level: a pseudo-legal non-castling move that does not leave the mover in
check preserves `Spec.Valid`. -/
namespace Rawr.SV
open Rawr.Spec

section normal
variable {a : APos} {s t : Nat} {pr : Option Kind} {pc : Piece}

/-- the en-passant test of `Spec.apply`. -/
def isEpB (a : APos) (s t : Nat) (pc : Piece) : Bool :=
  pc.kind == .pawn && file s != file t && !(a.board t).isSome

/-- the piece that lands on the target. -/
def newPiece (pr : Option Kind) (pc : Piece) : Piece :=
  match pr with | some k => ⟨pc.white, k⟩ | none => pc

/-- the board after a non-castling move. -/
def newBoard (a : APos) (s t : Nat) (pr : Option Kind) (pc : Piece) : Board :=
  setSq (if isEpB a s t pc = true then setSq (setSq a.board s none) (sq (file t) (rank s)) none
    else setSq a.board s none) t (some (newPiece pr pc))

theorem apply_board (h : a.board s = some pc) : (apply a (.normal s t pr)).board = newBoard a s t pr pc := by
  rw [apply_normal h]
  rfl

theorem newPiece_white : (newPiece pr pc).white = pc.white := by
  unfold newPiece; split <;> rfl

theorem newBoard_t : newBoard a s t pr pc t = some (newPiece pr pc) := by
  simp [newBoard, setSq]

/-- off the target square the new board is the old one or empty. -/
theorem newBoard_other {j : Nat} (hj : j ≠ t) :
    newBoard a s t pr pc j = if j = s then none
      else if isEpB a s t pc = true ∧ j = sq (file t) (rank s) then none else a.board j := by
  unfold newBoard setSq
  rw [if_neg hj]
  by_cases hE : isEpB a s t pc = true
  · simp only [hE, if_true, true_and]
    by_cases h1 : j = s
    · simp [h1]
    · simp [h1]
  · simp only [hE]
    rfl

theorem newBoard_some {j : Nat} {x : Piece} (hj : j ≠ t) (h : newBoard a s t pr pc j = some x) :
    a.board j = some x ∧ j ≠ s := by
  rw [newBoard_other hj] at h
  split at h
  · cases h
  · next h1 =>
    split at h
    · cases h
    · exact ⟨h, h1⟩

/-- facts about the en-passant victim's square. -/
theorem ep_victim (v : ValidFacts a) (nl : NormalLegal a s t pr pc) (hE : isEpB a s t pc = true) :
    a.board (sq (file t) (rank s)) = some ⟨!a.whiteToMove, .pawn⟩ ∧ sq (file t) (rank s) ≠ t := by
  simp only [isEpB, Bool.and_eq_true, beq_iff_eq, bne_iff_ne, ne_eq, Bool.not_eq_true', Option.isSome_eq_false_iff,
    Option.isNone_iff_eq_none] at hE
  obtain ⟨⟨hk, hf⟩, hn⟩ := hE
  obtain ⟨hep, hr⟩ := nl.epT hk hn (fun e => hf e.symm)
  obtain ⟨v1, _, v3⟩ := v.ep t hep
  have hdc := pdir_cases pc.white
  have hw := nl.hw
  have : rank s = (if a.whiteToMove = true then 4 else 3) := by
    rw [← hw] at v1 ⊢
    cases hwh : pc.white <;> simp only [hwh, Bool.false_eq_true, if_false, if_true, pdir] at v1 hr ⊢ <;> omega
  rw [this]
  refine ⟨v3, ?_⟩
  intro e
  have hb := file_rank_bounds t nl.ht
  have hob : onBoard (file t) (if a.whiteToMove = true then 4 else 3) = true := by
    simp only [onBoard, Bool.and_eq_true, decide_eq_true_eq]
    rcases Bool.eq_false_or_eq_true a.whiteToMove with hw' | hw' <;>
      simp only [hw', if_true, if_false, Bool.false_eq_true] <;> omega
  have := (sq_coords hob).2.1
  rw [e, v1] at this
  rcases Bool.eq_false_or_eq_true a.whiteToMove with hw' | hw' <;>
    simp only [hw', if_true, if_false, Bool.false_eq_true] at this <;> omega

/-- a pseudo-legal move never captures a king: the opponent would be in check. -/
theorem no_king_capture (v : ValidFacts a) (nl : NormalLegal a s t pr pc) :
    a.board t ≠ some ⟨!a.whiteToMove, .king⟩ := by
  intro h
  obtain ⟨_, hatt⟩ := nl.tgt _ h
  have : inCheck a.board (!a.whiteToMove) = true := by
    unfold inCheck kingSquares
    rw [List.any_eq_true]
    refine ⟨t, ?_, ?_⟩
    · rw [List.mem_filter]
      exact ⟨List.mem_range.mpr nl.ht, by simp [h]⟩
    · unfold attackedBy
      rw [List.any_eq_true]
      refine ⟨s, List.mem_range.mpr nl.hs, ?_⟩
      rw [nl.hpc]
      simp [nl.hw, hatt]
  rw [v.notInCheck] at this
  cases this

theorem newPiece_not_king (nl : NormalLegal a s t pr pc) (hk : pc.kind ≠ .king) : (newPiece pr pc).kind ≠ .king := by
  unfold newPiece
  split
  · next k =>
    obtain ⟨_, hm, _⟩ := nl.prK k rfl
    intro e
    simp only [] at e
    subst e
    simp [promoKinds] at hm
  · exact hk

/-- kings that do not move stay unique. -/
theorem king_stays (v : ValidFacts a) (nl : NormalLegal a s t pr pc) {c : Bool} {k : Nat}
    (hu : UniqueKing a.board c k) (hc : c ≠ a.whiteToMove ∨ pc.kind ≠ .king) :
    UniqueKing (newBoard a s t pr pc) c k := by
  apply uniqueKing_congr hu
  intro j hj
  by_cases hjt : j = t
  · subst hjt
    rw [newBoard_t]
    constructor
    · intro h
      exfalso
      have h := Option.some.inj h
      have hw : (newPiece pr pc).white = c := by rw [h]
      rw [newPiece_white, nl.hw] at hw
      rcases hc with hc | hc
      · exact hc hw.symm
      · exact newPiece_not_king nl hc (by rw [h])
    · intro h
      exfalso
      by_cases hcw : c = a.whiteToMove
      · obtain ⟨h1, _⟩ := nl.tgt _ h
        apply h1
        rw [nl.hw, hcw]
      · have : c = !a.whiteToMove := by cases c <;> cases hw : a.whiteToMove <;> simp_all
        rw [this] at h
        exact no_king_capture v nl h
  · constructor
    · intro h
      exact (newBoard_some hjt h).1
    · intro h
      rw [newBoard_other hjt]
      have h1 : j ≠ s := by
        intro e
        subst e
        rw [nl.hpc] at h
        have h := Option.some.inj h
        rcases hc with hc | hc
        · apply hc; rw [← nl.hw, h]
        · apply hc; rw [h]
      rw [if_neg h1]
      split
      · next hE =>
        exfalso
        obtain ⟨hv, _⟩ := ep_victim v nl hE.1
        rw [← hE.2, h] at hv
        cases hv
      · exact h

/-- the moving king is the unique king on its new square. -/
theorem king_moves (nl : NormalLegal a s t pr pc) {k : Nat}
    (hu : UniqueKing a.board a.whiteToMove k) (hk : pc.kind = .king) :
    UniqueKing (newBoard a s t pr pc) a.whiteToMove t := by
  have hpr : pr = none := by
    cases hp : pr with
    | none => rfl
    | some k' =>
      have := (nl.prK k' hp).1
      rw [hk] at this; cases this
  have hpc : pc = ⟨a.whiteToMove, .king⟩ := by
    cases pc with
    | mk w kd => simp only [] at hk; have := nl.hw; simp only [] at this; rw [hk, this]
  have hnp : newPiece pr pc = ⟨a.whiteToMove, .king⟩ := by rw [hpr]; exact hpc
  have hsk : s = k := hu.2.2 s nl.hs (by rw [nl.hpc, hpc])
  refine ⟨nl.ht, by rw [newBoard_t, hnp], ?_⟩
  intro j hj h
  by_cases hjt : j = t
  · exact hjt
  · exfalso
    obtain ⟨h1, h2⟩ := newBoard_some hjt h
    exact h2 ((hu.2.2 j hj h1).trans hsk.symm)

theorem lostCore_some {r : Option Nat} {mover km : Bool} {hr : Int} {s t f : Nat}
    (h : lostCore r mover hr s t km = some f) :
    r = some f ∧ (mover && km) = false ∧ s ≠ sq f hr ∧ t ≠ sq f hr := by
  unfold lostCore at h
  cases r with
  | none => cases h
  | some g =>
    simp only [] at h
    split at h
    · cases h
    · next hc =>
      cases h
      simp only [Bool.or_eq_true, beq_iff_eq, not_or] at hc
      exact ⟨rfl, by simpa using hc.1.1, hc.1.2, hc.2⟩

theorem right_apply_normal (h : a.board s = some pc) (w ks : Bool) :
    right (apply a (.normal s t pr)) w ks =
      lostCore (right a w ks) (w == a.whiteToMove) (homeRank w) s t (pc.kind == .king) := by
  rw [apply_normal h]
  cases w <;> cases ks <;> rfl

theorem all_kings (v : ValidFacts a) (c : Bool) : ∃ k, UniqueKing a.board c k := by
  cases c
  · exact v.kb
  · exact v.kw

theorem kings_normal (v : ValidFacts a) (nl : NormalLegal a s t pr pc) (c : Bool) :
    ∃ k, UniqueKing (newBoard a s t pr pc) c k := by
  obtain ⟨k, hk⟩ := all_kings v c
  by_cases h : c = a.whiteToMove ∧ pc.kind = .king
  · obtain ⟨hc, hkd⟩ := h
    subst hc
    exact ⟨t, king_moves nl hk hkd⟩
  · refine ⟨k, king_stays v nl hk ?_⟩
    by_cases hc : c = a.whiteToMove
    · right; exact fun e => h ⟨hc, e⟩
    · left; exact hc

theorem pawns_normal (v : ValidFacts a) (nl : NormalLegal a s t pr pc) (j : Nat) (hj : j < 64) (x : Piece)
    (hx : newBoard a s t pr pc j = some x) (hk : x.kind = .pawn) : rank j ≠ 0 ∧ rank j ≠ 7 := by
  by_cases hjt : j = t
  · subst hjt
    rw [newBoard_t] at hx
    have hx := Option.some.inj hx
    subst hx
    unfold newPiece at hk
    split at hk
    · next k =>
      obtain ⟨_, hm, _⟩ := nl.prK k rfl
      simp only [] at hk
      subst hk
      simp [promoKinds] at hm
    · have hs := v.pawns s nl.hs pc nl.hpc hk
      have hb := file_rank_bounds s nl.hs
      have hdc := pdir_cases pc.white
      have hlast : rank j ≠ plast pc.white := by
        by_cases hep : a.ep = some j
        · have := (v.ep j hep).1
          rw [← nl.hw] at this
          rw [this]
          cases pc.white <;> simp [plast]
        · exact nl.prN rfl hk hep
      rcases nl.pawnRank hk with h1 | ⟨h1, _⟩ <;> omega
  · obtain ⟨h1, _⟩ := newBoard_some hjt hx
    exact v.pawns j hj x h1 hk

theorem rights_normal (v : ValidFacts a) (nl : NormalLegal a s t pr pc) (w ks : Bool) (f : Nat)
    (h : lostCore (right a w ks) (w == a.whiteToMove) (homeRank w) s t (pc.kind == .king) = some f) :
    f < 8 ∧ newBoard a s t pr pc (sq f (homeRank w)) = some ⟨w, .rook⟩ ∧
      ∃ k, kingSquares (newBoard a s t pr pc) w = [k] ∧ rank k = homeRank w ∧
        (if ks = true then file k < (f : Int) else (f : Int) < file k) := by
  obtain ⟨hr, hm, hs, ht⟩ := lostCore_some h
  obtain ⟨h1, h2, k, hk, h3, h4⟩ := v.rights w ks f hr
  refine ⟨h1, ?_, k, ?_, h3, h4⟩
  · rw [newBoard_other (Ne.symm ht), if_neg (Ne.symm hs)]
    split
    · next hE =>
      exfalso
      obtain ⟨hv, _⟩ := ep_victim v nl hE.1
      rw [← hE.2, h2] at hv
      cases hv
    · exact h2
  · apply kingSquares_of_unique
    apply king_stays v nl (unique_of_kingSquares hk)
    by_cases hc : w = a.whiteToMove
    · right
      intro e
      rw [hc, e] at hm
      simp at hm
    · left; exact hc

theorem ep_normal (nl : NormalLegal a s t pr pc) (e : Nat)
    (h : (if (pc.kind == .pawn && (rank t - rank s).natAbs == 2) = true
          then some (sq (file s) ((rank s + rank t) / 2)) else none) = some e) :
    rank e = (if (!a.whiteToMove) = true then 5 else 2) ∧ newBoard a s t pr pc e = none ∧
      newBoard a s t pr pc (sq (file e) (if (!a.whiteToMove) = true then 4 else 3)) =
        some ⟨!(!a.whiteToMove), .pawn⟩ := by
  split at h
  · next hc =>
    cases h
    simp only [Bool.and_eq_true, beq_iff_eq] at hc
    obtain ⟨hk, h2⟩ := hc
    have hdc := pdir_cases pc.white
    have hb := file_rank_bounds s nl.hs
    rcases nl.pawnRank hk with h1 | ⟨h1, hf, hst, hp1, hemp, hpr⟩
    · exfalso; omega
    · have hmid : (rank s + rank t) / 2 = rank s + pdir pc.white := by omega
      rw [hmid]
      have hob : onBoard (file s) (rank s + pdir pc.white) = true := by
        simp only [onBoard, Bool.and_eq_true, decide_eq_true_eq]; omega
      obtain ⟨cf, cr, clt⟩ := sq_coords hob
      have hw := nl.hw
      have het : sq (file s) (rank s + pdir pc.white) ≠ t := by
        intro e; have := congrArg rank e; rw [cr] at this; omega
      refine ⟨?_, ?_, ?_⟩
      · rw [cr, ← hw]
        cases hwh : pc.white <;> simp only [hwh, pdir, pstart, Bool.false_eq_true, if_false, if_true] at hst ⊢ <;>
          simp <;> omega
      · rw [newBoard_other het]
        split
        · rfl
        · split
          · rfl
          · exact hp1
      · have : sq (file (sq (file s) (rank s + pdir pc.white))) (if (!a.whiteToMove) = true then 4 else 3) = t := by
          rw [cf, ← hf]
          have : (if (!a.whiteToMove) = true then (4 : Int) else 3) = rank t := by
            rw [← hw]
            cases hwh : pc.white <;> simp only [hwh, pdir, pstart, Bool.false_eq_true, if_false, if_true] at hst h1 ⊢ <;>
              simp <;> omega
          rw [this]
          exact sq_file_rank t
        rw [this, newBoard_t, hpr]
        have : pc = ⟨a.whiteToMove, .pawn⟩ := by
          cases pc with
          | mk w kd => simp only [] at hk hw; rw [hk, hw]
        simp only [newPiece, this, Bool.not_not]
  · cases h

/-- a pseudo-legal non-castling move after which the mover is not in check preserves validity. -/
theorem valid_normal (v : ValidFacts a) (nl : NormalLegal a s t pr pc)
    (hc : inCheck (apply a (.normal s t pr)).board a.whiteToMove = false) :
    ValidFacts (apply a (.normal s t pr)) := by
  have hB : (apply a (.normal s t pr)).board = newBoard a s t pr pc := apply_board nl.hpc
  have hW : (apply a (.normal s t pr)).whiteToMove = !a.whiteToMove := by rw [apply_normal nl.hpc]
  refine ⟨?_, ?_, ?_, ?_, ?_, ?_, ?_, ?_⟩
  · rw [hB]; exact kings_normal v nl true
  · rw [hB]; exact kings_normal v nl false
  · rw [hB]; exact pawns_normal v nl
  · rw [hW, Bool.not_not]; exact hc
  · intro w ks f hr
    rw [right_apply_normal nl.hpc] at hr
    unfold RightOK
    rw [hB]
    exact rights_normal v nl w ks f hr
  · intro e he
    rw [hB, hW]
    apply ep_normal nl e
    rw [apply_normal nl.hpc] at he
    exact he
  · rw [apply_normal nl.hpc]
    simp only []
    have := v.half
    split <;> omega
  · rw [apply_normal nl.hpc]
    simp only []
    have := v.full
    split <;> omega

end normal

end Rawr.SV
