import Rawr.Proofs.SpecSanityPerftDefs
/-! perft of the start position, depth 3, slice 13: the subtree of first move `.normal 12 28 none` (kernel-evaluated). -/
namespace Rawr.SpecS
open Rawr.Spec

theorem start3_13 : leaves (apply stdStart (.normal 12 28 none)) 2 = 600 := by decide +kernel

end Rawr.SpecS
