import Rawr.Proofs.TerminationChess
/-! Termination, part 5: the number of men of the denoted position is the population count of the occupancy
board (`menP_eq_count`), so the fuel bounds can be read on the engine representation. -/
namespace Rawr.Term
open Rawr Rawr.Spec Rawr.Position Rawr.ZH

theorem cell_occ : ∀ t u v q0 q1 q2 q3 q4 q5 : Bool, cellOk u v q0 q1 q2 q3 q4 q5 = true →
    (cellPiece t u v q0 q1 q2 q3 q4 q5).isSome = (u || v) := by
  decide

theorem wsumN_congr (f g : Nat → Nat) (n : Nat) (h : ∀ i, i < n → f i = g i) : wsumN f n = wsumN g n := by
  induction n with
  | zero => rfl
  | succ n ih =>
    simp only [wsumN]
    rw [ih (fun i hi => h i (by omega)), h n (by omega)]

theorem wsumN_countP (P : Nat → Bool) :
    ∀ n, wsumN (fun i => if P i = true then 1 else 0) n = (List.range n).countP P := by
  intro n
  induction n with
  | zero => rfl
  | succ n ih =>
    simp only [wsumN]
    rw [List.range_succ, List.countP_append, ih, List.countP_singleton]

/-- the number of men of the denoted position is `count_ones` of the occupancy board. -/
theorem menP_eq_count {p : Position} (hC : Consistent p = true) : menP p = count p.occ := by
  unfold menP men wsum
  have h1 : wsumN (cellW (pieceW false) (abs p).board) 64 =
      wsumN (fun a => if p.occ.getLsbD (maybeFlip a p.black) = true then 1 else 0) 64 := by
    apply wsumN_congr
    intro a ha
    have hb : (abs p).board a = absBoard p a := rfl
    have hc := cell_occ p.black _ _ _ _ _ _ _ _ (cellOk_of_consistent hC (maybeFlip a p.black))
    have hocc : p.occ.getLsbD (maybeFlip a p.black) =
        (p.c0.getLsbD (maybeFlip a p.black) || p.c1.getLsbD (maybeFlip a p.black)) := by
      unfold Position.occ; rw [BitVec.getLsbD_or]
    rw [hocc, ← hc]
    cases hcp : absBoard p a with
    | none =>
      rw [cellW_none (by rw [hb]; exact hcp)]
      rw [absBoard_eq p a ha] at hcp
      simp only [] at hcp
      rw [hcp]; rfl
    | some pc =>
      rw [cellW_some (by rw [hb]; exact hcp), pieceW_false]
      rw [absBoard_eq p a ha] at hcp
      simp only [] at hcp
      rw [hcp]; rfl
  rw [h1, wsumN_countP]
  unfold count toList
  rw [← List.countP_eq_length_filter]
  cases p.black
  · rfl
  · show (List.range 64).countP ((fun s => p.occ.getLsbD s) ∘ (· ^^^ 56)) = _
    rw [← List.countP_map]
    exact range64_xor56_perm.countP_eq _

end Rawr.Term
