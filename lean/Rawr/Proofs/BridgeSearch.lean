import Rawr.Proofs.RootLemmasIter
/-! Bridge for C03: the search lemmas `negamax_range`, `negamax_root`, `rootIter_best`, `rootIter_tt` of
`Proofs/RootLemmasRange/Root/Iter.lean`, re-proved for a domain family whose closure under the null move is
required only **when the side to move is not in check** (`SearchDomC`) — which is the only situation in
which `negamax` makes a null move (`… && !in_check && …`). The unconditional clause of `SearchDom` cannot be
derived from C02: a null move played in check leads to a position in which the side that "just moved" is in
check, outside the domain V. The four proofs below are the original ones, verbatim, except for the one place
where the null-move clause is used (the guard of the `if` is kept instead of dropped).

Proposed edit that would make this file unnecessary: in `Proofs/RootLemmasRange.lean` change the field to
`null : ∀ n q, G (n + 1) q → q.inCheck = false → G n q.makenull` and the use site as done here; in
`Proofs/RootLemmasDom.lean` let `EvalBoundedOn.null` and `sDomB_dom` take (and ignore) the extra hypothesis. -/
namespace Rawr

/-- `SearchDom` with the null-move clause restricted to positions not in check. -/
structure SearchDomC (G : Nat → Position → Prop) : Prop where
  move : ∀ n q m q', G (n + 1) q → m ∈ legalMoves q → q.makemove m true = some q' → G n q'
  null : ∀ n q, G (n + 1) q → q.inCheck = false → G n q.makenull
  qok : ∀ n q, G (n + 1) q → QOk q

theorem SearchDom.toC {G : Nat → Position → Prop} (h : SearchDom G) : SearchDomC G :=
  ⟨h.move, fun n q hq _ => h.null n q hq, h.qok⟩

/-- The range lemma for interior nodes. -/
theorem negamax_rangeC (lim : Limit) (G : Nat → Position → Prop) (hG : SearchDomC G) (K : Int)
    (hK : Gen.MATE_SCORE ≤ K) :
    ∀ (fuel : Nat) (p : Position) (st : SState) (α β ply depth : Int) (cn : Bool) (v : Int) (st' : SState),
      G fuel p → TTIn K st.tt → 1 ≤ ply → ply + fuel ≤ K + Gen.MATE_SCORE →
      negamax lim fuel p st α β ply depth cn = some (v, st') → InR K v ∧ TTIn K st'.tt := by
  have hEB := EB_lt_MATE
  have hM : Gen.MATE_SCORE = 1000000 := rfl
  have hD : Gen.DRAW_SCORE = -50 := rfl
  intro fuel
  induction fuel with
  | zero => intro p st α β ply depth cn v st' _ _ _ _ h; simp [negamax] at h
  | succ fuel ih =>
    intro p st α β ply depth cn v st' hGp htt hply hbound h
    have hq := hG.qok _ _ hGp
    simp only [negamax] at h
    generalize hpr : (ite (_ = true) (shouldStop lim _) (false, _) : Bool × SState) = pr at h
    have hprtt : TTIn K pr.2.tt := by
      rw [← hpr]; split <;> exact htt
    clear hpr
    -- table probe
    split at h
    · simp at h
    rename_i tte hpoll
    have htte : InR K tte.score := htt.poll (by omega) hpoll
    -- table cut-off
    split at h
    · rename_i v0 _ _ hcut
      have hv0 : v0 = tte.score := cut_some_val hcut
      simp only [Option.some.injEq, Prod.mk.injEq] at h
      rw [← h.1, ← h.2, hv0]; exact ⟨htte, htt⟩
    -- quiescence
    ite_split h
    · split at h
      · simp at h
      · rename_i v1 q1 hqs
        have hv1 := hq.2 _ _ _ _ _ _ hqs
        simp only [Option.some.injEq, Prod.mk.injEq] at h
        rw [← h.1, ← h.2]
        refine ⟨?_, htt⟩
        unfold VIn at hv1; unfold InR; omega
    rename_i hdpos
    -- stopped
    ite_split h
    · simp only [Option.some.injEq, Prod.mk.injEq] at h
      rw [← h.1, ← h.2]
      exact ⟨by unfold InR; omega, hprtt⟩
    -- rule draws
    ite_split h
    · simp only [Option.some.injEq, Prod.mk.injEq] at h
      rw [← h.1, ← h.2]
      exact ⟨by unfold InR; omega, hprtt⟩
    -- reverse futility
    ite_split h
    · rename_i hrfp
      simp only [Bool.and_eq_true, decide_eq_true_eq] at hrfp
      simp only [Option.some.injEq, Prod.mk.injEq] at h
      rw [← h.1, ← h.2]
      refine ⟨?_, hprtt⟩
      have he := hq.1
      unfold VIn at he; unfold InR
      omega
    -- null move
    generalize hnr : (ite (_ = true) _ _ : Option (Option Int × SState)) = nr at h
    have hnullR : ∀ ov s2, nr = some (ov, s2) → TTIn K s2.tt ∧ ∀ v2, ov = some v2 → InR K v2 := by
      intro ov s2 h1
      rw [h1] at hnr
      rcases ite_cases hnr with ⟨hcnd, hn⟩ | ⟨_, hn⟩
      · have hnc : p.inCheck = false := by
          simp only [Bool.and_eq_true, Bool.not_eq_true'] at hcnd
          exact hcnd.1.2
        split at hn
        · simp at hn
        · rename_i sc s3 hc
          have h3 := ih _ _ _ _ _ _ _ _ _ (hG.null _ _ hGp hnc) (by exact hprtt) (by omega) (by omega) hc
          ite_split hn <;>
          · simp only [Option.some.injEq, Prod.mk.injEq] at hn
            rw [← hn.1, ← hn.2]
            refine ⟨h3.2, ?_⟩
            intro v2 hv2
            first
              | (simp only [Option.some.injEq] at hv2; rw [← hv2]; exact h3.1.neg)
              | simp at hv2
      · simp only [Option.some.injEq, Prod.mk.injEq] at hn
        rw [← hn.1, ← hn.2]
        exact ⟨hprtt, fun v2 hv2 => by simp at hv2⟩
    clear hnr
    split at h
    · simp at h
    · obtain ⟨n1, n2⟩ := hnullR _ _ rfl
      simp only [Option.some.injEq, Prod.mk.injEq] at h
      rw [← h.1, ← h.2]
      exact ⟨n2 _ rfl, n1⟩
    · obtain ⟨n1, _⟩ := hnullR _ _ rfl
      -- move ordering
      split at h
      · simp at h
      rename_i moves hsort
      have hperm := sortNm_perm _ _ _ _ hsort
      -- the move loop
      split at h
      · simp at h
      rename_i s4 a4 best bestMv hloop
      obtain ⟨l1, l2, _⟩ := nmLoop_range K (negamax lim fuel) (G fuel) p _ ply _ _
        (fun np s a b d c v s' hp ht hr => ih np s a b (ply + 1) d c v s' hp ht (by omega) (by omega) hr)
        moves _ _ _ _ _ _ _ _ _
        (fun m hm np hnp => hG.move _ _ _ _ hGp (hperm.mem_iff.1 hm) hnp) n1 hloop
      -- no legal move / store
      split at h
      · simp only [Option.some.injEq, Prod.mk.injEq] at h
        rw [← h.1, ← h.2]
        refine ⟨?_, l1⟩
        unfold InR
        split <;> omega
      · rename_i bm
        have hb : InR K best := by
          rcases l2 with ⟨_, e2⟩ | ⟨e1, _⟩
          · simp at e2
          · exact e1
        split at h
        · simp at h
        · rename_i tt' hadd
          simp only [Option.some.injEq, Prod.mk.injEq] at h
          rw [← h.1, ← h.2]
          exact ⟨hb, l1.add hb hadd⟩


/-- the root call. -/
theorem negamax_rootC (lim : Limit) (G : Nat → Position → Prop) (hG : SearchDomC G) (K : Int)
    (hK1 : Gen.MATE_SCORE ≤ K) (hK2 : K ≤ Gen.INF)
    (fuel : Nat) (p : Position) (st : SState) (depth v : Int) (st' : SState)
    (hGp : G fuel p) (htt : TTIn K st.tt) (hd : 1 ≤ depth) (hf : (fuel : Int) ≤ K + Gen.MATE_SCORE)
    (h : negamax lim fuel p st (-Gen.INF) Gen.INF 0 depth false = some (v, st')) :
    TTIn K st'.tt ∧
    ((RootStopped lim st ∧ v = 0 ∧ st' = (shouldStop lim (rootPollState st)).2) ∨
     (¬ RootStopped lim st ∧ (legalMoves p = [] → st'.best = st.best) ∧
       (legalMoves p ≠ [] → InR K v ∧ ∃ m ∈ legalMoves p, st'.best = some m))) := by
  cases fuel with
  | zero => simp [negamax] at h
  | succ fuel =>
    simp only [negamax, beq_self_eq_true, Bool.not_true, Bool.and_false, Bool.false_and, Bool.false_eq_true,
      ↓reduceIte, Bool.true_and, root_isPv] at h
    generalize hpr : (ite (_ = true) (shouldStop lim _) (false, _) : Bool × SState) = pr at h
    have hprd : (1 < st.depth ∧ pr = shouldStop lim (rootPollState st)) ∨
        (st.depth ≤ 1 ∧ pr = (false, rootPollState st)) := by
      by_cases hdd : st.depth ≤ 1
      · right
        refine ⟨hdd, ?_⟩
        rw [← hpr, if_neg (by simp [hdd])]; rfl
      · left
        refine ⟨by omega, ?_⟩
        rw [← hpr, if_pos (by simp [hdd])]; rfl
    clear hpr
    have hprtt : TTIn K pr.2.tt := by
      rcases hprd with ⟨_, e⟩ | ⟨_, e⟩ <;> rw [e] <;> exact htt
    have hprbest : pr.2.best = st.best := by
      rcases hprd with ⟨_, e⟩ | ⟨_, e⟩ <;> rw [e] <;> rfl
    split at h
    · simp at h
    have hdp : ¬ (if p.inCheck = true then depth + 1 else depth) ≤ 0 := by split <;> omega
    rw [if_neg hdp] at h
    by_cases hstop : pr.1 = true
    · -- stopped by the poll
      rw [if_pos hstop] at h
      simp only [Option.some.injEq, Prod.mk.injEq] at h
      rcases hprd with ⟨hd1, e⟩ | ⟨_, e⟩
      · rw [← h.2]
        refine ⟨hprtt, Or.inl ⟨⟨hd1, by rw [← e]; exact hstop⟩, h.1.symm, by rw [e]⟩⟩
      · rw [e] at hstop; simp at hstop
    · rw [if_neg hstop] at h
      have hns : ¬ RootStopped lim st := by
        rintro ⟨hd1, hs⟩
        rcases hprd with ⟨_, e⟩ | ⟨hd2, _⟩
        · rw [e] at hstop; exact hstop hs
        · omega
      -- move ordering
      split at h
      · simp at h
      rename_i moves hsort
      have hperm := sortNm_perm _ _ _ _ hsort
      -- the move loop
      split at h
      · simp at h
      rename_i s4 a4 best bestMv hloop
      obtain ⟨l1, l2, l3⟩ := nmLoop_range K (negamax lim fuel) (G fuel) p _ 0 _ _
        (fun np s a b d c v s' hp ht hr =>
          negamax_rangeC lim G hG K hK1 fuel np s a b (0 + 1) d c v s' hp ht (by omega) (by omega) hr)
        moves _ _ _ _ _ _ _ _ _
        (fun m hm np hnp => hG.move _ _ _ _ hGp (hperm.mem_iff.1 hm) hnp) hprtt hloop
      cases bestMv with
      | none =>
        -- no legal move
        simp only [Option.some.injEq, Prod.mk.injEq] at h
        have hmoves : moves = [] := by
          by_cases hm : moves = []
          · exact hm
          · obtain ⟨_, m, _, e⟩ := l3 hm (by omega)
            simp at e
        have hlm : legalMoves p = [] := by
          rw [hmoves] at hperm; exact List.nil_perm.1 hperm
        rw [hmoves] at hloop
        have hs4 := nmLoop_nil_eq hloop
        simp only [Prod.mk.injEq] at hs4
        rw [← h.2]
        refine ⟨l1, Or.inr ⟨hns, fun _ => by rw [hs4.1]; exact hprbest, fun hne => absurd hlm hne⟩⟩
      | some bm =>
        simp only at h
        split at h
        · simp at h
        rename_i tt' hadd
        simp only [Option.some.injEq, Prod.mk.injEq] at h
        have hb : InR K best ∧ ∃ m ∈ moves, some bm = some m := by
          rcases l2 with ⟨_, e2⟩ | e
          · simp at e2
          · exact e
        obtain ⟨hbest, m, hm, e⟩ := hb
        have hmem : m ∈ legalMoves p := hperm.mem_iff.1 hm
        rw [← h.2, ← h.1]
        refine ⟨l1.add hbest hadd, Or.inr ⟨hns, fun hlm => ?_, fun _ => ⟨hbest, m, hmem, e⟩⟩⟩
        rw [hlm] at hmem; simp at hmem


theorem rootIter_bestC (lim : Limit) (G : Nat → Position → Prop) (hG : SearchDomC G) (K : Int)
    (hK1 : Gen.MATE_SCORE ≤ K) (hK2 : K ≤ Gen.INF) (fuel : Nat) (p : Position) (hGp : G fuel p)
    (hf : (fuel : Int) ≤ K + Gen.MATE_SCORE) :
    ∀ (k : Nat) (depth : Int) (st : SState) (bestMove : Option Mv) (infos : List InfoRec) (res : RootResult),
      TTIn K st.tt → BestInv p k depth st bestMove →
      rootIter lim fuel p k depth st bestMove infos = some res →
      (legalMoves p ≠ [] → ∃ m ∈ legalMoves p, res.best = some m) ∧ (legalMoves p = [] → res.best = none) := by
  have hMD : Gen.MAX_DEPTH = 128 := rfl
  -- what a result `best = bestMove` means under the second disjunct of the invariant
  have hexit : ∀ (m : Mv), m ∈ legalMoves p → ∀ res : RootResult, res.best = some m →
      (legalMoves p ≠ [] → ∃ m ∈ legalMoves p, res.best = some m) ∧ (legalMoves p = [] → res.best = none) := by
    intro m hm res hr
    exact ⟨fun _ => ⟨m, hm, hr⟩, fun hl => by rw [hl] at hm; simp at hm⟩
  intro k
  induction k with
  | zero =>
    intro depth st bestMove infos res _ hinv h
    simp only [rootIter, Option.some.injEq] at h
    rcases hinv with ⟨_, hk, _⟩ | ⟨_, m, hm, e, _⟩
    · omega
    · exact hexit m hm res (by rw [← h]; exact e)
  | succ k ih =>
    intro depth st bestMove infos res htt hinv h
    have hd1 : 1 ≤ depth := by rcases hinv with ⟨e, _⟩ | ⟨e, _⟩ <;> omega
    rcases rootIter_step h with ⟨hcap, hres⟩ | ⟨_, score, s1, hnm, hrest⟩
    · rcases hinv with ⟨e, _⟩ | ⟨_, m, hm, e, _⟩
      · omega
      · exact hexit m hm res (by rw [hres]; exact e)
    · obtain ⟨htt1, hroot⟩ := negamax_rootC lim G hG K hK1 hK2 fuel p _ depth score s1 hGp (by exact htt) hd1 hf hnm
      -- what the iteration leaves in `stats.best_move`
      have hbest : (legalMoves p = [] ∧ s1.best = none) ∨ (∃ m ∈ legalMoves p, s1.best = some m) := by
        rcases hroot with ⟨⟨hgt, _⟩, _, e⟩ | ⟨_, hnil, hcons⟩
        · rcases hinv with ⟨e1, _⟩ | ⟨_, m, hm, _, e2⟩
          · have : (1 : Int) < depth := hgt
            omega
          · right; exact ⟨m, hm, by rw [e]; exact e2⟩
        · by_cases hl : legalMoves p = []
          · rcases hinv with ⟨_, _, e1, _⟩ | ⟨_, m, hm, _⟩
            · left; exact ⟨hl, by rw [hnil hl]; exact e1⟩
            · rw [hl] at hm; simp at hm
          · right; exact (hcons hl).2
      rcases hrest with ⟨hnone, hres⟩ | ⟨m, hm, hrest⟩
      · rcases hbest with ⟨hl, _⟩ | ⟨m, _, e⟩
        · exact ⟨fun hne => absurd hl hne, fun _ => by rw [hres]⟩
        · rw [hnone] at e; simp at e
      · have hmleg : m ∈ legalMoves p := by
          rcases hbest with ⟨_, e⟩ | ⟨m', hm', e⟩
          · rw [hm] at e; simp at e
          · rw [hm] at e; simp only [Option.some.injEq] at e; rw [e]; exact hm'
        rcases hrest with ⟨hpoll, hres⟩ | ⟨_, hrec⟩
        · rcases hinv with ⟨e1, _⟩ | ⟨_, m0, hm0, e, _⟩
          · -- iteration 1 has no end-of-iteration poll
            rw [endPoll_fst_of_le lim depth s1 (by omega)] at hpoll
            simp at hpoll
          · exact hexit m0 hm0 res (by rw [hres]; exact e)
        · refine ih _ _ _ _ _ (by rw [endPoll_tt]; exact htt1) ?_ hrec
          right
          exact ⟨by omega, m, hmleg, rfl, by rw [endPoll_best]; exact hm⟩


theorem rootIter_ttC (lim : Limit) (G : Nat → Position → Prop) (hG : SearchDomC G) (K : Int)
    (hK1 : Gen.MATE_SCORE ≤ K) (hK2 : K ≤ Gen.INF) (fuel : Nat) (p : Position) (hGp : G fuel p)
    (hf : (fuel : Int) ≤ K + Gen.MATE_SCORE) :
    ∀ (k : Nat) (depth : Int) (st : SState) (bestMove : Option Mv) (infos : List InfoRec) (res : RootResult),
      TTIn K st.tt → 1 ≤ depth → rootIter lim fuel p k depth st bestMove infos = some res →
      TTIn K res.tt := by
  intro k
  induction k with
  | zero =>
    intro depth st bestMove infos res htt _ h
    simp only [rootIter, Option.some.injEq] at h
    rw [← h]; exact htt
  | succ k ih =>
    intro depth st bestMove infos res htt hd h
    rcases rootIter_step h with ⟨_, hres⟩ | ⟨_, score, s1, hnm, hrest⟩
    · rw [hres]; exact htt
    · have htt1 := (negamax_rootC lim G hG K hK1 hK2 fuel p _ depth score s1 hGp
        (by exact htt) hd hf hnm).1
      rcases hrest with ⟨_, hres⟩ | ⟨m, _, ⟨_, hres⟩ | ⟨_, hrec⟩⟩
      · rw [hres]; exact htt1
      · rw [hres]; exact htt1
      · exact ih _ _ _ _ _ (by rw [endPoll_tt]; exact htt1) (by omega) hrec


end Rawr
