import Rawr.Proofs.SpecSanityPerftDefs
/-!
# Sanity of the specification, part 5: perft of the standard start position, depths 1 and 2 (kernel-evaluated)
-/
namespace Rawr.SpecS
open Rawr.Spec

/-- the twenty first moves, in the order of `Spec.legalMoves`. -/
theorem start_moves : legalMoves stdStart =
    [.normal 1 16 none, .normal 1 18 none, .normal 6 21 none, .normal 6 23 none,
      .normal 8 16 none, .normal 8 24 none, .normal 9 17 none, .normal 9 25 none,
      .normal 10 18 none, .normal 10 26 none, .normal 11 19 none, .normal 11 27 none,
      .normal 12 20 none, .normal 12 28 none, .normal 13 21 none, .normal 13 29 none,
      .normal 14 22 none, .normal 14 30 none, .normal 15 23 none, .normal 15 31 none] := by
  decide +kernel

theorem leaves_start_1 : leaves stdStart 1 = 20 := by decide +kernel

theorem leaves_start_2 : leaves stdStart 2 = 400 := by decide +kernel

end Rawr.SpecS
