import Rawr.Proofs.SpecSanityPerftDefs
/-! perft of `cpwPos3`, depth 3, slice 3: the subtrees of 3 first moves (kernel-evaluated). -/
namespace Rawr.SpecS
open Rawr.Spec

theorem pos33_3 :
    (([.normal 25 29 none, .normal 32 24 none, .normal 32 40 none] : List Move).map
      fun m => leaves (apply cpwPos3 m) 2).sum = 505 := by decide +kernel

end Rawr.SpecS
