import Rawr.Proofs.RustSessionAgree_Go
import Rawr.Proofs.RustSessionAgree_Display
import Rawr.Proofs.UciMoves
/-!
# The lines of the session layer that the canonicalisation keeps (`Out (T.unlines L) L`)

tokens of `split_ascii_whitespace`, `{:#x}` of a hash, `info string unknown move ..`, the lines of `Display for Position`,
the banner.
-/
set_option linter.unusedSimpArgs false
namespace Rawr.Sess
open T

/-! ## `split_ascii_whitespace` -/
def isWsC (c : Char) : Bool := c == ' ' || c == '\t' || c == '\n' || c == '\r' || c == '\x0c'

theorem splitWs_go_mem : ∀ (s cur : List Char) (acc : List (List Char)),
    (∀ c ∈ cur, isWsC c = false) → (∀ t ∈ acc, ∀ c ∈ t, isWsC c = false) →
    ∀ t ∈ splitWs.go isWsC s cur acc, ∀ c ∈ t, isWsC c = false := by
  intro s
  induction s with
  | nil =>
    intro cur acc hc ha t ht c hct
    simp only [splitWs.go, List.mem_reverse] at ht
    split at ht
    · exact ha t ht c hct
    · rcases List.mem_cons.1 ht with rfl | ht
      · exact hc c (by simpa using hct)
      · exact ha t ht c hct
  | cons x s ih =>
    intro cur acc hc ha
    simp only [splitWs.go]
    by_cases hx : isWsC x = true
    · simp only [hx, if_true]
      apply ih [] _ (by simp)
      intro t ht
      split at ht
      · exact ha t ht
      · rcases List.mem_cons.1 ht with rfl | ht
        · intro c hct; exact hc c (by simpa using hct)
        · exact ha t ht
    · simp only [hx, Bool.false_eq_true, if_false]
      apply ih (x :: cur) acc _ ha
      intro c hcm
      rcases List.mem_cons.1 hcm with rfl | hcm
      · simpa using hx
      · exact hc c hcm

theorem splitWs_eq (l : List Char) : splitWs l = splitWs.go isWsC l [] [] := rfl

/-- a token of `split_ascii_whitespace` contains no blank and no newline. -/
theorem splitWs_word (l : List Char) : ∀ t ∈ splitWs l, Word t := by
  intro t ht
  rw [splitWs_eq] at ht
  have h := splitWs_go_mem l [] [] (by simp) (by simp) t ht
  constructor
  · intro hm; have := h _ hm; simp [isWsC] at this
  · intro hm; have := h _ hm; simp [isWsC] at this

theorem splitWs_go_nl : ∀ (s cur : List Char) (acc : List (List Char)),
    splitWs.go isWsC (s ++ ['\n']) cur acc = splitWs.go isWsC s cur acc := by
  intro s
  induction s with
  | nil =>
    intro cur acc
    have : isWsC '\n' = true := by decide
    simp only [List.nil_append, splitWs.go, this, if_true]
    simp
  | cons x s ih =>
    intro cur acc
    simp only [List.cons_append, splitWs.go, ih]

/-- the `'\n'` that `read_line` keeps does not change the tokens. -/
theorem splitWs_nl (l : List Char) : splitWs (l ++ ['\n']) = splitWs l := splitWs_go_nl l [] []

/-! ## hexadecimal -/
theorem hexDigit_facts : ∀ d, d < 16 → Nat.digitChar d ≠ ' ' ∧ Nat.digitChar d ≠ '\n' := by decide

theorem toDigits16_word (n : Nat) : Word (Nat.toDigits 16 n) := by
  induction n using Nat.strongRecOn with
  | _ n ih =>
    rw [Nat.toDigits_eq_if (by decide)]
    split
    · rename_i h
      have := hexDigit_facts n h
      constructor <;> simp [this.1, this.2, Ne.symm this.1, Ne.symm this.2]
    · rename_i h
      have hlt : n / 16 < n := Nat.div_lt_self (by omega) (by decide)
      have h1 := ih (n / 16) hlt
      have h2 := hexDigit_facts (n % 16) (Nat.mod_lt _ (by decide))
      refine word_append h1 ?_
      constructor <;> simp [h2.1, h2.2, Ne.symm h2.1, Ne.symm h2.2]

theorem hexLine_word (h : BB) : Word (hexLine h).toList := by
  unfold hexLine hexDigits
  rw [String.toList_append]
  refine word_append (by constructor <;> decide) ?_
  rw [String.toList_ofList]
  exact toDigits16_word _

/-- a line without blanks and newlines is kept. -/
theorem Out.wordline (a : String) (h : Word a.toList) : Out (T.line a) [a] :=
  Out.line1 a a h.2 (canonLine_noblank _ h.1)

theorem _root_.Rawr.agree_listen_loop4 : ∀ (hist : List BB) (out : List Char),
    ∃ x, R.listen_loop4 hist out = some (out ++ x) ∧ Out x (hist.map hexLine) := by
  intro hist
  induction hist with
  | nil => intro out; exact ⟨[], by simp [R.listen_loop4], Out.nil⟩
  | cons h hist ih =>
    intro out
    obtain ⟨x, e, ho⟩ := ih (out ++ T.line (hexLine h))
    refine ⟨T.line (hexLine h) ++ x, ?_, Out.append (m := [_]) (Out.wordline _ (hexLine_word h)) ho⟩
    simp only [R.listen_loop4, List.forIn_cons, R.listen_loop4_step, bind, pure, Option.bind_some] at e ⊢
    rw [e, List.append_assoc]

/-! ## kept lines that start with a fixed word -/
/-- a line `<literal><rest>` whose first character is none of `n`, `t`, `i` is kept. -/
theorem Out.headline (a : String) (c : Char) (r : List Char) (ha : a.toList = c :: r) (h1 : c ≠ 'n') (h2 : c ≠ 't') (h3 : c ≠ 'i')
    (hn : '\n' ∉ a.toList) : Out (T.line a) [a] :=
  Out.line1 a a hn (by rw [ha]; exact canonLine_head c r h1 h2 h3)

/-- `info string unknown move <token>` is kept. -/
theorem unknown_out (t : List Char) (ht : Word t) :
    Out (T.line ("info string unknown move " ++ String.ofList t)) ["info string unknown move " ++ String.ofList t] := by
  apply Out.line1
  · simp only [String.toList_append, String.toList_ofList, List.mem_append, not_or]
    exact ⟨by decide, ht.2⟩
  · simp only [String.toList_append, String.toList_ofList]
    have : "info string unknown move ".toList = 'i' :: 'n' :: 'f' :: 'o' :: ' ' :: 's' :: "tring unknown move ".toList := by decide
    rw [this]
    simp [canonLine, List.isPrefixOf, pfxId, pfxInfo]

theorem reports_mem : ∀ (ts : List (List Char)) (pos : Position), ∀ l ∈ reports ts pos,
    ∃ t ∈ ts, l = "info string unknown move " ++ String.ofList t := by
  intro ts
  induction ts with
  | nil => intro pos l hl; simp [reports] at hl
  | cons t ts ih =>
    intro pos l hl
    simp only [reports] at hl
    split at hl
    · rcases List.mem_cons.1 hl with rfl | hl
      · exact ⟨t, by simp, rfl⟩
      · obtain ⟨u, hu, e⟩ := ih pos l hl
        exact ⟨u, by simp [hu], e⟩
    · split at hl
      · simp at hl
      · obtain ⟨u, hu, e⟩ := ih _ l hl
        exact ⟨u, by simp [hu], e⟩

/-- the lines `moves.rs` prints for a list of whitespace-free tokens are kept. -/
theorem unknown_lines_out (ts : List (List Char)) (hts : ∀ t ∈ ts, Word t) (L : List String)
    (hL : ∀ l ∈ L, ∃ t ∈ ts, l = "info string unknown move " ++ String.ofList t) : Out (T.unlines L) L := by
  induction L with
  | nil => exact Out.nil
  | cons l L ih =>
    have : T.unlines (l :: L) = T.line l ++ T.unlines L := by simp [T.unlines]
    rw [this]
    obtain ⟨t, ht, e⟩ := hL l (by simp)
    subst e
    exact Out.append (m := [_]) (unknown_out t (hts t ht)) (ih (fun x hx => hL x (by simp [hx])))

theorem applyTokens_lines (ts : List (List Char)) (pos : Position) (hist : List BB) (r : Position × List BB × List String)
    (h : applyTokens ts pos hist [] = some r) :
    ∀ l ∈ r.2.2, ∃ t ∈ ts, l = "info string unknown move " ++ String.ofList t := by
  rw [applyTokens_eq] at h
  cases ht : trace ts pos with
  | none => rw [ht] at h; cases h
  | some tr =>
    rw [ht] at h
    simp only [Option.map_some, Option.some.injEq, List.nil_append] at h
    rw [← h]
    exact reports_mem ts pos

/-! ## `eval` -/
theorem eval_out (i : Int) : Out (T.line (toString i)) [toString i] :=
  Out.wordline _ (numChars_int i).word

/-! ## the lines of `Display for Position` -/
theorem dispCell_facts (np : Position) (sq : Nat) : dispCell np sq ≠ ' ' ∧ dispCell np sq ≠ '\n' := by
  unfold dispCell
  simp only []
  cases np.p0.isSet sq <;> cases np.p1.isSet sq <;> cases np.p2.isSet sq <;> cases np.p3.isSet sq <;>
    cases np.p4.isSet sq <;> cases np.p5.isSet sq <;> cases np.white.isSet sq <;> decide

theorem ofNat_ne_nl (n : Nat) (h1 : n < 256) (h2 : 32 < n) : Char.ofNat n ≠ '\n' := by
  intro h
  have hv : n.isValidChar := Or.inl (by omega)
  have := congrArg Char.toNat h
  rw [Char.ofNat, dif_pos hv] at this
  have e : (Char.ofNatAux n hv).toNat = n := by
    simp [Char.ofNatAux, Char.toNat]
  rw [e] at this
  have : n = 10 := this
  omega

/-- a line the canonicalisation keeps. -/
def Kept (a : String) : Prop := '\n' ∉ a.toList ∧ canonLine a.toList = some a.toList

theorem Out.kept (L : List String) (h : ∀ a ∈ L, Kept a) : Out (T.unlines L) L :=
  Out.unlines L (fun a ha => (h a ha).1) (fun a ha => (h a ha).2)

theorem kept_word (a : String) (h : Word a.toList) : Kept a := ⟨h.2, canonLine_noblank _ h.1⟩

/-- `<literal><rest>` with a literal that starts with none of `n`, `t`, `i`. -/
theorem kept_lit (lit rest : String) (c : Char) (r : List Char) (hl : lit.toList = c :: r)
    (h1 : c ≠ 'n') (h2 : c ≠ 't') (h3 : c ≠ 'i') (hn : '\n' ∉ lit.toList) (hr : '\n' ∉ rest.toList) : Kept (lit ++ rest) := by
  constructor
  · simp [String.toList_append, hn, hr]
  · rw [String.toList_append, hl]
    exact canonLine_head c _ h1 h2 h3

theorem kept_closed (a : String) (h : ('\n' ∉ a.toList ∧ canonLine a.toList = some a.toList)) : Kept a := h

theorem displayPos_out (p : Position) (h : DisplayOk p) : Out (T.unlines (displayPos p)) (displayPos p) := by
  obtain ⟨hep, h0, h1, h2, h3⟩ := h
  apply Out.kept
  intro a ha
  have hd : displayPos p = ((List.range 8).map fun i => String.ofList ((List.range 8).map fun x =>
        dispCell (if p.black then p.flip else p) (8 * (7 - i) + x))) ++
      [ "Turn: " ++ (if p.black then "Black" else "White"),
        "Check: " ++ (if p.inCheck then "true" else "false"),
        "Halfmoves: " ++ toString (if p.black then p.flip else p).halfmoves,
        "Fullmoves: " ++ toString (if p.black then p.flip else p).fullmoves,
        (match (if p.black then p.flip else p).ep with | some e => "EP: " ++ String.ofList (sqName e) | none => "EP: -"),
        dispCastle (if p.black then p.flip else p) p,
        "Hash: 0x" ++ String.ofList (hexDigits p.hash.toNat), "FRC: " ++ (if p.frc then "true" else "false")] := rfl
  rw [hd] at ha
  generalize hnp : (if p.black then p.flip else p) = np at *
  simp only [List.mem_append, List.mem_map, List.mem_range, List.mem_cons, List.not_mem_nil, or_false] at ha
  rcases ha with ⟨i, _, rfl⟩ | rfl | rfl | rfl | rfl | rfl | rfl | rfl | rfl
  · apply kept_word
    rw [String.toList_ofList]
    constructor <;> simp only [List.mem_map, not_exists, not_and]
    · intro x _ hx; exact (dispCell_facts np (8 * (7 - i) + x)).1 hx
    · intro x _ hx; exact (dispCell_facts np (8 * (7 - i) + x)).2 hx
  · cases p.black <;> exact kept_closed _ (by decide)
  · cases p.inCheck <;> exact kept_closed _ (by decide)
  · exact kept_lit _ _ 'H' _ rfl (by decide) (by decide) (by decide) (by decide) (numChars_int _).nonl
  · exact kept_lit _ _ 'F' _ rfl (by decide) (by decide) (by decide) (by decide) (numChars_int _).nonl
  · cases hepc : np.ep with
    | none => exact kept_closed _ (by decide)
    | some e =>
      refine kept_lit _ _ 'E' _ rfl (by decide) (by decide) (by decide) (by decide) ?_
      rw [String.toList_ofList]
      exact (sqName_word e (hep e hepc)).2
  · unfold dispCastle
    split
    · exact kept_closed _ (by decide)
    · refine kept_lit _ _ 'C' _ rfl (by decide) (by decide) (by decide) (by decide) ?_
      rw [String.toList_ofList]
      have hA : ∀ n, n < 191 → Char.ofNat ('A'.toNat + n) ≠ '\n' := by
        intro n hn; exact ofNat_ne_nl _ (by simp; omega) (by simp; omega)
      have ha' : ∀ n, n < 159 → Char.ofNat ('a'.toNat + n) ≠ '\n' := by
        intro n hn; exact ofNat_ne_nl _ (by simp; omega) (by simp; omega)
      simp only [List.mem_append, not_or]
      refine ⟨⟨⟨?_, ?_⟩, ?_⟩, ?_⟩
      · split
        · rename_i hk; simpa using (hA _ (h0 hk)).symm
        · simp
      · split
        · rename_i hk; simpa using (hA _ (h1 hk)).symm
        · simp
      · split
        · rename_i hk; simpa using (ha' _ (h2 hk)).symm
        · simp
      · split
        · rename_i hk; simpa using (ha' _ (h3 hk)).symm
        · simp
  · refine kept_lit _ _ 'H' _ rfl (by decide) (by decide) (by decide) (by decide) ?_
    rw [String.toList_ofList]
    exact (toDigits16_word _).2
  · cases p.frc <;> exact kept_closed _ (by decide)

end Rawr.Sess

#print axioms Rawr.agree_listen_loop4
