import Rawr.Proofs.SpecSanityPerftDefs
/-! perft of the start position, depth 3, slice 04: the subtree of first move `.normal 8 16 none` (kernel-evaluated). -/
namespace Rawr.SpecS
open Rawr.Spec

theorem start3_04 : leaves (apply stdStart (.normal 8 16 none)) 2 = 380 := by decide +kernel

end Rawr.SpecS
