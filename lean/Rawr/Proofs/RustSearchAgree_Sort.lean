import Rawr.Generated.RustSearch
import Rawr.Proofs.RustImpAgree
import Rawr.Proofs.SelSort
/-!
# Agreement for the move-ordering sorts of qsearch.rs and negamax.rs

The regenerated `R.qs_sort` / `R.nm_sort` work on a `[0; 218]` score buffer (a 218-element list) and a `Vec<Mv>`;
the model (`sortQs` / `sortNm`) scores the moves with `List.map` and runs `selSort` on two arrays of the SAME length.

MODEL ABSTRACTION (reported): `captureScore` reads `vals[(p.pieceOn m.src).getD 0]`, the Rust code `piece.unwrap()`
PANICS when a capturing move has no piece on its origin square.  The two agree exactly on the lists satisfying
`SrcOk` (every capture has a piece on its origin — true for every generated move list).
-/
namespace Rawr

/-- every move onto an occupied square starts from an occupied square. -/
def SrcOk (p : Position) (moves : List Mv) : Prop :=
  ∀ m ∈ moves, p.pieceOn m.dst ≠ none → p.pieceOn m.src ≠ none

theorem pieceOn_lt6 {p : Position} {x k : Nat} (h : p.pieceOn x = some k) : k < 6 := by
  unfold Position.pieceOn at h
  repeat (split at h; · cases h; omega)
  cases h

theorem vals_qs : ∀ c : Fin 6, ([100, 300, 325, 500, 900, 0] : List Int)[c.val]? = some (Gen.orderValsQsearch[c.val]!) := by decide
theorem vals_nm : ∀ c : Fin 6, ([100, 300, 325, 500, 900, 0] : List Int)[c.val]? = some (Gen.orderValsNegamax[c.val]!) := by decide

/-! ## the selection part (loops 2 and 3), shared by the two sorts -/

theorem loop3_eq (scores : List Int) (sc : Array Int) (h : scores.take sc.size = sc.toList) :
    ∀ (m j best f : Nat), j + m = sc.size → m ≤ f → best < sc.size →
      R.qs_sort_loop3 scores (List.range' j m) best = some (selInner sc best j f) := by
  have get : ∀ k, k < sc.size → scores[k]? = some sc[k]! := by
    intro k hk
    have : (scores.take sc.size)[k]? = sc.toList[k]? := by rw [h]
    rw [List.getElem?_take_of_lt hk] at this
    rw [this]
    simp [hk]
  intro m
  induction m with
  | zero =>
    intro j best f hj _ _
    cases f with
    | zero => simp [R.qs_sort_loop3, selInner]
    | succ f =>
      have : ¬ j < sc.size := by omega
      simp [R.qs_sort_loop3, selInner, this]
  | succ m ih =>
    intro j best f hj hf hb
    cases f with
    | zero => omega
    | succ f =>
      have hjs : j < sc.size := by omega
      rw [List.range'_succ]
      unfold R.qs_sort_loop3 selInner
      simp only [get j hjs, get best hb, hjs, if_true]
      apply ih (j + 1) _ f (by omega) (by omega)
      split <;> assumption

theorem take_set_set (l : List Int) (n i b : Nat) (x y : Int) :
    ((l.set i x).set b y).take n = ((l.take n).set i x).set b y := by
  rw [List.take_set, List.take_set]

theorem loop2_eq (n : Nat) : ∀ (m i f : Nat) (moves : List Mv) (scores : List Int) (sc : Array Int),
    moves.length = n → sc.size = n → scores.take n = sc.toList → i + m + 1 = n → m ≤ f →
    ∃ scores', R.qs_sort_loop2 (List.range' i m) moves scores = some ((selOuter n i f sc moves.toArray).toList, scores') := by
  intro m
  induction m with
  | zero =>
    intro i f moves scores sc hm hs hr hi _
    refine ⟨scores, ?_⟩
    cases f with
    | zero => simp [R.qs_sort_loop2, selOuter]
    | succ f =>
      have : ¬ i + 1 < n := by omega
      simp [R.qs_sort_loop2, selOuter, this]
  | succ m ih =>
    intro i f moves scores sc hm hs hr hi hf
    cases f with
    | zero => omega
    | succ f =>
      have hin : i + 1 < n := by omega
      have hi' : i < n := by omega
      rw [List.range'_succ]
      unfold R.qs_sort_loop2 selOuter
      simp only [hin, if_true]
      have h3 := loop3_eq scores sc (by rw [hs]; exact hr) (n - (i + 1)) (i + 1) i n (by omega) (by omega) (by omega)
      rw [hm, h3]
      have hb : selInner sc i (i + 1) n < n := by
        have := selInner_lt sc n i (i + 1) (by omega); omega
      generalize selInner sc i (i + 1) n = b at hb ⊢
      have gm : ∀ k, k < n → moves[k]? = some moves[k]! := by
        intro k hk
        rw [List.getElem?_eq_getElem (by omega), getElem!_pos moves k (by omega)]
      have gs : ∀ k, k < n → scores[k]? = some sc[k]! := by
        intro k hk
        have : (scores.take n)[k]? = sc.toList[k]? := by rw [hr]
        rw [List.getElem?_take_of_lt hk] at this
        rw [this]
        simp [hs, hk]
      have hsl : n ≤ scores.length := by
        have := congrArg List.length hr
        simp [hs] at this
        omega
      simp only [gm b hb, gm i hi', gs b hb, gs i hi', R.Lst.set, hm, hi', hb, List.length_set, if_true,
        show i < scores.length from by omega, show b < scores.length from by omega]
      have := ih (i + 1) f ((moves.set i moves[b]!).set b moves[i]!) ((scores.set i sc[b]!).set b sc[i]!)
        ((sc.set! i sc[b]!).set! b sc[i]!) (by simp [hm]) (by simp [hs])
        (by rw [take_set_set, hr]; simp [Array.set!_eq_setIfInBounds]) (by omega) (by omega)
      obtain ⟨s', hs'⟩ := this
      refine ⟨s', ?_⟩
      rw [hs']
      congr 3
      simp [Array.set!_eq_setIfInBounds, getElem!_pos, hm, hi', hb]

/-- the selection part of the regenerated sorts is the model's `selSort`. -/
theorem select_eq (moves : List Mv) (scores : List Int) (sc : Array Int) (hn : 1 ≤ moves.length)
    (hs : sc.size = moves.length) (hr : scores.take moves.length = sc.toList) :
    ∃ scores', R.qs_sort_loop2 (List.range (moves.length - 1)) moves scores = some ((selSort sc moves.toArray).toList, scores') := by
  rw [List.range_eq_range']
  have := loop2_eq moves.length (moves.length - 1) 0 moves.length moves scores sc rfl hs hr (by omega) (by omega)
  simpa [selSort] using this

/-! the negamax copies of the two loops are the same functions -/
theorem nm_loop3_eq : @R.nm_sort_loop3 = @R.qs_sort_loop3 := by
  funext scores l
  induction l with
  | nil => funext b; rfl
  | cons j l ih =>
    funext b
    unfold R.nm_sort_loop3 R.qs_sort_loop3
    rw [ih]

theorem nm_loop2_eq : @R.nm_sort_loop2 = @R.qs_sort_loop2 := by
  funext l
  induction l with
  | nil => funext m s; rfl
  | cons j l ih =>
    funext m s
    unfold R.nm_sort_loop2 R.qs_sort_loop2
    rw [ih, nm_loop3_eq]

/-! ## the scoring loops -/

/-- what a scoring loop computes: entries `k .. n-1` of the buffer are the scores of the moves, the rest is kept. -/
def Scored (cs : Mv → Int) (moves : List Mv) (k : Nat) (scores scores' : List Int) : Prop :=
  scores'.length = scores.length ∧ (∀ j, k ≤ j → j < moves.length → scores'[j]? = some (cs moves[j]!)) ∧
    (∀ j, j < k → scores'[j]? = scores[j]?)

theorem scored_step {cs : Mv → Int} {moves : List Mv} {k : Nat} {scores s' : List Int} (hk : k < scores.length)
    (h : Scored cs moves (k + 1) (scores.set k (cs moves[k]!)) s') : Scored cs moves k scores s' := by
  obtain ⟨h1, h2, h3⟩ := h
  refine ⟨by simpa using h1, ?_, ?_⟩
  · intro j hj hjn
    by_cases e : j = k
    · subst e
      rw [h3 j (by omega)]
      simp [hk]
    · exact h2 j (by omega) hjn
  · intro j hj
    rw [h3 j (by omega), List.getElem?_set_ne (by omega)]

/-- the scores computed by a scoring loop, as the model's `List.map`. -/
theorem scored_take {cs : Mv → Int} {moves : List Mv} {scores s' : List Int} (h : Scored cs moves 0 scores s')
    (hn : moves.length ≤ scores.length) : s'.take moves.length = ((moves.map cs).toArray).toList := by
  obtain ⟨h1, h2, _⟩ := h
  apply List.ext_getElem?
  intro j
  by_cases hj : j < moves.length
  · rw [List.getElem?_take_of_lt hj, h2 j (by omega) hj]
    simp [hj]
  · rw [List.getElem?_eq_none (by simp; omega), List.getElem?_eq_none (by simp; omega)]

theorem qs_loop1_eq (p : Position) (moves : List Mv) (hsrc : SrcOk p moves) :
    ∀ (m k : Nat) (scores : List Int), k + m = moves.length → moves.length ≤ scores.length →
      ∃ s', R.qs_sort_loop1 p moves [100, 300, 325, 500, 900, 0] (List.range' k m) scores = some s' ∧
        Scored (captureScore Gen.orderValsQsearch p) moves k scores s' := by
  intro m
  induction m with
  | zero =>
    intro k scores hk _
    exact ⟨scores, rfl, rfl, fun j h1 h2 => by omega, fun _ _ => rfl⟩
  | succ m ih =>
    intro k scores hk hl
    have hkn : k < moves.length := by omega
    rw [List.range'_succ]
    unfold R.qs_sort_loop1
    simp only [List.getElem?_eq_getElem hkn, agree_get_piece_on]
    have hks : k < scores.length := by omega
    obtain ⟨s', h1, h2⟩ := ih (k + 1) (scores.set k (captureScore Gen.orderValsQsearch p moves[k])) (by omega) (by simpa using hl)
    refine ⟨s', ?_, scored_step (by omega) (by rw [getElem!_pos moves k hkn]; exact h2)⟩
    have hso := hsrc _ (List.getElem_mem hkn)
    unfold captureScore at h1
    cases hd : p.pieceOn moves[k].dst with
    | none =>
      simp only [hd] at h1
      simp only [R.Lst.set, hks, if_true]
      exact h1
    | some c =>
      have hc := pieceOn_lt6 hd
      cases hs : p.pieceOn moves[k].src with
      | none => exact absurd hs (hso (by simp [hd]))
      | some u =>
        have hu := pieceOn_lt6 hs
        simp only [hd, hs, Option.getD_some] at h1
        simp only [vals_qs ⟨c, hc⟩, vals_qs ⟨u, hu⟩, R.Lst.set, hks, if_true]
        exact h1

/-- a scoring loop that succeeds never indexed outside the buffer. -/
theorem lst_set_some {α : Type} {l l' : List α} {i : Nat} {v : α} (h : R.Lst.set l i v = some l') : l'.length = l.length ∧ i < l.length := by
  unfold R.Lst.set at h
  split at h
  · injection h with h; subst h; exact ⟨by simp, by assumption⟩
  · cases h

theorem qs_loop1_bound (p : Position) (moves : List Mv) (vals : List Int) :
    ∀ (l : List Nat) (scores s' : List Int), R.qs_sort_loop1 p moves vals l scores = some s' → ∀ i ∈ l, i < scores.length := by
  intro l
  induction l with
  | nil => intro _ _ _ i hi; cases hi
  | cons a l ih =>
    intro scores s' h i hi
    unfold R.qs_sort_loop1 at h
    split at h
    · cases h
    · simp only at h
      split at h
      · cases h
      · rename_i sc1 hsc
        have hlen : sc1.length = scores.length ∧ a < scores.length := by
          repeat' split at hsc
          all_goals first | cases hsc | skip
          all_goals exact lst_set_some (by assumption)
        rcases List.mem_cons.mp hi with rfl | hi
        · exact hlen.2
        · have := ih sc1 s' h i hi
          omega

theorem agree_qs_sort (p : Position) (moves : List Mv) (hsrc : SrcOk p moves) : R.qs_sort p moves = sortQs p moves := by
  unfold R.qs_sort sortQs
  by_cases h2 : moves.length < 2
  · simp [h2]
  · have hlt : (decide (moves.length < 2)) = false := by simpa using h2
    simp only [if_false, h2]
    by_cases hbig : moves.length > Gen.orderBufQsearch
    · simp only [hbig, if_true]
      cases hc : R.qs_sort_loop1 p moves [100, 300, 325, 500, 900, 0] (List.range moves.length) (List.replicate 218 0) with
      | none => rfl
      | some s' =>
        have := qs_loop1_bound p moves _ _ _ _ hc 218 (List.mem_range.mpr hbig)
        rw [List.length_replicate] at this
        omega
    · simp only [hbig, if_false]
      have hle : moves.length ≤ (List.replicate 218 (0 : Int)).length := by
        rw [List.length_replicate]; unfold Gen.orderBufQsearch at hbig; omega
      rw [List.range_eq_range']
      obtain ⟨s', h1, hsc⟩ := qs_loop1_eq p moves hsrc moves.length 0 (List.replicate 218 0) (by omega) hle
      rw [h1]
      simp only
      have hl' : moves.length ≤ s'.length := by rw [hsc.1]; exact hle
      obtain ⟨s'', h3⟩ := select_eq moves s' ((moves.map (captureScore Gen.orderValsQsearch p)).toArray) (by omega)
        (by simp) (scored_take hsc hle)
      rw [h3]

/-! ## negamax.rs `sort` -/
/-- the model's ordering score in negamax (`1_000_000` for the hash move). -/
def nmScore (p : Position) (ttmove : Option Mv) (m : Mv) : Int :=
  if ttmove == some m then Gen.ttMoveOrderScore else captureScore Gen.orderValsNegamax p m

theorem isSome_and_eq (t : Option Mv) (m : Mv) : (Option.isSome t && (t == some m)) = (t == some m) := by
  cases t <;> simp

theorem nm_loop1_eq (p : Position) (moves : List Mv) (tt : Option Mv) (hsrc : SrcOk p moves) :
    ∀ (m k : Nat) (scores : List Int), k + m = moves.length → moves.length ≤ scores.length →
      ∃ s', R.nm_sort_loop1 p moves tt [100, 300, 325, 500, 900, 0] (List.range' k m) scores = some s' ∧
        Scored (nmScore p tt) moves k scores s' := by
  intro m
  induction m with
  | zero =>
    intro k scores hk _
    exact ⟨scores, rfl, rfl, fun j h1 h2 => by omega, fun _ _ => rfl⟩
  | succ m ih =>
    intro k scores hk hl
    have hkn : k < moves.length := by omega
    rw [List.range'_succ]
    unfold R.nm_sort_loop1
    simp only [List.getElem?_eq_getElem hkn, agree_get_piece_on, isSome_and_eq]
    have hks : k < scores.length := by omega
    obtain ⟨s', h1, h2⟩ := ih (k + 1) (scores.set k (nmScore p tt moves[k])) (by omega) (by simpa using hl)
    refine ⟨s', ?_, scored_step (by omega) (by rw [getElem!_pos moves k hkn]; exact h2)⟩
    have hso := hsrc _ (List.getElem_mem hkn)
    unfold nmScore captureScore at h1
    by_cases ht : (tt == some moves[k]) = true
    · simp only [ht, if_true] at h1
      simp only [ht, if_true, R.Lst.set, hks]
      exact h1
    · simp only [ht] at h1
      simp only [ht, if_false, Bool.false_eq_true]
      cases hd : p.pieceOn moves[k].dst with
      | none =>
        simp only [hd] at h1
        simp only [R.Lst.set, hks, if_true]
        exact h1
      | some c =>
        have hc := pieceOn_lt6 hd
        cases hs : p.pieceOn moves[k].src with
        | none => exact absurd hs (hso (by simp [hd]))
        | some u =>
          have hu := pieceOn_lt6 hs
          simp only [hd, hs, Option.getD_some] at h1
          simp only [vals_nm ⟨c, hc⟩, vals_nm ⟨u, hu⟩, R.Lst.set, hks, if_true]
          exact h1

theorem nm_loop1_bound (p : Position) (moves : List Mv) (tt : Option Mv) (vals : List Int) :
    ∀ (l : List Nat) (scores s' : List Int), R.nm_sort_loop1 p moves tt vals l scores = some s' → ∀ i ∈ l, i < scores.length := by
  intro l
  induction l with
  | nil => intro _ _ _ i hi; cases hi
  | cons a l ih =>
    intro scores s' h i hi
    unfold R.nm_sort_loop1 at h
    split at h
    · cases h
    · simp only at h
      split at h
      · cases h
      · split at h
        · cases h
        · rename_i sc1 hsc
          have hlen := lst_set_some hsc
          rcases List.mem_cons.mp hi with rfl | hi
          · exact hlen.2
          · have := ih sc1 s' h i hi
            omega

theorem agree_nm_sort (p : Position) (moves : List Mv) (tt : Option Mv) (hsrc : SrcOk p moves) :
    R.nm_sort p moves tt = sortNm p moves tt := by
  unfold R.nm_sort sortNm
  by_cases h2 : moves.length < 2
  · simp [h2]
  · simp only [if_false, h2]
    by_cases hbig : moves.length > Gen.orderBufNegamax
    · simp only [hbig, if_true]
      cases hc : R.nm_sort_loop1 p moves tt [100, 300, 325, 500, 900, 0] (List.range moves.length) (List.replicate 218 0) with
      | none => rfl
      | some s' =>
        have := nm_loop1_bound p moves tt _ _ _ _ hc 218 (List.mem_range.mpr hbig)
        rw [List.length_replicate] at this
        omega
    · simp only [hbig, if_false]
      have hle : moves.length ≤ (List.replicate 218 (0 : Int)).length := by
        rw [List.length_replicate]; unfold Gen.orderBufNegamax at hbig; omega
      rw [List.range_eq_range']
      obtain ⟨s', h1, hsc⟩ := nm_loop1_eq p moves tt hsrc moves.length 0 (List.replicate 218 0) (by omega) hle
      rw [h1]
      simp only
      obtain ⟨s'', h3⟩ := select_eq moves s' ((moves.map (nmScore p tt)).toArray) (by omega)
        (by simp) (scored_take hsc hle)
      rw [nm_loop2_eq, h3]
      rfl

/-! non-vacuity: the regenerated sort computes (two captures ordered by victim value) -/
example : R.qs_sort Gen.startpos [⟨12, 28, 6⟩, ⟨1, 18, 6⟩] = some [⟨12, 28, 6⟩, ⟨1, 18, 6⟩] := by decide +kernel

end Rawr

#print axioms Rawr.agree_qs_sort
#print axioms Rawr.agree_nm_sort
