import Rawr.Proofs.GenCastle5
/-!
# The generator's prelude in geometric terms: the eight rays from the king, the pin sets

`B := relBoard p` (mover's frame), `k := lsb (p.p5 &&& p.c0)` the mover's king.
* `RayHit B k d s`: `s` is `j ≥ 1` steps of `d` away from `k` and every square strictly between is empty
  (the membership predicate of the ray walked from `k` in direction `d`, first blocker included);
* `ray_mem`/`rayNE_mem`…: the eight fills of rays.rs; `prelude_rayNE`…: the guarded rays of the prelude;
* `PinAlong B us chk k d f`: the own piece `f` is the first blocker on ray `d` from `k` and the next
  blocker behind it is in `chk`; `prelude_bpinned`, `prelude_vpinned`, `prelude_hpinned`,
  `prelude_rpinned`, `prelude_pinned`, `prelude_bxrays`, `prelude_vxrays`, `prelude_hxrays`,
  `prelude_rxrays`.
-/
set_option linter.unusedSimpArgs false
namespace Rawr.Att
open Spec

/-- `s` is reached from `k` walking in direction `d` over empty squares (`s` itself may be occupied). -/
def RayHit (B : Board) (k : Nat) (d : Int × Int) (s : Nat) : Prop :=
  ∃ j : Nat, 1 ≤ j ∧ file s = file k + d.1 * j ∧ rank s = rank k + d.2 * j ∧ clearBetween B k s = true

/-- membership in a walked ray. -/
theorem ray_mem {B : Board} {occ : BB} (ho : OccRep B occ) {d : Int × Int} (hd : GoodDir d)
    {k : Nat} (hk : k < 64) (s : Nat) :
    (setBB (walk d.1 d.2 k occ.getLsbD)).getLsbD s = true ↔ s < 64 ∧ RayHit B k d s := by
  obtain ⟨h1, h2, h3⟩ := hd
  rw [getLsbD_setBB, Bool.and_eq_true, decide_eq_true_iff, List.contains_iff_mem]
  constructor
  · rintro ⟨hs, hm⟩
    exact ⟨hs, (mem_walk_iff B _ ho h1 h2 h3 k s hk hs).mp hm⟩
  · rintro ⟨hs, hm⟩
    exact ⟨hs, (mem_walk_iff B _ ho h1 h2 h3 k s hk hs).mpr hm⟩

def dNE : Int × Int := (1, 1)
def dNW : Int × Int := (-1, 1)
def dSE : Int × Int := (1, -1)
def dSW : Int × Int := (-1, -1)
def dN : Int × Int := (0, 1)
def dS : Int × Int := (0, -1)
def dE : Int × Int := (1, 0)
def dW : Int × Int := (-1, 0)

theorem good_NE : GoodDir dNE := by simp [GoodDir, Unit3, dNE]
theorem good_NW : GoodDir dNW := by simp [GoodDir, Unit3, dNW]
theorem good_SE : GoodDir dSE := by simp [GoodDir, Unit3, dSE]
theorem good_SW : GoodDir dSW := by simp [GoodDir, Unit3, dSW]
theorem good_N : GoodDir dN := by simp [GoodDir, Unit3, dN]
theorem good_S : GoodDir dS := by simp [GoodDir, Unit3, dS]
theorem good_E : GoodDir dE := by simp [GoodDir, Unit3, dE]
theorem good_W : GoodDir dW := by simp [GoodDir, Unit3, dW]

theorem diag_eq : diag = [dNE, dNW, dSE, dSW] := rfl
theorem orth_eq : orth = [dE, dW, dN, dS] := rfl

section fills
variable {B : Board} {occ : BB} (ho : OccRep B occ) {k : Nat} (hk : k < 64) (s : Nat)
include ho hk

theorem rayNE_mem : (rayNE k occ).getLsbD s = true ↔ s < 64 ∧ RayHit B k dNE s := by
  rw [rayNE_eq_walk k hk occ]; exact ray_mem ho good_NE hk s
theorem rayNW_mem : (rayNW k occ).getLsbD s = true ↔ s < 64 ∧ RayHit B k dNW s := by
  rw [rayNW_eq_walk k hk occ]; exact ray_mem ho good_NW hk s
theorem raySE_mem : (raySE k occ).getLsbD s = true ↔ s < 64 ∧ RayHit B k dSE s := by
  rw [raySE_eq_walk k hk occ]; exact ray_mem ho good_SE hk s
theorem raySW_mem : (raySW k occ).getLsbD s = true ↔ s < 64 ∧ RayHit B k dSW s := by
  rw [raySW_eq_walk k hk occ]; exact ray_mem ho good_SW hk s
theorem rayN_mem : (rayN k occ).getLsbD s = true ↔ s < 64 ∧ RayHit B k dN s := by
  rw [rayN_eq_walk k hk occ]; exact ray_mem ho good_N hk s
theorem rayS_mem : (rayS k occ).getLsbD s = true ↔ s < 64 ∧ RayHit B k dS s := by
  rw [rayS_eq_walk k hk occ]; exact ray_mem ho good_S hk s
theorem rayE_mem : (rayE k occ).getLsbD s = true ↔ s < 64 ∧ RayHit B k dE s := by
  rw [rayE_eq_walk k hk occ]; exact ray_mem ho good_E hk s
theorem rayW_mem : (rayW k occ).getLsbD s = true ↔ s < 64 ∧ RayHit B k dW s := by
  rw [rayW_eq_walk k hk occ]; exact ray_mem ho good_W hk s

end fills

/-- the enemy bishops and queens (`themRQ` is in `GenCastle3`). -/
def themBQ (p : Position) : BB := p.c1 &&& (p.p2 ||| p.p4)

/-! ### the guarded rays of the prelude -/

theorem prelude_rays_eq (p : Position) :
    (prelude p).rayNE = (if (themBQ p).isOcc then rayNE (lsb (p.p5 &&& p.c0)) p.occ else 0#64) ∧
    (prelude p).raySW = (if (themBQ p).isOcc then raySW (lsb (p.p5 &&& p.c0)) p.occ else 0#64) ∧
    (prelude p).rayNW = (if (themBQ p).isOcc then rayNW (lsb (p.p5 &&& p.c0)) p.occ else 0#64) ∧
    (prelude p).raySE = (if (themBQ p).isOcc then raySE (lsb (p.p5 &&& p.c0)) p.occ else 0#64) ∧
    (prelude p).rayN = (if (themRQ p).isOcc then rayN (lsb (p.p5 &&& p.c0)) p.occ else 0#64) ∧
    (prelude p).rayS = (if (themRQ p).isOcc then rayS (lsb (p.p5 &&& p.c0)) p.occ else 0#64) ∧
    (prelude p).rayE = (if (themRQ p).isOcc then rayE (lsb (p.p5 &&& p.c0)) p.occ else 0#64) ∧
    (prelude p).rayW = (if (themRQ p).isOcc then rayW (lsb (p.p5 &&& p.c0)) p.occ else 0#64) :=
  ⟨rfl, rfl, rfl, rfl, rfl, rfl, rfl, rfl⟩

theorem guarded_mem (g : Bool) (X : BB) (s : Nat) :
    (if g = true then X else 0#64).getLsbD s = true ↔ g = true ∧ X.getLsbD s = true := by
  cases g <;> simp

section prays
variable {p : Position} (hV : ValidPos p = true) (s : Nat)
include hV

theorem prelude_rayNE : (prelude p).rayNE.getLsbD s = true ↔
    (themBQ p).isOcc = true ∧ s < 64 ∧ RayHit (relBoard p) (lsb (p.p5 &&& p.c0)) dNE s := by
  rw [(prelude_rays_eq p).1, guarded_mem, rayNE_mem (occRep_rel (valid_consistent hV)) (kingFacts hV).k64]
theorem prelude_raySW : (prelude p).raySW.getLsbD s = true ↔
    (themBQ p).isOcc = true ∧ s < 64 ∧ RayHit (relBoard p) (lsb (p.p5 &&& p.c0)) dSW s := by
  rw [(prelude_rays_eq p).2.1, guarded_mem, raySW_mem (occRep_rel (valid_consistent hV)) (kingFacts hV).k64]
theorem prelude_rayNW : (prelude p).rayNW.getLsbD s = true ↔
    (themBQ p).isOcc = true ∧ s < 64 ∧ RayHit (relBoard p) (lsb (p.p5 &&& p.c0)) dNW s := by
  rw [(prelude_rays_eq p).2.2.1, guarded_mem, rayNW_mem (occRep_rel (valid_consistent hV)) (kingFacts hV).k64]
theorem prelude_raySE : (prelude p).raySE.getLsbD s = true ↔
    (themBQ p).isOcc = true ∧ s < 64 ∧ RayHit (relBoard p) (lsb (p.p5 &&& p.c0)) dSE s := by
  rw [(prelude_rays_eq p).2.2.2.1, guarded_mem, raySE_mem (occRep_rel (valid_consistent hV)) (kingFacts hV).k64]
theorem prelude_rayN : (prelude p).rayN.getLsbD s = true ↔
    (themRQ p).isOcc = true ∧ s < 64 ∧ RayHit (relBoard p) (lsb (p.p5 &&& p.c0)) dN s := by
  rw [(prelude_rays_eq p).2.2.2.2.1, guarded_mem, rayN_mem (occRep_rel (valid_consistent hV)) (kingFacts hV).k64]
theorem prelude_rayS : (prelude p).rayS.getLsbD s = true ↔
    (themRQ p).isOcc = true ∧ s < 64 ∧ RayHit (relBoard p) (lsb (p.p5 &&& p.c0)) dS s := by
  rw [(prelude_rays_eq p).2.2.2.2.2.1, guarded_mem, rayS_mem (occRep_rel (valid_consistent hV)) (kingFacts hV).k64]
theorem prelude_rayE : (prelude p).rayE.getLsbD s = true ↔
    (themRQ p).isOcc = true ∧ s < 64 ∧ RayHit (relBoard p) (lsb (p.p5 &&& p.c0)) dE s := by
  rw [(prelude_rays_eq p).2.2.2.2.2.2.1, guarded_mem, rayE_mem (occRep_rel (valid_consistent hV)) (kingFacts hV).k64]
theorem prelude_rayW : (prelude p).rayW.getLsbD s = true ↔
    (themRQ p).isOcc = true ∧ s < 64 ∧ RayHit (relBoard p) (lsb (p.p5 &&& p.c0)) dW s := by
  rw [(prelude_rays_eq p).2.2.2.2.2.2.2, guarded_mem, rayW_mem (occRep_rel (valid_consistent hV)) (kingFacts hV).k64]

end prays

/-! ### geometry of `RayHit` -/

/-- the square `j` steps of `d` from `k`. -/
theorem rayHit_sq {k : Nat} {d : Int × Int} {s : Nat} {j : Nat}
    (hf : file s = file k + d.1 * j) (hr : rank s = rank k + d.2 * j) :
    sq (file k + d.1 * j) (rank k + d.2 * j) = s := by
  rw [← hf, ← hr, sq_file_rank]

/-- two occupied squares reached on the same ray coincide (a ray stops at its first blocker). -/
theorem rayHit_unique {B : Board} {k : Nat} {d : Int × Int} (hd : GoodDir d) {a b : Nat}
    (ha : RayHit B k d a) (hb : RayHit B k d b) (oa : B a ≠ none) (ob : B b ≠ none) : a = b := by
  obtain ⟨h1, h2, h3⟩ := hd
  obtain ⟨ja, hja, fa, ra, ca⟩ := ha
  obtain ⟨jb, hjb, fb, rb, cb⟩ := hb
  rcases Nat.lt_trichotomy ja jb with h | h | h
  · exfalso
    rw [clearBetween_iff B h1 h2 h3 k b jb hjb fb rb] at cb
    have := cb ja hja h
    rw [rayHit_sq fa ra, isNone_iff] at this
    exact oa this
  · subst h
    exact eq_of_file_rank (by rw [fa, fb]) (by rw [ra, rb])
  · exfalso
    rw [clearBetween_iff B h1 h2 h3 k a ja hja fa ra] at ca
    have := ca jb hjb h
    rw [rayHit_sq fb rb, isNone_iff] at this
    exact ob this


/-! ### one `pinStep` -/

/-- the own piece on `f` is the first blocker on the ray `d` from `k`, and the first blocker behind it
(same direction) is in `chk`. -/
def PinAlong (B : Board) (us chk : BB) (k : Nat) (d : Int × Int) (f : Nat) : Prop :=
  RayHit B k d f ∧ us.getLsbD f = true ∧ ∃ s, RayHit B f d s ∧ chk.getLsbD s = true

theorem pinStep_mem {B : Board} {occ : BB} (ho : OccRep B occ) {d : Int × Int} (hd : GoodDir d)
    {us chk : BB} (hus : ∀ x, us.getLsbD x = true → B x ≠ none) {k : Nat} (hk : k < 64)
    {rayFn : Nat → BB → BB} (hfn : ∀ s, s < 64 → rayFn s occ = setBB (walk d.1 d.2 s occ.getLsbD))
    (acc : BB × BB) (x : Nat) :
    ((pinStep rayFn (if chk.isOcc then rayFn k occ else 0#64) us occ chk acc).1.getLsbD x = true ↔
        acc.1.getLsbD x = true ∨ PinAlong B us chk k d x) ∧
    ((pinStep rayFn (if chk.isOcc then rayFn k occ else 0#64) us occ chk acc).2.getLsbD x = true ↔
        acc.2.getLsbD x = true ∨
          ∃ f, PinAlong B us chk k d f ∧ x < 64 ∧ (RayHit B k d x ∨ RayHit B f d x)) := by
  have hx64 : ∀ {X : BB} {y : Nat}, X.getLsbD y = true → y < 64 := fun h => BitVec.lt_of_getLsbD h
  have pinFacts : ∀ f, PinAlong B us chk k d f →
      chk.isOcc = true ∧ (rayFn k occ &&& us).isOcc = true ∧ lsb (rayFn k occ &&& us) = f ∧
      (rayFn f occ &&& chk).isOcc = true := by
    rintro f ⟨hr, hu, s, hs, hc⟩
    have f64 := hx64 hu
    have s64 := hx64 hc
    have hmem : (rayFn k occ &&& us).getLsbD f = true := by
      rw [BitVec.getLsbD_and, hu, Bool.and_true, hfn k hk]; exact (ray_mem ho hd hk f).mpr ⟨f64, hr⟩
    have huniq : ∀ t, t < 64 → (rayFn k occ &&& us).getLsbD t = true → t = f := by
      intro t ht hb
      rw [BitVec.getLsbD_and, Bool.and_eq_true, hfn k hk] at hb
      exact rayHit_unique hd ((ray_mem ho hd hk t).mp hb.1).2 hr (hus t hb.2) (hus f hu)
    obtain ⟨h1, h2⟩ := lsb_eq_of_unique f64 hmem huniq
    refine ⟨(isOcc_iff _).mpr ⟨s, s64, hc⟩, h1, h2, (isOcc_iff _).mpr ⟨s, s64, ?_⟩⟩
    rw [BitVec.getLsbD_and, hc, Bool.and_true, hfn f f64]; exact (ray_mem ho hd f64 s).mpr ⟨s64, hs⟩
  unfold pinStep
  cases hg : chk.isOcc
  · simp only [Bool.false_eq_true, if_false, BitVec.zero_and, isOcc_zero]
    refine ⟨⟨Or.inl, ?_⟩, ⟨Or.inl, ?_⟩⟩
    · rintro (h | h)
      · exact h
      · have := (pinFacts _ h).1; rw [hg] at this; cases this
    · rintro (h | ⟨f, h, _⟩)
      · exact h
      · have := (pinFacts _ h).1; rw [hg] at this; cases this
  · simp only [if_true]
    cases h1 : (rayFn k occ &&& us).isOcc
    · simp only [Bool.false_eq_true, if_false]
      refine ⟨⟨Or.inl, ?_⟩, ⟨Or.inl, ?_⟩⟩
      · rintro (h | h)
        · exact h
        · have := (pinFacts _ h).2.1; rw [h1] at this; cases this
      · rintro (h | ⟨f, h, _⟩)
        · exact h
        · have := (pinFacts _ h).2.1; rw [h1] at this; cases this
    · simp only [if_true]
      obtain ⟨q64, hq⟩ := lsb_mem_of_isOcc h1
      have pinFacts' : ∀ f, PinAlong B us chk k d f →
          f = lsb (rayFn k occ &&& us) ∧ (rayFn f occ &&& chk).isOcc = true :=
        fun f h => ⟨(pinFacts f h).2.2.1.symm, (pinFacts f h).2.2.2⟩
      generalize lsb (rayFn k occ &&& us) = q at *
      rw [BitVec.getLsbD_and, Bool.and_eq_true, hfn k hk] at hq
      have hkq : RayHit B k d q := ((ray_mem ho hd hk q).mp hq.1).2
      cases h2 : (rayFn q occ &&& chk).isOcc
      · simp only [Bool.false_eq_true, if_false]
        refine ⟨⟨Or.inl, ?_⟩, ⟨Or.inl, ?_⟩⟩
        · rintro (h | h)
          · exact h
          · obtain ⟨e, h'⟩ := pinFacts' _ h; subst e; rw [h2] at h'; cases h'
        · rintro (h | ⟨f, h, _⟩)
          · exact h
          · obtain ⟨e, h'⟩ := pinFacts' _ h; subst e; rw [h2] at h'; cases h'
      · simp only [if_true]
        obtain ⟨s, s64, hs⟩ := (isOcc_iff _).mp h2
        rw [BitVec.getLsbD_and, Bool.and_eq_true, hfn q q64] at hs
        have hpin : PinAlong B us chk k d q :=
          ⟨hkq, hq.2, s, ((ray_mem ho hd q64 s).mp hs.1).2, hs.2⟩
        constructor
        · rw [BitVec.getLsbD_or, Bool.or_eq_true, getLsbD_bit]
          constructor
          · rintro (h | h)
            · exact Or.inl h
            · simp only [Bool.and_eq_true, decide_eq_true_eq] at h
              right; rw [h.2]; exact hpin
          · rintro (h | h)
            · exact Or.inl h
            · right
              have := (pinFacts' _ h).1
              simp [this, q64]
        · rw [BitVec.getLsbD_or, BitVec.getLsbD_or, Bool.or_eq_true, Bool.or_eq_true, hfn q q64, hfn k hk,
            ray_mem ho hd q64, ray_mem ho hd hk]
          constructor
          · rintro (h | ⟨h64, h⟩ | ⟨h64, h⟩)
            · exact Or.inl h
            · exact Or.inr ⟨q, hpin, h64, Or.inr h⟩
            · exact Or.inr ⟨q, hpin, h64, Or.inl h⟩
          · rintro (h | ⟨f, h, h64, h'⟩)
            · exact Or.inl h
            · have := (pinFacts' _ h).1
              subst this
              rcases h' with h' | h'
              · exact Or.inr (Or.inr ⟨h64, h'⟩)
              · exact Or.inr (Or.inl ⟨h64, h'⟩)

/-! ### the pin sets of the prelude -/

theorem prelude_pins_eq (p : Position) :
    let k := lsb (p.p5 &&& p.c0)
    let g (c : BB) (r : BB) : BB := if c.isOcc then r else 0#64
    let b4 := pinStep raySW (g (themBQ p) (raySW k p.occ)) p.c0 p.occ (themBQ p)
      (pinStep raySE (g (themBQ p) (raySE k p.occ)) p.c0 p.occ (themBQ p)
        (pinStep rayNW (g (themBQ p) (rayNW k p.occ)) p.c0 p.occ (themBQ p)
          (pinStep rayNE (g (themBQ p) (rayNE k p.occ)) p.c0 p.occ (themBQ p) (0#64, 0#64))))
    let v2 := pinStep rayS (g (themRQ p) (rayS k p.occ)) p.c0 p.occ (themRQ p)
      (pinStep rayN (g (themRQ p) (rayN k p.occ)) p.c0 p.occ (themRQ p) (0#64, 0#64))
    let h2 := pinStep rayW (g (themRQ p) (rayW k p.occ)) p.c0 p.occ (themRQ p)
      (pinStep rayE (g (themRQ p) (rayE k p.occ)) p.c0 p.occ (themRQ p) (0#64, 0#64))
    (prelude p).bpinned = b4.1 ∧ (prelude p).bxrays = b4.2 ||| (p.p5 &&& p.c0) ∧
    (prelude p).vpinned = v2.1 ∧ (prelude p).vxrays = v2.2 ∧
    (prelude p).hpinned = h2.1 ∧ (prelude p).hxrays = h2.2 ∧
    (prelude p).rxrays = h2.2 ||| v2.2 ∧ (prelude p).rpinned = v2.1 ||| h2.1 ∧
    (prelude p).pinned = b4.1 ||| (v2.1 ||| h2.1) :=
  ⟨rfl, rfl, rfl, rfl, rfl, rfl, rfl, rfl, rfl⟩

section pins
variable {p : Position} (hV : ValidPos p = true)
include hV

theorem own_ne_none (x : Nat) (h : p.c0.getLsbD x = true) : relBoard p x ≠ none :=
  own_occupied (valid_consistent hV) (BitVec.lt_of_getLsbD h) h

/-- `x ∈ bpinned`: an own piece, first on a diagonal ray from the king, with an enemy bishop or queen
next behind it. -/
theorem prelude_bpinned (x : Nat) : (prelude p).bpinned.getLsbD x = true ↔
    ∃ d ∈ diag, PinAlong (relBoard p) p.c0 (themBQ p) (lsb (p.p5 &&& p.c0)) d x := by
  have ho := occRep_rel (valid_consistent hV)
  have hk := (kingFacts hV).k64
  have hus := own_ne_none hV
  rw [(prelude_pins_eq p).1]
  dsimp only
  rw [(pinStep_mem ho good_SW hus hk (fun s hs => raySW_eq_walk s hs _) _ x).1,
    (pinStep_mem ho good_SE hus hk (fun s hs => raySE_eq_walk s hs _) _ x).1,
    (pinStep_mem ho good_NW hus hk (fun s hs => rayNW_eq_walk s hs _) _ x).1,
    (pinStep_mem ho good_NE hus hk (fun s hs => rayNE_eq_walk s hs _) _ x).1]
  simp only [BitVec.getLsbD_zero, Bool.false_eq_true, false_or, diag_eq, List.mem_cons,
    List.not_mem_nil, or_false, exists_eq_or_imp, exists_eq_left]
  simp only [or_assoc, or_comm, or_left_comm]

theorem prelude_vpinned (x : Nat) : (prelude p).vpinned.getLsbD x = true ↔
    ∃ d ∈ [dN, dS], PinAlong (relBoard p) p.c0 (themRQ p) (lsb (p.p5 &&& p.c0)) d x := by
  have ho := occRep_rel (valid_consistent hV)
  have hk := (kingFacts hV).k64
  have hus := own_ne_none hV
  rw [(prelude_pins_eq p).2.2.1]
  dsimp only
  rw [(pinStep_mem ho good_S hus hk (fun s hs => rayS_eq_walk s hs _) _ x).1,
    (pinStep_mem ho good_N hus hk (fun s hs => rayN_eq_walk s hs _) _ x).1]
  simp only [BitVec.getLsbD_zero, Bool.false_eq_true, false_or, List.mem_cons,
    List.not_mem_nil, or_false, exists_eq_or_imp, exists_eq_left]

theorem prelude_hpinned (x : Nat) : (prelude p).hpinned.getLsbD x = true ↔
    ∃ d ∈ [dE, dW], PinAlong (relBoard p) p.c0 (themRQ p) (lsb (p.p5 &&& p.c0)) d x := by
  have ho := occRep_rel (valid_consistent hV)
  have hk := (kingFacts hV).k64
  have hus := own_ne_none hV
  rw [(prelude_pins_eq p).2.2.2.2.1]
  dsimp only
  rw [(pinStep_mem ho good_W hus hk (fun s hs => rayW_eq_walk s hs _) _ x).1,
    (pinStep_mem ho good_E hus hk (fun s hs => rayE_eq_walk s hs _) _ x).1]
  simp only [BitVec.getLsbD_zero, Bool.false_eq_true, false_or, List.mem_cons,
    List.not_mem_nil, or_false, exists_eq_or_imp, exists_eq_left]

omit hV in
theorem prelude_rpinned_eq (p : Position) : (prelude p).rpinned = (prelude p).vpinned ||| (prelude p).hpinned := rfl
omit hV in
theorem prelude_pinned_eq (p : Position) : (prelude p).pinned = (prelude p).bpinned ||| (prelude p).rpinned := rfl
omit hV in
theorem prelude_rxrays_eq (p : Position) : (prelude p).rxrays = (prelude p).hxrays ||| (prelude p).vxrays := rfl

theorem prelude_rpinned (x : Nat) : (prelude p).rpinned.getLsbD x = true ↔
    ∃ d ∈ orth, PinAlong (relBoard p) p.c0 (themRQ p) (lsb (p.p5 &&& p.c0)) d x := by
  rw [prelude_rpinned_eq, BitVec.getLsbD_or, Bool.or_eq_true, prelude_vpinned hV, prelude_hpinned hV]
  simp only [orth_eq, List.mem_cons, List.not_mem_nil, or_false, exists_eq_or_imp, exists_eq_left]
  simp only [or_assoc, or_comm, or_left_comm]

/-- the squares of one pin line: from the king (exclusive) to the pinner (inclusive). -/
def PinLine (B : Board) (us chk : BB) (k : Nat) (d : Int × Int) (x : Nat) : Prop :=
  ∃ f, PinAlong B us chk k d f ∧ x < 64 ∧ (RayHit B k d x ∨ RayHit B f d x)

theorem prelude_bxrays (x : Nat) : (prelude p).bxrays.getLsbD x = true ↔
    x = lsb (p.p5 &&& p.c0) ∨
      ∃ d ∈ diag, PinLine (relBoard p) p.c0 (themBQ p) (lsb (p.p5 &&& p.c0)) d x := by
  have ho := occRep_rel (valid_consistent hV)
  have hk := (kingFacts hV).k64
  have hus := own_ne_none hV
  have hbit : p.p5 &&& p.c0 = bit (lsb (p.p5 &&& p.c0)) := by
    have hk1 := valid_kings hV false
    simp only [Position.side, Bool.false_eq_true, if_false] at hk1
    rw [bit_lsb_of_count_le_one _ (Nat.le_of_eq hk1)]
  rw [(prelude_pins_eq p).2.1]
  dsimp only
  rw [BitVec.getLsbD_or, Bool.or_eq_true,
    (pinStep_mem ho good_SW hus hk (fun s hs => raySW_eq_walk s hs _) _ x).2,
    (pinStep_mem ho good_SE hus hk (fun s hs => raySE_eq_walk s hs _) _ x).2,
    (pinStep_mem ho good_NW hus hk (fun s hs => rayNW_eq_walk s hs _) _ x).2,
    (pinStep_mem ho good_NE hus hk (fun s hs => rayNE_eq_walk s hs _) _ x).2]
  have e : (p.p5 &&& p.c0).getLsbD x = true ↔ x = lsb (p.p5 &&& p.c0) := by
    constructor
    · intro h; rw [hbit, getLsbD_bit] at h
      simp only [Bool.and_eq_true, decide_eq_true_eq] at h; exact h.2
    · intro h; rw [hbit, getLsbD_bit, ← h]; simp only [Bool.and_eq_true, decide_eq_true_eq]
      exact ⟨h ▸ hk, trivial⟩
  rw [e]
  simp only [BitVec.getLsbD_zero, Bool.false_eq_true, false_or, diag_eq, List.mem_cons,
    List.not_mem_nil, or_false, exists_eq_or_imp, exists_eq_left, PinLine]
  simp only [or_assoc, or_comm, or_left_comm]

theorem prelude_vxrays (x : Nat) : (prelude p).vxrays.getLsbD x = true ↔
    ∃ d ∈ [dN, dS], PinLine (relBoard p) p.c0 (themRQ p) (lsb (p.p5 &&& p.c0)) d x := by
  have ho := occRep_rel (valid_consistent hV)
  have hk := (kingFacts hV).k64
  have hus := own_ne_none hV
  rw [(prelude_pins_eq p).2.2.2.1]
  dsimp only
  rw [(pinStep_mem ho good_S hus hk (fun s hs => rayS_eq_walk s hs _) _ x).2,
    (pinStep_mem ho good_N hus hk (fun s hs => rayN_eq_walk s hs _) _ x).2]
  simp only [BitVec.getLsbD_zero, Bool.false_eq_true, false_or, List.mem_cons,
    List.not_mem_nil, or_false, exists_eq_or_imp, exists_eq_left, PinLine]

theorem prelude_hxrays (x : Nat) : (prelude p).hxrays.getLsbD x = true ↔
    ∃ d ∈ [dE, dW], PinLine (relBoard p) p.c0 (themRQ p) (lsb (p.p5 &&& p.c0)) d x := by
  have ho := occRep_rel (valid_consistent hV)
  have hk := (kingFacts hV).k64
  have hus := own_ne_none hV
  rw [(prelude_pins_eq p).2.2.2.2.2.1]
  dsimp only
  rw [(pinStep_mem ho good_W hus hk (fun s hs => rayW_eq_walk s hs _) _ x).2,
    (pinStep_mem ho good_E hus hk (fun s hs => rayE_eq_walk s hs _) _ x).2]
  simp only [BitVec.getLsbD_zero, Bool.false_eq_true, false_or, List.mem_cons,
    List.not_mem_nil, or_false, exists_eq_or_imp, exists_eq_left, PinLine]

theorem prelude_rxrays (x : Nat) : (prelude p).rxrays.getLsbD x = true ↔
    ∃ d ∈ orth, PinLine (relBoard p) p.c0 (themRQ p) (lsb (p.p5 &&& p.c0)) d x := by
  rw [prelude_rxrays_eq, BitVec.getLsbD_or, Bool.or_eq_true, prelude_vxrays hV, prelude_hxrays hV]
  simp only [orth_eq, List.mem_cons, List.not_mem_nil, or_false, exists_eq_or_imp, exists_eq_left]
  simp only [or_assoc, or_comm, or_left_comm]

/-- `x ∈ pinned`: pinned on some line, by the matching kind of slider. -/
theorem prelude_pinned (x : Nat) : (prelude p).pinned.getLsbD x = true ↔
    (∃ d ∈ diag, PinAlong (relBoard p) p.c0 (themBQ p) (lsb (p.p5 &&& p.c0)) d x) ∨
    (∃ d ∈ orth, PinAlong (relBoard p) p.c0 (themRQ p) (lsb (p.p5 &&& p.c0)) d x) := by
  rw [prelude_pinned_eq, BitVec.getLsbD_or, Bool.or_eq_true, prelude_bpinned hV, prelude_rpinned hV]

end pins

end Rawr.Att
