import Rawr.Proofs.GenCastle5
/-!
# The generator's prelude in geometric terms: the eight rays from the king, the pin sets

`B := relBoard p` (mover's frame), `k := lsb (p.p5 &&& p.c0)` the mover's king.
* `RayHit B k d s`: `s` is `j ≥ 1` steps of `d` away from `k` and every square strictly between is empty
  (the membership predicate of the ray walked from `k` in direction `d`, first blocker included);
* `ray_mem`/`rayNE_mem`…: the eight fills of rays.rs; `prelude_rayNE`…: the guarded rays of the prelude;
* `PinAlong B us chk k d f`: the own piece `f` is the first blocker on ray `d` from `k` and the next
  blocker behind it is in `chk`; `prelude_bpinned`, `prelude_vpinned`, `prelude_hpinned`,
  `prelude_rpinned`, `prelude_pinned`, `prelude_bxrays`, `prelude_vxrays`, `prelude_hxrays`,
  `prelude_rxrays`.
-/
namespace Rawr.Att
open Spec

/-- `s` is reached from `k` walking in direction `d` over empty squares (`s` itself may be occupied). -/
def RayHit (B : Board) (k : Nat) (d : Int × Int) (s : Nat) : Prop :=
  ∃ j : Nat, 1 ≤ j ∧ file s = file k + d.1 * j ∧ rank s = rank k + d.2 * j ∧ clearBetween B k s = true

/-- membership in a walked ray. -/
theorem ray_mem {B : Board} {occ : BB} (ho : OccRep B occ) {d : Int × Int} (hd : GoodDir d)
    {k : Nat} (hk : k < 64) (s : Nat) :
    (setBB (walk d.1 d.2 k occ.getLsbD)).getLsbD s = true ↔ s < 64 ∧ RayHit B k d s := by
  obtain ⟨h1, h2, h3⟩ := hd
  rw [getLsbD_setBB, Bool.and_eq_true, decide_eq_true_iff, List.contains_iff_mem]
  constructor
  · rintro ⟨hs, hm⟩
    exact ⟨hs, (mem_walk_iff B _ ho h1 h2 h3 k s hk hs).mp hm⟩
  · rintro ⟨hs, hm⟩
    exact ⟨hs, (mem_walk_iff B _ ho h1 h2 h3 k s hk hs).mpr hm⟩

def dNE : Int × Int := (1, 1)
def dNW : Int × Int := (-1, 1)
def dSE : Int × Int := (1, -1)
def dSW : Int × Int := (-1, -1)
def dN : Int × Int := (0, 1)
def dS : Int × Int := (0, -1)
def dE : Int × Int := (1, 0)
def dW : Int × Int := (-1, 0)

theorem good_NE : GoodDir dNE := by simp [GoodDir, Unit3, dNE]
theorem good_NW : GoodDir dNW := by simp [GoodDir, Unit3, dNW]
theorem good_SE : GoodDir dSE := by simp [GoodDir, Unit3, dSE]
theorem good_SW : GoodDir dSW := by simp [GoodDir, Unit3, dSW]
theorem good_N : GoodDir dN := by simp [GoodDir, Unit3, dN]
theorem good_S : GoodDir dS := by simp [GoodDir, Unit3, dS]
theorem good_E : GoodDir dE := by simp [GoodDir, Unit3, dE]
theorem good_W : GoodDir dW := by simp [GoodDir, Unit3, dW]

theorem diag_eq : diag = [dNE, dNW, dSE, dSW] := rfl
theorem orth_eq : orth = [dE, dW, dN, dS] := rfl

section fills
variable {B : Board} {occ : BB} (ho : OccRep B occ) {k : Nat} (hk : k < 64) (s : Nat)
include ho hk

theorem rayNE_mem : (rayNE k occ).getLsbD s = true ↔ s < 64 ∧ RayHit B k dNE s := by
  rw [rayNE_eq_walk k hk occ]; exact ray_mem ho good_NE hk s
theorem rayNW_mem : (rayNW k occ).getLsbD s = true ↔ s < 64 ∧ RayHit B k dNW s := by
  rw [rayNW_eq_walk k hk occ]; exact ray_mem ho good_NW hk s
theorem raySE_mem : (raySE k occ).getLsbD s = true ↔ s < 64 ∧ RayHit B k dSE s := by
  rw [raySE_eq_walk k hk occ]; exact ray_mem ho good_SE hk s
theorem raySW_mem : (raySW k occ).getLsbD s = true ↔ s < 64 ∧ RayHit B k dSW s := by
  rw [raySW_eq_walk k hk occ]; exact ray_mem ho good_SW hk s
theorem rayN_mem : (rayN k occ).getLsbD s = true ↔ s < 64 ∧ RayHit B k dN s := by
  rw [rayN_eq_walk k hk occ]; exact ray_mem ho good_N hk s
theorem rayS_mem : (rayS k occ).getLsbD s = true ↔ s < 64 ∧ RayHit B k dS s := by
  rw [rayS_eq_walk k hk occ]; exact ray_mem ho good_S hk s
theorem rayE_mem : (rayE k occ).getLsbD s = true ↔ s < 64 ∧ RayHit B k dE s := by
  rw [rayE_eq_walk k hk occ]; exact ray_mem ho good_E hk s
theorem rayW_mem : (rayW k occ).getLsbD s = true ↔ s < 64 ∧ RayHit B k dW s := by
  rw [rayW_eq_walk k hk occ]; exact ray_mem ho good_W hk s

end fills

/-- the enemy bishops and queens (`themRQ` is in `GenCastle3`). -/
def themBQ (p : Position) : BB := p.c1 &&& (p.p2 ||| p.p4)

/-! ### the guarded rays of the prelude -/

theorem prelude_rays_eq (p : Position) :
    (prelude p).rayNE = (if (themBQ p).isOcc then rayNE (lsb (p.p5 &&& p.c0)) p.occ else 0#64) ∧
    (prelude p).raySW = (if (themBQ p).isOcc then raySW (lsb (p.p5 &&& p.c0)) p.occ else 0#64) ∧
    (prelude p).rayNW = (if (themBQ p).isOcc then rayNW (lsb (p.p5 &&& p.c0)) p.occ else 0#64) ∧
    (prelude p).raySE = (if (themBQ p).isOcc then raySE (lsb (p.p5 &&& p.c0)) p.occ else 0#64) ∧
    (prelude p).rayN = (if (themRQ p).isOcc then rayN (lsb (p.p5 &&& p.c0)) p.occ else 0#64) ∧
    (prelude p).rayS = (if (themRQ p).isOcc then rayS (lsb (p.p5 &&& p.c0)) p.occ else 0#64) ∧
    (prelude p).rayE = (if (themRQ p).isOcc then rayE (lsb (p.p5 &&& p.c0)) p.occ else 0#64) ∧
    (prelude p).rayW = (if (themRQ p).isOcc then rayW (lsb (p.p5 &&& p.c0)) p.occ else 0#64) :=
  ⟨rfl, rfl, rfl, rfl, rfl, rfl, rfl, rfl⟩

theorem guarded_mem (g : Bool) (X : BB) (s : Nat) :
    (if g = true then X else 0#64).getLsbD s = true ↔ g = true ∧ X.getLsbD s = true := by
  cases g <;> simp

section prays
variable {p : Position} (hV : ValidPos p = true) (s : Nat)
include hV

theorem prelude_rayNE : (prelude p).rayNE.getLsbD s = true ↔
    (themBQ p).isOcc = true ∧ s < 64 ∧ RayHit (relBoard p) (lsb (p.p5 &&& p.c0)) dNE s := by
  rw [(prelude_rays_eq p).1, guarded_mem, rayNE_mem (occRep_rel (valid_consistent hV)) (kingFacts hV).k64]
theorem prelude_raySW : (prelude p).raySW.getLsbD s = true ↔
    (themBQ p).isOcc = true ∧ s < 64 ∧ RayHit (relBoard p) (lsb (p.p5 &&& p.c0)) dSW s := by
  rw [(prelude_rays_eq p).2.1, guarded_mem, raySW_mem (occRep_rel (valid_consistent hV)) (kingFacts hV).k64]
theorem prelude_rayNW : (prelude p).rayNW.getLsbD s = true ↔
    (themBQ p).isOcc = true ∧ s < 64 ∧ RayHit (relBoard p) (lsb (p.p5 &&& p.c0)) dNW s := by
  rw [(prelude_rays_eq p).2.2.1, guarded_mem, rayNW_mem (occRep_rel (valid_consistent hV)) (kingFacts hV).k64]
theorem prelude_raySE : (prelude p).raySE.getLsbD s = true ↔
    (themBQ p).isOcc = true ∧ s < 64 ∧ RayHit (relBoard p) (lsb (p.p5 &&& p.c0)) dSE s := by
  rw [(prelude_rays_eq p).2.2.2.1, guarded_mem, raySE_mem (occRep_rel (valid_consistent hV)) (kingFacts hV).k64]
theorem prelude_rayN : (prelude p).rayN.getLsbD s = true ↔
    (themRQ p).isOcc = true ∧ s < 64 ∧ RayHit (relBoard p) (lsb (p.p5 &&& p.c0)) dN s := by
  rw [(prelude_rays_eq p).2.2.2.2.1, guarded_mem, rayN_mem (occRep_rel (valid_consistent hV)) (kingFacts hV).k64]
theorem prelude_rayS : (prelude p).rayS.getLsbD s = true ↔
    (themRQ p).isOcc = true ∧ s < 64 ∧ RayHit (relBoard p) (lsb (p.p5 &&& p.c0)) dS s := by
  rw [(prelude_rays_eq p).2.2.2.2.2.1, guarded_mem, rayS_mem (occRep_rel (valid_consistent hV)) (kingFacts hV).k64]
theorem prelude_rayE : (prelude p).rayE.getLsbD s = true ↔
    (themRQ p).isOcc = true ∧ s < 64 ∧ RayHit (relBoard p) (lsb (p.p5 &&& p.c0)) dE s := by
  rw [(prelude_rays_eq p).2.2.2.2.2.2.1, guarded_mem, rayE_mem (occRep_rel (valid_consistent hV)) (kingFacts hV).k64]
theorem prelude_rayW : (prelude p).rayW.getLsbD s = true ↔
    (themRQ p).isOcc = true ∧ s < 64 ∧ RayHit (relBoard p) (lsb (p.p5 &&& p.c0)) dW s := by
  rw [(prelude_rays_eq p).2.2.2.2.2.2.2, guarded_mem, rayW_mem (occRep_rel (valid_consistent hV)) (kingFacts hV).k64]

end prays

/-! ### geometry of `RayHit` -/

/-- the square `j` steps of `d` from `k`. -/
theorem rayHit_sq {k : Nat} {d : Int × Int} {s : Nat} {j : Nat}
    (hf : file s = file k + d.1 * j) (hr : rank s = rank k + d.2 * j) :
    sq (file k + d.1 * j) (rank k + d.2 * j) = s := by
  rw [← hf, ← hr, sq_file_rank]

/-- two occupied squares reached on the same ray coincide (a ray stops at its first blocker). -/
theorem rayHit_unique {B : Board} {k : Nat} {d : Int × Int} (hd : GoodDir d) {a b : Nat}
    (ha : RayHit B k d a) (hb : RayHit B k d b) (oa : B a ≠ none) (ob : B b ≠ none) : a = b := by
  obtain ⟨h1, h2, h3⟩ := hd
  obtain ⟨ja, hja, fa, ra, ca⟩ := ha
  obtain ⟨jb, hjb, fb, rb, cb⟩ := hb
  rcases Nat.lt_trichotomy ja jb with h | h | h
  · exfalso
    rw [clearBetween_iff B h1 h2 h3 k b jb hjb fb rb] at cb
    have := cb ja hja h
    rw [rayHit_sq fa ra, isNone_iff] at this
    exact oa this
  · subst h
    exact eq_of_file_rank (by rw [fa, fb]) (by rw [ra, rb])
  · exfalso
    rw [clearBetween_iff B h1 h2 h3 k a ja hja fa ra] at ca
    have := ca jb hjb h
    rw [rayHit_sq fb rb, isNone_iff] at this
    exact ob this

end Rawr.Att
