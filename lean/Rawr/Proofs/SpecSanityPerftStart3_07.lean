import Rawr.Proofs.SpecSanityPerftDefs
/-! perft of the start position, depth 3, slice 07: the subtree of first move `.normal 9 25 none` (kernel-evaluated). -/
namespace Rawr.SpecS
open Rawr.Spec

theorem start3_07 : leaves (apply stdStart (.normal 9 25 none)) 2 = 421 := by decide +kernel

end Rawr.SpecS
