import Rawr.Proofs.GenAllowed
/-!
# C01, the safety lemma — the prelude's `allowed` set

`allowed_iff`: a square `t` is in `(prelude p).allowed` iff it does not hold an own piece and every enemy
piece other than the one on `t` that attacks the king is a slider whose line to the king passes over `t`
(`Chk`). Hence: no checker — everything but the own pieces; one checker — the checker's square and, for
a slider, the squares between; two checkers — nothing.
-/
namespace Rawr.Att
open Spec

/-- every enemy piece other than the one on `t` that attacks `k` is a slider whose line to `k` passes
over `t`. -/
def Chk (B : Board) (k t : Nat) : Prop :=
  ∀ s, s < 64 → ∀ q : Piece, B s = some q → q.white = false → s ≠ t →
    (¬ Leap q s k ∧ ∀ d n, KindDir q.kind d → Hit B k d n s → ∃ i : Nat, 1 ≤ i ∧ i < n ∧ pt k d i = t)

theorem chk_of_checkers {B : Board} {k t : Nat}
    (h : ∀ s, Checker B k s → s ≠ t → ∀ q : Piece, B s = some q → q.white = false →
      (¬ Leap q s k ∧ ∀ d n, KindDir q.kind d → Hit B k d n s → ∃ i : Nat, 1 ≤ i ∧ i < n ∧ pt k d i = t)) :
    Chk B k t := by
  intro s hs q hB hw hst
  by_cases hc : Checker B k s
  · exact h s hc hst q hB hw
  · constructor
    · intro hl; exact hc ⟨hs, q, hB, hw, Or.inl hl⟩
    · intro d n hk hh; exact absurd ⟨hs, q, hB, hw, Or.inr ⟨d, n, hk, hh⟩⟩ hc

/-- under `Chk`, a checker not on `t` is a slider and `t` is on its line. -/
theorem chk_cut {B : Board} {k t s : Nat} (h : Chk B k t) (hc : Checker B k s) (hst : s ≠ t) :
    ∃ (q : Piece) (d : Int × Int) (n i : Nat), B s = some q ∧ KindDir q.kind d ∧ Hit B k d n s ∧
      1 ≤ i ∧ i < n ∧ pt k d i = t := by
  obtain ⟨hs, q, hB, hw, hatt⟩ := hc
  obtain ⟨hnl, hsl⟩ := h s hs q hB hw hst
  rcases hatt with hl | ⟨d, n, hk, hh⟩
  · exact absurd hl hnl
  · obtain ⟨i, h1, h2, e⟩ := hsl d n hk hh
    exact ⟨q, d, n, i, hB, hk, hh, h1, h2, e⟩

/-- under `Chk` there is at most one checker. -/
theorem chk_unique {B : Board} {k t s1 s2 : Nat} (hk : k < 64) (h : Chk B k t)
    (h1 : Checker B k s1) (h2 : Checker B k s2) : s1 = s2 := by
  apply Classical.byContradiction
  intro hne
  have occ1 : B s1 ≠ none := by obtain ⟨_, q, hB, _⟩ := h1; rw [hB]; exact fun e => by cases e
  have occ2 : B s2 ≠ none := by obtain ⟨_, q, hB, _⟩ := h2; rw [hB]; exact fun e => by cases e
  by_cases e1 : s1 = t
  · have e2 : s2 ≠ t := fun e => hne (e1.trans e.symm)
    obtain ⟨q, d, n, i, _, _, hh, hi1, hi2, hp⟩ := chk_cut h h2 e2
    have := hh.2.2 i hi1 hi2
    rw [hp, ← e1] at this
    exact occ1 this
  · by_cases e2 : s2 = t
    · obtain ⟨q, d, n, i, _, _, hh, hi1, hi2, hp⟩ := chk_cut h h1 e1
      have := hh.2.2 i hi1 hi2
      rw [hp, ← e2] at this
      exact occ2 this
    · obtain ⟨q1, d1, n1, i1, _, hk1, hh1, a1, b1, p1⟩ := chk_cut h h1 e1
      obtain ⟨q2, d2, n2, i2, _, hk2, hh2, a2, b2, p2⟩ := chk_cut h h2 e2
      have g1 := kindDir_goodDir hk1
      have g2 := kindDir_goodDir hk2
      have at1 := (at_le g1 hk h1.1 hh1.2.1 (Nat.le_of_lt b1)).1
      have at2 := (at_le g2 hk h2.1 hh2.2.1 (Nat.le_of_lt b2)).1
      rw [p1] at at1; rw [p2] at at2
      obtain ⟨hd, hi⟩ := at_unique g1 g2 a1 a2 at1 at2
      subst hd
      rcases Nat.lt_trichotomy n1 n2 with hlt | heq | hgt
      · have := hh2.2.2 n1 hh1.1 hlt
        rw [at_pt hh1.2.1] at this
        exact occ1 this
      · subst heq
        exact hne (at_eq hh1.2.1 hh2.2.1)
      · have := hh1.2.2 n2 hh2.1 hgt
        rw [at_pt hh2.2.1] at this
        exact occ2 this

/-! ### counting -/

theorem toList_nodup (X : BB) : (toList X).Nodup := by
  unfold toList
  exact List.Nodup.sublist List.filter_sublist List.nodup_range

theorem count_le_one_unique {X : BB} (h : ¬ count X > 1) {a b : Nat} (ha : X.getLsbD a = true)
    (hb : X.getLsbD b = true) : a = b := by
  have ha' : a ∈ toList X := (mem_toList X a).mpr ⟨BitVec.lt_of_getLsbD ha, ha⟩
  have hb' : b ∈ toList X := (mem_toList X b).mpr ⟨BitVec.lt_of_getLsbD hb, hb⟩
  unfold count at h
  match hl : toList X, h with
  | [], _ => rw [hl] at ha'; cases ha'
  | [x], _ =>
    rw [hl, List.mem_singleton] at ha' hb'
    rw [ha', hb']
  | _ :: _ :: _, h => simp at h

theorem count_gt_one_exists {X : BB} (h : count X > 1) :
    ∃ a b, a ≠ b ∧ X.getLsbD a = true ∧ X.getLsbD b = true := by
  have hn := toList_nodup X
  unfold count at h
  match hl : toList X, h with
  | [], h => simp at h
  | [x], h => simp at h
  | a :: b :: l, _ =>
    rw [hl] at hn
    have hab : a ≠ b := by
      intro e; subst e
      simp at hn
    have ha : a ∈ toList X := by rw [hl]; simp
    have hb : b ∈ toList X := by rw [hl]; simp
    exact ⟨a, b, hab, ((mem_toList X a).mp ha).2, ((mem_toList X b).mp hb).2⟩

/-! ### the cascade -/

theorem prelude_allowed_eq (p : Position) :
    (prelude p).allowed =
      if count (prelude p).allAttackers > 1 then 0#64
      else if ((prelude p).rayNE &&& bAtt p).isOcc then (prelude p).rayNE
      else if ((prelude p).rayNW &&& bAtt p).isOcc then (prelude p).rayNW
      else if ((prelude p).raySE &&& bAtt p).isOcc then (prelude p).raySE
      else if ((prelude p).raySW &&& bAtt p).isOcc then (prelude p).raySW
      else if ((prelude p).rayN &&& rAtt p).isOcc then (prelude p).rayN
      else if ((prelude p).rayE &&& rAtt p).isOcc then (prelude p).rayE
      else if ((prelude p).rayS &&& rAtt p).isOcc then (prelude p).rayS
      else if ((prelude p).rayW &&& rAtt p).isOcc then (prelude p).rayW
      else if (prelude p).allAttackers.isOcc then (prelude p).allAttackers
      else ~~~p.c0 := rfl

theorem own_not_enemy {p : Position} (hC : Consistent p = true) {t : Nat} (ht : t < 64) {q : Piece}
    (hB : relBoard p t = some q) (hw : q.white = false) : p.c0.getLsbD t = false := by
  have := relBoard_white hC t ht
  rw [hB] at this
  cases h0 : p.c0.getLsbD t
  · rfl
  · rw [h0] at this
    simp only [Option.map_some, if_true, Option.some.injEq] at this
    rw [hw] at this; cases this

theorem own_of_none {p : Position} (hC : Consistent p = true) {t : Nat} (ht : t < 64)
    (hB : relBoard p t = none) : p.c0.getLsbD t = false := by
  cases h0 : p.c0.getLsbD t
  · rfl
  · exact absurd hB (own_occupied hC ht h0)

theorem kingRay_eqs (q : Prelude) :
    kingRay q dNE = q.rayNE ∧ kingRay q dNW = q.rayNW ∧ kingRay q dSE = q.raySE ∧ kingRay q dSW = q.raySW ∧
    kingRay q dN = q.rayN ∧ kingRay q dS = q.rayS ∧ kingRay q dE = q.rayE ∧ kingRay q dW = q.rayW := by
  refine ⟨?_, ?_, ?_, ?_, ?_, ?_, ?_, ?_⟩ <;> rfl

theorem bAtt_sub (p : Position) {d : Int × Int} (hd : d ∈ diag) (r : BB) (s : Nat)
    (h : (r &&& bAtt p).getLsbD s = true) : (r &&& sliders p d).getLsbD s = true := by
  unfold bAtt at h
  unfold sliders themBQ
  rw [if_pos hd]
  simp only [BitVec.getLsbD_and, Bool.and_eq_true] at h ⊢
  exact ⟨h.1, h.2.1.2, h.2.2⟩

theorem rAtt_sub (p : Position) {d : Int × Int} (hd : d ∉ diag) (r : BB) (s : Nat)
    (h : (r &&& rAtt p).getLsbD s = true) : (r &&& sliders p d).getLsbD s = true := by
  unfold rAtt at h
  unfold sliders themRQ
  rw [if_neg hd]
  simp only [BitVec.getLsbD_and, Bool.and_eq_true] at h ⊢
  exact ⟨h.1, h.2.1.2, h.2.2⟩

/-- one ray branch of the cascade. -/
theorem allowed_ray {p : Position} (hV : ValidPos p = true) {d : Int × Int} (hd : d ∈ dirs8) (att : BB)
    (hatt : ∀ s, (kingRay (prelude p) d &&& att).getLsbD s = true →
      (kingRay (prelude p) d &&& sliders p d).getLsbD s = true)
    (ho : (kingRay (prelude p) d &&& att).isOcc = true)
    (hc : ¬ count (prelude p).allAttackers > 1) (t : Nat) (ht : t < 64) :
    (kingRay (prelude p) d).getLsbD t = true ↔
      p.c0.getLsbD t = false ∧ Chk (relBoard p) (lsb (p.p5 &&& p.c0)) t := by
  have hC := valid_consistent hV
  have k64 := (kingFacts hV).k64
  have gd := goodDir_dirs8 d hd
  obtain ⟨s, hs, hm⟩ := (isOcc_iff _).mp ho
  have hm' := hatt s hm
  obtain ⟨_, ⟨n, hh⟩, q, hB, hw, hkd⟩ := (rayAtt_iff hV hd s).mp hm'
  have hguard : rayGuard p d = true := by
    rw [BitVec.getLsbD_and, Bool.and_eq_true] at hm'
    exact ((kingRay_mem hV hd s).mp hm'.1).1
  have hchk : Checker (relBoard p) (lsb (p.p5 &&& p.c0)) s := ⟨hs, q, hB, hw, Or.inr ⟨d, n, hkd, hh⟩⟩
  have hA := (allAttackers_iff hV s).mpr hchk
  have huniq : ∀ s', Checker (relBoard p) (lsb (p.p5 &&& p.c0)) s' → s' = s := fun s' h' =>
    count_le_one_unique hc ((allAttackers_iff hV s').mpr h') hA
  have hnl : ¬ Leap q s (lsb (p.p5 &&& p.c0)) := by
    unfold Leap
    rcases hkd with ⟨hk | hk, _⟩ | ⟨hk | hk, _⟩ <;> rw [hk] <;> simp
  rw [kingRay_mem hV hd, rayHit_iff_hit _ gd]
  constructor
  · rintro ⟨_, _, i, hi⟩
    have hin : i ≤ n := by
      apply Nat.le_of_not_lt
      intro hlt
      have := hi.2.2 n hh.1 hlt
      rw [at_pt hh.2.1, hB] at this; cases this
    rcases Nat.lt_or_eq_of_le hin with hlt | heq
    · refine ⟨own_of_none hC ht (hit_blocked hh hi.2.1 hi.1 hlt), ?_⟩
      apply chk_of_checkers
      intro s' hc' hst q' hB' hw'
      have e := huniq s' hc'
      subst e
      rw [hB] at hB'; injection hB' with hB'; subst hB'
      refine ⟨hnl, ?_⟩
      intro d' n' hkd' hh'
      obtain ⟨e1, e2⟩ := at_unique (kindDir_goodDir hkd') gd hh'.1 hh.1 hh'.2.1 hh.2.1
      subst e1; subst e2
      exact ⟨i, hi.1, hlt, at_pt hi.2.1⟩
    · subst heq
      have e : t = s := at_eq hi.2.1 hh.2.1
      subst e
      refine ⟨own_not_enemy hC ht hB hw, ?_⟩
      apply chk_of_checkers
      intro s' hc' hst
      exact absurd (huniq s' hc') hst
  · rintro ⟨_, hchkt⟩
    refine ⟨hguard, ht, ?_⟩
    by_cases e : s = t
    · subst e; exact ⟨n, hh⟩
    · obtain ⟨hnl', hsl⟩ := hchkt s hs q hB hw e
      obtain ⟨i, h1, h2, hp⟩ := hsl d n hkd hh
      have hat := (at_le gd k64 hs hh.2.1 (Nat.le_of_lt h2)).1
      rw [hp] at hat
      exact ⟨i, h1, hat, fun j a b => hh.2.2 j a (Nat.lt_trans b h2)⟩

theorem bAtt_mem (p : Position) (s : Nat) (h : (bAtt p).getLsbD s = true) :
    ((prelude p).rayNE &&& bAtt p).getLsbD s = true ∨ ((prelude p).rayNW &&& bAtt p).getLsbD s = true ∨
    ((prelude p).raySE &&& bAtt p).getLsbD s = true ∨ ((prelude p).raySW &&& bAtt p).getLsbD s = true := by
  have h' := h
  unfold bAtt at h'
  simp only [BitVec.getLsbD_and, BitVec.getLsbD_or, Bool.and_eq_true, Bool.or_eq_true] at h'
  simp only [BitVec.getLsbD_and, Bool.and_eq_true]
  rcases h'.1.1 with ((a | a) | a) | a
  · exact Or.inl ⟨a, h⟩
  · exact Or.inr (Or.inr (Or.inr ⟨a, h⟩))
  · exact Or.inr (Or.inl ⟨a, h⟩)
  · exact Or.inr (Or.inr (Or.inl ⟨a, h⟩))

theorem rAtt_mem (p : Position) (s : Nat) (h : (rAtt p).getLsbD s = true) :
    ((prelude p).rayN &&& rAtt p).getLsbD s = true ∨ ((prelude p).rayE &&& rAtt p).getLsbD s = true ∨
    ((prelude p).rayS &&& rAtt p).getLsbD s = true ∨ ((prelude p).rayW &&& rAtt p).getLsbD s = true := by
  have h' := h
  unfold rAtt at h'
  simp only [BitVec.getLsbD_and, BitVec.getLsbD_or, Bool.and_eq_true, Bool.or_eq_true] at h'
  simp only [BitVec.getLsbD_and, Bool.and_eq_true]
  rcases h'.1.1 with ((a | a) | a) | a
  · exact Or.inl ⟨a, h⟩
  · exact Or.inr (Or.inr (Or.inl ⟨a, h⟩))
  · exact Or.inr (Or.inl ⟨a, h⟩)
  · exact Or.inr (Or.inr (Or.inr ⟨a, h⟩))

theorem not_isOcc_mem {X : BB} (h : ¬ X.isOcc = true) {s : Nat} (hs : X.getLsbD s = true) : False :=
  h ((isOcc_iff X).mpr ⟨s, BitVec.lt_of_getLsbD hs, hs⟩)

/-- **(b)** the squares a non-king move may go to when only the checks are considered. -/
theorem allowed_iff {p : Position} (hV : ValidPos p = true) (t : Nat) (ht : t < 64) :
    (prelude p).allowed.getLsbD t = true ↔
      p.c0.getLsbD t = false ∧ Chk (relBoard p) (lsb (p.p5 &&& p.c0)) t := by
  have hC := valid_consistent hV
  have k64 := (kingFacts hV).k64
  obtain ⟨eNE, eNW, eSE, eSW, eN, eS, eE, eW⟩ := kingRay_eqs (prelude p)
  have hdiag : ∀ d ∈ [dNE, dNW, dSE, dSW], d ∈ diag := by decide
  have horth : ∀ d ∈ [dN, dS, dE, dW], d ∉ diag := by decide
  have h8 : ∀ d ∈ [dNE, dNW, dSE, dSW, dN, dS, dE, dW], d ∈ dirs8 := by decide
  rw [prelude_allowed_eq]
  split
  · rename_i hc
    rw [BitVec.getLsbD_zero]
    constructor
    · intro h; cases h
    · rintro ⟨_, hchk⟩
      obtain ⟨a, b, hab, ha, hb⟩ := count_gt_one_exists hc
      exact absurd (chk_unique k64 hchk ((allAttackers_iff hV a).mp ha) ((allAttackers_iff hV b).mp hb)) hab
  rename_i hc
  split
  · rename_i ho; rw [← eNE] at ho ⊢
    exact allowed_ray hV (h8 _ (by simp)) _ (bAtt_sub p (hdiag _ (by simp)) _) ho hc t ht
  rename_i hNE
  split
  · rename_i ho; rw [← eNW] at ho ⊢
    exact allowed_ray hV (h8 _ (by simp)) _ (bAtt_sub p (hdiag _ (by simp)) _) ho hc t ht
  rename_i hNW
  split
  · rename_i ho; rw [← eSE] at ho ⊢
    exact allowed_ray hV (h8 _ (by simp)) _ (bAtt_sub p (hdiag _ (by simp)) _) ho hc t ht
  rename_i hSE
  split
  · rename_i ho; rw [← eSW] at ho ⊢
    exact allowed_ray hV (h8 _ (by simp)) _ (bAtt_sub p (hdiag _ (by simp)) _) ho hc t ht
  rename_i hSW
  split
  · rename_i ho; rw [← eN] at ho ⊢
    exact allowed_ray hV (h8 _ (by simp)) _ (rAtt_sub p (horth _ (by simp)) _) ho hc t ht
  rename_i hN
  split
  · rename_i ho; rw [← eE] at ho ⊢
    exact allowed_ray hV (h8 _ (by simp)) _ (rAtt_sub p (horth _ (by simp)) _) ho hc t ht
  rename_i hE
  split
  · rename_i ho; rw [← eS] at ho ⊢
    exact allowed_ray hV (h8 _ (by simp)) _ (rAtt_sub p (horth _ (by simp)) _) ho hc t ht
  rename_i hS
  split
  · rename_i ho; rw [← eW] at ho ⊢
    exact allowed_ray hV (h8 _ (by simp)) _ (rAtt_sub p (horth _ (by simp)) _) ho hc t ht
  rename_i hW
  have hnob : ∀ s, ¬ (bAtt p).getLsbD s = true := by
    intro s h
    rcases bAtt_mem p s h with h | h | h | h
    · exact not_isOcc_mem hNE h
    · exact not_isOcc_mem hNW h
    · exact not_isOcc_mem hSE h
    · exact not_isOcc_mem hSW h
  have hnor : ∀ s, ¬ (rAtt p).getLsbD s = true := by
    intro s h
    rcases rAtt_mem p s h with h | h | h | h
    · exact not_isOcc_mem hN h
    · exact not_isOcc_mem hE h
    · exact not_isOcc_mem hS h
    · exact not_isOcc_mem hW h
  split
  · rename_i hA
    obtain ⟨s, hs, hsA⟩ := (isOcc_iff _).mp hA
    have hsc := (allAttackers_iff hV s).mp hsA
    have hleap : relBoard p s = some ⟨false, .pawn⟩ ∨ relBoard p s = some ⟨false, .knight⟩ := by
      have h := hsA
      rw [prelude_all_eq] at h
      simp only [BitVec.getLsbD_or, Bool.or_eq_true] at h
      rcases h with ((h | h) | h) | h
      · exact Or.inl ((pawnAtt_iff hV s).mp h).2.1
      · exact Or.inr ((knightAtt_iff hV s).mp h).2.1
      · exact absurd h (hnob s)
      · exact absurd h (hnor s)
    constructor
    · intro htA
      obtain ⟨_, q, hB, hw, _⟩ := (allAttackers_iff hV t).mp htA
      refine ⟨own_not_enemy hC ht hB hw, ?_⟩
      apply chk_of_checkers
      intro s' hc' hst
      exact absurd (count_le_one_unique hc ((allAttackers_iff hV s').mpr hc') htA) hst
    · rintro ⟨_, hchk⟩
      by_cases e : s = t
      · rw [← e]; exact hsA
      · exfalso
        obtain ⟨q, d, n, i, hB, hkd, _⟩ := chk_cut hchk hsc e
        rcases hleap with h | h <;> rw [h] at hB <;> injection hB with hB <;> subst hB <;>
          unfold KindDir at hkd <;> simp at hkd
  · rename_i hA
    rw [BitVec.getLsbD_not]
    simp only [ht, decide_true, Bool.true_and, Bool.not_eq_true']
    constructor
    · intro h
      refine ⟨h, ?_⟩
      apply chk_of_checkers
      intro s' hc' _
      exact absurd ((allAttackers_iff hV s').mpr hc') (fun h => not_isOcc_mem hA h)
    · exact fun h => h.1

/-- no checker: everything but the own pieces. -/
theorem chk_of_not_inCheck {p : Position} (hV : ValidPos p = true)
    (h : (prelude p).inCheck = false) (t : Nat) : Chk (relBoard p) (lsb (p.p5 &&& p.c0)) t := by
  apply chk_of_checkers
  intro s' hc' _
  have h1 := (allAttackers_iff hV s').mpr hc'
  have h2 : (prelude p).allAttackers.isOcc = true := (isOcc_iff _).mpr ⟨s', hc'.1, h1⟩
  have e : (prelude p).inCheck = (prelude p).allAttackers.isOcc := rfl
  rw [e, h2] at h; cases h

end Rawr.Att
