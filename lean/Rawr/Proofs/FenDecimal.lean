import Rawr.Model.Fen
import Rawr.Spec.Fen

/-!
Decimal print / parse round trips for the FEN counters.

* `Spec.intChars i` (= `(toString i).toList`) of a non-negative `i` is `Nat.toDigits 10 i.toNat`;
* the model's fuelled printer `intToChars` agrees with it (fuel 12 suffices below `10^12`);
* the model's parser `parseI32` inverts both on the `i32` range.
-/

namespace Rawr

/-! ### digits -/

theorem digitChar_eq_spec (d : Nat) (h : d < 10) : Nat.digitChar d = Spec.digitChar d := by
  match d, h with
  | 0, _ | 1, _ | 2, _ | 3, _ | 4, _ | 5, _ | 6, _ | 7, _ | 8, _ | 9, _ => decide
  | _ + 10, h => omega

theorem digitChar_eq_ofNat (d : Nat) (h : d < 10) : Nat.digitChar d = Char.ofNat ('0'.toNat + d) :=
  digitChar_eq_spec d h

theorem isDigit_iff (c : Char) : c.isDigit = true ↔ '0' ≤ c ∧ c ≤ '9' := by
  simp only [Char.isDigit, Bool.and_eq_true, decide_eq_true_eq, Char.le_def]

/-! ### `Spec.intChars` is `Nat.toDigits 10` -/

theorem natChars_eq (n : Nat) : Spec.natChars n = Nat.toDigits 10 n := by
  simp only [Spec.natChars, Nat.toString_eq_repr, Nat.toList_repr]

theorem intChars_nonneg (i : Int) (h0 : 0 ≤ i) : Spec.intChars i = Nat.toDigits 10 i.toNat := by
  simp only [Spec.intChars, Int.toString_eq_repr, Int.repr_eq_if, h0, if_true, Nat.toList_repr]

theorem intChars_natCast (n : Nat) : Spec.intChars (n : Int) = Spec.natChars n := by
  rw [intChars_nonneg _ (Int.natCast_nonneg n), natChars_eq, Int.toNat_natCast]

theorem toDigits_digits (n : Nat) : ∀ c ∈ Nat.toDigits 10 n, '0' ≤ c ∧ c ≤ '9' := by
  intro c hc
  exact (isDigit_iff c).1 (Nat.isDigit_of_mem_toDigits (by decide) (by decide) hc)

/-- 3a. every character of the decimal print of a non-negative integer is an ASCII digit. -/
theorem intChars_digits (i : Int) (h0 : 0 ≤ i) : ∀ c ∈ Spec.intChars i, '0' ≤ c ∧ c ≤ '9' := by
  rw [intChars_nonneg i h0]
  exact toDigits_digits _

/-- 3b. no space in it. -/
theorem intChars_no_space (i : Int) (h0 : 0 ≤ i) : ' ' ∉ Spec.intChars i := by
  intro h
  exact absurd (intChars_digits i h0 ' ' h).1 (by decide)

/-- 3c. and it is not empty (for every integer). -/
theorem intChars_ne_nil (i : Int) : Spec.intChars i ≠ [] := by
  simp only [Spec.intChars, Int.toString_eq_repr, Int.repr_eq_if]
  split
  · simp only [Nat.toList_repr]; exact Nat.toDigits_ne_nil
  · simp only [String.toList_append, ne_eq, List.append_eq_nil_iff, not_and]
    intro h; exact absurd h (by decide)

example : (0 : Int) ≤ 1234 ∧ Spec.intChars 1234 = ['1', '2', '3', '4'] := by decide

/-! ### the fuelled printer -/

theorem natDigits_eq (fuel n : Nat) (acc : List Char) (h : n < 10 ^ (fuel + 1)) :
    natDigits (fuel + 1) n acc = Nat.toDigits 10 n ++ acc := by
  induction fuel generalizing n acc with
  | zero =>
    have hn : n < 10 := by simpa using h
    have hd : n / 10 = 0 := by omega
    have hm : n % 10 = n := by omega
    simp only [natDigits, hd, hm, beq_self_eq_true, if_true]
    rw [Nat.toDigits_of_lt_base hn, digitChar_eq_ofNat n hn]
    rfl
  | succ f ih =>
    rw [natDigits]
    by_cases hd : n / 10 = 0
    · have hn : n < 10 := by omega
      have hm : n % 10 = n := by omega
      simp only [hd, hm, beq_self_eq_true, if_true]
      rw [Nat.toDigits_of_lt_base hn, digitChar_eq_ofNat n hn]
      rfl
    · have hn : 10 ≤ n := by omega
      have hlt : n / 10 < 10 ^ (f + 1) := by
        rw [Nat.pow_succ] at h; omega
      have hb : (n / 10 == 0) = false := by simpa using hd
      simp only [hb, Bool.false_eq_true, if_false]
      rw [ih _ _ hlt, Nat.toDigits_of_base_le (by decide) hn,
        digitChar_eq_ofNat (n % 10) (Nat.mod_lt _ (by decide)), List.append_assoc]
      rfl

theorem intToChars_nonneg (i : Int) (h0 : 0 ≤ i) (h1 : i < 1000000000000) :
    intToChars i = Nat.toDigits 10 i.toNat := by
  have hneg : ¬ i < 0 := by omega
  simp only [intToChars, hneg, if_false]
  rw [natDigits_eq 11 i.toNat [] (by omega), List.append_nil]

/-- 2. the model's printer is `toString` on the non-negative `i32` range
(in fact below `10^12`, see `intToChars_nonneg`). -/
theorem intToChars_eq_intChars (i : Int) (h0 : 0 ≤ i) (h1 : i < 2147483648) :
    intToChars i = Spec.intChars i := by
  rw [intToChars_nonneg i h0 (by omega), intChars_nonneg i h0]

example : (0 : Int) ≤ 2147483647 ∧ (2147483647 : Int) < 2147483648 ∧
    intToChars 2147483647 = ['2', '1', '4', '7', '4', '8', '3', '6', '4', '7'] := by decide

/-- 4. one-digit numbers (run lengths 1..8 of the board field). -/
theorem intToChars_small (n : Nat) (h : n < 10) : intToChars (n : Int) = [Spec.digitChar n] := by
  rw [intToChars_nonneg _ (Int.natCast_nonneg n) (by omega), Int.toNat_natCast,
    Nat.toDigits_of_lt_base h, digitChar_eq_spec n h]

example : intToChars ((8 : Nat) : Int) = ['8'] := by decide

/-! ### the parser -/

theorem parse_foldl_eq (l : List Char) (a : Nat) :
    l.foldl (fun a c => a * 10 + (c.toNat - '0'.toNat)) a = Nat.ofDigitChars 10 l a := by
  induction l generalizing a with
  | nil => rfl
  | cons c r ih => rw [List.foldl_cons, ih, Nat.ofDigitChars_cons, Nat.mul_comm]

/-- `parseI32` on an unsigned, non-empty, all-digit string. -/
theorem parseI32_digits (s : List Char) (hne : s ≠ []) (hd : ∀ c ∈ s, '0' ≤ c ∧ c ≤ '9') :
    parseI32 s =
      if Nat.ofDigitChars 10 s 0 ≤ 2147483647 then some (Nat.ofDigitChars 10 s 0 : Int) else none := by
  have hall : (s.all fun c => '0' ≤ c && c ≤ '9') = true := by
    rw [List.all_eq_true]
    intro c hc
    have := hd c hc
    simp only [Bool.and_eq_true, decide_eq_true_eq]
    exact this
  have hemp : s.isEmpty = false := by
    cases s with
    | nil => exact absurd rfl hne
    | cons _ _ => rfl
  unfold parseI32
  split
  rename_i neg ds heq
  have hnd : neg = false ∧ ds = s := by
    split at heq
    · exact absurd (hd '-' (List.mem_cons_self ..)).1 (by decide)
    · exact absurd (hd '+' (List.mem_cons_self ..)).1 (by decide)
    · simp only [Prod.mk.injEq] at heq
      exact ⟨heq.1.symm, heq.2.symm⟩
  rw [hnd.1, hnd.2]
  simp only [hemp, hall, Bool.false_eq_true, if_false, Bool.not_true, parse_foldl_eq]
  by_cases hle : Nat.ofDigitChars 10 s 0 ≤ 2147483647
  · have h1 : (-2147483648 : Int) ≤ (Nat.ofDigitChars 10 s 0 : Int) := by omega
    have h2 : (Nat.ofDigitChars 10 s 0 : Int) ≤ 2147483647 := by omega
    simp only [hle, h1, h2, decide_true, Bool.and_self, if_true]
  · have h2 : ¬ (Nat.ofDigitChars 10 s 0 : Int) ≤ 2147483647 := by omega
    simp only [hle, h2, decide_false, Bool.and_false, Bool.false_eq_true, if_false]

theorem parseI32_toDigits (n : Nat) (h : n < 2147483648) :
    parseI32 (Nat.toDigits 10 n) = some (n : Int) := by
  rw [parseI32_digits _ Nat.toDigits_ne_nil (toDigits_digits n), Nat.ofDigitChars_ten_toDigits,
    if_pos (by omega)]

/-- 1. parsing the decimal print of a non-negative `i32` gives it back. -/
theorem parseI32_intChars (i : Int) (h0 : 0 ≤ i) (h1 : i < 2147483648) :
    parseI32 (Spec.intChars i) = some i := by
  rw [intChars_nonneg i h0, parseI32_toDigits _ (by omega), Int.toNat_of_nonneg h0]

example : parseI32 (Spec.intChars 2147483647) = some 2147483647 := by decide

/-- 2'. the model's own print / parse round trip. -/
theorem parseI32_intToChars (i : Int) (h0 : 0 ≤ i) (h1 : i < 2147483648) :
    parseI32 (intToChars i) = some i := by
  rw [intToChars_eq_intChars i h0 h1, parseI32_intChars i h0 h1]

example : parseI32 (intToChars 50) = some 50 := by decide

/-- 5. whatever `parseI32` returns is an `i32`. -/
theorem parseI32_range (s : List Char) (v : Int) :
    parseI32 s = some v → -2147483648 ≤ v ∧ v ≤ 2147483647 := by
  unfold parseI32
  intro h
  split at h
  split at h
  · exact absurd h (by simp)
  split at h
  · exact absurd h (by simp)
  simp only [Option.ite_none_right_eq_some, Option.some.injEq, Bool.and_eq_true,
    decide_eq_true_eq] at h
  obtain ⟨hr, rfl⟩ := h
  exact hr

example : parseI32 "-2147483648".toList = some (-2147483648) := by decide
example : parseI32 "2147483648".toList = none := by decide

end Rawr

#print axioms Rawr.parseI32_intChars
#print axioms Rawr.intToChars_eq_intChars
#print axioms Rawr.parseI32_intToChars
#print axioms Rawr.intChars_digits
#print axioms Rawr.intChars_no_space
#print axioms Rawr.intChars_ne_nil
#print axioms Rawr.intToChars_small
#print axioms Rawr.parseI32_range
