import Rawr.Model.Magic
import Rawr.Spec.Walk
/-!
# C10, reduction part: only the relevant-occupancy mask matters (all 2^64 occupancies)

`walkBB dirs sq occ = walkBB dirs sq (occ &&& mask sq)`: a blocker on the last square of a ray is
included either way and has nothing behind it. The generic lemma is `walkFrom_mask`; the model's
masks (`bishopMask`, `rookMask`, the Lean model of `calculate_*_masks` in magic.rs) are related to
coordinates by two 64-row kernel-evaluated tables (`bishopMask_covers`, `rookMask_covers`).
-/
namespace Rawr
open Spec

/-- `m` contains every square of the ray from `(f, r)` in direction `(df, dr)` that has a further
on-board square behind it (the "inner" squares of the ray). -/
def innerCovered (df dr : Int) (m : Nat → Bool) : Nat → Int → Int → Bool
  | 0, _, _ => true
  | n + 1, f, r =>
    if onBoard (f + df) (r + dr) then
      (!onBoard (f + df + df) (r + dr + dr) || m (sq (f + df) (r + dr)))
        && innerCovered df dr m n (f + df) (r + dr)
    else true

theorem walkFrom_off (df dr : Int) (occ : Nat → Bool) (n : Nat) (f r : Int)
    (h : onBoard (f + df) (r + dr) = false) : walkFrom df dr occ n f r = [] := by
  cases n with
  | zero => rfl
  | succ n => simp [walkFrom, h]

/-- The reduction lemma, one ray: masking the occupancy with any set that covers the inner squares
of the ray does not change the walk. -/
theorem walkFrom_mask (df dr : Int) (occ m : Nat → Bool) : ∀ (n : Nat) (f r : Int),
    innerCovered df dr m n f r = true →
    walkFrom df dr (fun t => occ t && m t) n f r = walkFrom df dr occ n f r := by
  intro n
  induction n with
  | zero => intros; rfl
  | succ n ih =>
    intro f r h
    simp only [walkFrom]
    split
    · rename_i hb
      simp only [innerCovered, hb, if_true, Bool.and_eq_true, Bool.or_eq_true,
        Bool.not_eq_true'] at h
      obtain ⟨h1, h2⟩ := h
      rcases h1 with h1 | h1
      · -- the square is the last one of the ray: it is included whether occupied or not
        rw [walkFrom_off df dr _ n _ _ h1, walkFrom_off df dr _ n _ _ h1]
        split <;> split <;> rfl
      · simp only [h1, Bool.and_true, ih _ _ h2]
    · rfl

/-- `m` covers the inner squares of all rays from `sq` in directions `dirs`. -/
def maskCovers (dirs : List (Int × Int)) (m : BB) (sq : Nat) : Bool :=
  dirs.all fun d => innerCovered d.1 d.2 m.getLsbD 7 (file sq) (rank sq)

theorem walkList_mask (dirs : List (Int × Int)) (sq : Nat) (occ m : Nat → Bool)
    (h : (dirs.all fun d => innerCovered d.1 d.2 m 7 (file sq) (rank sq)) = true) :
    walkList dirs sq (fun t => occ t && m t) = walkList dirs sq occ := by
  induction dirs with
  | nil => rfl
  | cons d ds ih =>
    simp only [List.all_cons, Bool.and_eq_true] at h
    simp only [walkList, List.flatMap_cons] at ih ⊢
    rw [ih h.2]
    congr 1
    exact walkFrom_mask d.1 d.2 occ m 7 _ _ h.1

/-- The reduction lemma for bitboards, for every one of the 2^64 occupancies. -/
theorem walkBB_mask (dirs : List (Int × Int)) (sq : Nat) (m : BB) (h : maskCovers dirs m sq = true)
    (occ : BB) : walkBB dirs sq (occ &&& m) = walkBB dirs sq occ := by
  unfold walkBB
  have : (occ &&& m).getLsbD = fun t => occ.getLsbD t && m.getLsbD t := by
    funext t; exact BitVec.getLsbD_and
  rw [this, walkList_mask dirs sq _ _ h]

/-! ### the model's masks, related to coordinates (64-row tables evaluated by the kernel) -/

theorem bishopMask_covers : ∀ sq : Fin 64, maskCovers diag (bishopMask sq) sq = true := by
  decide +kernel

theorem rookMask_covers : ∀ sq : Fin 64, maskCovers orth (rookMask sq) sq = true := by
  decide +kernel

/-- `walkBB diag sq occ = walkBB diag sq (occ &&& bishopMask sq)`. -/
theorem walkBB_bishopMask (sq : Nat) (h : sq < 64) (occ : BB) :
    walkBB diag sq (occ &&& bishopMask sq) = walkBB diag sq occ :=
  walkBB_mask diag sq _ (bishopMask_covers ⟨sq, h⟩) occ

/-- `walkBB orth sq occ = walkBB orth sq (occ &&& rookMask sq)`. -/
theorem walkBB_rookMask (sq : Nat) (h : sq < 64) (occ : BB) :
    walkBB orth sq (occ &&& rookMask sq) = walkBB orth sq occ :=
  walkBB_mask orth sq _ (rookMask_covers ⟨sq, h⟩) occ

/-! ### the masks are exactly the inner squares (not needed for C10, recorded for completeness) -/

/-- the inner squares of the rays from `s`: reached by a walk on the empty board, without the last
square of each ray. -/
def innerSquares (dirs : List (Int × Int)) (s : Nat) : List Nat :=
  dirs.flatMap fun d => (walk d.1 d.2 s (fun _ => false)).dropLast

theorem bishopMask_exact : ∀ s : Fin 64, bishopMask s = setBB (innerSquares diag s) := by
  decide +kernel

theorem rookMask_exact : ∀ s : Fin 64, rookMask s = setBB (innerSquares orth s) := by
  decide +kernel

end Rawr
