import Rawr.Proofs.BridgeStart
/-! Chess960 start positions 0 … 79: `Spec.Valid`, E and M by kernel evaluation (≈ 0.3–0.4 s each). -/
namespace Rawr.Br
theorem startBlock_00 : startBlock 0 80 = true := by decide +kernel
end Rawr.Br
