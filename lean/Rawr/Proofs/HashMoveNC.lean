import Rawr.Proofs.HashMeta
/-! C04(a): non-castling moves, assembled. -/
namespace Rawr.ZH
open Rawr Rawr.Position

/-- piece-board change before the promotion stage. -/
def ncDP0 (m : Mv) (i c : Nat) (cap epc : Bool) (k : Nat) : BB :=
  cnd (k = i) (bit m.src ||| bit m.dst) ^^^ cnd (cap = true ∧ k = c) (bit m.dst) ^^^
    cnd (epc = true ∧ k = 0) (bit (m.dst - 8))

section
variable {p : Position} {m : Mv} {i c : Nat} {cap epc pr : Bool}

/-- after relocation, capture and en-passant removal no square holds both a king and a rook:
the castling stage does nothing. -/
theorem nc_no_castle (f : NCFacts p m i c cap epc pr) :
    ((p.piece 5 ^^^ ncDP0 m i c cap epc 5) &&& (p.piece 3 ^^^ ncDP0 m i c cap epc 3)).isOcc = false := by
  apply isOcc_false_of
  intro x hx
  have hne := f.hne
  simp only [ncDP0, BitVec.getLsbD_and, BitVec.getLsbD_xor, BitVec.getLsbD_or, getLsbD_cnd, getLsbD_bit,
    piece_bit f.hC, hx, decide_true, Bool.and_true, Bool.decide_and, Bool.decide_eq_true]
  have hk : (decide (5 = i) && decide (3 = i)) = false := by
    by_cases h : 5 = i
    · subst h; rfl
    · simp [h]
  by_cases h1 : x = m.src
  · subst h1
    have h3 : epc = true → ¬ (m.src = m.dst - 8) := by
      intro hE e
      have := (f.hepc hE).2.1
      rw [← e, f.c1s] at this
      cases this
    have f5 := f.f1 5
    have f3 := f.f1 3
    cases hE : epc
    · simp only [f5, f3, hne, decide_true, decide_false]
      generalize decide (5 = i) = k5, decide (3 = i) = k3, decide (5 = c) = c5, decide (3 = c) = c3,
        decide (m.src = m.dst - 8) = z
      bool_taut
    · simp only [f5, f3, hne, h3 hE, decide_true, decide_false]
      generalize decide (5 = i) = k5, decide (3 = i) = k3, decide (5 = c) = c5, decide (3 = c) = c3
      bool_taut
  · by_cases h2 : x = m.dst
    · subst h2
      have h3 : epc = true → ¬ (m.dst = m.dst - 8) := by
        intro hE
        have := (f.hepc hE).1
        omega
      have f5 := f.f2 5
      have f3 := f.f2 3
      cases hE : epc
      · simp only [f5, f3, h1, decide_true, decide_false]
        generalize decide (5 = c) = c5, decide (3 = c) = c3, decide (m.dst = m.dst - 8) = z
        revert hk
        generalize decide (5 = i) = k5, decide (3 = i) = k3
        bool_taut
      · simp only [f5, f3, h1, h3 hE, decide_true, decide_false]
        generalize decide (5 = c) = c5, decide (3 = c) = c3
        revert hk
        generalize decide (5 = i) = k5, decide (3 = i) = k3
        bool_taut
    · simp only [h1, h2, decide_false, Bool.or_false, Bool.and_false, Bool.xor_false]
      have h53 : ((p.pieceOn x == some 5) && (p.pieceOn x == some 3)) = false := by
        cases p.pieceOn x with
        | none => rfl
        | some j =>
          rw [some_beq, some_beq]
          by_cases h : 5 = j
          · subst h; rfl
          · simp [h]
      cases hE : epc
      · simpa using h53
      · by_cases h3 : x = m.dst - 8
        · subst h3
          obtain ⟨_, g1, g2⟩ := f.hepc hE
          simp [g2]
        · simpa [h3] using h53

/-- in a non-castling move the mover's castling squares are not the target. -/
theorem nc_h3 (kh : KeyHyps p = true) (f : NCFacts p m i c cap epc pr) :
    (p.usK = true → (m.dst == fromCoords p.cf0 0) = true → (i == 5) = true) ∧
    (p.usQ = true → (m.dst == fromCoords p.cf1 0) = true → (i == 5) = true) := by
  simp only [KeyHyps, Bool.and_eq_true, Bool.or_eq_true, Bool.not_eq_true', decide_eq_true_eq, BB.isSet,
    BitVec.getLsbD_and] at kh
  obtain ⟨⟨⟨⟨⟨_, _⟩, bK⟩, bQ⟩, _⟩, _⟩ := kh
  have h0d := f.h0d
  constructor
  · intro hu hd
    have e : m.dst = fromCoords p.cf0 0 := by simpa using hd
    rcases bK with b | b
    · rw [hu] at b; cases b
    · rw [← e, h0d] at b; cases b.1
  · intro hu hd
    have e : m.dst = fromCoords p.cf1 0 := by simpa using hd
    rcases bQ with b | b
    · rw [hu] at b; cases b
    · rw [← e, h0d] at b; cases b.1

theorem nc_tail (K : ZKeys) (kh : KeyHyps p = true) (f : NCFacts p m i c cap epc pr)
    (hprE : pr = (m.promo != 6)) (hp6 : pr = true → m.promo < 6)
    (h : BB) (s4 : Position)
    (E : BoardEff { p with hash := h } s4 (bit m.src ||| bit m.dst) (ncD1 m cap epc) (ncDP0 m i c cap epc)) :
    (stTail0 p m i s4).flip.hash = h ∧
    calculateHashK K (stTail0 p m i s4).flip =
      calculateHashK K p ^^^ ncKeyDelta K p.black m i c cap epc pr ^^^ metaDelta K p m i ^^^ K.turn := by
  obtain ⟨d0, d1, dP, d5, d3, dsm, dep⟩ := double_fields s4 m i
  have hno : ((stDouble s4 m i).p5 &&& (stDouble s4 m i).p3).isOcc = false := by
    rw [d5, d3]
    show (s4.piece 5 &&& s4.piece 3).isOcc = false
    rw [E.P 5, E.P 3]
    show ((p.piece 5 ^^^ ncDP0 m i c cap epc 5) &&& (p.piece 3 ^^^ ncDP0 m i c cap epc 3)).isOcc = false
    exact nc_no_castle f
  have e6 := castle_none (stDouble s4 m i) m (fromCoords p.cf0 0) (fromCoords p.cf1 0) hno
  have E5 : BoardEff s4 (stDouble s4 m i) 0#64 0#64 (fun _ => 0#64) :=
    ⟨by simp [d0], by simp [d1], fun k => by simp [dP], dsm⟩
  have E7 : BoardEff (stDouble s4 m i) (stPromo (stDouble s4 m i) m) 0#64 0#64
      (fun k => cnd (pr = true ∧ k = 0) (bit m.dst) ^^^ cnd (pr = true ∧ k = m.promo) (bit m.dst)) := by
    cases hp : pr
    · have h6 : m.promo = 6 := by
        rw [hp] at hprE
        simpa using hprE.symm
      rw [promo_none _ _ h6]
      exact (BoardEff.refl _).cast rfl rfl (fun k => by simp [cnd])
    · have h6 : m.promo ≠ 6 := by
        rw [hp] at hprE
        simpa using hprE.symm
      exact (promo_eff _ m (hp6 hp) h6).cast rfl rfl (fun k => by simp [cnd])
  have Etot : BoardEff { p with hash := h } (stPromo (stDouble s4 m i) m) (bit m.src ||| bit m.dst)
      (ncD1 m cap epc) (ncDP m i c cap epc pr) :=
    ((E.trans E5).trans E7).cast (by simp) (by simp)
      (fun k => by simp only [ncDP0, ncDP, BitVec.xor_zero, BitVec.xor_assoc])
  have hc6 : cap = true → c < 6 := fun hc => pieceOn_lt (f.hc hc)
  have HP := nc_pieceKey f hc6 hp6 K p.black (s := { p with hash := h }) rfl rfl rfl Etot
  obtain ⟨r0, r1, rP, rb, rh, rep, rUK, rUQ, rTK, rTQ⟩ := rights_fields (stPromo (stDouble s4 m i) m) m
    (lsb (p.c0 &&& p.p5)) (lsb (p.c1 &&& p.p5)) (fromCoords p.cf0 0) (fromCoords p.cf1 0)
    (fromCoords p.cf2 7) (fromCoords p.cf3 7)
  have hT : stTail0 p m i s4 = stRights (stPromo (stDouble s4 m i) m) m
      (lsb (p.c0 &&& p.p5)) (lsb (p.c1 &&& p.p5)) (fromCoords p.cf0 0) (fromCoords p.cf1 0)
      (fromCoords p.cf2 7) (fromCoords p.cf3 7) := by
    unfold stTail0
    simp only [e6]
  have r := rfacts_of kh f.hs f.h0s f.hpo (nc_h3 kh f).1 (nc_h3 kh f).2
  have HM := meta_move K r (stTail0 p m i s4)
    (by rw [hT, rep, promo_ep, dep])
    (by rw [hT, rUK, Etot.sm.usK]) (by rw [hT, rUQ, Etot.sm.usQ])
    (by rw [hT, rTK, Etot.sm.themK]) (by rw [hT, rTQ, Etot.sm.themQ])
  have hb : (stTail0 p m i s4).black = p.black := by rw [hT, rb, Etot.sm.black]
  constructor
  · show (stTail0 p m i s4).hash = h
    rw [hT, rh, Etot.sm.hash]
  · rw [calc_flip, calc_eq K (stTail0 p m i s4), calc_eq K p, hb, HM]
    have e0 : (stTail0 p m i s4).c0 = (stPromo (stDouble s4 m i) m).c0 := by rw [hT, r0]
    have e1 : (stTail0 p m i s4).c1 = (stPromo (stDouble s4 m i) m).c1 := by rw [hT, r1]
    have eP : (stTail0 p m i s4).piece = (stPromo (stDouble s4 m i) m).piece := by rw [hT, rP]
    rw [e0, e1, eP, HP]
    ac_rfl

theorem nc_core (K : ZKeys) (kh : KeyHyps p = true) (f : NCFacts p m i c cap epc pr)
    (hepcE : epc = (i == 0 && fileOf m.src != fileOf m.dst && (p.pieceOn m.dst).isNone))
    (hprE : pr = (m.promo != 6)) (hepE : epc = true → p.ep = some m.dst)
    (hp6 : pr = true → m.promo < 6) (h : BB) {q : Position} (hq : mmFrom p m i h = some q) :
    q.hash = h ∧ calculateHashK K q =
      calculateHashK K p ^^^ ncKeyDelta K p.black m i c cap epc pr ^^^ metaDelta K p m i ^^^ K.turn := by
  have hi := pieceOn_lt f.hpo
  have E1 := relocate_eff p m i h hi
  have hc1 : (stRelocate p m i h).c1.isSet m.dst = cap := by
    unfold BB.isSet
    rw [E1.c1]
    simpa using f.hcap
  unfold mmFrom at hq
  simp only [Option.bind_eq_bind, Option.pure_def, hc1, ← hepcE] at hq
  -- capture stage
  have hcap : ∃ s2, BoardEff { p with hash := h } s2 (bit m.src ||| bit m.dst) (cnd (cap = true) (bit m.dst))
      (fun k => cnd (k = i) (bit m.src ||| bit m.dst) ^^^ cnd (cap = true ∧ k = c) (bit m.dst)) ∧
      s2.ep = p.ep ∧
      (if epc = true then ((stClock s2 i).ep.bind fun ep => some (epStep (stClock s2 i) ep)).bind
          fun s => some (stTail p m i s).flip
        else some (stTail p m i (stClock s2 i)).flip) = some q := by
    cases hcp : cap
    · refine ⟨stRelocate p m i h, E1.cast rfl (by simp [cnd]) (fun k => by simp [cnd]), relocate_ep p m i h, ?_⟩
      simpa [hcp] using hq
    · have hc := f.hc hcp
      refine ⟨capStep (stRelocate p m i h) m c,
        (E1.trans (capStep_eff _ m c (pieceOn_lt hc))).cast (by simp) (by simp [cnd]) (fun k => by simp [cnd]),
        (capStep_ep _ m c).trans (relocate_ep p m i h), ?_⟩
      simpa [hcp, hc] using hq
  obtain ⟨s2, E2, ep2, hq2⟩ := hcap
  have E3 := E2.trans (clock_eff s2 i)
  have ep3 : (stClock s2 i).ep = p.ep := (clock_ep s2 i).trans ep2
  rcases Bool.eq_false_or_eq_true epc with hE | hE
  · rw [hE, ep3, hepE hE] at hq2
    simp only [if_true, Option.bind_some, Option.some.injEq] at hq2
    subst hq2
    show (stFull _).flip.hash = h ∧ calculateHashK K (stFull _).flip = _
    rw [full_hash, full_calc]
    have h8 := (f.hepc hE).1
    have E4 := E3.trans (epStep_eff (stClock s2 i) m.dst)
    rw [south_bit h8 f.hd] at E4
    exact nc_tail K kh f hprE hp6 h _ (E4.cast (by simp) (by simp [ncD1, hE, cnd])
      (fun k => by simp [ncDP0, hE, cnd, BitVec.xor_assoc]))
  · rw [hE] at hq2
    simp only [Bool.false_eq_true, if_false, Option.some.injEq] at hq2
    subst hq2
    show (stFull _).flip.hash = h ∧ calculateHashK K (stFull _).flip = _
    rw [full_hash, full_calc]
    exact nc_tail K kh f hprE hp6 h _ (E3.cast (by simp) (by simp [ncD1, hE, cnd])
      (fun k => by simp [ncDP0, hE, cnd]))

theorem nc_noK (kh : KeyHyps p = true) (f : NCFacts p m i c cap epc pr) :
    (p.usK && m.dst == fromCoords p.cf0 0) = false ∧ (p.usQ && m.dst == fromCoords p.cf1 0) = false := by
  simp only [KeyHyps, Bool.and_eq_true, Bool.or_eq_true, Bool.not_eq_true', decide_eq_true_eq, BB.isSet,
    BitVec.getLsbD_and] at kh
  obtain ⟨⟨⟨⟨⟨_, _⟩, bK⟩, bQ⟩, _⟩, _⟩ := kh
  have h0d := f.h0d
  constructor
  · rcases bK with b | b
    · rw [b]; rfl
    · cases hd : (m.dst == fromCoords p.cf0 0)
      · simp
      · have e : m.dst = fromCoords p.cf0 0 := by simpa using hd
        rw [← e, h0d] at b; cases b.1
  · rcases bQ with b | b
    · rw [b]; rfl
    · cases hd : (m.dst == fromCoords p.cf1 0)
      · simp
      · have e : m.dst = fromCoords p.cf1 0 := by simpa using hd
        rw [← e, h0d] at b; cases b.1

theorem cnd_eq_onKey (b : Bool) (x : BB) : cnd (b = true) x = onKey b x := by
  cases b <;> simp [cnd, onKey]

theorem predict_nc (K : ZKeys) (kh : KeyHyps p = true) (f : NCFacts p m i c cap epc pr)
    (hepcE : epc = (i == 0 && fileOf m.src != fileOf m.dst && (p.pieceOn m.dst).isNone))
    (hprE : pr = (m.promo != 6)) :
    predictHashK K p m =
      some (p.hash ^^^ ncKeyDelta K p.black m i c cap epc pr ^^^ metaDelta K p m i ^^^ K.turn) := by
  obtain ⟨nK, nQ⟩ := nc_noK kh f
  have hK : (i == 5 && p.usK && m.dst == fromCoords p.cf0 0) = false := by
    rw [Bool.and_assoc, nK, Bool.and_false]
  have hQ : (i == 5 && p.usQ && m.dst == fromCoords p.cf1 0) = false := by
    rw [Bool.and_assoc, nQ, Bool.and_false]
  have hc1 : p.c1.isSet m.dst = cap := f.hcap
  have o1 : ∀ x : BB, onKey true x = x := fun x => rfl
  have o0 : ∀ x : BB, onKey false x = 0#64 := fun x => rfl
  unfold predictHashK
  simp only [f.hpo, Option.bind_eq_bind, Option.bind_some, Option.pure_def, hc1, ← hepcE, ← hprE,
    hK, hQ, Bool.false_eq_true, if_false, xorIf_eq]
  simp only [ncKeyDelta, metaDelta, kU, kT, cnd_eq_onKey]
  rcases Bool.eq_false_or_eq_true cap with hcp | hcp
  · rw [f.hc hcp]
    simp only [hcp, if_true, Option.bind_some, o1]
    congr 1
    cases p.ep <;> rcases Bool.eq_false_or_eq_true pr with hp | hp <;>
      simp only [hp, epKey, o1, o0, if_true, if_false, Bool.false_eq_true, BitVec.xor_zero, BitVec.zero_xor] <;>
      xor_ac
  · simp only [hcp, Bool.false_eq_true, if_false, o0]
    congr 1
    cases p.ep <;> rcases Bool.eq_false_or_eq_true pr with hp | hp <;>
      simp only [hp, epKey, o1, o0, if_true, if_false, Bool.false_eq_true, BitVec.xor_zero, BitVec.zero_xor] <;>
      xor_ac

end

end Rawr.ZH
