import Rawr.Proofs.GenEp
import Rawr.Proofs.GenSafety
import Rawr.Proofs.GenShapeValid
/-!
# C01, en passant: the generator's three tests are `EpC1`, `EpC2`, `EpC3`
-/
set_option linter.unusedSimpArgs false
namespace Rawr.Att
open Spec

/-! ### the two vocabularies (`GenEpGeom` / `SafeLine`) -/

theorem leaperAtt_iff_leap (q : Piece) (s k : Nat) : leaperAtt q s k = true ↔ Leap q s k := by
  obtain ⟨w, kd⟩ := q
  unfold leaperAtt Leap
  cases kd <;> simp

theorem sliderOn_iff_kindDir (q : Piece) (d : Int × Int) : SliderOn q d ↔ KindDir q.kind d := by
  unfold SliderOn KindDir
  constructor
  · rintro (⟨h1, h2⟩ | ⟨h1, h2⟩)
    · exact Or.inl ⟨h2, h1⟩
    · exact Or.inr ⟨h2, h1⟩
  · rintro (⟨h1, h2⟩ | ⟨h1, h2⟩)
    · exact Or.inl ⟨h2, h1⟩
    · exact Or.inr ⟨h2, h1⟩

theorem onRay_iff_at (k : Nat) (d : Int × Int) (i x : Nat) : OnRay k d i x ↔ At k d i x := Iff.rfl

/-! ### `EpC2` is "`e` or `e - 8` is allowed" -/

/-- a pawn on `e - 8` attacking the king, and a ray from the king through `e`: impossible. -/
theorem ep_G3 {k e F : Nat} {cap d : Int × Int} (G : EpCoords e F cap) (hd : GoodDir d) {i : Nat}
    (hP : pawnStep false (e - 8) k = true) (he : OnRay k d i e) : False := by
  obtain ⟨ha, hb, _⟩ := hd
  obtain ⟨a, b⟩ := d
  obtain ⟨g1, g2, g3, g4, g5, g6, g7, -, -, -, -⟩ := G
  unfold pawnStep at hP
  simp only [Bool.and_eq_true, beq_iff_eq, Bool.false_eq_true, if_false] at hP
  unfold OnRay at he
  dsimp only at *
  rcases ha with rfl | rfl | rfl <;> rcases hb with rfl | rfl | rfl <;> omega

theorem epC2_iff_chk {B : Board} {k e F : Nat} {cap : Int × Int} (C : EpCtx B k e F cap) :
    EpC2 B k e ↔ (Chk B k e ∨ Chk B k (e - 8)) := by
  have G := C.coords
  constructor
  · rintro ⟨c1, c2⟩
    by_cases hP : pawnStep false (e - 8) k = true
    · right
      intro s hs q hB hw hst
      refine ⟨fun hl => hst (c1 s q hs hB hw ((leaperAtt_iff_leap _ _ _).mpr hl)), ?_⟩
      intro d n hkd hh
      exfalso
      have hgd := kindDir_goodDir hkd
      have hre := c2 s q d hs hB hw ((sliderOn_iff_kindDir _ _).mpr hkd)
        ((rayHit_iff_hit B hgd k s).mpr ⟨n, hh⟩)
      obtain ⟨i, _, hei, _⟩ := (rayHit_pts B hgd C.k64 C.e64).mp hre
      exact ep_G3 G hgd hP hei
    · left
      intro s hs q hB hw hst
      constructor
      · intro hl
        have hs' := c1 s q hs hB hw ((leaperAtt_iff_leap _ _ _).mpr hl)
        subst hs'
        rw [C.BP] at hB
        injection hB with hB
        subst hB
        rcases hl with ⟨_, h⟩ | ⟨h, _⟩ | ⟨h, _⟩
        · exact hP h
        · cases h
        · cases h
      · intro d n hkd hh
        have hgd := kindDir_goodDir hkd
        have hrs : RayHit B k d s := (rayHit_iff_hit B hgd k s).mpr ⟨n, hh⟩
        have hre := c2 s q d hs hB hw ((sliderOn_iff_kindDir _ _).mpr hkd) hrs
        obtain ⟨n', i, hi1, hin, hsn', hei⟩ := rayHit_before hgd C.k64 hs C.e64 hrs hre
          (by rw [hB]; exact fun h => by cases h) C.Be
        have : n' = n := onRay_idx hgd hsn' hh.2.1
        subst this
        exact ⟨i, hi1, hin, at_pt hei⟩
  · rintro (h | h)
    · constructor
      · intro s q hs hB hw hl
        have hse : s ≠ e := fun h' => by rw [h', C.Be] at hB; cases hB
        exact absurd ((leaperAtt_iff_leap _ _ _).mp hl) (h s hs q hB hw hse).1
      · intro s q d hs hB hw hsl hr
        have hse : s ≠ e := fun h' => by rw [h', C.Be] at hB; cases hB
        have hkd := (sliderOn_iff_kindDir _ _).mp hsl
        have hgd := kindDir_goodDir hkd
        obtain ⟨n, hh⟩ := (rayHit_iff_hit B hgd k s).mp hr
        obtain ⟨i, hi1, hin, hp⟩ := (h s hs q hB hw hse).2 d n hkd hh
        have hat := (at_le hgd C.k64 hs hh.2.1 (Nat.le_of_lt hin)).1
        rw [hp] at hat
        exact rayHit_of_pts hgd C.k64 C.e64 hi1 hat fun j x hj1 hj2 hx =>
          hit_blocked hh hx hj1 (Nat.lt_trans hj2 hin)
    · constructor
      · intro s q hs hB hw hl
        apply Classical.byContradiction
        intro hsP
        exact (h s hs q hB hw hsP).1 ((leaperAtt_iff_leap _ _ _).mp hl)
      · intro s q d hs hB hw hsl hr
        exfalso
        have hsP : s ≠ e - 8 := fun h' => by
          rw [h', C.BP] at hB; injection hB with hB
          exact slider_not_pawn hsl (by rw [← hB])
        have hkd := (sliderOn_iff_kindDir _ _).mp hsl
        have hgd := kindDir_goodDir hkd
        obtain ⟨n, hh⟩ := (rayHit_iff_hit B hgd k s).mp hr
        obtain ⟨i, hi1, hin, hp⟩ := (h s hs q hB hw hsP).2 d n hkd hh
        have := hh.2.2 i hi1 hin
        rw [hp, C.BP] at this
        cases this

/-! ### membership in shifted sets -/

theorem notAFile_iff : ∀ i : Fin 64, notAFile.getLsbD i.val = decide (i.val % 8 ≠ 0) := by decide
theorem notHFile_iff : ∀ i : Fin 64, notHFile.getLsbD i.val = decide (i.val % 8 ≠ 7) := by decide

theorem northEast_iff (X : BB) {i : Nat} (hi : i < 64) :
    (northEast X).getLsbD i = true ↔ 9 ≤ i ∧ i % 8 ≠ 0 ∧ X.getLsbD (i - 9) = true := by
  have := notAFile_iff ⟨i, hi⟩
  simp only at this
  simp only [northEast, BitVec.getLsbD_and, BitVec.getLsbD_shiftLeft, this, Bool.and_eq_true,
    decide_eq_true_eq, Bool.not_eq_true', decide_eq_false_iff_not]
  constructor
  · rintro ⟨⟨⟨_, h1⟩, h2⟩, h3⟩; exact ⟨by omega, h3, h2⟩
  · rintro ⟨h1, h2, h3⟩; exact ⟨⟨⟨hi, by omega⟩, h3⟩, h2⟩

theorem northWest_iff (X : BB) {i : Nat} (hi : i < 64) :
    (northWest X).getLsbD i = true ↔ 7 ≤ i ∧ i % 8 ≠ 7 ∧ X.getLsbD (i - 7) = true := by
  have := notHFile_iff ⟨i, hi⟩
  simp only at this
  simp only [northWest, BitVec.getLsbD_and, BitVec.getLsbD_shiftLeft, this, Bool.and_eq_true,
    decide_eq_true_eq, Bool.not_eq_true', decide_eq_false_iff_not]
  constructor
  · rintro ⟨⟨⟨_, h1⟩, h2⟩, h3⟩; exact ⟨by omega, h3, h2⟩
  · rintro ⟨h1, h2, h3⟩; exact ⟨⟨⟨hi, by omega⟩, h3⟩, h2⟩

theorem north_iff (X : BB) {i : Nat} (hi : i < 64) :
    (north X).getLsbD i = true ↔ 8 ≤ i ∧ X.getLsbD (i - 8) = true := by
  simp only [north, BitVec.getLsbD_shiftLeft, Bool.and_eq_true, decide_eq_true_eq, Bool.not_eq_true',
    decide_eq_false_iff_not]
  constructor
  · rintro ⟨⟨_, h1⟩, h2⟩; exact ⟨by omega, h2⟩
  · rintro ⟨h1, h2⟩; exact ⟨⟨hi, by omega⟩, h2⟩

theorem northNorth_iff (X : BB) {i : Nat} (hi : i < 64) :
    (northNorth X).getLsbD i = true ↔ 16 ≤ i ∧ X.getLsbD (i - 16) = true := by
  simp only [northNorth, BitVec.getLsbD_shiftLeft, Bool.and_eq_true, decide_eq_true_eq, Bool.not_eq_true',
    decide_eq_false_iff_not]
  constructor
  · rintro ⟨⟨_, h1⟩, h2⟩; exact ⟨by omega, h2⟩
  · rintro ⟨h1, h2⟩; exact ⟨⟨hi, by omega⟩, h2⟩

theorem southEast_iff (X : BB) {i : Nat} (hi : i < 64) :
    (southEast X).getLsbD i = true ↔ i % 8 ≠ 0 ∧ X.getLsbD (i + 7) = true := by
  have := notAFile_iff ⟨i, hi⟩
  simp only at this
  simp only [southEast, BitVec.getLsbD_and, BitVec.getLsbD_ushiftRight, this, Bool.and_eq_true,
    decide_eq_true_eq, Nat.add_comm 7 i]
  exact ⟨fun h => ⟨h.2, h.1⟩, fun h => ⟨h.2, h.1⟩⟩

theorem southWest_iff (X : BB) {i : Nat} (hi : i < 64) :
    (southWest X).getLsbD i = true ↔ i % 8 ≠ 7 ∧ X.getLsbD (i + 9) = true := by
  have := notHFile_iff ⟨i, hi⟩
  simp only at this
  simp only [southWest, BitVec.getLsbD_and, BitVec.getLsbD_ushiftRight, this, Bool.and_eq_true,
    decide_eq_true_eq, Nat.add_comm 9 i]
  exact ⟨fun h => ⟨h.2, h.1⟩, fun h => ⟨h.2, h.1⟩⟩

theorem east_north_iff (X : BB) {i : Nat} (hi : i < 64) :
    (east (north X)).getLsbD i = true ↔ 9 ≤ i ∧ i % 8 ≠ 0 ∧ X.getLsbD (i - 9) = true := by
  rw [east_north]; exact northEast_iff X hi

/-! ### the toggled squares of `epOk` -/

theorem south_bit_tbl : ∀ e : Fin 64, 8 ≤ e.val → south (bit e.val) = bit (e.val - 8) := by decide +kernel
theorem southWest_bit_tbl : ∀ e : Fin 64, 9 ≤ e.val → e.val % 8 ≠ 0 →
    southWest (bit e.val) = bit (e.val - 9) := by decide +kernel
theorem southEast_bit_tbl : ∀ e : Fin 64, 7 ≤ e.val → e.val % 8 ≠ 7 →
    southEast (bit e.val) = bit (e.val - 7) := by decide +kernel

/-- the occupancy with the two pawns lifted and the target filled is the occupancy of `epBoard`. -/
theorem occRep_ep {B : Board} {occ : BB} (ho : OccRep B occ) {k e F : Nat} {cap : Int × Int}
    (C : EpCtx B k e F cap) : OccRep (epBoard B F e) (occ ^^^ bit e ^^^ bit (e - 8) ^^^ bit F) := by
  have G := C.coords
  have hFe : F ≠ e ∧ F ≠ e - 8 ∧ e - 8 ≠ e := by
    have := C.erank
    rcases C.geo with ⟨_, h, _⟩ | ⟨_, h, _⟩ <;> omega
  intro x hx
  rw [epBoard_at]
  simp only [BitVec.getLsbD_xor, getLsbD_bit, hx, decide_true, Bool.true_and]
  have he := ho e C.e64
  have hP := ho (e - 8) G.P64
  have hF := ho F G.F64
  rw [C.Be] at he
  rw [C.BP] at hP
  rw [C.BF] at hF
  by_cases e1 : x = e
  · subst e1
    have h2 : ¬ x = x - 8 := fun h => hFe.2.2 h.symm
    have h3 : ¬ x = F := fun h => hFe.1 h.symm
    simp [he, h2, h3]
  · by_cases e2 : x = e - 8
    · subst e2
      have h3 : ¬ e - 8 = F := fun h => hFe.2.1 h.symm
      simp [e1, hP, h3]
    · by_cases e3 : x = F
      · subst e3
        simp [e1, e2, hF]
      · simp [e1, e2, e3, ho x hx]

/-- the explicit rank test of `epOk`. -/
theorem epC3_iff {p : Position} (hC : Consistent p = true) {k e F : Nat} {cap : Int × Int}
    (C : EpCtx (relBoard p) k e F cap) :
    ((rayE k (p.occ ^^^ bit e ^^^ bit (e - 8) ^^^ bit F) &&& (p.c1 &&& (p.p3 ||| p.p4))).isEmpty = true ∧
     (rayW k (p.occ ^^^ bit e ^^^ bit (e - 8) ^^^ bit F) &&& (p.c1 &&& (p.p3 ||| p.p4))).isEmpty = true) ↔
      EpC3 (relBoard p) k e F := by
  have ho := occRep_ep (occRep_rel hC) C
  have hfold : p.c1 &&& (p.p3 ||| p.p4) = themRQ p := rfl
  rw [hfold, isEmpty_iff, isEmpty_iff]
  simp only [BitVec.getLsbD_and]
  unfold EpC3
  constructor
  · rintro ⟨hE, hW⟩ s pc hs hBs hw hk
    have hrq : (themRQ p).getLsbD s = true := by
      rw [themRQ_iff hC s hs]
      obtain ⟨w, kd⟩ := pc
      simp only at hw hk; subst hw
      rcases hk with rfl | rfl
      · exact Or.inl hBs
      · exact Or.inr hBs
    constructor
    · intro hr
      have := hE s hs
      rw [hrq, Bool.and_true, (rayE_mem ho C.k64 s).mpr ⟨hs, hr⟩] at this
      cases this
    · intro hr
      have := hW s hs
      rw [hrq, Bool.and_true, (rayW_mem ho C.k64 s).mpr ⟨hs, hr⟩] at this
      cases this
  · intro h
    constructor
    · intro s hs
      cases hrq : (themRQ p).getLsbD s
      · exact Bool.and_false _
      · rw [Bool.and_true]
        cases hr : (rayE k (p.occ ^^^ bit e ^^^ bit (e - 8) ^^^ bit F)).getLsbD s
        · rfl
        · exfalso
          rcases (themRQ_iff hC s hs).mp hrq with hB | hB
          · exact (h s _ hs hB rfl (Or.inl rfl)).1 ((rayE_mem ho C.k64 s).mp hr).2
          · exact (h s _ hs hB rfl (Or.inr rfl)).1 ((rayE_mem ho C.k64 s).mp hr).2
    · intro s hs
      cases hrq : (themRQ p).getLsbD s
      · exact Bool.and_false _
      · rw [Bool.and_true]
        cases hr : (rayW k (p.occ ^^^ bit e ^^^ bit (e - 8) ^^^ bit F)).getLsbD s
        · rfl
        · exfalso
          rcases (themRQ_iff hC s hs).mp hrq with hB | hB
          · exact (h s _ hs hB rfl (Or.inl rfl)).2 ((rayW_mem ho C.k64 s).mp hr).2
          · exact (h s _ hs hB rfl (Or.inr rfl)).2 ((rayW_mem ho C.k64 s).mp hr).2

/-! ### the pin test of the capturer -/

theorem ep_B1 {k e F X : Nat} {cap d d' : Int × Int} (G : EpCoords e F cap) {i j : Nat}
    (hF : OnRay k d i F) (hi : 1 ≤ i) (hd : d = cap ∨ d = (-cap.1, -cap.2)) (hd' : d' ∈ diag)
    (hX : OnRay k d' j X) (fX : file X = file F - cap.1) (rX : rank X = rank F + 1) : False := by
  obtain ⟨c, c'⟩ := cap
  obtain ⟨g1, g2, -, -, -, -, -, -, -, -, -⟩ := G
  simp only [diag_eq, List.mem_cons, List.not_mem_nil, or_false] at hd'
  unfold OnRay at hF hX
  dsimp only at *
  subst g1
  rcases hd with rfl | rfl <;> rcases hd' with rfl | rfl | rfl | rfl <;> rcases g2 with rfl | rfl <;>
    simp only [dNE, dNW, dSE, dSW] at hX <;> omega

theorem ep_B4 {e F : Nat} {cap d : Int × Int} (G : EpCoords e F cap) (hd : d ∈ diag)
    (h1 : d ≠ cap) (h2 : d ≠ (-cap.1, -cap.2)) : d = (-cap.1, 1) ∨ d = (cap.1, -1) := by
  obtain ⟨c, c'⟩ := cap
  obtain ⟨g1, g2, -, -, -, -, -, -, -, -, -⟩ := G
  simp only [diag_eq, List.mem_cons, List.not_mem_nil, or_false] at hd
  dsimp only at *
  subst g1
  rcases g2 with rfl | rfl <;> rcases hd with rfl | rfl | rfl | rfl <;>
    first
      | exact absurd rfl h1
      | exact absurd rfl h2
      | exact Or.inl rfl
      | exact Or.inr rfl

theorem ep_B2 {e F s X : Nat} {cap : Int × Int} (G : EpCoords e F cap) {n : Nat} (hn : 1 ≤ n) (_hs : s < 64)
    (h : OnRay F (-cap.1, 1) n s) :
    (0 ≤ file F - cap.1 ∧ file F - cap.1 < 8) ∧
      (file X = file F - cap.1 → rank X = rank F + 1 → OnRay F (-cap.1, 1) 1 X) := by
  obtain ⟨c, c'⟩ := cap
  obtain ⟨g1, g2, -, -, -, -, -, g8, -, -, -⟩ := G
  have fF := file_bounds F
  have fs := file_bounds s
  unfold OnRay at *
  dsimp only at *
  rcases g2 with rfl | rfl
  · exact ⟨by omega, fun h1 h2 => ⟨by omega, by omega⟩⟩
  · exact ⟨by omega, fun h1 h2 => ⟨by omega, by omega⟩⟩

theorem ep_B3 {k e F X : Nat} {cap : Int × Int} (G : EpCoords e F cap) {i : Nat} (hi : 1 ≤ i)
    (h : OnRay k (cap.1, -1) i F) :
    (0 ≤ file F - cap.1 ∧ file F - cap.1 < 8) ∧
      (file X = file F - cap.1 → rank X = rank F + 1 → OnRay k (cap.1, -1) (i - 1) X) := by
  obtain ⟨c, c'⟩ := cap
  obtain ⟨g1, g2, -, -, -, -, -, g8, -, -, -⟩ := G
  have fF := file_bounds F
  have fk := file_bounds k
  unfold OnRay at *
  dsimp only at *
  rcases g2 with rfl | rfl
  · exact ⟨by omega, fun h1 h2 => ⟨by omega, by omega⟩⟩
  · exact ⟨by omega, fun h1 h2 => ⟨by omega, by omega⟩⟩

theorem cap_not_orth {e F : Nat} {cap d : Int × Int} (G : EpCoords e F cap) (hd : d ∈ orth)
    (h : d = cap ∨ d = (-cap.1, -cap.2)) : False := by
  obtain ⟨c, c'⟩ := cap
  obtain ⟨g1, g2, -, -, -, -, -, -, -, -, -⟩ := G
  simp only [orth_eq, List.mem_cons, List.not_mem_nil, or_false] at hd
  dsimp only at *
  subst g1
  rcases g2 with rfl | rfl <;> rcases h with rfl | rfl <;> rcases hd with hd | hd | hd | hd <;>
    exact absurd hd (by decide)

theorem goodDir_up_down {e F : Nat} {cap : Int × Int} (G : EpCoords e F cap) :
    (-cap.1, (1 : Int)) ∈ diag ∧ (cap.1, (-1 : Int)) ∈ diag := by
  obtain ⟨c, c'⟩ := cap
  obtain ⟨g1, g2, -, -, -, -, -, -, -, -, -⟩ := G
  dsimp only at *
  rcases g2 with rfl | rfl <;> decide

theorem epC1_iff {p : Position} (hV : ValidPos p = true) {e F : Nat} {cap : Int × Int}
    (C : EpCtx (relBoard p) (lsb (p.p5 &&& p.c0)) e F cap) (X : Nat) (fo : Prop)
    (hfo : fo ↔ (0 ≤ file F - cap.1 ∧ file F - cap.1 < 8))
    (hX : fo → X < 64 ∧ file X = file F - cap.1 ∧ rank X = rank F + 1) :
    EpC1 (relBoard p) (lsb (p.p5 &&& p.c0)) F cap ↔
      ((prelude p).rpinned.getLsbD F = false ∧
        ((prelude p).bpinned.getLsbD F = false ∨ ¬ (fo ∧ (prelude p).bxrays.getLsbD X = true))) := by
  have hC := valid_consistent hV
  have G := C.coords
  have k64 := C.k64
  have hown : p.c0.getLsbD F = true := by
    have := (rep_us hC).pawn F G.F64
    rw [C.BF, BitVec.getLsbD_and] at this
    simp only [decide_true, Bool.and_eq_true] at this
    exact this.1
  constructor
  · intro c1
    constructor
    · cases hr : (prelude p).rpinned.getLsbD F
      · rfl
      · exfalso
        obtain ⟨d, hd, h1, _, s, h2, hs⟩ := (prelude_rpinned hV F).mp hr
        have s64 : s < 64 := BitVec.lt_of_getLsbD hs
        rcases (themRQ_iff hC s s64).mp hs with hB | hB
        · exact cap_not_orth G hd (c1 d s _ h1 h2 s64 hB rfl (Or.inr ⟨hd, Or.inl rfl⟩))
        · exact cap_not_orth G hd (c1 d s _ h1 h2 s64 hB rfl (Or.inr ⟨hd, Or.inr rfl⟩))
    · cases hb : (prelude p).bpinned.getLsbD F
      · exact Or.inl rfl
      · right
        rintro ⟨hf, hx⟩
        obtain ⟨X64, fX, rX⟩ := hX hf
        obtain ⟨d, hd, h1, _, s, h2, hs⟩ := (prelude_bpinned hV F).mp hb
        have s64 : s < 64 := BitVec.lt_of_getLsbD hs
        have hgd := goodDir_diag d hd
        have hcap : d = cap ∨ d = (-cap.1, -cap.2) := by
          rcases (themBQ_iff hC s s64).mp hs with hB | hB
          · exact c1 d s _ h1 h2 s64 hB rfl (Or.inl ⟨hd, Or.inl rfl⟩)
          · exact c1 d s _ h1 h2 s64 hB rfl (Or.inl ⟨hd, Or.inr rfl⟩)
        obtain ⟨i0, h01, hF, _⟩ := (rayHit_pts _ hgd k64 G.F64).mp h1
        rcases (prelude_bxrays hV X).mp hx with hk | ⟨d', hd', f', ⟨hf1, _, _⟩, _, hl⟩
        · have : OnRay (lsb (p.p5 &&& p.c0)) dNE 0 X := by
            rw [hk]; unfold OnRay; simp
          exact ep_B1 G hF h01 hcap (by simp [diag_eq]) this fX rX
        · have hgd' := goodDir_diag d' hd'
          obtain ⟨j', _, hf', hf'', _⟩ := hf1
          rcases hl with hl | hl
          · obtain ⟨j, _, hj1, hj2, _⟩ := hl
            exact ep_B1 G hF h01 hcap hd' ⟨hj1, hj2⟩ fX rX
          · obtain ⟨j, _, hj1, hj2, _⟩ := hl
            exact ep_B1 G hF h01 hcap hd' ((onRay_add (i := j') (j := j) ⟨hf', hf''⟩).mp ⟨hj1, hj2⟩) fX rX
  · rintro ⟨hr, hb⟩ d s pc h1 h2 s64 hBs hw hsl
    obtain ⟨w, kd⟩ := pc
    simp only at hw; subst hw
    rcases hsl with ⟨hd, hk⟩ | ⟨hd, hk⟩
    · have hbq : (themBQ p).getLsbD s = true := by
        rw [themBQ_iff hC s s64]
        simp only at hk
        rcases hk with rfl | rfl
        · exact Or.inl hBs
        · exact Or.inr hBs
      have hpin : (prelude p).bpinned.getLsbD F = true :=
        (prelude_bpinned hV F).mpr ⟨d, hd, h1, hown, s, h2, hbq⟩
      have hb' : ¬ (fo ∧ (prelude p).bxrays.getLsbD X = true) := by
        rcases hb with hb | hb
        · rw [hpin] at hb; cases hb
        · exact hb
      apply Classical.byContradiction
      intro hne
      have hne1 : d ≠ cap := fun h => hne (Or.inl h)
      have hne2 : d ≠ (-cap.1, -cap.2) := fun h => hne (Or.inr h)
      have hgd := goodDir_diag d hd
      apply hb'
      rcases ep_B4 G hd hne1 hne2 with hdd | hdd
      · subst hdd
        obtain ⟨n, hn, hsn, _⟩ := (rayHit_pts _ hgd G.F64 s64).mp h2
        obtain ⟨hrange, hstep⟩ := ep_B2 (X := X) G hn s64 hsn
        have hf := hfo.mpr hrange
        obtain ⟨X64, fX, rX⟩ := hX hf
        refine ⟨hf, (prelude_bxrays hV X).mpr (Or.inr ⟨_, hd, F, ⟨h1, hown, s, h2, hbq⟩, X64, Or.inr ?_⟩)⟩
        exact rayHit_of_pts hgd G.F64 X64 (Nat.le_refl 1) (hstep fX rX) fun i x hi1 hi2 _ => by omega
      · subst hdd
        obtain ⟨i0, h01, hF, hc⟩ := (rayHit_pts _ hgd k64 G.F64).mp h1
        obtain ⟨hrange, hstep⟩ := ep_B3 (X := X) G h01 hF
        have hf := hfo.mpr hrange
        obtain ⟨X64, fX, rX⟩ := hX hf
        refine ⟨hf, (prelude_bxrays hV X).mpr ?_⟩
        rcases Nat.eq_or_lt_of_le h01 with h | h
        · left
          have := hstep fX rX
          rw [← h] at this
          exact onRay_zero this
        · right
          refine ⟨_, hd, F, ⟨h1, hown, s, h2, hbq⟩, X64, Or.inl ?_⟩
          exact rayHit_of_pts hgd k64 X64 (by omega) (hstep fX rX) fun i x hi1 hi2 hx =>
            hc i x hi1 (by omega) hx
    · exfalso
      have hrq : (themRQ p).getLsbD s = true := by
        rw [themRQ_iff hC s s64]
        simp only at hk
        rcases hk with rfl | rfl
        · exact Or.inl hBs
        · exact Or.inr hBs
      have := (prelude_rpinned hV F).mpr ⟨d, hd, h1, hown, s, h2, hrq⟩
      rw [hr] at this; cases this

/-! ### the two branches of the generator -/

/-- the north-east branch (`gm 0 (e - 9) e 6`). -/
def epCondNE (p : Position) (e : Nat) : Bool :=
  (northEast (p.p0 &&& p.c0 &&& ~~~(prelude p).rpinned &&&
      (~~~(prelude p).bpinned ||| ~~~southEast (prelude p).bxrays))).isSet e
    && epOk p (prelude p) e (southWest (bit e))

/-- the north-west branch (`gm 0 (e - 7) e 6`). -/
def epCondNW (p : Position) (e : Nat) : Bool :=
  (northWest (p.p0 &&& p.c0 &&& ~~~(prelude p).rpinned &&&
      (~~~(prelude p).bpinned ||| ~~~southWest (prelude p).bxrays))).isSet e
    && epOk p (prelude p) e (southEast (bit e))

/-- what validity says about the en-passant square, on the relative board. -/
theorem ep_facts {p : Position} (hV : ValidPos p = true) {e : Nat} (hep : p.ep = some e) :
    e < 64 ∧ e / 8 = 5 ∧ relBoard p e = none ∧ relBoard p (e - 8) = some ⟨false, .pawn⟩ ∧
      p.c0.getLsbD e = false ∧ p.c0.getLsbD (e - 8) = false := by
  have hC := valid_consistent hV
  obtain ⟨h1, h2, h3, h4, h5⟩ := (vfacts_of_valid hV).ep e hep
  have h5' := h5
  rw [(rep_them hC).pawn (e - 8) (by omega)] at h5
  have hBe : relBoard p e = none := by
    have := occRep_rel hC e h1
    unfold Position.occ at this
    rw [BitVec.getLsbD_or, h3, h4] at this
    cases hB : relBoard p e with
    | none => rfl
    | some _ => rw [hB] at this; simp at this
  have hBP : relBoard p (e - 8) = some ⟨false, .pawn⟩ := by simpa using h5
  exact ⟨h1, h2, hBe, hBP, h3, own_not_enemy hC (by omega) hBP rfl⟩

theorem epCtx_of {p : Position} (hV : ValidPos p = true) {e : Nat} (hep : p.ep = some e) {F : Nat}
    {cap : Int × Int} (hgeo : CapGeo cap F e) (hF : relBoard p F = some ⟨true, .pawn⟩) :
    EpCtx (relBoard p) (lsb (p.p5 &&& p.c0)) e F cap := by
  obtain ⟨h1, h2, h3, h4, _, _⟩ := ep_facts hV hep
  exact ⟨(kingFacts hV).k64, h1, h2, (kingFacts hV).rel, h3, h4, hF, hgeo⟩

theorem own_pawn_iff {p : Position} (hC : Consistent p = true) {F : Nat} (hF : F < 64) :
    (p.p0 &&& p.c0).getLsbD F = true ↔ relBoard p F = some ⟨true, .pawn⟩ := by
  rw [BitVec.and_comm, (rep_us hC).pawn F hF, decide_eq_true_iff]

/-- the checks part of `epOk`. -/
theorem ep_allowed_iff {p : Position} (hV : ValidPos p = true) {e : Nat} (hep : p.ep = some e) {F : Nat}
    {cap : Int × Int} (C : EpCtx (relBoard p) (lsb (p.p5 &&& p.c0)) e F cap) :
    ((prelude p).allowed.isSet e || (north (prelude p).allowed).isSet e) = true ↔
      EpC2 (relBoard p) (lsb (p.p5 &&& p.c0)) e := by
  obtain ⟨h1, h2, _, _, h5, h6⟩ := ep_facts hV hep
  unfold BB.isSet
  rw [epC2_iff_chk C, Bool.or_eq_true, north_iff _ h1, allowed_iff hV e h1, allowed_iff hV (e - 8) (by omega)]
  constructor
  · rintro (h | h)
    · exact Or.inl h.2
    · exact Or.inr h.2.2
  · rintro (h | h)
    · exact Or.inl ⟨h5, h⟩
    · exact Or.inr ⟨by omega, h6, h⟩

theorem epOk_iff {p : Position} (hV : ValidPos p = true) {e : Nat} (hep : p.ep = some e) {F : Nat}
    {cap : Int × Int} (C : EpCtx (relBoard p) (lsb (p.p5 &&& p.c0)) e F cap) (side : BB)
    (hside : side = bit F) :
    epOk p (prelude p) e side = true ↔
      (EpC2 (relBoard p) (lsb (p.p5 &&& p.c0)) e ∧ EpC3 (relBoard p) (lsb (p.p5 &&& p.c0)) e F) := by
  have hC := valid_consistent hV
  obtain ⟨h1, h2, _, _, _, _⟩ := ep_facts hV hep
  unfold epOk
  dsimp only
  rw [Bool.and_eq_true, ep_allowed_iff hV hep C, Bool.and_eq_true, prelude_ksq,
    south_bit_tbl ⟨e, h1⟩ (by simp only; omega), hside, epC3_iff hC C]

theorem epCondNE_iff {p : Position} (hV : ValidPos p = true) {e : Nat} (hep : p.ep = some e)
    (hBn : relBoard p (e + 8) = none)
    (hEb : attackedBy (prePush (relBoard p) e) false (lsb (p.p5 &&& p.c0)) = false) :
    epCondNE p e = true ↔
      (9 ≤ e ∧ e % 8 ≠ 0 ∧ relBoard p (e - 9) = some ⟨true, .pawn⟩ ∧
        attackedBy (epBoard (relBoard p) (e - 9) e) false (lsb (p.p5 &&& p.c0)) = false) := by
  have hC := valid_consistent hV
  obtain ⟨h1, h2, _, _, _, _⟩ := ep_facts hV hep
  unfold epCondNE BB.isSet
  rw [Bool.and_eq_true, northEast_iff _ h1]
  have hF64 : e - 9 < 64 := by omega
  simp only [BitVec.getLsbD_and, BitVec.getLsbD_or, BitVec.getLsbD_not, hF64, decide_true, Bool.true_and,
    Bool.and_eq_true, Bool.or_eq_true, Bool.not_eq_true']
  have hpw : ((p.p0.getLsbD (e - 9) = true ∧ p.c0.getLsbD (e - 9) = true)) ↔
      relBoard p (e - 9) = some ⟨true, .pawn⟩ := by
    rw [← own_pawn_iff hC hF64, BitVec.getLsbD_and, Bool.and_eq_true]
  constructor
  · rintro ⟨⟨h9, hf, ⟨⟨hp0, hc0⟩, hrp⟩, hbp⟩, hok⟩
    have hBF := hpw.mp ⟨hp0, hc0⟩
    have hgeo : CapGeo dNE (e - 9) e := Or.inl ⟨rfl, by omega, hf⟩
    have C := epCtx_of hV hep hgeo hBF
    have hsw : southWest (bit e) = bit (e - 9) := southWest_bit_tbl ⟨e, h1⟩ h9 hf
    obtain ⟨c2, c3⟩ := (epOk_iff hV hep C _ hsw).mp hok
    refine ⟨h9, hf, hBF, (ep_core C hBn hEb).mpr ⟨?_, c2, c3⟩⟩
    refine (epC1_iff hV C (e - 9 + 7) ((e - 9) % 8 ≠ 0) ?_ ?_).mpr ⟨hrp, ?_⟩
    · simp only [dNE]; unfold file; omega
    · intro _; simp only [dNE]; unfold file rank; omega
    · rcases hbp with h | h
      · exact Or.inl h
      · right
        rintro ⟨g1, g2⟩
        have := (southEast_iff (prelude p).bxrays hF64).mpr ⟨g1, g2⟩
        rw [h] at this; cases this
  · rintro ⟨h9, hf, hBF, hL⟩
    have hgeo : CapGeo dNE (e - 9) e := Or.inl ⟨rfl, by omega, hf⟩
    have C := epCtx_of hV hep hgeo hBF
    have hsw : southWest (bit e) = bit (e - 9) := southWest_bit_tbl ⟨e, h1⟩ h9 hf
    obtain ⟨c1, c2, c3⟩ := (ep_core C hBn hEb).mp hL
    obtain ⟨hp0, hc0⟩ := hpw.mpr hBF
    obtain ⟨hrp, hbp⟩ := (epC1_iff hV C (e - 9 + 7) ((e - 9) % 8 ≠ 0)
      (by simp only [dNE]; unfold file; omega)
      (by intro _; simp only [dNE]; unfold file rank; omega)).mp c1
    refine ⟨⟨h9, hf, ⟨⟨hp0, hc0⟩, hrp⟩, ?_⟩, (epOk_iff hV hep C _ hsw).mpr ⟨c2, c3⟩⟩
    rcases hbp with h | h
    · exact Or.inl h
    · right
      cases hse : (southEast (prelude p).bxrays).getLsbD (e - 9)
      · rfl
      · exact absurd ((southEast_iff _ hF64).mp hse) h

theorem epCondNW_iff {p : Position} (hV : ValidPos p = true) {e : Nat} (hep : p.ep = some e)
    (hBn : relBoard p (e + 8) = none)
    (hEb : attackedBy (prePush (relBoard p) e) false (lsb (p.p5 &&& p.c0)) = false) :
    epCondNW p e = true ↔
      (e % 8 ≠ 7 ∧ relBoard p (e - 7) = some ⟨true, .pawn⟩ ∧
        attackedBy (epBoard (relBoard p) (e - 7) e) false (lsb (p.p5 &&& p.c0)) = false) := by
  have hC := valid_consistent hV
  obtain ⟨h1, h2, _, _, _, _⟩ := ep_facts hV hep
  unfold epCondNW BB.isSet
  rw [Bool.and_eq_true, northWest_iff _ h1]
  have hF64 : e - 7 < 64 := by omega
  have h7 : 7 ≤ e := by omega
  simp only [BitVec.getLsbD_and, BitVec.getLsbD_or, BitVec.getLsbD_not, hF64, decide_true, Bool.true_and,
    Bool.and_eq_true, Bool.or_eq_true, Bool.not_eq_true']
  have hpw : ((p.p0.getLsbD (e - 7) = true ∧ p.c0.getLsbD (e - 7) = true)) ↔
      relBoard p (e - 7) = some ⟨true, .pawn⟩ := by
    rw [← own_pawn_iff hC hF64, BitVec.getLsbD_and, Bool.and_eq_true]
  constructor
  · rintro ⟨⟨_, hf, ⟨⟨hp0, hc0⟩, hrp⟩, hbp⟩, hok⟩
    have hBF := hpw.mp ⟨hp0, hc0⟩
    have hgeo : CapGeo dNW (e - 7) e := Or.inr ⟨rfl, by omega, hf⟩
    have C := epCtx_of hV hep hgeo hBF
    have hsw : southEast (bit e) = bit (e - 7) := southEast_bit_tbl ⟨e, h1⟩ h7 hf
    obtain ⟨c2, c3⟩ := (epOk_iff hV hep C _ hsw).mp hok
    refine ⟨hf, hBF, (ep_core C hBn hEb).mpr ⟨?_, c2, c3⟩⟩
    refine (epC1_iff hV C (e - 7 + 9) ((e - 7) % 8 ≠ 7) ?_ ?_).mpr ⟨hrp, ?_⟩
    · simp only [dNW]; unfold file; omega
    · intro _; simp only [dNW]; unfold file rank; omega
    · rcases hbp with h | h
      · exact Or.inl h
      · right
        rintro ⟨g1, g2⟩
        have := (southWest_iff (prelude p).bxrays hF64).mpr ⟨g1, g2⟩
        rw [h] at this; cases this
  · rintro ⟨hf, hBF, hL⟩
    have hgeo : CapGeo dNW (e - 7) e := Or.inr ⟨rfl, by omega, hf⟩
    have C := epCtx_of hV hep hgeo hBF
    have hsw : southEast (bit e) = bit (e - 7) := southEast_bit_tbl ⟨e, h1⟩ h7 hf
    obtain ⟨c1, c2, c3⟩ := (ep_core C hBn hEb).mp hL
    obtain ⟨hp0, hc0⟩ := hpw.mpr hBF
    obtain ⟨hrp, hbp⟩ := (epC1_iff hV C (e - 7 + 9) ((e - 7) % 8 ≠ 7)
      (by simp only [dNW]; unfold file; omega)
      (by intro _; simp only [dNW]; unfold file rank; omega)).mp c1
    refine ⟨⟨h7, hf, ⟨⟨hp0, hc0⟩, hrp⟩, ?_⟩, (epOk_iff hV hep C _ hsw).mpr ⟨c2, c3⟩⟩
    rcases hbp with h | h
    · exact Or.inl h
    · right
      cases hse : (southWest (prelude p).bxrays).getLsbD (e - 7)
      · rfl
      · exact absurd ((southWest_iff _ hF64).mp hse) h

end Rawr.Att
