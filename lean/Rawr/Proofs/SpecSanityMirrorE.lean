import Rawr.Proofs.SpecSanityMirrorD
/-!
# Sanity of the specification, part 1 (e): `EpConsistent` and `LegalMaterial` are colour symmetric

Together with `valid_mirror`: the domain `D = V ∧ E ∧ M` of DESIGN.md §4 is closed under the colour mirror.
-/
namespace Rawr.SpecS
open Rawr.Spec Rawr.Att Rawr.SV

theorem countPieces_mirror (b : Board) (f : Piece → Bool) :
    countPieces (mirrorB b) f = countPieces b (fun pc => f (flipPiece pc)) := by
  unfold countPieces squares
  rw [← (x56_perm.filter _).length_eq, List.filter_map, List.length_map]
  congr 1
  apply List.filter_congr
  intro s _
  simp only [Function.comp, mirrorB_x56]
  cases b s <;> rfl

theorem flip_beq (pc : Piece) (w : Bool) (k : Kind) : (flipPiece pc == ⟨!w, k⟩) = (pc == ⟨w, k⟩) := by
  rw [Bool.eq_iff_iff, beq_iff_eq, beq_iff_eq]; exact flipPiece_eq_iff pc w k

theorem cnt_mirror (b : Board) (w : Bool) (k : Kind) :
    countPieces (mirrorB b) (fun pc => pc == ⟨!w, k⟩) = countPieces b (fun pc => pc == ⟨w, k⟩) := by
  rw [countPieces_mirror]
  congr 1
  funext pc
  exact flip_beq pc w k

theorem cntCol_mirror (b : Board) (w : Bool) :
    countPieces (mirrorB b) (fun pc => pc.white == !w) = countPieces b (fun pc => pc.white == w) := by
  rw [countPieces_mirror]
  congr 1
  funext pc
  simp only [flip_white]
  cases pc.white <;> cases w <;> rfl

/-- material legality is colour symmetric. -/
theorem legalMaterial_mirror (a : APos) : LegalMaterial (mirrorA a) = LegalMaterial a := by
  unfold LegalMaterial
  have hbd : (mirrorA a).board = mirrorB a.board := rfl
  simp only [List.all_cons, List.all_nil, Bool.and_true, hbd]
  have t1 := fun k => cnt_mirror a.board false k
  have t2 := fun k => cnt_mirror a.board true k
  have c1 := cntCol_mirror a.board false
  have c2 := cntCol_mirror a.board true
  simp only [Bool.not_false, Bool.not_true] at t1 t2 c1 c2
  simp only [t1, t2, c1, c2]
  rw [Bool.and_comm]

theorem x56_mod8 (e : Nat) : (e ^^^ 56) % 8 = e % 8 := by
  have := Nat.xor_mod_two_pow (a := e) (b := 56) (n := 3)
  simpa using this

theorem file_x56' (e : Nat) : file (e ^^^ 56) = file e := by
  unfold file; rw [x56_mod8]

/-- en-passant consistency is colour symmetric. -/
theorem epConsistent_mirror (a : APos) : EpConsistent (mirrorA a) = EpConsistent a := by
  unfold EpConsistent
  have hep : (mirrorA a).ep = a.ep.map (· ^^^ 56) := rfl
  have hbd : (mirrorA a).board = mirrorB a.board := rfl
  have hw : (mirrorA a).whiteToMove = !a.whiteToMove := rfl
  rw [hep]
  cases he : a.ep with
  | none => rfl
  | some e =>
    simp only [Option.map_some, hbd, hw, file_x56']
    have hf := file_bounds e
    have ho : sq (file e) (if (!a.whiteToMove) = true then 6 else 1) =
        sq (file e) (if a.whiteToMove = true then 6 else 1) ^^^ 56 := by
      have : (if (!a.whiteToMove) = true then (6 : Int) else 1) = 7 - (if a.whiteToMove = true then 6 else 1) := by
        cases a.whiteToMove <;> rfl
      rw [this]
      apply sq_mirror
      rw [onBoard_iff]; split <;> omega
    have hp : sq (file e) (if (!a.whiteToMove) = true then 4 else 3) =
        sq (file e) (if a.whiteToMove = true then 4 else 3) ^^^ 56 := by
      have : (if (!a.whiteToMove) = true then (4 : Int) else 3) = 7 - (if a.whiteToMove = true then 4 else 3) := by
        cases a.whiteToMove <;> rfl
      rw [this]
      apply sq_mirror
      rw [onBoard_iff]; split <;> omega
    rw [ho, hp, mirrorB_isNone]
    congr 1
    have hb : setSq (setSq (mirrorB a.board) (sq (file e) (if a.whiteToMove = true then 4 else 3) ^^^ 56) none)
          (sq (file e) (if a.whiteToMove = true then 6 else 1) ^^^ 56) (some ⟨!!a.whiteToMove, .pawn⟩) =
        mirrorB (setSq (setSq a.board (sq (file e) (if a.whiteToMove = true then 4 else 3)) none)
          (sq (file e) (if a.whiteToMove = true then 6 else 1)) (some ⟨!a.whiteToMove, .pawn⟩)) := by
      rw [mirrorB_setSq, mirrorB_setSq]; rfl
    rw [hb, inCheck_mirror]

/-- the specification-level domain `D = V ∧ E ∧ M` is closed under the colour mirror. -/
theorem domain_mirror (a : APos) :
    (Valid (mirrorA a) && EpConsistent (mirrorA a) && LegalMaterial (mirrorA a)) =
      (Valid a && EpConsistent a && LegalMaterial a) := by
  rw [valid_mirror, epConsistent_mirror, legalMaterial_mirror]

end Rawr.SpecS
