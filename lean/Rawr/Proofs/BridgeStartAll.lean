import Rawr.Generated.StartPos
import Rawr.Proofs.BridgeStart_00
import Rawr.Proofs.BridgeStart_01
import Rawr.Proofs.BridgeStart_02
import Rawr.Proofs.BridgeStart_03
import Rawr.Proofs.BridgeStart_04
import Rawr.Proofs.BridgeStart_05
import Rawr.Proofs.BridgeStart_06
import Rawr.Proofs.BridgeStart_07
import Rawr.Proofs.BridgeStart_08
import Rawr.Proofs.BridgeStart_09
import Rawr.Proofs.BridgeStart_10
import Rawr.Proofs.BridgeStart_11
/-! Every Chess960 start position (both sides the same back rank, numbering of `GenPos.backRank960`; number 518
is the standard position) is in `D = V ∧ E ∧ M`, in either castling notation. Assembled from the twelve
blocks `BridgeStart_00 … _11`. -/
namespace Rawr.Br
open Rawr

theorem startChk_all (n : Nat) (hn : n < 960) : startChk n = true := by
  have h : n < 80 ∨ (80 ≤ n ∧ n < 160) ∨ (160 ≤ n ∧ n < 240) ∨ (240 ≤ n ∧ n < 320) ∨ (320 ≤ n ∧ n < 400) ∨
      (400 ≤ n ∧ n < 480) ∨ (480 ≤ n ∧ n < 560) ∨ (560 ≤ n ∧ n < 640) ∨ (640 ≤ n ∧ n < 720) ∨
      (720 ≤ n ∧ n < 800) ∨ (800 ≤ n ∧ n < 880) ∨ (880 ≤ n ∧ n < 960) := by omega
  rcases h with h | h | h | h | h | h | h | h | h | h | h | h
  · exact startBlock_mem startBlock_00 (by omega) (by omega)
  · exact startBlock_mem startBlock_01 (by omega) (by omega)
  · exact startBlock_mem startBlock_02 (by omega) (by omega)
  · exact startBlock_mem startBlock_03 (by omega) (by omega)
  · exact startBlock_mem startBlock_04 (by omega) (by omega)
  · exact startBlock_mem startBlock_05 (by omega) (by omega)
  · exact startBlock_mem startBlock_06 (by omega) (by omega)
  · exact startBlock_mem startBlock_07 (by omega) (by omega)
  · exact startBlock_mem startBlock_08 (by omega) (by omega)
  · exact startBlock_mem startBlock_09 (by omega) (by omega)
  · exact startBlock_mem startBlock_10 (by omega) (by omega)
  · exact startBlock_mem startBlock_11 (by omega) (by omega)

/-- **all 960 start positions are in D.** -/
theorem start960_inD (n : Nat) (hn : n < 960) (frc : Bool) :
    InD (rel (GenPos.startFrom (GenPos.backRank960 n) (GenPos.backRank960 n)) frc) = true :=
  start960_inD_of_chk n frc (startChk_all n hn)

/-- number 518 is the standard start position of the engine (`Gen.startpos`), up to the `frc` flag. -/
example : (rel (GenPos.startFrom (GenPos.backRank960 518) (GenPos.backRank960 518)) false).hash = Gen.startpos.hash := by
  decide +kernel

end Rawr.Br

#print axioms Rawr.Br.start960_inD
