import Rawr.Proofs.FenDefs
/-!
# The board loop of `set_fen` inverts the specification's board printer

`fenBoard ar (printBoard b) q 0 = some (placeAbs b q, 64)` in both arithmetics: on the characters the
printer produces no `u8` operation of the loop overflows.
-/
namespace Rawr
open Spec
namespace FenParse

/-! ### the index ↦ square map of the loop -/

/-- the square visited at loop index `i` (also its own inverse on `0..63`). -/
def idxOf (i : Nat) : Nat := 8 * (7 - i / 8) + i % 8

/-! ### single steps of the loop -/

theorem fenBoard_nil (ar : Arith) (p : Position) (idx : Nat) : fenBoard ar [] p idx = some (p, idx) := by
  rw [fenBoard]

private theorem arith_ok (ar : Arith) (idx : Nat) (h : idx < 64) :
    u8sub ar 7 (idx / 8) = some (7 - idx / 8) ∧ u8mul ar 8 (7 - idx / 8) = some (8 * (7 - idx / 8)) ∧
    u8add ar (8 * (7 - idx / 8)) (idx % 8) = some (idxOf idx) ∧ bitAr ar (idxOf idx) = some (bit (idxOf idx)) := by
  refine ⟨?_, ?_, ?_, ?_⟩
  · unfold u8sub; rw [if_pos (by omega)]
  · unfold u8mul; rw [if_pos (by omega)]
  · unfold u8add idxOf; rw [if_pos (by omega)]
  · unfold bitAr idxOf; rw [if_pos (by omega)]

theorem fenBoard_piece (ar : Arith) (c : Char) (cs : List Char) (p : Position) (idx : Nat) (black : Bool) (k : Nat)
    (h : idx < 64) (hc : boardTok c = some (.piece black k)) :
    fenBoard ar (c :: cs) p idx =
      fenBoard ar cs
        ((if black then { p with c1 := p.c1 ^^^ bit (idxOf idx) } else { p with c0 := p.c0 ^^^ bit (idxOf idx) }).setPiece k
          ((if black then { p with c1 := p.c1 ^^^ bit (idxOf idx) } else { p with c0 := p.c0 ^^^ bit (idxOf idx) }).piece k
            ^^^ bit (idxOf idx)))
        (idx + 1) := by
  obtain ⟨h1, h2, h3, h4⟩ := arith_ok ar idx h
  have h5 : u8add ar idx 1 = some (idx + 1) := by unfold u8add; rw [if_pos (by omega)]
  rw [fenBoard]
  simp only [h1, h2, h3, h4, h5, hc, Option.bind_eq_bind, Option.bind_some]

theorem fenBoard_skip (ar : Arith) (c : Char) (cs : List Char) (p : Position) (idx n : Nat)
    (h : idx < 64) (hn : idx + n ≤ 64) (hc : boardTok c = some (.skip n)) :
    fenBoard ar (c :: cs) p idx = fenBoard ar cs p (idx + n) := by
  obtain ⟨h1, h2, h3, h4⟩ := arith_ok ar idx h
  have h5 : u8add ar idx n = some (idx + n) := by unfold u8add; rw [if_pos (by omega)]
  rw [fenBoard]
  simp only [h1, h2, h3, h4, h5, hc, Option.bind_eq_bind, Option.bind_some]

theorem fenBoard_slash (ar : Arith) (cs : List Char) (p : Position) (idx : Nat) (h : idx < 64) :
    fenBoard ar ('/' :: cs) p idx = fenBoard ar cs p idx := by
  obtain ⟨h1, h2, h3, h4⟩ := arith_ok ar idx h
  have hc : boardTok '/' = some .slash := by rfl
  rw [fenBoard]
  simp only [h1, h2, h3, h4, hc, Option.bind_eq_bind, Option.bind_some]

theorem boardTok_pieceLetter (pc : Piece) :
    boardTok (pieceLetter pc) = some (.piece (!pc.white) (kindIdx pc.kind)) := by
  obtain ⟨w, k⟩ := pc
  cases w <;> cases k <;> rfl

theorem boardTok_digitChar (n : Nat) (h1 : 1 ≤ n) (h8 : n ≤ 8) : boardTok (digitChar n) = some (.skip n) := by
  have : n = 1 ∨ n = 2 ∨ n = 3 ∨ n = 4 ∨ n = 5 ∨ n = 6 ∨ n = 7 ∨ n = 8 := by omega
  rcases this with rfl | rfl | rfl | rfl | rfl | rfl | rfl | rfl <;> rfl

/-! ### the boards after `n` loop indices -/

/-- the squares with `P` among the first `n` loop indices. -/
def part (P : Nat → Bool) (n : Nat) : BB := geomBB (fun s => P s && decide (idxOf s < n))

theorem part_zero (P : Nat → Bool) : part P 0 = 0#64 := by
  apply BitVec.eq_of_getLsbD_eq
  intro t ht
  simp [part, getLsbD_geomBB]

theorem part_full (P : Nat → Bool) : part P 64 = geomBB P := by
  apply BitVec.eq_of_getLsbD_eq
  intro t ht
  have : idxOf t < 64 := by unfold idxOf; omega
  simp [part, getLsbD_geomBB, this]

theorem part_set (P : Nat → Bool) (idx : Nat) (h : idx < 64) (hP : P (idxOf idx) = true) :
    part P idx ^^^ bit (idxOf idx) = part P (idx + 1) := by
  apply BitVec.eq_of_getLsbD_eq
  intro t ht
  rw [BitVec.getLsbD_xor, getLsbD_bit]
  simp only [part, getLsbD_geomBB, ht, decide_true, Bool.true_and]
  by_cases e : t = idxOf idx
  · subst e
    have h1 : ¬ idxOf (idxOf idx) < idx := by unfold idxOf; omega
    have h2 : idxOf (idxOf idx) < idx + 1 := by unfold idxOf; omega
    simp [hP, h1, h2]
  · have h1 : idxOf t < idx ↔ idxOf t < idx + 1 := by unfold idxOf at *; omega
    simp [e, h1]

theorem part_skip (P : Nat → Bool) (n m : Nat) (hnm : n ≤ m)
    (hP : ∀ t, t < 64 → n ≤ idxOf t → idxOf t < m → P t = false) : part P n = part P m := by
  apply BitVec.eq_of_getLsbD_eq
  intro t ht
  simp only [part, getLsbD_geomBB, ht, decide_true, Bool.true_and]
  by_cases h1 : idxOf t < n
  · have h2 : idxOf t < m := by omega
    simp [h1, h2]
  · by_cases h2 : idxOf t < m
    · simp [hP t ht (by omega) h2]
    · simp [h1, h2]

theorem part_succ (P : Nat → Bool) (idx : Nat) (h : idx < 64) :
    part P (idx + 1) = if P (idxOf idx) then part P idx ^^^ bit (idxOf idx) else part P idx := by
  cases hP : P (idxOf idx)
  · rw [if_neg (by simp)]
    symm
    apply part_skip P idx (idx + 1) (by omega)
    intro t ht h1 h2
    have : t = idxOf idx := by unfold idxOf at *; omega
    rw [this, hP]
  · rw [if_pos rfl, part_set P idx h hP]

/-- `q` with the boards `b` spells out on the squares of the first `n` loop indices. -/
def partialPos (b : Board) (q : Position) (n : Nat) : Position :=
  { q with
    c0 := part (isCol b true) n, c1 := part (isCol b false) n,
    p0 := part (isKind b .pawn) n, p1 := part (isKind b .knight) n, p2 := part (isKind b .bishop) n,
    p3 := part (isKind b .rook) n, p4 := part (isKind b .queen) n, p5 := part (isKind b .king) n }

theorem partialPos_zero (b : Board) (q : Position) (hq : BoardsEmpty q) : partialPos b q 0 = q := by
  cases q
  obtain ⟨h0, h1, h2, h3, h4, h5, h6, h7⟩ := hq
  simp only at h0 h1 h2 h3 h4 h5 h6 h7
  subst h0 h1 h2 h3 h4 h5 h6 h7
  simp only [partialPos, part_zero]

theorem partialPos_full (b : Board) (q : Position) : partialPos b q 64 = placeAbs b q := by
  simp only [partialPos, part_full, placeAbs]

theorem partialPos_skip (b : Board) (q : Position) (n m : Nat) (hnm : n ≤ m)
    (hb : ∀ t, t < 64 → n ≤ idxOf t → idxOf t < m → b t = none) : partialPos b q n = partialPos b q m := by
  have hc : ∀ w, part (isCol b w) n = part (isCol b w) m := fun w =>
    part_skip _ n m hnm (fun t ht h1 h2 => by simp only [isCol, hb t ht h1 h2])
  have hk : ∀ k, part (isKind b k) n = part (isKind b k) m := fun k =>
    part_skip _ n m hnm (fun t ht h1 h2 => by simp only [isKind, hb t ht h1 h2])
  simp only [partialPos, hc, hk]

theorem piece_step (ar : Arith) (b : Board) (q : Position) (cs : List Char) (idx : Nat) (pc : Piece)
    (h : idx < 64) (hb : b (idxOf idx) = some pc) :
    fenBoard ar (pieceLetter pc :: cs) (partialPos b q idx) idx =
      fenBoard ar cs (partialPos b q (idx + 1)) (idx + 1) := by
  rw [fenBoard_piece ar _ cs _ idx _ _ h (boardTok_pieceLetter pc)]
  congr 1
  simp only [partialPos, part_succ _ idx h, isCol, isKind, hb]
  obtain ⟨w, k⟩ := pc
  cases w <;> cases k <;> rfl

theorem digit_step (ar : Arith) (b : Board) (q : Position) (cs : List Char) (idx n : Nat)
    (h : idx < 64) (h1 : 1 ≤ n) (hn : idx + n ≤ 64) (hn8 : n ≤ 8)
    (hb : ∀ t, t < 64 → idx ≤ idxOf t → idxOf t < idx + n → b t = none) :
    fenBoard ar (digitChar n :: cs) (partialPos b q idx) idx =
      fenBoard ar cs (partialPos b q (idx + n)) (idx + n) := by
  rw [fenBoard_skip ar _ cs _ idx n h hn (boardTok_digitChar n h1 hn8),
    partialPos_skip b q idx (idx + n) (by omega) hb]

/-! ### one rank -/

theorem go_acc (b : Board) (r : Nat) : ∀ (fuel f run : Nat) (acc : List Char),
    printRank.go b r f fuel run acc = acc ++ printRank.go b r f fuel run [] := by
  intro fuel
  induction fuel with
  | zero =>
    intro f run acc
    simp only [printRank.go]
    split <;> simp
  | succ fuel ih =>
    intro f run acc
    simp only [printRank.go]
    cases b (f + 8 * r) with
    | none => exact ih (f + 1) (run + 1) acc
    | some pc =>
      simp only
      rw [ih (f + 1) 0 ((if run > 0 then acc ++ [digitChar run] else acc) ++ [pieceLetter pc]),
        ih (f + 1) 0 ((if run > 0 then [] ++ [digitChar run] else []) ++ [pieceLetter pc])]
      split <;> simp

/-- the pending run of empty squares is consumed as one digit (or nothing). -/
theorem flush_step (ar : Arith) (b : Board) (q : Position) (r : Nat) (hr : r ≤ 7) (cs : List Char)
    (f run idx : Nat) (hf : f ≤ 8) (hrun : run ≤ f) (hidx : idx + run = 8 * (7 - r) + f)
    (hb : ∀ g, g < f → f ≤ g + run → b (g + 8 * r) = none) :
    fenBoard ar ((if run > 0 then [] ++ [digitChar run] else []) ++ cs) (partialPos b q idx) idx =
      fenBoard ar cs (partialPos b q (idx + run)) (idx + run) := by
  by_cases h0 : run > 0
  · rw [if_pos h0]
    simp only [List.nil_append, List.singleton_append]
    apply digit_step ar b q cs idx run (by omega) (by omega) (by omega) (by omega)
    intro t ht h1 h2
    unfold idxOf at h1 h2
    have e : t = t % 8 + 8 * r := by omega
    rw [e]
    exact hb (t % 8) (by omega) (by omega)
  · have : run = 0 := by omega
    subst this
    simp

theorem go_parse (ar : Arith) (b : Board) (q : Position) (r : Nat) (hr : r ≤ 7) (rest : List Char) :
    ∀ (fuel f run idx : Nat), f + fuel = 8 → run ≤ f → idx + run = 8 * (7 - r) + f →
      (∀ g, g < f → f ≤ g + run → b (g + 8 * r) = none) →
      fenBoard ar (printRank.go b r f fuel run [] ++ rest) (partialPos b q idx) idx =
        fenBoard ar rest (partialPos b q (8 * (7 - r) + 8)) (8 * (7 - r) + 8) := by
  intro fuel
  induction fuel with
  | zero =>
    intro f run idx hf hrun hidx hb
    have hf8 : f = 8 := by omega
    subst hf8
    have := flush_step ar b q r hr rest 8 run idx (by omega) hrun hidx hb
    rw [hidx] at this
    simpa only [printRank.go, List.nil_append] using this
  | succ fuel ih =>
    intro f run idx hf hrun hidx hb
    simp only [printRank.go]
    cases hsq : b (f + 8 * r) with
    | none =>
      apply ih (f + 1) (run + 1) idx (by omega) (by omega) (by omega)
      intro g hg1 hg2
      by_cases e : g = f
      · rw [e]; exact hsq
      · exact hb g (by omega) (by omega)
    | some pc =>
      simp only
      rw [go_acc, List.append_assoc, List.append_assoc,
        flush_step ar b q r hr _ f run idx (by omega) hrun hidx hb, hidx]
      have hi : idxOf (8 * (7 - r) + f) = f + 8 * r := by unfold idxOf; omega
      rw [List.singleton_append, piece_step ar b q _ _ pc (by omega) (by rw [hi]; exact hsq)]
      apply ih (f + 1) 0 _ (by omega) (by omega) (by omega)
      intro g hg1 hg2
      omega

theorem rank_parse (ar : Arith) (b : Board) (q : Position) (r : Nat) (hr : r ≤ 7) (rest : List Char) :
    fenBoard ar (printRank b r ++ rest) (partialPos b q (8 * (7 - r))) (8 * (7 - r)) =
      fenBoard ar rest (partialPos b q (8 * (7 - r) + 8)) (8 * (7 - r) + 8) := by
  unfold printRank
  exact go_parse ar b q r hr rest 8 0 0 _ (by omega) (by omega) (by omega) (fun g hg _ => by omega)

/-! ### the eight ranks -/

theorem printBoard_eq (b : Board) :
    printBoard b = printRank b 7 ++ ('/' :: (printRank b 6 ++ ('/' :: (printRank b 5 ++ ('/' :: (printRank b 4 ++
      ('/' :: (printRank b 3 ++ ('/' :: (printRank b 2 ++ ('/' :: (printRank b 1 ++ ('/' :: (printRank b 0 ++
      [])))))))))))))) := by
  simp [printBoard, List.range, List.range.loop]

/-! ### the characters of the board field -/

theorem pieceLetter_ne_space (pc : Piece) : pieceLetter pc ≠ ' ' := by
  obtain ⟨w, k⟩ := pc
  cases w <;> cases k <;> decide

theorem digitChar_ne_space (n : Nat) (h : n ≤ 8) : digitChar n ≠ ' ' := by
  have : n = 0 ∨ n = 1 ∨ n = 2 ∨ n = 3 ∨ n = 4 ∨ n = 5 ∨ n = 6 ∨ n = 7 ∨ n = 8 := by omega
  rcases this with rfl | rfl | rfl | rfl | rfl | rfl | rfl | rfl | rfl <;> decide

theorem go_no_space (b : Board) (r : Nat) : ∀ (fuel f run : Nat) (acc : List Char),
    run + fuel ≤ 8 → ' ' ∉ acc → ' ' ∉ printRank.go b r f fuel run acc := by
  intro fuel
  induction fuel with
  | zero =>
    intro f run acc h hacc
    simp only [printRank.go]
    split
    · simp only [List.mem_append, List.mem_singleton, not_or]
      exact ⟨hacc, fun e => digitChar_ne_space run (by omega) e.symm⟩
    · exact hacc
  | succ fuel ih =>
    intro f run acc h hacc
    simp only [printRank.go]
    cases b (f + 8 * r) with
    | none => exact ih (f + 1) (run + 1) acc (by omega) hacc
    | some pc =>
      apply ih (f + 1) 0 _ (by omega)
      simp only [List.mem_append, List.mem_singleton, not_or]
      refine ⟨?_, fun e => pieceLetter_ne_space pc e.symm⟩
      split
      · simp only [List.mem_append, List.mem_singleton, not_or]
        exact ⟨hacc, fun e => digitChar_ne_space run (by omega) e.symm⟩
      · exact hacc

theorem printRank_no_space (b : Board) (r : Nat) : ' ' ∉ printRank b r := by
  unfold printRank
  exact go_no_space b r 8 0 0 [] (by omega) (by simp)

end FenParse

open FenParse

/-- The board loop of `set_fen` reads back the board the specification's printer wrote, in both build
flavours of the `u8` arithmetic. -/
theorem fenBoard_printBoard (ar : Arith) (b : Board) (q : Position) (hq : BoardsEmpty q) :
    fenBoard ar (printBoard b) q 0 = some (placeAbs b q, 64) := by
  have h7 := rank_parse ar b q 7 (by omega)
  have h6 := rank_parse ar b q 6 (by omega)
  have h5 := rank_parse ar b q 5 (by omega)
  have h4 := rank_parse ar b q 4 (by omega)
  have h3 := rank_parse ar b q 3 (by omega)
  have h2 := rank_parse ar b q 2 (by omega)
  have h1 := rank_parse ar b q 1 (by omega)
  have h0 := rank_parse ar b q 0 (by omega)
  simp only [Nat.sub_self, Nat.mul_zero, Nat.zero_add, Nat.reduceSub, Nat.reduceMul, Nat.reduceAdd] at h7 h6 h5 h4 h3 h2 h1 h0
  conv => lhs; rw [← partialPos_zero b q hq]
  rw [printBoard_eq, h7, fenBoard_slash ar _ _ 8 (by omega), h6, fenBoard_slash ar _ _ 16 (by omega),
    h5, fenBoard_slash ar _ _ 24 (by omega), h4, fenBoard_slash ar _ _ 32 (by omega),
    h3, fenBoard_slash ar _ _ 40 (by omega), h2, fenBoard_slash ar _ _ 48 (by omega),
    h1, fenBoard_slash ar _ _ 56 (by omega), h0, fenBoard_nil, partialPos_full]

theorem printBoard_no_space (b : Board) : ' ' ∉ printBoard b := by
  rw [printBoard_eq]
  simp only [List.mem_append, List.mem_cons, List.not_mem_nil, or_false, not_or]
  have := printRank_no_space b
  refine ⟨this 7, by decide, this 6, by decide, this 5, by decide, this 4, by decide, this 3, by decide,
    this 2, by decide, this 1, by decide, this 0⟩

theorem printBoard_ne_nil (b : Board) : printBoard b ≠ [] := by
  rw [printBoard_eq]
  intro h
  have := congrArg List.length h
  simp only [List.length_append, List.length_cons, List.length_nil] at this
  omega

/-- non-vacuity: the parser's initial position has empty boards, and the statement on a concrete board. -/
example : BoardsEmpty Position.dflt := by
  refine ⟨rfl, rfl, rfl, rfl, rfl, rfl, rfl, rfl⟩

example : fenBoard .trap (printBoard fun s => if s = 4 then some ⟨true, .king⟩ else if s = 60 then some ⟨false, .king⟩ else none)
    Position.dflt 0 = some (placeAbs (fun s => if s = 4 then some ⟨true, .king⟩ else if s = 60 then some ⟨false, .king⟩ else none)
      Position.dflt, 64) :=
  fenBoard_printBoard _ _ _ ⟨rfl, rfl, rfl, rfl, rfl, rfl, rfl, rfl⟩

example : printBoard (fun s => if s = 4 then some ⟨true, .king⟩ else if s = 60 then some ⟨false, .king⟩ else none)
    = "4k3/8/8/8/8/8/8/4K3".toList := by decide

#print axioms fenBoard_printBoard
#print axioms printBoard_no_space
#print axioms printBoard_ne_nil

end Rawr
