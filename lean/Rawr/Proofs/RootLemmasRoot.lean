import Rawr.Proofs.RootLemmasRange
import Rawr.Proofs.RootLemmasFrame
/-! Helper lemmas for C03 / C14: the root call of `negamax` (`ply = 0`, full window, `depth ≥ 1`, no null move).

At the root `is_pv` holds, so there is no table cut-off and no reverse-futility exit; the null move and the
rule-draw exit need `!is_root`; `depth ≥ 1` (also after the check extension) keeps quiescence out. Hence the
call either is stopped by its poll (only when `stats.depth > 1`) or runs its move loop, and then writes a
member of `legalMoves p` to `stats.best_move` unless there is no legal move. -/
namespace Rawr

/-- the state on which the root's stop poll is evaluated. -/
def rootPollState (st : SState) : SState := { st with seldepth := max st.seldepth 0 }

/-- "the root call was stopped by its poll". -/
def RootStopped (lim : Limit) (st : SState) : Prop :=
  1 < st.depth ∧ (shouldStop lim (rootPollState st)).1 = true

theorem root_isPv : (Gen.INF != -Gen.INF + 1) = true := by decide

theorem nmLoop_nil_eq {rec} {p : Position} {beta ply depth : Int} {inCheck : Bool} {idx : Nat} {st : SState}
    {alpha best : Int} {bestMv : Option Mv} {r}
    (h : nmLoop rec p beta ply depth inCheck [] idx st alpha best bestMv = some r) :
    r = (st, alpha, best, bestMv) := by
  simp only [nmLoop, Option.some.injEq] at h
  exact h.symm

/-- the root call. -/
theorem negamax_root (lim : Limit) (G : Nat → Position → Prop) (hG : SearchDom G) (K : Int)
    (hK1 : Gen.MATE_SCORE ≤ K) (hK2 : K ≤ Gen.INF)
    (fuel : Nat) (p : Position) (st : SState) (depth v : Int) (st' : SState)
    (hGp : G fuel p) (htt : TTIn K st.tt) (hd : 1 ≤ depth) (hf : (fuel : Int) ≤ K + Gen.MATE_SCORE)
    (h : negamax lim fuel p st (-Gen.INF) Gen.INF 0 depth false = some (v, st')) :
    TTIn K st'.tt ∧
    ((RootStopped lim st ∧ v = 0 ∧ st' = (shouldStop lim (rootPollState st)).2) ∨
     (¬ RootStopped lim st ∧ (legalMoves p = [] → st'.best = st.best) ∧
       (legalMoves p ≠ [] → InR K v ∧ ∃ m ∈ legalMoves p, st'.best = some m))) := by
  cases fuel with
  | zero => simp [negamax] at h
  | succ fuel =>
    simp only [negamax, beq_self_eq_true, Bool.not_true, Bool.and_false, Bool.false_and, Bool.false_eq_true,
      ↓reduceIte, Bool.true_and, root_isPv] at h
    generalize hpr : (ite (_ = true) (shouldStop lim _) (false, _) : Bool × SState) = pr at h
    have hprd : (1 < st.depth ∧ pr = shouldStop lim (rootPollState st)) ∨
        (st.depth ≤ 1 ∧ pr = (false, rootPollState st)) := by
      by_cases hdd : st.depth ≤ 1
      · right
        refine ⟨hdd, ?_⟩
        rw [← hpr, if_neg (by simp [hdd])]; rfl
      · left
        refine ⟨by omega, ?_⟩
        rw [← hpr, if_pos (by simp [hdd])]; rfl
    clear hpr
    have hprtt : TTIn K pr.2.tt := by
      rcases hprd with ⟨_, e⟩ | ⟨_, e⟩ <;> rw [e] <;> exact htt
    have hprbest : pr.2.best = st.best := by
      rcases hprd with ⟨_, e⟩ | ⟨_, e⟩ <;> rw [e] <;> rfl
    split at h
    · simp at h
    have hdp : ¬ (if p.inCheck = true then depth + 1 else depth) ≤ 0 := by split <;> omega
    rw [if_neg hdp] at h
    by_cases hstop : pr.1 = true
    · -- stopped by the poll
      rw [if_pos hstop] at h
      simp only [Option.some.injEq, Prod.mk.injEq] at h
      rcases hprd with ⟨hd1, e⟩ | ⟨_, e⟩
      · rw [← h.2]
        refine ⟨hprtt, Or.inl ⟨⟨hd1, by rw [← e]; exact hstop⟩, h.1.symm, by rw [e]⟩⟩
      · rw [e] at hstop; simp at hstop
    · rw [if_neg hstop] at h
      have hns : ¬ RootStopped lim st := by
        rintro ⟨hd1, hs⟩
        rcases hprd with ⟨_, e⟩ | ⟨hd2, _⟩
        · rw [e] at hstop; exact hstop hs
        · omega
      -- move ordering
      split at h
      · simp at h
      rename_i moves hsort
      have hperm := sortNm_perm _ _ _ _ hsort
      -- the move loop
      split at h
      · simp at h
      rename_i s4 a4 best bestMv hloop
      obtain ⟨l1, l2, l3⟩ := nmLoop_range K (negamax lim fuel) (G fuel) p _ 0 _ _
        (fun np s a b d c v s' hp ht hr =>
          negamax_range lim G hG K hK1 fuel np s a b (0 + 1) d c v s' hp ht (by omega) (by omega) hr)
        moves _ _ _ _ _ _ _ _ _
        (fun m hm np hnp => hG.move _ _ _ _ hGp (hperm.mem_iff.1 hm) hnp) hprtt hloop
      cases bestMv with
      | none =>
        -- no legal move
        simp only [Option.some.injEq, Prod.mk.injEq] at h
        have hmoves : moves = [] := by
          by_cases hm : moves = []
          · exact hm
          · obtain ⟨_, m, _, e⟩ := l3 hm (by omega)
            simp at e
        have hlm : legalMoves p = [] := by
          rw [hmoves] at hperm; exact List.nil_perm.1 hperm
        rw [hmoves] at hloop
        have hs4 := nmLoop_nil_eq hloop
        simp only [Prod.mk.injEq] at hs4
        rw [← h.2]
        refine ⟨l1, Or.inr ⟨hns, fun _ => by rw [hs4.1]; exact hprbest, fun hne => absurd hlm hne⟩⟩
      | some bm =>
        simp only at h
        split at h
        · simp at h
        rename_i tt' hadd
        simp only [Option.some.injEq, Prod.mk.injEq] at h
        have hb : InR K best ∧ ∃ m ∈ moves, some bm = some m := by
          rcases l2 with ⟨_, e2⟩ | e
          · simp at e2
          · exact e
        obtain ⟨hbest, m, hm, e⟩ := hb
        have hmem : m ∈ legalMoves p := hperm.mem_iff.1 hm
        rw [← h.2, ← h.1]
        refine ⟨l1.add hbest hadd, Or.inr ⟨hns, fun hlm => ?_, fun _ => ⟨hbest, m, hmem, e⟩⟩⟩
        rw [hlm] at hmem; simp at hmem

end Rawr
