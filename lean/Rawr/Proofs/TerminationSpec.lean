import Rawr.Proofs.MakeMoveAbsV5
/-! Termination, part 3 (specification level, no engine model): the potentials.

`wsum w b` adds the weight `w pc s` of every piece `pc` standing on a square `s < 64` of board `b`.
* `men b` (`pieceW false`): the number of men;
* `pot b` (`pieceW true`): men plus, for every pawn, the number of ranks it still has to go.
`apply_potential`: a legal move of a valid position never raises `men`; it lowers `men` when it captures;
it either lowers `pot`, or keeps it (≤) and advances the half-move clock by exactly one. -/
namespace Rawr.Term
open Rawr Rawr.Spec Rawr.SV

/-- `Σ_{i<n} f i`. -/
def wsumN (f : Nat → Nat) : Nat → Nat
  | 0 => 0
  | n + 1 => wsumN f n + f n

theorem wsumN_update (f f' : Nat → Nat) (s : Nat) (h : ∀ x, x ≠ s → f' x = f x) :
    ∀ n, (n ≤ s → wsumN f' n = wsumN f n) ∧ (s < n → wsumN f' n + f s = wsumN f n + f' s) := by
  intro n
  induction n with
  | zero => exact ⟨fun _ => rfl, fun h => by omega⟩
  | succ n ih =>
    obtain ⟨ih1, ih2⟩ := ih
    simp only [wsumN]
    constructor
    · intro hle
      rw [ih1 (by omega), h n (by omega)]
    · intro hlt
      by_cases hn : n = s
      · subst hn
        rw [ih1 (Nat.le_refl _)]; omega
      · have := ih2 (by omega)
        rw [h n hn]; omega

theorem wsumN_le (f : Nat → Nat) (h : ∀ x, f x ≤ 1) : ∀ n, wsumN f n ≤ n := by
  intro n
  induction n with
  | zero => exact Nat.le_refl _
  | succ n ih => simp only [wsumN]; have := h n; omega

theorem wsumN_pos (f : Nat → Nat) {s n : Nat} (hs : s < n) (h : 1 ≤ f s) : 1 ≤ wsumN f n := by
  induction n with
  | zero => omega
  | succ n ih =>
    simp only [wsumN]
    by_cases hn : s = n
    · subst hn; omega
    · have := ih (by omega); omega

def cellW (w : Piece → Nat → Nat) (b : Board) (s : Nat) : Nat :=
  match b s with
  | some pc => w pc s
  | none => 0

def optW (w : Piece → Nat → Nat) (v : Option Piece) (s : Nat) : Nat :=
  match v with
  | some pc => w pc s
  | none => 0

def wsum (w : Piece → Nat → Nat) (b : Board) : Nat := wsumN (cellW w b) 64

theorem cellW_some {w : Piece → Nat → Nat} {b : Board} {s : Nat} {pc : Piece} (h : b s = some pc) :
    cellW w b s = w pc s := by unfold cellW; rw [h]

theorem cellW_none {w : Piece → Nat → Nat} {b : Board} {s : Nat} (h : b s = none) : cellW w b s = 0 := by
  unfold cellW; rw [h]

theorem cellW_setSq_ne (w : Piece → Nat → Nat) (b : Board) (s : Nat) (v : Option Piece) (x : Nat) (h : x ≠ s) :
    cellW w (setSq b s v) x = cellW w b x := by
  unfold cellW setSq
  rw [if_neg h]

theorem cellW_setSq_self (w : Piece → Nat → Nat) (b : Board) (s : Nat) (v : Option Piece) :
    cellW w (setSq b s v) s = optW w v s := by
  unfold cellW setSq optW
  rw [if_pos rfl]

theorem wsum_setSq (w : Piece → Nat → Nat) (b : Board) (s : Nat) (v : Option Piece) (hs : s < 64) :
    wsum w (setSq b s v) + cellW w b s = wsum w b + optW w v s := by
  have := (wsumN_update (cellW w b) (cellW w (setSq b s v)) s (cellW_setSq_ne w b s v) 64).2 hs
  rw [cellW_setSq_self] at this
  exact this

theorem wsum_setSq_le (w : Piece → Nat → Nat) (b : Board) (s : Nat) (v : Option Piece) :
    wsum w (setSq b s v) ≤ wsum w b + optW w v s := by
  by_cases hs : s < 64
  · have := wsum_setSq w b s v hs; omega
  · have := (wsumN_update (cellW w b) (cellW w (setSq b s v)) s (cellW_setSq_ne w b s v) 64).1 (by omega)
    unfold wsum; omega

/-- weight of a piece: one, plus (when `adv`) the ranks a pawn still has to go. -/
def pieceW (adv : Bool) (pc : Piece) (s : Nat) : Nat :=
  1 + (if adv = true ∧ pc.kind = .pawn then (if pc.white = true then 7 - s / 8 else s / 8) else 0)

/-- the number of men. -/
def men (b : Board) : Nat := wsum (pieceW false) b
/-- men plus remaining pawn advancement. -/
def pot (b : Board) : Nat := wsum (pieceW true) b

theorem pieceW_pos (adv : Bool) (pc : Piece) (s : Nat) : 1 ≤ pieceW adv pc s := by unfold pieceW; omega

theorem pieceW_nonpawn (adv : Bool) (pc : Piece) (s : Nat) (h : pc.kind ≠ .pawn) : pieceW adv pc s = 1 := by
  unfold pieceW; rw [if_neg (fun hc => h hc.2)]

theorem pieceW_pawn (pc : Piece) (s : Nat) (hk : pc.kind = .pawn) :
    pieceW true pc s = 1 + (if pc.white = true then 7 - s / 8 else s / 8) := by
  unfold pieceW; rw [if_pos ⟨rfl, hk⟩]

theorem pieceW_false (pc : Piece) (s : Nat) : pieceW false pc s = 1 := by
  unfold pieceW; rw [if_neg (fun hc => by cases hc.1)]

theorem pieceW_le (adv : Bool) (pc : Piece) (s : Nat) (hs : s < 64) : pieceW adv pc s ≤ 8 := by
  unfold pieceW; split <;> (try split) <;> omega

theorem men_le (b : Board) : men b ≤ 64 := by
  unfold men wsum
  refine wsumN_le _ (fun x => ?_) 64
  cases hb : b x with
  | none => rw [cellW_none hb]; omega
  | some pc => rw [cellW_some hb, pieceW_false]; omega

theorem men_pos {b : Board} {s : Nat} {pc : Piece} (hs : s < 64) (h : b s = some pc) : 1 ≤ men b := by
  unfold men wsum
  refine wsumN_pos _ hs ?_
  unfold cellW
  rw [h]
  exact pieceW_pos _ _ _

theorem sq_file_rank {s : Nat} : sq (file s) (rank s) = s := by
  unfold sq file rank; omega

theorem sq_lt {f r : Int} (hf0 : 0 ≤ f) (hf : f < 8) (hr0 : 0 ≤ r) (hr : r < 8) : sq f r < 64 := by
  unfold sq; omega

theorem file_bounds (s : Nat) : 0 ≤ file s ∧ file s < 8 := by unfold file; omega
theorem rank_bounds {s : Nat} (h : s < 64) : 0 ≤ rank s ∧ rank s < 8 := by unfold rank; omega

/-! ## a normal move -/

theorem ep_rank_aux (w : Bool) (rs rt : Int) (h5 : rt = if w = true then 5 else 2) (hr : rt = rs + pdir w) :
    rs = if w = true then 4 else 3 := by
  cases w <;> simp [pdir] at * <;> omega

theorem dbl_rank_aux (w : Bool) (rs rt : Int) (h5 : rt = if w = true then 5 else 2) (hr : rt = rs + 2 * pdir w)
    (hst : rs = pstart w) : False := by
  cases w <;> simp [pdir, pstart] at * <;> omega

/-- the piece that arrives on the target square. -/
def arrive (pc : Piece) (pr : Option Kind) : Piece :=
  match pr with
  | some k => ⟨pc.white, k⟩
  | none => pc

theorem apply_normal_board {a : APos} {s t : Nat} {pr : Option Kind} {pc : Piece} (h : a.board s = some pc) :
    (apply a (.normal s t pr)).board =
      setSq (if (pc.kind == .pawn && file s != file t && !(a.board t).isSome) = true
            then setSq (setSq a.board s none) (sq (file t) (rank s)) none else setSq a.board s none) t
            (some (arrive pc pr)) := by
  rw [apply_normal h]
  cases pr <;> rfl

/-- weight bookkeeping of a non-castling legal move: the mover's weight leaves `s`, the arriving piece's weight
lands on `t`, and `c` (the weight of whatever was captured) disappears. -/
theorem apply_normal_wsum (adv : Bool) {a : APos} {s t : Nat} {pr : Option Kind} {pc : Piece}
    (hv : ValidFacts a) (nl : NormalLegal a s t pr pc) :
    ∃ c, wsum (pieceW adv) (apply a (.normal s t pr)).board + pieceW adv pc s + c =
        wsum (pieceW adv) a.board + pieceW adv (arrive pc pr) t ∧
      (((a.board t).isSome = true ∨ (pc.kind = .pawn ∧ a.ep = some t)) → 1 ≤ c) := by
  rw [apply_normal_board nl.hpc]
  generalize arrive pc pr = x
  have e1 := wsum_setSq (pieceW adv) a.board s none nl.hs
  rw [cellW_some nl.hpc] at e1
  simp only [optW] at e1
  by_cases hep : (pc.kind == .pawn && file s != file t && !(a.board t).isSome) = true
  · rw [if_pos hep]
    simp only [Bool.and_eq_true, beq_iff_eq, bne_iff_ne, ne_eq, Bool.not_eq_true',
      Option.isSome_eq_false_iff, Option.isNone_iff_eq_none] at hep
    obtain ⟨⟨hk, hf⟩, hbt⟩ := hep
    obtain ⟨hept, hrk⟩ := nl.epT hk hbt (fun e => hf e.symm)
    obtain ⟨hr5, _, hvic⟩ := hv.ep t hept
    have hw := nl.hw
    -- the victim's square
    have hvsq : sq (file t) (rank s) = sq (file t) (if a.whiteToMove = true then 4 else 3) := by
      congr 1
      rw [hw] at hrk
      exact ep_rank_aux _ _ _ hr5 hrk
    rw [hvsq]
    generalize hv' : sq (file t) (if a.whiteToMove = true then 4 else 3) = v at hvic
    have hv64 : v < 64 := by
      rw [← hv']
      have := file_bounds t
      exact sq_lt this.1 this.2 (by split <;> omega) (by split <;> omega)
    have hvs : v ≠ s := by
      intro e
      rw [e, nl.hpc] at hvic
      have := congrArg Piece.white (Option.some.inj hvic)
      simp only [hw] at this
      cases a.whiteToMove <;> simp at this
    have hvt : v ≠ t := by
      intro e
      rw [e, hbt] at hvic
      cases hvic
    have e2 := wsum_setSq (pieceW adv) (setSq a.board s none) v none hv64
    rw [cellW_setSq_ne _ _ _ _ _ hvs, cellW_some hvic] at e2
    simp only [optW] at e2
    have e3 := wsum_setSq (pieceW adv) (setSq (setSq a.board s none) v none) t (some x) nl.ht
    rw [cellW_setSq_ne _ _ _ _ _ (fun e => hvt e.symm), cellW_setSq_ne _ _ _ _ _ (fun e => nl.hne e.symm),
      cellW_none hbt] at e3
    simp only [optW] at e3
    refine ⟨pieceW adv ⟨!a.whiteToMove, .pawn⟩ v, by omega, fun _ => pieceW_pos _ _ _⟩
  · rw [if_neg hep]
    have e3 := wsum_setSq (pieceW adv) (setSq a.board s none) t (some x) nl.ht
    rw [cellW_setSq_ne _ _ _ _ _ (fun e => nl.hne e.symm)] at e3
    simp only [optW] at e3
    refine ⟨cellW (pieceW adv) a.board t, by omega, ?_⟩
    rintro (hcap | ⟨hk, hept⟩)
    · obtain ⟨y, hy⟩ := Option.isSome_iff_exists.mp hcap
      rw [cellW_some hy]
      exact pieceW_pos _ _ _
    · -- a pawn arriving on the en-passant square captures en passant: the other case is impossible
      exfalso
      obtain ⟨hr5, hbt, hvic⟩ := hv.ep t hept
      have hfs : file s = file t := by
        by_cases hf : file s = file t
        · exact hf
        · exfalso
          apply hep
          simp only [Bool.and_eq_true, beq_iff_eq, bne_iff_ne, ne_eq, Bool.not_eq_true',
            Option.isSome_eq_false_iff, Option.isNone_iff_eq_none]
          exact ⟨⟨hk, hf⟩, hbt⟩
      have hw := nl.hw
      rcases nl.pawnRank hk with hr | ⟨hr, _, hst, _⟩
      · have hs' : s = sq (file t) (if a.whiteToMove = true then 4 else 3) := by
          rw [← hfs]
          conv => lhs; rw [← sq_file_rank (s := s)]
          congr 1
          rw [hw] at hr
          exact ep_rank_aux _ _ _ hr5 hr
        rw [← hs', nl.hpc] at hvic
        have := congrArg Piece.white (Option.some.inj hvic)
        simp only [hw] at this
        cases a.whiteToMove <;> simp at this
      · rw [hw] at hr hst
        exact dbl_rank_aux _ _ _ hr5 hr hst

/-- a pawn's weight goes down with every pawn move (promotion included). -/
theorem pawn_weight_lt {a : APos} {s t : Nat} {pr : Option Kind} {pc : Piece}
    (nl : NormalLegal a s t pr pc) (hk : pc.kind = .pawn) :
    pieceW true (arrive pc pr) t < pieceW true pc s := by
  have hs := nl.hs
  have ht := nl.ht
  have hrk : rank t = rank s + pdir pc.white ∨ rank t = rank s + 2 * pdir pc.white := by
    rcases nl.pawnRank hk with h | h
    · exact Or.inl h
    · exact Or.inr h.1
  unfold rank pdir at hrk
  cases pr with
  | some k =>
    obtain ⟨_, hmem, _⟩ := nl.prK k rfl
    have hkk : k ≠ .pawn := by
      intro e; subst e; simp [promoKinds] at hmem
    simp only [arrive]
    rw [pieceW_nonpawn _ _ _ (by exact hkk)]
    unfold pieceW
    rw [if_pos ⟨rfl, hk⟩]
    by_cases hwh : pc.white = true
    · simp only [if_pos hwh] at hrk ⊢; omega
    · simp only [if_neg hwh] at hrk ⊢; omega
  | none =>
    simp only [arrive]
    rw [pieceW_pawn _ _ hk, pieceW_pawn _ _ hk]
    by_cases hwh : pc.white = true
    · simp only [if_pos hwh] at hrk ⊢; omega
    · simp only [if_neg hwh] at hrk ⊢; omega

/-! ## castling -/

theorem apply_castle_wsum (adv : Bool) {a : APos} {ks : Bool} {rf k : Nat} (hv : ValidFacts a)
    (cf : CastleFacts a ks rf k) :
    wsum (pieceW adv) (apply a (.castle ks)).board ≤ wsum (pieceW adv) a.board := by
  rw [(apply_castle_fields cf).1]
  unfold cBoard
  have uk := unique_of_kingSquares cf.hk
  obtain ⟨hk64, hbk, _⟩ := uk
  have hrf : rf < 8 := (hv.rights _ _ _ cf.hr).1
  generalize hrsq : sq rf (homeRank a.whiteToMove) = rsq
  have hr64 : rsq < 64 := by
    rw [← hrsq]
    unfold sq homeRank
    split <;> omega
  have hbr := cf.rook
  rw [hrsq] at hbr
  have hne : rsq ≠ k := by
    intro e
    rw [e, hbk] at hbr
    cases hbr
  have e1 := wsum_setSq (pieceW adv) a.board k none hk64
  rw [cellW_some hbk, pieceW_nonpawn _ _ _ (by simp)] at e1
  have e2 := wsum_setSq (pieceW adv) (setSq a.board k none) rsq none hr64
  rw [cellW_setSq_ne _ _ _ _ _ hne, cellW_some hbr, pieceW_nonpawn _ _ _ (by simp)] at e2
  have e3 := wsum_setSq_le (pieceW adv) (setSq (setSq a.board k none) rsq none)
    (sq (if ks = true then 6 else 2) (homeRank a.whiteToMove)) (some ⟨a.whiteToMove, .king⟩)
  have e4 := wsum_setSq_le (pieceW adv) (setSq (setSq (setSq a.board k none) rsq none)
    (sq (if ks = true then 6 else 2) (homeRank a.whiteToMove)) (some ⟨a.whiteToMove, .king⟩))
    (sq (if ks = true then 5 else 3) (homeRank a.whiteToMove)) (some ⟨a.whiteToMove, .rook⟩)
  simp only [optW] at e1 e2 e3 e4
  rw [pieceW_nonpawn _ _ _ (by simp)] at e3 e4
  omega

/-! ## every legal move -/

/-- the move captures by the rules: it lands on an occupied square, or it is a pawn landing on the
en-passant square. -/
def SpecCapture (a : APos) (mv : Move) : Prop :=
  match mv with
  | .normal s t _ => (a.board t).isSome = true ∨ ∃ pc, a.board s = some pc ∧ pc.kind = .pawn ∧ a.ep = some t
  | .castle _ => False

theorem apply_potential {a : APos} {mv : Move} (hval : Valid a = true) (hl : mv ∈ legalMoves a) :
    men (apply a mv).board ≤ men a.board ∧
    (SpecCapture a mv → men (apply a mv).board < men a.board) ∧
    (pot (apply a mv).board < pot a.board ∨
      (pot (apply a mv).board ≤ pot a.board ∧ (apply a mv).half = a.half + 1)) := by
  have hv := (valid_iff a).mp hval
  rcases legal_cases hl with ⟨s, t, pr, pc, rfl, nl, _⟩ | ⟨ks, rfl, hc⟩
  · obtain ⟨c0, e0, h0⟩ := apply_normal_wsum false hv nl
    obtain ⟨c1, e1, h1⟩ := apply_normal_wsum true hv nl
    simp only [pieceW_false] at e0
    refine ⟨by unfold men; omega, ?_, ?_⟩
    · intro hcap
      have hc : (a.board t).isSome = true ∨ (pc.kind = .pawn ∧ a.ep = some t) := by
        rcases hcap with h | ⟨pc', hpc', hk, he⟩
        · exact Or.inl h
        · rw [nl.hpc] at hpc'
          cases hpc'
          exact Or.inr ⟨hk, he⟩
      have := h0 hc
      unfold men; omega
    · by_cases hk : pc.kind = .pawn
      · left
        have := pawn_weight_lt nl hk
        unfold pot; omega
      · have hpr : pr = none := by
          cases pr with
          | none => rfl
          | some k => exact absurd (nl.prK k rfl).1 hk
        subst hpr
        simp only [arrive, pieceW_nonpawn _ _ _ hk] at e1
        by_cases hcap : (a.board t).isSome = true
        · left
          have := h1 (Or.inl hcap)
          unfold pot; omega
        · right
          refine ⟨by unfold pot; omega, ?_⟩
          rw [apply_normal nl.hpc]
          simp only []
          have hkb : (pc.kind == Kind.pawn) = false := by
            rw [beq_eq_false_iff_ne]; exact hk
          rw [hkb]
          simp only [Bool.not_eq_true] at hcap
          rw [hcap]
          rfl
  · obtain ⟨rf, k, cf⟩ := castle_facts hc
    have e0 := apply_castle_wsum false hv cf
    have e1 := apply_castle_wsum true hv cf
    exact ⟨e0, fun h => h.elim, Or.inr ⟨e1, (apply_castle_fields cf).2.2.2.2.1⟩⟩

/-- the turn passing (null move) changes neither potential. -/
theorem valid_men_pos {a : APos} (hval : Valid a = true) : 1 ≤ men a.board := by
  have hv := (valid_iff a).mp hval
  obtain ⟨k, hk, hb, _⟩ := hv.kw
  exact men_pos hk hb

theorem pot_le (b : Board) : pot b ≤ 512 := by
  unfold pot wsum
  have : ∀ n, n ≤ 64 → wsumN (cellW (pieceW true) b) n ≤ n * 8 := by
    intro n
    induction n with
    | zero => intro _; exact Nat.le_refl _
    | succ n ih =>
      intro hn
      simp only [wsumN]
      have : cellW (pieceW true) b n ≤ 8 := by
        cases hb : b n with
        | none => rw [cellW_none hb]; omega
        | some pc => rw [cellW_some hb]; exact pieceW_le _ _ _ (by omega)
      have := ih (by omega)
      omega
  exact this 64 (Nat.le_refl _)

end Rawr.Term
