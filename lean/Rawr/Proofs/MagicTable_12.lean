import Rawr.Proofs.MagicCheck
/-! C10 table check, part 12 of 16: 6528 rows, each one evaluated by the kernel.
The partition into modules balances row counts and depends on board geometry only; the statements do
not mention any table content, so a changed table or magic makes these proofs fail. -/
namespace Rawr.MagicTable
theorem bishop_9 : checkB 9 = true := by decide +kernel
theorem bishop_17 : checkB 17 = true := by decide +kernel
theorem bishop_33 : checkB 33 = true := by decide +kernel
theorem bishop_37 : checkB 37 = true := by decide +kernel
theorem bishop_49 : checkB 49 = true := by decide +kernel
theorem bishop_58 : checkB 58 = true := by decide +kernel
theorem bishop_62 : checkB 62 = true := by decide +kernel
theorem bishop_63 : checkB 63 = true := by decide +kernel
theorem rook_4 : checkR 4 = true := by decide +kernel
theorem rook_18 : checkR 18 = true := by decide +kernel
theorem rook_38 : checkR 38 = true := by decide +kernel
theorem rook_47 : checkR 47 = true := by decide +kernel
end Rawr.MagicTable
