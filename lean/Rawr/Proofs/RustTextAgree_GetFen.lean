import Rawr.Proofs.RustTextAgree
/-!
# `get_fen` regenerated from get_fen.rs agrees with the model's `getFen`
-/
set_option linter.unusedSimpArgs false
namespace Rawr
open Position

theorem pieceOn_cases (p : Position) (s : Nat) :
    p.pieceOn s = none ∨ p.pieceOn s = some 0 ∨ p.pieceOn s = some 1 ∨ p.pieceOn s = some 2 ∨
    p.pieceOn s = some 3 ∨ p.pieceOn s = some 4 ∨ p.pieceOn s = some 5 := by
  unfold Position.pieceOn
  repeat' split
  all_goals simp

/-- one iteration of the inner (file) loop of `get_fen`, in the vocabulary of the model's `fenRank`. -/
theorem get_fen_loop1_step_eq (y : Nat) (np : Position) (x : Nat) (fen : List Char) (k : Nat) :
    R.get_fen_loop1_step y np x fen (k : Int) =
      (let sq := fromCoords x y
       let st : List Char × Nat := if np.occ.isSet sq && decide (k > 0) then (fen ++ intToChars k, 0) else (fen, k)
       match np.pieceOn sq, np.colourOn sq with
       | some pc, some col => some (ForInStep.yield (st.1 ++ [pieceChar pc col], (st.2 : Int)))
       | none, none => some (ForInStep.yield (st.1, ((st.2 + 1 : Nat) : Int)))
       | _, _ => none) := by
  unfold R.get_fen_loop1_step
  rw [agree_get_piece_on, agree_get_colour_on, agree_is_occupied]
  have hk : (decide ((k : Int) > 0)) = decide (k > 0) := by simp
  dsimp only []
  rcases pieceOn_cases np (fromCoords x y) with h | h | h | h | h | h | h <;> rw [h] <;>
    cases np.colourOn (fromCoords x y) with
    | none => by_cases h0 : (np.occ.isSet (fromCoords x y) && decide (k > 0)) = true <;> simp [h0, hk]
    | some col => cases col <;>
        by_cases h0 : (np.occ.isSet (fromCoords x y) && decide (k > 0)) = true <;> simp [h0, hk, pieceChar]

/-- the inner loop over the files `x .. x+n` followed by the flush of the pending blank count is `fenRank`. -/
theorem get_fen_loop1_eq (y : Nat) (np : Position) (n : Nat) :
    ∀ (x : Nat) (fen : List Char) (k : Nat),
      (R.get_fen_loop1 y np (List.range' x n) fen (k : Int)).bind
          (fun r => some (if r.2 > 0 then r.1 ++ intToChars r.2 else r.1))
        = fenRank np y n x k fen := by
  induction n with
  | zero =>
    intro x fen k
    simp [R.get_fen_loop1, fenRank]
  | succ n ih =>
    intro x fen k
    unfold fenRank
    simp only [R.get_fen_loop1, List.range'_succ, List.forIn_cons, get_fen_loop1_step_eq] at ih ⊢
    by_cases h0 : (np.occ.isSet (fromCoords x y) && decide (k > 0)) = true
    · simp only [h0, if_true]
      rcases pieceOn_cases np (fromCoords x y) with h | h | h | h | h | h | h <;> rw [h] <;>
        cases np.colourOn (fromCoords x y) <;>
        first
          | rfl
          | (simp only [Option.bind_eq_bind, Option.bind_some, Option.pure_def]; exact ih _ _ _)
    · simp only [h0, if_false, Bool.false_eq_true]
      rcases pieceOn_cases np (fromCoords x y) with h | h | h | h | h | h | h <;> rw [h] <;>
        cases np.colourOn (fromCoords x y) <;>
        first
          | rfl
          | (simp only [Option.bind_eq_bind, Option.bind_some, Option.pure_def]; exact ih _ _ _)

theorem fenRank_acc (np : Position) (y n : Nat) :
    ∀ (x k : Nat) (a b : List Char), fenRank np y n x k (a ++ b) = (fenRank np y n x k b).map (a ++ ·) := by
  induction n with
  | zero => intro x k a b; unfold fenRank; split <;> simp
  | succ n ih =>
    intro x k a b
    unfold fenRank
    by_cases h0 : (np.occ.isSet (fromCoords x y) && decide (k > 0)) = true
    · simp only [h0, if_true]
      split
      · simp only [List.append_assoc]; exact ih _ _ _ _
      · simp only [List.append_assoc]; exact ih _ _ _ _
      · rfl
    · simp only [h0, if_false, Bool.false_eq_true]
      split
      · simp only [List.append_assoc]; exact ih _ _ _ _
      · exact ih _ _ _ _
      · rfl

/-- one iteration of the outer (rank) loop. -/
theorem get_fen_loop2_step_eq (np : Position) (y : Nat) (fen : List Char) :
    R.get_fen_loop2_step np y fen =
      (fenRank np y 8 0 0 []).map (fun r => ForInStep.yield (fen ++ r ++ (if y > 0 then ['/'] else []))) := by
  have h := get_fen_loop1_eq y np 8 0 fen 0
  rw [show fen = fen ++ [] by simp, fenRank_acc] at h
  simp only [List.append_nil] at h
  unfold R.get_fen_loop2_step
  rw [List.range_eq_range']
  simp only [Int.natCast_zero] at h
  cases hl : R.get_fen_loop1 y np (List.range' 0 8) fen 0 with
  | none =>
    rw [hl] at h
    simp only [Option.bind_none] at h
    have h' : fenRank np y 8 0 0 [] = none := by
      cases hf : fenRank np y 8 0 0 [] <;> simp [hf] at h ⊢
    simp [hl, h']
  | some r =>
    rw [hl] at h
    simp only [Option.bind_some] at h
    cases hf : fenRank np y 8 0 0 [] with
    | none => simp [hf] at h
    | some q =>
      simp only [hf, Option.map_some, Option.some.injEq] at h
      by_cases h1 : r.2 > 0 <;> by_cases h2 : y > 0 <;> simp only [h1, if_true, if_false] at h <;>
        simp [hl, h1, h2] <;> simp [← List.append_assoc, h]

theorem get_fen_loop2_eq (np : Position) (k : Nat) :
    ∀ acc : List Char, R.get_fen_loop2 np (List.range k).reverse acc = getFen.ranks np k (k - 1) acc := by
  induction k with
  | zero => intro acc; simp [R.get_fen_loop2, getFen.ranks]
  | succ k ih =>
    intro acc
    unfold getFen.ranks
    simp only [R.get_fen_loop2, List.range_succ, List.reverse_append, List.reverse_cons, List.reverse_nil, List.nil_append,
      List.singleton_append, List.forIn_cons, get_fen_loop2_step_eq, Nat.add_sub_cancel] at ih ⊢
    cases fenRank np k 8 0 0 [] with
    | none => rfl
    | some r => simp only [Option.map_some, Option.bind_eq_bind, Option.bind_some]; exact ih _

/-- the X-FEN castling letter closure of `get_fen` is the model's `castleLetterOut` (castle file on the board). -/
theorem get_fen_letter_eq (ar : Arith) (rooks : BB) (file rank : Nat) (ks : Bool) (hf : file < 8) :
    R.get_fen_letter ar rooks file rank ks = some (castleLetterOut rooks file rank ks) := by
  have ha : u8add ar file 1 = some (file + 1) := by simp [u8add]; omega
  have hb : u8add ar (asU8 'a') file = some ('a'.toNat + file) := by
    have : asU8 'a' = 97 := by decide
    have : 'a'.toNat = 97 := by decide
    simp [u8add, *]; omega
  have hk : (T.range (file + 1) 8).any (fun f => rooks.isSet (fromCoords f rank))
      = (List.range 8).any (fun f => decide (f > file) && rooks.isSet (fromCoords f rank)) := by
    rw [Bool.eq_iff_iff]
    simp only [T.range, List.any_eq_true, List.mem_range'_1, List.mem_range, Bool.and_eq_true, decide_eq_true_eq]
    constructor
    · rintro ⟨f, hf1, hf2⟩; exact ⟨f, by omega, by omega, hf2⟩
    · rintro ⟨f, hf1, hf2, hf3⟩; exact ⟨f, by omega, hf3⟩
  have hq : (List.range file).any (fun f => rooks.isSet (fromCoords f rank))
      = (List.range 8).any (fun f => decide (f < file) && rooks.isSet (fromCoords f rank)) := by
    rw [Bool.eq_iff_iff]
    simp only [List.any_eq_true, List.mem_range, Bool.and_eq_true, decide_eq_true_eq]
    constructor
    · rintro ⟨f, hf1, hf2⟩; exact ⟨f, by omega, hf1, hf2⟩
    · rintro ⟨f, hf1, hf2, hf3⟩; exact ⟨f, hf2, hf3⟩
  unfold R.get_fen_letter castleLetterOut
  cases ks
  · simp only [Bool.false_eq_true, if_false, hq, hb]
    generalize ((List.range 8).any fun f => decide (f < file) && rooks.isSet (fromCoords f rank)) = b
    cases b <;> simp
  · simp only [if_true, ha, hb, bind, Option.bind_some, hk]
    generalize ((List.range 8).any fun f => decide (f > file) && rooks.isSet (fromCoords f rank)) = b
    cases b <;> simp

/-- What `get_fen` needs in order not to panic (in `Square::fmt`, which indexes an 8-element table with `sq / 8`, and
in `b'a' + file`): an on-board en-passant square and on-board castle files for the rights that are set.  Every
position accepted by `validate` satisfies it.  The model's `getFen` is total, so the agreement is stated under this
hypothesis. -/
def FenPrintable (p : Position) : Prop :=
  (∀ e, p.ep = some e → e < 64) ∧ (p.usK = true → p.cf0 < 8) ∧ (p.usQ = true → p.cf1 < 8) ∧
  (p.themK = true → p.cf2 < 8) ∧ (p.themQ = true → p.cf3 < 8)

theorem FenPrintable.flip {p : Position} (h : FenPrintable p) : FenPrintable p.flip := by
  obtain ⟨he, h0, h1, h2, h3⟩ := h
  refine ⟨?_, h2, h3, h0, h1⟩
  intro e hep
  simp only [Position.flip, Option.map_eq_some_iff] at hep
  obtain ⟨a, ha, rfl⟩ := hep
  exact flipSq_lt (he a ha)

theorem agree_get_fen (ar : Arith) (p : Position) (h : FenPrintable p) : R.get_fen ar p = getFen p := by
  have hP : FenPrintable (if p.black then p.flip else p) := by
    split
    · exact h.flip
    · exact h
  unfold R.get_fen getFen
  have e8 : 8 - 1 = 7 := rfl
  cases hb : p.black <;>
    simp only [hb, Bool.not_false, Bool.not_true, if_true, Bool.false_eq_true, if_false, agree_flip, bind, pure,
      Option.bind_some, get_fen_loop2_eq, e8] at hP ⊢
  · obtain ⟨he, h0, h1, h2, h3⟩ := hP
    cases getFen.ranks p 8 7 [] with
    | none => rfl
    | some board =>
      simp only [Option.bind_some]
      cases hep : p.ep with
      | none =>
        cases hk0 : p.usK <;> cases hk1 : p.usQ <;> cases hk2 : p.themK <;> cases hk3 : p.themQ <;>
          simp [hk0, hk1, hk2, hk3, get_fen_letter_eq, h0, h1, h2, h3, R.get_us, R.get_them, R.get_rooks]
      | some e =>
        have := he e hep
        cases hk0 : p.usK <;> cases hk1 : p.usQ <;> cases hk2 : p.themK <;> cases hk3 : p.themQ <;>
          simp [hk0, hk1, hk2, hk3, get_fen_letter_eq, h0, h1, h2, h3, R.get_us, R.get_them, R.get_rooks,
            agree_square_fmt, this]
  · generalize p.flip = np at hP ⊢
    obtain ⟨he, h0, h1, h2, h3⟩ := hP
    cases getFen.ranks np 8 7 [] with
    | none => rfl
    | some board =>
      simp only [Option.bind_some]
      cases hep : np.ep with
      | none =>
        cases hk0 : np.usK <;> cases hk1 : np.usQ <;> cases hk2 : np.themK <;> cases hk3 : np.themQ <;>
          simp [hk0, hk1, hk2, hk3, get_fen_letter_eq, h0, h1, h2, h3, R.get_us, R.get_them, R.get_rooks]
      | some e =>
        have := he e hep
        cases hk0 : np.usK <;> cases hk1 : np.usQ <;> cases hk2 : np.themK <;> cases hk3 : np.themQ <;>
          simp [hk0, hk1, hk2, hk3, get_fen_letter_eq, h0, h1, h2, h3, R.get_us, R.get_them, R.get_rooks,
            agree_square_fmt, this]

example : FenPrintable Gen.startpos := by
  refine ⟨?_, ?_, ?_, ?_, ?_⟩
  · intro e h; cases h
  all_goals decide
example : R.get_fen .trap Gen.startpos = some startFen := by decide
end Rawr

#print axioms Rawr.agree_get_fen
