import Rawr.Proofs.RustTextAgree_SetFen
import Rawr.Proofs.RustImpAgree_MakeMove
import Rawr.Proofs.RustImpAgree_MoveGen
import Rawr.Proofs.FenStaged
import Rawr.Proofs.UciMoves
/-!
# uci/moves.rs, uci/position.rs regenerated from the Rust source agree with the model (`applyToken`, `applyTokens`,
`doPosition` of Rawr/Model/Uci.lean)
-/
set_option linter.unusedSimpArgs false
namespace Rawr
open Position

/-- every legal move of `p` is between on-board squares (true for every valid position: `gen_shape_valid`).
`Mv::to_uci` panics in `Square::fmt` otherwise, the model's `toUciChars` is total. -/
def MovesOnBoard (p : Position) : Prop := ∀ m ∈ legalMoves p, m.src < 64 ∧ m.dst < 64

theorem findM_to_uci (pos : Position) (t : List Char) :
    ∀ l : List Mv, (∀ m ∈ l, m.src < 64 ∧ m.dst < 64) →
      l.findM? (fun x => do let u ← R.to_uci x pos; pure (u == t)) = some (l.find? fun m => toUciChars pos m == t) := by
  intro l
  induction l with
  | nil => intro _; rfl
  | cons a l ih =>
    intro h
    have ha := h a (by simp)
    have ih' := ih (fun m hm => h m (by simp [hm]))
    simp only [List.findM?, agree_to_uci a pos ha.1 ha.2, bind, pure, Option.bind_some, List.find?_cons]
    cases toUciChars pos a == t
    · simpa using ih'
    · rfl

theorem moves_castling_eq (pos : Position) (w : Bool) (file : Nat) :
    R.moves_castling pos (legalMoves pos) w file =
      (let mv : Mv := ⟨4, fromCoords file 0, 6⟩
       if w == !pos.black && pos.c0.isSet mv.dst && (legalMoves pos).contains mv then some mv else none) := rfl

/-- one token of `moves` (uci/moves.rs) is the model's `applyToken`; the Rust history vector grows at the end, the
model's list at the front. -/
theorem moves_loop1_step_eq (t : List Char) (pos : Position) (hist : List BB) (out : List String)
    (hB : MovesOnBoard pos) :
    R.moves_loop1_step t pos hist out =
      (applyToken pos hist.reverse t).map fun r => ForInStep.yield (r.1, r.2.1.reverse, out ++ r.2.2) := by
  unfold R.moves_loop1_step applyToken
  simp only [agree_legal_moves, agree_makemove]
  rw [findM_to_uci pos t _ hB]
  simp only [moves_castling_eq, bind, pure, Option.bind_some]
  have e1 : str "e1g1" = ['e', '1', 'g', '1'] := by decide
  have e2 : str "e1c1" = ['e', '1', 'c', '1'] := by decide
  have e3 : str "e8g8" = ['e', '8', 'g', '8'] := by decide
  have e4 : str "e8c8" = ['e', '8', 'c', '8'] := by decide
  simp only [e1, e2, e3, e4]
  cases hf : (legalMoves pos).find? (fun m => toUciChars pos m == t) with
  | some m =>
    simp only []
    cases pos.makemove m true <;> simp
  | none =>
    simp only []
    have key : ∀ o : Option Mv,
        (match o with
          | some found => (pos.makemove found true).bind fun r => some (ForInStep.yield (r, hist ++ [r.hash], out))
          | _ => some (ForInStep.yield (pos, hist, out ++ ["info string unknown move " ++ String.ofList t]))) =
        Option.map (fun r => ForInStep.yield (r.fst, r.snd.fst.reverse, out ++ r.snd.snd))
          (match o with
            | none => some (pos, hist.reverse, ["info string unknown move " ++ String.ofList t])
            | some m => match pos.makemove m true with
              | none => none
              | some np => some (np, np.hash :: hist.reverse, [])) := by
      intro o
      cases o with
      | none => simp
      | some m => cases h : pos.makemove m true <;> simp [h]
    by_cases h1 : (t == ['e', '1', 'g', '1']) = true
    · simp only [h1, if_true]; exact key _
    · simp only [h1, Bool.false_eq_true, if_false]
      by_cases h2 : (t == ['e', '1', 'c', '1']) = true
      · simp only [h2, if_true]; exact key _
      · simp only [h2, Bool.false_eq_true, if_false]
        by_cases h3 : (t == ['e', '8', 'g', '8']) = true
        · simp only [h3, if_true]; exact key _
        · simp only [h3, Bool.false_eq_true, if_false]
          by_cases h4 : (t == ['e', '8', 'c', '8']) = true
          · simp only [h4, if_true]; exact key _
          · simp only [h4, Bool.false_eq_true, if_false]; exact key none

/-- the position after a token is the old one or the result of a legal move. -/
theorem applyToken_pos (pos : Position) (hist : List BB) (t : List Char) (r : Position × List BB × List String)
    (h : applyToken pos hist t = some r) :
    r.1 = pos ∨ ∃ m ∈ legalMoves pos, pos.makemove m true = some r.1 := by
  have cast : ∀ (ws : Bool) (file : Nat) (m : Mv),
      (if (ws == !pos.black && pos.c0.isSet (fromCoords file 0) &&
            (legalMoves pos).contains (⟨4, fromCoords file 0, 6⟩ : Mv)) = true
        then some (⟨4, fromCoords file 0, 6⟩ : Mv) else none) = some m → m ∈ legalMoves pos := by
    intro ws file m hm
    split at hm
    · rename_i hc
      injection hm with hm
      rw [← hm]
      simp only [Bool.and_eq_true, List.contains_iff_mem] at hc
      exact hc.2
    · cases hm
  unfold applyToken at h
  simp only [] at h
  split at h
  · injection h with h; left; rw [← h]
  · rename_i m hm
    right
    have hmem : m ∈ legalMoves pos := by
      split at hm
      · rename_i m' hf
        injection hm with hm; rw [← hm]; exact List.mem_of_find?_eq_some hf
      · split at hm
        · exact cast _ _ _ hm
        · split at hm
          · exact cast _ _ _ hm
          · split at hm
            · exact cast _ _ _ hm
            · split at hm
              · exact cast _ _ _ hm
              · cases hm
    split at h
    · cases h
    · rename_i np hk
      injection h with h
      exact ⟨m, hmem, by rw [← h]; exact hk⟩

/-- the loop of `moves` against `applyTokens`, for a family `G n` of invariants indexed by the number of tokens still to
be applied (`G (n+1) p` gives `G n` of the position after a legal move and of `p` itself). -/
theorem moves_loop1_ix (G : Nat → Position → Prop) (hI : ∀ n p, G (n + 1) p → MovesOnBoard p)
    (hM : ∀ n p, G (n + 1) p → G n p)
    (hS : ∀ n p m np, G (n + 1) p → m ∈ legalMoves p → p.makemove m true = some np → G n np) :
    ∀ (toks : List (List Char)) (pos : Position) (hist : List BB) (out : List String), G toks.length pos →
      R.moves_loop1 toks pos hist out =
        (applyTokens toks pos hist.reverse out).map fun r => (r.1, r.2.1.reverse, r.2.2) := by
  intro toks
  induction toks with
  | nil => intro pos hist out _; simp [R.moves_loop1, applyTokens]
  | cons t ts ih =>
    intro pos hist out hinv
    unfold applyTokens
    simp only [R.moves_loop1, List.forIn_cons] at ih ⊢
    rw [moves_loop1_step_eq t pos hist out (hI _ pos hinv)]
    cases ha : applyToken pos hist.reverse t with
    | none => rfl
    | some r =>
      obtain ⟨p', h', o⟩ := r
      have hinv' : G ts.length p' := by
        rcases applyToken_pos pos hist.reverse t _ ha with h | ⟨m, hm, hmk⟩
        · simp only at h; rw [h]; exact hM _ _ hinv
        · exact hS _ pos m p' hinv hm hmk
      simp only [Option.map_some, bind, Option.bind_some]
      have := ih p' h'.reverse (out ++ o) hinv'
      rw [List.reverse_reverse] at this
      exact this

/-- **`uci::moves::moves`** for an indexed family of invariants (see `moves_loop1_ix`). -/
theorem agree_moves_ix (G : Nat → Position → Prop) (hI : ∀ n p, G (n + 1) p → MovesOnBoard p)
    (hM : ∀ n p, G (n + 1) p → G n p)
    (hS : ∀ n p m np, G (n + 1) p → m ∈ legalMoves p → p.makemove m true = some np → G n np)
    (toks : List (List Char)) (pos : Position) (hist : List BB) (hinv : G toks.length pos) :
    R.moves toks pos hist =
      (applyTokens toks pos hist.reverse []).map fun r => (([] : List (List Char)), r.1, r.2.1.reverse, r.2.2) := by
  unfold R.moves
  simp only [moves_loop1_ix G hI hM hS toks pos hist [] hinv, bind, pure]
  cases applyTokens toks pos hist.reverse [] <;> rfl

/-- **`uci::moves::moves`** (applying the tokens of `position .. moves ..` / `moves ..`), for every invariant of
positions that makes the legal moves on-board and is preserved by legal moves. -/
theorem agree_moves (Inv : Position → Prop) (hI : ∀ p, Inv p → MovesOnBoard p)
    (hS : ∀ p m np, Inv p → m ∈ legalMoves p → p.makemove m true = some np → Inv np)
    (toks : List (List Char)) (pos : Position) (hist : List BB) (hinv : Inv pos) :
    R.moves toks pos hist =
      (applyTokens toks pos hist.reverse []).map fun r => (([] : List (List Char)), r.1, r.2.1.reverse, r.2.2) :=
  agree_moves_ix (fun _ => Inv) (fun _ => hI) (fun _ _ h => h) (fun _ => hS) toks pos hist hinv

/-! ## uci/position.rs -/
theorem fenBoard_frc (ar : Arith) (cs : List Char) : ∀ (p : Position) (idx : Nat) (r : Position × Nat),
    fenBoard ar cs p idx = some r → r.1.frc = p.frc := by
  induction cs with
  | nil => intro p idx r h; simp [fenBoard] at h; rw [← h]
  | cons c cs ih =>
    intro p idx r h
    unfold fenBoard at h
    simp only [bind, Option.bind_eq_some_iff] at h
    obtain ⟨r7, _, r8, _, sq, _, bb, _, h⟩ := h
    cases hb : boardTok c with
    | none => simp [hb] at h
    | some t =>
      cases t with
      | piece black pc =>
        simp only [hb, Option.bind_eq_some_iff] at h
        obtain ⟨i, _, h⟩ := h
        rw [ih _ _ _ h]
        cases black <;> simp only [setPiece] <;> split <;> rfl
      | skip k =>
        simp only [hb, Option.bind_eq_some_iff] at h
        obtain ⟨i, _, h⟩ := h
        exact ih _ _ _ h
      | slash => simp only [hb] at h; exact ih _ _ _ h

theorem fenCastling_frc : ∀ (cs seen : List Char) (p q : Position), fenCastling cs seen p = some q → q.frc = p.frc := by
  intro cs
  induction cs with
  | nil => intro seen p q h; simp [fenCastling] at h; rw [← h]
  | cons c cs ih =>
    intro seen p q h
    unfold fenCastling at h
    split at h
    · cases h
    · split at h
      · cases h
      · injection h with h; rw [← h]
      · rename_i black file ks _
        rw [ih _ _ _ h]
        cases black <;> cases ks <;> rfl

theorem setFenCore_frc (ar : Arith) (frc : Bool) (fen : List Char) (p : Position)
    (h : setFenCore ar frc fen = some p) : p.frc = frc := by
  rw [setFenCore_eq_staged] at h
  unfold setFenStaged at h
  simp only [Option.bind_eq_some_iff] at h
  obtain ⟨r, hb, h⟩ := h
  have f1 : r.1.frc = frc := fenBoard_frc ar _ _ 0 _ hb
  split at h
  · cases h
  · simp only [Option.bind_eq_some_iff] at h
    obtain ⟨_, _, flip, _, h⟩ := h
    split at h
    · cases h
    · simp only [Option.bind_eq_some_iff] at h
      obtain ⟨pc, hc, _, _, ep, _, _, _, hm, _, h⟩ := h
      have f2 : pc.frc = frc := by
        unfold fenCastlePart at hc
        split at hc
        · injection hc with hc; rw [← hc, f1]
        · rw [fenCastling_frc _ _ _ _ hc, f1]
      split at h
      · cases h
      · simp only [Option.bind_eq_some_iff] at h
        obtain ⟨_, _, fm, _, h⟩ := h
        split at h
        · cases h
        · split at h
          · cases h
          · unfold fenFinish at h
            cases flip <;> simp only [Bool.false_eq_true, if_false, if_true] at h <;>
              (split at h
               · injection h with h; rw [← h]; simp [Position.flip, f2]
               · cases h)

theorem setFen_frc (ar : Arith) (frc : Bool) (fen : List Char) (p : Position)
    (h : setFen ar frc fen = some p) : p.frc = frc := by
  unfold setFen at h
  split at h <;> exact setFenCore_frc ar frc _ p h

theorem setFen_nil (ar : Arith) (frc : Bool) : setFen ar frc [] = none := by
  cases ar <;> cases frc <;> decide

/-- **`uci::position::position`** against the model's `doPosition` (which also contains the `pos.is_frc = is_frc` of the
caller in listen.rs), for a family `G n` of invariants as in `agree_moves_ix` that holds, with the number of move
tokens, of the position `set_fen` accepts. -/
theorem agree_position (G : Nat → Position → Prop) (hI : ∀ n p, G (n + 1) p → MovesOnBoard p)
    (hM : ∀ n p, G (n + 1) p → G n p)
    (hS : ∀ n p m np, G (n + 1) p → m ∈ legalMoves p → p.makemove m true = some np → G n np)
    (ar : Arith) (n : Nat) (s : UState) (hist0 : List BB) (toks : List (List Char))
    (hfen : ∀ p, setFen ar s.pos.frc (positionArgs toks).1 = some p → G (positionArgs toks).2.length p) :
    (R.position (n + 2) ar toks s.pos hist0).map
        (fun r => (({ s with pos := { r.2.1 with frc := s.frc }, hist := r.2.2.1.reverse } : UState), r.2.2.2))
      = doPosition ar s toks := by
  rw [doPosition_eq]
  -- the common tail: set_fen on the trimmed string, then the moves
  have tail : ∀ (fen : List Char) (rest : List (List Char)),
      (∀ p, setFen ar s.pos.frc (rustTrim fen) = some p → G rest.length p) →
      ((R.set_fen (n + 2) ar s.pos (rustTrim fen)).bind fun r =>
        (R.moves rest r ([] ++ [r.hash])).bind fun r2 => some (r2.1, r2.2.1, r2.2.2.1, ([] : List String) ++ r2.2.2.2)).map
        (fun r => (({ s with pos := { r.2.1 with frc := s.frc }, hist := r.2.2.1.reverse } : UState), r.2.2.2))
      = (match setFen ar s.pos.frc (rustTrim fen) with
          | none => none
          | some p =>
            match applyTokens rest { p with frc := s.pos.frc } [p.hash] [] with
            | none => none
            | some (p, hist, out) => some ({ s with pos := { p with frc := s.frc }, hist := hist }, out)) := by
    intro fen rest hf
    rw [agree_set_fen]
    cases hsf : setFen ar s.pos.frc (rustTrim fen) with
    | none => rfl
    | some p =>
      have hfr : p.frc = s.pos.frc := setFen_frc ar _ _ p hsf
      have hp : ({ p with frc := s.pos.frc } : Position) = p := by rw [← hfr]
      simp only [Option.bind_some, hp]
      rw [agree_moves_ix G hI hM hS rest p _ (hf p hsf)]
      simp only [List.nil_append, List.reverse_cons, List.reverse_nil]
      cases applyTokens rest p [p.hash] [] with
      | none => rfl
      | some r => obtain ⟨p', h', o⟩ := r; simp
  unfold R.position
  unfold positionArgs at hfen ⊢
  have e1 : str "startpos" = ['s', 't', 'a', 'r', 't', 'p', 'o', 's'] := by decide
  have e2 : str "fen" = ['f', 'e', 'n'] := by decide
  have e3 : str "moves" = ['m', 'o', 'v', 'e', 's'] := by decide
  simp only [e1, e2, e3, bind, pure] at hfen ⊢
  simp only [] at tail
  cases toks with
  | nil =>
    have hn1 : ((none : Option (List Char)) == some ['s', 't', 'a', 'r', 't', 'p', 'o', 's']) = false := rfl
    have hn2 : ((none : Option (List Char)) == some ['f', 'e', 'n']) = false := rfl
    simp only [List.head?_nil, List.tail_nil, hn1, hn2, Bool.false_eq_true, if_false, Option.bind_some]
    exact tail [] [] hfen
  | cons t rest =>
    simp only [List.head?_cons, List.tail_cons] at hfen ⊢
    by_cases h1 : t = ['s', 't', 'a', 'r', 't', 'p', 'o', 's']
    · have c1 : (some t == some ['s', 't', 'a', 'r', 't', 'p', 'o', 's']) = true := by rw [h1]; rfl
      have c1' : (t == ['s', 't', 'a', 'r', 't', 'p', 'o', 's']) = true := by rw [h1]; rfl
      simp only [c1, c1', if_true, Option.bind_some, ← List.drop_one] at hfen ⊢
      have := tail ['s', 't', 'a', 'r', 't', 'p', 'o', 's'] (rest.drop 1) hfen
      set_option maxRecDepth 4000 in exact this
    · have c1 : (some t == some ['s', 't', 'a', 'r', 't', 'p', 'o', 's']) = false := by simpa using h1
      have c1' : (t == ['s', 't', 'a', 'r', 't', 'p', 'o', 's']) = false := by simpa using h1
      simp only [c1, c1', Bool.false_eq_true, if_false] at hfen ⊢
      by_cases h2 : t = ['f', 'e', 'n']
      · have c2 : (some t == some ['f', 'e', 'n']) = true := by rw [h2]; rfl
        have c2' : (t == ['f', 'e', 'n']) = true := by rw [h2]; rfl
        simp only [c2, c2', if_true, Option.bind_some] at hfen ⊢
        exact tail _ _ hfen
      · have c2 : (some t == some ['f', 'e', 'n']) = false := by simpa using h2
        have c2' : (t == ['f', 'e', 'n']) = false := by simpa using h2
        simp only [c2, c2', Bool.false_eq_true, if_false, Option.bind_some, agree_set_fen]
        have ht : rustTrim [] = [] := rfl
        simp only [ht, setFen_nil, Option.bind_none, Option.map_none]

/-! non-vacuity: the regenerated functions compute -/
example : ((R.moves ["e2e4".toList, "zzzz".toList] Gen.startpos [Gen.startpos.hash]).map fun r => (r.2.2.1.length, r.2.2.2))
    = some (2, ["info string unknown move zzzz"]) := by decide +kernel
example : ((R.position 2 .trap ["startpos".toList, "moves".toList, "e2e4".toList] Gen.startpos []).map
    fun r => (r.2.1.black, r.2.2.1.length)) = some (true, 2) := by decide +kernel
end Rawr

#print axioms Rawr.agree_moves
#print axioms Rawr.agree_position
