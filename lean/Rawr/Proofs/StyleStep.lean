import Rawr.Proofs.StyleLists
import Rawr.Proofs.StyleWF
import Mathlib.Tactic.SplitIfs
/-!
# One iteration of the move loop of `analyse_game`

Explicit forms of the small update functions, and `step_spec`: from a state satisfying the
per-move invariant `StepInv`, an iteration cannot raise (for `ply < 1024`), re-establishes `StepInv`,
leaves the per-game fields alone and changes the early pawn-push table exactly by the push it sees.
-/
namespace Rawr.Style

theorem squareFile_lt (s : Square) : squareFile s < 8 := by unfold squareFile; omega
theorem squareRank_lt (s : Square) : squareRank s < 8 := by unfold squareRank; omega

theorem absDiff_lt {a b n : Nat} (ha : a < n) (hb : b < n) : absDiff a b < n := by
  unfold absDiff; omega

theorem squareDistance_lt (a b : Square) : squareDistance a b < 8 := by
  unfold squareDistance
  have h1 := absDiff_lt (squareFile_lt a) (squareFile_lt b)
  have h2 := absDiff_lt (squareRank_lt a) (squareRank_lt b)
  exact Nat.max_lt.mpr ⟨h1, h2⟩

theorem relRank_lt (side : Color) (to : Square) : Stats.relRank side to < 8 := by
  unfold Stats.relRank
  have := squareRank_lt to
  split <;> omega

/-! ## explicit forms -/

theorem markImbalance_eq (side : Color) (L : Loop) (p : Ply) :
    ∃ a b c d, markImbalance side L p =
      { L with hasQvRR := a, hasRRvQ := b, hasQv3minor := c, has3minorvQ := d } := by
  unfold markImbalance
  simp only []
  split_ifs <;> exact ⟨_, _, _, _, rfl⟩

theorem markCastleUs_eq (L : Loop) (p : Ply) :
    ∃ ck cq uc, markCastleUs L p =
      { L with stats := { L.stats with castleKing := ck, castleQueen := cq }, usCastled := uc } := by
  unfold markCastleUs
  split
  · exact ⟨_, _, _, rfl⟩
  · split
    · exact ⟨_, _, _, rfl⟩
    · exact ⟨_, _, _, rfl⟩

theorem markThreats_eq (s : Stats) (p : Ply) :
    ∃ a b, a ≤ 1 ∧ b ≤ 1 ∧ markThreats s p =
      { s with numRookThreats := s.numRookThreats + a, numBishopThreats := s.numBishopThreats + b } := by
  unfold markThreats
  refine ⟨if rookThreat p then 1 else 0, if bishopThreat p then 1 else 0, by split <;> omega,
    by split <;> omega, ?_⟩
  simp only []
  split_ifs <;> rfl

theorem addCapture_eq (s : Stats) (ply : Nat) :
    ∃ a b c d, a + b + c + d = 1 ∧ s.addCapture ply =
      { s with totalCaptures := s.totalCaptures + 1, totalMoves := s.totalMoves + 1,
               earlyCaptures := s.earlyCaptures + a, midCaptures := s.midCaptures + b,
               lateCaptures := s.lateCaptures + c, extremeCaptures := s.extremeCaptures + d } := by
  unfold Stats.addCapture
  simp only []
  split
  · exact ⟨1, 0, 0, 0, rfl, rfl⟩
  · split
    · exact ⟨0, 1, 0, 0, rfl, rfl⟩
    · split
      · exact ⟨0, 0, 1, 0, rfl, rfl⟩
      · exact ⟨0, 0, 0, 1, rfl, rfl⟩

theorem markMoveType_eq (s : Stats) (ply : Nat) (p : Ply)
    (h1 : s.captureDistance.length = 8) (h2 : s.noncaptureDistance.length = 8) :
    ∃ (k a b c d : Nat) (cd ncd : List Nat), k ≤ 1 ∧ a + b + c + d = k ∧ cd.length = 8 ∧ ncd.length = 8 ∧
      cd.sum = s.captureDistance.sum + k ∧ ncd.sum = s.noncaptureDistance.sum + (1 - k) ∧
      markMoveType s ply p = .ok
        { s with totalCaptures := s.totalCaptures + k, totalNoncaptures := s.totalNoncaptures + (1 - k),
                 totalMoves := s.totalMoves + 1,
                 earlyCaptures := s.earlyCaptures + a, midCaptures := s.midCaptures + b,
                 lateCaptures := s.lateCaptures + c, extremeCaptures := s.extremeCaptures + d,
                 captureDistance := cd, noncaptureDistance := ncd } := by
  have hd := squareDistance_lt p.to p.enemyKing
  unfold markMoveType
  by_cases hc : p.isCapture = true
  · obtain ⟨a, b, c, d, habcd, he⟩ := addCapture_eq s ply
    have hl : squareDistance p.to p.enemyKing < (s.addCapture ply).captureDistance.length := by
      rw [he]; simpa [h1] using hd
    refine ⟨1, a, b, c, d, bump s.captureDistance (squareDistance p.to p.enemyKing), s.noncaptureDistance,
      by omega, habcd, by simp [h1], h2, sum_bump _ _ (by omega), by simp, ?_⟩
    simp only [hc, if_true, incAt_ok hl, Except.map]
    rw [he]
    rfl
  · have hl : squareDistance p.to p.enemyKing < (s.addNoncapture).noncaptureDistance.length := by
      simpa [Stats.addNoncapture, h2] using hd
    refine ⟨0, 0, 0, 0, 0, s.captureDistance, bump s.noncaptureDistance (squareDistance p.to p.enemyKing),
      by omega, rfl, h1, by simp [h2], by simp, sum_bump _ _ (by omega), ?_⟩
    simp only [hc, if_false, incAt_ok hl, Except.map, Bool.false_eq_true]
    rfl

/-- how `add_pawn_push` changes the three push tables. -/
def PushShape (s : Stats) (ply r : Nat) (e m l : List Nat) : Prop :=
  (ply < 40 ∧ e = bump s.earlyPawnPushes r ∧ m = s.midPawnPushes ∧ l = s.latePawnPushes) ∨
  (¬ ply < 40 ∧ e = s.earlyPawnPushes ∧
    ((m = bump s.midPawnPushes r ∧ l = s.latePawnPushes) ∨ (m = s.midPawnPushes ∧ l = bump s.latePawnPushes r)))

theorem addPawnPush_eq (s : Stats) (ply : Nat) (to : Square) (side : Color) (ek : Square)
    (hE : s.earlyPawnPushes.length = 8) (hM : s.midPawnPushes.length = 8) (hL : s.latePawnPushes.length = 8) :
    ∃ (e m l : List Nat) (t : Nat), t ≤ 1 ∧ PushShape s ply (Stats.relRank side to) e m l ∧
      s.addPawnPush ply to side ek = .ok
        { s with totalPawnPushes := s.totalPawnPushes + 1, earlyPawnPushes := e, midPawnPushes := m,
                 latePawnPushes := l,
                 totalPawnPushesTowardsKing := s.totalPawnPushesTowardsKing + t } := by
  have hr := relRank_lt side to
  have hE' : Stats.relRank side to < s.earlyPawnPushes.length := by omega
  have hM' : Stats.relRank side to < s.midPawnPushes.length := by omega
  have hL' : Stats.relRank side to < s.latePawnPushes.length := by omega
  unfold Stats.addPawnPush
  by_cases h40 : ply < 40
  · by_cases ht : absDiff (squareFile to) (squareFile ek) ≤ 1
    · refine ⟨_, _, _, 1, by omega, Or.inl ⟨h40, rfl, rfl, rfl⟩, ?_⟩
      simp [h40, ht, incAt_ok hE', Except.map, bind, Except.bind, pure, Except.pure]
    · refine ⟨_, _, _, 0, by omega, Or.inl ⟨h40, rfl, rfl, rfl⟩, ?_⟩
      simp [h40, ht, incAt_ok hE', Except.map, bind, Except.bind, pure, Except.pure]
  · by_cases h60 : ply < 60
    · by_cases ht : absDiff (squareFile to) (squareFile ek) ≤ 1
      · refine ⟨_, _, _, 1, by omega, Or.inr ⟨h40, rfl, Or.inl ⟨rfl, rfl⟩⟩, ?_⟩
        simp [h40, h60, ht, incAt_ok hM', Except.map, bind, Except.bind, pure, Except.pure]
      · refine ⟨_, _, _, 0, by omega, Or.inr ⟨h40, rfl, Or.inl ⟨rfl, rfl⟩⟩, ?_⟩
        simp [h40, h60, ht, incAt_ok hM', Except.map, bind, Except.bind, pure, Except.pure]
    · by_cases ht : absDiff (squareFile to) (squareFile ek) ≤ 1
      · refine ⟨_, _, _, 1, by omega, Or.inr ⟨h40, rfl, Or.inr ⟨rfl, rfl⟩⟩, ?_⟩
        simp [h40, h60, ht, incAt_ok hL', Except.map, bind, Except.bind, pure, Except.pure]
      · refine ⟨_, _, _, 0, by omega, Or.inr ⟨h40, rfl, Or.inr ⟨rfl, rfl⟩⟩, ?_⟩
        simp [h40, h60, ht, incAt_ok hL', Except.map, bind, Except.bind, pure, Except.pure]

theorem queensOff_eq (s : Stats) (ply : Nat) (h : s.noQueens.length = 1024) (hp : ply < 1024) :
    ∃ nq tt et mt lt, nq.length = 1024 ∧ s.queensOff ply = .ok
      { s with noQueens := nq, totalTrades := tt, earlyTrades := et, midTrades := mt, lateTrades := lt } := by
  have hl : ply < s.noQueens.length := by omega
  unfold Stats.queensOff
  by_cases h40 : ply < 40
  · refine ⟨bump s.noQueens ply, s.totalTrades + 1, s.earlyTrades + 1, s.midTrades, s.lateTrades,
      by simp [h], ?_⟩
    simp only [h40, incAt_ok hl, bind, Except.bind, pure, Except.pure, if_true]
  · by_cases h60 : ply < 60
    · refine ⟨bump s.noQueens ply, s.totalTrades + 1, s.earlyTrades, s.midTrades + 1, s.lateTrades,
        by simp [h], ?_⟩
      simp only [h40, h60, incAt_ok hl, bind, Except.bind, pure, Except.pure, if_true, if_false]
    · refine ⟨bump s.noQueens ply, s.totalTrades + 1, s.earlyTrades, s.midTrades, s.lateTrades + 1,
        by simp [h], ?_⟩
      simp only [h40, h60, incAt_ok hl, bind, Except.bind, pure, Except.pure, if_false]

theorem markQueens_eq (L : Loop) (p : Ply) (h : L.stats.noQueens.length = 1024) (hp : L.ply < 1024) :
    ∃ nq tt et mt lt qg, nq.length = 1024 ∧ markQueens L p = .ok
      { L with stats := { L.stats with noQueens := nq, totalTrades := tt, earlyTrades := et, midTrades := mt,
                                       lateTrades := lt },
               queensGone := qg } := by
  unfold markQueens
  split
  · obtain ⟨nq, tt, et, mt, lt, hnq, he⟩ := queensOff_eq L.stats L.ply h hp
    exact ⟨nq, tt, et, mt, lt, true, hnq, by rw [he]⟩
  · exact ⟨_, _, _, _, _, _, h, rfl⟩

theorem markCheck_eq (side : Color) (s : Stats) (p : Ply) :
    ∃ a b, (a + b = if p.turn = side then 1 else 0) ∧
      markCheck side s p = { s with checks := s.checks + a, nonchecks := s.nonchecks + b } := by
  unfold markCheck
  by_cases ht : p.turn = side
  · have : ((!p.turn) != side) = true := by subst ht; cases p.turn <;> rfl
    by_cases hc : p.checkAfter = true
    · exact ⟨1, 0, by simp [ht], by simp only [this, hc, if_true]; rfl⟩
    · exact ⟨0, 1, by simp [ht], by simp only [this, hc, if_true, if_false, Bool.false_eq_true]; rfl⟩
  · have : ((!p.turn) != side) = false := by
      cases hp : p.turn <;> cases hs : side <;> simp_all
    exact ⟨0, 0, by simp [ht], by simp only [this, if_false, Bool.false_eq_true]; rfl⟩

theorem stepThem_eq (L : Loop) (p : Ply) : ∃ tc, stepThem L p = { L with themCastled := tc } := by
  unfold stepThem
  split_ifs <;> exact ⟨_, rfl⟩

theorem ok_name {α ε : Type} {x : Except ε α} {y : α} (h : x = .ok y) : ∃ z, z = y ∧ x = .ok z :=
  ⟨y, rfl, h⟩

theorem markPawn_eq (s : Stats) (ply : Nat) (p : Ply)
    (hE : s.earlyPawnPushes.length = 8) (hM : s.midPawnPushes.length = 8) (hL : s.latePawnPushes.length = 8) :
    ∃ (pk : Nat) (e m l : List Nat) (t : Nat), t ≤ pk ∧ pk ≤ 1 ∧ (pk = 1 ↔ p.piece = PAWN) ∧
      (pk = 0 → e = s.earlyPawnPushes ∧ m = s.midPawnPushes ∧ l = s.latePawnPushes) ∧
      (pk = 1 → PushShape s ply (Stats.relRank p.turn p.to) e m l) ∧
      markPawn s ply p = .ok
        { s with totalPawnPushes := s.totalPawnPushes + pk, earlyPawnPushes := e, midPawnPushes := m,
                 latePawnPushes := l,
                 totalPawnPushesTowardsKing := s.totalPawnPushesTowardsKing + t } := by
  unfold markPawn
  by_cases hp : p.piece = PAWN
  · obtain ⟨e, m, l, t, ht, hshape, h5⟩ := addPawnPush_eq s ply p.to p.turn p.enemyKing hE hM hL
    refine ⟨1, e, m, l, t, ht, by omega, by simp [hp], by omega, fun _ => hshape, ?_⟩
    have : (p.piece == PAWN) = true := by simp [hp]
    simp only [this, if_true, h5]
  · refine ⟨0, _, _, _, 0, by omega, by omega, by simp [hp], fun _ => ⟨rfl, rfl, rfl⟩, by omega, ?_⟩
    have : (p.piece == PAWN) = false := by simp [hp]
    simp only [this, Bool.false_eq_true, if_false]
    rfl

/-- flat explicit form of the `if board.turn == side:` branch. -/
theorem stepUs_eq (side : Color) (L : Loop) (p : Ply)
    (hCD : L.stats.captureDistance.length = 8) (hNCD : L.stats.noncaptureDistance.length = 8)
    (hE : L.stats.earlyPawnPushes.length = 8) (hM : L.stats.midPawnPushes.length = 8)
    (hL : L.stats.latePawnPushes.length = 8) :
    ∃ (fa fb fc fd : Bool) (ck cq : Nat) (uc : Castled) (ra rb k a b c d : Nat) (cd ncd : List Nat)
      (pk : Nat) (e m l : List Nat) (t : Nat),
      ra ≤ 1 ∧ rb ≤ 1 ∧ k ≤ 1 ∧ a + b + c + d = k ∧ cd.length = 8 ∧ ncd.length = 8 ∧
      cd.sum = L.stats.captureDistance.sum + k ∧ ncd.sum = L.stats.noncaptureDistance.sum + (1 - k) ∧
      t ≤ pk ∧ pk ≤ 1 ∧ (pk = 1 ↔ p.piece = PAWN) ∧
      (pk = 0 → e = L.stats.earlyPawnPushes ∧ m = L.stats.midPawnPushes ∧ l = L.stats.latePawnPushes) ∧
      (pk = 1 → PushShape L.stats L.ply (Stats.relRank p.turn p.to) e m l) ∧
      stepUs side L p = .ok
        { L with
          stats := { L.stats with
            castleKing := ck, castleQueen := cq,
            numRookThreats := L.stats.numRookThreats + ra, numBishopThreats := L.stats.numBishopThreats + rb,
            totalCaptures := L.stats.totalCaptures + k, totalNoncaptures := L.stats.totalNoncaptures + (1 - k),
            totalMoves := L.stats.totalMoves + 1,
            earlyCaptures := L.stats.earlyCaptures + a, midCaptures := L.stats.midCaptures + b,
            lateCaptures := L.stats.lateCaptures + c, extremeCaptures := L.stats.extremeCaptures + d,
            captureDistance := cd, noncaptureDistance := ncd,
            totalPawnPushes := L.stats.totalPawnPushes + pk,
            earlyPawnPushes := e, midPawnPushes := m, latePawnPushes := l,
            totalPawnPushesTowardsKing := L.stats.totalPawnPushesTowardsKing + t },
          usCastled := uc, hasQvRR := fa, hasRRvQ := fb, hasQv3minor := fc, has3minorvQ := fd } := by
  unfold stepUs
  simp only []
  obtain ⟨fa, fb, fc, fd, h1⟩ := markImbalance_eq side L p
  generalize markImbalance side L p = L1 at h1 ⊢
  obtain ⟨ck, cq, uc, h2⟩ := markCastleUs_eq L1 p
  generalize markCastleUs L1 p = L2 at h2 ⊢
  obtain ⟨ra, rb, hra, hrb, h3⟩ := markThreats_eq L2.stats p
  generalize markThreats L2.stats p = s3 at h3 ⊢
  have e2 : L2.stats.captureDistance = L.stats.captureDistance := by subst h2; subst h1; rfl
  have e2' : L2.stats.noncaptureDistance = L.stats.noncaptureDistance := by subst h2; subst h1; rfl
  have hCD3 : s3.captureDistance.length = 8 := by subst h3; show L2.stats.captureDistance.length = 8; rw [e2, hCD]
  have hNCD3 : s3.noncaptureDistance.length = 8 := by
    subst h3; show L2.stats.noncaptureDistance.length = 8; rw [e2', hNCD]
  obtain ⟨k, a, b, c, d, cd, ncd, hk, habcd, hcd, hncd, hcds, hncds, h4⟩ :=
    markMoveType_eq s3 L2.ply p hCD3 hNCD3
  obtain ⟨s5, hs5, h4'⟩ := ok_name h4
  rw [h4']
  simp only []
  have hE5 : s5.earlyPawnPushes.length = 8 := by subst hs5; subst h3; subst h2; subst h1; exact hE
  have hM5 : s5.midPawnPushes.length = 8 := by subst hs5; subst h3; subst h2; subst h1; exact hM
  have hL5 : s5.latePawnPushes.length = 8 := by subst hs5; subst h3; subst h2; subst h1; exact hL
  obtain ⟨pk, e, m, l, t, htpk, hpk, hiff, h0, h1', h5⟩ := markPawn_eq s5 L2.ply p hE5 hM5 hL5
  rw [h5]
  simp only []
  subst hs5; subst h3; subst h2; subst h1
  exact ⟨fa, fb, fc, fd, ck, cq, uc, ra, rb, k, a, b, c, d, cd, ncd, pk, e, m, l, t, hra, hrb, hk, habcd, hcd,
    hncd, hcds, hncds, htpk, hpk, hiff, h0, h1', rfl⟩

/-! ## the per-move invariant -/

/-- what holds of the statistics between two iterations of the move loop. -/
structure StepInv (s : Stats) : Prop where
  moves : s.totalMoves = s.totalCaptures + s.totalNoncaptures
  chk : s.totalMoves = s.checks + s.nonchecks
  caps : s.totalCaptures = s.earlyCaptures + s.midCaptures + s.lateCaptures + s.extremeCaptures
  capDist : s.captureDistance.sum = s.totalCaptures
  ncapDist : s.noncaptureDistance.sum = s.totalNoncaptures
  lenCD : s.captureDistance.length = 8
  lenNCD : s.noncaptureDistance.length = 8
  lenNQ : s.noQueens.length = 1024
  lenE : s.earlyPawnPushes.length = 8
  lenM : s.midPawnPushes.length = 8
  lenL : s.latePawnPushes.length = 8
  e0 : s.earlyPawnPushes.getD 0 0 = 0
  e1 : s.earlyPawnPushes.getD 1 0 = 0
  m0 : s.midPawnPushes.getD 0 0 = 0
  m1 : s.midPawnPushes.getD 1 0 = 0
  l0 : s.latePawnPushes.getD 0 0 = 0
  l1 : s.latePawnPushes.getD 1 0 = 0
  towards : s.totalPawnPushesTowardsKing ≤ s.totalPawnPushes
  rook : s.numRookThreats ≤ s.totalMoves
  bishop : s.numBishopThreats ≤ s.totalMoves

/-- the fields the move loop never writes. -/
structure Frame (s s' : Stats) : Prop where
  numGames : s'.numGames = s.numGames
  numWins : s'.numWins = s.numWins
  numDraws : s'.numDraws = s.numDraws
  numLosses : s'.numLosses = s.numLosses
  numWinAhead : s'.numWinAhead = s.numWinAhead
  numWinEqual : s'.numWinEqual = s.numWinEqual
  numWinBehind : s'.numWinBehind = s.numWinBehind
  shortGames : s'.shortGames = s.shortGames
  mediumGames : s'.mediumGames = s.mediumGames
  longGames : s'.longGames = s.longGames
  extremeGames : s'.extremeGames = s.extremeGames
  gameLength : s'.gameLength = s.gameLength
  finalMaterial : s'.finalMaterial = s.finalMaterial

theorem Frame.refl (s : Stats) : Frame s s := ⟨rfl, rfl, rfl, rfl, rfl, rfl, rfl, rfl, rfl, rfl, rfl, rfl, rfl⟩
theorem Frame.trans {a b c : Stats} (h1 : Frame a b) (h2 : Frame b c) : Frame a c :=
  ⟨h2.1.trans h1.1, h2.2.trans h1.2, h2.3.trans h1.3, h2.4.trans h1.4, h2.5.trans h1.5, h2.6.trans h1.6,
   h2.7.trans h1.7, h2.8.trans h1.8, h2.9.trans h1.9, h2.10.trans h1.10, h2.11.trans h1.11,
   h2.12.trans h1.12, h2.13.trans h1.13⟩

theorem getD_shape_early {s : Stats} {ply r : Nat} {e m l : List Nat} (h : PushShape s ply r e m l)
    (hE : s.earlyPawnPushes.length = 8) (hr : r < 8) (j : Nat) :
    e.getD j 0 = s.earlyPawnPushes.getD j 0 + (if ply < 40 ∧ r = j then 1 else 0) := by
  rcases h with ⟨h40, he, _, _⟩ | ⟨h40, he, _⟩
  · subst he
    rw [getD_bump _ _ _ (by omega)]
    by_cases hrj : r = j <;> simp [h40, hrj]
  · subst he
    simp [h40]

theorem getD_shape_mid {s : Stats} {ply r : Nat} {e m l : List Nat} (h : PushShape s ply r e m l)
    (hM : s.midPawnPushes.length = 8) (hr : r < 8) (j : Nat) (hj : j ≠ r) :
    m.getD j 0 = s.midPawnPushes.getD j 0 := by
  rcases h with ⟨_, _, hm, _⟩ | ⟨_, _, ⟨hm, _⟩ | ⟨hm, _⟩⟩
  · rw [hm]
  · subst hm
    rw [getD_bump _ _ _ (by omega)]
    simp [Ne.symm hj]
  · rw [hm]

theorem getD_shape_late {s : Stats} {ply r : Nat} {e m l : List Nat} (h : PushShape s ply r e m l)
    (hL : s.latePawnPushes.length = 8) (hr : r < 8) (j : Nat) (hj : j ≠ r) :
    l.getD j 0 = s.latePawnPushes.getD j 0 := by
  rcases h with ⟨_, _, _, hl⟩ | ⟨_, _, ⟨_, hl⟩ | ⟨_, hl⟩⟩
  · rw [hl]
  · rw [hl]
  · subst hl
    rw [getD_bump _ _ _ (by omega)]
    simp [Ne.symm hj]

theorem length_shape {s : Stats} {ply r : Nat} {e m l : List Nat} (h : PushShape s ply r e m l) :
    e.length = s.earlyPawnPushes.length ∧ m.length = s.midPawnPushes.length ∧
      l.length = s.latePawnPushes.length := by
  rcases h with ⟨_, he, hm, hl⟩ | ⟨_, he, ⟨hm, hl⟩ | ⟨hm, hl⟩⟩ <;> subst he <;> subst hm <;> subst hl <;> simp

theorem sum_shape_early {s : Stats} {ply r : Nat} {e m l : List Nat} (h : PushShape s ply r e m l)
    (hE : s.earlyPawnPushes.length = 8) (hr : r < 8) :
    e.sum = s.earlyPawnPushes.sum + (if ply < 40 then 1 else 0) := by
  rcases h with ⟨h40, he, _, _⟩ | ⟨h40, he, _⟩
  · subst he
    rw [sum_bump _ _ (by omega)]
    simp [h40]
  · subst he
    simp [h40]

/-- one iteration of the move loop. -/
theorem step_spec (side : Color) (L : Loop) (p : Ply) (hI : StepInv L.stats) (hply : L.ply < 1024)
    (hp : pawnRankOk side p = true) :
    ∃ L', step side L p = .ok L' ∧ L'.ply = L.ply + 1 ∧ StepInv L'.stats ∧ Frame L.stats L'.stats ∧
      (∀ r, L'.stats.earlyPawnPushes.getD r 0 =
              L.stats.earlyPawnPushes.getD r 0 + b2n (isEarlyPush side r L.ply p)) ∧
      L'.stats.earlyPawnPushes.sum ≤ L.stats.earlyPawnPushes.sum + (if L.ply < 40 then 1 else 0) ∧
      L.stats.totalPawnPushes ≤ L'.stats.totalPawnPushes ∧
      L'.stats.totalPawnPushes ≤ L.stats.totalPawnPushes + 1 := by
  obtain ⟨nq, tt, et, mt, lt, qg, hnq, hq⟩ := markQueens_eq L p hI.lenNQ hply
  obtain ⟨Lq, hLq, hq'⟩ := ok_name hq
  unfold step
  rw [hq']
  simp only []
  by_cases ht : p.turn = side
  · have hts : (p.turn == side) = true := by simp [ht]
    simp only [hts, if_true]
    obtain ⟨fa, fb, fc, fd, ck, cq, uc, ra, rb, k, a, b, c, d, cd, ncd, pk, e, m, l, t, hra, hrb, hk, habcd, hcd,
      hncd, hcds, hncds, htpk, hpk, hiff, h0, h1, hu⟩ :=
      stepUs_eq side Lq p (by subst hLq; exact hI.lenCD) (by subst hLq; exact hI.lenNCD)
        (by subst hLq; exact hI.lenE) (by subst hLq; exact hI.lenM) (by subst hLq; exact hI.lenL)
    obtain ⟨Lu, hLu, hu'⟩ := ok_name hu
    rw [hu']
    simp only []
    obtain ⟨ca, cb, hcab, hc⟩ := markCheck_eq side Lu.stats p
    rw [hc]
    have hcab' : ca + cb = 1 := by simpa [ht] using hcab
    have hrank : pk = 1 → 2 ≤ Stats.relRank p.turn p.to := by
      intro h
      have hpawn := hiff.mp h
      simp only [pawnRankOk, ht, hpawn, beq_self_eq_true, Bool.and_self, Bool.not_true, Bool.false_or,
        decide_eq_true_eq] at hp
      rw [ht]; exact hp
    have hrl := relRank_lt p.turn p.to
    -- the shape of the three push tables, relative to the original statistics
    have hshape : pk = 1 → PushShape L.stats L.ply (Stats.relRank p.turn p.to) e m l := by
      intro h; have := h1 h; subst hLq; exact this
    have h0' : pk = 0 → e = L.stats.earlyPawnPushes ∧ m = L.stats.midPawnPushes ∧ l = L.stats.latePawnPushes := by
      intro h; have := h0 h; subst hLq; exact this
    have hcds' : cd.sum = L.stats.captureDistance.sum + k := by subst hLq; exact hcds
    have hncds' : ncd.sum = L.stats.noncaptureDistance.sum + (1 - k) := by subst hLq; exact hncds
    have hpk01 : pk = 0 ∨ pk = 1 := by omega
    have hlen : e.length = 8 ∧ m.length = 8 ∧ l.length = 8 := by
      rcases hpk01 with h | h
      · obtain ⟨he, hm, hl⟩ := h0' h
        rw [he, hm, hl]; exact ⟨hI.lenE, hI.lenM, hI.lenL⟩
      · have := length_shape (hshape h)
        rw [hI.lenE, hI.lenM, hI.lenL] at this; exact this
    have hgetE : ∀ j, e.getD j 0 = L.stats.earlyPawnPushes.getD j 0 +
        (if pk = 1 ∧ L.ply < 40 ∧ Stats.relRank p.turn p.to = j then 1 else 0) := by
      intro j
      rcases hpk01 with h | h
      · rw [(h0' h).1]; simp [h]
      · rw [getD_shape_early (hshape h) hI.lenE hrl j]; simp [h]
    have hgetM : ∀ j, j < 2 → m.getD j 0 = L.stats.midPawnPushes.getD j 0 := by
      intro j hj
      rcases hpk01 with h | h
      · rw [(h0' h).2.1]
      · exact getD_shape_mid (hshape h) hI.lenM hrl j (by have := hrank h; omega)
    have hgetL : ∀ j, j < 2 → l.getD j 0 = L.stats.latePawnPushes.getD j 0 := by
      intro j hj
      rcases hpk01 with h | h
      · rw [(h0' h).2.2]
      · exact getD_shape_late (hshape h) hI.lenL hrl j (by have := hrank h; omega)
    have hsumE : e.sum ≤ L.stats.earlyPawnPushes.sum + (if L.ply < 40 then 1 else 0) := by
      rcases hpk01 with h | h
      · rw [(h0' h).1]; omega
      · rw [sum_shape_early (hshape h) hI.lenE hrl]; omega
    subst hLu
    subst hLq
    refine ⟨_, rfl, rfl, ?_, ?_, ?_, ?_, ?_, ?_⟩
    · have := hI.moves; have := hI.chk; have := hI.caps; have := hI.capDist; have := hI.ncapDist
      have := hI.towards; have := hI.rook; have := hI.bishop
      have g0 := hgetE 0; have g1 := hgetE 1
      have := hI.e0; have := hI.e1
      constructor <;> dsimp only
      · omega
      · omega
      · omega
      · omega
      · omega
      · exact hcd
      · exact hncd
      · exact hnq
      · exact hlen.1
      · exact hlen.2.1
      · exact hlen.2.2
      · rw [g0]; split <;> omega
      · rw [g1]; split <;> omega
      · rw [hgetM 0 (by omega)]; exact hI.m0
      · rw [hgetM 1 (by omega)]; exact hI.m1
      · rw [hgetL 0 (by omega)]; exact hI.l0
      · rw [hgetL 1 (by omega)]; exact hI.l1
      · omega
      · omega
      · omega
    · exact ⟨rfl, rfl, rfl, rfl, rfl, rfl, rfl, rfl, rfl, rfl, rfl, rfl, rfl⟩
    · intro r
      dsimp only
      rw [hgetE r]
      congr 1
      unfold isEarlyPush b2n
      by_cases hpawn : p.piece = PAWN
      · have : pk = 1 := hiff.mpr hpawn
        by_cases h40 : L.ply < 40
        · simp [this, h40, ht, hpawn]
        · simp [this, h40, ht, hpawn]
      · have : pk ≠ 1 := fun h => hpawn (hiff.mp h)
        simp [this, hpawn]
    · exact hsumE
    · dsimp only; omega
    · dsimp only; omega
  · have hts : (p.turn == side) = false := by simp [ht]
    simp only [hts, Bool.false_eq_true, if_false]
    obtain ⟨tc, hth⟩ := stepThem_eq Lq p
    rw [hth]
    simp only []
    obtain ⟨ca, cb, hcab, hc⟩ := markCheck_eq side Lq.stats p
    rw [hc]
    have hcab' : ca = 0 ∧ cb = 0 := by
      have : ca + cb = 0 := by simpa [ht] using hcab
      omega
    obtain ⟨rfl, rfl⟩ := hcab'
    subst hLq
    refine ⟨_, rfl, rfl, ?_, ?_, ?_, ?_, ?_, ?_⟩
    · exact ⟨hI.moves, hI.chk, hI.caps, hI.capDist, hI.ncapDist, hI.lenCD, hI.lenNCD, hnq, hI.lenE, hI.lenM,
        hI.lenL, hI.e0, hI.e1, hI.m0, hI.m1, hI.l0, hI.l1, hI.towards, hI.rook, hI.bishop⟩
    · exact ⟨rfl, rfl, rfl, rfl, rfl, rfl, rfl, rfl, rfl, rfl, rfl, rfl, rfl⟩
    · intro r
      have : isEarlyPush side r L.ply p = false := by simp [isEarlyPush, ht]
      simp [this, b2n]
    · dsimp only; omega
    · exact Nat.le_refl _
    · dsimp only; omega

end Rawr.Style
