import Rawr.Proofs.SpecSanityMirrorB
/-!
# Sanity of the specification, part 1 (c): `Spec.pseudoFrom` is colour symmetric
-/
namespace Rawr.SpecS
open Rawr.Spec Rawr.Att Rawr.SV

theorem perm_flatMap_left {α β : Type} (l : List α) {f g : α → List β}
    (h : ∀ a ∈ l, (f a).Perm (g a)) : (l.flatMap f).Perm (l.flatMap g) := by
  induction l with
  | nil => exact List.Perm.refl _
  | cons x xs ih =>
    simp only [List.flatMap_cons]
    exact (h x (List.mem_cons_self)).append (ih (fun a ha => h a (List.mem_cons_of_mem _ ha)))

/-! ### pieces other than pawns -/

def pieceMoves (b : Board) (s : Nat) (pc : Piece) : List Move :=
  (squares.filter fun t => pieceAttacks b s pc t &&
      (match b t with | some q => q.white != pc.white | none => true)).map
    fun t => Move.normal s t none

theorem pieceMoves_mirror (b : Board) {s : Nat} (hs : s < 64) (pc : Piece) :
    (pieceMoves (mirrorB b) (s ^^^ 56) (flipPiece pc)).Perm ((pieceMoves b s pc).map mirrorMove) := by
  unfold pieceMoves
  rw [List.map_map]
  have e1 : (mirrorMove ∘ fun t => Move.normal s t none) =
      (fun t => Move.normal (s ^^^ 56) t none) ∘ (· ^^^ 56) := by
    funext t; rfl
  rw [e1, ← List.map_map]
  apply List.Perm.map
  -- the targets
  unfold squares
  refine ((x56_perm.filter _).symm).trans ?_
  rw [List.filter_map]
  apply List.Perm.of_eq
  congr 1
  apply List.filter_congr
  intro t ht
  have ht := List.mem_range.mp ht
  simp only [Function.comp]
  rw [pieceAttacks_mirror b s t hs ht pc, mirrorB_x56]
  congr 1
  cases b t with
  | none => rfl
  | some q => simp only [Option.map_some, flip_white]; cases q.white <;> cases pc.white <;> rfl

/-! ### pawns -/

def promoList (last : Int) (s t : Nat) : List Move :=
  if rank t == last then promoKinds.map fun k => Move.normal s t (some k) else [Move.normal s t none]

def pushList (b : Board) (w : Bool) (s : Nat) : List Move :=
  if onBoard (file s) (rank s + pdir w) && (b (sq (file s) (rank s + pdir w))).isNone then
    promoList (plast w) s (sq (file s) (rank s + pdir w)) ++
    (if rank s == pstart w && (b (sq (file s) (rank s + 2 * pdir w))).isNone
     then [Move.normal s (sq (file s) (rank s + 2 * pdir w)) none] else [])
  else []

def capL (b : Board) (ep : Option Nat) (w : Bool) (s : Nat) (df : Int) : List Move :=
  if onBoard (file s + df) (rank s + pdir w) then
    match b (sq (file s + df) (rank s + pdir w)) with
    | some q => if q.white != w then promoList (plast w) s (sq (file s + df) (rank s + pdir w)) else []
    | none => if ep == some (sq (file s + df) (rank s + pdir w))
        then [Move.normal s (sq (file s + df) (rank s + pdir w)) none] else []
  else []

def pawnMoves (b : Board) (ep : Option Nat) (w : Bool) (s : Nat) : List Move :=
  pushList b w s ++ ([-1, 1] : List Int).flatMap (capL b ep w s)

theorem pseudoFrom_pawn (a : APos) (s : Nat) (h : a.board s = some ⟨a.whiteToMove, .pawn⟩) :
    pseudoFrom a s = pawnMoves a.board a.ep a.whiteToMove s := by
  unfold pseudoFrom
  simp only [h, bne_self_eq_false, Bool.false_eq_true, if_false]
  rfl

theorem pseudoFrom_piece (a : APos) (s : Nat) (kd : Kind) (hk : kd ≠ .pawn)
    (h : a.board s = some ⟨a.whiteToMove, kd⟩) :
    pseudoFrom a s = pieceMoves a.board s ⟨a.whiteToMove, kd⟩ := by
  unfold pseudoFrom
  simp only [h, bne_self_eq_false, Bool.false_eq_true, if_false]
  cases kd
  · exact absurd rfl hk
  all_goals rfl

theorem pseudoFrom_none (a : APos) (s : Nat) (h : a.board s = none) : pseudoFrom a s = [] := by
  unfold pseudoFrom; simp only [h]

theorem pseudoFrom_opp (a : APos) (s : Nat) (kd : Kind) (h : a.board s = some ⟨!a.whiteToMove, kd⟩) :
    pseudoFrom a s = [] := by
  unfold pseudoFrom
  simp only [h]
  rw [if_pos (by cases a.whiteToMove <;> rfl)]

theorem pdir_not (w : Bool) : pdir (!w) = - pdir w := by cases w <;> rfl
theorem plast_not (w : Bool) : plast (!w) = 7 - plast w := by cases w <;> rfl
theorem pstart_not (w : Bool) : pstart (!w) = 7 - pstart w := by cases w <;> rfl

theorem onBoard_flip (f r : Int) : onBoard f (7 - r) = onBoard f r := by
  rw [Bool.eq_iff_iff, onBoard_iff, onBoard_iff]; omega

theorem beq_seven_sub (x y : Int) : (7 - x == 7 - y) = (x == y) := by
  rw [Bool.eq_iff_iff, beq_iff_eq, beq_iff_eq]; omega

theorem promoList_mirror (last : Int) (s : Nat) {t : Nat} (ht : t < 64) :
    promoList (7 - last) (s ^^^ 56) (t ^^^ 56) = (promoList last s t).map mirrorMove := by
  unfold promoList
  rw [rank_x56 ht, beq_seven_sub]
  split
  · rw [List.map_map]; rfl
  · rfl

theorem mirrorB_isNone (b : Board) (x : Nat) : (mirrorB b (x ^^^ 56)).isNone = (b x).isNone := by
  rw [mirrorB_x56]; cases b x <;> rfl

theorem pushList_mirror (b : Board) (w : Bool) {s : Nat} (hs : s < 64) :
    pushList (mirrorB b) (!w) (s ^^^ 56) = (pushList b w s).map mirrorMove := by
  unfold pushList
  have e1 : rank (s ^^^ 56) + pdir (!w) = 7 - (rank s + pdir w) := by
    rw [rank_x56 hs, pdir_not]; omega
  have e2 : rank (s ^^^ 56) + 2 * pdir (!w) = 7 - (rank s + 2 * pdir w) := by
    rw [rank_x56 hs, pdir_not]; omega
  rw [file_x56 hs, e1, e2, onBoard_flip, plast_not, pstart_not, rank_x56 hs, beq_seven_sub]
  by_cases hob : onBoard (file s) (rank s + pdir w) = true
  · rw [sq_mirror hob, mirrorB_isNone]
    split
    · rw [List.map_append, promoList_mirror _ _ (onBoard_lt hob)]
      congr 1
      by_cases hst : rank s = pstart w
      · have hob2 : onBoard (file s) (rank s + 2 * pdir w) = true := by
          have := file_bounds s
          rw [onBoard_iff, hst]; cases w <;> simp [pstart, pdir] <;> omega
        rw [sq_mirror hob2, mirrorB_isNone]
        split <;> rfl
      · have : (rank s == pstart w) = false := by rw [beq_eq_false_iff_ne]; exact hst
        simp only [this, Bool.false_and, Bool.false_eq_true, if_false, List.map_nil]
    · rfl
  · have : onBoard (file s) (rank s + pdir w) = false := by simpa using hob
    simp only [this, Bool.false_and, Bool.false_eq_true, if_false, List.map_nil]

theorem capL_mirror (b : Board) (ep : Option Nat) (w : Bool) {s : Nat} (hs : s < 64) (df : Int) :
    capL (mirrorB b) (ep.map (· ^^^ 56)) (!w) (s ^^^ 56) df = (capL b ep w s df).map mirrorMove := by
  unfold capL
  have e1 : rank (s ^^^ 56) + pdir (!w) = 7 - (rank s + pdir w) := by
    rw [rank_x56 hs, pdir_not]; omega
  rw [file_x56 hs, e1, onBoard_flip, plast_not]
  by_cases hob : onBoard (file s + df) (rank s + pdir w) = true
  · rw [if_pos hob, if_pos hob, sq_mirror hob, mirrorB_x56]
    have hlt := onBoard_lt hob
    cases hq : b (sq (file s + df) (rank s + pdir w)) with
    | none =>
      simp only [Option.map_none]
      have : (Option.map (· ^^^ 56) ep == some (sq (file s + df) (rank s + pdir w) ^^^ 56)) =
          (ep == some (sq (file s + df) (rank s + pdir w))) := by
        cases ep with
        | none => rfl
        | some e =>
          simp only [Option.map_some]
          rw [Bool.eq_iff_iff, beq_iff_eq, beq_iff_eq, Option.some.injEq, Option.some.injEq]
          constructor
          · intro h; have := congrArg (· ^^^ 56) h; simpa only [x56_x56] using this
          · intro h; rw [h]
      rw [this]
      split <;> rfl
    | some q =>
      have hqw : ((flipPiece q).white != !w) = (q.white != w) := by
        rw [flip_white]; cases q.white <;> cases w <;> rfl
      simp only [Option.map_some, hqw]
      split
      · exact promoList_mirror _ _ hlt
      · rfl
  · rw [if_neg hob, if_neg hob]; rfl

theorem pawnMoves_mirror (b : Board) (ep : Option Nat) (w : Bool) {s : Nat} (hs : s < 64) :
    pawnMoves (mirrorB b) (ep.map (· ^^^ 56)) (!w) (s ^^^ 56) = (pawnMoves b ep w s).map mirrorMove := by
  unfold pawnMoves
  rw [List.map_append, pushList_mirror b w hs]
  congr 1
  simp only [List.flatMap_cons, List.flatMap_nil, List.append_nil, List.map_append, capL_mirror b ep w hs]

/-! ### every man -/

/-- the pseudo-legal moves of the man on the mirrored square of the mirrored position are the mirrored
moves (as a multiset: the targets of a piece are listed in increasing order of square). -/
theorem pseudoFrom_mirror (a : APos) {s : Nat} (hs : s < 64) :
    (pseudoFrom (mirrorA a) (s ^^^ 56)).Perm ((pseudoFrom a s).map mirrorMove) := by
  have hbd : (mirrorA a).board (s ^^^ 56) = (a.board s).map flipPiece := mirrorB_x56 a.board s
  cases hb : a.board s with
  | none =>
    rw [hb] at hbd
    rw [pseudoFrom_none a s hb, pseudoFrom_none _ _ hbd]
    exact List.Perm.refl _
  | some pc =>
    rw [hb] at hbd
    obtain ⟨c, kd⟩ := pc
    by_cases hc : c = a.whiteToMove
    · subst hc
      have hbd' : (mirrorA a).board (s ^^^ 56) = some ⟨(mirrorA a).whiteToMove, kd⟩ := hbd
      by_cases hk : kd = .pawn
      · subst hk
        rw [pseudoFrom_pawn a s hb, pseudoFrom_pawn _ _ hbd']
        exact List.Perm.of_eq (pawnMoves_mirror a.board a.ep a.whiteToMove hs)
      · rw [pseudoFrom_piece a s kd hk hb, pseudoFrom_piece _ _ kd hk hbd']
        exact pieceMoves_mirror a.board hs ⟨a.whiteToMove, kd⟩
    · have hc' : c = !a.whiteToMove := by cases c <;> cases hw : a.whiteToMove <;> simp_all
      subst hc'
      have hbd' : (mirrorA a).board (s ^^^ 56) = some ⟨!(mirrorA a).whiteToMove, kd⟩ := hbd
      rw [pseudoFrom_opp a s kd hb, pseudoFrom_opp _ _ kd hbd']
      exact List.Perm.refl _

/-- all pseudo-legal non-castling moves. -/
theorem pseudoAll_mirror (a : APos) :
    (squares.flatMap (pseudoFrom (mirrorA a))).Perm ((squares.flatMap (pseudoFrom a)).map mirrorMove) := by
  rw [List.map_flatMap]
  have h1 : (squares.flatMap (pseudoFrom (mirrorA a))).Perm
      ((squares.map (· ^^^ 56)).flatMap (pseudoFrom (mirrorA a))) :=
    List.Perm.flatMap_right _ x56_perm.symm
  refine h1.trans ?_
  rw [List.flatMap_map]
  apply perm_flatMap_left
  intro s hs
  exact pseudoFrom_mirror a (List.mem_range.mp hs)

end Rawr.SpecS
