import Rawr.Proofs.RustImpAgree
import Rawr.Generated.StartPos
/-!
# move_generator.rs, count_moves.rs, legal_moves.rs, legal_captures.rs regenerated from the source agree with the model

* `R.move_generator_prefix` : the statements that `move_generator` and `count_moves` share (compared as syntax trees by
  the translator: rays from the king, attackers, `allowed`, the pin blocks), compiled ONCE; it returns the tuple of the
  variables that are used afterwards.  `agree_move_generator_prefix` : it is the model's `prelude`
  (bridges: `count() > 1` is an `i32` comparison in Rust; the rook pin blocks write
  `xray & them & (rooks | queens)` where the model's `pinStep` has `xray &&& (them &&& (rooks ||| queens))`).
* `R.move_generator : Position → List GMv` : the callback invocations in order (`func(a,b,c,d);` is `[gm a b c d]`,
  sequencing is `++`, `for x in bb` is `flatMap`/`map` over `toList bb`).  `agree_move_generator` : it is the model's
  `moveGenerator` (bridges: the en-passant blocks nest two `if`s where the model has `&&` and `epOk`, and write
  `us & pawns` where the model has `pawns &&& us`; the king loop filters with `if is_safe(..)` where the model uses
  `List.filter`).
* `R.legal_moves`, `R.legal_captures` : the closure passed to `move_generator` runs once per invocation: a `foldl`
  over `R.move_generator`; the model uses `map` / `filter`+`map`.
* `R.count_moves` : `count` is an `i32` accumulator (`Int`), returned `as usize` (`Int.toNat`); the model sums `Nat`s.
-/
set_option linter.unusedSimpArgs false
namespace Rawr

theorem natCast_gt_one (n : Nat) : (((n : Nat) : Int) > 1) = (n > 1) := by
  apply propext; omega

/-- the tuple returned by the compiled shared prefix, read off the model's `Prelude`. -/
def preTuple (q : Prelude) : Nat × Bool × BB × BB × BB × BB × BB × BB × BB :=
  (q.ksq, q.inCheck, q.allowed, q.bpinned, q.bxrays, q.hpinned, q.rxrays, q.rpinned, q.pinned)


theorem agree_move_generator_prefix (p : Position) : R.move_generator_prefix p = preTuple (prelude p) := by
  unfold R.move_generator_prefix prelude preTuple pinStep
  simp -zeta only [natCast_gt_one, BitVec.and_assoc]
  rfl

theorem ite_ite_nil {α : Type} (a b : Bool) (x : List α) :
    (if a = true then (if b = true then x else []) else []) = if (a && b) = true then x else [] := by
  cases a <;> cases b <;> rfl

theorem flatMap_ite_singleton {α β : Type} (l : List α) (c : α → Bool) (f : α → β) :
    l.flatMap (fun x => if c x = true then [f x] else []) = (l.filter c).map f := by
  induction l with
  | nil => rfl
  | cons a l ih =>
    simp only [List.flatMap_cons, List.filter_cons, ih]
    cases c a <;> simp

theorem append_congr' {α : Type} {a a' b b' : List α} (h1 : a = a') (h2 : b = b') : a ++ b = a' ++ b' := by rw [h1, h2]

theorem agree_move_generator : @R.move_generator = @moveGenerator := by
  funext p
  unfold R.move_generator moveGenerator
  rw [agree_move_generator_prefix, agree_is_safe, agree_is_bb_attacked]
  generalize prelude p = q
  simp only [ite_ite_nil, flatMap_ite_singleton]
  iterate 15 (refine append_congr' ?_ ?_)
  all_goals (first | rfl | skip)
  cases p.ep with
  | none => rfl
  | some ep =>
    rw [show R.get_us p &&& R.get_pawns p = p.p0 &&& p.c0 from BitVec.and_comm _ _]
    rfl

theorem foldl_push {α β : Type} (l : List α) (f : α → β) (acc : List β) :
    l.foldl (fun acc x => acc ++ [f x]) acc = acc ++ l.map f := by
  induction l generalizing acc with
  | nil => simp
  | cons a l ih => simp [ih]

theorem foldl_push_unless {α β : Type} (l : List α) (c : α → Bool) (f : α → β) (acc : List β) :
    l.foldl (fun acc x => if c x = true then acc else acc ++ [f x]) acc = acc ++ (l.filter (fun x => !c x)).map f := by
  induction l generalizing acc with
  | nil => simp
  | cons a l ih => cases h : c a <;> simp [ih, h]

theorem not_and_not (a b : Bool) : (!(!a && !b)) = (a || b) := by cases a <;> cases b <;> rfl

theorem agree_legal_moves : @R.legal_moves = @legalMoves := by
  funext p
  unfold R.legal_moves legalMoves
  rw [agree_move_generator]
  exact (foldl_push _ _ _).trans (List.nil_append _)

theorem agree_legal_captures : @R.legal_captures = @legalCaptures := by
  funext p
  unfold R.legal_captures legalCaptures
  rw [agree_move_generator]
  refine (foldl_push_unless _ _ _ _).trans ?_
  rw [List.nil_append]
  congr 2
  funext g
  exact not_and_not _ _

/-! ## count_moves.rs -/
theorem cnt_fold {α : Type} (l : List α) (g : α → Nat) (c0 : Int) :
    l.foldl (fun c x => c + ((g x : Nat) : Int)) c0 = c0 + ((l.foldl (fun a x => a + g x) 0 : Nat) : Int) := by
  have h : ∀ (n : Nat) (c0 : Int), l.foldl (fun c x => c + ((g x : Nat) : Int)) (c0 + n)
      = c0 + ((l.foldl (fun a x => a + g x) n : Nat) : Int) := by
    induction l with
    | nil => intro n c0; rfl
    | cons a l ih =>
      intro n c0
      simp only [List.foldl_cons]
      rw [Int.add_assoc, ← Int.natCast_add, ih]
  simpa using h 0 c0

theorem cnt_ite (c : Prop) [Decidable c] (k : Int) : (if c then k + 1 else k) = k + (((if c then 1 else 0 : Nat)) : Int) := by
  split <;> simp

theorem four_mul_cast (a : Nat) : (4 : Int) * (a : Int) = ((4 * a : Nat) : Int) := by omega

theorem cnt_ite_cast (c : Prop) [Decidable c] (k : Int) (n : Nat) :
    (if c then k + (n : Int) else k) = k + (((if c then n else 0 : Nat)) : Int) := by
  split <;> simp

theorem ite_ite_zero (a b : Bool) (n : Nat) :
    (if a = true then (if b = true then n else 0) else 0) = if (a && b) = true then n else 0 := by
  cases a <;> cases b <;> rfl

theorem fold_ite_length {α : Type} (l : List α) (t : α → Bool) :
    l.foldl (fun a x => a + (if t x = true then 1 else 0)) 0 = (l.filter t).length := by
  have h : ∀ n, l.foldl (fun a x => a + (if t x = true then 1 else 0)) n = n + (l.filter t).length := by
    induction l with
    | nil => intro n; rfl
    | cons a l ih =>
      intro n
      simp only [List.foldl_cons, List.filter_cons, ih]
      cases t a <;> simp <;> omega
  simpa using h 0

theorem add_congr' {a a' b b' : Nat} (h1 : a = a') (h2 : b = b') : a + b = a' + b' := by rw [h1, h2]

theorem agree_count_moves : @R.count_moves = @countMoves := by
  funext p
  unfold R.count_moves countMoves
  rw [agree_move_generator_prefix, agree_is_safe, agree_is_bb_attacked]
  generalize prelude p = q
  simp only [cnt_ite, cnt_ite_cast, ite_ite_zero, cnt_fold, fold_ite_length, Int.zero_add]
  cases p.ep with
  | none =>
    simp only [four_mul_cast, ← Int.natCast_add, Int.toNat_natCast, Nat.add_zero]
    rfl
  | some ep =>
    simp only [four_mul_cast, ← Int.natCast_add, Int.toNat_natCast, Nat.add_zero]
    rw [show R.get_us p &&& R.get_pawns p = p.p0 &&& p.c0 from BitVec.and_comm _ _]
    simp only [Nat.add_assoc]
    rfl

/-! non-vacuity: the regenerated generator computes (20 moves in the start position, no captures) -/
example : (R.legal_captures Gen.startpos).length = 0 := by decide

end Rawr

#print axioms Rawr.agree_move_generator_prefix
#print axioms Rawr.agree_move_generator
#print axioms Rawr.agree_legal_moves
#print axioms Rawr.agree_legal_captures
#print axioms Rawr.agree_count_moves
