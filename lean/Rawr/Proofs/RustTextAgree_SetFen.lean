import Rawr.Proofs.RustTextAgree
/-!
# `set_fen` / `from_fen` regenerated from set_fen.rs, from_fen.rs agree with the model's `setFen`
(both arithmetics: `ar = .wrap` optimised build, `ar = .trap` checked build)
-/
set_option linter.unusedSimpArgs false
namespace Rawr
open Position

/-! ## the board loop -/
/-- one iteration of the board loop, in the model's vocabulary (`boardTok`). -/
theorem set_fen_loop1_step_eq (ar : Arith) (c : Char) (p : Position) (idx : Nat) :
    R.set_fen_loop1_step ar c p idx = (do
      let r7 ← u8sub ar 7 (idx / 8)
      let r8 ← u8mul ar 8 r7
      let sq ← u8add ar r8 (idx % 8)
      let bb ← bitAr ar sq
      match boardTok c with
      | none => none
      | some (.piece black pc) =>
        let p := if black then { p with c1 := p.c1 ^^^ bb } else { p with c0 := p.c0 ^^^ bb }
        let p := p.setPiece pc (p.piece pc ^^^ bb)
        let idx ← u8add ar idx 1
        some (ForInStep.yield (p, idx))
      | some (.skip n) => do
        let idx ← u8add ar idx n
        some (ForInStep.yield (p, idx))
      | some .slash => some (ForInStep.yield (p, idx))) := by
  unfold R.set_fen_loop1_step
  simp only [bind, pure]
  refine Option.bind_congr fun r7 _ => ?_
  refine Option.bind_congr fun r8 _ => ?_
  refine Option.bind_congr fun sq _ => ?_
  refine Option.bind_congr fun bb _ => ?_
  split <;> simp only [boardTok] <;>
    first
      | rfl
      | (cases u8add ar idx _ <;> rfl)

theorem set_fen_loop1_eq (ar : Arith) (cs : List Char) :
    ∀ (p : Position) (idx : Nat), R.set_fen_loop1 ar cs p idx = fenBoard ar cs p idx := by
  induction cs with
  | nil => intro p idx; simp [R.set_fen_loop1, fenBoard]
  | cons c cs ih =>
    intro p idx
    unfold fenBoard
    simp only [R.set_fen_loop1, List.forIn_cons, set_fen_loop1_step_eq, bind, pure, Option.bind_assoc] at ih ⊢
    refine Option.bind_congr fun r7 _ => ?_
    refine Option.bind_congr fun r8 _ => ?_
    refine Option.bind_congr fun sq _ => ?_
    refine Option.bind_congr fun bb _ => ?_
    cases boardTok c with
    | none => rfl
    | some t =>
      cases t with
      | piece black pc =>
        simp only []
        cases u8add ar idx 1 with
        | none => rfl
        | some i => simp only [Option.bind_some]; exact ih _ _
      | skip n =>
        simp only []
        cases u8add ar idx n with
        | none => rfl
        | some i => simp only [Option.bind_some]; exact ih _ _
      | slash => simp only [Option.bind_some]; exact ih _ _

/-! ## the castling loop -/
theorem set_fen_loop2_eq (part : List Char) (c : Char) :
    ∀ l : List Nat, (∀ i ∈ l, i < part.length) →
      R.set_fen_loop2 part c l = if l.any (fun i => part[i]? == some c) then none else some () := by
  intro l
  induction l with
  | nil => intro _; simp [R.set_fen_loop2]
  | cons i l ih =>
    intro hl
    have hi : i < part.length := hl i (by simp)
    have ih' := ih (fun j hj => hl j (by simp [hj]))
    simp only [R.set_fen_loop2, List.forIn_cons] at ih' ⊢
    have hstep : R.set_fen_loop2_step part c i = if part[i] = c then none else some (ForInStep.yield ()) := by
      unfold R.set_fen_loop2_step
      rw [List.getElem?_eq_getElem hi]
      by_cases h : part[i] = c <;> simp [h]
    rw [hstep]
    by_cases h : part[i] = c
    · simp [h, List.getElem?_eq_getElem hi]
    · simp only [h, if_false, bind, Option.bind_some, pure]
      rw [ih']
      simp [h, List.getElem?_eq_getElem hi]

theorem range_any_take (part : List Char) (c : Char) (k : Nat) (hk : k ≤ part.length) :
    (List.range k).any (fun i => part[i]? == some c) = (part.take k).contains c := by
  rw [Bool.eq_iff_iff, List.contains_iff_mem, List.mem_take_iff_getElem]
  simp only [List.any_eq_true, List.mem_range, beq_iff_eq]
  constructor
  · rintro ⟨i, hi, h⟩
    have hlt : i < part.length := by omega
    rw [List.getElem?_eq_getElem hlt] at h
    exact ⟨i, by omega, by simpa using h⟩
  · rintro ⟨j, hj, h⟩
    have hlt : j < part.length := by omega
    exact ⟨j, by omega, by rw [List.getElem?_eq_getElem hlt, h]⟩

theorem char_le_iff (a b : Char) : a ≤ b ↔ a.toNat ≤ b.toNat := by
  rw [Char.le_def]; exact UInt32.le_iff_toNat_le

theorem u8sub_upper (ar : Arith) (c : Char) (h : ('A' ≤ c && c ≤ 'H') = true) :
    u8sub ar (asU8 c) (asU8 'A') = some (asU8 c - asU8 'A') := by
  simp only [Bool.and_eq_true, decide_eq_true_eq, char_le_iff] at h
  have h1 : 'A'.toNat = 65 := by decide
  have h2 : 'H'.toNat = 72 := by decide
  have h3 : asU8 'A' = 65 := by decide
  unfold u8sub asU8 at *
  rw [h1, h2] at h
  simp only [h3]
  have : c.toNat % 256 = c.toNat := by omega
  rw [this, if_pos (by omega)]

theorem u8sub_lower (ar : Arith) (c : Char) (h : ('a' ≤ c && c ≤ 'h') = true) :
    u8sub ar (asU8 c) (asU8 'a') = some (asU8 c - asU8 'a') := by
  simp only [Bool.and_eq_true, decide_eq_true_eq, char_le_iff] at h
  have h1 : 'a'.toNat = 97 := by decide
  have h2 : 'h'.toNat = 104 := by decide
  have h3 : asU8 'a' = 97 := by decide
  unfold u8sub asU8 at *
  rw [h1, h2] at h
  simp only [h3]
  have : c.toNat % 256 = c.toNat := by omega
  rw [this, if_pos (by omega)]

theorem toU8_fileOf (x : Nat) : T.toU8 (fileOf x) = fileOf x := by
  unfold T.toU8 fileOf; omega

/-- the position after one castling letter. -/
def castleUpd (p : Position) (black : Bool) (file : Nat) (ks : Bool) : Position :=
  match black, ks with
  | false, true => { p with usK := true, cf0 := file }
  | false, false => { p with usQ := true, cf1 := file }
  | true, true => { p with themK := true, cf2 := file }
  | true, false => { p with themQ := true, cf3 := file }

/-- one iteration of the castling loop, in the model's vocabulary (`castleLetter`). -/
theorem set_fen_loop3_step_eq (ar : Arith) (part : List Char) (c : Char) (idx : Nat) (s : Position)
    (hb : s.black = false) (hidx : idx ≤ part.length) :
    R.set_fen_loop3_step ar part (0xFF#64 &&& rayEastBB (lsb (s.c0 &&& s.p5))) (0xFF#64 &&& rayWestBB (lsb (s.c0 &&& s.p5)))
        (0xFF00000000000000#64 &&& rayEastBB (lsb (s.c1 &&& s.p5))) (0xFF00000000000000#64 &&& rayWestBB (lsb (s.c1 &&& s.p5)))
        (c, idx) s =
      if (part.take idx).contains c then none else
      match castleLetter s c with
      | none => none
      | some none => some (ForInStep.done s)
      | some (some (black, file, ks)) => some (ForInStep.yield (castleUpd s black file ks)) := by
  unfold R.set_fen_loop3_step
  dsimp only []
  rw [set_fen_loop2_eq part c (List.range idx) (by intro i hi; simp at hi; omega), range_any_take part c idx hidx]
  by_cases hd : (part.take idx).contains c = true
  · have hd' : c ∈ part.take idx := by simpa using hd
    simp [hd, hd']
  · simp only [hd, Bool.false_eq_true, if_false, bind, Option.bind_some, pure, agree_get_white, agree_get_black,
      Position.white, Position.blackBB, hb, R.get_rooks, R.get_kings, R.get_us, R.get_them, toU8_fileOf]
    unfold castleLetter
    by_cases h1 : (c == 'K') = true
    · simp only [h1, if_true]
      by_cases hr : (s.c0 &&& s.p3 &&& (0xFF#64 &&& rayEastBB (lsb (s.c0 &&& s.p5)))).isOcc = true <;> simp [hr, castleUpd, hb]
    · simp only [h1, Bool.false_eq_true, if_false]
      by_cases h2 : (c == 'Q') = true
      · simp only [h2, if_true]
        by_cases hr : (s.c0 &&& s.p3 &&& (0xFF#64 &&& rayWestBB (lsb (s.c0 &&& s.p5)))).isOcc = true <;> simp [hr, castleUpd, hb]
      · simp only [h2, Bool.false_eq_true, if_false]
        by_cases h3 : (c == 'k') = true
        · simp only [h3, if_true]
          by_cases hr : (s.c1 &&& s.p3 &&& (0xFF00000000000000#64 &&& rayEastBB (lsb (s.c1 &&& s.p5)))).isOcc = true <;>
            simp [hr, castleUpd, hb]
        · simp only [h3, Bool.false_eq_true, if_false]
          by_cases h4 : (c == 'q') = true
          · simp only [h4, if_true]
            by_cases hr : (s.c1 &&& s.p3 &&& (0xFF00000000000000#64 &&& rayWestBB (lsb (s.c1 &&& s.p5)))).isOcc = true <;>
              simp [hr, castleUpd, hb]
          · simp only [h4, Bool.false_eq_true, if_false]
            by_cases h5 : ('A' ≤ c && c ≤ 'H') = true
            · simp only [h5, if_true, u8sub_upper ar c h5, Option.bind_some, BitVec.and_comm s.p5 s.c0]
              by_cases hk : asU8 c - asU8 'A' > fileOf (lsb (s.c0 &&& s.p5)) <;> simp [hk, castleUpd, hb]
            · simp only [h5, Bool.false_eq_true, if_false]
              by_cases h6 : ('a' ≤ c && c ≤ 'h') = true
              · simp only [h6, if_true, u8sub_lower ar c h6, Option.bind_some, BitVec.and_comm s.p5 s.c1]
                by_cases hk : asU8 c - asU8 'a' > fileOf (lsb (s.c1 &&& s.p5)) <;> simp [hk, castleUpd, hb]
              · simp only [h6, Bool.false_eq_true, if_false]
                by_cases h7 : (c == '-') = true <;> simp [h7, hb]

theorem set_fen_loop3_eq (ar : Arith) (part : List Char) :
    ∀ (rest pre : List Char) (s : Position), part = pre ++ rest → s.black = false →
      R.set_fen_loop3 ar part (0xFF#64 &&& rayEastBB (lsb (s.c0 &&& s.p5))) (0xFF#64 &&& rayWestBB (lsb (s.c0 &&& s.p5)))
        (0xFF00000000000000#64 &&& rayEastBB (lsb (s.c1 &&& s.p5))) (0xFF00000000000000#64 &&& rayWestBB (lsb (s.c1 &&& s.p5)))
        (rest.zipIdx pre.length) s = fenCastling rest pre s := by
  intro rest
  induction rest with
  | nil => intro pre s _ _; simp [R.set_fen_loop3, fenCastling]
  | cons c rest ih =>
    intro pre s hp hb
    have hlen : pre.length ≤ part.length := by rw [hp]; simp
    have htake : part.take pre.length = pre := by rw [hp]; simp
    unfold fenCastling
    simp only [R.set_fen_loop3, List.zipIdx_cons, List.forIn_cons] at ih ⊢
    rw [set_fen_loop3_step_eq ar part c pre.length s hb hlen, htake]
    by_cases hd : pre.contains c = true
    · have hd' : c ∈ pre := by simpa using hd
      simp [hd, hd']
    · simp only [hd, Bool.false_eq_true, if_false]
      cases castleLetter s c with
      | none => rfl
      | some o =>
        cases o with
        | none => rfl
        | some t =>
          obtain ⟨black, file, ks⟩ := t
          have hp' : part = (pre ++ [c]) ++ rest := by rw [hp]; simp
          have hl' : (pre ++ [c]).length = pre.length + 1 := by simp
          cases black <;> cases ks <;>
            simp only [bind, Option.bind_some, castleUpd] <;>
            (rw [← hl']; exact ih (pre ++ [c]) _ hp' hb)

/-! ## `validate` as seen from `set_fen` -/
theorem ite_some_eq_none {α : Type} {c : Prop} [Decidable c] {a : α} {x : Option α}
    (h : (if c then some a else x) = none) : x = none := by
  split at h
  · cases h
  · exact h

theorem validate_none_ep {p : Position} {e : Nat} (h : p.validate = none) (he : p.ep = some e) : rankOf e = 5 := by
  apply Decidable.byContradiction; intro hr
  have hr' : (rankOf e != 5) = true := by simpa using hr
  unfold Position.validate at h
  simp only [he, hr', if_true] at h
  iterate 17 (replace h := ite_some_eq_none h)
  cases h

theorem validateAr_eq (ar : Arith) (p : Position) : validateAr ar p = p.validate.isNone := by
  unfold validateAr
  cases hv : p.validate with
  | some _ => simp
  | none =>
    cases ar with
    | wrap => simp
    | trap =>
      cases he : p.ep with
      | none => simp
      | some e =>
        have := validate_none_ep hv he
        simp only [rankOf] at this
        simp; omega

/-! ## the parts of `set_fen` (the translator cuts the long function body into `R.set_fen_part2 .. part6`, each ending
in a tail call of the next) against the corresponding suffixes of the model's `setFenCore` -/
theorem set_fen_init (frc : Bool) : ({ c0 := 0x0#64, c1 := 0x0#64, p0 := 0x0#64, p1 := 0x0#64, p2 := 0x0#64, p3 := 0x0#64, p4 := 0x0#64, p5 := 0x0#64, halfmoves := 0, fullmoves := 1, black := false, ep := none, usK := false, usQ := false, themK := false, themQ := false, cf0 := 7, cf1 := 0, cf2 := 7, cf3 := 0, hash := 0#64, frc := frc } : Position) = { Position.dflt with frc := frc } := rfl

theorem headD_eq (l : List (List Char)) : l.headD [] = l.head?.getD [] := by cases l <;> rfl
theorem get1 (l : List (List Char)) : l[1]? = l.tail.head? := by rcases l with _ | ⟨_, _ | ⟨_, _⟩⟩ <;> rfl
theorem get2 (l : List (List Char)) : l[2]? = l.tail.tail.head? := by rcases l with _ | ⟨_, _ | ⟨_, _ | ⟨_, _⟩⟩⟩ <;> rfl
theorem get3 (l : List (List Char)) : l[3]? = l.tail.tail.tail.head? := by
  rcases l with _ | ⟨_, _ | ⟨_, _ | ⟨_, _ | ⟨_, _⟩⟩⟩⟩ <;> rfl
theorem get4 (l : List (List Char)) : l[4]? = l.tail.tail.tail.tail.head? := by
  rcases l with _ | ⟨_, _ | ⟨_, _ | ⟨_, _ | ⟨_, _ | ⟨_, _⟩⟩⟩⟩⟩ <;> rfl
theorem get5 (l : List (List Char)) : l[5]? = l.tail.tail.tail.tail.tail.head? := by
  rcases l with _ | ⟨_, _ | ⟨_, _ | ⟨_, _ | ⟨_, _ | ⟨_, _ | ⟨_, _⟩⟩⟩⟩⟩⟩ <;> rfl
theorem len6' (l : List (List Char)) : l.length > 6 ↔ l.tail.tail.tail.tail.tail.tail.head?.isSome = true := by
  rcases l with _ | ⟨_, _ | ⟨_, _ | ⟨_, _ | ⟨_, _ | ⟨_, _ | ⟨_, _ | ⟨_, _⟩⟩⟩⟩⟩⟩⟩ <;> simp
theorem len6 (l : List (List Char)) : decide (l.length > 6) = l.tail.tail.tail.tail.tail.tail.head?.isSome := by
  rcases l with _ | ⟨_, _ | ⟨_, _ | ⟨_, _ | ⟨_, _ | ⟨_, _ | ⟨_, _ | ⟨_, _⟩⟩⟩⟩⟩⟩⟩ <;> simp

theorem fenBoard_black (ar : Arith) (cs : List Char) : ∀ (p : Position) (idx : Nat) (r : Position × Nat),
    fenBoard ar cs p idx = some r → r.1.black = p.black := by
  induction cs with
  | nil => intro p idx r h; simp [fenBoard] at h; rw [← h]
  | cons c cs ih =>
    intro p idx r h
    unfold fenBoard at h
    simp only [bind, Option.bind_eq_some_iff] at h
    obtain ⟨r7, _, r8, _, sq, _, bb, _, h⟩ := h
    cases hb : boardTok c with
    | none => simp [hb] at h
    | some t =>
      cases t with
      | piece black pc =>
        simp only [hb, Option.bind_eq_some_iff] at h
        obtain ⟨i, _, h⟩ := h
        rw [ih _ _ _ h]
        cases black <;> simp only [setPiece] <;> split <;> rfl
      | skip k =>
        simp only [hb, Option.bind_eq_some_iff] at h
        obtain ⟨i, _, h⟩ := h
        exact ih _ _ _ h
      | slash => simp only [hb] at h; exact ih _ _ _ h


theorem set_fen_part6_eq (ar : Arith) (parts : List (List Char)) (flip : Bool) (s : Position) :
    R.set_fen_part6 parts flip s =
      (if parts.head?.isSome then none else
        let p := if flip then { s.flip with black := true } else s
        let p := { p with hash := p.calculateHash }
        if validateAr ar p then some p else none) := by
  unfold R.set_fen_part6
  simp only [agree_flip, agree_calculate_hash', agree_validate, validateAr_eq]
  cases parts.head?.isSome
  · cases flip <;>
      simp only [Bool.false_eq_true, if_false, if_true, bind, pure, Option.bind_some, Option.bind_none] <;>
      split <;> rename_i h <;> simp_all <;> exact Option.eq_none_iff_forall_ne_some.mpr h
  · rfl

theorem set_fen_part5_eq (parts : List (List Char)) (s : Position) (flip : Bool) :
    R.set_fen_part5 parts s flip = (do
      let hmPart ← parts.head?
      let hm ← parseI32 hmPart
      if hm < 0 then none else
      let fmPart ← parts.tail.head?
      let fm ← parseI32 fmPart
      if fm < 0 then none else
      R.set_fen_part6 parts.tail.tail flip { s with halfmoves := hm, fullmoves := fm }) := by
  unfold R.set_fen_part5
  simp only [bind, pure]
  cases parts.head? with
  | none => rfl
  | some a =>
    simp only [Option.bind_some]
    cases parseI32 a with
    | none => rfl
    | some hm =>
      simp only [Option.bind_some]
      by_cases h1 : hm < 0
      · simp [h1]
      · simp only [h1, if_false]
        cases parts.tail.head? with
        | none => rfl
        | some b =>
          simp only [Option.bind_some]
          cases parseI32 b with
          | none => rfl
          | some fm =>
            simp only [Option.bind_some]
            by_cases h2 : fm < 0 <;> simp [h2]

theorem strLen_ge3 (a b c : Char) (r : List Char) : strLen (a :: b :: c :: r) ≠ 2 := by
  have h : ∀ x : Char, 1 ≤ utf8Len x := by intro x; unfold utf8Len; split <;> (try split) <;> (try split) <;> omega
  have := h a; have := h b; have := h c
  simp only [strLen, List.map_cons, List.sum_cons]
  omega

theorem set_fen_part4_eq (ar : Arith) (parts : List (List Char)) (s : Position) (flip : Bool) :
    R.set_fen_part4 ar parts s flip = (do
      let epPart ← parts.head?
      let p ← (if epPart == ['-'] then some { s with ep := none }
        else if strLen epPart == 2 then
          match epPart with
          | [c1, c2] => do
            let file ← u8sub ar (asU8 c1) (asU8 'a')
            let rank ← u8sub ar (asU8 c2) (asU8 '1')
            let r8 ← u8mul ar 8 rank
            let idx ← u8add ar r8 file
            some { s with ep := some idx }
          | _ => none
        else none)
      R.set_fen_part5 parts.tail p flip) := by
  unfold R.set_fen_part4
  simp only [bind, pure]
  cases parts.head? with
  | none => rfl
  | some d =>
    simp only [Option.bind_some]
    by_cases h1 : (d == ['-']) = true
    · simp [h1]
    · by_cases h2 : (strLen d == 2) = true
      · match d, h1, h2 with
        | [], _, h2 => simp [strLen] at h2
        | [a], _, _ => simp [h1, *]
        | [a, b], h1, h2 =>
          simp only [h1, h2, Bool.false_eq_true, if_false, if_true, bind, pure, Option.bind_some, List.getElem?_cons_zero,
            List.getElem?_cons_succ, Option.bind_assoc]
        | a :: b :: c :: r, _, h2 => exact absurd (by simpa using h2) (strLen_ge3 a b c r)
      · simp [h1, h2]

theorem set_fen_part3_eq (ar : Arith) (parts : List (List Char)) (s : Position) (flip : Bool) (hb : s.black = false) :
    R.set_fen_part3 ar parts s flip = (do
      let p ← (match parts.head? with
        | none => some s
        | some part => fenCastling part [] s)
      R.set_fen_part4 ar parts.tail p flip) := by
  unfold R.set_fen_part3
  simp only [bind, pure, agree_get_white, agree_get_black, Position.white, Position.blackBB, hb, R.get_kings,
    Bool.false_eq_true, if_false]
  cases parts.head? with
  | none => rfl
  | some part =>
    have h := set_fen_loop3_eq ar part part [] s rfl hb
    simp only [List.length_nil] at h
    simp only [Option.bind_some]
    rw [show part.zipIdx = part.zipIdx 0 from rfl, h]

theorem splitSpace_go_ne_nil : ∀ (s cur : List Char) (acc : List (List Char)), splitSpace.go s cur acc ≠ [] := by
  intro s
  induction s with
  | nil => intro cur acc; simp [splitSpace.go]
  | cons c s ih =>
    intro cur acc
    unfold splitSpace.go
    split
    · exact ih _ _
    · exact ih _ _

theorem splitSpace_head (s : List Char) : ∃ a, (splitSpace s).head? = some a := by
  have := splitSpace_go_ne_nil s [] []
  unfold splitSpace
  cases h : splitSpace.go s [] [] with
  | nil => exact absurd h this
  | cons a _ => exact ⟨a, rfl⟩

theorem set_fen_part2_eq (ar : Arith) (parts : List (List Char)) (s : Position) (hb : s.black = false)
    (hparts : ∃ a, parts.head? = some a) :
    R.set_fen_part2 ar parts s = (do
      let r ← fenBoard ar (parts.head?.getD []) s 0
      if r.2 != 64 then none else
      let sidePart ← parts.tail.head?
      let shouldFlip ← (if sidePart == ['w'] || sidePart == ['W'] then some false
                        else if sidePart == ['b'] || sidePart == ['B'] then some true else none)
      if (r.1.c0 &&& r.1.p5).isEmpty || (r.1.c1 &&& r.1.p5).isEmpty then none else
      R.set_fen_part3 ar parts.tail.tail r.1 shouldFlip) := by
  unfold R.set_fen_part2
  simp only [bind, pure, set_fen_loop1_eq]
  obtain ⟨a, ha⟩ := hparts
  rw [ha]
  · simp only [Option.getD_some, Option.bind_some]
    cases hbd : fenBoard ar a s 0 with
    | none => rfl
    | some r =>
      have hblk : r.1.black = false := by rw [fenBoard_black ar a s 0 r hbd, hb]
      simp only [Option.bind_some, agree_get_white, agree_get_black, Position.white, Position.blackBB, hblk, R.get_kings,
        Bool.false_eq_true, if_false]
      by_cases h64 : (r.2 != 64) = true
      · simp [h64]
      · simp only [h64, Bool.false_eq_true, if_false]
        cases parts.tail.head? with
        | none => rfl
        | some b =>
          simp only [Option.bind_some]
          by_cases hw : (b == ['w'] || b == ['W']) = true
          · simp only [hw, if_true, Option.bind_some]
            by_cases k1 : (r.1.c0 &&& r.1.p5).isEmpty = true
            · simp [k1]
            · by_cases k2 : (r.1.c1 &&& r.1.p5).isEmpty = true <;> simp [k1, k2]
          · simp only [hw, Bool.false_eq_true, if_false]
            by_cases hbk : (b == ['b'] || b == ['B']) = true
            · simp only [hbk, if_true, Option.bind_some]
              by_cases k1 : (r.1.c0 &&& r.1.p5).isEmpty = true
              · simp [k1]
              · by_cases k2 : (r.1.c1 &&& r.1.p5).isEmpty = true <;> simp [k1, k2]
            · simp [hbk]

/-- `set_fen` on a string other than "startpos" is the model's `setFenCore`. -/
theorem set_fen_core_eq (ar : Arith) (n : Nat) (s : Position) (fen : List Char)
    (hne : (fen == "startpos".toList) = false) :
    R.set_fen (n + 1) ar s fen = setFenCore ar s.frc fen := by
  have hs : "startpos".toList = ['s', 't', 'a', 'r', 't', 'p', 'o', 's'] := by decide
  rw [hs] at hne
  unfold R.set_fen
  simp only [hne, Bool.false_eq_true, if_false, set_fen_init]
  rw [set_fen_part2_eq ar _ _ rfl (splitSpace_head fen)]
  unfold setFenCore
  simp only [headD_eq, get1, get2, get3, get4, get5, len6, len6', bind, pure]
  cases hbd : fenBoard ar ((splitSpace fen).head?.getD []) { Position.dflt with frc := s.frc } 0 with
  | none => rfl
  | some r =>
    obtain ⟨p, idx⟩ := r
    have hblk : p.black = false := fenBoard_black ar _ _ 0 _ hbd
    simp only [Option.bind_some, set_fen_part3_eq ar _ p _ hblk, set_fen_part4_eq, set_fen_part5_eq, set_fen_part6_eq ar,
      bind, pure]
    cases (splitSpace fen).tail.tail.head? <;> rfl

/-- **`Position::set_fen`** (set_fen.rs), for both arithmetics: with at least two units of recursion fuel (the Rust
function calls itself once, for "startpos") the regenerated function is the model's `setFen`; `none` = panic. -/
theorem agree_set_fen (ar : Arith) (n : Nat) (s : Position) (fen : List Char) :
    R.set_fen (n + 2) ar s fen = setFen ar s.frc fen := by
  unfold setFen
  by_cases h : (fen == "startpos".toList) = true
  · have hs : "startpos".toList = ['s', 't', 'a', 'r', 't', 'p', 'o', 's'] := by decide
    have hlit : ['r', 'n', 'b', 'q', 'k', 'b', 'n', 'r', '/', 'p', 'p', 'p', 'p', 'p', 'p', 'p', 'p', '/', '8', '/', '8', '/', '8', '/', '8', '/', 'P', 'P', 'P', 'P', 'P', 'P', 'P', 'P', '/', 'R', 'N', 'B', 'Q', 'K', 'B', 'N', 'R', ' ', 'w', ' ', 'K', 'Q', 'k', 'q', ' ', '-', ' ', '0', ' ', '1'] = startFen := by decide
    have hne : (startFen == "startpos".toList) = false := by decide
    rw [if_pos h]
    rw [hs] at h
    unfold R.set_fen
    simp only [h, if_true, hlit, set_fen_core_eq ar n s startFen hne, bind, pure]
    cases setFenCore ar s.frc startFen <;> rfl
  · have h' : (fen == "startpos".toList) = false := by simpa using h
    rw [if_neg h]
    exact set_fen_core_eq ar (n + 1) s fen h'

/-- `Position::default()` (position.rs). -/
theorem agree_default : R.default_ = Position.dflt := rfl

/-- **`Position::from_fen`** (from_fen.rs). -/
theorem agree_from_fen (ar : Arith) (n : Nat) (fen : List Char) :
    R.from_fen (n + 2) ar fen = setFen ar false fen := by
  unfold R.from_fen
  have hf : Position.dflt.frc = false := rfl
  simp only [agree_default, agree_set_fen, bind, pure, hf]
  cases setFen ar false fen <;> rfl

example : R.from_fen 2 .trap "startpos".toList = some Gen.startpos := by decide +kernel
example : (R.from_fen 2 .wrap "4k3/8/8/4p3/8/8/8/4K3 w - e6 0 1".toList).isSome = true := by decide +kernel
example : R.from_fen 2 .wrap "4k3/8/8/4p3/8/8/8/4K3 w - e6 0".toList = none := by decide +kernel
end Rawr

#print axioms Rawr.agree_set_fen
#print axioms Rawr.agree_from_fen
#print axioms Rawr.agree_default
