import Rawr.Proofs.SpecSanityPerftDefs
import Rawr.Proofs.SpecSanityPerftKiwi_0
import Rawr.Proofs.SpecSanityPerftKiwi_1
import Rawr.Proofs.SpecSanityPerftKiwi_2
import Rawr.Proofs.SpecSanityPerftKiwi_3
/-!
# Sanity of the specification, part 5: perft of "Kiwipete", depths 1 and 2: 48 and 2039 (kernel-evaluated)
-/
namespace Rawr.SpecS
open Rawr.Spec

/-- the first moves, in the order of `Spec.legalMoves`. -/
theorem kiwi2_moves : legalMoves kiwipete =
    [.normal 0 1 none, .normal 0 2 none, .normal 0 3 none, .normal 4 3 none, .normal 4 5 none,
      .normal 7 5 none, .normal 7 6 none, .normal 8 16 none, .normal 8 24 none,
      .normal 9 17 none, .normal 11 2 none, .normal 11 20 none, .normal 11 29 none,
      .normal 11 38 none, .normal 11 47 none, .normal 12 3 none, .normal 12 5 none,
      .normal 12 19 none, .normal 12 26 none, .normal 12 33 none, .normal 12 40 none,
      .normal 14 22 none, .normal 14 30 none, .normal 14 23 none, .normal 18 1 none,
      .normal 18 3 none, .normal 18 24 none, .normal 18 33 none, .normal 21 19 none,
      .normal 21 20 none, .normal 21 22 none, .normal 21 23 none, .normal 21 29 none,
      .normal 21 30 none, .normal 21 37 none, .normal 21 39 none, .normal 21 45 none,
      .normal 35 43 none, .normal 35 44 none, .normal 36 19 none, .normal 36 26 none,
      .normal 36 30 none, .normal 36 42 none, .normal 36 46 none, .normal 36 51 none,
      .normal 36 53 none, .castle true, .castle false] := by
  decide +kernel

theorem leaves_kiwi_1 : leaves kiwipete 1 = 48 := by decide +kernel

theorem leaves_kiwi_2 : leaves kiwipete 2 = 2039 := by
  rw [leaves_succ_of kiwi2_moves 1]
  have e : ([.normal 0 1 none, .normal 0 2 none, .normal 0 3 none, .normal 4 3 none, .normal 4 5 none,
      .normal 7 5 none, .normal 7 6 none, .normal 8 16 none, .normal 8 24 none,
      .normal 9 17 none, .normal 11 2 none, .normal 11 20 none, .normal 11 29 none,
      .normal 11 38 none, .normal 11 47 none, .normal 12 3 none, .normal 12 5 none,
      .normal 12 19 none, .normal 12 26 none, .normal 12 33 none, .normal 12 40 none,
      .normal 14 22 none, .normal 14 30 none, .normal 14 23 none, .normal 18 1 none,
      .normal 18 3 none, .normal 18 24 none, .normal 18 33 none, .normal 21 19 none,
      .normal 21 20 none, .normal 21 22 none, .normal 21 23 none, .normal 21 29 none,
      .normal 21 30 none, .normal 21 37 none, .normal 21 39 none, .normal 21 45 none,
      .normal 35 43 none, .normal 35 44 none, .normal 36 19 none, .normal 36 26 none,
      .normal 36 30 none, .normal 36 42 none, .normal 36 46 none, .normal 36 51 none,
      .normal 36 53 none, .castle true, .castle false] : List Move) =
      [.normal 0 1 none, .normal 0 2 none, .normal 0 3 none, .normal 4 3 none, .normal 4 5 none,
      .normal 7 5 none, .normal 7 6 none, .normal 8 16 none, .normal 8 24 none,
      .normal 9 17 none, .normal 11 2 none, .normal 11 20 none] ++
      [.normal 11 29 none, .normal 11 38 none, .normal 11 47 none, .normal 12 3 none,
      .normal 12 5 none, .normal 12 19 none, .normal 12 26 none, .normal 12 33 none,
      .normal 12 40 none, .normal 14 22 none, .normal 14 30 none, .normal 14 23 none,
      .normal 18 1 none] ++
      [.normal 18 3 none, .normal 18 24 none, .normal 18 33 none, .normal 21 19 none,
      .normal 21 20 none, .normal 21 22 none, .normal 21 23 none, .normal 21 29 none,
      .normal 21 30 none, .normal 21 37 none, .normal 21 39 none, .normal 21 45 none] ++
      [.normal 35 43 none, .normal 35 44 none, .normal 36 19 none, .normal 36 26 none,
      .normal 36 30 none, .normal 36 42 none, .normal 36 46 none, .normal 36 51 none,
      .normal 36 53 none, .castle true, .castle false] := rfl
  rw [e]
  simp only [List.map_append, List.sum_append, kiwi2_0, kiwi2_1, kiwi2_2, kiwi2_3]

end Rawr.SpecS
