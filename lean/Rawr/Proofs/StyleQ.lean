import Rawr.Model.Style
import Mathlib.Tactic.Linarith
import Mathlib.Tactic.FieldSimp
import Mathlib.Tactic.Positivity
import Mathlib.Tactic.Ring
import Mathlib.Data.Rat.Defs
import Mathlib.Algebra.Order.Field.Basic
/-!
# The fractions of the style model denote rationals

`Q.val q = num / den` in `ℚ`; on fractions with positive denominator (`Q.Pos`) the operations of
`Rawr.Style.Q` are the field operations, `Q.div` fails exactly on a zero divisor, and `Q.le` is `≤`.
-/
namespace Rawr.Style
namespace Q

/-- the rational number denoted by a fraction. -/
def val (q : Q) : ℚ := (q.num : ℚ) / (q.den : ℚ)

/-- positive denominator. -/
def Pos (q : Q) : Prop := 0 < q.den

theorem pos_nat (n : Nat) : (Q.nat n).Pos := by simp [Pos, Q.nat]
theorem val_nat (n : Nat) : (Q.nat n).val = n := by simp [val, Q.nat]
theorem pos_dec (n d : Nat) (h : 0 < d) : (Q.dec n d).Pos := h
theorem val_dec (n d : Nat) : (Q.dec n d).val = (n : ℚ) / d := by simp [val, Q.dec]
theorem pos_zero : Q.zero.Pos := by simp [Pos, Q.zero]
theorem val_zero : Q.zero.val = 0 := by simp [val, Q.zero]
theorem pos_one : Q.one.Pos := by simp [Pos, Q.one]
theorem val_one : Q.one.val = 1 := by simp [val, Q.one]

theorem pos_add {a b : Q} (ha : a.Pos) (hb : b.Pos) : (a.add b).Pos := Nat.mul_pos ha hb
theorem val_add {a b : Q} (ha : a.Pos) (hb : b.Pos) : (a.add b).val = a.val + b.val := by
  have h1 : (a.den : ℚ) ≠ 0 := by exact_mod_cast (Nat.pos_iff_ne_zero.mp ha)
  have h2 : (b.den : ℚ) ≠ 0 := by exact_mod_cast (Nat.pos_iff_ne_zero.mp hb)
  simp only [val, add]
  push_cast
  field_simp

theorem pos_mul {a b : Q} (ha : a.Pos) (hb : b.Pos) : (a.mul b).Pos := Nat.mul_pos ha hb
theorem val_mul {a b : Q} (ha : a.Pos) (hb : b.Pos) : (a.mul b).val = a.val * b.val := by
  have h1 : (a.den : ℚ) ≠ 0 := by exact_mod_cast (Nat.pos_iff_ne_zero.mp ha)
  have h2 : (b.den : ℚ) ≠ 0 := by exact_mod_cast (Nat.pos_iff_ne_zero.mp hb)
  simp only [val, mul]
  push_cast
  field_simp

theorem val_eq_zero_iff {a : Q} (ha : a.Pos) : a.val = 0 ↔ a.num = 0 := by
  have h1 : (a.den : ℚ) ≠ 0 := by exact_mod_cast (Nat.pos_iff_ne_zero.mp ha)
  simp [val, h1]

/-- `/` raises exactly on a zero divisor … -/
theorem div_error_iff (a b : Q) (e : PyErr) : a.div b = .error e ↔ b.num = 0 ∧ e = .zeroDivision := by
  unfold div
  by_cases h0 : b.num = 0
  · simp [h0, eq_comm]
  · by_cases h1 : 0 < b.num <;> simp [h0, h1]

/-- … and otherwise is the quotient. -/
theorem div_ok {a b : Q} (ha : a.Pos) (hb : b.Pos) (h0 : b.num ≠ 0) :
    ∃ c, a.div b = .ok c ∧ c.Pos ∧ c.val = a.val / b.val := by
  have h1 : (a.den : ℚ) ≠ 0 := by exact_mod_cast (Nat.pos_iff_ne_zero.mp ha)
  have h2 : (b.den : ℚ) ≠ 0 := by exact_mod_cast (Nat.pos_iff_ne_zero.mp hb)
  have h3 : (b.num : ℚ) ≠ 0 := by exact_mod_cast h0
  unfold div
  by_cases hp : 0 < b.num
  · refine ⟨⟨a.num * b.den, a.den * b.num.toNat⟩, by simp [h0, hp], ?_, ?_⟩
    · exact Nat.mul_pos ha (by omega)
    · simp only [val]
      have : ((b.num.toNat : Nat) : ℚ) = (b.num : ℚ) := by
        have := Int.toNat_of_nonneg (le_of_lt hp)
        exact_mod_cast this
      push_cast
      rw [this]
      field_simp
  · have hn : b.num < 0 := by omega
    refine ⟨⟨-(a.num * b.den), a.den * (-b.num).toNat⟩, by simp [h0, hp], ?_, ?_⟩
    · exact Nat.mul_pos ha (by omega)
    · simp only [val]
      have : (((-b.num).toNat : Nat) : ℚ) = -(b.num : ℚ) := by
        have := Int.toNat_of_nonneg (show 0 ≤ -b.num by omega)
        exact_mod_cast this
      push_cast
      rw [this]
      field_simp

theorem div_eq_ok {a b c : Q} (ha : a.Pos) (hb : b.Pos) (h : a.div b = .ok c) :
    b.num ≠ 0 ∧ c.Pos ∧ c.val = a.val / b.val := by
  have h0 : b.num ≠ 0 := by
    intro h0
    have := (div_error_iff a b .zeroDivision).mpr ⟨h0, rfl⟩
    rw [this] at h
    cases h
  obtain ⟨c', hc', hp, hv⟩ := div_ok ha hb h0
  rw [hc'] at h
  cases h
  exact ⟨h0, hp, hv⟩

theorem le_iff {a b : Q} (ha : a.Pos) (hb : b.Pos) : a.le b = true ↔ a.val ≤ b.val := by
  have h1 : (0 : ℚ) < a.den := by exact_mod_cast ha
  have h2 : (0 : ℚ) < b.den := by exact_mod_cast hb
  simp only [le, decide_eq_true_eq, val]
  rw [div_le_div_iff₀ h1 h2]
  constructor
  · intro h
    exact_mod_cast h
  · intro h
    exact_mod_cast h

theorem inUnit_iff {v : Q} (hv : v.Pos) : v.inUnit = true ↔ 0 ≤ v.val ∧ v.val ≤ 1 := by
  simp only [inUnit, Bool.and_eq_true, le_iff pos_zero hv, le_iff hv pos_one, val_zero, val_one]

theorem pos_min {a b : Q} (ha : a.Pos) (hb : b.Pos) : (a.min b).Pos := by
  unfold min; split <;> assumption

theorem val_min {a b : Q} (ha : a.Pos) (hb : b.Pos) : (a.min b).val = Min.min a.val b.val := by
  unfold min
  by_cases h : a.le b = true
  · rw [if_pos h]
    rw [le_iff ha hb] at h
    exact (min_eq_left h).symm
  · rw [if_neg h]
    rw [le_iff ha hb] at h
    exact (min_eq_right (le_of_lt (not_le.mp h))).symm

end Q
end Rawr.Style
