import Rawr.Proofs.SpecSanityMirrorC
/-!
# Sanity of the specification, part 1 (d): castling, `legalMoves`, `Valid` and `leaves` are colour symmetric
-/
namespace Rawr.SpecS
open Rawr.Spec Rawr.Att Rawr.SV

/-! ### `span` -/

theorem x56_arith {s : Nat} (h : s < 64) : (s ^^^ 56) + 16 * (s / 8) = s + 56 := by
  have := x56_table ⟨s, h⟩
  simp only at this
  omega

theorem span_mirror {x y : Nat} (hx : x < 64) (hy : y < 64) (hxy : x / 8 = y / 8) :
    span (x ^^^ 56) (y ^^^ 56) = (span x y).map (· ^^^ 56) := by
  have ex := x56_arith hx
  have ey := x56_arith hy
  unfold span
  simp only [List.map_map]
  have hn : max (x ^^^ 56) (y ^^^ 56) - min (x ^^^ 56) (y ^^^ 56) + 1 = max x y - min x y + 1 := by omega
  rw [hn]
  apply List.map_congr_left
  intro i hi
  have hi := List.mem_range.mp hi
  simp only [Function.comp]
  have hlt : i + min x y < 64 := by omega
  have ei := x56_arith hlt
  have : (i + min x y) / 8 = x / 8 := by omega
  omega

theorem mem_span_lt {x y s : Nat} (hx : x < 64) (hy : y < 64) (h : s ∈ span x y) : s < 64 := by
  unfold span at h
  simp only [List.mem_map, List.mem_range] at h
  obtain ⟨i, hi, rfl⟩ := h
  omega

theorem all_congr_mem {α : Type} (l : List α) (p q : α → Bool) (h : ∀ x ∈ l, p x = q x) : l.all p = l.all q := by
  induction l with
  | nil => rfl
  | cons x xs ih =>
    simp only [List.all_cons]
    rw [h x List.mem_cons_self, ih (fun y hy => h y (List.mem_cons_of_mem _ hy))]

theorem x56_beq (x y : Nat) : (x ^^^ 56 == y ^^^ 56) = (x == y) := by
  rw [Bool.eq_iff_iff, beq_iff_eq, beq_iff_eq]
  constructor
  · intro h; have := congrArg (· ^^^ 56) h; simpa only [x56_x56] using this
  · intro h; rw [h]

/-! ### `castleLegal` -/

theorem castleLegal_of {a : APos} {ks : Bool} {rf k : Nat}
    (hr : right a a.whiteToMove ks = some rf) (hk : kingSquares a.board a.whiteToMove = [k]) :
    castleLegal a ks =
      (rank k == homeRank a.whiteToMove &&
       a.board (sq rf (homeRank a.whiteToMove)) == some ⟨a.whiteToMove, .rook⟩ &&
       (if ks = true then decide (file k < (rf : Int)) else decide ((rf : Int) < file k)) &&
       !attackedBy a.board (!a.whiteToMove) k &&
       ((span k (sq (if ks = true then 6 else 2) (homeRank a.whiteToMove)) ++
          span (sq rf (homeRank a.whiteToMove)) (sq (if ks = true then 5 else 3) (homeRank a.whiteToMove))).all
          fun s => s == k || s == sq rf (homeRank a.whiteToMove) || (a.board s).isNone) &&
       ((span k (sq (if ks = true then 6 else 2) (homeRank a.whiteToMove))).all
          fun s => !attackedBy a.board (!a.whiteToMove) s) &&
       !inCheck (apply a (.castle ks)).board a.whiteToMove) := by
  unfold castleLegal
  simp only [hr, hk]

theorem castleLegal_no_right {a : APos} {ks : Bool} (hr : right a a.whiteToMove ks = none) :
    castleLegal a ks = false := by
  unfold castleLegal
  simp only [hr]

theorem castleLegal_no_king {a : APos} {ks : Bool} (hk : (kingSquares a.board a.whiteToMove).length ≠ 1) :
    castleLegal a ks = false := by
  unfold castleLegal
  simp only
  split
  · next rf k hr hk' => rw [hk'] at hk; exact absurd rfl hk
  · rfl

theorem castleLegal_mirror (a : APos) (hR : RightsOK a) (ks : Bool) :
    castleLegal (mirrorA a) ks = castleLegal a ks := by
  have hw : (mirrorA a).whiteToMove = !a.whiteToMove := rfl
  have hbd : (mirrorA a).board = mirrorB a.board := rfl
  have hr' : right (mirrorA a) (mirrorA a).whiteToMove ks = right a a.whiteToMove ks := by
    rw [right_mirror, hw, Bool.not_not]
  cases hr : right a a.whiteToMove ks with
  | none =>
    rw [castleLegal_no_right hr, castleLegal_no_right (hr'.trans hr)]
  | some rf =>
    have hrf := hR _ _ _ hr
    by_cases hlen : (kingSquares a.board a.whiteToMove).length = 1
    · obtain ⟨k, hk⟩ : ∃ k, kingSquares a.board a.whiteToMove = [k] := by
        match hl : kingSquares a.board a.whiteToMove, hlen with
        | [k], _ => exact ⟨k, rfl⟩
      have hk' := kingSquares_mirror_singleton hk
      have uk := unique_of_kingSquares hk
      have hk64 := uk.1
      have hcm := apply_mirror_castle a hrf hr hk
      have hcb : (apply (mirrorA a) (.castle ks)).board = mirrorB (apply a (.castle ks)).board :=
        ((eqModFull_iff _ _).mp hcm).1
      rw [castleLegal_of (hr'.trans hr) hk', castleLegal_of hr hk, hcb]
      simp only [hw, hbd]
      rw [inCheck_mirror, sq_home_mirror hrf,
        sq_home_mirror' _ (by split <;> omega) (by split <;> omega),
        sq_home_mirror' _ (by split <;> omega) (by split <;> omega),
        rank_x56 hk64, homeRank_not, beq_seven_sub, file_x56 hk64, mirror_holds]
      have hatt : ∀ s, s < 64 → attackedBy (mirrorB a.board) (!!a.whiteToMove) (s ^^^ 56) =
          attackedBy a.board (!a.whiteToMove) s := fun s hs => attackedBy_mirror a.board (!a.whiteToMove) s hs
      rw [hatt k hk64]
      by_cases hrk : rank k = homeRank a.whiteToMove
      · -- all four squares are on the home rank
        generalize hkTo : sq (if ks = true then 6 else 2) (homeRank a.whiteToMove) = kTo
        generalize hrTo : sq (if ks = true then 5 else 3) (homeRank a.whiteToMove) = rTo
        generalize hrsq : sq (rf : Int) (homeRank a.whiteToMove) = rsq
        have hk8 : k / 8 = (homeRank a.whiteToMove).toNat := by
          unfold rank at hrk; omega
        have hkTo8 : kTo < 64 ∧ kTo / 8 = (homeRank a.whiteToMove).toNat := by
          rw [← hkTo]; cases a.whiteToMove <;> cases ks <;> decide
        have hrTo8 : rTo < 64 ∧ rTo / 8 = (homeRank a.whiteToMove).toNat := by
          rw [← hrTo]; cases a.whiteToMove <;> cases ks <;> decide
        have hrsq8 : rsq < 64 ∧ rsq / 8 = (homeRank a.whiteToMove).toNat := by
          rw [← hrsq]; unfold sq homeRank; cases a.whiteToMove <;> simp <;> omega
        rw [span_mirror hk64 hkTo8.1 (by omega), span_mirror hrsq8.1 hrTo8.1 (by omega),
          ← List.map_append, List.all_map, List.all_map]
        have e5 : (span k kTo ++ span rsq rTo).all
              ((fun s => s == k ^^^ 56 || s == rsq ^^^ 56 || (mirrorB a.board s).isNone) ∘ (· ^^^ 56)) =
            (span k kTo ++ span rsq rTo).all (fun s => s == k || s == rsq || (a.board s).isNone) := by
          apply all_congr_mem
          intro s _
          simp only [Function.comp, x56_beq, mirrorB_isNone]
        have e6 : (span k kTo).all ((fun s => !attackedBy (mirrorB a.board) (!!a.whiteToMove) s) ∘ (· ^^^ 56)) =
            (span k kTo).all (fun s => !attackedBy a.board (!a.whiteToMove) s) := by
          apply all_congr_mem
          intro s hs
          simp only [Function.comp]
          rw [hatt s (mem_span_lt hk64 hkTo8.1 hs)]
        rw [e5, e6]
      · have : (rank k == homeRank a.whiteToMove) = false := by rw [beq_eq_false_iff_ne]; exact hrk
        simp only [this, Bool.false_and]
    · have hlen' : (kingSquares (mirrorA a).board (mirrorA a).whiteToMove).length ≠ 1 := by
        rw [hw, hbd, kingSquares_mirror_length]; exact hlen
      rw [castleLegal_no_king hlen, castleLegal_no_king hlen']

/-! ### `legalMoves` -/

theorem pseudo_mem_squares {a : APos} {m : Move} (h : m ∈ squares.flatMap (pseudoFrom a)) :
    ∃ s t pr, m = .normal s t pr ∧ s < 64 ∧ t < 64 := by
  rw [List.mem_flatMap] at h
  obtain ⟨s0, hs0, hm⟩ := h
  obtain ⟨t, pr, pc, e, nl⟩ := pseudo_legal (List.mem_range.mp hs0) hm
  exact ⟨s0, t, pr, e, nl.hs, nl.ht⟩

/-- **the legal moves of the mirrored position are the mirrored legal moves** (as a multiset; both lists
are duplicate free). Holds for every position whose castling rights name files of the board — in
particular for every valid one. -/
theorem legalMoves_mirror (a : APos) (hR : RightsOK a) :
    (legalMoves (mirrorA a)).Perm ((legalMoves a).map mirrorMove) := by
  unfold legalMoves
  rw [List.map_append]
  apply List.Perm.append
  · refine ((pseudoAll_mirror a).filter _).trans ?_
    rw [List.filter_map]
    apply List.Perm.of_eq
    congr 1
    apply List.filter_congr
    intro m hm
    obtain ⟨s, t, pr, rfl, hs, ht⟩ := pseudo_mem_squares hm
    simp only [Function.comp, mirrorMove]
    have hcb : (apply (mirrorA a) (.normal (s ^^^ 56) (t ^^^ 56) pr)).board =
        mirrorB (apply a (.normal s t pr)).board :=
      ((eqModFull_iff _ _).mp (apply_mirror_normal a hR hs ht pr)).1
    rw [hcb]
    show (!inCheck (mirrorB _) (!a.whiteToMove)) = _
    rw [inCheck_mirror]
  · apply List.Perm.of_eq
    rw [List.map_map]
    have e : (fun ks => castleLegal (mirrorA a) ks) = fun ks => castleLegal a ks :=
      funext (castleLegal_mirror a hR)
    show List.map Move.castle (List.filter (fun ks => castleLegal (mirrorA a) ks) [true, false]) = _
    rw [e]
    rfl

theorem legalMoves_mirror_valid (a : APos) (hv : Valid a = true) :
    (legalMoves (mirrorA a)).Perm ((legalMoves a).map mirrorMove) :=
  legalMoves_mirror a (rightsOK_of_valid hv)

theorem mem_legalMoves_mirror {a : APos} (hR : RightsOK a) (m : Move) :
    mirrorMove m ∈ legalMoves (mirrorA a) ↔ m ∈ legalMoves a := by
  rw [(legalMoves_mirror a hR).mem_iff, List.mem_map]
  constructor
  · rintro ⟨m', hm', e⟩
    have := congrArg mirrorMove e
    rw [mirrorMove_mirrorMove, mirrorMove_mirrorMove] at this
    rw [← this]; exact hm'
  · intro h; exact ⟨m, h, rfl⟩

theorem legalMoves_mirror_length (a : APos) (hR : RightsOK a) :
    (legalMoves (mirrorA a)).length = (legalMoves a).length := by
  rw [(legalMoves_mirror a hR).length_eq, List.length_map]

/-! ### `leaves` -/

theorem rightsOK_apply {a : APos} (hR : RightsOK a) {m : Move} (hm : m ∈ legalMoves a) :
    RightsOK (apply a m) := by
  intro w ks f hr
  rcases legal_cases hm with ⟨s, t, pr, pc, e, nl, _⟩ | ⟨ks', e, hc⟩
  · subst e
    rw [right_apply_normal nl.hpc] at hr
    exact hR _ _ _ (lostCore_some hr).1
  · subst e
    obtain ⟨rf, k, cf⟩ := castle_facts hc
    rw [(apply_castle_fields cf).2.2.1] at hr
    split at hr
    · cases hr
    · exact hR _ _ _ hr

/-- **`leaves` (perft) is colour symmetric.** -/
theorem leaves_mirror (a : APos) (hR : RightsOK a) (d : Nat) : leaves (mirrorA a) d = leaves a d := by
  induction d generalizing a with
  | zero => rfl
  | succ d ih =>
    simp only [leaves]
    rw [((legalMoves_mirror a hR).map _).sum_nat, List.map_map]
    congr 1
    apply List.map_congr_left
    intro m hm
    simp only [Function.comp]
    rw [leaves_congr (apply_mirror hR hm) d]
    exact ih (apply a m) (rightsOK_apply hR hm)

theorem leaves_mirror_valid (a : APos) (hv : Valid a = true) (d : Nat) : leaves (mirrorA a) d = leaves a d :=
  leaves_mirror a (rightsOK_of_valid hv) d

/-! ### `Valid` -/

theorem rightOK_mirror {a : APos} {c ks : Bool} {f : Nat} (h : RightOK a c ks f) :
    RightOK (mirrorA a) (!c) ks f := by
  obtain ⟨h1, h2, k, hk, h3, h4⟩ := h
  have uk := unique_of_kingSquares hk
  refine ⟨h1, ?_, k ^^^ 56, kingSquares_mirror_singleton hk, ?_, ?_⟩
  · rw [sq_home_mirror h1]
    have := mirror_holds a.board (sq (f : Int) (homeRank c)) c .rook
    rw [Bool.eq_iff_iff, beq_iff_eq, beq_iff_eq] at this
    exact this.mpr h2
  · rw [rank_x56 uk.1, homeRank_not, h3]
  · rw [file_x56 uk.1]; exact h4

theorem validFacts_mirror {a : APos} (v : ValidFacts a) : ValidFacts (mirrorA a) := by
  refine ⟨?_, ?_, ?_, ?_, ?_, ?_, v.half, v.full⟩
  · obtain ⟨k, hk⟩ := v.kb
    exact ⟨_, uniqueKing_mirror hk⟩
  · obtain ⟨k, hk⟩ := v.kw
    exact ⟨_, uniqueKing_mirror hk⟩
  · intro s hs pc' hpc' hkd
    have hb : (mirrorA a).board s = (a.board (s ^^^ 56)).map flipPiece := rfl
    rw [hb] at hpc'
    cases hq : a.board (s ^^^ 56) with
    | none => rw [hq] at hpc'; cases hpc'
    | some pc =>
      rw [hq] at hpc'
      have : pc.kind = .pawn := by
        have := Option.some.inj hpc'
        rw [← this] at hkd; exact hkd
      have := v.pawns _ (x56_lt hs) pc hq this
      rw [rank_x56 hs] at this
      have := rank_bounds hs
      omega
  · show inCheck (mirrorB a.board) (!!a.whiteToMove) = false
    rw [inCheck_mirror]; exact v.notInCheck
  · intro w ks f hr
    rw [right_mirror] at hr
    have := rightOK_mirror (v.rights _ _ _ hr)
    rw [Bool.not_not] at this
    exact this
  · intro e' he'
    have hep : (mirrorA a).ep = a.ep.map (· ^^^ 56) := rfl
    rw [hep] at he'
    cases he : a.ep with
    | none => rw [he] at he'; cases he'
    | some e =>
      rw [he] at he'
      have := Option.some.inj he'
      subst this
      obtain ⟨h1, h2, h3⟩ := v.ep e he
      have he64 : e < 64 := by
        unfold rank at h1
        split at h1 <;> omega
      have hw : (mirrorA a).whiteToMove = !a.whiteToMove := rfl
      have hbd : (mirrorA a).board = mirrorB a.board := rfl
      rw [hw, hbd]
      refine ⟨?_, ?_, ?_⟩
      · rw [rank_x56 he64, h1]; cases a.whiteToMove <;> rfl
      · rw [mirrorB_x56, h2]; rfl
      · have hsq : sq (file (e ^^^ 56)) (if (!a.whiteToMove) = true then 4 else 3) =
            sq (file e) (if a.whiteToMove = true then 4 else 3) ^^^ 56 := by
          rw [file_x56 he64]
          have : (if (!a.whiteToMove) = true then (4 : Int) else 3) = 7 - (if a.whiteToMove = true then 4 else 3) := by
            cases a.whiteToMove <;> rfl
          rw [this]
          apply sq_mirror
          have := file_bounds e
          rw [onBoard_iff]; split <;> omega
        rw [hsq]
        have := mirror_holds a.board (sq (file e) (if a.whiteToMove = true then 4 else 3)) (!a.whiteToMove) .pawn
        rw [Bool.eq_iff_iff, beq_iff_eq, beq_iff_eq] at this
        exact this.mpr h3

/-- **validity is colour symmetric.** -/
theorem valid_mirror (a : APos) : Valid (mirrorA a) = Valid a := by
  rw [Bool.eq_iff_iff, valid_iff, valid_iff]
  constructor
  · intro h
    have := validFacts_mirror h
    rwa [mirrorA_mirrorA] at this
  · exact validFacts_mirror

end Rawr.SpecS
